#!/bin/bash
# Offline setup after a fresh restore: build the Coq development, the extracted model driver and
# the hooked harness. Everything comes from files on disk.
set -e
cd /verif
mkdir -p .cache evidence replays
cp -n /repo/Cargo.lock harness/Cargo.lock 2>/dev/null || true
bash build_model.sh
( cd harness && RUSTFLAGS="--cfg mrecordlog_verif" CARGO_TARGET_DIR=/verif/.cache/target CARGO_NET_OFFLINE=true cargo build --offline --quiet )
test -x model/mrl-model && test -x .cache/target/debug/mrl-drive && echo "setup ok"
