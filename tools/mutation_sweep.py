#!/usr/bin/env python3
"""mutation_sweep.py N SEED — automatic first-order mutants of the crate (comparison flips, +/-1 drops,
boolean flips, early-return removals) in scratch worktrees of /repo; a mutant is kept if it compiles and the
crate's own test suite still passes; every kept mutant is run against ALL quick checks through MRL_REPO (never
touching /repo). Prints one line per mutant and a summary (mutation score). Results: /verif/.cache/mutation.json"""
import json, os, random, re, shutil, subprocess, sys, time

ROOT = os.path.dirname(os.path.dirname(os.path.abspath(__file__)))
FILES = ["src/multi_record_log.rs", "src/mem/queue.rs", "src/mem/queues.rs", "src/mem/rolling_buffer.rs", "src/frame/reader.rs",
         "src/frame/writer.rs", "src/frame/header.rs", "src/recordlog/reader.rs", "src/recordlog/writer.rs", "src/rolling/directory.rs",
         "src/rolling/file_number.rs", "src/record.rs", "src/persist_policy.rs"]
OPS = [(r" < ", " <= "), (r" <= ", " < "), (r" > ", " >= "), (r" >= ", " > "), (r" == ", " != "), (r" != ", " == "),
       (r" \+ 1", ""), (r" - 1", ""), (r" \+ 1", " + 2"), (r"\btrue\b", "false"), (r"\bfalse\b", "true"), (r" && ", " || "), (r" \|\| ", " && "),
       (r"\.is_empty\(\)", ".is_empty() == false"), (r" \+= ", " -= ")]


def sh(cmd, cwd=None, env=None, timeout=3000):
    e = dict(os.environ); e.update(env or {})
    try:
        p = subprocess.run(cmd, cwd=cwd, env=e, capture_output=True, text=True, shell=isinstance(cmd, str), timeout=timeout)
    except subprocess.TimeoutExpired:
        subprocess.run("pkill -f 'mutsweep-.*/target/debug/deps/mrecordlog' ; true", shell=True)
        return 124, "timeout"
    return p.returncode, p.stdout + p.stderr


def candidates(wt, rng):
    out = []
    for f in FILES:
        lines = open(os.path.join(wt, f)).read().split("\n")
        in_test = False
        for i, l in enumerate(lines):
            if "#[cfg(test)]" in l:
                in_test = True
            s = l.strip()
            if in_test or s.startswith("//") or s.startswith("#[") or "mrecordlog_verif" in l or "assert" in l or "debug!" in l or "warn!" in l or "info!" in l or "error!" in l:
                continue
            for pat, rep in OPS:
                for m in re.finditer(pat, l):
                    out.append((f, i, m.start(), m.end(), rep, pat))
    rng.shuffle(out)
    return out


def main():
    n = int(sys.argv[1]); seed = int(sys.argv[2]) if len(sys.argv) > 2 else 0
    rng = random.Random(seed)
    wt = "/tmp/mutsweep-%d" % seed
    sh("git -C /repo worktree remove --force %s" % wt); sh("git -C /repo worktree add -f %s HEAD" % wt)
    env = {"CARGO_TARGET_DIR": wt + "/target", "CARGO_NET_OFFLINE": "true"}
    cands = candidates(wt, rng)
    results = []
    checks = ["C05", "C13", "C15", "C16", "C01", "C07", "C06", "C14", "C18", "C04", "C17", "C11", "C09", "C12", "C08", "C10", "C03", "C02"]
    kept = 0
    for (f, i, a, b, rep, pat) in cands:
        if kept >= n:
            break
        path = os.path.join(wt, f)
        orig = open(path).read()
        lines = orig.split("\n")
        lines[i] = lines[i][:a] + rep + lines[i][b:]
        open(path, "w").write("\n".join(lines))
        desc = "%s:%d `%s` -> `%s`: %s" % (f, i + 1, pat.replace("\\", ""), rep, lines[i].strip()[:90])
        rc, out = sh("cargo build --offline --quiet 2>&1 | tail -3", cwd=wt, env=env)
        rc, out = sh("cargo test --offline --quiet 2>&1 | grep -E '^test result|error' | head -5", cwd=wt, env=env, timeout=600)
        ok = "test result: ok. 66 passed" in out
        if not ok:
            open(path, "w").write(orig)
            print("dead-by-suite  ", desc, flush=True)
            results.append({"mutant": desc, "status": "killed_by_own_suite"})
            continue
        kept += 1
        caught_by = []
        for c in checks:
            rc, out = sh([os.path.join(ROOT, "check"), c, "--tier", "quick"], cwd=ROOT,
                         env={"MRL_REPO": wt, "VERIF_EVIDENCE_DIR": "/tmp/mutsweep-ev"}, timeout=1500)
            if rc == 1 and "VIOLATION" in out:
                caught_by.append(c + ("*" if "no-failing-input-found" in out else ""))
                break
        print(("caught by %-6s" % caught_by[0]) if caught_by else "SURVIVED      ", desc, flush=True)
        results.append({"mutant": desc, "status": "caught" if caught_by else "survived", "by": caught_by})
        open(path, "w").write(orig)
    sh("git -C /repo worktree remove --force %s" % wt)
    surv = [r for r in results if r["status"] == "survived"]
    caught = [r for r in results if r["status"] == "caught"]
    print("SUMMARY: %d candidates tried, %d killed by the crate's own suite, %d reached the checks: %d caught, %d survived" % (
        len(results), len([r for r in results if r["status"] == "killed_by_own_suite"]), len(caught) + len(surv), len(caught), len(surv)))
    json.dump(results, open(os.path.join(ROOT, ".cache", "mutation-%d.json" % seed), "w"), indent=1)


main()
