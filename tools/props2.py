"""Second batch of property classes: crash, damage, fault, metamorphic and file-set oracles.
Everything here drives the real crate through mrl-drive; the model is run on the same scripts
for the correspondence. Two-pass generators first run a base history on the real crate to learn
its I/O event trace, then derive crash / damage cases from that trace."""
import os, random, re, time, zlib, struct
import mrl
from mrl import (HistGen, RefMap, obs_of, logical, outcome_of, events_of, ls_of, use_of,
                 name_bytes, show_name, payload_len, payload_bytes, fnv32)
from props import (PropBase, split_cmd, apply_ref, ref_obs, summarize, payload_token_key, PROPS)

MUT = ("create", "delete", "append", "truncate")


# --------------------------------------------------------------------------- trace helpers
def parse_ev(line):
    """'ev IDX kind args..' -> dict"""
    p = line.split()
    d = {"idx": int(p[1]), "kind": p[2]}
    if len(p) > 3:
        d["name"] = p[3]
    if p[2] == "write":
        d["off"] = int(p[4]); d["len"] = int(p[5])
    if p[2] == "setlen":
        d["len"] = int(p[4])
    return d


def trace_events(tr):
    """-> list of (cmd_index, evdict) in order"""
    out = []
    for c in tr:
        for l in events_of(c):
            out.append((c["idx"], parse_ev(l)))
    return out


def file_no(name):
    return int(name[4:])


def ref_states(cmds):
    """RefMap snapshots: states[i] = spec state before cmds[i]; states[len] = final.
    Restarts (drop/open) do not change the spec state."""
    ref = RefMap()
    states = [ref.copy()]
    for cmd in cmds:
        toks = split_cmd(cmd)
        if toks and toks[0] in MUT:
            apply_ref(ref, toks)
        states.append(ref.copy())
    return states


def is_suffix(small, big):
    return len(small) <= len(big) and (len(small) == 0 or big[len(big) - len(small):] == small)


def loose_match(R, S, later_cmds):
    """R (logical obs) matches spec state S up to the tolerated deviation: truncations / deletions
    issued later (later_cmds) may already be partly applied: for the queue they address, R's records
    are a list-suffix of S's (next position as in S), or the queue is gone if it is deleted later."""
    want = ref_obs(S)
    if R == want:
        return True
    later_t = set()
    later_d = set()
    for cmd in later_cmds:
        t = split_cmd(cmd)
        if t and t[0] == "truncate":
            later_t.add(show_name(name_bytes(t[1])))
        if t and t[0] == "delete":
            later_d.add(show_name(name_bytes(t[1])))
    for q, (recs, nxt) in want.items():
        if q not in R:
            if q in later_d:
                continue
            return False
        rrecs, rnext = R[q]
        if (rrecs, rnext) == (recs, nxt):
            continue
        if q in later_t or q in later_d:
            if is_suffix(rrecs, recs) and (rnext == nxt or (not rrecs and rnext >= nxt)):
                continue
        return False
    for q in R:
        if q not in want:
            return False
    return True


def continuation(rng, names):
    """a fixed little workload run after a recovery, ending with a clean restart"""
    cmds = []
    for n in names[:3]:
        cmds.append("append %s - 7:901 0:902" % n)
    cmds.append("create =zcont")
    cmds.append("append =zcont - 33000:903")
    for n in names[:2]:
        cmds.append("truncate %s 0" % n)
    cmds.append("append =zcont - 40:904")
    cmds.append("drop")
    cmds.append("open af")
    return cmds


def check_continuation(cmds, tr, start_idx, ref, vs, shape):
    """runs the spec over cmds[start_idx:] from ref, comparing outcome classes and observable
    state after every mutating call and after the final restart"""
    for i in range(start_idx, min(len(cmds), len(tr))):
        toks = split_cmd(cmds[i])
        c = tr[i]
        out = outcome_of(c) or ""
        if toks[0] in MUT:
            res = apply_ref(ref, toks)
            if res[0] == "err":
                if "err=%s" % res[1] not in out:
                    vs.append({"msg": "after recovery, cmd %d `%s`: spec says %s, crate says %r" % (i, cmds[i], res, out), "shape": shape})
                    return False
            else:
                if " ok" not in out:
                    vs.append({"msg": "after recovery, cmd %d `%s` failed: %r" % (i, cmds[i], out), "shape": shape})
                    return False
                if toks[0] == "append" and res[1] is not None and " last=%d " % res[1] not in out:
                    vs.append({"msg": "after recovery, cmd %d `%s`: last_position should be %d: %r" % (i, cmds[i], res[1], out), "shape": shape})
                    return False
            if logical(obs_of(c)) != ref_obs(ref):
                vs.append({"msg": "after recovery, cmd %d `%s`: state differs from an uncrashed log: got %r want %r" % (
                    i, cmds[i], summarize(logical(obs_of(c))), summarize(ref_obs(ref))), "shape": shape})
                return False
        elif toks[0] == "open":
            if out != "out open ok":
                vs.append({"msg": "after recovery, restart at cmd %d failed: %r" % (i, out), "shape": shape})
                return False
            if logical(obs_of(c)) != ref_obs(ref):
                vs.append({"msg": "after recovery, restart at cmd %d lost state: got %r want %r" % (
                    i, summarize(logical(obs_of(c))), summarize(ref_obs(ref))), "shape": shape})
                return False
    return True



def aim_file_end(cursor, qlen, r):
    """payload length of a one-record append that leaves exactly r bytes before the end of the
    current WAL file (None if it does not fit)"""
    B, F = mrl.B, mrl.FILE
    blocks_left = (F - cursor % F + B - 1) // B if cursor % F else mrl.NBV
    if cursor % F == 0:
        blocks_left = mrl.NBV
    extra = blocks_left - 1
    if r >= B - 7:
        return None
    return mrl.aimed_payload_len(cursor % F if cursor % F else 0, qlen, r, extra) if blocks_left >= 1 else None


def aim_stream_pos(cursor, qlen, target):
    """payload length L of a one-record append starting at stream offset cursor that ends exactly at
    stream offset target (None if no such L)"""
    lo, hi = 0, max(0, target - cursor)
    over = 11 + qlen + 12
    while lo <= hi:
        mid = (lo + hi) // 2
        end = mrl.advance(cursor, over + mid)
        if end == target:
            return mid
        if end < target:
            lo = mid + 1
        else:
            hi = mid - 1
    return None


# --------------------------------------------------------------------------- CRC linearity (finding F8)
def linear_tail(d4):
    """8 bytes d ++ rawcrc(d): appending them to any data gives the same CRC-32 as appending 8 zero bytes
    (CRC-32 is affine), so a torn write that loses exactly these bytes is not detected"""
    raw = zlib.crc32(d4, 0xFFFFFFFF) ^ 0xFFFFFFFF
    return d4 + raw.to_bytes(4, "little")


def zero_tail_variant(tok, rec):
    """is the recovered record (pos, len, hash) the appended payload `tok` with a zero-filled tail of equal CRC?"""
    b = payload_bytes(tok)
    if len(b) != rec[1]:
        return False
    c = zlib.crc32(b)
    for k in range(max(0, len(b) - 64), len(b) - 3):
        v = b[:k] + bytes(len(b) - k)
        if v != b and zlib.crc32(v) == c and "%08x" % fnv32(v) == rec[2]:
            return True
    return False


def explained_by_linear_tail(R, want, cmds):
    """R equals `want` except for records that are zero-tail variants (equal CRC) of the appended ones"""
    if set(R) != set(want):
        return False
    appended = {}
    ref = RefMap()
    for cmd in cmds:
        t = split_cmd(cmd)
        if t and t[0] in MUT:
            res = apply_ref(ref, t)
            if t[0] == "append" and res[0] == "ok" and res[1] is not None:
                n = len(t) - 3
                for k in range(n):
                    appended[(show_name(name_bytes(t[1])), res[1] - n + 1 + k)] = t[3 + k]
    found = False
    for q in want:
        (wr, wn), (rr, rn) = want[q], R[q]
        if wn != rn or len(wr) != len(rr):
            return False
        for a, b in zip(wr, rr):
            if a == b:
                continue
            if a[0] != b[0] or (q, a[0]) not in appended or not zero_tail_variant(appended[(q, a[0])], b):
                return False
            found = True
    return found


class _G:
    """stand-in for a HistGen in hand-made base histories"""
    def __init__(self, cmds, names):
        self.cmds, self.names, self.stats = cmds, names, {}


def aimed_gc_base(rng, i, policies, stats):
    """three hand-made base histories around the file GC (None when i selects none of them):
    i % 6 == 0: a delete that frees files followed by the delete of an idle empty queue;
    i % 6 == 2: the GC's own position records roll the writer over (cursor r bytes before a file end,
                several empty queues);
    i % 6 == 4: one GC pass releases two or more files at once, and a later file holds calls that
                supersede content of an earlier one (delete of a queue created earlier, truncations)"""
    pol = rng.choice(policies)
    if i % 6 == 2:
        r = rng.randrange(8, 200)
        nq = rng.choice([2, 3, 3, 5, 8])
        cmds = ["open %s" % pol]
        cursor = 0
        for k in range(nq):
            cmds.append("create =q%d" % k); cursor = mrl.advance(cursor, 11 + 2)
        for k in range(1, nq):
            cmds.append("append =q%d - 5:%d" % (k, k)); cursor = mrl.advance(cursor, 11 + 2 + 12 + 5)
            cmds.append("truncate =q%d %d" % (k, rng.choice([0, 0, 3]))); cursor = mrl.advance(cursor, 11 + 2)
        target = 2 * mrl.FILE - r - (7 + 11 + 2)
        l = aim_stream_pos(cursor, 2, target)
        if l is None:
            return None
        cmds.append("append =q0 - %d:9" % l)
        cmds.append("truncate =q0 0")
        if rng.random() < 0.5:
            cmds.append("append =q1 - 3:3")
        stats["gc_roll_bases"] = stats.get("gc_roll_bases", 0) + 1
        return _G(cmds, ["=q%d" % k for k in range(nq)])
    if i % 6 == 0:
        # delete a queue that alone pins the oldest files, then delete (or empty) idle EMPTY queues while files are
        # still pending collection: every position record a GC pass writes must describe the state AFTER the call
        F = mrl.FILE
        cmds = ["open %s" % pol, "create =x", "create =y", "create =z", "append =z - 7:1", "truncate =z 0"]
        for k in range(rng.randrange(3, 6)):
            cmds.append("append =x - %d:%d" % (rng.randrange(F // 3, F // 2), 10 + k))
        cmds.append(rng.choice(["delete =x", "truncate =x 99"]))
        cmds.append(rng.choice(["delete =y", "delete =z", "delete =y"]))
        if rng.random() < 0.5:
            cmds.append("create =y2")
        stats["two_deletes_bases"] = stats.get("two_deletes_bases", 0) + 1
        return _G(cmds, ["=x", "=y", "=z"])
    if i % 6 == 4:
        F = mrl.FILE
        big = lambda: rng.randrange(F // 3, F // 2)
        cmds = ["open %s" % pol, "create =pin", "create =gone", "append =pin - %d:1" % rng.randrange(10, 2000), "create =w",
                "append =gone - 9:2", "append =w - %d:3" % big(), "append =w - %d:4" % big(), "append =w - %d:5" % big(),
                "delete =gone", "truncate =w 1", "append =pin - %d:6" % rng.randrange(1, 900)]
        for k in range(rng.randrange(2, 5)):
            cmds.append("append =w - %d:%d" % (big(), 10 + k))
        cmds.append("truncate =w 99")
        cmds.append("truncate =pin 99")
        if rng.random() < 0.6:
            cmds.append("append =w - 10:30")
        stats["multi_release_bases"] = stats.get("multi_release_bases", 0) + 1
        return _G(cmds, ["=pin", "=w", "=gone"])
    return None


class TwoPass(PropBase):
    """base histories are run once on the real crate; cases are derived from their traces"""
    base_quick = 24
    base_thorough = 120
    per_base_quick = 20
    per_base_thorough = 70

    def nbase(self):
        return self.base_quick if self.tier == "quick" else self.base_thorough

    def per_base(self):
        return self.per_base_quick if self.tier == "quick" else self.per_base_thorough

    def base_history(self, rng, i):
        a = aimed_gc_base(rng, i, self.policies, self.stats)
        if a is not None:
            return a.cmds, a
        g = HistGen(rng, policy=rng.choice(self.policies), max_payload=45000)
        g.run(rng.randrange(5, 22), weights={"create": 8, "delete": 5, "append": 48, "truncate": 28, "persist": 3, "restart": 4})
        self.merge_stats(g.stats)
        return g.cmds, g

    def derive(self, rng, bid, cmds, g, tr):
        raise NotImplementedError

    def generate(self, n=None, tag="g"):
        nb = n or self.nbase()
        bases = []
        for i in range(nb):
            rng = random.Random(self.rng.random())
            cmds, g = self.base_history(rng, i)
            bases.append(("%sb%d" % (tag, i), cmds, g, rng))
        real = mrl.run_real([(b[0], b[1]) for b in bases], deadline_ms=self.deadline_ms())
        cases = []
        for bid, cmds, g, rng in bases:
            tr = real.get(bid, [])
            if len(tr) < len(cmds):
                # the crate hung or the driver died on a plain history: nothing can be derived from it, and that
                # must not pass silently (reported by ./check as a broken obligation)
                self.stats["first_pass_failed"] = self.stats.get("first_pass_failed", 0) + 1
                self.gen_problems = getattr(self, "gen_problems", []) + [
                    "first pass of base history %s stopped after %d of %d commands: %r" % (
                        bid, len(tr), len(cmds), (outcome_of(tr[-1]) if tr else None))]
                continue
            cases.extend(self.derive(rng, bid, cmds, g, tr))
        return cases


def crash_points(rng, cmds, tr, nmax, from_cmd=0, byte_cuts=True):
    """-> list of (cmd_index_in_flight, cut, k): cut = event index, k = bytes of a torn write"""
    evs = [(ci, e) for ci, e in trace_events(tr) if ci >= from_cmd]
    pts = []
    for ci, e in evs:
        pts.append((ci, e["idx"], 0, 3 if e["kind"] in ("create", "setlen", "unlink", "syncdata", "syncdir", "flush") else 1))
        if e["kind"] == "write" and byte_cuts:
            ln = e["len"]
            kb = mrl.B - e["off"] % mrl.B        # tear exactly at the next block boundaries
            ks = set([1, 3, 4, 6, 7, 8, ln - 1, ln // 2, rng.randrange(1, ln + 1), rng.randrange(1, ln + 1), kb, kb + mrl.B])
            for k in ks:
                if 0 < k < ln:
                    pts.append((ci, e["idx"], k, 2))
    if evs:
        last = evs[-1]
        pts.append((len(cmds), last[1]["idx"] + 1, 0, 1))
    if len(pts) > nmax:
        w = [p[3] for p in pts]
        # always: before every unlink (the windows of a GC pass) and after the last event
        kinds = {e["idx"]: e["kind"] for _, e in evs}
        chosen = set(i for i, p in enumerate(pts) if p[2] == 0 and (kinds.get(p[1]) == "unlink" or p[0] == len(cmds)))
        if len(chosen) > nmax // 2:
            chosen = set(rng.sample(sorted(chosen), nmax // 2))
        tries = 0
        while len(chosen) < nmax and tries < nmax * 20:
            chosen.add(rng.choices(range(len(pts)), w)[0])
            tries += 1
        pts = [pts[i] for i in sorted(chosen)]
    return [(a, b, c) for a, b, c, _ in pts]


def inflight_cmd(tr, cut):
    """index of the command whose events contain event index `cut` (or None = after all)"""
    for ci, e in trace_events(tr):
        if e["idx"] == cut:
            return ci
    return None


# =========================================================================== C02
class C02(TwoPass):
    pid = "C02"
    prefixes = ("out", "ev", "q", "r", "lr", "ls")
    policies = ["af", "as"]
    rule = ("base histories (HistGen, flush-per-operation policies, roll-over, GC, delete/re-create) are run once to learn their I/O "
            "event trace; crash images are cut before every kind of event (file creation, set_len, unlink, sync, flush weighted up) and "
            "inside write events at byte offsets {1,3,4,6,7,8,len/2,len-1,random}; each image is opened, a fixed continuation "
            "workload and a clean restart follow; every third image is crashed a second time 0-9 effects into its own recovery and reopened; non-trivial = a roll-over or non-ok outcome occurred; distinct = distinct transcripts")
    oracle_text = ("open of every crash image must succeed; the recovered state must equal the specification state of all completed calls, "
                   "or that plus the in-flight call, or (in-flight truncate/delete only) a partial application where some of the oldest records it targets "
                   "are gone; then the continuation workload and a clean restart must behave exactly as the specification from the recovered state")

    def derive(self, rng, bid, cmds, g, tr):
        out = []
        names = list(g.names)
        for (ci, cut, k) in crash_points(rng, cmds, tr, self.per_base()):
            prefix = cmds[:min(ci + 1, len(cmds))]
            case = prefix + ["crash %d %d" % (cut, k), "open af"] + continuation(rng, names)
            out.append(("%s_c%d_%d" % (bid, cut, k), case))
            self.stats["crash_images"] = self.stats.get("crash_images", 0) + 1
            if self.stats["crash_images"] % 3 == 0:
                # a second crash during the recovery's own effects (set_len of the last file, position
                # entries of the recovery-time GC, unlinks, syncs): cut 0..9 events after the first image
                cut2 = cut + (1 if k else 0) + rng.randrange(0, 10)
                k2 = rng.choice([0, 0, 1, 3, 6, 7, 8, 12, 19])
                case2 = prefix + ["crash %d %d" % (cut, k), "open af", "crash %d %d" % (cut2, k2), "open af"] + continuation(rng, names)
                out.append(("%s_c%d_%d_cc%d_%d" % (bid, cut, k, cut2, k2), case2))
                self.stats["second_crashes"] = self.stats.get("second_crashes", 0) + 1
            if k:
                self.stats["torn_writes"] = self.stats.get("torn_writes", 0) + 1
        return out

    known_shape = "crc-linear-tail"

    def generate(self, n=None, tag="g"):
        cases = TwoPass.generate(self, n, tag)
        # finding F8, re-confirmed on every run: a payload whose last 8 bytes are d ++ rawcrc(d); the write is
        # cut exactly before them (events: open 0-4, create 5-8, the append's single write is event 9)
        for k, d4 in enumerate([b"\x01\x00\x00\x00", b"abcd"]):
            pl = mrl.gen_payload(100 + 17 * k, 4) + linear_tail(d4)
            total = 7 + 11 + 1 + 12 + len(pl)
            cases.append(("lintail%d" % k, ["open af", "create =q", "append =q - x%s" % pl.hex(),
                                            "crash 9 %d" % (total - 8), "open af", "drop", "open af"]))
        return cases

    def oracle(self, cid, cmds, tr):
        vs = []
        ci = next((i for i, c in enumerate(cmds) if c.startswith("crash ")), None)
        if ci is None or ci + 1 >= len(tr):
            return vs
        cut = int(cmds[ci].split()[1])
        prefix = cmds[:ci]
        states = ref_states(prefix)
        j = inflight_cmd(tr[:ci], cut)
        if j is None:
            j = len(prefix)
        o = tr[ci + 1]
        out = outcome_of(o)
        if out == "out open ok" and j < len(prefix) and logical(obs_of(o)) not in (ref_obs(states[j]), ref_obs(states[j + 1])) \
                and explained_by_linear_tail(logical(obs_of(o)), ref_obs(states[j + 1]), prefix):
            vs.append({"msg": "crash inside the write of cmd %d `%s...`: the torn-off tail of the payload has the CRC of zeros (CRC-32 is affine): open returns the record with a zero-filled tail, which was never appended" % (
                j, prefix[j][:40]), "shape": "crc-linear-tail", "shrinkable": False})
            return vs
        if out != "out open ok":
            vs.append({"msg": "open of the crash image (cut before event %d, in cmd %d `%s`) failed: %r" % (
                cut, j, prefix[j] if j < len(prefix) else "-", out), "shape": "crash-open-failed"})
            return vs
        R = logical(obs_of(o))
        cands = [states[j]]
        later = []
        if j < len(prefix):
            cands.append(states[j + 1])
            later = [prefix[j]]
        matched = None
        for S in reversed(cands):
            if R == ref_obs(S):
                matched = S
                break
        if matched is None and later and loose_match(R, states[j], later):
            # partial truncate / delete: continue from what was recovered
            matched = RefMap()
            for q, (recs, nxt) in R.items():
                pass
            matched = None
            partial = True
        else:
            partial = False
        if matched is None and not partial:
            vs.append({"msg": "crash before event %d (in cmd %d `%s`): recovered state is neither the completed calls nor those plus the in-flight one: got %r, completed %r" % (
                cut, j, prefix[j] if j < len(prefix) else "-", summarize(R), summarize(ref_obs(states[j]))), "shape": "crash-state"})
            return vs
        nxt = ci + 2
        if nxt < len(cmds) and cmds[nxt].startswith("crash ") and nxt + 1 < len(tr):
            o2 = tr[nxt + 1]
            if outcome_of(o2) != "out open ok":
                vs.append({"msg": "second crash (`%s`) during the recovery from `%s`: open failed: %r" % (cmds[nxt], cmds[ci], outcome_of(o2)), "shape": "second-crash"})
                return vs
            if logical(obs_of(o2)) != R:
                vs.append({"msg": "second crash (`%s`) during the recovery from `%s`: recovered %r, the first recovery had %r" % (
                    cmds[nxt], cmds[ci], summarize(logical(obs_of(o2))), summarize(R)), "shape": "second-crash"})
                return vs
            nxt += 2
        if matched is not None:
            check_continuation(cmds, tr, nxt, matched.copy(), vs, "crash-continuation")
        return vs


# =========================================================================== C03
class C03(TwoPass):
    pid = "C03"
    known_shape = "crc-linear-tail"

    def generate(self, n=None, tag="g"):
        cases = TwoPass.generate(self, n, tag)
        pl = mrl.gen_payload(90, 6) + linear_tail(b"\x07\x00\x01\x02")
        total = 7 + 11 + 1 + 12 + len(pl)
        # Always(FlushAndFsync): the append's single write is event 9 (open 0-4, create 5-8)
        cases.append(("lintail0_c9_%d_c" % (total - 8), ["open as", "create =q", "append =q - x%s" % pl.hex(),
                                                         "crash 9 %d" % (total - 8), "open af"]))
        return cases

    prefixes = ("out", "ev", "q", "r", "lr", "ls")
    policies = ["no", "dif", "dis", "af", "as", "no", "dif"]
    rule = ("base histories under every policy (DoNothing, OnDelay with an interval longer than the run, Always(Flush), Always(FlushAndFsync)) "
            "with explicit persist calls interleaved, roll-over and GC; crash images at every kind of event in two loss models: process crash "
            "(what reached the OS; byte cuts inside writes) and power loss (only writes followed by a sync_data of their file survive); "
            "non-trivial/distinct as for C02")
    oracle_text = ("persist point = last completed call that is a create/delete (any policy), any mutating call under an Always policy (power loss: "
                   "Always(FlushAndFsync) only) or an explicit persist (power loss: FlushAndFsync only); open of the image must succeed and the recovered "
                   "state must be the specification state after some call at or after the persist point (later truncations/deletions may be partly applied)")

    def base_history(self, rng, i):
        a = aimed_gc_base(rng, i, self.policies, self.stats)
        if a is not None:
            return a.cmds, a
        g = HistGen(rng, policy=rng.choice(self.policies), max_payload=45000)
        g.run(rng.randrange(6, 24), weights={"create": 8, "delete": 5, "append": 45, "truncate": 27, "persist": 12, "restart": 3})
        self.merge_stats(g.stats)
        return g.cmds, g

    def derive(self, rng, bid, cmds, g, tr):
        out = []
        for (ci, cut, k) in crash_points(rng, cmds, tr, self.per_base()):
            prefix = cmds[:min(ci + 1, len(cmds))]
            if rng.random() < 0.4 and k == 0:
                case = prefix + ["powerloss %d" % cut, "open af"]
                self.stats["power_images"] = self.stats.get("power_images", 0) + 1
            else:
                case = prefix + ["crash %d %d" % (cut, k), "open af"]
                self.stats["crash_images"] = self.stats.get("crash_images", 0) + 1
            out.append(("%s_c%d_%d_%s" % (bid, cut, k, case[-2].split()[0][0]), case))
        return out

    def oracle(self, cid, cmds, tr):
        vs = []
        ci = next((i for i, c in enumerate(cmds) if c.startswith("crash ") or c.startswith("powerloss ")), None)
        if ci is None or ci + 1 >= len(tr):
            return vs
        power = cmds[ci].startswith("powerloss")
        cut = int(cmds[ci].split()[1])
        prefix = cmds[:ci]
        states = ref_states(prefix)
        j = inflight_cmd(tr[:ci], cut)
        if j is None:
            j = len(prefix)
        # persist point: number of leading commands that are guaranteed durable
        pol = "af"
        p = 0
        for i in range(j):
            toks = split_cmd(prefix[i])
            if toks[0] == "open":
                pol = toks[1]
                # a successful open leaves everything before it on disk (it read it from there)
                continue
            out_i = outcome_of(tr[i]) or ""
            ok = " ok" in out_i
            durable = False
            if toks[0] in ("create", "delete") and ok:
                durable = True
            elif toks[0] in ("append", "truncate") and ok and "bytes=0" not in out_i:
                durable = (pol == "as") if power else pol in ("af", "as")
            elif toks[0] == "persist" and ok:
                durable = (toks[1] == "s") if power else True
            if durable:
                p = i + 1
        o = tr[ci + 1]
        out = outcome_of(o)
        if out != "out open ok":
            vs.append({"msg": "%s before event %d: open failed: %r" % (cmds[ci].split()[0], cut, out), "shape": "persist-open-failed"})
            return vs
        R = logical(obs_of(o))
        hi = min(j + 1, len(prefix))
        for m in range(hi, p - 1, -1):
            if loose_match(R, states[m], prefix[m:hi]):
                return vs
        for m in range(hi, p - 1, -1):
            if explained_by_linear_tail(R, ref_obs(states[m]), prefix[:m]):
                vs.append({"msg": "%s before event %d: a torn-off payload tail has the CRC of zeros (CRC-32 is affine): a record with a zero-filled tail, never appended, is recovered" % (
                    cmds[ci].split()[0], cut), "shape": "crc-linear-tail", "shrinkable": False})
                return vs
        vs.append({"msg": "%s before event %d (in cmd %d): calls up to #%d were persisted, but the recovered state %r matches no state from #%d to #%d (state at the persist point: %r)" % (
            cmds[ci].split()[0], cut, j, p, summarize(R), p, hi, summarize(ref_obs(states[p]))), "shape": "persisted-lost"})
        return vs


# =========================================================================== C04
class C04(TwoPass):
    pid = "C04"
    prefixes = ("out", "ev", "q", "r", "lr", "ls")
    policies = ["af", "as"]
    rule = ("histories biased to queues that are emptied (truncated to or beyond their last position) and then stay idle while other queues "
            "append enough to roll over and garbage-collect every file that mentioned them; clean restarts at random points and crash images "
            "(as C02) followed by automatic-position appends on every queue; non-trivial/distinct as for C02")
    oracle_text = ("per incarnation of a queue a high-water mark is kept from the acknowledged calls (last position appended, p+1 for an emptying truncate(..=p)); "
                   "every position later assigned by an automatic append, also after restarts and crash recovery, must be above it, and appended positions strictly increase")

    def base_history(self, rng, i):
        a = aimed_gc_base(rng, i, self.policies, self.stats) if i % 6 in (2, 4) else None
        if a is not None:
            return a.cmds, a
        g = HistGen(rng, policy=rng.choice(self.policies), nqueues=rng.choice([2, 3, 4]), max_payload=50000)
        g.op_create(); g.op_create()
        for _ in range(rng.randrange(3, 8)):
            g.op_append()
        # empty some queues, possibly into the future, then keep them idle
        idle = []
        for tok, q in list(g.ref.q.items()):
            if rng.random() < 0.7:
                p = max(0, q.next - 1) + rng.choice([0, 0, 1, 40])
                g.ref.truncate(tok, p)
                g.cmds.append("truncate %s %d" % (tok, p))
                g.note_write("pos", tok)
                idle.append(tok)
        busy = [n for n in g.names if n not in idle] or g.names[:1]
        for n in busy:
            if n not in g.ref.q:
                g.ref.create(n); g.cmds.append("create %s" % n); g.note_write("pos", n)
        for _ in range(rng.randrange(4, 12)):
            n = rng.choice(busy)
            l = rng.choice([30000, 45000, 60000, 20000])
            tok = "%d:%d" % (l, g.next_seed())
            g.ref.append(n, None, [tok]); g.cmds.append("append %s - %s" % (n, tok)); g.note_write("append", n, [l])
            if rng.random() < 0.5:
                q = g.ref.q[n]
                p = max(0, q.next - 1 - rng.choice([0, 0, 1]))
                g.ref.truncate(n, p); g.cmds.append("truncate %s %d" % (n, p)); g.note_write("pos", n)
            if rng.random() < 0.15:
                g.op_restart()
        self.merge_stats(g.stats)
        return g.cmds, g

    def tail(self, g):
        t = []
        for n in g.names:
            t.append("append %s - 3:77" % n)
        return t

    def derive(self, rng, bid, cmds, g, tr):
        out = [("%s_r" % bid, cmds + ["drop", "open af"] + self.tail(g) + ["drop", "open af"] + self.tail(g))]
        for (ci, cut, k) in crash_points(rng, cmds, tr, max(4, self.per_base() // 3)):
            prefix = cmds[:min(ci + 1, len(cmds))]
            out.append(("%s_c%d_%d" % (bid, cut, k), prefix + ["crash %d %d" % (cut, k), "open af"] + self.tail(g) + ["drop", "open af"] + self.tail(g)))
        return out

    def oracle(self, cid, cmds, tr):
        vs = []
        hw = {}        # queue -> first position that may be assigned next (acknowledged history)
        maybe_deleted = set()
        lastpos = {}
        ci = next((i for i, c in enumerate(cmds) if c.startswith("crash ")), None)
        cut = int(cmds[ci].split()[1]) if ci is not None else None
        j = inflight_cmd(tr[:ci], cut) if ci is not None else None
        for i, cmd in enumerate(cmds):
            if i >= len(tr):
                break
            toks = split_cmd(cmd)
            out = outcome_of(tr[i]) or ""
            if ci is not None and j is not None and i == j and i < ci:
                if toks[0] == "delete":
                    maybe_deleted.add(toks[1])      # an in-flight delete may or may not have taken effect
                continue       # the in-flight call was never acknowledged
            if toks[0] == "create" and " ok" in out:
                hw[toks[1]] = 0
            elif toks[0] == "delete" and " ok" in out:
                hw.pop(toks[1], None)
            elif toks[0] == "truncate" and " ok" in out and toks[1] in hw:
                q = obs_of(tr[i]).get(show_name(name_bytes(toks[1])))
                if q is not None and not q["recs"]:
                    hw[toks[1]] = max(hw[toks[1]], int(toks[2]) + 1)
            elif toks[0] == "append" and " ok" in out and toks[1] in hw:
                m = re.search(r" last=(\d+) ", out)
                if m:
                    last = int(m.group(1))
                    n = len(toks) - 3
                    first = last - n + 1
                    if first < hw[toks[1]]:
                        vs.append({"msg": "cmd %d `%s` was assigned positions %d..%d, but %d was already the high-water mark of this incarnation (positions reused or regressed)" % (
                            i, cmd, first, last, hw[toks[1]]), "shape": "position-reuse"})
                        return vs
                    hw[toks[1]] = last + 1
            elif toks[0] == "open" and out == "out open ok":
                o = obs_of(tr[i])
                gone_now = []
                for qn, h in list(hw.items()):
                    q = o.get(show_name(name_bytes(qn)))
                    if q is None and qn in maybe_deleted:
                        gone_now.append(qn)
                        continue
                    if q is None:
                        vs.append({"msg": "cmd %d (open): queue %s, created and never deleted, is gone: its positions (high-water mark %d) would be handed out again" % (i, qn, h), "shape": "position-regress"})
                        return vs
                    if q is not None and q["next"] < h:
                        vs.append({"msg": "cmd %d (open): next position of %s is %d, below the high-water mark %d of its incarnation" % (i, qn, q["next"], h), "shape": "position-regress"})
                        return vs
                for qn in gone_now:          # the in-flight delete had reached the log: the incarnation is over
                    hw.pop(qn, None)
                    maybe_deleted.discard(qn)
        return vs


# =========================================================================== C06
class C06(PropBase):
    pid = "C06"
    prefixes = ("out", "ev", "q", "r", "ls", "use")
    policies = ["af", "as"]
    quick_cases = 96
    rule = ("HistGen histories with multi-file payloads, truncations that free files, deletions and restarts; aimed profiles: stale file after a roll-over caused by control entries, "
            "crash right after a roll-over under a non-flushing policy followed by a reopen; the file into which each append was written "
            "is read off the I/O trace (file of the call's first write event); non-trivial/distinct as for C01")
    oracle_text = ("after every successful truncate / delete_queue / open: the WAL files listed are a contiguous run ending at the file being written; no listed file is "
                   "older than both the first-write file of the oldest retained record of any queue and the file being written when the call began; "
                   "disk_used_bytes == sum of the listed sizes")
    known_shape = "exact-fit"

    def gen_one(self, rng, i):
        g = HistGen(rng, policy=rng.choice(self.policies), max_payload=70000)
        g.run(rng.randrange(8, 40), weights={"create": 7, "delete": 6, "append": 50, "truncate": 30, "persist": 1, "restart": 6})
        if i % 4 == 1:
            # stale-file profile: a file loses its last reference through a roll-over caused by small
            # control entries, then only no-op truncations follow
            r = rng.choice([0, 3, 10, 19, 25, 40, 60, 100])
            l = aim_file_end(0 + 7 + 12, 1, r)
            cmds = ["open %s" % rng.choice(self.policies), "create =q"]
            if l is not None and l > 0:
                cmds.append("append =q - %d:7" % l)
                cmds.append("truncate =q 0")
                for k in range(rng.randrange(1, 8)):
                    cmds.append(rng.choice(["truncate =q 0", "create =c%d" % k, "truncate =q 0", "append =q 0"]))
                cmds.append("truncate =q 0")
                if rng.random() < 0.5:
                    cmds += ["drop", "open af", "truncate =q 0"]
                self.stats["stale_profile"] = self.stats.get("stale_profile", 0) + 1
                return cmds
        if i % 8 == 3:
            # crash right after a roll-over: the new file exists (full size, nothing of it reached the OS
            # under a non-flushing policy), nothing retained lives in the old one; the reopen must reclaim it
            pol = rng.choice(["no", "dif", "no"])
            r = rng.choice([20, 40, 100, 300, 1000])
            l = aim_file_end(0 + 7 + 12, 1, r)
            if l is not None and l > 0:
                cmds = ["open %s" % pol, "create =q", "append =q - %d:7" % l, "truncate =q 0"]
                for k in range(rng.randrange(0, 3)):
                    cmds += ["append =q - 3:%d" % (20 + k), "truncate =q %d" % (1 + k)]
                cmds.append("append =q - %d:9" % rng.choice([r + 50, 2000, 40000]))
                if rng.random() < 0.35:
                    cmds.append("truncate =q 99")
                cmds += ["crash 100000 0", "open %s" % rng.choice(self.policies)]
                if rng.random() < 0.5:
                    cmds += ["append =q - 5:30", "truncate =q 200", "drop", "open af"]
                self.stats["crash_after_rollover"] = self.stats.get("crash_after_rollover", 0) + 1
                return cmds
        if i % 8 == 0:
            # the known exact-fit corner: an append that begins exactly at the end of a file
            g2 = ["open af", "create =q", "append =q - 131001:5", "append =q - 32000:6", "truncate =q 0", "drop", "open af"]
            return g2
        self.merge_stats(g.stats)
        return g.cmds

    def oracle(self, cid, cmds, tr):
        vs = []
        first_file = {}      # (queue token, pos) -> file of the first write event of its append
        exact_fit = set()    # records whose append began exactly at a file end
        cur = 0
        cursor_off = None
        crashed = False
        ref = RefMap()
        for i, cmd in enumerate(cmds):
            if i >= len(tr):
                break
            toks = split_cmd(cmd)
            c = tr[i]
            out = outcome_of(c) or ""
            begin_file = cur
            writes = [parse_ev(l) for l in events_of(c) if l.split()[2] == "write"]
            if toks[0] in MUT:
                res = apply_ref(ref, toks)
                if toks[0] == "append" and res[0] == "ok" and res[1] is not None and writes:
                    f = file_no(writes[0]["name"])
                    n = len(toks) - 3
                    for k in range(n):
                        first_file[(toks[1], res[1] - n + 1 + k)] = f
                        # the call began in file f-1 and its FIRST write already goes to offset 0 of file f: the
                        # cursor was exactly at the end of f-1 (padding, when needed, is written to f-1 first)
                        if writes[0]["off"] == 0 and f == begin_file + 1 and cursor_off in (mrl.FILE, None):
                            exact_fit.add((toks[1], res[1] - n + 1 + k))
                if toks[0] == "delete" and res[0] == "ok":
                    for key in [k for k in first_file if k[0] == toks[1]]:
                        first_file.pop(key)
            if writes:
                cur = file_no(writes[-1]["name"])
                cursor_off = writes[-1]["off"] + writes[-1]["len"]
            if toks[0] in ("crash", "powerloss"):
                crashed = True
            check = (toks[0] in ("truncate", "delete") and " ok" in out) or (toks[0] == "open" and out == "out open ok")
            if not check:
                continue
            listed = []
            sizes = 0
            for l in ls_of(c):
                p = l.split()
                nm = bytes.fromhex(p[1][1:]).decode("utf-8", "replace")
                if re.match(r"^wal-[0-9]{20}$", nm) and p[2] == "f":
                    listed.append(int(nm[4:]))
                    sizes += int(p[3])
            listed.sort()
            if not listed:
                continue
            if listed != list(range(listed[0], listed[-1] + 1)):
                vs.append({"msg": "cmd %d `%s`: WAL files are not a contiguous run: %r" % (i, cmd, listed), "shape": "files-gap"})
                return vs
            if toks[0] == "open":
                cur = listed[-1]          # open always resumes in the last file of the directory
                cursor_off = None
                if crashed:
                    # what survived the crash is what the crate recovered (judged by C02/C03, not here): the
                    # retained records are the recovered positions
                    crashed = False
                    o = obs_of(c)
                    for tok in list(ref.q):
                        key = show_name(name_bytes(tok))
                        if key not in o:
                            del ref.q[tok]
                        else:
                            have = set(r[0] for r in o[key]["recs"])
                            ref.q[tok].recs = [r for r in ref.q[tok].recs if r[0] in have]
                            ref.q[tok].next = o[key]["next"]
            retained = []
            for tok, q in ref.q.items():
                for pos, _ in q.recs:
                    if (tok, pos) in first_file:
                        retained.append((first_file[(tok, pos)], tok, pos))
            oldest = min([r[0] for r in retained], default=cur)
            bound = min(oldest, begin_file if toks[0] != "open" else cur)
            if listed[0] < bound:
                # is the excess explained by the known exact-fit corner?
                pins = [r for r in retained if (r[1], r[2]) in exact_fit and r[0] - 1 <= listed[0]]
                if pins and listed[0] >= bound - 1:
                    vs.append({"msg": "cmd %d `%s`: file %d kept although the oldest retained record was first written into file %d: its append began exactly at the end of file %d" % (
                        i, cmd, listed[0], oldest, listed[0]), "shape": "exact-fit"})
                else:
                    vs.append({"msg": "cmd %d `%s`: file %d is still there although the oldest retained record lives in file %d and the call began in file %d (listing %r)" % (
                        i, cmd, listed[0], oldest, begin_file, listed), "shape": "file-not-reclaimed"})
                    return vs
            u = use_of(c)
            if u and int(u["disk"]) != sizes:
                vs.append({"msg": "cmd %d `%s`: disk_used_bytes=%s but the WAL files total %d bytes" % (i, cmd, u["disk"], sizes), "shape": "disk-used"})
                return vs
        return vs


# =========================================================================== C07
class C07(PropBase):
    pid = "C07"
    prefixes = ("out", "mw", "mb", "mr", "ev", "q", "r")
    policies = ["af", "no"]
    quick_cases = 140
    thorough_cases = 2500
    rule = ("(a) in-memory record log (RecordWriter over a Vec block writer, RecordReader over the blocks): sequences of 1-6 raw entries whose lengths are "
            "aimed so that entries end exactly at a block end, leave 1..8 bytes before it (less than / exactly / just above a frame header), start with an empty "
            "first frame, or span 2-10 blocks; every block the writer produced is compared with the model's; (b) the same through files: appends "
            "of aimed lengths, roll-over, then restart; non-trivial = an entry crossed a block; distinct = distinct transcripts")
    oracle_text = "entries read back == entries written (lengths and hashes, in order), then end of log; no corruption reported; byte counts add up to the stream length; through files: state after restart == state before"

    def aimed_entries(self, rng):
        B = mrl.B
        cursor = 0
        ents = []
        for _ in range(rng.randrange(1, 7)):
            rem = B - cursor % B
            if rem < 7:
                rem_eff = B
                cursor += rem
            else:
                rem_eff = rem
            x = rng.random()
            if x < 0.45:
                r = rng.choice([0, 1, 2, 3, 4, 5, 6, 7, 8, 9, 13, 14])
                eb = rng.choice([0, 0, 0, 1, 2, 9])
                if eb == 0:
                    l = rem_eff - 7 - r
                else:
                    l = (rem_eff - 7) + (eb - 1) * (B - 7) + (B - 7 - r)
                if l < 0:
                    l = rng.randrange(0, 20)
            elif x < 0.6:
                l = rng.choice([0, 0, 1, 2, 6, 7, 8])
            elif x < 0.85:
                l = rng.randrange(0, 3 * B)
            else:
                l = rng.randrange(B - 40, B + 40) * rng.choice([1, 2, 3])
            ents.append("%d:%d" % (l, rng.randrange(1, 250)))
            cursor = mrl.advance(cursor, l)
        return ents

    def gen_one(self, rng, i):
        if i % 4 != 3:
            self.stats["mem_cases"] = self.stats.get("mem_cases", 0) + 1
            return ["mem " + " ".join(self.aimed_entries(rng))]
        if i % 8 == 3:
            # the last entry ends 0..8 bytes before the end of the last block of the file, then restart,
            # append, restart: the reader's final cursor must be the writer's
            r = rng.choice([0, 1, 2, 3, 4, 5, 6, 7, 8])
            l = aim_file_end(7 + 12, 1, r)
            if l is not None and l > 0:
                self.stats["file_end_cases"] = self.stats.get("file_end_cases", 0) + 1
                return ["open af", "create =q", "append =q - %d:9" % l, "drop", "open af", "append =q - 10:1 3000:2",
                        "append =q - 40000:3", "drop", "open af", "append =q - 5:4", "drop", "open af"]
        if i % 16 == 7:
            # what is written AFTER a dropped tail must be read back: the last entry X crosses a block boundary and its
            # continuation frame never reached the disk (emulated by zero-filling it: the reader ends the log there);
            # the next entries are written right behind X's orphan First frame - with the size of X's missing bytes
            # (where a reader that kept X's fragment would glue them) or any other size - then a restart
            B = mrl.B
            pad = rng.choice([0, 10, 4000])
            extra = rng.choice([33, 300, 1000, 5000])
            c0 = (7 + 12) + (7 + 11 + 1 + 12 + pad)
            lx = (B - c0 - 7) - 24 + extra
            ly = rng.choice([extra - 24, extra - 24, 50, 2000])
            self.stats["dropped_tail_cases"] = self.stats.get("dropped_tail_cases", 0) + 1
            return ["open af", "create =q", "append =q - %d:1" % pad, "append =q - %d:2" % lx, "drop",
                    "damage 0 %d x%s" % (B, "00" * (7 + extra)), "open af", "append =q - %d:3" % ly, "append =q - 77:4", "drop", "open af"]
        g = HistGen(rng, policy=rng.choice(self.policies), max_payload=70000)
        g.run(rng.randrange(6, 22), weights={"create": 6, "delete": 2, "append": 70, "truncate": 8, "persist": 2, "restart": 12})
        g.op_restart()
        self.merge_stats(g.stats)
        self.stats["file_cases"] = self.stats.get("file_cases", 0) + 1
        return g.cmds

    def nontrivial(self, cmds, tr):
        for c in tr:
            if sum(1 for l in c["lines"] if l.startswith("mb ")) > 1:
                return True
        return PropBase.nontrivial(self, cmds, tr)

    def oracle(self, cid, cmds, tr):
        vs = []
        last_obs = None
        for i, cmd in enumerate(cmds):
            if i >= len(tr):
                break
            c = tr[i]
            toks = cmd.split()
            if toks[0] == "mem":
                if outcome_of(c) != "out mem ok":
                    vs.append({"msg": "cmd %d: in-memory round trip failed: %r" % (i, outcome_of(c)), "shape": "mem-roundtrip"})
                    return vs
                want = ["mr %d %08x" % (payload_len(t), fnv32(payload_bytes(t))) for t in toks[1:]] + ["mr end"]
                got = [l for l in c["lines"] if l.startswith("mr ")]
                if got != want:
                    k = next((x for x in range(min(len(got), len(want))) if got[x] != want[x]), min(len(got), len(want)))
                    vs.append({"msg": "cmd %d: entries read back differ from the entries written at index %d: got %r want %r (lengths %r)" % (
                        i, k, got[k:k + 2], want[k:k + 2], [payload_len(t) for t in toks[1:]]), "shape": "mem-roundtrip"})
                    return vs
                mws = [l.split() for l in c["lines"] if l.startswith("mw ")]
                total = sum(int(m[2]) for m in mws)
                blocks = sum(int(l.split()[2]) for l in c["lines"] if l.startswith("mb "))
                if total != blocks:
                    vs.append({"msg": "cmd %d: byte counts add up to %d, stream is %d bytes" % (i, total, blocks), "shape": "mem-count"})
                    return vs
            elif c["name"] in MUT + ("persist",):
                if "err=NoLog" not in (outcome_of(c) or ""):
                    last_obs = logical(obs_of(c))
            elif c["name"] == "open" and i > 0 and tr[i - 1]["name"] != "drop":
                # an open that follows out-of-band damage: what it recovered is the new baseline (judged by C08/C09/C10)
                if outcome_of(c) == "out open ok":
                    last_obs = logical(obs_of(c))
            elif c["name"] == "open" and i > 0 and tr[i - 1]["name"] == "drop":
                if outcome_of(c) != "out open ok":
                    vs.append({"msg": "cmd %d: reading the files back failed: %r" % (i, outcome_of(c)), "shape": "file-roundtrip"})
                    return vs
                if last_obs is not None and logical(obs_of(c)) != last_obs:
                    vs.append({"msg": "cmd %d: entries read back from the files differ: before %r after %r" % (i, summarize(last_obs), summarize(logical(obs_of(c)))), "shape": "file-roundtrip", "shrinkable": False})
                    return vs
        return vs


# =========================================================================== frames layout
def frames_of_entry(start, elen):
    """frames of an entry of elen bytes written at stream offset start:
    list of (header_offset, payload_len), stream offsets"""
    B = mrl.B
    cursor = start
    remaining = elen
    frames = []
    while True:
        rem = B - cursor % B
        if rem < 7:
            cursor += rem
            rem = B
        n = min(rem - 7, remaining)
        frames.append((cursor, n))
        cursor += 7 + n
        remaining -= n
        if remaining == 0:
            return frames, cursor


def call_layout(cmds, tr):
    """per command: list of entries it wrote, each (kind, stream_start, [frames]); derived from the
    write events (stream offset = file*FILE + off) and the known entry lengths. Only for flush-per-
    operation policies (every call's bytes are in its own write events)."""
    layout = {}
    ref = RefMap()
    for i, cmd in enumerate(cmds):
        if i >= len(tr):
            break
        toks = split_cmd(cmd)
        writes = [parse_ev(l) for l in events_of(tr[i]) if l.split()[2] == "write"]
        if toks[0] in MUT:
            res = apply_ref(ref, toks)
        if not writes or toks[0] not in MUT:
            continue
        start = file_no(writes[0]["name"]) * mrl.FILE + writes[0]["off"]
        total = sum(w["len"] for w in writes)
        qlen = len(name_bytes(toks[1]))
        if toks[0] == "append":
            elen = 11 + qlen + sum(12 + payload_len(t) for t in toks[3:])
        else:
            elen = 11 + qlen
        fr, end = frames_of_entry(start, elen)
        layout[i] = {"start": start, "end": start + total, "frames": fr, "main_end": end, "kind": toks[0]}
    return layout


def stream_to_file(off):
    return off // mrl.FILE, off % mrl.FILE


def inphase_batch_history(rng):
    """one batch whose items all have the same size d, d dividing the payload capacity of a full
    block, long enough to have Middle frames: losing exactly one Middle frame leaves a buffer that
    still parses"""
    cap = mrl.B - 7
    divs = [d for d in range(13, 400) if cap % d == 0] or [cap]
    d = rng.choice(divs)
    n = (3 * mrl.B) // d + rng.randrange(5, 40)
    g = HistGen(rng, policy="af", nqueues=1)
    g.names = ["=q"]
    g.cmds.append("create =q"); g.ref.create("=q"); g.note_write("pos", "=q")
    inphase_align_first(rng, g, d)
    pls = ["%d:%d" % (d - 12, 500 + k) for k in range(n)]
    g.ref.append("=q", None, pls)
    g.cmds.append("append =q - " + " ".join(pls))
    g.note_write("append", "=q", [d - 12] * n)
    g.batch = (len(g.cmds) - 1, "=q", 0, pls)
    g.inphase = True
    return g


def inphase_align_first(rng, g, d):
    """(half of the time) a filler append to another queue so that the FIRST frame of the batch, too, ends
    exactly between two records: then every frame boundary of the batch is a record boundary, and any
    prefix of its frames parses as a shorter batch.  Cursor: create q = 19 bytes, create f = 19, filler
    entry = 7 + 12 + 12 + L; the batch's first frame holds B - cursor - 7 bytes, 12 of them entry header."""
    if rng.random() < 0.5:
        return
    L = (mrl.B - 88) % d
    g.names.append("=f")
    g.cmds.append("create =f"); g.ref.create("=f"); g.note_write("pos", "=f")
    tok = "%d:499" % L
    g.ref.append("=f", None, [tok])
    g.cmds.append("append =f - %s" % tok); g.note_write("append", "=f", [L])


class DamageBase(TwoPass):
    policies = ["af"]

    def base_history(self, rng, i):
        if i % 8 == 0:
            g = inphase_batch_history(rng)
            self.stats["inphase_batches"] = self.stats.get("inphase_batches", 0) + 1
            return g.cmds + ["drop"], g
        g = HistGen(rng, policy="af", max_payload=40000)
        g.run(rng.randrange(6, 22), weights={"create": 8, "delete": 7, "append": 50, "truncate": 24, "persist": 1, "restart": 3})
        self.merge_stats(g.stats)
        return g.cmds + ["drop"], g

    def live_files(self, tr):
        files = set()
        for l in ls_of(tr[-1]):
            p = l.split()
            nm = bytes.fromhex(p[1][1:]).decode("utf-8", "replace")
            if re.match(r"^wal-[0-9]{20}$", nm):
                files.add(int(nm[4:]))
        return files


def appended_universe(cmds, tr=None):
    """every record ever appended, per queue name: set of (pos, len, hash).  With a transcript the positions are
    those the crate acknowledged (after a recovery that dropped records they differ from the specification's)"""
    ref = RefMap()
    uni = {}
    for i, cmd in enumerate(cmds):
        toks = split_cmd(cmd)
        if toks and toks[0] in MUT:
            res = apply_ref(ref, toks)
            last = res[1] if (toks[0] == "append" and res[0] == "ok") else None
            if tr is not None and toks[0] == "append" and i < len(tr):
                m = re.search(r" last=(\d+) ", (outcome_of(tr[i]) or "") + " ")
                last = int(m.group(1)) if m and " ok" in (outcome_of(tr[i]) or "") else None
            if toks[0] == "append" and last is not None:
                n = len(toks) - 3
                qn = show_name(name_bytes(toks[1]))
                for k in range(n):
                    uni.setdefault(qn, set()).add((last - n + 1 + k,) + payload_token_key(toks[3 + k]))
    return uni


# =========================================================================== C08
EVIL_POS = 1000


def evil_payload(qname_bytes):
    """a payload embedding a CRC-valid Full frame that carries AppendRecords(q, EVIL_POS, 'evil')"""
    rec = struct.pack("<QI", EVIL_POS, 4) + b"evil"
    entry = bytes([4]) + struct.pack("<QH", EVIL_POS, len(qname_bytes)) + qname_bytes + rec
    crc = zlib.crc32(bytes([1]) + entry) & 0xFFFFFFFF
    frame = struct.pack("<IHB", crc, len(entry), 1) + entry
    return frame


class C08(DamageBase):
    pid = "C08"
    prefixes = ("out", "q", "r", "lr")
    rule = ("base histories ended by a clean drop; then in-place damage of the WAL files (lengths unchanged): frame-aimed (each header field of a writer frame, "
            "first/last payload byte, padding, bytes around block ends) x {bit flip, 0x00, 0xFF, random run, zero-fill run}, 1-3 damages per image, plus random offsets, "
            "plus the adversarial family 'payload embedding a CRC-valid frame + damaged length field of the preceding frame' (the known finding); "
            "non-trivial = open succeeded with a state different from the undamaged one or reported Corruption; distinct = distinct transcripts")
    oracle_text = ("if open of the damaged directory succeeds, every recovered record (queue, position, length, payload hash) must be a record appended earlier to that queue, "
                   "and positions within each queue strictly increase; open may also fail with Corruption")
    known_shape = "embedded-frame"

    def derive(self, rng, bid, cmds, g, tr):
        out = []
        layout = call_layout(cmds, tr)
        live = self.live_files(tr)
        frames = []
        for i, lay in layout.items():
            for (h, n) in lay["frames"]:
                f, o = stream_to_file(h)
                if f in live:
                    frames.append((f, o, n))
        if not frames:
            return out
        if getattr(g, "inphase", False):
            big = [fr for fr in frames if fr[2] == mrl.B - 7]
            for k, (f, o, n) in enumerate(big[:6]):
                for tag, off, val in (("p", o + 7 + rng.randrange(0, n), rng.randrange(1, 256)),
                                      ("t", o + 6, rng.choice([0, 5, 9, 77, 255])),
                                      ("c", o + rng.randrange(0, 4), rng.randrange(1, 256))):
                    out.append(("%s_m%s%d" % (bid, tag, k), cmds + ["damage %d %d x%02x" % (f, off, val), "open af"]))
                    self.stats["damage_images"] = self.stats.get("damage_images", 0) + 1
        for k in range(self.per_base()):
            dmg = []
            for _ in range(rng.choice([1, 1, 1, 2, 3])):
                f, o, n = rng.choice(frames)
                x = rng.random()
                if x < 0.3:
                    off = o + rng.randrange(0, 7)            # a header byte
                    ln = 1
                elif x < 0.55 and n > 0:
                    off = o + 7 + rng.choice([0, n - 1, rng.randrange(0, n)])
                    ln = rng.choice([1, 1, 2, 8])
                elif x < 0.7:
                    off = (o // mrl.B + 1) * mrl.B - rng.randrange(1, 12)   # around the block end
                    ln = rng.choice([1, 4, 16])
                elif x < 0.85:
                    off = o
                    ln = rng.choice([7, 7 + n, 64, 1000])
                else:
                    off = rng.randrange(0, mrl.FILE - 64)
                    ln = rng.choice([1, 3, 64, 5000])
                ln = max(1, min(ln, mrl.FILE - off))
                mode = rng.choice(["flip", "zero", "ff", "rand", "rand"])
                if mode == "flip":
                    data = None
                    dmg.append("damage %d %d flip%d" % (f, off, rng.randrange(0, 8)))
                    continue
                if mode == "zero":
                    data = bytes(ln)
                elif mode == "ff":
                    data = b"\xff" * ln
                else:
                    data = bytes(rng.randrange(0, 256) for _ in range(min(ln, 600)))
                dmg.append("damage %d %d x%s" % (f, off, data.hex()))
            out.append(("%s_d%d" % (bid, k), cmds + dmg + ["open af"]))
            self.stats["damage_images"] = self.stats.get("damage_images", 0) + 1
        return out

    def generate(self, n=None, tag="g"):
        cases = TwoPass.generate(self, n, tag)
        cases = self.resolve_flips(cases)
        # the adversarial family (known finding F4), always present so that it is re-confirmed
        for k in range(2):
            evil = evil_payload(b"q")
            filler = 500 + 37 * k
            pl = mrl.gen_payload(filler, 3) + evil + b"\x00" * 9
            cmds = ["open af", "create =q", "append =q - 10:1", "append =q - x%s" % pl.hex(), "drop"]
            # the second append's frame starts after: create(7+12) + append1(7+11+1+12+10)
            start = (7 + 12) + (7 + 11 + 1 + 12 + 10)
            # overwrite the len field (bytes 4..5 of the header) so that the frame "ends" right before the embedded frame
            newlen = 11 + 1 + 12 + filler
            cmds.append("damage 0 %d x%s" % (start + 4, struct.pack("<H", newlen).hex()))
            cmds.append("open af")
            cases.append(("evil%d" % k, cmds))
        # continued use after a silently dropped tail: the LAST record X crosses a block boundary and its
        # continuation frame is zero-filled (the reader takes the zero header for the end of the log: X is dropped,
        # allowed); the next append Y has exactly the size of X's missing bytes; after one more restart nothing
        # may be glued together: X's leading frame must be discarded when Y's Full frame is met
        B = mrl.B
        for k, (lx_extra, pad) in enumerate([(300, 10), (1000, 4000), (33, 0)]):
            c0 = (7 + 12) + (7 + 11 + 1 + 12 + pad)            # cursor before X: create + first append
            cap0 = B - c0 - 7                                  # bytes of X's entry held by its First frame
            lx = cap0 - 24 + lx_extra                          # entry = 12 + 12 + lx: lx_extra bytes spill over
            missing = lx_extra
            ly = missing - 24                                  # Y's entry (12 + 12 + ly) == X's missing bytes
            if ly < 0:
                continue
            cmds = ["open af", "create =q", "append =q - %d:1" % pad, "append =q - %d:2" % lx, "drop",
                    "damage 0 %d x%s" % (B, "00" * (7 + missing)), "open af", "append =q - %d:3" % ly, "drop", "open af"]
            cases.append(("zerotail%d" % k, cmds))
        # frame-type flips on a continuation frame whose payload is shaped like a WAL entry: if the checksum
        # did not cover the type byte, Last -> Full would turn user bytes into a record (NOT a known finding)
        for k, newtype in enumerate([1, 2]):
            forged_rec = struct.pack("<QI", 1, 6) + b"forged"
            forged = bytes([4]) + struct.pack("<QH", 1, 1) + b"q" + forged_rec
            first_cap = mrl.B - (7 + 12) - 7            # room in the first frame of the second entry
            filler = first_cap - (11 + 1 + 12)
            pl = mrl.gen_payload(filler, 9) + forged
            cmds = ["open af", "create =q", "append =q - x%s" % pl.hex(), "drop",
                    "damage 0 %d x%02x" % (mrl.B + 6, newtype), "open af"]
            cases.append(("typeflip%d" % k, cmds))
        return cases

    def resolve_flips(self, cases):
        """'flipN' damages need the byte currently on disk: take it from a run without damage.
        Simpler and exact: a flip is expressed to both drivers as a read-modify-write of one byte,
        which needs the byte; we approximate with a random byte different from 0 (most bytes of a
        zero-prefilled file) -- kept honest by naming it 'rand1'."""
        out = []
        for cid, cmds in cases:
            new = []
            for c in cmds:
                if c.startswith("damage ") and " flip" in c:
                    p = c.split()
                    new.append("damage %s %s x%02x" % (p[1], p[2], (int(p[1]) * 7 + int(p[2]) * 13 + int(p[3][4:]) + 1) % 255 + 1))
                else:
                    new.append(c)
            out.append((cid, new))
        return out

    def nontrivial(self, cmds, tr):
        o = outcome_of(tr[-1]) if tr else None
        return o == "out open err=Corruption" or PropBase.nontrivial(self, cmds, tr)

    def oracle(self, cid, cmds, tr):
        vs = []
        if len(tr) < len(cmds):
            return vs
        o = tr[-1]
        out = outcome_of(o)
        if out != "out open ok":
            if out and ("Panic" in out or "Hang" in out):
                vs.append({"msg": "open of the damaged directory: %r" % out, "shape": "damage-panic"})
            return vs
        uni = appended_universe(cmds, tr)
        for qn, q in obs_of(o).items():
            prev = -1
            for rec in q["recs"]:
                if rec not in uni.get(qn, set()):
                    shape = "embedded-frame" if (("evil" in cid) and rec[0] == EVIL_POS) else "invented-record"
                    vs.append({"msg": "open returned record %r of queue %s, which was never appended" % (rec, qn), "shape": shape})
                    if shape != "embedded-frame":
                        return vs
                if rec[0] <= prev:
                    vs.append({"msg": "positions of queue %s are not strictly increasing: %d after %d" % (qn, rec[0], prev), "shape": "invented-record"})
                    return vs
                prev = rec[0]
        return vs


# =========================================================================== C09
class C09(DamageBase):
    pid = "C09"
    prefixes = ("out", "q", "r", "lr")
    rule = ("base histories (biased to delete/re-create and control entries near block ends) ended by a clean drop; the frame layout of every call is derived "
            "from its write events and entry length; for each sampled writer frame still on disk one damage confined to its checksum bytes or payload bytes "
            "(flip of first/last payload byte, of a CRC byte, zeroed payload, random payload); non-trivial/distinct as for C08")
    oracle_text = ("open must succeed, and every record retained in the undamaged final state whose append call was not the one hit must be present with the same "
                   "position and payload")

    def base_history(self, rng, i):
        g = HistGen(rng, policy="af", nqueues=rng.choice([2, 3]), max_payload=36000)
        g.run(rng.randrange(6, 20), weights={"create": 10, "delete": 12, "append": 48, "truncate": 22, "persist": 0, "restart": 3})
        self.merge_stats(g.stats)
        return g.cmds + ["drop"], g

    def derive(self, rng, bid, cmds, g, tr):
        out = []
        layout = call_layout(cmds, tr)
        live = self.live_files(tr)
        cands = []
        for i, lay in layout.items():
            for fi, (h, n) in enumerate(lay["frames"]):
                f, o = stream_to_file(h)
                if f in live:
                    cands.append((i, f, o, n))
        rng.shuffle(cands)
        for (i, f, o, n) in cands[: self.per_base()]:
            x = rng.random()
            if x < 0.3 or n == 0:
                off = o + rng.randrange(0, 4); data = bytes([rng.randrange(1, 256)])     # a checksum byte
            elif x < 0.6:
                off = o + 7 + rng.choice([0, n - 1]); data = bytes([rng.randrange(1, 256)])
            elif x < 0.8:
                off = o + 7; data = bytes(min(n, 300))
            else:
                off = o + 7 + rng.randrange(0, n); ln = min(n - (off - o - 7), 200)
                data = bytes(rng.randrange(0, 256) for _ in range(max(1, ln)))
            out.append(("%s_h%d_%d_%d" % (bid, i, f, off), cmds + ["damage %d %d x%s" % (f, off, data.hex()), "open af"]))
            self.stats["damage_images"] = self.stats.get("damage_images", 0) + 1
        return out

    def oracle(self, cid, cmds, tr):
        vs = []
        if len(tr) < len(cmds):
            return vs
        hit = int(cid.split("_h")[1].split("_")[0]) if "_h" in cid else None
        if hit is None:
            return vs       # a case without its metadata (which call was hit) cannot be judged
        di = next(i for i, c in enumerate(cmds) if c.startswith("damage "))
        base = cmds[:di]
        o = tr[-1]
        out = outcome_of(o)
        if out != "out open ok":
            vs.append({"msg": "damage inside one frame of cmd %s `%s` (%s): open failed: %r" % (hit, base[hit] if hit is not None else "", cmds[di], out), "shape": "frame-damage-open-failed", "shrinkable": False})
            return vs
        # records retained in the undamaged final state, with the command that appended them
        ref = RefMap()
        owner = {}
        for i, cmd in enumerate(base):
            toks = split_cmd(cmd)
            if toks and toks[0] in MUT:
                res = apply_ref(ref, toks)
                if toks[0] == "append" and res[0] == "ok" and res[1] is not None:
                    n = len(toks) - 3
                    for k in range(n):
                        owner[(toks[1], res[1] - n + 1 + k)] = i
                if toks[0] == "delete" and res[0] == "ok":
                    for key in [k for k in owner if k[0] == toks[1]]:
                        owner.pop(key)
        got = obs_of(o)
        for tok, q in ref.q.items():
            qn = show_name(name_bytes(tok))
            have = set(got.get(qn, {"recs": []})["recs"])
            for pos, t in q.recs:
                if owner.get((tok, pos)) == hit:
                    continue
                rec = (pos,) + payload_token_key(t)
                if rec not in have:
                    vs.append({"msg": "damage inside one frame of cmd %s `%s` lost record %d of queue %s, appended by cmd %s" % (
                        hit, base[hit][:60] if hit is not None else "", pos, tok, owner.get((tok, pos))), "shape": "collateral-loss", "shrinkable": False})
                    return vs
        return vs


# =========================================================================== C10
def forge_block_entries(rng, qnames):
    """a CRC-valid block built from random entries with extreme field values"""
    B = mrl.B
    out = b""
    # queue names that the API can never write: not UTF-8 (of lengths around every small constant the decoder might
    # use: 1, 2, 9, 10, 11, 40), over-long UTF-8 encodings, a lone continuation byte, embedded NUL
    odd = [b"\xff", b"\xff\xfe", b"\xc3", b"\x80abc", b"q\xffq", b"\xff" * 9, b"\xfe" * 10, b"\xff" * 11, b"ab\xc0\xaf" * 10, b"\x00", b"a\x00b"]
    while len(out) < B - 200 and rng.random() < 0.93:
        q = rng.choice(qnames) if rng.random() < 0.75 else rng.choice(odd)
        tag = rng.choice([1, 2, 3, 4, 4, 4])
        pos = rng.choice([0, 1, 5, 2 ** 32, 2 ** 63, 2 ** 64 - 2, rng.randrange(0, 50)])
        body = b""
        if tag == 4:
            p = pos
            for _ in range(rng.choice([0, 1, 2, 3])):
                pl = bytes(rng.randrange(0, 256) for _ in range(rng.choice([0, 1, 5, 100])))
                body += struct.pack("<QI", p % 2 ** 64, len(pl)) + pl
                p += rng.choice([1, 1, 1, 7, 0])
        entry = bytes([tag]) + struct.pack("<QH", pos, len(q)) + q + body
        if rng.random() < 0.1:
            entry = entry[: rng.randrange(1, len(entry) + 1)]
        ft = rng.choice([1, 1, 1, 2, 3, 4])
        crc = zlib.crc32(bytes([ft]) + entry) & 0xFFFFFFFF
        if rng.random() < 0.05:
            crc ^= 1
        fr = struct.pack("<IHB", crc, len(entry), ft) + entry
        if len(out) + len(fr) > B:
            break
        out += fr
    return out


class C10(DamageBase):
    pid = "C10"
    judges_hang_itself = True
    prefixes = ("out", "q", "r", "lr", "acc")
    rule = ("base histories ended by a clean drop, then arbitrary derivations of the directory: overwritten / zeroed runs, truncation of a file to {0,1,B-1,B,B+1,2B,random} bytes, "
            "removed files, duplicated and transposed files (copy of file i over file j), stray entries (near-miss names, sub-directory, symlink), random blocks, and CRC-valid "
            "forged blocks built from random entries with extreme field values (positions up to 2^64-2, empty and truncated bodies, all frame types); "
            "plus the known finding (a CRC-valid record at position u64::MAX); every image is opened under catch_unwind with a watchdog, then all read accessors run; "
            "non-trivial = open did not simply reproduce the undamaged state; distinct = distinct transcripts")
    oracle_text = "open must return Ok or Err (never Panic, never Hang within the deadline), and after Ok the read accessors (list_queues, summary, last_position, range, last_record, resource_usage) must not panic"
    known_shape = "position-u64-max"

    def deadline_ms(self):
        return 15000

    def derive(self, rng, bid, cmds, g, tr):
        out = []
        live = sorted(self.live_files(tr))
        if not live:
            return out
        B = mrl.B
        qn = [name_bytes(n) for n in g.names] + [b"q", b""]
        for k in range(self.per_base()):
            ops = []
            for _ in range(rng.choice([1, 1, 2, 3])):
                f = rng.choice(live)
                x = rng.random()
                if x < 0.2:
                    ops.append("truncfile %d %d" % (f, rng.choice([0, 1, B - 1, B, B + 1, 2 * B, rng.randrange(0, mrl.FILE), mrl.FILE + B])))
                elif x < 0.3:
                    ops.append("rmfile %d" % f)
                elif x < 0.4:
                    ops.append("cpfile %d %d" % (f, rng.choice(live + [live[-1] + 1, live[-1] + 3])))
                elif x < 0.65:
                    blk = rng.randrange(0, mrl.NBV)
                    data = forge_block_entries(rng, qn)
                    if data:
                        ops.append("damage %d %d x%s" % (f, blk * B + rng.choice([0, 0, 0, 11]), data.hex()))
                elif x < 0.8:
                    off = rng.randrange(0, mrl.FILE - 2000)
                    ops.append("damage %d %d x%s" % (f, off, bytes(rng.randrange(0, 256) for _ in range(rng.choice([1, 7, 64, 1500]))).hex()))
                elif x < 0.9:
                    off = rng.randrange(0, mrl.FILE - 40000)
                    ops.append("damage %d %d x%s" % (f, off, bytes(rng.choice([7, 100, 33000])).hex()))
                else:
                    import props
                    nm = rng.choice([b"wal-0000000000000000000", b"wal-000000000000000000001", b"WAL-00000000000000000000", b"notes"] + props.ODD_NAMES)
                    if not any(o.startswith("seedfile %s " % nm.hex()) for o in ops):
                        ops.append("seedfile %s %s" % (nm.hex(), rng.choice(["f 0102", "d"])))
            out.append(("%s_x%d" % (bid, k), cmds + ops + ["open af"]))
            self.stats["images"] = self.stats.get("images", 0) + 1
        # length-field window: a frame header whose length makes header+payload end just before / at / after
        # the block end (where a bounds check that forgets the 7 header bytes would slip)
        layout = call_layout(cmds, tr)
        frames = []
        for i, lay in layout.items():
            for (h, n) in lay["frames"]:
                f, o = stream_to_file(h)
                if f in live:
                    frames.append((f, o))
        rng.shuffle(frames)
        k = 0
        for (f, o) in frames[: max(3, self.per_base() // 4)]:
            c = o % B
            for delta in rng.sample([-1, 0, 1, 2, 6, 7, 8], 3):
                ln = B - c - 7 + delta
                if 0 <= ln < 65536:
                    ty = rng.choice([1, 2, 3, 4])
                    out.append(("%s_w%d" % (bid, k), cmds + ["damage %d %d x%s" % (f, o + 4, (struct.pack("<H", ln) + bytes([ty])).hex()), "open af"]))
                    k += 1
                    self.stats["len_window_images"] = self.stats.get("len_window_images", 0) + 1
        for blk in range(mrl.NBV):
            f = rng.choice(live)
            delta = rng.choice([-1, 0, 1, 3, 7, 8])
            ln = B - 7 + delta
            if ln < 65536:
                hdr = struct.pack("<IHB", rng.randrange(0, 2 ** 32), ln, rng.choice([1, 2, 3, 4]))
                out.append(("%s_v%d" % (bid, blk), cmds + ["damage %d %d x%s" % (f, blk * B, hdr.hex()), "open af"]))
        return out

    def generate(self, n=None, tag="g"):
        cases = TwoPass.generate(self, n, tag)
        # known finding F6: a CRC-valid AppendRecords entry whose record sits at position u64::MAX
        q = b"q"
        rec = struct.pack("<QI", 2 ** 64 - 1, 1) + b"z"
        entry = bytes([4]) + struct.pack("<QH", 2 ** 64 - 1, len(q)) + q + rec
        crc = zlib.crc32(bytes([1]) + entry) & 0xFFFFFFFF
        fr = struct.pack("<IHB", crc, len(entry), 1) + entry
        cases.append(("u64max", ["open af", "create =q", "drop", "damage 0 19 x%s" % fr.hex(), "open af"]))
        # known finding F9: the last WAL file is LONGER than a full file (5 blocks), the reader ends 4 bytes before a
        # block end beyond the file size, an empty queue with a ~32 KiB name must be re-recorded by the recovery GC:
        # its padding write rolls over to a misaligned offset and the assert in RollingWriter::write fires
        B = mrl.B
        end_of_record = B + 7 + (11 + 32760 - (B - 7))
        payload = b"\xff" * (B - 4 - 7)
        crc = zlib.crc32(bytes([1]) + payload) & 0xFFFFFFFF
        block = struct.pack("<IHB", crc, len(payload), 1) + payload + bytes(4)
        content1 = b"\xff" * (4 * B) + block
        if mrl.NBV == 4:
            cases.append(("overlong", ["open af", "create @32760:1", "drop",
                                       "damage 0 %d x%s" % (end_of_record, (b"\xff" * (4 * B - end_of_record)).hex()),
                                       "seedfile %s f %s" % (("wal-%020d" % 1).encode().hex(), content1.hex()), "open af"]))
        return cases

    def nontrivial(self, cmds, tr):
        return True if tr and outcome_of(tr[-1]) != "out open ok" else PropBase.nontrivial(self, cmds, tr)

    def oracle(self, cid, cmds, tr):
        vs = []
        for i, c in enumerate(tr):
            out = outcome_of(c) or ""
            bad = None
            if c["name"] == "open" and ("err=Panic" in out or "err=Hang" in out):
                bad = "open: %s" % out
            if any(l.startswith("acc err=Panic") for l in c["lines"]):
                bad = "a read accessor panicked after `%s`" % (cmds[i] if i < len(cmds) else c["name"])
            if c["name"] == "driver-error":
                bad = "the driver died: %s" % out
            if bad:
                # where and why it panicked (the harness's `pan` line: "<file>:<line> <message>"); the two recorded
                # findings are recognised by their call site and message, never by the look of the input
                pan = next((l[4:] for l in c["lines"] if l.startswith("pan ")), "")
                is_panic = "Panic" in bad or "panicked" in bad
                if is_panic and "rolling/directory.rs" in pan and "num_bytes_remaining_in_block" in pan and \
                        any(x.startswith(("cpfile", "truncfile", "seedfile")) for x in cmds):
                    vs.append({"msg": "cmd %d: %s at %s (a WAL file longer than a full file)" % (i, bad, pan), "shape": "overlong-file"})
                    return vs
                forged_max = any(("ff" * 8) in x for x in cmds if x.startswith("damage "))
                if is_panic and "mem/queue.rs" in pan and "overflow" in pan and forged_max:
                    shape = "position-u64-max"
                else:
                    shape = "panic-or-hang"
                vs.append({"msg": "cmd %d: %s%s" % (i, bad, (" at " + pan) if pan else ""), "shape": shape})
                return vs
        return vs


# =========================================================================== C11
class C11(TwoPass):
    pid = "C11"
    judges_hang_itself = True
    prefixes = ("out", "ev", "q", "r")
    policies = ["af"]
    per_base_quick = 40
    rule = ("base histories leaving 1-4 WAL files, clean drop; a fault-free open is traced to count the read_dir / open / read calls recovery makes; then for every n below that count "
            "(sampled) a fault plan 'the n-th call of that site fails, once or from then on, with PermissionDenied / Other / Interrupted / NotFound / UnexpectedEof' is armed and open is called "
            "with a deadline; non-trivial = the injected failure was reached; distinct = distinct transcripts")
    oracle_text = "with an armed failure that recovery reaches, open must return an I/O error promptly (never Ok, never Corruption, never hang past the deadline)"

    def deadline_ms(self):
        return 6000

    def base_history(self, rng, i):
        if i % 4 == 1:
            # an I/O failure met while recovery is LEAVING a damaged block (a frame header whose type byte is not a
            # frame type makes the reader drop the rest of that block): append-only history, so that file 0 keeps all
            # its blocks; block j of file 0 gets an unparsable first header; the traced fault-free open of the damaged
            # directory gives the call counts the fault plans range over
            cmds = ["open af", "create =q"]
            for k in range(rng.randrange(5, 9)):
                cmds.append("append =q - %d:%d" % (rng.choice([30000, 50000, 70000]), 300 + k))
            j = rng.choice([1, 2, 3])
            cmds += ["drop", "damage 0 %d x%s" % (j * mrl.B + 6, rng.choice(["ff", "00", "09"])), "open af"]
            self.stats["damaged_header_bases"] = self.stats.get("damaged_header_bases", 0) + 1
            return cmds, _G(cmds, ["=q"])
        g = HistGen(rng, policy="af", max_payload=60000)
        g.run(rng.randrange(4, 16), weights={"create": 8, "delete": 3, "append": 65, "truncate": 14, "persist": 0, "restart": 0})
        self.merge_stats(g.stats)
        return g.cmds + ["drop", "open af"], g

    def derive(self, rng, bid, cmds, g, tr):
        out = []
        o = tr[len(cmds) - 1]
        counts = {"readdir": 0, "open": 0, "read": 0}
        for l in events_of(o):
            k = l.split()[2]
            if k == "readdir":
                counts["readdir"] += 1
            elif k == "openrw":
                counts["open"] += 1
            elif k == "read":
                counts["read"] += 1
        plans = []
        for site, n in counts.items():
            for nth in range(n):
                plans.append((site, nth))
        rng.shuffle(plans)
        base = cmds[:-1]
        for (site, nth) in plans[: self.per_base()]:
            kind = rng.choice(["PermissionDenied", "Other", "Interrupted", "NotFound", "UnexpectedEof"])
            pers = rng.choice(["o", "p"])
            self.stats["kind_" + kind] = self.stats.get("kind_" + kind, 0) + 1
            out.append(("%s_f%s%d%s" % (bid, site, nth, pers), base + ["fault %s %d %s %s" % (site, nth, pers, kind), "open af"]))
            self.stats["fault_plans"] = self.stats.get("fault_plans", 0) + 1
        return out

    def nontrivial(self, cmds, tr):
        return True

    def oracle(self, cid, cmds, tr):
        vs = []
        if len(tr) < len(cmds):
            if tr and tr[-1]["name"] == "driver-error":
                vs.append({"msg": "driver died: %r" % outcome_of(tr[-1]), "shape": "io-hang"})
            return vs
        if len(cmds) < 2 or not cmds[-2].startswith("fault ") or not cmds[-1].startswith("open "):
            return vs       # not a fault-injection case (e.g. an over-shrunk script): nothing to judge
        out = outcome_of(tr[-1]) or ""
        f = cmds[-2].split()
        # std's read_exact reports a short read as ErrorKind::UnexpectedEof, and no OS error decodes to that
        # kind: a read failing with it IS the end-of-file signal of the API (OpenIo.reportable excludes
        # exactly this plan; C11_absorbed_* say what happens instead).  Only hang-freedom and the
        # model/implementation diff are judged for it.
        in_band_eof = (f[1] == "read" and f[4] == "UnexpectedEof")
        # Plans are generated with an index below the number of calls a fault-free recovery makes, so the fault is
        # always reached; a script that was cut down afterwards has lost that guarantee (the violation is therefore
        # not shrinkable), and for read faults the trace itself says whether the failing call was made.
        reached = True
        if f[1] == "read":
            reached = any(l.split()[2] == "read" and l.split()[-1] == "0" for l in events_of(tr[-1]))
        if "err=Hang" in out:
            vs.append({"msg": "`%s`: open did not return within the deadline" % cmds[-2], "shape": "io-hang", "shrinkable": False})
        elif in_band_eof:
            self.stats["in_band_eof_plans"] = self.stats.get("in_band_eof_plans", 0) + 1
        elif not reached:
            self.stats["fault_not_reached"] = self.stats.get("fault_not_reached", 0) + 1
        elif "err=Io:" not in out:
            vs.append({"msg": "`%s`: open returned %r instead of an I/O error" % (cmds[-2], out), "shape": "io-swallowed", "shrinkable": False})
        return vs


# =========================================================================== C12
class C12(TwoPass):
    pid = "C12"
    known_shape = "crc-linear-tail"

    def generate(self, n=None, tag="g"):
        cases = TwoPass.generate(self, n, tag)
        last = mrl.gen_payload(40, 8) + linear_tail(b"\x10\x20\x30\x40")
        total = 7 + 11 + 1 + (12 + 5) + (12 + 9) + (12 + len(last))
        cases.append(("lintail_B2_c9", ["open af", "create =q", "append =q - 5:1 9:2 x%s" % last.hex(),
                                        "crash 9 %d" % (total - 8), "open af"]))
        return cases

    prefixes = ("out", "ev", "q", "r", "lr")
    policies = ["af", "as"]
    rule = ("base histories followed by one batch append of 2-6 records whose total size is {small, about a block, three blocks, more than a file} at an aimed alignment, then 0-3 further "
            "calls (truncations of that queue included) and a clean drop; derived images: crash cuts at and inside every write event of the batch call and later, and single-frame "
            "damage of frames written by the batch call; non-trivial/distinct as for C02")
    oracle_text = ("whenever open succeeds, the recovered records of the batch are none of them, or all of them, or all of them above the highest truncation issued after the batch: "
                   "never a hole, never a missing tail")

    def base_history(self, rng, i):
        if i % 6 == 0:
            # in-phase family: all items of the batch have the same size d, with d dividing the payload
            # capacity of a full block, and the batch has Middle frames: losing exactly one Middle frame
            # would leave a buffer that still parses (a batch with a hole)
            cap = mrl.B - 7
            divs = [d for d in range(13, 400) if cap % d == 0] or [cap]
            d = rng.choice(divs)
            n = (3 * mrl.B) // d + rng.randrange(5, 40)
            g = HistGen(rng, policy="af", nqueues=1)
            g.cmds.append("create =q"); g.ref.create("=q"); g.note_write("pos", "=q")
            inphase_align_first(rng, g, d)
            pls = ["%d:%d" % (d - 12, 500 + k) for k in range(n)]
            res = g.ref.append("=q", None, pls)
            g.cmds.append("append =q - " + " ".join(pls))
            g.note_write("append", "=q", [d - 12] * n)
            g.batch = (len(g.cmds) - 1, "=q", 0, pls)
            g.inphase = True
            self.stats["inphase_batches"] = self.stats.get("inphase_batches", 0) + 1
            return g.cmds + ["drop"], g
        g = HistGen(rng, policy=rng.choice(self.policies), max_payload=40000)
        g.run(rng.randrange(3, 12), weights={"create": 10, "delete": 3, "append": 55, "truncate": 25, "persist": 0, "restart": 3})
        existing = [n for n in g.names if n in g.ref.q]
        if not existing:
            g.op_create()
            existing = [n for n in g.names if n in g.ref.q]
        tok = rng.choice(existing)
        n = rng.randrange(2, 7)
        kind = rng.choice(["small", "block", "3blocks", "file"])
        total = {"small": 200, "block": mrl.B, "3blocks": 3 * mrl.B, "file": mrl.FILE + 5000}[kind]
        lens = [max(0, total // n + rng.randrange(-20, 20)) for _ in range(n)]
        if rng.random() < 0.5:
            l = mrl.aimed_payload_len(g.cursor, len(name_bytes(tok)), rng.choice([0, 3, 6, 7, 8]), rng.choice([0, 1, 2]))
            if l is not None and l > sum(12 + x for x in lens[1:]):
                lens[0] = max(0, l - sum(12 + x for x in lens[1:]))
        pls = ["%d:%d" % (l, g.next_seed()) for l in lens]
        res = g.ref.append(tok, None, pls)
        g.cmds.append("append %s - %s" % (tok, " ".join(pls)))
        g.note_write("append", tok, lens)
        self.batch_idx = len(g.cmds) - 1
        for _ in range(rng.choice([0, 0, 1, 2, 3])):
            if rng.random() < 0.6:
                q = g.ref.q[tok]
                if q.recs:
                    p = rng.randrange(q.recs[0][0], q.recs[-1][0] + 1)
                    g.ref.truncate(tok, p); g.cmds.append("truncate %s %d" % (tok, p)); g.note_write("pos", tok)
            else:
                g.op_append()
        self.merge_stats(g.stats)
        g.batch = (self.batch_idx, tok, res[1] - n + 1, pls)
        return g.cmds + ["drop"], g

    def derive(self, rng, bid, cmds, g, tr):
        out = []
        bi, tok, p0, pls = g.batch
        meta = "B%d" % bi
        for (ci, cut, k) in crash_points(rng, cmds[:-1], tr[:-1], self.per_base() * 2 // 3, from_cmd=bi):
            prefix = cmds[:min(ci + 1, len(cmds) - 1)]
            out.append(("%s_%s_c%d_%d" % (bid, meta, cut, k), prefix + ["crash %d %d" % (cut, k), "open af"]))
            self.stats["crash_images"] = self.stats.get("crash_images", 0) + 1
        layout = call_layout(cmds, tr)
        live = DamageBase.live_files(self, tr)
        if bi in layout:
            frames = [(stream_to_file(h), n) for (h, n) in layout[bi]["frames"]]
            frames = [((f, o), n) for ((f, o), n) in frames if f in live]
            rng.shuffle(frames)
            nfr = max(2, self.per_base() // 3)
            if getattr(g, "inphase", False):
                # damage each Middle frame (full-block frames) in its payload
                mids = [fr for fr in frames[1:-1]] if len(frames) > 2 else frames
                frames = mids + [fr for fr in frames if fr not in mids]
                nfr = max(nfr, min(len(mids), 6))
            if getattr(g, "inphase", False):
                # every Middle frame: once in its payload, once in its type byte (not a frame type), once in its
                # checksum: three different ways for the reader to lose exactly that frame
                for k, ((f, o), n) in enumerate(frames[: nfr]):
                    for tag, off, val in (("p", o + 7 + rng.randrange(0, max(1, n)), rng.randrange(1, 256)),
                                          ("t", o + 6, rng.choice([0, 5, 9, 77, 255])),
                                          ("c", o + rng.randrange(0, 4), rng.randrange(1, 256))):
                        out.append(("%s_%s_i%s%d" % (bid, meta, tag, k), cmds + ["damage %d %d x%02x" % (f, off, val), "open af"]))
                        self.stats["damage_images"] = self.stats.get("damage_images", 0) + 1
                    # header rewritten to an EMPTY frame (length 0), keeping its type or claiming to be the Last one: the
                    # checksum covers type + payload, so only the CRC check stands between this header and a batch that
                    # ends early
                    for tag, data in (("z", "0000"), ("l", "000004"), ("f", "000001")):
                        out.append(("%s_%s_i%s%d" % (bid, meta, tag, k), cmds + ["damage %d %d x%s" % (f, o + 4, data), "open af"]))
                        self.stats["damage_images"] = self.stats.get("damage_images", 0) + 1
                frames = []
            for ((f, o), n) in frames[: nfr]:
                x = rng.random()
                if x < 0.4 or n == 0:
                    off = o + rng.randrange(0, 7)
                else:
                    off = o + 7 + rng.choice([0, n - 1, rng.randrange(0, n)])
                out.append(("%s_%s_d%d_%d" % (bid, meta, f, off), cmds + ["damage %d %d x%02x" % (f, off, rng.randrange(1, 256)), "open af"]))
                self.stats["damage_images"] = self.stats.get("damage_images", 0) + 1
        return out

    def oracle(self, cid, cmds, tr):
        vs = []
        if len(tr) < len(cmds) or "_B" not in cid:
            return vs
        bi = int(cid.split("_B")[1].split("_")[0])
        o = tr[-1]
        if outcome_of(o) != "out open ok":
            return vs
        toks = split_cmd(cmds[bi])
        if toks[0] != "append":
            return vs
        m = re.search(r" last=(\d+) ", outcome_of(tr[bi]) or "") if bi < len(tr) and tr[bi]["name"] == "append" else None
        # positions of the batch from the spec
        states = ref_states(cmds[:bi])
        S = states[bi]
        q = S.q.get(toks[1])
        if q is None:
            return vs
        p0 = q.next
        n = len(toks) - 3
        batch = [(p0 + k,) + payload_token_key(toks[3 + k]) for k in range(n)]
        tmax = -1
        for c in cmds[bi + 1:]:
            t = split_cmd(c)
            if t and t[0] == "truncate" and t[1] == toks[1]:
                tmax = max(tmax, int(t[2]))
            if t and t[0] == "delete" and t[1] == toks[1]:
                return vs
        got = obs_of(o).get(show_name(name_bytes(toks[1])))
        have = set(got["recs"]) if got else set()
        present = [b for b in batch if b in have]
        got_by_pos = {r[0]: r for r in (got["recs"] if got else [])}
        for k, b in enumerate(batch):
            r = got_by_pos.get(b[0])
            if r is not None and r != b and zero_tail_variant(toks[3 + k], r):
                vs.append({"msg": "batch of cmd %d: record %d is recovered with a zero-filled tail that was never appended: its torn-off tail has the CRC of zeros (CRC-32 is affine)" % (bi, b[0]),
                           "shape": "crc-linear-tail", "shrinkable": False})
                return vs
        if not present:
            return vs
        # must be a suffix of the batch ...
        if present != batch[len(batch) - len(present):]:
            vs.append({"msg": "batch of cmd %d `%s...`: recovered records %r are not a tail of the batch %r" % (bi, cmds[bi][:50], [b[0] for b in present], [b[0] for b in batch]), "shape": "batch-hole", "shrinkable": False})
            return vs
        # ... and everything missing must be explained by a truncation issued after the batch
        missing = batch[: len(batch) - len(present)]
        if missing and missing[-1][0] > tmax:
            vs.append({"msg": "batch of cmd %d: records %r are missing although no later truncation covers them (highest later truncation %d); present %r" % (
                bi, [b[0] for b in missing], tmax, [b[0] for b in present]), "shape": "batch-partial", "shrinkable": False})
        return vs


# =========================================================================== C14
class C14(PropBase):
    pid = "C14"
    prefixes = ("out", "q", "r", "lr")
    policies = ["af", "as", "no", "d0f", "dif", "dis", "d0s"]
    quick_cases = 30
    thorough_cases = 400
    rule = ("each HistGen history (with explicit persist calls, roll-over, GC, restarts) is run under seven policies: Always(Flush), Always(FlushAndFsync), DoNothing, "
            "OnDelay(0 ns / 1 h) x (Flush / FlushAndFsync); non-trivial/distinct as for C01")
    oracle_text = ("metamorphic, on the real crate: for every call the outcome (positions, eviction count, error, wal_bytes_written) and the full observable state are identical "
                   "across the seven policies, also after every clean restart and after the final one")

    def generate(self, n=None, tag="g"):
        cases = []
        for i in range(n or self.ncases()):
            rng = random.Random(self.rng.random())
            g = HistGen(rng, policy="POL")
            if i % 5 == 1:
                # a roll-over caused by a control entry (create_queue) while nothing retained lives in the
                # old file: the only moment a file is deletable outside a truncate/delete; then calls on
                # empty queues, persists, restart
                # the truncate entry (7+11+1 bytes) must still fit, the create entry (7+11+5) must not
                r = 19 + rng.choice([0, 1, 3, 6, 7, 10, 15, 22])
                l = aim_file_end(7 + 12, 1, r)
                g.cmds += ["create =q", "append =q - %d:7" % l, "truncate =q 0"]
                g.ref.create("=q"); g.ref.append("=q", None, ["%d:7" % l]); g.ref.truncate("=q", 0)
                g.cmds += ["create =fresh", "append =fresh - 5:1", "persist f", "append =q - 9:2", "append =fresh - 0:3 4:4"]
                g.names = ["=q", "=fresh"]
                for c in g.cmds[-5:]:
                    apply_ref(g.ref, c.split())
                if rng.random() < 0.5:
                    g.cmds += ["truncate =fresh 0", "create =third", "append =third 7 1:1"]
                self.stats["create_rolls_profile"] = self.stats.get("create_rolls_profile", 0) + 1
            else:
                g.run(rng.randrange(8, 36), weights={"create": 8, "delete": 5, "append": 46, "truncate": 26, "persist": 8, "restart": 7})
            g.op_restart()
            self.merge_stats(g.stats)
            for pol in self.policies:
                cases.append(("%s%d_%s" % (tag, i, pol), [c.replace("POL", pol) for c in g.cmds]))
        return cases

    def corpus(self):
        """a stored script is one member of a group: rebuild the whole group (the same history under every
        policy) so that the metamorphic oracle has something to compare"""
        out = []
        for cid, cmds in PropBase.corpus(self):
            for pol in self.policies:
                out.append(("%s_%s" % (cid, pol), [("open %s" % pol) if c.startswith("open ") else c for c in cmds]))
        return out

    def execute(self, cases, consts):
        res = PropBase.execute(self, cases, consts)
        groups = {}
        real = self._last_real
        for cid, cmds in cases:
            groups.setdefault(cid.rsplit("_", 1)[0], []).append((cid, cmds))
        for gid, members in groups.items():
            base_id, base_cmds = members[0]
            bt = real.get(base_id, [])
            for cid, cmds in members[1:]:
                t = real.get(cid, [])
                for i in range(min(len(bt), len(t))):
                    a = (outcome_of(bt[i]), logical(obs_of(bt[i])))
                    b = (outcome_of(t[i]), logical(obs_of(t[i])))
                    if a != b:
                        res["violations"].append({"msg": "cmd %d `%s`: policy %s gives %r but policy %s gives %r" % (
                            i, cmds[i] if i < len(cmds) else "", base_id.rsplit("_", 1)[1], (a[0], summarize(a[1])), cid.rsplit("_", 1)[1], (b[0], summarize(b[1]))),
                            "shape": "policy-dependent", "case": cid, "case_cmds": cmds, "group": [m[1] for m in members[:1]], "shrinkable": False})
                        break
        return res

    def run_pair(self, cases, consts, need_model=True):
        real, model, ann = PropBase.run_pair(self, cases, consts, need_model)
        self._last_real = real
        return real, model, ann


# =========================================================================== C18
def addressed_to(cmd, tok):
    t = split_cmd(cmd)
    if t[0] in MUT or t[0] == "range":
        return t[1] == tok
    return True       # open / drop / persist stay


class C18(PropBase):
    pid = "C18"
    prefixes = ("out", "q", "r", "lr")
    policies = ["af", "no"]
    quick_cases = 40
    thorough_cases = 500
    rule = ("HistGen histories over 2-4 queues sharing WAL files (roll-over, truncation- and deletion-driven GC, restarts); for each queue q the projected history h|q "
            "(calls addressed to q plus restarts and persists) is run as well; crash family: a crash cut inside a call addressed to another queue (torn writes, tears exactly at block "
            "boundaries preferred), recovery, a continuation on the other queues and a second restart, against the projection with a clean restart in place of the crash; non-trivial/distinct as for C01")
    oracle_text = ("metamorphic, on the real crate: after every call of h addressed to q and after every restart, q's existence, records (positions, payload hashes) and next position, "
                   "and the logical outcome of q's calls (positions, eviction counts, errors) equal those of the corresponding call of h|q")

    def generate(self, n=None, tag="g"):
        cases = []
        total = n or self.ncases()
        for i in range(total):
            rng = random.Random(self.rng.random())
            g = HistGen(rng, policy=rng.choice(self.policies), nqueues=rng.choice([2, 3, 4]), max_payload=50000)
            if i % 5 == 2:
                # one queue's truncation / deletion frees the oldest file while the cursor is a few bytes before
                # the end of the current one, with idle empty bystander queues: the GC's own position records
                # roll the writer over
                r = rng.randrange(4, 120)
                nb = rng.choice([1, 2, 4, 8])
                names = ["=a"] + ["=b%d" % k for k in range(nb)]
                cmds = ["open %s" % g.policy]
                cursor = 0
                for n in names:
                    cmds.append("create %s" % n); cursor = mrl.advance(cursor, 11 + len(n) - 1)
                for n in names[1:]:
                    if rng.random() < 0.5:
                        cmds.append("append %s - 5:1" % n); cursor = mrl.advance(cursor, 11 + len(n) - 1 + 12 + 5)
                        cmds.append("truncate %s 0" % n); cursor = mrl.advance(cursor, 11 + len(n) - 1)
                target = 2 * mrl.FILE - r - (7 + 11 + 1)
                l = aim_stream_pos(cursor, 1, target)
                if l is not None:
                    cmds.append("append =a - %d:9" % l)
                    cmds.append(rng.choice(["truncate =a 0", "delete =a"]))
                    cmds += ["drop", "open af"]
                    g.cmds = cmds
                    g.names = names
                    self.stats["gc_roll_profile"] = self.stats.get("gc_roll_profile", 0) + 1
                else:
                    g.run(rng.randrange(10, 40))
                    g.op_restart()
            else:
                g.run(rng.randrange(10, 40), weights={"create": 9, "delete": 6, "append": 46, "truncate": 28, "persist": 2, "restart": 7})
                g.op_restart()
            self.merge_stats(g.stats)
            cases.append(("%s%d_full" % (tag, i), g.cmds))
            for k, tok in enumerate(g.names):
                cases.append(("%s%d_p%d" % (tag, i, k), [c for c in g.cmds if addressed_to(c, tok)]))
        cases.extend(self.crash_family(total, tag))
        return cases

    def corpus(self):
        """a stored script is a full history: rebuild its projections (all queues but the one whose call a crash
        interrupts) so that the metamorphic oracle has something to compare"""
        out = []
        for cid, cmds in PropBase.corpus(self):
            gid = cid[:-5] if cid.endswith("_full") else cid
            out.append((gid + "_full", cmds))
            names = []
            for c in cmds:
                t = split_cmd(c)
                if t and t[0] in MUT and t[1] not in names:
                    names.append(t[1])
            inflight = set()
            for i, c in enumerate(cmds):
                if c.startswith("crash ") and i > 0:
                    t = split_cmd(cmds[i - 1])
                    if t and t[0] in MUT:
                        inflight.add(t[1])
            for k, tok in enumerate(names[:8]):
                if tok in inflight:
                    continue
                out.append(("%s_p%d" % (gid, k), [("drop" if c.startswith("crash ") else c) for c in cmds if addressed_to(c, tok)]))
        return out

    def crash_family(self, n, tag):
        """a crash in the middle of a call addressed to ANOTHER queue (flush-per-call policy, so every completed
        call is durable): for every queue q other than the one in flight, the full history with the crash and
        its recovery must show q exactly as the projection h|q does with a clean restart at that point -
        also after a continuation and a second restart (a torn write left behind by the other queue's call
        must not swallow what q writes next).  Two passes: the base history is run once to learn its trace."""
        nb = max(3, n // 6)
        bases = []
        for i in range(nb):
            rng = random.Random(self.rng.random())
            if i % 3 == 0:
                # one GC pass, triggered by a call on one queue, releases several files while another file holds calls
                # of OTHER queues that supersede older content (a delete, a truncate): a crash among the unlinks
                a = aimed_gc_base(rng, 4, ["af"], self.stats)
                bases.append(("%sc%d" % (tag, i), a.cmds, a, rng))
                continue
            g = HistGen(rng, policy="af", nqueues=rng.choice([2, 3]), max_payload=70000)
            g.run(rng.randrange(6, 18), weights={"create": 9, "delete": 4, "append": 60, "truncate": 22, "persist": 0, "restart": 3})
            bases.append(("%sc%d" % (tag, i), g.cmds, g, rng))
        real = mrl.run_real([(b[0], b[1]) for b in bases], deadline_ms=self.deadline_ms())
        out = []
        for bid, cmds, g, rng in bases:
            tr = real.get(bid, [])
            if len(tr) < len(cmds):
                self.gen_problems = getattr(self, "gen_problems", []) + [
                    "first pass of base history %s stopped after %d of %d commands" % (bid, len(tr), len(cmds))]
                continue
            pts = [p for p in crash_points(rng, cmds, tr, 400) if p[0] < len(cmds) and split_cmd(cmds[p[0]])[0] in MUT]
            # prefer torn writes, block-boundary tears first
            def key(p):
                return (0 if p[2] and p[2] % mrl.B in (mrl.B - 19, 0) else 1, rng.random())
            torn = sorted([p for p in pts if p[2]], key=lambda p: (rng.random()))
            evs = {e["idx"]: e for _, e in trace_events(tr)}
            bb = [p for p in torn if (evs[p[1]]["off"] + p[2]) % mrl.B == 0]
            unl = [p for p in pts if not p[2] and p[1] in evs and evs[p[1]]["kind"] == "unlink"]
            chosen = (unl[:4] + bb[:3] + torn[:2] + [p for p in pts if not p[2]][:1])[:6]
            for (ci, cut, k) in chosen:
                inflight = split_cmd(cmds[ci])[1]
                others = [t for t in g.names if t != inflight]
                if not others:
                    continue
                cont = []
                for t in others[:2]:
                    cont.append("append %s - 9:%d" % (t, 950 + len(cont)))
                    cont.append("append %s - 120:%d" % (t, 960 + len(cont)))
                full = cmds[:ci + 1] + ["crash %d %d" % (cut, k), "open af"] + cont + ["drop", "open af"]
                cid = "%s_x%d_%d" % (bid, cut, k)
                out.append((cid + "_full", full))
                for kk, tok in enumerate(g.names):
                    if tok == inflight:
                        continue
                    proj = [("drop" if c.startswith("crash ") else c) for c in full if addressed_to(c, tok)]
                    out.append(("%s_p%d" % (cid, kk), proj))
                self.stats["crash_isolation_cases"] = self.stats.get("crash_isolation_cases", 0) + 1
                if k and (evs[cut]["off"] + k) % mrl.B == 0:
                    self.stats["block_boundary_tears"] = self.stats.get("block_boundary_tears", 0) + 1
        return out

    def run_pair(self, cases, consts, need_model=True):
        real, model, ann = PropBase.run_pair(self, cases, consts, need_model)
        self._last_real = real
        self._cases = dict(cases)
        return real, model, ann

    def execute(self, cases, consts):
        res = PropBase.execute(self, cases, consts)
        real = self._last_real
        cd = dict(cases)
        for cid, cmds in cases:
            if not cid.endswith("_full"):
                continue
            gid = cid[:-5]
            ft = real.get(cid, [])
            names = []
            for c in cmds:
                t = split_cmd(c)
                if t[0] in MUT and t[1] not in names:
                    names.append(t[1])
            for k in range(0, 8):
                pid_ = "%s_p%d" % (gid, k)
                if pid_ not in cd:
                    continue
                pc = cd[pid_]
                pt = real.get(pid_, [])
                # which queue is this projection about
                toks_q = [split_cmd(c)[1] for c in pc if split_cmd(c)[0] in MUT]
                if not toks_q:
                    continue
                tok = toks_q[0]
                qn = show_name(name_bytes(tok))
                # align: walk the full history, advancing in the projection on addressed commands
                j = 0
                for i, c in enumerate(cmds):
                    if not addressed_to(c, tok):
                        continue
                    if i >= len(ft) or j >= len(pt):
                        break
                    t = split_cmd(c)
                    fo = outcome_of(ft[i]) or ""
                    po = outcome_of(pt[j]) or ""
                    strip = lambda s: re.sub(r" bytes=\d+", "", s)
                    if t[0] in MUT and strip(fo) != strip(po):
                        res["violations"].append({"msg": "queue %s: cmd `%s` returns %r in the full history but %r when the other queues' calls are removed" % (tok, c, fo, po),
                                                  "shape": "isolation-outcome", "case": cid, "case_cmds": cmds, "shrinkable": False})
                        break
                    if t[0] in MUT + ("open",):
                        fq = logical(obs_of(ft[i])).get(qn)
                        pq = logical(obs_of(pt[j])).get(qn)
                        if fq != pq:
                            res["violations"].append({"msg": "queue %s after cmd %d `%s`: %r in the full history, %r with the other queues' calls removed" % (
                                tok, i, c, fq and ([r[0] for r in fq[0]][:8], fq[1]), pq and ([r[0] for r in pq[0]][:8], pq[1])),
                                "shape": "isolation-state", "case": cid, "case_cmds": cmds, "shrinkable": False})
                            break
                    j += 1
        return res


import not_proved
PROPS.update({"C02": C02, "C03": C03, "C04": C04, "C06": C06, "C07": C07, "C08": C08, "C09": C09,
              "C10": C10, "C11": C11, "C12": C12, "C14": C14, "C18": C18})

for _pid, _cls in PROPS.items():
    _cls.stated_not_proved = not_proved.NOT_PROVED.get(_pid, [])
