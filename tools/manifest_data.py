claim("C05",
      "Coq theorems (PropC05.v): refinement of every API call and of every history to the ten-line queue-map specification Spec.v "
      "(outcomes and abstract state, invariant established by open and preserved by every call), range for all nine bound shapes, "
      "last_position/last_record, the three ring-buffer branches for every split; tied to the code by differential execution with range queries "
      "after the calls, plus an independent Python reference map as direct oracle.",
      "Calls that fail with an I/O error are outside the refinement statement (the model leaves queues possibly changed, as the code does).",
      "Coq proof (refinement to an abstract spec, invariant by induction) + checked model/code correspondence")
claim("C13",
      "Coq theorems (PropC13.v): every rejected/no-op call returns the identical model state (files, buffer, trace, cursor, queues), reports 0 bytes, "
      "the seven shapes are complete, and the call is erasable from any history; tied to the code by differential execution on generated histories "
      "with every no-op shape inserted, plus a direct no-I/O/no-state-change oracle.",
      "", "Coq proof (state identity by case analysis) + checked model/code correspondence")
claim("C15",
      "Coq theorems (PropC15.v): the count returned by write_record over ANY block writer equals the bytes pushed; for every API call the reported "
      "wal_bytes_written is exactly the growth of the bytes accepted by the WAL writer (GC position entries and padding included), is 0 iff nothing was "
      "appended, equals the bytes of the call's write events under a flush-per-operation policy, and the running sum tracks the cursor over any history; "
      "tied to the code by differential execution and an oracle summing the real write events.",
      "", "Coq proof (generic counting lemma + case analysis of the API) + checked model/code correspondence")
claim("C16",
      "Coq theorems (PropC16.v): memory_used = name bytes + retained payload bytes + K per retained record in every state satisfying the representation "
      "invariant (established by open, preserved by every call); bounds; a truncation lowers it by exactly the evicted payload + K each; names-only "
      "baseline when all queues are empty; the payload buffer is exactly the concatenation of retained payloads. used <= allocated is checked at run time only.",
      "memory_used <= memory_allocated is a statement about std allocator capacities: checked after every call by the oracle, not proved (stated_not_proved).",
      "Coq proof (invariant + closed formula) + checked model/code correspondence")
claim("C17",
      "Coq theorems (PropC17.v): filename/parse round trip and exactness over all byte strings (only wal-+20 digits of a u64 parse; rejected names are "
      "never names the library forms); tied to the code by differential execution on directories seeded with near-miss names, sub-directories, symlinks "
      "(also right in the way of the next roll-over) and gapped WAL numbers, plus a direct oracle on the I/O trace and listing.",
      "Symlink/file_type semantics are OS behaviour modelled as an entry kind.",
      "Coq proof (codec round trip) + checked model/code correspondence")
claim("C04",
      'Coq theorems (PropC04.v): within an incarnation the next position never decreases, appended positions strictly increase and are fresh, and after truncate(..=p) the next position is >= p+1 - live for every history (specification level, transferred by refinement), across clean restarts anywhere (a restart never changes a next position, even for an emptied queue whose WAL files were all deleted), and after recovery from any crash image and any power-loss image under any policy (recovered next positions are those of a specification state at least as recent as the persist point). Tied to the code by differential execution plus a high-water-mark oracle over restarts and crash images of histories in which emptied queues stay idle while every file that mentioned them is garbage-collected.',
      'Crash half inherits the premises of C03_process_crash (incl. no_zero_collision, which only concerns payload bytes, not positions); power-loss recovery: PowerCorollaries.power_next_positions / power_next_after_persist (same premises).',
      'Coq proof (monotonicity on the spec, refinement, end-to-end restart and crash theorems) + checked model/code correspondence + crash/restart oracle')
claim("C06",
      "Coq theorems (PropC06.v): the GC loop removes exactly a prefix of unreferenced files and never stops early; every call keeps the tracked files a contiguous run ending at the "
      "file being written; after a successful truncate/delete_queue the oldest file is current, still referenced by a retained record, or not older than the file written when the call "
      "began; disk_used is the size of that run; the directory's WAL files are exactly the tracked ones. Tied to the code by differential execution (listing, sizes, disk_used) and an oracle "
      "that reads each append's first-write file off the I/O trace. One known finding (append starting exactly at a file end pins the full file).",
      "",
      "Coq proof (loop invariant + tracker invariant by induction over calls) + checked model/code correspondence")
claim("C07",
      "Coq theorem (PropC07.v): for every block size 7 < B <= 65542 and every checksum function, any list of entries of any sizes written by the record writer from cursor 0 is read back "
      "identical and in order, then end of log, with no fuel exhaustion and byte counts adding up (all alignments arise as cases of the proof); entry and batch codecs round-trip; the same through the rolling WAL files (any number of blocks per file, entries spanning blocks and files; the reader over the files is the block reader over their concatenation; the writer rebuilt from the reader continues the same stream). Tied to the code "
      "by differential execution of the real RecordWriter/RecordReader on in-memory blocks (block-by-block hashes) with lengths aimed at every boundary case, and through files with restarts.",
      "The file-level theorem covers one writer incarnation from a fresh directory plus a restart; interleaved restarts/GC are covered by the correspondence and the restart oracle.",
      "Coq proof (stream invariant, induction over frames and entries) + checked model/code correspondence")
claim("C10",
      "Coq theorems (PropC10.v): for EVERY directory content (any names, kinds, lengths, bytes) and any fault plan, open terminates (explicit fuel bound, fuel monotonicity) and any log it returns satisfies the "
      "representation invariant; panic freedom by enumeration of the panic sites of the Rust code (every slice, index, unwrap, assert, split_at, copy_from_slice of open and of the read accessors, each with its "
      "source location and a guard proved to hold): the read half for ANY directory, the recovery-time GC when no WAL file is longer than a full file, the read accessors on whatever open returns, and - for debug "
      "builds - no arithmetic overflow when decoded positions stay below 2^64-1; allocation: what open builds in memory, and the reader's assembly buffer, are bounded by 2 x (total WAL bytes + one file) for ANY directory (AllocBound.v). The two premises are needed: known findings F9 (over-long last file: assert in RollingWriter::write) and F6 (record at position "
      "u64::MAX), both found by these proofs and reproduced on the crate on every run under catch_unwind with a watchdog, together with damaged / truncated / removed / duplicated files, stray entries, random "
      "and CRC-valid forged blocks.",
      "The enumeration of panic sites is by reading the Rust source, kept tied to it by a census of syntactic panic sites compared on every run (tools/panic_census.py, panic_sites.json: a file with more sites than enumerated breaks the tie); time arithmetic, overflow of in-memory size counters and allocation failure are not covered.",
      "Coq proof (termination measure; guards at enumerated panic sites) + checked model/code correspondence + catch_unwind oracle")
claim("C11",
      "Coq theorems (PropC11.v): with a fault plan armed on read_dir / open / read, if the injected failure is reached then open returns an I/O error — never Ok, never Corruption, never a hang "
      "(combined with C10's termination). Tied to the code by differential execution with the fault plans of the hooks for every call index recovery makes, with a deadline.",
      "std's UnexpectedEof-as-short-file convention is part of the model: a fault plan 'read fails with kind UnexpectedEof' is the in-band end-of-file signal of read_exact (no OS error decodes to that kind) and is excluded from the three main theorems by the premise `reportable p`; C11_absorbed_eof_only_first_read / C11_absorbed_read_is_short_read state what happens for it, and the correspondence check runs such plans too.",
      "Coq proof (invariant 'not fired or error' threaded through recovery) + checked model/code correspondence")
claim("C12",
      "Coq theorems (PropC12.v), END TO END: after any crash under any policy the recovered records of a batch are none, or all, or all above the highest later truncation - never a hole, never a missing tail (batch_crash, batch_crash_persisted, batch_crash_always, on top of the specification-level batch_all_or_nothing_spec); under CRC-detected damage the batch's entry is dropped as a whole and damage elsewhere leaves it intact (batch_damage_self, batch_damage_other); after power loss (batch_power, batch_power_persisted); under ARBITRARY damage inside one block, frame headers included, whenever open succeeds each queue holds a suffix of the batches of a sub-list of the written entries (C12_header_damage_suffix, under NoEmbeddedPath: F4 violates exactly that); layers: codec soundness (a decoded batch is the whole batch), replay applies all records of an entry or fails, open on torn and on damaged files. For the real CRC-32 the crash half is subject to known finding F8 (a torn-off tail d ++ rawcrc(d) of the LAST record is accepted as zeros), reproduced on every run. Tied to the code by differential execution plus an oracle over crash cuts inside the batch's writes and payload / type-byte / checksum damage of its frames, in-phase batches (also with the first frame on a record boundary, and with headers rewritten to empty frames) included.",
      'Crash theorems assume no_zero_collision (false for Crc.crc32: F8). Header-field damage in several blocks at once: oracle only (F4 lives outside NoEmbeddedPath).',
      'Coq proof (spec-level suffix lemma + end-to-end crash and damage theorems) + checked model/code correspondence + crash/damage oracle')
claim("C14",
      "Coq theorems (PropC14.v): one call, any history, clean drop and open are independent of the policy and of the OnDelay clock: identical outcomes (positions, eviction counts, errors, "
      "wal_bytes_written), same queues, same tracker/cursor, same directory once buffers are flushed, same result of open after a clean restart. Tied to the code by differential execution and a "
      "metamorphic oracle running each history under seven policies.",
      "", "Coq proof (erasure/equivalence relation preserved by every call) + checked model/code correspondence + metamorphic oracle")
claim("C18",
      "Coq theorems (PropC18.v): removing from any history the calls addressed to other queues changes neither q's content (range, last_position, last_record) nor the logical outcomes of q's calls - live for every history, across clean restarts anywhere, and after recovery from any crash image under any policy (what q recovers to is determined by the calls addressed to q alone, whatever file deletions the other queues' calls triggered); replay of an entry touches only the queue it names. Tied to the code by differential execution plus a metamorphic oracle (h versus h|q on the real crate, across restarts and GC, and across a crash inside another queue's call - torn writes, block-boundary tears - followed by a continuation and a second restart).",
      'Crash and power-loss halves (crash_projection, power_projection) inherit the premises of C03_process_crash / C03_power_loss.',
      'Coq proof (locality of the spec step, refinement, end-to-end restart and crash theorems) + checked model/code correspondence + metamorphic oracle')
claim("C01",
      "Coq theorems (PropC01.v), END TO END: C01_restart_identity - for every history of well-formed calls with clean restarts anywhere, from a fresh directory, dropping the log and opening the "
      "directory again succeeds and yields the same queues, the same retained records (range for all bounds, byte for byte), the same last position and last record; C01_history_spec - the whole history "
      "refines the sequential specification run over the calls alone (restarts are no-ops), for any block size, blocks per file and checksum function, however many files were rolled over or collected. "
      "Proved through: ghost entry log (live = replay), suffix-replay simulation and coverage, the files as one byte stream (writer and reader simulations), resynchronisation at a block boundary, the "
      "file-handle invariant, a global invariant preserved by every call incl. GC and re-established by open. Tied to the code by differential execution on restart histories and a before/after oracle.",
      "Premises: hist_ok (UTF-8 names < 2^16 bytes, positions/batch ends <= 2^64, payloads < 2^32 bytes, stream below 2^64 files), L_GC = L_IO = false (the current code). No I/O hypothesis is needed.",
      "Coq proof (global invariant by induction over calls and restarts; refinement to the spec with restarts as no-ops) + checked model/code correspondence + restart oracle")
claim("C08",
      "Coq theorems (PropC08.v): for ANY directory content the queues returned by open have strictly increasing positions and consistent payload offsets; whatever decodes as an entry is exactly the "
      "serialization of that entry; replay inserts exactly the records the entries carry; under CRC-detected damage of any set of frames the entries delivered are a subsequence of those written; under ARBITRARY damage inside one block (frame headers included) they are a sub-list of those written provided only genuine frames verify on the reader's path through that block. "
      "The unrestricted statement is false (known finding F4: a payload embedding a CRC-valid frame plus a damaged length field). Tied to the code by differential execution on frame-aimed and random "
      "in-place damage, with an oracle comparing recovered records against every record ever appended.",
      "Length/type-field damage: stream-level theorem for arbitrary damage inside ONE block under the hypothesis NoEmbeddedPath (HeaderDamage.header_damage_sublist; F4 violates exactly that hypothesis: NoEmbedded_necessary), lifted through open over files (open_header_damaged) and to the global invariant (C08_header_damage: open reports Corruption or every returned record was appended); several damaged blocks: oracle only. CRC-32 collision resistance is outside any proof.",
      "Coq proof (invariant for all images, codec soundness, damaged-stream theorem) + checked model/code correspondence + damage oracle")
claim("C09",
      'Coq theorems (PropC09.v), END TO END: C09_damage_costs_one_entry / C09_from_fresh - from any state satisfying the global invariant (any history with restarts), after a clean drop, with the checksum/payload bytes of one frame of entry X damaged so that its CRC fails, open succeeds and every retained record not appended by X is still there with the same position and payload; layers: open over damaged files replays exactly the intact entries, replaying a legal log with one entry removed never fails and keeps every other record, stream-level theorems for any number of damaged frames (every block size and checksum function). Tied to the code by differential execution plus an oracle that damages every sampled writer frame (layout derived from the I/O trace) and requires all un-hit appends intact.',
      "Premise dmg_bound (the recovery-time GC's position entries fit below 2^64 files). Undetected changes (CRC collisions) are excluded by the premise that the CRC check fails.",
      'Coq proof (damaged-stream reader analysis, deletion simulation on the entry log, global invariant) + checked model/code correspondence + per-frame damage oracle')
claim("C02",
      "Coq theorems (PropC02.v), END TO END for every checksum function without zero-completion collisions: C02_crash_atomic - from any state satisfying the global invariant, under a flush-per-operation "
      "policy, for EVERY crash image of a call (cut between any two file-system effects or after any number of bytes of any write) open succeeds and the recovered abstract state is that of the completed calls, "
      "or that plus the in-flight call; C02_history from a fresh directory; the recovered log is fully usable (crash_recovered_usable: every continuation history refines the specification and a clean restart restores the state, over a junk-tolerant generalisation InvJ of the global invariant), a second crash during a later call or during the recovery's own effects recovers consistently (crash_recovered_crash, crash_recovered_self), histories with crashes anywhere (crash_histories) - for calls of any geometry and every crash point except a strictly partial cut whose torn data end strictly inside the last block of the image's top file (jstate_crash_at3, crash_histories_at3); layers: the I/O trace of a call and the shape of every crash image, open on a torn stream (short last file included), stream-level "
      "torn-write theorems (torn_read keeps the collision alternative explicit and holds for the real CRC). For the REAL CRC-32 the property is refuted (PropC02x.v, known finding F8: CRC-32 is affine, a torn-off "
      "payload tail d ++ rawcrc(d) is accepted as zeros) - found by the vacuity audit of these very theorems and reproduced on the crate on every run. Tied to the code by differential execution on crash images "
      "cut before every kind of event (every unlink window and the end of the trace always included) and inside writes (block-boundary tears included), plus a crash oracle with continuation workload, restart, and a second crash 0-9 effects into the recovery.",
      "Premise no_zero_collision (false for Crc.crc32: F8). Continued use / second crash for a strictly partial cut ending strictly inside the last block of the image's top file: stream level, exhaustive evaluation of examples and oracle only. Kernel write ordering assumed as the property states.",
      "Coq proof (trace and crash-image shape, open on torn streams, global invariant) + refutation for the real CRC + checked model/code correspondence + crash-image oracle")
claim("C03",
      "Coq theorems (PropC03.v), END TO END under EVERY policy in both loss models: C03_process_crash / C03_power_loss - from a persist point followed by any further history under any policy, every image of "
      "what had reached the OS (process crash: cut before any event or inside any write) or stable storage (power loss: only writes followed by a sync of their file) opens successfully to the abstract state after "
      "some prefix of that history (never older than the persist point, never a mixture), roll-overs, multi-file entries, GC and a crash among the unlinks included; C03_persisted_survives / "
      "C03_fsynced_survives_power_loss - a call that flushed (resp. flushed and fsynced) cannot be undone by any later crash (resp. power loss); plus the trace invariants (every unlink after flush + sync_data + "
      "sync_dir with no write in between). Tied to the code by differential execution on process-crash and power-loss images under every policy and a persist-point oracle.",
      "Premises: global invariant, well-formed calls, everything below 2^64 files, no_zero_collision (the property's CRC-collision proviso; satisfiable). Power-loss model: metadata taken as immediately durable.",
      "Coq proof (trace shape with buffering, image shape, power-loss image = earlier crash image, open on torn streams, induction over persist points) + checked model/code correspondence + persist-point oracle")
