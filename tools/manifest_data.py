claim("C05",
      "Coq theorems (PropC05.v): refinement of every API call and of every history to the ten-line queue-map specification Spec.v "
      "(outcomes and abstract state, invariant established by open and preserved by every call), range for all nine bound shapes, "
      "last_position/last_record, the three ring-buffer branches for every split; tied to the code by differential execution with range queries "
      "after the calls, plus an independent Python reference map as direct oracle.",
      "Calls that fail with an I/O error are outside the refinement statement (the model leaves queues possibly changed, as the code does).",
      "Coq proof (refinement to an abstract spec, invariant by induction) + checked model/code correspondence")
claim("C13",
      "Coq theorems (PropC13.v): every rejected/no-op call returns the identical model state (files, buffer, trace, cursor, queues), reports 0 bytes, "
      "the seven shapes are complete, and the call is erasable from any history; tied to the code by differential execution on generated histories "
      "with every no-op shape inserted, plus a direct no-I/O/no-state-change oracle.",
      "", "Coq proof (state identity by case analysis) + checked model/code correspondence")
claim("C15",
      "Coq theorems (PropC15.v): the count returned by write_record over ANY block writer equals the bytes pushed; for every API call the reported "
      "wal_bytes_written is exactly the growth of the bytes accepted by the WAL writer (GC position entries and padding included), is 0 iff nothing was "
      "appended, equals the bytes of the call's write events under a flush-per-operation policy, and the running sum tracks the cursor over any history; "
      "tied to the code by differential execution and an oracle summing the real write events.",
      "", "Coq proof (generic counting lemma + case analysis of the API) + checked model/code correspondence")
claim("C16",
      "Coq theorems (PropC16.v): memory_used = name bytes + retained payload bytes + K per retained record in every state satisfying the representation "
      "invariant (established by open, preserved by every call); bounds; a truncation lowers it by exactly the evicted payload + K each; names-only "
      "baseline when all queues are empty; the payload buffer is exactly the concatenation of retained payloads. used <= allocated is checked at run time only.",
      "memory_used <= memory_allocated is a statement about std allocator capacities: checked after every call by the oracle, not proved (stated_not_proved).",
      "Coq proof (invariant + closed formula) + checked model/code correspondence")
claim("C17",
      "Coq theorems (PropC17.v): filename/parse round trip and exactness over all byte strings (only wal-+20 digits of a u64 parse; rejected names are "
      "never names the library forms); tied to the code by differential execution on directories seeded with near-miss names, sub-directories, symlinks "
      "(also right in the way of the next roll-over) and gapped WAL numbers, plus a direct oracle on the I/O trace and listing.",
      "Symlink/file_type semantics are OS behaviour modelled as an entry kind.",
      "Coq proof (codec round trip) + checked model/code correspondence")
