#!/bin/bash
# confirm_seed.sh <PROP> <dir-with patch.diff + demo_<PROP>.rs> : confirms a seeded change in a scratch
# worktree of /repo: (1) existing suite passes with the patch, (2) demo fails with the patch,
# (3) demo passes without it. Prints a JSON summary; removes the worktree and its build output.
set -u
P=$1; SRC=$2
WT=/tmp/confirm-$P-$$
git -C /repo worktree add -f $WT HEAD >/dev/null 2>&1 || { echo "worktree failed"; exit 2; }
export CARGO_TARGET_DIR=$WT/target CARGO_NET_OFFLINE=true
cd $WT
cp $SRC/demo_$P.rs src/demo_$P.rs
echo "#[cfg(test)] #[allow(non_snake_case)] mod demo_$P;" >> src/lib.rs
# without the patch: the demo must pass
cargo test --offline demo_ -- --test-threads 8 > $WT/demo_orig.log 2>&1; D0=$?
git apply $SRC/patch.diff || { echo "patch does not apply"; cd /; git -C /repo worktree remove --force $WT; exit 2; }
cargo test --offline demo_ -- --test-threads 8 > $WT/demo_mut.log 2>&1; D1=$?
cargo test --workspace --no-fail-fast --offline -- --skip demo_ > $WT/suite.log 2>&1; S=$?
PASSED=$(grep -h "^test result" $WT/suite.log | awk '{s+=$4} END{print s+0}')
FAILED=$(grep -h "^test result" $WT/suite.log | awk '{s+=$6} END{print s+0}')
echo "{\"property\":\"$P\",\"demo_without_patch_exit\":$D0,\"demo_with_patch_exit\":$D1,\"suite_with_patch_exit\":$S,\"suite_passed\":$PASSED,\"suite_failed\":$FAILED}"
grep -h "^test result" $WT/demo_orig.log | head -1 | sed 's/^/demo_orig: /'
grep -h "^test result" $WT/demo_mut.log | head -1 | sed 's/^/demo_mut: /'
cd /; git -C /repo worktree remove --force $WT
