"""Kernel cross-check of the extraction: the same command lists are evaluated by the extracted
OCaml model (mrl-model ... digest) and inside Coq by vm_compute (run_cmds); the digests must be
equal. Small parameters (64-byte blocks, 2 blocks per file) so that roll-over, GC, crash images
and restarts all occur within a few commands."""
import os, random, re, subprocess, tempfile, shutil
import mrl

BS_K, NB_K = 64, 2


def coq_bytes(b):
    return "(B [" + "; ".join(str(x) for x in b) + "])"


def gen_case(rng):
    names = [b"q", b"ab", b"z9"]
    cmds_txt, cmds_coq = [], []
    pol = rng.choice([("af", "PAlways false"), ("as", "PAlways true"), ("no", "PNothing")])

    def op_open():
        cmds_txt.append("open %s" % pol[0]); cmds_coq.append("COpen (%s) false []" % pol[1])
    op_open()
    nxt = {}
    for _ in range(rng.randrange(6, 16)):
        x = rng.random()
        n = rng.choice(names)
        tok = "x" + n.hex()
        if x < 0.15:
            cmds_txt.append("create %s" % tok); cmds_coq.append("COp (OCreate %s)" % coq_bytes(n))
        elif x < 0.6:
            k = rng.choice([1, 1, 2, 3])
            pls = [bytes(rng.randrange(0, 256) for _ in range(rng.choice([0, 1, 5, 30, 60, 130]))) for _ in range(k)]
            pos = rng.choice(["-", "-", "-", str(rng.randrange(0, 12))])
            cmds_txt.append("append %s %s %s" % (tok, pos, " ".join("x" + (p.hex() or "-") for p in pls)))
            cmds_coq.append("COp (OAppend %s %s [%s])" % (coq_bytes(n), "None" if pos == "-" else "(Some %s)" % pos, "; ".join(coq_bytes(p) for p in pls)))
        elif x < 0.8:
            p = rng.randrange(0, 8)
            cmds_txt.append("truncate %s %d" % (tok, p)); cmds_coq.append("COp (OTruncate %s %d [])" % (coq_bytes(n), p))
        elif x < 0.86:
            cmds_txt.append("delete %s" % tok); cmds_coq.append("COp (ODelete %s [])" % coq_bytes(n))
        elif x < 0.9:
            f = rng.choice([("f", "false"), ("s", "true")])
            cmds_txt.append("persist %s" % f[0]); cmds_coq.append("COp (OPersist %s)" % f[1])
        elif x < 0.96:
            cmds_txt.append("drop"); cmds_coq.append("CDrop"); op_open()
        else:
            cut, k = rng.randrange(0, 40), rng.choice([0, 0, 3, 9])
            cmds_txt.append("crash %d %d" % (cut, k)); cmds_coq.append("CCrash %d %d" % (cut, k)); op_open()
    cmds_txt.append("digest")
    return cmds_txt, cmds_coq


def run(seed, ncases=6):
    """-> (ok, detail)"""
    rng = random.Random("xcheck-%d" % seed)
    cases = [gen_case(rng) for _ in range(ncases)]
    script = ""
    for i, (txt, _) in enumerate(cases):
        script += "case k%d\n" % i + "\n".join(txt) + "\n"
    p = subprocess.run([mrl.MODEL, "--bs", str(BS_K), "--nb", str(NB_K), "--rms", "24"], input=script, capture_output=True, text=True)
    if p.returncode != 0:
        return False, "mrl-model failed on the cross-check script: %s" % p.stderr[-300:]
    ocaml = [l[3:].strip() for l in p.stdout.splitlines() if l.startswith("dg ")]
    v = "From MRL Require Import Bytes Crc Params Names Frame Record Mem Rolling Log Driver.\n"
    v += "Open Scope N_scope.\nDefinition B (l : list N) : bytes := map n2b l.\n"
    v += "Definition PK := mkParams %d %d crc32 24 false false false.\n" % (BS_K, NB_K)
    for i, (_, coq) in enumerate(cases):
        v += "Definition case%d : list cmd := [%s].\n" % (i, ";\n  ".join(coq))
        v += "Eval vm_compute in run_cmds PK case%d.\n" % i
    tmp = tempfile.mkdtemp(prefix="xc", dir=mrl.CACHE)
    try:
        open(os.path.join(tmp, "cases.v"), "w").write(v)
        q = subprocess.run(["coqc", "-noglob", "-Q", os.path.join(mrl.ROOT, "coq"), "MRL", os.path.join(tmp, "cases.v")],
                           capture_output=True, text=True, timeout=900)
    finally:
        shutil.rmtree(tmp, ignore_errors=True)
    if q.returncode != 0:
        return False, "coqc on the cross-check cases failed: %s" % (q.stdout + q.stderr)[-400:]
    blocks = re.findall(r"=\s*\[(.*?)\]\s*:\s*list N", q.stdout, re.S)
    kernel = [" ".join(x.strip().replace("%N", "") for x in b.replace("\n", " ").split(";")) for b in blocks]
    if len(kernel) != len(ocaml):
        return False, "cross-check: %d kernel results, %d extracted results" % (len(kernel), len(ocaml))
    for i, (a, b) in enumerate(zip(kernel, ocaml)):
        if a != b:
            return False, "extraction disagrees with vm_compute on cross-check case %d (%s): kernel %s..., extracted %s..." % (i, "; ".join(cases[i][0][:6]), a[:80], b[:80])
    return True, "%d cases, %d commands" % (len(cases), sum(len(c[0]) for c in cases))


if __name__ == "__main__":
    import sys, time
    t = time.time()
    print(run(int(sys.argv[1]) if len(sys.argv) > 1 else 0), "%.1fs" % (time.time() - t))
