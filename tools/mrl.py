"""Shared machinery of the /verif checks: builds, drivers, transcripts, reference map,
generators, shrinking, evidence."""
import fcntl, hashlib, json, os, random, re, shutil, subprocess, sys, tempfile, time
from concurrent.futures import ThreadPoolExecutor

ROOT = os.path.dirname(os.path.dirname(os.path.abspath(__file__)))
REPO = os.environ.get("MRL_REPO", "/repo")
CACHE = os.path.join(ROOT, ".cache")
# MRL_REPO: run against another checkout of the crate (mutation sweeps in scratch worktrees); the
# registered checks always use /repo itself
_ALT = REPO != "/repo"
_TAG = hashlib.sha256(REPO.encode()).hexdigest()[:10] if _ALT else ""
TARGET = os.path.join(CACHE, "target" + ("-" + _TAG if _ALT else ""))
DRIVE = os.path.join(TARGET, "debug", "mrl-drive")
HARNESS = os.path.join(ROOT, "harness") if not _ALT else os.path.join(CACHE, "harness-" + _TAG)
MODEL = os.path.join(ROOT, "model", "mrl-model")
B = 32768
HDR = 7
NBV = 4
FILE = B * NBV
JOBS = int(os.environ.get("VERIF_JOBS", "16"))

os.makedirs(CACHE, exist_ok=True)


class BuildError(Exception):
    pass


def sh(cmd, cwd=None, env=None, timeout=3600, inp=None):
    e = dict(os.environ)
    if env:
        e.update(env)
    p = subprocess.run(cmd, cwd=cwd, env=e, input=inp, capture_output=True, text=True, encoding="utf-8", errors="replace",
                       timeout=timeout, shell=isinstance(cmd, str))
    return p.returncode, p.stdout, p.stderr


class Lock:
    def __init__(self, name):
        self.path = os.path.join(CACHE, name + ".lock")

    def __enter__(self):
        self.f = open(self.path, "w")
        fcntl.flock(self.f, fcntl.LOCK_EX)
        return self

    def __exit__(self, *a):
        fcntl.flock(self.f, fcntl.LOCK_UN)
        self.f.close()


# --------------------------------------------------------------------------- builds
def gen_consts():
    rc, out, err = sh([sys.executable, os.path.join(ROOT, "tools", "gen_consts.py"),
                       os.path.join(ROOT, "coq", "Consts.v") if not _ALT else os.path.join(CACHE, "Consts-%s.v" % _TAG),
                       os.path.join(CACHE, "consts%s.json" % _TAG)])
    if rc != 0:
        return None, (out + err).strip()
    return json.load(open(os.path.join(CACHE, "consts%s.json" % _TAG))), ""


def build_coq():
    """Full .vo build of the Coq development (make, never -vos) + extraction + OCaml driver.
    Returns (ok, log)."""
    with Lock("coq"):
        rc, out, err = sh(["bash", os.path.join(ROOT, "build_model.sh")], timeout=6000)
        log = out + err
        ok = rc == 0 and os.path.exists(MODEL) and "Error" not in log
        return ok, log


def build_harness():
    with Lock("cargo" + _TAG):
        if _ALT:
            os.makedirs(os.path.join(HARNESS, "src"), exist_ok=True)
            shutil.copy(os.path.join(ROOT, "harness", "src", "main.rs"), os.path.join(HARNESS, "src", "main.rs"))
            toml = open(os.path.join(ROOT, "harness", "Cargo.toml")).read().replace('path = "/repo"', 'path = "%s"' % REPO)
            open(os.path.join(HARNESS, "Cargo.toml"), "w").write(toml)
        lock_src = os.path.join(REPO, "Cargo.lock")
        lock_dst = os.path.join(HARNESS, "Cargo.lock")
        if os.path.exists(lock_src) and not os.path.exists(lock_dst):
            shutil.copy(lock_src, lock_dst)
        env = {"RUSTFLAGS": "--cfg mrecordlog_verif", "CARGO_TARGET_DIR": TARGET,
               "CARGO_NET_OFFLINE": "true"}
        rc, out, err = sh(["cargo", "build", "--offline", "--quiet"],
                          cwd=HARNESS, env=env, timeout=1800)
        if rc != 0:
            raise BuildError("cargo build of the hooked crate failed:\n" + err[-3000:])


# --------------------------------------------------------------------------- drivers
def script_text(cases):
    """cases: list of (case_id, [command lines])"""
    out = []
    for cid, cmds in cases:
        out.append("case %s" % cid)
        out.extend(cmds)
    return "\n".join(out) + "\n"


def parse_transcript(text):
    """-> {case_id: [ {idx, name, lines:[...]} ]}"""
    cases = {}
    cur = None
    for line in text.splitlines():
        if line.startswith("case "):
            cur = []
            cases[line[5:]] = cur
        elif line.startswith("# "):
            _, idx, name = line.split(" ", 2)
            cur.append({"idx": int(idx), "name": name, "lines": []})
        elif cur is not None and cur:
            cur[-1]["lines"].append(line)
    return cases


def run_real_batch(cases, deadline_ms=20000):
    """Runs the real crate on the cases; a Hang ends the process, so the rest is re-run."""
    result = {}
    todo = list(cases)
    while todo:
        scratch = tempfile.mkdtemp(prefix="mrl", dir=CACHE)
        try:
            rc, out, err = sh([DRIVE, scratch], inp=script_text(todo),
                              env={"MRL_DEADLINE_MS": str(deadline_ms)}, timeout=1800)
        finally:
            shutil.rmtree(scratch, ignore_errors=True)
        parsed = parse_transcript(out)
        result.update(parsed)
        done = [cid for cid, _ in todo if cid in parsed]
        if rc != 0 and not done:
            raise BuildError("mrl-drive failed: rc=%s %s" % (rc, err[-2000:]))
        if len(done) == len(todo) and rc == 0:
            # the last case may have hung (exit 0 after Hang) — that is still complete
            break
        # the process stopped inside case done[-1]; continue after it
        last = done[-1]
        i = [cid for cid, _ in todo].index(last)
        todo = todo[i + 1:]
        if rc != 0:
            result[last].append({"idx": -1, "name": "driver-error", "lines": ["out driver err=%s" % err.strip()[-300:].replace("\n", " | ")]})
    return result


def run_model_batch(cases, consts=None, extra_args=()):
    args = ["bash", "-c", 'ulimit -s unlimited 2>/dev/null; exec "$0" "$@"', MODEL]
    if consts:
        args += ["--bs", str(consts["BLOCK_NUM_BYTES"]), "--nb", str(consts["NUM_BLOCKS_PER_FILE_VERIF"]),
                 "--rms", str(consts["RecordMeta_size"])]
    args += list(extra_args)
    rc, out, err = sh(args, inp=script_text(cases), timeout=3000)
    if rc != 0:
        raise BuildError("mrl-model failed: rc=%s %s" % (rc, err[-2000:]))
    return parse_transcript(out)


def chunks(lst, n):
    k = max(1, (len(lst) + n - 1) // n)
    return [lst[i:i + k] for i in range(0, len(lst), k)]


def par_map(fn, batches):
    with ThreadPoolExecutor(max_workers=JOBS) as ex:
        return list(ex.map(fn, batches))


def run_real(cases, deadline_ms=20000):
    res = {}
    for r in par_map(lambda b: run_real_batch(b, deadline_ms), chunks(cases, JOBS * 2)):
        res.update(r)
    return res


def annotate_gc(cases, real):
    """adds the gc= hint (HashMap order seen in the real run) to open/truncate/delete lines"""
    out = []
    for cid, cmds in cases:
        tr = real.get(cid, [])
        by_idx = {c["idx"]: c for c in tr}
        new = []
        for i, cmd in enumerate(cmds):
            c = by_idx.get(i)
            if c and c["name"] in ("open", "truncate", "delete"):
                names = [l[4:] for l in c["lines"] if l.startswith("gcq ")]
                if names:
                    cmd = cmd + " gc=" + ",".join(names)
            new.append(cmd)
        out.append((cid, new))
    return out


def run_model(cases, consts=None, extra_args=()):
    res = {}
    for r in par_map(lambda b: run_model_batch(b, consts, extra_args), chunks(cases, JOBS * 2)):
        res.update(r)
    return res


def project(lines, prefixes):
    return [l for l in lines if l.split(" ", 1)[0] in prefixes]


ALL_PREFIXES = ("out", "ev", "q", "r", "lr", "rr", "use", "ls", "mw", "mb", "mr")


def diff_case(real_cmds, model_cmds, prefixes):
    """first disagreement between two transcripts of one case under a projection, or None"""
    n = max(len(real_cmds), len(model_cmds))
    for i in range(n):
        if i >= len(real_cmds) or i >= len(model_cmds):
            return {"cmd": i, "why": "transcript length", "real": len(real_cmds), "model": len(model_cmds)}
        a = project(real_cmds[i]["lines"], prefixes)
        b = project(model_cmds[i]["lines"], prefixes)
        if a != b:
            for j in range(max(len(a), len(b))):
                la = a[j] if j < len(a) else None
                lb = b[j] if j < len(b) else None
                if la != lb:
                    return {"cmd": i, "name": real_cmds[i]["name"], "real": la, "model": lb}
    return None


# --------------------------------------------------------------------------- script values
def gen_payload(length, seed):
    return bytes(((seed * 131 + i * 7 + (i // 256) * 13) % 251) for i in range(length))


def gen_name(length, seed):
    return bytes(97 + ((seed + i * 7 + i // 26) % 26) for i in range(length))


def name_bytes(tok):
    if tok[0] == "=":
        return tok[1:].encode()
    if tok[0] == "@":
        l, s = tok[1:].split(":")
        return gen_name(int(l), int(s))
    if tok[0] == "x":
        return bytes.fromhex(tok[1:])
    raise ValueError(tok)


def payload_len(tok):
    if tok[0] == "x":
        return len(tok[1:]) // 2
    return int(tok.split(":")[0])


def payload_bytes(tok):
    if tok[0] == "x":
        return bytes.fromhex(tok[1:]) if tok != "x-" else b""
    l, s = tok.split(":")
    return gen_payload(int(l), int(s))


def fnv32(data):
    h = 0x811c9dc5
    for b in data:
        h = ((h ^ b) * 16777619) & 0xFFFFFFFF
    return h


def show_name(nb):
    if len(nb) <= 32:
        return "x" + nb.hex()
    return "L%d:%08x" % (len(nb), fnv32(nb))


# --------------------------------------------------------------------------- reference map
class RefQueue:
    def __init__(self, nxt=0):
        self.recs = []  # (pos, token)
        self.next = nxt


class RefMap:
    """The sequential queue-map specification (independent of the Coq model): used by the
    generators to aim calls and by the C05 oracle."""

    def __init__(self):
        self.q = {}

    def create(self, name):
        if name in self.q:
            return ("err", "AlreadyExists")
        self.q[name] = RefQueue()
        return ("ok",)

    def delete(self, name):
        if name not in self.q:
            return ("err", "MissingQueue")
        del self.q[name]
        return ("ok",)

    def append(self, name, pos, payloads):
        if name not in self.q:
            return ("err", "MissingQueue")
        q = self.q[name]
        if pos is not None:
            if pos + 1 == q.next:
                return ("ok", None)
            if pos < q.next:
                return ("err", "Past")
        if not payloads:
            return ("ok", None)
        base = pos if pos is not None else q.next
        for i, p in enumerate(payloads):
            q.recs.append((base + i, p))
        q.next = base + len(payloads)
        return ("ok", q.next - 1)

    def truncate(self, name, p):
        if name not in self.q:
            return ("err", "MissingQueue")
        q = self.q[name]
        before = len(q.recs)
        q.recs = [r for r in q.recs if r[0] > p]
        if not q.recs and p + 1 >= q.next:
            q.next = p + 1
        return ("ok", before - len(q.recs))

    def copy(self):
        m = RefMap()
        for k, v in self.q.items():
            nq = RefQueue(v.next)
            nq.recs = list(v.recs)
            m.q[k] = nq
        return m


# --------------------------------------------------------------------------- cursor tracking
def entry_len(kind, qlen, payload_lens=()):
    n = 11 + qlen
    if kind == "append":
        n += sum(12 + l for l in payload_lens)
    return n


def advance(cursor, elen):
    """cursor after write_record of an entry of elen bytes starting at stream offset cursor"""
    remaining = elen
    first = True
    while True:
        rem = B - cursor % B
        if rem < HDR:
            cursor += rem
            rem = B
        room = rem - HDR
        n = min(room, remaining)
        cursor += HDR + n
        remaining -= n
        first = False
        if remaining == 0:
            return cursor


def aimed_payload_len(cursor, qlen, r, extra_blocks):
    """payload length of a one-record append that leaves exactly r bytes in the block where
    it ends (extra_blocks full blocks in between); None if impossible from here"""
    rem = B - cursor % B
    over = 11 + qlen + 12
    if rem < HDR:
        rem = B
    if extra_blocks == 0:
        l = rem - r - HDR - over
        return l if l >= 0 else None
    first = rem - HDR
    mid = (extra_blocks - 1) * (B - HDR)
    lastp = B - r - HDR
    if lastp < 0:
        return None
    l = first + mid + lastp - over
    return l if l >= 0 else None


# --------------------------------------------------------------------------- history generator
NAME_POOL = ["=q", "=alpha", "=b", "@255:3", "=été", "=zz", "=q2", "@40:9"]
POLICIES = ["af", "as", "no", "d0f", "dif", "dis", "d0s"]


class HistGen:
    """Generates one history (list of command lines) while tracking the reference map and an
    estimate of the write cursor. profile tweaks the op weights."""

    def __init__(self, rng, policy="af", nqueues=None, profile="mixed", max_payload=70000):
        self.rng = rng
        self.policy = policy
        self.ref = RefMap()
        self.cursor = 0
        self.cmds = []
        self.profile = profile
        self.max_payload = max_payload
        k = nqueues or rng.choice([1, 2, 2, 3, 4])
        pool = list(NAME_POOL)
        rng.shuffle(pool)
        self.names = pool[:k]
        self.seed_ctr = rng.randrange(1, 200)
        self.stats = {"create": 0, "delete": 0, "append": 0, "truncate": 0, "persist": 0,
                      "restart": 0, "rejected": 0, "aimed": 0, "rollovers": 0}
        self.cmds.append("open %s" % policy)

    def qlen(self, tok):
        return len(name_bytes(tok))

    def note_write(self, kind, tok, plens=()):
        before = self.cursor // FILE
        self.cursor = advance(self.cursor, entry_len(kind, self.qlen(tok), plens))
        if self.cursor // FILE != before:
            self.stats["rollovers"] += 1

    def next_seed(self):
        self.seed_ctr += 1
        return self.seed_ctr

    def pick_payload_len(self, tok):
        rng = self.rng
        x = rng.random()
        if x < 0.15:
            return rng.choice([0, 1, 2])
        if x < 0.45:
            return rng.randrange(0, 300)
        if x < 0.80:
            r = rng.choice([0, 1, 2, 3, 4, 5, 6, 7, 8, 11, 12, 18, 19])
            eb = rng.choice([0, 0, 0, 1, 1, 2, 4])
            l = aimed_payload_len(self.cursor, self.qlen(tok), r, eb)
            if l is not None and l <= self.max_payload * 2:
                self.stats["aimed"] += 1
                return l
            return rng.randrange(0, 2000)
        if x < 0.93:
            return rng.randrange(1000, self.max_payload)
        # to the end of the file exactly / just over
        to_end = FILE - self.cursor % FILE
        l = to_end - HDR - 11 - self.qlen(tok) - 12 - HDR * (to_end // B) + rng.choice([-1, 0, 0, 1, 20])
        return max(0, min(l, self.max_payload * 3))

    def op_create(self):
        missing = [n for n in self.names if n not in self.ref.q]
        tok = self.rng.choice(missing) if missing and self.rng.random() < 0.8 else self.rng.choice(self.names)
        res = self.ref.create(tok)
        self.cmds.append("create %s" % tok)
        if res[0] == "ok":
            self.note_write("pos", tok)
            self.stats["create"] += 1
        else:
            self.stats["rejected"] += 1

    def op_delete(self):
        existing = [n for n in self.names if n in self.ref.q]
        tok = self.rng.choice(existing) if existing and self.rng.random() < 0.85 else self.rng.choice(self.names)
        res = self.ref.delete(tok)
        self.cmds.append("delete %s" % tok)
        if res[0] == "ok":
            self.note_write("pos", tok)
            self.stats["delete"] += 1
        else:
            self.stats["rejected"] += 1

    def op_append(self):
        rng = self.rng
        existing = [n for n in self.names if n in self.ref.q]
        if existing and rng.random() < 0.95:
            tok = rng.choice(existing)
        else:
            tok = rng.choice(self.names)
        q = self.ref.q.get(tok)
        nrec = rng.choice([1, 1, 1, 1, 1, 1, 1, 2, 2, 3, 3, 5, 6, 1, 1, 0])
        nxt = q.next if q else 0
        x = rng.random()
        if x < 0.60:
            pos = None
        elif x < 0.75:
            pos = nxt
        elif x < 0.83:
            pos = nxt - 1 if nxt > 0 else None
        elif x < 0.95:
            pos = nxt + rng.choice([1, 2, 10, 1000, 2 ** 40])
        else:
            pos = rng.randrange(0, nxt) if nxt > 0 else None
        payloads = []
        for _ in range(nrec):
            l = self.pick_payload_len(tok)
            if nrec > 1:
                l = min(l, 40000)
            payloads.append("%d:%d" % (l, self.next_seed()))
        res = self.ref.append(tok, pos, payloads)
        self.cmds.append("append %s %s %s" % (tok, "-" if pos is None else pos, " ".join(payloads)))
        if res[0] == "ok" and res[1] is not None:
            self.note_write("append", tok, [payload_len(p) for p in payloads])
            self.stats["append"] += 1
        else:
            self.stats["rejected"] += 1

    def op_truncate(self):
        rng = self.rng
        existing = [n for n in self.names if n in self.ref.q]
        tok = rng.choice(existing) if existing and rng.random() < 0.95 else rng.choice(self.names)
        q = self.ref.q.get(tok)
        if q and q.recs:
            first, last = q.recs[0][0], q.recs[-1][0]
            x = rng.random()
            if x < 0.15:
                p = max(0, first - 1)
            elif x < 0.55:
                p = rng.randrange(first, last + 1)
            elif x < 0.80:
                p = last
            else:
                p = last + rng.choice([1, 5, 1000])
        else:
            nxt = q.next if q else 0
            p = max(0, nxt - 1 + rng.choice([-3, 0, 0, 1, 7]))
        res = self.ref.truncate(tok, p)
        self.cmds.append("truncate %s %d" % (tok, p))
        if res[0] == "ok":
            self.note_write("pos", tok)
            self.stats["truncate"] += 1
        else:
            self.stats["rejected"] += 1

    def op_persist(self):
        self.cmds.append("persist %s" % self.rng.choice("fs"))
        self.stats["persist"] += 1

    def op_restart(self, policy=None):
        self.cmds.append("drop")
        self.cmds.append("open %s" % (policy or self.policy))
        self.stats["restart"] += 1

    def run(self, nops, weights=None):
        w = weights or {"create": 8, "delete": 4, "append": 48, "truncate": 26, "persist": 4, "restart": 6}
        if self.profile == "norestart":
            w = dict(w, restart=0)
        ops = list(w.keys())
        ws = [w[o] for o in ops]
        # make sure something exists early
        self.op_create()
        for _ in range(nops):
            o = self.rng.choices(ops, ws)[0]
            if not self.ref.q and self.rng.random() < 0.75:
                o = "create"
            getattr(self, "op_" + o)()
        return self.cmds


# --------------------------------------------------------------------------- observation helpers
def obs_of(cmd):
    """observable state printed after a command: {qname: {"next","start","file","recs":[(pos,len,hash)],"lr"}}"""
    qs = {}
    cur = None
    for l in cmd["lines"]:
        if l.startswith("q "):
            p = l.split()
            cur = {"next": int(p[3].split("=")[1]), "start": int(p[2].split("=")[1]),
                   "file": p[4].split("=")[1], "recs": [], "lr": None}
            qs[p[1]] = cur
        elif l.startswith("r ") and cur is not None:
            p = l.split()
            cur["recs"].append((int(p[1]), int(p[2]), p[3]))
        elif l.startswith("lr ") and cur is not None:
            cur["lr"] = l[3:]
    return qs


def logical(obs):
    """the part of obs the properties speak about: records and next position"""
    return {k: (v["recs"], v["next"]) for k, v in obs.items()}


def outcome_of(cmd):
    first = None
    for l in cmd["lines"]:
        if l.startswith("out "):
            # the watchdog appends `out <cmd> err=Hang` when the command (or the read accessors run after it) does
            # not return in time: that line wins over an earlier `out ... ok`
            if l.endswith("err=Hang"):
                return l
            if first is None:
                first = l
    return first


def events_of(cmd):
    return [l for l in cmd["lines"] if l.startswith("ev ")]


def ls_of(cmd):
    return [l for l in cmd["lines"] if l.startswith("ls ")]


def use_of(cmd):
    for l in cmd["lines"]:
        if l.startswith("use "):
            return dict(kv.split("=") for kv in l.split()[1:])
    return None


# --------------------------------------------------------------------------- evidence
def write_evidence(pid, tier, seed, level, coverage, assumptions, wall, violations):
    evdir = os.environ.get("VERIF_EVIDENCE_DIR") or os.path.join(ROOT, "evidence")
    os.makedirs(evdir, exist_ok=True)
    ev = {"property_id": pid, "tier": tier, "seed": seed, "level": level, "coverage": coverage,
          "assumptions": assumptions, "wall_s": round(wall, 2), "violations": violations}
    with open(os.path.join(evdir, pid + ".json"), "w") as f:
        json.dump(ev, f, indent=1)
