#!/bin/bash
# runs the harmless refactorings of seeded/harmless through six checks in scratch worktrees of /repo (MRL_REPO); /repo itself is not touched
cd /verif
export VERIF_EVIDENCE_DIR=/tmp/seed-evidence
for h in h11 h12 h07 h10 h01 h02 h13 h03 h04 h05 h08; do
  wt=/tmp/hw-$h
  git -C /repo worktree add --detach $wt HEAD >/dev/null 2>&1
  git -C $wt apply /verif/seeded/harmless/$h.diff || { echo "$h: does not apply"; continue; }
  for p in C01 C02 C05 C13 C14 C16; do
    out=$(MRL_REPO=$wt nice -n 3 ./check $p --tier quick 2>&1)
    v=$(echo "$out" | grep "^VIOLATION" | head -1)
    echo "$h $p ${v:-ok}"
  done
  git -C /repo worktree remove --force $wt; rm -rf $wt
  rm -rf /verif/.cache/harness-* /verif/.cache/target-* /verif/.cache/Consts-* 2>/dev/null
done
echo finished
