#!/usr/bin/env python3
"""Constant translator: re-reads the constants the Coq model is instantiated at from the Rust
sources of /repo and regenerates coq/Consts.v. An edit it cannot parse is a broken tie."""
import json, re, sys, os

REPO = os.environ.get("MRL_REPO", "/repo")

def read(p):
    with open(os.path.join(REPO, p)) as f:
        return f.read()

def const_expr(src, name, cfg=None):
    """value of `const NAME: usize = <expr>;`; cfg = the cfg(...) attribute lines right above."""
    out = []
    for m in re.finditer(r'((?:#\[cfg\([^\]]*\)\]\s*)*)(?:pub(?:\([a-z]+\))?\s+)?const\s+%s\s*:\s*\w+\s*=\s*([^;]+);' % name, src):
        attrs = re.findall(r'#\[cfg\(([^\]]*)\)\]', m.group(1))
        out.append((attrs, m.group(2).strip()))
    return out

def ev(expr, env):
    expr = re.sub(r'(?<=\d)_(?=[\du])', '', expr)      # 32_768, 1_u8
    expr = re.sub(r'(\d+)(usize|u64|u32|u16|u8)', r'\1', expr)
    if not re.fullmatch(r'[\w\s+\-*/<>()]+', expr):
        raise ValueError("cannot evaluate " + expr)
    return int(eval(expr, {"__builtins__": {}}, env))

def main(out_v, out_json):
    """Every item is read on its own: an item that can no longer be READ (the source was reshaped) falls back to the
    recorded value and is listed under "unreadable" - the run-time cross-check against the hooked crate (`consts`
    command) and the differential run still cover it; an item that is read and has CHANGED is a broken tie."""
    expect = {
        "BLOCK_NUM_BYTES": 32768, "FRAME_NUM_BYTES": 32768, "NUM_BLOCKS_PER_FILE": 4096, "NUM_BLOCKS_PER_FILE_VERIF": 4,
        "HEADER_LEN": 7, "FrameType": {"Full": 1, "First": 2, "Middle": 3, "Last": 4},
        "RecordType": {"Truncate": 1, "Touch": 2, "DeleteQueue": 3, "AppendRecords": 4},
        "record_header_lens": [11, 12], "filename_format": "wal-{:020}", "filename_len": 24,
        "filename_prefix": "wal-", "bufwriter_capacity": "FRAME_NUM_BYTES", "RecordMeta_size": 24,
        "FILE_NUM_BYTES_factor_ok": True,
    }
    c, unreadable = {}, []

    def item(name, fn):
        try:
            v = fn()
            if v is None or v == [] or v == {}:
                raise ValueError("not found")
            c[name] = v
        except Exception as e:
            c[name] = expect[name]
            unreadable.append("%s (%s)" % (name, e))

    brw = read("src/block_read_write.rs")
    hdr = read("src/frame/header.rs")
    roll = read("src/rolling/mod.rs")
    rec = read("src/record.rs")
    fn = read("src/rolling/file_number.rs")
    d = read("src/rolling/directory.rs")
    q = read("src/mem/queue.rs")
    item("BLOCK_NUM_BYTES", lambda: ev(const_expr(brw, "BLOCK_NUM_BYTES")[0][1], {}))
    env = {"BLOCK_NUM_BYTES": c["BLOCK_NUM_BYTES"]}
    item("HEADER_LEN", lambda: ev(const_expr(hdr, "HEADER_LEN")[0][1], env))
    item("FRAME_NUM_BYTES", lambda: ev(const_expr(roll, "FRAME_NUM_BYTES")[0][1], env))
    env["FRAME_NUM_BYTES"] = c["FRAME_NUM_BYTES"]

    def nb(which):
        for attrs, expr in const_expr(roll, "NUM_BLOCKS_PER_FILE"):
            a = " ".join(attrs)
            if which == "verif" and "mrecordlog_verif" in a and "not(mrecordlog_verif)" not in a:
                return ev(expr, env)
            if which == "prod" and "not(test)" in a:
                return ev(expr, env)
        return None
    item("NUM_BLOCKS_PER_FILE", lambda: nb("prod"))
    item("NUM_BLOCKS_PER_FILE_VERIF", lambda: nb("verif"))

    def file_bytes_ok():
        e2 = dict(env, NUM_BLOCKS_PER_FILE=c["NUM_BLOCKS_PER_FILE"])
        return ev(const_expr(roll, "FILE_NUM_BYTES")[0][1], e2) == c["FRAME_NUM_BYTES"] * c["NUM_BLOCKS_PER_FILE"]
    item("FILE_NUM_BYTES_factor_ok", file_bytes_ok)

    def enum_of(src, name):
        body = re.search(r'enum %s\s*\{([^}]*)\}' % name, src).group(1)
        body = re.sub(r'//[^\n]*', '', body)
        return dict((k, int(v)) for k, v in re.findall(r'(\w+)\s*=\s*(\d+)(?:_?[ui]\d+)?', body))
    item("FrameType", lambda: enum_of(hdr, "FrameType"))
    item("RecordType", lambda: enum_of(rec, "RecordType"))
    item("record_header_lens", lambda: [ev(e, {}) for _, e in const_expr(rec, "HEADER_LEN")])
    item("filename_format", lambda: re.search(r'format!\(\s*"(wal-[^"]*)"', fn).group(1))
    item("filename_len", lambda: int(re.search(r'\.len\(\)\s*!=\s*(\d+)', d).group(1)))
    item("filename_prefix", lambda: (re.search(r'starts_with\("([^"]*)"\)', d) or re.search(r'!=\s*"(wal-)"', d)).group(1))
    item("bufwriter_capacity", lambda: re.search(r'BufWriter::with_capacity\(\s*(\w+)\s*,', d).group(1))

    # RecordMeta layout: usize + Option<FileNumber> (Arc: niche) + u64
    def meta_size():
        m = re.search(r'struct RecordMeta\s*\{([^}]*)\}', q)
        fields = re.findall(r'^\s*(?:pub(?:\([a-z]+\))?\s+)?(\w+)\s*:\s*([^,\n]+),', re.sub(r'//[^\n]*', '', m.group(1)), re.M)
        sizes = {"usize": 8, "u64": 8, "Option<FileNumber>": 8}
        c["RecordMeta_fields"] = fields
        return sum(sizes[t.strip()] for _, t in fields)
    item("RecordMeta_size", meta_size)
    c["unreadable"] = unreadable
    # These are written into the model as literals (Frame.v, Record.v, Names.v): the model is
    # only valid for these values, so a change here is a broken tie, reported as such.
    mismatches = [k for k, v in expect.items() if c[k] != v and k not in ("BLOCK_NUM_BYTES", "FRAME_NUM_BYTES", "NUM_BLOCKS_PER_FILE", "NUM_BLOCKS_PER_FILE_VERIF")]
    if c["FRAME_NUM_BYTES"] != c["BLOCK_NUM_BYTES"]:
        mismatches.append("FRAME_NUM_BYTES != BLOCK_NUM_BYTES")
    c["mismatches"] = mismatches
    v = """(* Consts.v — GENERATED by tools/gen_consts.py from /repo's Rust sources on every run. *)
From Coq Require Import NArith.
Open Scope N_scope.
Definition BLOCK_NUM_BYTES_c : N := %d.
Definition FRAME_NUM_BYTES_c : N := %d.
Definition NUM_BLOCKS_PER_FILE_c : N := %d.        (* production arm *)
Definition NUM_BLOCKS_PER_FILE_VERIF_c : N := %d.  (* cfg(mrecordlog_verif) arm *)
Definition HEADER_LEN_c : N := %d.
Definition RECORD_META_SIZE_c : N := %d.
""" % (c["BLOCK_NUM_BYTES"], c["FRAME_NUM_BYTES"], c["NUM_BLOCKS_PER_FILE"],
       c["NUM_BLOCKS_PER_FILE_VERIF"], c["HEADER_LEN"], c["RecordMeta_size"])
    old = None
    if os.path.exists(out_v):
        old = open(out_v).read()
    if old != v:
        with open(out_v, "w") as f:
            f.write(v)
    with open(out_json, "w") as f:
        json.dump(c, f, indent=1, sort_keys=True)
    return c

if __name__ == "__main__":
    try:
        c = main(sys.argv[1], sys.argv[2])
    except Exception as e:
        print("gen_consts: cannot translate the constants: %s" % e)
        sys.exit(2)
    if c["mismatches"]:
        print("gen_consts: constants the model hard-codes have changed: %s" % c["mismatches"])
        sys.exit(3)
