#!/bin/bash
# collect_corpus.sh [seed-dir...] : for each seeded change, apply it to /repo, run the quick checks that are
# expected to catch it, and keep the (shrunk) failing case as corpus/<PROP>/seed-<id>.script, so that it runs
# first on every later run. /repo is restored afterwards.
cd /verif
export VERIF_EVIDENCE_DIR=/tmp/seed-evidence
dirs="$@"; [ -z "$dirs" ] && dirs=$(ls -d /verif/seeded/*/)
for d in $dirs; do
  d=${d%/}; id=$(basename $d)
  props=$(python3 -c "import json;print(' '.join(x.split()[0] for x in json.load(open('$d/meta.json'))['detected_by_quick_checks']))")
  git -C /repo diff --quiet || { echo "/repo dirty"; exit 2; }
  git -C /repo apply $d/patch.diff || { echo "$id: patch does not apply"; continue; }
  for p in $props; do
    out=$(./check $p --tier quick 2>&1)
    r=$(echo "$out" | grep "^VIOLATION" | grep -v no-failing-input | head -1 | sed 's/.*replay=\([^ ]*\).*/\1/')
    if [ -n "$r" ] && [ -f "$r" ]; then
      mkdir -p corpus/$p
      grep -v "^# also\|^# replay" $r > corpus/$p/seed-$id.script
      echo "$id $p -> corpus/$p/seed-$id.script ($(grep -vc '^#' corpus/$p/seed-$id.script) lines)"
    else
      echo "$id $p: no concrete replay ($(echo "$out" | grep '^VIOLATION' | head -1))"
    fi
  done
  git -C /repo checkout -- .
done
