#!/usr/bin/env python3
"""Regenerates /verif/MANIFEST.json from the table below (one place to keep it valid)."""
import json, os
ROOT = os.path.dirname(os.path.dirname(os.path.abspath(__file__)))

COMMON_NOTE = ("Trusted: Coq 8.16.1 kernel (no axioms: every theorem prints 'Closed under the global context'); the hand-written model is tied to "
               "the code by differential execution of the extracted model against the hooked crate on every run (checked, not proved); "
               "extraction with ExtrOcamlBasic only; std BufWriter/VecDeque/HashMap order/File and crc32fast are modelled, not verified.")

# pid -> (claimed text, extra note, technique)  -- only properties listed here are claimed
CLAIMS = {}
NOT_YET = {}

def claim(pid, text, note, technique):
    CLAIMS[pid] = (text, note, technique)

exec(open(os.path.join(ROOT, "tools", "manifest_data.py")).read())

def main():
    checks = []
    for pid in sorted(CLAIMS):
        text, note, technique = CLAIMS[pid]
        checks.append({
            "property_id": pid,
            "quick_cmd": "./check %s --tier quick" % pid,
            "thorough_cmd": "./check %s --tier thorough" % pid,
            "evidence_file": "/verif/evidence/%s.json" % pid,
            "replay_cmd_template": "./check %s --replay {path}" % pid,
            "engine": "coq-model",
            "level_claimed": {"category": "proof", "text": text, "design_ref": "DESIGN.md section 6 %s" % pid},
            "level_note": (note + " " if note else "") + COMMON_NOTE,
            "technique": technique,
        })
    allp = [json.loads(l)["id"] for l in open(os.path.join(ROOT, "properties.jsonl"))]
    na = [{"property_id": p, "reason": NOT_YET.get(p, "check under construction (model, harness and oracle exist; theorems not yet registered)")}
          for p in allp if p not in CLAIMS]
    man = {
        "version": 1,
        "setup_cmd": "bash /verif/setup.sh",
        "hooks": {
            "guard": "mrecordlog_verif",
            "enable": "RUSTFLAGS='--cfg mrecordlog_verif' cargo build --offline (done by ./check through /verif/harness, path dependency on /repo)",
            "baseline_off_cmd": "cd /repo && cargo test --workspace --no-fail-fast --offline",
            "source_commits": ["1277830", "b924c93", "d878d91", "a61479e"],
            "add_only": True,
        },
        "engines": [
            {"name": "coq-model", "path": "/verif/coq", "serves_properties": sorted(CLAIMS),
             "kind_free_text": "hand-written executable Gallina model of the whole crate + theorems (Coq 8.16.1); Prop<ID>.v holds the property statements, each closed by `exact <lemma>` with Print Assumptions beneath"},
            {"name": "correspondence", "path": "/verif/check", "serves_properties": sorted(CLAIMS),
             "kind_free_text": "differential execution: extracted OCaml model (model/mrl-model) vs the hooked crate (harness/mrl-drive) on generated scripts, plus model-free direct oracles that produce the replays"},
        ],
        "checks": checks,
        "not_applicable": na,
        "notes": "See DESIGN.md. Every check: regenerate Consts.v from /repo, full Coq build + source audit + Print Assumptions, rebuild the hooked crate, correspondence under the property's projection, direct oracle; VIOLATION with a replay script, or no-failing-input-found naming the broken obligation.",
    }
    with open(os.path.join(ROOT, "MANIFEST.json"), "w") as f:
        json.dump(man, f, indent=1)
    print("claimed:", sorted(CLAIMS), "not claimed:", [x["property_id"] for x in na])

main()
