#!/bin/bash
# seed_run.sh <seed-dir> <PROP> [<PROP>...] : applies the seeded patch to /repo, runs the quick checks of the
# given properties, restores /repo. Prints one line per property: caught / missed.
D=$1; shift
cd /verif
# evidence of runs against a seeded change must never replace the evidence of the unchanged tree
export VERIF_EVIDENCE_DIR=/tmp/seed-evidence
git -C /repo diff --quiet || { echo "/repo is dirty; refusing"; exit 2; }
git -C /repo apply $D/patch.diff || { echo "patch does not apply"; exit 2; }
for p in "$@"; do
  out=$(./check $p --tier quick 2>&1); rc=$?
  v=$(echo "$out" | grep "^VIOLATION" | head -1)
  if [ $rc -eq 1 ] && [ -n "$v" ]; then echo "$(basename $D) $p caught: $v"; r=$(echo "$v" | sed 's/.*replay=\([^ ]*\).*/\1/'); head -3 $r | sed 's/^/    /';
  else echo "$(basename $D) $p MISSED rc=$rc $(echo "$out" | tail -2 | tr '\n' ' ')"; fi
done
git -C /repo checkout -- .
git -C /repo status --short
