#!/usr/bin/env python3
"""panic_census.py [repo]  — census of the syntactic panic sites of the crate, per function.

PanicFree.v enumerates the panic sites reachable from MultiRecordLog::open and the read accessors by
reading the Rust source; this tool keeps that enumeration tied to the source: for every function of
the non-test code it counts the constructs that can panic in every profile

    unwrap  expect  assert (assert!/assert_eq!/assert_ne!)  panic (panic!/unreachable!/todo!/unimplemented!)
    index   (expr[..] : indexing and slicing)   split_at   copy_from_slice   drain

and the check compares the census with the one the table in PanicFree.v was written against
(/verif/panic_sites.json).  A file whose total has GROWN has a new panic site: a broken obligation of C10.
Differences that keep or lower a file's total (unwrap -> expect, two slices -> one split_at, code moved between
functions) are recorded in the evidence as a note only: harmless rewrites do that all the time, and a rewrite that
moves a guard the wrong way is the business of the differential run under catch_unwind.  Overflow-only sites (arithmetic) are
not counted: they are covered by the debug-profile runs of the correspondence check.

Not counted: #[cfg(test)] items, src/verif_hooks.rs (the instrumentation itself), and the six
functions of multi_record_log.rs that neither open nor a read accessor reaches (EXCLUDED)."""
import os, re, sys, json

EXCLUDED = {("multi_record_log.rs", f) for f in
            ("create_queue", "delete_queue", "append_record", "append_records", "truncate", "persist_on_policy")}
KINDS = ["unwrap", "expect", "assert", "panic", "index", "split_at", "copy_from_slice", "drain"]


def strip(src):
    """removes comments, string/char literals (keeps length-free placeholders)"""
    out, i, n = [], 0, len(src)
    while i < n:
        c = src[i]
        if src.startswith("//", i):
            j = src.find("\n", i)
            i = n if j < 0 else j
        elif src.startswith("/*", i):
            depth, i = 1, i + 2
            while i < n and depth:
                if src.startswith("/*", i):
                    depth += 1; i += 2
                elif src.startswith("*/", i):
                    depth -= 1; i += 2
                else:
                    i += 1
        elif c == '"' or (c == 'b' and src.startswith('b"', i)) or (c == 'r' and re.match(r'r#*"', src[i:])):
            if c == 'r':
                m = re.match(r'r(#*)"', src[i:])
                end = '"' + m.group(1)
                j = src.find(end, i + len(m.group(0)))
                i = n if j < 0 else j + len(end)
            else:
                i += 2 if c == 'b' else 1
                while i < n and src[i] != '"':
                    i += 2 if src[i] == "\\" else 1
                i += 1
            out.append('""')
        elif c == "'":
            m = re.match(r"'(\\.[^']*|[^'\\])'", src[i:])
            if m:
                out.append("' '"); i += len(m.group(0))
            else:
                out.append(c); i += 1     # lifetime
        else:
            out.append(c); i += 1
    return "".join(out)


def census_file(path):
    src = strip(open(path).read())
    res = {}
    # tokens
    toks = list(re.finditer(r"#\s*\[[^\]]*\]|[A-Za-z_][A-Za-z0-9_]*!?|[{}()\[\];]|\.|[^\s]", src))
    depth = 0
    fn_stack = []        # (name, depth at which its body opened)
    skip_until = None    # depth to return to when skipping a cfg(test) item
    pending_fn = None
    pending_test = False
    prev = None
    i = 0
    while i < len(toks):
        t = toks[i].group(0)
        if t.startswith("#"):
            if re.search(r"cfg\s*\(\s*test\s*\)", t):
                pending_test = True
            prev = t; i += 1; continue
        if t == "{":
            depth += 1
            if pending_test and skip_until is None:
                skip_until = depth - 1
                pending_test = False
            if pending_fn is not None:
                fn_stack.append((pending_fn, depth)); pending_fn = None
        elif t == "}":
            if fn_stack and fn_stack[-1][1] == depth:
                fn_stack.pop()
            depth -= 1
            if skip_until is not None and depth == skip_until:
                skip_until = None
        elif t == ";":
            if pending_test and skip_until is None and depth >= 0:
                pending_test = False      # `#[cfg(test)] mod x;` or a use line
            pending_fn = None if pending_fn is not None and not fn_stack else pending_fn
        elif t == "fn" and i + 1 < len(toks):
            pending_fn = toks[i + 1].group(0)
        if skip_until is None and fn_stack:
            name = fn_stack[0][0]          # outermost function (closures and nested fns count for it)
            kind = None
            nxt = toks[i + 1].group(0) if i + 1 < len(toks) else ""
            if prev == "." and t in ("unwrap", "expect", "split_at", "split_at_mut", "copy_from_slice", "drain") and nxt == "(":
                kind = {"split_at_mut": "split_at"}.get(t, t)
            elif t in ("assert!", "assert_eq!", "assert_ne!"):
                kind = "assert"
            elif t in ("panic!", "unreachable!", "todo!", "unimplemented!"):
                kind = "panic"
            elif t == "[" and prev is not None and (re.match(r"[A-Za-z_][A-Za-z0-9_]*$", prev) or prev in (")", "]")) \
                    and prev not in ("let", "in", "return", "mut", "ref", "as", "const", "static", "dyn", "impl", "where", "else", "match", "if", "for", "while", "loop", "move", "break", "type"):
                kind = "index"
            if kind:
                res.setdefault(name, {}).setdefault(kind, 0)
                res[name][kind] += 1
        prev = t
        i += 1
    return res


def test_only_files(src):
    """files declared as `#[cfg(test)] mod name;`"""
    skip = set()
    for root, _, files in os.walk(src):
        for fn in files:
            if fn in ("lib.rs", "mod.rs"):
                for m in re.finditer(r"#\[cfg\(test\)\]\s*(?:pub\s+)?mod\s+(\w+)\s*;", open(os.path.join(root, fn)).read()):
                    skip.add(os.path.join(root, m.group(1) + ".rs"))
                    skip.add(os.path.join(root, m.group(1), "mod.rs"))
    return skip


def census(repo):
    out = {}
    src = os.path.join(repo, "src")
    skip = test_only_files(src)
    for root, _, files in sorted(os.walk(src)):
        for fn in sorted(files):
            if not fn.endswith(".rs") or fn == "verif_hooks.rs" or os.path.join(root, fn) in skip:
                continue
            rel = os.path.relpath(os.path.join(root, fn), src)
            for f, kinds in census_file(os.path.join(root, fn)).items():
                if (rel, f) in EXCLUDED:
                    continue
                out["%s::%s" % (rel, f)] = dict(sorted(kinds.items()))
    return dict(sorted(out.items()))


def compare(base, cur):
    diffs = []
    for k in sorted(set(base) | set(cur)):
        if base.get(k, {}) != cur.get(k, {}):
            diffs.append("%s: enumerated %s, source now has %s" % (k, base.get(k, {}), cur.get(k, {})))
    return diffs


def new_sites(base, cur):
    """files whose total number of syntactic panic sites has GROWN: a site was added (rewrites that keep or lower
    the count - unwrap -> expect, two slices -> one split_at, code moved between functions of a file - are not
    reported; they show up in `compare` as a note only)"""
    def totals(c):
        t = {}
        for k, v in c.items():
            f = k.split("::")[0]
            t[f] = t.get(f, 0) + sum(v.values())
        return t
    tb, tc = totals(base), totals(cur)
    return ["%s: %d panic sites enumerated, source now has %d" % (f, tb.get(f, 0), tc[f]) for f in sorted(tc) if tc[f] > tb.get(f, 0)]


if __name__ == "__main__":
    repo = sys.argv[1] if len(sys.argv) > 1 else "/repo"
    c = census(repo)
    if len(sys.argv) > 2 and sys.argv[2] == "--write":
        json.dump({"note": "census of syntactic panic sites per function the table in coq/PanicFree.v was written against (tools/panic_census.py)",
                   "sites": c}, open("/verif/panic_sites.json", "w"), indent=1)
    print(json.dumps(c, indent=1))
    print("total sites:", sum(sum(v.values()) for v in c.values()), file=sys.stderr)
