"""What each property's theorems do NOT (yet) establish, stated plainly; copied into the evidence."""
NOT_PROVED = {
 "C01": ["nothing essential: C01_restart_identity / C01_history_spec are proved end to end for histories from a fresh directory under hist_ok (well-formed arguments, stream below 2^64 files); directories that did not start fresh (numbering gaps, pre-existing foreign WAL-named entries) and u64 overflow of positions are outside the theorem and covered by the correspondence and the oracle"],
 "C02": ["REFUTED for the real checksum (known finding F8, PropC02x.v): CRC-32 is affine, so the premise no_zero_collision of C02_crash_atomic / C02_history / open_torn / torn_read_nocoll is false for Crc.crc32 (a payload ending in d ++ rawcrc(d) has the checksum of the same payload ending in 8 zero bytes), and the conclusion itself fails on a concrete instance (C02_conclusion_false_for_crc32; reproduced on the real crate on every run). The theorems hold for every checksum function without such collisions (satisfiable: torn_hyps_sat); torn_read keeps the collision alternative in its conclusion and holds for the real CRC",
         "the model never exhibits the partially applied truncate/delete the property tolerates; the oracle accepts it",
         "continued use after a recovery that left a torn frame on disk is proved at stream level only (torn_then_append); a crash during open's own recovery-time GC writes is covered by the crash oracle only",
         "real kernel write atomicity/ordering is assumed as the property states (program-order effects, byte-prefix writes)"],
 "C03": ["nothing essential in the model: C03_process_crash / C03_persisted_survives (process crash) and C03_power_loss / C03_fsynced_survives_power_loss (power loss) are proved end to end under every policy; premises: global invariant at the persist point, hist_wf, stream and CB bounds (everything fits below 2^64 files), no_zero_collision - which is FALSE for the real CRC-32 (known finding F8: a torn-off payload tail d ++ rawcrc(d) is not detected), so for the production checksum the theorems hold only up to such constructible collisions; satisfiable for other checksum functions (torn_hyps_sat)",
         "power-loss MODEL: metadata (create / set_len / unlink) is taken as immediately durable - the worst case for unlink-before-sync; reordering or loss of unsynced metadata by a real file system (a created file vanishing, an unlinked file reappearing) is outside the model"],
 "C04": [
   "nothing essential: live, across clean restarts (RestartCorollaries.v) and after recovery from any crash image under any policy (CrashCorollaries.crash_next_positions, crash_next_after_persist) next positions are those of a specification state at least as recent as the persist point; power-loss recovery is covered by the oracle only"
  ],
 "C05": ["the model computes in unbounded N: the refinement is about calls whose positions stay below 2^64-1, names below 2^16 bytes and payloads below 2^32 bytes; at the limits the crate panics or wraps (known findings F10, F11)", "calls that fail with an I/O error are outside the refinement statement"],
 "C06": ["the attribution file of a record is the writer's file when its append BEGAN; an append beginning exactly at a file end is attributed to the full file (known finding F5): the theorems are stated with attribution files, the oracle with first-write files",
         "wr_ok (contiguous tracker) is proved preserved by every call and established for fresh directories (Inv); directories opened with numbering gaps are outside"],
 "C07": ["the file-level theorems (file_roundtrip, open_replays_delivered) assume full-size files and a directory that started fresh; short or damaged files are the subject of C02/C10"],
 "C08": ["without NoEmbedded the full statement is false (known finding F4); damage to length / type fields is covered by the oracle only; proved: positions strictly increasing for ANY directory content (open_inv), codec soundness, CRC-detected damage of any set of frames delivers a sub-list of the written entries, at stream level (DamageProofs.v) and through open over the files (DamageFile.open_damaged)"],
 "C09": ["nothing essential: C09_damage_costs_one_entry / C09_from_fresh are proved end to end (any state satisfying the global invariant, one entry damaged in the checksum/payload bytes of one frame so that the CRC fails); premise dmg_bound (the recovery-time GC's position entries fit below 2^64 files) mentions the ghost log",
         "damage to the length field or type byte of a frame is outside C09's quantifier (payload / checksum bytes only); an undetected change (CRC collision) is excluded by the premise that the CRC check fails"],
 "C10": ["panic freedom is proved on the MODEL VALUES at the enumerated panic sites (PanicFree.v lists every site with its Rust location and status); sites not covered: Instant::now() + interval (time not modelled), arithmetic on in-memory sizes and byte counters (no bound in the model), allocation failure, std internals; the enumeration itself is by reading the Rust source and is trusted",
         "two shapes are excluded by premises and recorded as known findings: F6 (record at position u64::MAX, debug builds) and F9 (a WAL file longer than a full file + a ~32 KiB queue name: assert in RollingWriter::write during the recovery-time GC)",
         "allocation bound is not stated as a theorem"],
 "C11": ["plans (site read, kind UnexpectedEof) are outside C11_fired_is_io (premise reportable): the code cannot tell such an error from a short file; C11_absorbed_* describe the behaviour (treated as end of that file) instead of an I/O report",
         "failure points without a hook site (set_len after create_new, flush/sync/write errors during recovery's closing writes, remove_file errors, read_dir entry errors) are not quantified over"],
 "C12": [
   "proved end to end for crashes (batch_crash, any policy) and for CRC-detected damage (batch_damage_self / batch_damage_other); header-field damage (length, type byte) is covered by the oracle only (and is where known finding F4 lives); power-loss images: oracle only"
  ],
 "C13": [],
 "C14": ["L_GC P = false (the current code: GC always persists before unlinking) is a premise of the step/run theorems"],
 "C15": [],
 "C16": ["memory_used_bytes <= memory_allocated_bytes is a statement about std's allocator-backed capacities (String, Vec, VecDeque): checked at run time after every call, not proved"],
 "C17": ["names of the form wal-<20 digits> whose value exceeds u64::MAX are covered under the premise that file numbers stay below 2^64 (step_unparsed_untouched); symlink / file_type semantics are OS behaviour modelled as an entry kind"],
 "C18": [
   "nothing essential: projection is proved live, across clean restarts and after recovery from any crash image under any policy (CrashCorollaries.crash_projection); power-loss recovery is covered by the oracle only"
  ],
}
