#!/usr/bin/env python3
"""mkprop.py PID spec.txt  — builds coq/Prop<PID>.v from a spec: lines
   header: free text (first comment)
   import: Mod1 Mod2 ...
   thm NAME = LEMMA | comment
The statement of each theorem is the type of LEMMA as printed by Coq (About/Check), so the file
pins the statement textually; Proof is `exact LEMMA`."""
import sys, subprocess, re, os
pid, spec = sys.argv[1], sys.argv[2]
coq = "/verif/coq"
imports, thms, header, raw = [], [], [], []
for line in open(spec):
    line = line.rstrip("\n")
    if line.startswith("import:"):
        imports += line[7:].split()
    elif line.startswith("thm "):
        m = re.match(r"thm (\w+) = ([\w.]+)\s*\|\s*(.*)", line)
        thms.append(m.groups())
    elif line.startswith("raw:"):
        raw.append(line[4:])
    elif line.strip():
        header.append(line)
script = "From MRL Require Import %s.\nSet Printing Width 110.\nSet Printing Depth 1000.\n" % " ".join(imports)
for name, lemma, _ in thms:
    script += 'Check %s.\n' % lemma
p = subprocess.run(["coqtop", "-Q", coq, "MRL", "-quiet"], input=script, capture_output=True, text=True, cwd=coq)
out = p.stdout
# split on "lemma\n     : type"
types = {}
blocks = re.split(r"\n(?=[\w.]+\n\s+: )", "\n" + out)
for b in blocks:
    m = re.match(r"\s*([\w.]+)\n\s+: (.*)", b, re.S)
    if m:
        types[m.group(1)] = m.group(2).strip()
body = "(* Prop%s.v — %s\n   Statements only; each theorem is closed by `exact <lemma>`; proofs live in the imported files. *)\n" % (pid, " ".join(header))
body += "From Coq Require Import Lia NArith List.\nFrom MRL Require Import %s.\n\n" % " ".join(imports)
for name, lemma, comment in thms:
    short = lemma.split(".")[-1]
    t = types.get(lemma) or types.get(short)
    if t is None:
        print("no type for", lemma, file=sys.stderr); print(out[-2000:], file=sys.stderr); sys.exit(1)
    t = re.sub(r"\s*\n\s*", "\n    ", t)
    body += "(* %s *)\nTheorem %s :\n    %s.\nProof. exact %s. Qed.\nPrint Assumptions %s.\n\n" % (comment, name, t, lemma, name)
for r in raw:
    body += r + "\n"
open(os.path.join(coq, "Prop%s.v" % pid), "w").write(body)
print("wrote Prop%s.v with %d theorems" % (pid, len(thms)))
