"""Per-property generators, correspondence projections and direct (model-free) oracles."""
import json, os, random, time
import mrl
from mrl import (HistGen, RefMap, obs_of, logical, outcome_of, events_of, ls_of, use_of,
                 name_bytes, show_name, payload_len, payload_bytes, fnv32)

TRUSTED_BASE = [
    "Coq 8.16.1 kernel (coqc; vm_compute used for closed side conditions and witnesses; no native_compute)",
    "axioms: none (every property theorem must print 'Closed under the global context')",
    "tools/gen_consts.py (constants translator, cross-checked against the hooked crate at run time)",
    "extraction: ExtrOcamlBasic only (bool, option, unit, prod, list, sumbool, sumor -> OCaml's); no Extract Constant",
    "model/mrl_model.ml (hand-written OCaml glue: parsing, printing, hashing, payload generation)",
    "harness/src/main.rs + /repo/src/verif_hooks.rs (traced File wrappers, fault plan)",
    "modelled rather than verified: std BufWriter/VecDeque/binary_search/HashMap order/read_dir/File, crc32fast (byte-exact comparison), Arc counts (literal option handles), the OS",
]
ASSUMPTIONS = [
    "the hand-written Coq model corresponds to the code: checked on every run by differential execution of the extracted model and the hooked crate on the same scripts, not proved",
    "process-crash model: file-system effects reach the OS in program order; a write may be cut at any byte",
]


def payload_token_key(tok):
    return (payload_len(tok), "%08x" % fnv32(payload_bytes(tok)))


class PropBase:
    pid = "?"
    prefixes = ("out", "q", "r", "lr")
    rule = ""
    oracle_text = ""
    assumptions = []
    quick_cases = 96
    thorough_cases = 1500
    policies = ["af"]

    def __init__(self, seed, tier):
        self.seed = seed
        self.tier = tier
        self.rng = random.Random((hash(self.pid) & 0xffff) * 1000003 + seed)
        self.rng = random.Random("%s-%d" % (self.pid, seed))
        self.stats = {}

    # ---- cases
    def ncases(self):
        return self.quick_cases if self.tier == "quick" else self.thorough_cases

    def corpus(self):
        d = os.path.join(mrl.ROOT, "corpus", self.pid)
        cases = []
        if os.path.isdir(d):
            for k, fn in enumerate(sorted(os.listdir(d))):
                # one case per file: the first `case <id>` block; the original case id is kept at the end of
                # the new id because some oracles read their metadata from it
                orig, cmds, seen = "x", [], 0
                for l in open(os.path.join(d, fn)):
                    l = l.strip()
                    if not l or l.startswith("#"):
                        continue
                    if l.startswith("case "):
                        seen += 1
                        if seen > 1:
                            break
                        orig = l[5:].split("~")[-1]
                        continue
                    cmds.append(l)
                cases.append(("corpus%d-%s~%s" % (k, fn.replace(".script", "").replace("_", "-"), orig), cmds))
        return cases

    def gen_one(self, rng, i):
        g = HistGen(rng, policy=rng.choice(self.policies))
        cmds = g.run(rng.randrange(6, 36))
        self.merge_stats(g.stats)
        return cmds

    def merge_stats(self, st):
        for k, v in st.items():
            self.stats[k] = self.stats.get(k, 0) + v

    def generate(self, n=None, tag="g"):
        cases = []
        for i in range(n or self.ncases()):
            rng = random.Random(self.rng.random())
            cases.append(("%s%d" % (tag, i), self.gen_one(rng, i)))
        return cases

    # ---- execution
    def run_pair(self, cases, consts, need_model=True):
        real = mrl.run_real(cases, deadline_ms=self.deadline_ms())
        if not need_model:
            return real, None, cases
        ann = mrl.annotate_gc(cases, real)
        model = mrl.run_model(ann, consts)
        return real, model, ann

    def deadline_ms(self):
        return 20000

    def nontrivial(self, cmds, tr):
        """a case is non-trivial if it rolled over to another WAL file or had a non-ok outcome"""
        for c in tr:
            for l in c["lines"]:
                if l.startswith("ev ") and " create wal-" in l and not l.endswith("00000000000000000000"):
                    return True
                if l.startswith("out ") and " err=" in l:
                    return True
        return False

    def execute(self, cases, consts):
        real, model, ann = self.run_pair(cases, consts)
        disagreements, violations, samples = [], [], []
        sigs = set()
        ncmds = 0
        for (cid, cmds), (_, acmds) in zip(cases, ann):
            tr = real.get(cid, [])
            ncmds += len(tr)
            d = mrl.diff_case(tr, model.get(cid, []), self.prefixes)
            if d:
                d.update(case=cid, case_cmds=acmds)
                disagreements.append(d)
            for v in (self.oracle(cid, cmds, tr) or []) + self.no_answer(cid, cmds, tr):
                v.setdefault("case", cid)
                v.setdefault("case_cmds", cmds)
                violations.append(v)
            if self.nontrivial(cmds, tr):
                sigs.add(hash(tuple(tuple(mrl.project(c["lines"], ("out", "ev"))) for c in tr)))
            if len(samples) < 3 and len(cmds) > 4:
                samples.append({"case": cid, "script": cmds[:12]})
        self.stats["events_compared"] = sum(len(events_of(c)) for tr in real.values() for c in tr)
        return {"n_cases": len(cases), "n_cmds": ncmds, "disagreements": disagreements,
                "violations": violations, "distinct_nontrivial": len(sigs), "samples": samples,
                "stats": self.stats}

    def search(self, res, consts):
        """the property is no longer shown to hold: look for a failing input with the oracle
        alone (no model needed), on more and longer cases"""
        out = []
        t0 = time.time()
        budget = 90 if self.tier == "quick" else 600
        rnd = 0
        while time.time() - t0 < budget and not out and rnd < 6:
            cases = self.generate(n=self.ncases() * 2, tag="s%d_" % rnd)
            real = mrl.run_real(cases, deadline_ms=self.deadline_ms())
            for cid, cmds in cases:
                for v in (self.oracle(cid, cmds, real.get(cid, [])) or []) + self.no_answer(cid, cmds, real.get(cid, [])):
                    v.setdefault("case", cid)
                    v.setdefault("case_cmds", cmds)
                    out.append(v)
            rnd += 1
        return out

    def fails_like(self, case, v, consts):
        cid, cmds = case
        real = mrl.run_real_batch([case], deadline_ms=self.deadline_ms())
        vs = self.oracle(cid, cmds, real.get(cid, [])) or []
        return any(x.get("shape") == v.get("shape") for x in vs)

    def oracle(self, cid, cmds, tr):
        return []

    def no_answer(self, cid, cmds, tr):
        """every property presupposes that the crate answers: a script on which the real crate hangs, or that kills
        the driver, is a failing input for whichever check ran it (the oracles themselves only look at the
        commands that were answered)"""
        if getattr(self, "judges_hang_itself", False):
            return []
        for i, c in enumerate(tr):
            out = outcome_of(c) or ""
            if c["name"] == "driver-error" or out.endswith("err=Hang"):
                return [{"msg": "cmd %d `%s`: the crate did not answer (%s)" % (i, cmds[i] if i < len(cmds) else c["name"], out or c["name"]),
                         "shape": "no-answer", "shrinkable": False}]
        if len(tr) < len(cmds):
            return [{"msg": "the transcript stops after %d of %d commands" % (len(tr), len(cmds)), "shape": "no-answer", "shrinkable": False}]
        return []


# =========================================================================== helpers
def split_cmd(cmd):
    return [t for t in cmd.split() if not t.startswith("gc=")]


def apply_ref(ref, toks):
    """applies a script command to the reference map; returns the spec's result or None"""
    op = toks[0]
    if op == "create":
        return ref.create(toks[1])
    if op == "delete":
        return ref.delete(toks[1])
    if op == "append":
        pos = None if toks[2] == "-" else int(toks[2])
        return ref.append(toks[1], pos, toks[3:])
    if op == "truncate":
        return ref.truncate(toks[1], int(toks[2]))
    return None


def ref_obs(ref):
    """reference map in the shape of logical(obs_of(..))"""
    out = {}
    for tok, q in ref.q.items():
        recs = [(p,) + payload_token_key(t) for p, t in q.recs]
        out[show_name(name_bytes(tok))] = (recs, q.next)
    return out


def expected_out(op, res):
    if res[0] == "err":
        return "out %s err=%s" % (op, res[1])
    return None


# =========================================================================== C05
class C05(PropBase):
    pid = "C05"
    prefixes = ("out", "q", "r", "lr", "rr")
    policies = ["af", "no"]
    rule = ("random call sequences over 1-4 queues from HistGen (implicit/next/retry/future/past positions, empty "
            "batches, truncations below/inside/at/after the retained range, missing queues) with range queries "
            "over bounds derived from the retained positions +-1; non-trivial = rolled over or had a rejected call; "
            "distinct = distinct (outcome, I/O event) transcripts")
    oracle_text = ("independent Python reference map (tools/mrl.py RefMap): every outcome, the full observable state "
                   "after every call and every range result must equal the specification's")

    def gen_one(self, rng, i):
        profile = "mixed"
        if i % 8 == 3:
            # the GC's own position records cross a file end (several empty queues, cursor a few dozen bytes before
            # the end of the file), then a restart and calls on every queue: existence and positions must survive
            import props2
            a = props2.aimed_gc_base(rng, 2, self.policies, self.stats)
            if a is not None:
                cmds = list(a.cmds) + ["drop", "open af"]
                for n in a.names:
                    cmds += ["append %s - 4:70" % n, "range %s u u" % n]
                cmds += ["drop", "open af"] + ["range %s u u" % n for n in a.names]
                return cmds
        g = HistGen(rng, policy=rng.choice(self.policies), max_payload=30000 if i % 3 else 70000)
        cmds_out = []
        g.run(rng.randrange(6, 40), weights={"create": 8, "delete": 5, "append": 50, "truncate": 28, "persist": 2, "restart": 3})
        # interleave range queries derived from the reference state
        ref = RefMap()
        for cmd in g.cmds:
            cmds_out.append(cmd)
            toks = cmd.split()
            apply_ref(ref, toks)
            if toks[0] in ("append", "truncate") and rng.random() < 0.5 and toks[1] in ref.q:
                q = ref.q[toks[1]]
                pts = [0, q.next, max(0, q.next - 1), q.next + 1, 18446744073709551615]
                if q.recs:
                    first, last = q.recs[0][0], q.recs[-1][0]
                    pts += [first, max(0, first - 1), first + 1, last, last + 1, (first + last) // 2]
                for _ in range(rng.choice([1, 2, 3])):
                    lo = rng.choice(["u", "i%d" % rng.choice(pts), "e%d" % rng.choice(pts)])
                    hi = rng.choice(["u", "i%d" % rng.choice(pts), "e%d" % rng.choice(pts)])
                    cmds_out.append("range %s %s %s" % (toks[1], lo, hi))
            elif toks[0] in ("create", "delete", "open") and rng.random() < 0.15:
                cmds_out.append("range %s u u" % rng.choice(g.names))
        self.merge_stats(g.stats)
        return cmds_out

    def generate(self, n=None, tag="g"):
        cases = PropBase.generate(self, n, tag)
        # known findings at the top of the u64 range and of the u16 name length (re-confirmed on every run)
        cases.append(("u64max_trunc", ["open af", "create =q", "append =q - 3:1 4:2", "truncate =q 18446744073709551615"]))
        cases.append(("longname", ["open af", "create @65536:1"]))
        return cases

    def oracle(self, cid, cmds, tr):
        ref = RefMap()
        vs = []
        for i, cmd in enumerate(cmds):
            if i >= len(tr):
                break
            toks = split_cmd(cmd)
            c = tr[i]
            out = outcome_of(c)
            op = toks[0]
            pan = next((l[4:] for l in c["lines"] if l.startswith("pan ")), "")
            if out and "err=Panic" in out and op == "truncate" and toks[2] == str(2 ** 64 - 1) and "overflow" in pan and "mem/queue.rs" in pan:
                vs.append({"msg": "cmd %d `%s`: the crate panics (debug profile; release builds wrap and evict nothing)" % (i, cmd), "shape": "u64-max-position", "shrinkable": False})
                return vs
            if out and "err=Panic" in out and op == "create" and len(name_bytes(toks[1])) >= 65536 and "record.rs" in pan:
                vs.append({"msg": "cmd %d `create <65536-byte name>`: the crate panics (assert in MultiPlexedRecord::serialize) instead of returning an error" % i, "shape": "name-too-long", "shrinkable": False})
                return vs
            if op in ("create", "delete", "append", "truncate"):
                res = apply_ref(ref, toks)
                if res[0] == "err":
                    if out != "out %s err=%s" % (op, res[1]):
                        vs.append({"msg": "cmd %d `%s`: spec says %s, crate says %r" % (i, cmd, res, out), "shape": "spec-outcome"})
                        return vs
                else:
                    if out is None or " ok" not in out:
                        vs.append({"msg": "cmd %d `%s`: spec says ok, crate says %r" % (i, cmd, out), "shape": "spec-outcome"})
                        return vs
                    if op == "append":
                        want = "-" if res[1] is None else str(res[1])
                        if " last=%s " % want not in out:
                            vs.append({"msg": "cmd %d `%s`: last_position should be %s: %r" % (i, cmd, want, out), "shape": "spec-outcome"})
                            return vs
                    if op == "truncate" and " evicted=%d " % res[1] not in out:
                        vs.append({"msg": "cmd %d `%s`: evicted should be %d: %r" % (i, cmd, res[1], out), "shape": "spec-outcome"})
                        return vs
            if op in ("create", "delete", "append", "truncate", "open", "persist"):
                if out and " ok" in out or op in ("create", "delete", "append", "truncate"):
                    got = logical(obs_of(c))
                    want = ref_obs(ref)
                    if got != want:
                        vs.append({"msg": "cmd %d `%s`: observable state differs from the specification: got %r want %r" % (
                            i, cmd, summarize(got), summarize(want)), "shape": "spec-state"})
                        return vs
                    # last_record must be the last retained record
                    for qn, o in obs_of(c).items():
                        wantlr = "-" if not o["recs"] else "%d %d %s" % o["recs"][-1]
                        if o["lr"] != wantlr:
                            vs.append({"msg": "cmd %d: last_record of %s is %r, want %r" % (i, qn, o["lr"], wantlr), "shape": "spec-state"})
                            return vs
            if op == "range":
                q = ref.q.get(toks[1])
                if q is None:
                    if out != "out range err=MissingQueue":
                        vs.append({"msg": "cmd %d `%s`: range on a missing queue: %r" % (i, cmd, out), "shape": "spec-range"})
                    continue
                lo, hi = toks[2], toks[3]

                def inb(p):
                    a = True if lo == "u" else (p >= int(lo[1:]) if lo[0] == "i" else p > int(lo[1:]))
                    b = True if hi == "u" else (p <= int(hi[1:]) if hi[0] == "i" else p < int(hi[1:]))
                    return a and b
                want = ["rr %d %d %s" % ((p,) + payload_token_key(t)) for p, t in q.recs if inb(p)]
                got = [l for l in c["lines"] if l.startswith("rr ")]
                if got != want or out != "out range ok n=%d" % len(want):
                    vs.append({"msg": "cmd %d `%s`: range returned %d records, the specification %d (%r vs %r)" % (
                        i, cmd, len(got), len(want), got[:3], want[:3]), "shape": "spec-range"})
                    return vs
        return vs


def summarize(o):
    return {k: ([r[0] for r in v[0]][:6], len(v[0]), v[1]) for k, v in o.items()}


# 24-byte names that are not WAL names: multi-byte characters straddling byte 4 (where the crate slices the
# name), around it, at the end; and names that are not UTF-8 at all
ODD_NAMES = [b"wal" + "\u2011".encode() + b"0" * 17 + b"1",
             b"wa" + "\u20ac".encode() + b"0" * 19,
             b"wal" + "\u00e9".encode() + b"0" * 19,
             b"wal-" + "\u00e9".encode() * 10,
             b"wal-" + b"0" * 17 + "\u20ac".encode(),
             b"wal-" + b"\xff" * 20,
             b"\xe2\x80" + b"wal-" + b"0" * 18]


# =========================================================================== C01
class C01(PropBase):
    pid = "C01"
    prefixes = ("out", "ev", "q", "r", "lr", "ls")
    policies = ["af", "as", "no", "dif", "d0s"]
    rule = ("HistGen histories (1-4 queues, cursor-aimed payload lengths, roll-over, truncation-driven GC, delete and "
            "re-create, future truncations) with clean restarts (drop + open) inserted at random points and always at "
            "the end; non-trivial = rolled over or had a rejected call; distinct = distinct (outcome, event) transcripts")
    oracle_text = "observable state (queues, records with payload hashes, next positions) printed by the last call before each drop must equal the state printed by the following open"

    def gen_one(self, rng, i):
        if i % 6 == 2:
            # GC whose own position records roll the writer over: two (or three) empty queues, the oldest
            # file becomes free while the cursor sits r bytes before the end of the current file
            import props2
            r = rng.randrange(8, 90)
            nq = rng.choice([2, 2, 3])
            cmds = ["open %s" % rng.choice(self.policies)]
            cursor = 0
            for k in range(nq):
                cmds.append("create =q%d" % k); cursor = mrl.advance(cursor, 11 + 2)
            for k in range(1, nq):
                cmds.append("append =q%d - 5:%d" % (k, k)); cursor = mrl.advance(cursor, 11 + 2 + 12 + 5)
                cmds.append("truncate =q%d %d" % (k, rng.choice([0, 0, 3]))); cursor = mrl.advance(cursor, 11 + 2)
            target = 2 * mrl.FILE - r - (7 + 11 + 2)          # leave room for the Truncate entry, then r bytes
            l = props2.aim_stream_pos(cursor, 2, target)
            if l is not None:
                cmds.append("append =q0 - %d:9" % l)
                cmds.append("truncate =q0 0")
                cmds += ["drop", "open af"]
                if rng.random() < 0.5:
                    cmds += ["append =q1 - 3:3", "drop", "open af"]
                self.stats["gc_roll_profile"] = self.stats.get("gc_roll_profile", 0) + 1
                return cmds
        g = HistGen(rng, policy=rng.choice(self.policies))
        g.run(rng.randrange(8, 40), weights={"create": 8, "delete": 5, "append": 45, "truncate": 27, "persist": 3, "restart": 9})
        g.op_restart()
        if rng.random() < 0.5:
            g.run(rng.randrange(2, 10))
            g.op_restart()
        self.merge_stats(g.stats)
        return g.cmds

    def oracle(self, cid, cmds, tr):
        vs = []
        last_obs = None
        for i, c in enumerate(tr):
            if c["name"] in ("create", "delete", "append", "truncate", "persist"):
                if "err=NoLog" not in (outcome_of(c) or ""):
                    last_obs = logical(obs_of(c))
            elif c["name"] == "open":
                out = outcome_of(c)
                if i > 0 and tr[i - 1]["name"] == "drop":
                    if out != "out open ok":
                        vs.append({"msg": "cmd %d: open after a clean drop failed: %r" % (i, out), "shape": "restart-open-failed"})
                        return vs
                    got = logical(obs_of(c))
                    if last_obs is not None and got != last_obs:
                        vs.append({"msg": "cmd %d: state after restart differs: before %r after %r" % (
                            i, summarize(last_obs), summarize(got)), "shape": "restart-state"})
                        return vs
                if out == "out open ok":
                    last_obs = logical(obs_of(c))
        return vs


# =========================================================================== C13
class C13(PropBase):
    pid = "C13"
    prefixes = ("out", "ev", "q", "r", "lr", "ls", "use")
    policies = ["af", "no", "as"]
    rule = ("HistGen histories with every rejected/no-op call shape (create existing; delete/append/truncate missing; "
            "retry of the last position; past position; empty batch with no/next/future position) inserted at random "
            "points; non-trivial/distinct as for C01")
    oracle_text = ("a rejected or no-op call must produce no I/O event at all, report wal_bytes_written=0 where it has the "
                   "field, and leave the printed state, directory listing and memory usage identical to those before it; a restart right "
                   "after must reproduce the same state")

    def noop_shapes(self, rng, g):
        ref = g.ref
        existing = [n for n in g.names if n in ref.q]
        missing = [n for n in g.names if n not in ref.q] + ["=nosuchqueue"]
        shapes = []
        if existing:
            n = rng.choice(existing)
            q = ref.q[n]
            shapes.append("create %s" % n)
            if q.next > 0:
                shapes.append("append %s %d 10:1" % (n, q.next - 1))
                shapes.append("append %s %d" % (n, q.next - 1))
            if q.next > 1:
                shapes.append("append %s %d 5:2 6:3" % (n, rng.randrange(0, q.next - 1)))
            shapes.append("append %s -" % n)
            shapes.append("append %s %d" % (n, q.next))
            shapes.append("append %s %d" % (n, q.next + rng.choice([1, 50, 2 ** 33])))
        m = rng.choice(missing)
        shapes += ["delete %s" % m, "append %s - 3:1" % m, "append %s 7 3:1" % m, "truncate %s %d" % (m, rng.randrange(0, 9))]
        return shapes

    def gen_one(self, rng, i):
        if i % 6 == 1:
            # a WAL file that is deletable but not yet collected (roll-over caused by create_queue while nothing
            # retained lives in the old file), then every rejected / no-op shape: none of them may touch the files
            import props2
            r = 19 + rng.choice([0, 1, 3, 6, 7, 10, 15, 22])
            l = props2.aim_file_end(7 + 12, 1, r)
            cmds = ["open %s" % rng.choice(self.policies), "create =q", "append =q - %d:7" % l, "truncate =q 0", "create =fresh"]
            shapes = ["append =q 0 5:1", "append =q 0", "append =nosuch - 3:1", "append =q -", "append =q 1", "append =q 5",
                      "create =q", "delete =nosuch", "truncate =nosuch 3", "append =fresh -"]
            rng.shuffle(shapes)
            cmds += shapes[: rng.randrange(2, 6)]
            cmds += ["drop", "open af"]
            self.stats["pending_gc_profile"] = self.stats.get("pending_gc_profile", 0) + 1
            return cmds
        g = HistGen(rng, policy=rng.choice(self.policies))
        g.op_create()
        n = rng.randrange(6, 30)
        self.noop_idx = []
        for k in range(n):
            o = rng.choices(["create", "delete", "append", "truncate", "persist", "restart"], [6, 3, 45, 25, 2, 4])[0]
            getattr(g, "op_" + o)()
            if rng.random() < 0.35:
                g.cmds.append(rng.choice(self.noop_shapes(rng, g)))
                self.stats["noop_inserted"] = self.stats.get("noop_inserted", 0) + 1
        g.cmds.append(rng.choice(self.noop_shapes(rng, g)))
        g.op_restart()
        self.merge_stats(g.stats)
        return g.cmds

    def oracle(self, cid, cmds, tr):
        vs = []
        ref = RefMap()
        prev = None
        for i, cmd in enumerate(cmds):
            if i >= len(tr):
                break
            toks = split_cmd(cmd)
            c = tr[i]
            op = toks[0]
            if op in ("create", "delete", "append", "truncate"):
                before = ref.copy()
                res = apply_ref(ref, toks)
                noop = res[0] == "err" or (op == "append" and res[1] is None)
                if noop:
                    evs = events_of(c)
                    out = outcome_of(c) or ""
                    if evs:
                        vs.append({"msg": "cmd %d `%s` is rejected/no-op but performed I/O: %s" % (i, cmd, evs[:3]), "shape": "noop-io"})
                        return vs
                    if "bytes=" in out and "bytes=0" not in out:
                        vs.append({"msg": "cmd %d `%s` is a no-op but reports %s" % (i, cmd, out), "shape": "noop-bytes"})
                        return vs
                    if prev is not None:
                        cur = (obs_of(c), ls_of(c), use_of(c))
                        if cur != prev:
                            vs.append({"msg": "cmd %d `%s` is rejected/no-op but changed the state" % (i, cmd), "shape": "noop-state"})
                            return vs
            if op in ("create", "delete", "append", "truncate", "persist", "open"):
                prev = (obs_of(c), ls_of(c), use_of(c))
                if op == "open" and outcome_of(c) == "out open ok":
                    got = logical(obs_of(c))
                    if got != ref_obs(ref):
                        vs.append({"msg": "cmd %d: state after restart is not the state of the history without the no-op calls" % i, "shape": "noop-restart"})
                        return vs
        return vs


# =========================================================================== C15
class C15(PropBase):
    pid = "C15"
    prefixes = ("out", "ev")
    policies = ["af", "as"]
    rule = ("HistGen histories under the flush-per-operation policies, cursor-aimed payload lengths (0..8, 11, 12, 18, 19 bytes "
            "left in the block, entries ending exactly at file end, multi-block and multi-file entries), truncations and "
            "deletions with and without GC work; non-trivial/distinct as for C01")
    oracle_text = ("per mutating call: wal_bytes_written == sum of the lengths of the call's write events (every call flushes under "
                   "these policies), ==0 iff no write event; the write offsets form one contiguous cursor across calls and files")

    def gen_one(self, rng, i):
        g = HistGen(rng, policy=rng.choice(self.policies))
        g.run(rng.randrange(8, 40), weights={"create": 8, "delete": 6, "append": 50, "truncate": 30, "persist": 2, "restart": 4})
        self.merge_stats(g.stats)
        return g.cmds

    def oracle(self, cid, cmds, tr):
        vs = []
        cursor = None
        for i, c in enumerate(tr):
            out = outcome_of(c) or ""
            writes = [l.split() for l in events_of(c) if l.split()[2] == "write"]
            if c["name"] == "open":
                cursor = None
                # recovery GC may write; resynchronise on the last write of the open, if any
                for w in writes:
                    fileno = int(w[3][4:])
                    cursor = fileno * mrl.FILE + int(w[4]) + int(w[5])
                continue
            if c["name"] in ("create", "delete", "append", "truncate") and " ok" in out:
                m = [t for t in out.split() if t.startswith("bytes=")]
                reported = int(m[0][6:])
                total = sum(int(w[5]) for w in writes)
                if reported != total:
                    vs.append({"msg": "cmd %d `%s`: wal_bytes_written=%d but the call wrote %d bytes" % (i, cmds[i] if i < len(cmds) else c["name"], reported, total), "shape": "bytes-mismatch"})
                    return vs
                for w in writes:
                    fileno = int(w[3][4:])
                    pos = fileno * mrl.FILE + int(w[4])
                    if cursor is not None and pos != cursor:
                        vs.append({"msg": "cmd %d: write at stream offset %d but the cursor was %d" % (i, pos, cursor), "shape": "cursor-gap"})
                        return vs
                    cursor = pos + int(w[5])
        return vs


# =========================================================================== C16
class C16(PropBase):
    pid = "C16"
    prefixes = ("out", "use", "q", "r")
    policies = ["af", "no"]
    rule = ("HistGen histories of appends/truncations/deletions of any sizes (batches, empty payloads, multi-file payloads), "
            "ending with a truncation of every queue to its last position; aimed profiles: a long queue with small head truncations; a recovery that loses a "
            "DeleteQueue / Truncate entry to CRC-detected damage and then replays a later position record of the same queue (in-place reset of a non-empty queue); "
            "non-trivial/distinct as for C01")
    oracle_text = ("after every call: memory_used_bytes == sum over queues of (name bytes + retained payload bytes + K*records) with "
                   "K = size_of::<RecordMeta>() read from the crate at run time; used <= allocated; names-only once every queue is empty")

    def gen_one(self, rng, i):
        if i % 12 == 5:
            # a long queue (more than a thousand retained records) with small truncations of its head
            cmds = ["open %s" % rng.choice(self.policies), "create =long"]
            n = 0
            for k in range(rng.randrange(8, 14)):
                m = rng.randrange(90, 180)
                cmds.append("append =long - " + " ".join("%d:%d" % (rng.choice([0, 1, 20, 100, 100, 300]), 700 + n + j) for j in range(m)))
                n += m
            for p in sorted(rng.sample(range(0, n // 3), 4)):
                cmds.append("truncate =long %d" % p)
            cmds.append("truncate =long %d" % (n - 1))
            self.stats["long_queue_profile"] = self.stats.get("long_queue_profile", 0) + 1
            return cmds
        if i % 12 == 7:
            # recovery that loses a DeleteQueue (or Truncate) entry to CRC-detected damage and then meets a
            # later position record of the same queue: replay resets a NON-EMPTY queue in place; the accounting
            # must follow.  Fresh directory: create x = 19 bytes, the append entry = 7 + 12 + sum(12 + len),
            # then the 19-byte delete / truncate entry whose payload we damage.
            lens = [rng.choice([0, 10, 1000, 3000]) for _ in range(rng.randrange(1, 5))]
            cmds = ["open af", "create =x", "append =x - " + " ".join("%d:%d" % (l, 40 + k) for k, l in enumerate(lens))]
            off = 19 + 7 + 12 + sum(12 + l for l in lens)
            kill = rng.choice(["delete =x", "delete =x", "truncate =x %d" % (len(lens) - 1)])
            cmds.append(kill)
            if kill.startswith("delete"):
                cmds.append("create =x")
            else:
                cmds += ["create =other", "append =other - 5:9"]
            cmds.append("append =x - 10:60")
            cmds += ["drop", "damage 0 %d x%02x" % (off + 7 + rng.randrange(0, 12), rng.randrange(1, 256)), "open af"]
            cmds += ["append =x - 7:61", "truncate =x 99"]
            self.stats["lost_delete_profile"] = self.stats.get("lost_delete_profile", 0) + 1
            return cmds
        g = HistGen(rng, policy=rng.choice(self.policies))
        g.run(rng.randrange(8, 40), weights={"create": 8, "delete": 5, "append": 52, "truncate": 28, "persist": 1, "restart": 3})
        for tok, q in list(g.ref.q.items()):
            p = max(0, q.next - 1)
            g.ref.truncate(tok, p)
            g.cmds.append("truncate %s %d" % (tok, p))
        self.merge_stats(g.stats)
        return g.cmds

    @staticmethod
    def obs_name_len(key):
        return int(key[1:].split(":")[0]) if key.startswith("L") else len(key[1:]) // 2

    def oracle(self, cid, cmds, tr):
        vs = []
        K = 24
        ref = RefMap()
        damaged = False
        for i, cmd in enumerate(cmds):
            if i >= len(tr):
                break
            toks = split_cmd(cmd)
            apply_ref(ref, toks)
            if toks and toks[0] in ("damage", "crash", "powerloss", "truncfile", "rmfile", "cpfile"):
                damaged = True
            c = tr[i]
            u = use_of(c)
            if u is None:
                continue
            if damaged:
                # what was recovered is judged elsewhere (C08/C09/C10); here: the accounting of whatever is retained
                o = obs_of(c)
                names = sum(self.obs_name_len(k) for k in o)
                payload = sum(r[1] for v in o.values() for r in v["recs"])
                nrec = sum(len(v["recs"]) for v in o.values())
            else:
                names = sum(len(name_bytes(t)) for t in ref.q)
                payload = sum(payload_len(t) for q in ref.q.values() for _, t in q.recs)
                nrec = sum(len(q.recs) for q in ref.q.values())
            want = names + payload + K * nrec
            if int(u["mem"]) != want:
                vs.append({"msg": "cmd %d `%s`: memory_used_bytes=%s, retained data says %d (names %d + payload %d + %d*%d)" % (
                    i, cmd, u["mem"], want, names, payload, K, nrec), "shape": "mem-used"})
                return vs
            if u["allocok"] != "1":
                vs.append({"msg": "cmd %d `%s`: memory_used_bytes exceeds memory_allocated_bytes" % (i, cmd), "shape": "mem-alloc"})
                return vs
        return vs


# =========================================================================== C17
import re as _re
WAL_RE = _re.compile(r'^wal-[0-9]{20}$')


class C17(PropBase):
    pid = "C17"
    prefixes = ("out", "ev", "ls")
    policies = ["af", "no"]
    rule = ("directories seeded with foreign entries (near-miss names of 23/25 bytes, wal_ / WAL- prefixes, a 24-byte name "
            "with a full-width digit, 20-digit values above u64::MAX, other files, a sub-directory and a symlink carrying a "
            "valid WAL name) and with pre-existing WAL files at gapped numbers, then HistGen histories with roll-over, GC and "
            "restarts; non-trivial = rolled over or had a non-ok outcome; distinct = distinct (outcome, event) transcripts")
    oracle_text = ("after every command the directory listing still contains every foreign entry with the same kind, size and "
                   "content hash; every traced create/open/setlen/write/read/flush/sync/unlink names a file matching "
                   "^wal-[0-9]{20}$ that is not a foreign entry")

    def gen_one(self, rng, i):
        seeds = []
        near = ["wal-0000000000000000001", "wal-000000000000000000001", "wal_00000000000000000001",
                "WAL-00000000000000000001", "wal-0000000000000000\uff11".encode().decode("unicode_escape"),
                "wal-99999999999999999999", "wal-18446744073709551616", "wal-0000000000000000000a",
                "notes.txt", ".hidden", "wal-", "wal-00000000000000000001.bak"]
        near = [n.encode() for n in near] + ODD_NAMES
        rng.shuffle(near)
        for nm in near[: rng.randrange(2, 8)]:
            content = mrl.gen_payload(rng.choice([0, 1, 50, 3000]), rng.randrange(1, 99)).hex() or "-"
            seeds.append("seedfile %s f %s" % (nm.hex(), content))
        used = set()
        # pre-existing (empty) WAL files at gapped numbers
        nums = []
        if rng.random() < 0.5:
            nums = sorted(rng.sample([0, 3, 4, 9, 10, 17], rng.choice([1, 2, 3])))
            used.update(nums)
        top = max(nums) if nums else 0
        # foreign non-files carrying a valid WAL name; often right in the way of the next roll-overs
        if rng.random() < 0.6:
            n = rng.choice([top + 1, top + 2, top + 3, 40, 1000]) if rng.random() < 0.7 else rng.choice([1, 2])
            if n not in used:
                used.add(n)
                seeds.append("seedfile %s d" % ("wal-%020d" % n).encode().hex())
        if rng.random() < 0.6:
            n = rng.choice([top + 1, top + 1, top + 2, top + 3, 50, 7])
            if n not in used:
                used.add(n)
                seeds.append("seedfile %s l %s" % (("wal-%020d" % n).encode().hex(), "notes.txt"))
                if not any(bytes.fromhex(x.split()[1]) == b"notes.txt" for x in seeds):
                    seeds.append("seedfile %s f %s" % (b"notes.txt".hex(), mrl.gen_payload(300, 5).hex()))
        if rng.random() < 0.5:
            seeds.append("seedfile %s d" % "subdir".encode().hex())
        for n in nums:
            seeds.append("seedfile %s z %d" % (("wal-%020d" % n).encode().hex(), mrl.FILE))
        g = HistGen(rng, policy=rng.choice(self.policies))
        g.run(rng.randrange(6, 30), weights={"create": 8, "delete": 4, "append": 50, "truncate": 26, "persist": 2, "restart": 8})
        g.op_restart()
        self.merge_stats(g.stats)
        self.stats["seed_entries"] = self.stats.get("seed_entries", 0) + len(seeds)
        return seeds + g.cmds

    def oracle(self, cid, cmds, tr):
        vs = []
        foreign = {}
        for i, cmd in enumerate(cmds):
            toks = cmd.split()
            if toks[0] == "seedfile":
                nm = bytes.fromhex(toks[1]).decode("utf-8", "replace")
                is_wal = toks[2] in ("f", "z") and WAL_RE.match(nm)
                if not is_wal:
                    foreign[toks[1]] = None
        # descriptor of each foreign entry right after the last seed command
        nseeds = sum(1 for c in cmds if c.startswith("seedfile"))
        if nseeds and nseeds - 1 < len(tr):
            for l in ls_of(tr[nseeds - 1]):
                p = l.split(" ", 2)
                if p[1][1:] in foreign:
                    foreign[p[1][1:]] = p[2]
        foreign_names = set(bytes.fromhex(k).decode("utf-8", "replace") for k in foreign)
        for i, c in enumerate(tr):
            for l in events_of(c):
                p = l.split()
                if p[2] in ("readdir", "syncdir"):
                    continue
                nm = p[3]
                if not WAL_RE.match(nm) or nm in foreign_names:
                    vs.append({"msg": "cmd %d: I/O on a file that is not a WAL file of the library: %s" % (i, l), "shape": "foreign-io"})
                    return vs
            lsl = ls_of(c)
            out = outcome_of(c) or ""
            if "err=Io:AlreadyExists" in out and lsl:
                # "ordered by that number with gaps allowed": creating the next WAL file can only collide with a foreign
                # NON-file carrying the next number (last regular WAL file + 1); existing regular WAL files at gapped
                # numbers are part of the log, never in the way
                regular, blockers = [], []
                for l in lsl:
                    p = l.split(" ", 3)
                    nm = bytes.fromhex(p[1][1:]).decode("utf-8", "replace")
                    if WAL_RE.match(nm) and int(nm[4:]) < 2 ** 64:      # 20 digits above u64::MAX: not a WAL name
                        (regular if p[2] == "f" else blockers).append(int(nm[4:]))
                nxt = (max(regular) + 1) if regular else 0
                if nxt not in blockers:
                    vs.append({"msg": "cmd %d `%s`: %s although nothing foreign holds the name of the next WAL file (regular WAL files %r, foreign WAL-named entries %r)" % (
                        i, cmds[i] if i < len(cmds) else "", out, sorted(regular), sorted(blockers)), "shape": "gap-not-allowed"})
                    return vs
            if lsl and i >= nseeds:
                have = {l.split(" ", 2)[1][1:]: l.split(" ", 2)[2] for l in lsl}
                for k, d in foreign.items():
                    if have.get(k) != d:
                        vs.append({"msg": "cmd %d `%s`: foreign entry %r changed: %r -> %r" % (
                            i, cmds[i] if i < len(cmds) else "", bytes.fromhex(k), d, have.get(k)), "shape": "foreign-changed"})
                        return vs
        return vs


PROPS = {"C01": C01, "C05": C05, "C13": C13, "C15": C15, "C16": C16, "C17": C17}
