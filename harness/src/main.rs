//! mrl-drive: executes a line-oriented script against the real mrecordlog crate (built with
//! `--cfg mrecordlog_verif`) and prints a canonical transcript. The OCaml driver of the Coq
//! model prints the same transcript for the same script; `check` diffs them.
//!
//! usage: mrl-drive <scratch-dir> < script > transcript
//! A script may contain several cases separated by lines `case <id>`; every case starts
//! from an empty directory.

use std::collections::BTreeMap;
use std::fmt::Write as _;
use std::io::{self, Read, Write};
use std::ops::Bound;
use std::panic::{catch_unwind, AssertUnwindSafe};
use std::path::{Path, PathBuf};
use std::sync::atomic::{AtomicU64, Ordering};
use std::sync::Mutex;
use std::time::{Duration, Instant};

use mrecordlog::error::{AppendError, CreateQueueError, DeleteQueueError, TruncateError};
use mrecordlog::verif::{FrameWriter, ReadRecordError, RecordReader, RecordWriter, VecBlockWriter};
use mrecordlog::verif_hooks::{self as hooks, Event, FaultPlan, FaultSite};
use mrecordlog::{
    BlockRead, MultiRecordLog, PersistAction, PersistPolicy, Serializable, BLOCK_NUM_BYTES,
};

static OUT: Mutex<Vec<u8>> = Mutex::new(Vec::new());
/// millis since start at which the current command began; 0 = idle
static CMD_STARTED: AtomicU64 = AtomicU64::new(0);
static CMD_NAME: Mutex<String> = Mutex::new(String::new());
/// where and why the last panic happened (set by the panic hook; printed as a `pan` line, a channel
/// that is never diffed against the model: the oracles use it to tell known findings from new panics)
static LAST_PANIC: Mutex<String> = Mutex::new(String::new());

fn take_panic() -> String {
    std::mem::take(&mut *LAST_PANIC.lock().unwrap_or_else(|e| e.into_inner()))
}

macro_rules! outln {
    ($($arg:tt)*) => {{
        let mut out = OUT.lock().unwrap();
        writeln!(out, $($arg)*).unwrap();
    }};
}

fn flush_out() {
    let mut out = OUT.lock().unwrap();
    let stdout = io::stdout();
    let mut lock = stdout.lock();
    lock.write_all(&out).unwrap();
    lock.flush().unwrap();
    out.clear();
}

fn fnv32(data: &[u8]) -> u32 {
    let mut h: u32 = 0x811c9dc5;
    for &b in data {
        h ^= b as u32;
        h = h.wrapping_mul(16777619);
    }
    h
}

fn hex(data: &[u8]) -> String {
    let mut s = String::with_capacity(data.len() * 2);
    for b in data {
        write!(s, "{:02x}", b).unwrap();
    }
    s
}

fn unhex(s: &str) -> Vec<u8> {
    if s == "-" {
        return Vec::new();
    }
    assert!(s.len() % 2 == 0, "odd hex {s}");
    (0..s.len() / 2)
        .map(|i| u8::from_str_radix(&s[2 * i..2 * i + 2], 16).expect("hex"))
        .collect()
}

/// Name shown in transcripts: hex if short, else length + hash.
fn show_name(name: &[u8]) -> String {
    if name.len() <= 32 {
        format!("x{}", hex(name))
    } else {
        format!("L{}:{:08x}", name.len(), fnv32(name))
    }
}

pub fn gen_payload(len: u64, seed: u64) -> Vec<u8> {
    (0..len)
        .map(|i| ((seed * 131 + i * 7 + (i / 256) * 13) % 251) as u8)
        .collect()
}

pub fn gen_name(len: u64, seed: u64) -> Vec<u8> {
    (0..len)
        .map(|i| b'a' + ((seed + i * 7 + i / 26) % 26) as u8)
        .collect()
}

fn parse_name(tok: &str) -> Vec<u8> {
    if let Some(rest) = tok.strip_prefix('=') {
        rest.as_bytes().to_vec()
    } else if let Some(rest) = tok.strip_prefix('@') {
        let (len, seed) = rest.split_once(':').expect("name @len:seed");
        gen_name(len.parse().unwrap(), seed.parse().unwrap())
    } else if let Some(rest) = tok.strip_prefix('x') {
        unhex(rest)
    } else {
        panic!("bad name token {tok}")
    }
}

fn parse_payload(tok: &str) -> Vec<u8> {
    if let Some(rest) = tok.strip_prefix('x') {
        unhex(rest)
    } else {
        let (len, seed) = tok.split_once(':').expect("payload len:seed");
        gen_payload(len.parse().unwrap(), seed.parse().unwrap())
    }
}

fn parse_policy(tok: &str) -> PersistPolicy {
    let hour = Duration::from_secs(3600);
    match tok {
        "af" => PersistPolicy::Always(PersistAction::Flush),
        "as" => PersistPolicy::Always(PersistAction::FlushAndFsync),
        "no" => PersistPolicy::DoNothing,
        "d0f" => PersistPolicy::OnDelay {
            interval: Duration::ZERO,
            action: PersistAction::Flush,
        },
        "d0s" => PersistPolicy::OnDelay {
            interval: Duration::ZERO,
            action: PersistAction::FlushAndFsync,
        },
        "dif" => PersistPolicy::OnDelay {
            interval: hour,
            action: PersistAction::Flush,
        },
        "dis" => PersistPolicy::OnDelay {
            interval: hour,
            action: PersistAction::FlushAndFsync,
        },
        _ => panic!("bad policy {tok}"),
    }
}

fn parse_bound(tok: &str) -> Bound<u64> {
    if tok == "u" {
        Bound::Unbounded
    } else if let Some(rest) = tok.strip_prefix('i') {
        Bound::Included(rest.parse().unwrap())
    } else if let Some(rest) = tok.strip_prefix('e') {
        Bound::Excluded(rest.parse().unwrap())
    } else {
        panic!("bad bound {tok}")
    }
}

fn io_kind(err: &io::Error) -> String {
    format!("Io:{:?}", err.kind())
}

#[derive(Clone)]
enum Seed {
    File(Vec<u8>),
    Dir,
    Symlink(String),
}

struct World {
    scratch: PathBuf,
    dir_counter: u64,
    dir: PathBuf,
    log: Option<MultiRecordLog>,
    /// name (raw bytes as utf8 string) -> seed entry, applied before events
    seeds: Vec<(std::ffi::OsString, Seed)>,
    /// every mutation of the directory since the case began (also out-of-band damage),
    /// enough to rebuild any crash image from the seeds
    events: Vec<Event>,
    delay0: bool,
    /// fault plan given by the last `fault` command: armed only for the next `open`, as in the
    /// model (Driver.world_step: only COpen passes the plan on)
    pending_fault: Option<FaultPlan>,
}

fn wal_name(n: u64) -> String {
    format!("wal-{:020}", n)
}

impl World {
    fn new(scratch: &Path) -> World {
        let mut world = World {
            scratch: scratch.to_path_buf(),
            dir_counter: 0,
            dir: PathBuf::new(),
            log: None,
            seeds: Vec::new(),
            events: Vec::new(),
            delay0: false,
            pending_fault: None,
        };
        world.fresh_dir();
        world
    }

    fn fresh_dir(&mut self) {
        self.dir_counter += 1;
        self.dir = self.scratch.join(format!("d{}", self.dir_counter));
        let _ = std::fs::remove_dir_all(&self.dir);
        std::fs::create_dir_all(&self.dir).unwrap();
    }

    fn reset_case(&mut self) {
        self.forget_log();
        let _ = std::fs::remove_dir_all(&self.dir);
        self.seeds.clear();
        self.events.clear();
        self.delay0 = false;
        self.fresh_dir();
    }

    /// Drops the live log without letting its final flush appear in the trace.
    fn forget_log(&mut self) {
        if let Some(log) = self.log.take() {
            // not dropped: dropping would flush the BufWriter into the directory behind the trace's back;
            // the model continues from what had reached the OS (a few file descriptors leak per case)
            std::mem::forget(log);
            let _ = hooks::take_events();
        }
    }

    fn apply_seed(dir: &Path, name: &std::ffi::OsStr, seed: &Seed) {
        let path = dir.join(name);
        match seed {
            Seed::File(content) => std::fs::write(path, content).unwrap(),
            Seed::Dir => std::fs::create_dir(path).unwrap(),
            Seed::Symlink(target) => std::os::unix::fs::symlink(target, path).unwrap(),
        }
    }

    /// Applies one recorded mutation to `dir` (bytes limited to `k` for a write if given).
    fn apply_event(dir: &Path, ev: &Event, k: Option<usize>) {
        use std::os::unix::fs::FileExt;
        match ev {
            Event::Create(name) => {
                std::fs::OpenOptions::new()
                    .create_new(true)
                    .write(true)
                    .open(dir.join(name))
                    .unwrap();
            }
            // out-of-band damage may target a file that is not there (any more): no effect,
            // exactly as Driver.apply_event in the model
            Event::SetLen(name, len) => {
                if let Ok(file) = std::fs::OpenOptions::new().write(true).open(dir.join(name)) {
                    file.set_len(*len).unwrap();
                }
            }
            Event::Write(name, off, bytes) => {
                let n = k.unwrap_or(bytes.len()).min(bytes.len());
                if n > 0 {
                    if let Ok(file) = std::fs::OpenOptions::new().write(true).open(dir.join(name)) {
                        file.write_all_at(&bytes[..n], *off).unwrap();
                    }
                }
            }
            Event::Unlink(name) => {
                let _ = std::fs::remove_file(dir.join(name));
            }
            _ => {}
        }
    }

    /// Records the events of the last call and prints them with their global index.
    fn absorb_events(&mut self) {
        for ev in hooks::take_events() {
            let idx = self.events.len();
            match &ev {
                Event::ReadDir => outln!("ev {idx} readdir"),
                Event::Create(name) => outln!("ev {idx} create {name}"),
                Event::OpenRw(name) => outln!("ev {idx} openrw {name}"),
                Event::SetLen(name, len) => outln!("ev {idx} setlen {name} {len}"),
                Event::Write(name, off, bytes) => outln!(
                    "ev {idx} write {name} {off} {} {:08x}",
                    bytes.len(),
                    fnv32(bytes)
                ),
                Event::ReadExact(name, off, len, ok) => {
                    outln!("ev {idx} read {name} {off} {len} {}", *ok as u8)
                }
                Event::Flush(name) => outln!("ev {idx} flush {name}"),
                Event::SyncData(name) => outln!("ev {idx} syncdata {name}"),
                Event::SyncDir => outln!("ev {idx} syncdir"),
                Event::Unlink(name) => outln!("ev {idx} unlink {name}"),
                Event::GcQueue(queue) => {
                    outln!("gcq {}", hex(queue.as_bytes()));
                    continue;
                }
            }
            self.events.push(ev);
        }
    }

    /// Out-of-band mutation of the directory (damage): applied and recorded.
    fn oob(&mut self, ev: Event) {
        World::apply_event(&self.dir, &ev, None);
        let idx = self.events.len();
        match &ev {
            Event::Write(name, off, bytes) => outln!(
                "ev {idx} write {name} {off} {} {:08x}",
                bytes.len(),
                fnv32(bytes)
            ),
            Event::SetLen(name, len) => outln!("ev {idx} setlen {name} {len}"),
            Event::Unlink(name) => outln!("ev {idx} unlink {name}"),
            Event::Create(name) => outln!("ev {idx} create {name}"),
            _ => {}
        }
        self.events.push(ev);
    }

    /// Read accessors (list_queues, summary, last_position, range, last_record, resource_usage)
    /// under catch_unwind: a panic in one of them is reported, not fatal (property C10).
    fn print_state(&mut self) {
        let res = catch_unwind(AssertUnwindSafe(|| self.print_state_inner()));
        if res.is_err() {
            outln!("acc err=Panic");
            outln!("pan {}", take_panic());
            self.forget_log();
            self.print_ls();
        }
    }

    fn print_state_inner(&mut self) {
        if let Some(log) = self.log.as_ref() {
            let mut names: Vec<String> = log.list_queues().map(|q| q.to_string()).collect();
            names.sort_by(|a, b| a.as_bytes().cmp(b.as_bytes()));
            let summary = log.summary();
            for name in &names {
                let qs = summary.queues.get(name).expect("summary lists the queue");
                let last = log.last_position(name).expect("queue exists");
                let next = match last {
                    Some(p) => p.wrapping_add(1),
                    None => 0,
                };
                // summary.end must agree with last_position
                assert_eq!(qs.end, last, "summary.end vs last_position");
                let file = match qs.file_number {
                    Some(f) => f.to_string(),
                    None => "-".to_string(),
                };
                let records: Vec<(u64, usize, u32)> = log
                    .range(name, ..)
                    .expect("queue exists")
                    .map(|r| (r.position, r.payload.len(), fnv32(&r.payload)))
                    .collect();
                outln!(
                    "q {} start={} next={} file={} n={}",
                    show_name(name.as_bytes()),
                    qs.start,
                    next,
                    file,
                    records.len()
                );
                for (pos, len, h) in &records {
                    outln!("r {pos} {len} {h:08x}");
                }
                match log.last_record(name).expect("queue exists") {
                    Some(r) => outln!("lr {} {} {:08x}", r.position, r.payload.len(), fnv32(&r.payload)),
                    None => outln!("lr -"),
                }
            }
            let usage = log.resource_usage();
            outln!(
                "use mem={} allocok={} disk={}",
                usage.memory_used_bytes,
                (usage.memory_used_bytes <= usage.memory_allocated_bytes) as u8,
                usage.disk_used_bytes
            );
        }
        self.print_ls();
    }

    fn print_ls(&self) {
        let mut entries: BTreeMap<Vec<u8>, String> = BTreeMap::new();
        for entry in std::fs::read_dir(&self.dir).unwrap() {
            let entry = entry.unwrap();
            use std::os::unix::ffi::OsStrExt;
            let name = entry.file_name().as_bytes().to_vec();
            let ft = entry.file_type().unwrap();
            let desc = if ft.is_file() {
                let len = entry.metadata().unwrap().len();
                if len <= 4096 {
                    format!("f {} {:08x}", len, fnv32(&std::fs::read(entry.path()).unwrap()))
                } else {
                    format!("f {}", len)
                }
            } else if ft.is_dir() {
                "d 0".to_string()
            } else {
                "o 0".to_string()
            };
            entries.insert(name, desc);
        }
        for (name, desc) in entries {
            outln!("ls x{} {}", hex(&name), desc);
        }
    }

    fn cmd_open(&mut self, policy_tok: &str) {
        self.forget_log();
        self.delay0 = policy_tok.starts_with("d0");
        let policy = parse_policy(policy_tok);
        let dir = self.dir.clone();
        if let Some(plan) = self.pending_fault.take() {
            hooks::arm_fault(Some(plan));
        }
        let res = catch_unwind(AssertUnwindSafe(|| {
            MultiRecordLog::open_with_prefs(&dir, policy)
        }));
        hooks::arm_fault(None);
        match res {
            Ok(Ok(log)) => {
                outln!("out open ok");
                self.log = Some(log);
            }
            Ok(Err(ReadRecordError::IoError(err))) => outln!("out open err={}", io_kind(&err)),
            Ok(Err(ReadRecordError::Corruption)) => outln!("out open err=Corruption"),
            Err(_) => {
                outln!("out open err=Panic");
                outln!("pan {}", take_panic());
            }
        }
        self.absorb_events();
        self.print_state();
    }

    fn tick(&self) {
        if self.delay0 {
            std::thread::sleep(Duration::from_micros(300));
        }
    }

    fn with_log<R>(
        &mut self,
        what: &str,
        f: impl FnOnce(&mut MultiRecordLog) -> R,
    ) -> Option<R> {
        self.tick();
        let Some(mut log) = self.log.take() else {
            outln!("out {what} err=NoLog");
            return None;
        };
        let res = catch_unwind(AssertUnwindSafe(|| f(&mut log)));
        match res {
            Ok(r) => {
                self.log = Some(log);
                Some(r)
            }
            Err(_) => {
                outln!("out {what} err=Panic");
                outln!("pan {}", take_panic());
                // the log is in an unknown state: forget it without flushing into the trace
                self.log = Some(log);
                self.forget_log();
                None
            }
        }
    }

    fn run(&mut self, idx: usize, line: &str) {
        let toks: Vec<&str> = line.split_whitespace().filter(|t| !t.starts_with("gc=")).collect();
        if toks.is_empty() {
            return;
        }
        outln!("# {idx} {}", toks[0]);
        match toks[0] {
            "seedfile" => {
                // any byte string (non-UTF-8 names included: the crate must skip them)
                let name: std::ffi::OsString = std::os::unix::ffi::OsStringExt::from_vec(unhex(toks[1]));
                let seed = match toks[2] {
                    "f" => Seed::File(unhex(toks[3])),
                    "z" => Seed::File(vec![0u8; toks[3].parse().unwrap()]),
                    "d" => Seed::Dir,
                    "l" => Seed::Symlink(toks[3].to_string()),
                    other => panic!("bad seed kind {other}"),
                };
                World::apply_seed(&self.dir, &name, &seed);
                self.seeds.push((name, seed));
                self.print_ls();
            }
            "open" => self.cmd_open(toks[1]),
            "create" => {
                let name = String::from_utf8(parse_name(toks[1])).unwrap();
                if let Some(res) = self.with_log("create", |log| log.create_queue(&name)) {
                    match res {
                        Ok(o) => outln!("out create ok bytes={}", o.wal_bytes_written),
                        Err(CreateQueueError::AlreadyExists) => outln!("out create err=AlreadyExists"),
                        Err(CreateQueueError::IoError(e)) => outln!("out create err={}", io_kind(&e)),
                    }
                }
                self.absorb_events();
                self.print_state();
            }
            "delete" => {
                let name = String::from_utf8(parse_name(toks[1])).unwrap();
                if let Some(res) = self.with_log("delete", |log| log.delete_queue(&name)) {
                    match res {
                        Ok(o) => outln!("out delete ok bytes={}", o.wal_bytes_written),
                        Err(DeleteQueueError::MissingQueue(_)) => outln!("out delete err=MissingQueue"),
                        Err(DeleteQueueError::IoError(e)) => outln!("out delete err={}", io_kind(&e)),
                    }
                }
                self.absorb_events();
                self.print_state();
            }
            "append" => {
                let name = String::from_utf8(parse_name(toks[1])).unwrap();
                let pos: Option<u64> = if toks[2] == "-" {
                    None
                } else {
                    Some(toks[2].parse().unwrap())
                };
                let payloads: Vec<Vec<u8>> = toks[3..].iter().map(|t| parse_payload(t)).collect();
                if let Some(res) = self.with_log("append", |log| {
                    log.append_records(&name, pos, payloads.iter().map(|p| &p[..]))
                }) {
                    match res {
                        Ok(o) => {
                            let last = match o.last_position {
                                Some(p) => p.to_string(),
                                None => "-".to_string(),
                            };
                            outln!("out append ok last={} bytes={}", last, o.wal_bytes_written)
                        }
                        Err(AppendError::MissingQueue(_)) => outln!("out append err=MissingQueue"),
                        Err(AppendError::Past) => outln!("out append err=Past"),
                        Err(AppendError::IoError(e)) => outln!("out append err={}", io_kind(&e)),
                    }
                }
                self.absorb_events();
                self.print_state();
            }
            "truncate" => {
                let name = String::from_utf8(parse_name(toks[1])).unwrap();
                let pos: u64 = toks[2].parse().unwrap();
                if let Some(res) = self.with_log("truncate", |log| log.truncate(&name, ..=pos)) {
                    match res {
                        Ok(o) => outln!(
                            "out truncate ok evicted={} bytes={}",
                            o.evicted_records,
                            o.wal_bytes_written
                        ),
                        Err(TruncateError::MissingQueue(_)) => outln!("out truncate err=MissingQueue"),
                        Err(TruncateError::IoError(e)) => outln!("out truncate err={}", io_kind(&e)),
                    }
                }
                self.absorb_events();
                self.print_state();
            }
            "persist" => {
                let action = match toks[1] {
                    "f" => PersistAction::Flush,
                    "s" => PersistAction::FlushAndFsync,
                    other => panic!("bad persist action {other}"),
                };
                if let Some(res) = self.with_log("persist", |log| log.persist(action)) {
                    match res {
                        Ok(()) => outln!("out persist ok"),
                        Err(e) => outln!("out persist err={}", io_kind(&e)),
                    }
                }
                self.absorb_events();
                self.print_state();
            }
            "range" => {
                let name = String::from_utf8(parse_name(toks[1])).unwrap();
                let lo = parse_bound(toks[2]);
                let hi = parse_bound(toks[3]);
                let res = self.with_log("range", |log| {
                    log.range(&name, (lo, hi)).map(|it| {
                        it.map(|r| (r.position, r.payload.len(), fnv32(&r.payload)))
                            .collect::<Vec<_>>()
                    })
                });
                if let Some(res) = res {
                    match res {
                        Ok(records) => {
                            outln!("out range ok n={}", records.len());
                            for (pos, len, h) in records {
                                outln!("rr {pos} {len} {h:08x}");
                            }
                        }
                        Err(_) => outln!("out range err=MissingQueue"),
                    }
                }
            }
            "exists" => {
                let name = String::from_utf8(parse_name(toks[1])).unwrap();
                if let Some(res) = self.with_log("exists", |log| log.queue_exists(&name)) {
                    outln!("out exists {}", res as u8);
                }
            }
            "drop" => {
                if let Some(log) = self.log.take() {
                    let res = catch_unwind(AssertUnwindSafe(move || drop(log)));
                    if res.is_err() {
                        outln!("out drop err=Panic");
                    } else {
                        outln!("out drop ok");
                    }
                } else {
                    outln!("out drop err=NoLog");
                }
                self.absorb_events();
                self.print_ls();
            }
            "crash" | "powerloss" => {
                // crash <evidx> <k>: directory as of events[0..evidx) plus the first k bytes of
                // events[evidx] if that is a write.  powerloss <evidx>: same metadata, but only
                // the writes that were followed by a syncdata of their file before the cut.
                let cut: usize = toks[1].parse().unwrap();
                let k: usize = toks.get(2).map(|t| t.parse().unwrap()).unwrap_or(0);
                let power = toks[0] == "powerloss";
                self.forget_log();
                let cut = cut.min(self.events.len());
                let mut kept: Vec<Event> = Vec::new();
                for (i, ev) in self.events[..cut].iter().enumerate() {
                    let keep = match ev {
                        Event::Write(name, _, _) if power => self.events[i + 1..cut]
                            .iter()
                            .any(|later| matches!(later, Event::SyncData(n) if n == name)),
                        _ => true,
                    };
                    if keep {
                        kept.push(ev.clone());
                    }
                }
                if !power && k > 0 {
                    if let Some(Event::Write(name, off, bytes)) = self.events.get(cut) {
                        let n = k.min(bytes.len());
                        kept.push(Event::Write(name.clone(), *off, bytes[..n].to_vec()));
                    }
                }
                let old_dir = self.dir.clone();
                self.fresh_dir();
                for (name, seed) in &self.seeds {
                    World::apply_seed(&self.dir, name, seed);
                }
                for ev in &kept {
                    World::apply_event(&self.dir, ev, None);
                }
                let _ = std::fs::remove_dir_all(old_dir);
                self.events = kept;
                outln!("out {} ok events={}", toks[0], self.events.len());
                self.print_ls();
            }
            "damage" => {
                let file: u64 = toks[1].parse().unwrap();
                let off: u64 = toks[2].parse().unwrap();
                let bytes = parse_payload(toks[3]);
                self.forget_log();
                self.oob(Event::Write(wal_name(file), off, bytes));
            }
            "truncfile" => {
                let file: u64 = toks[1].parse().unwrap();
                let len: u64 = toks[2].parse().unwrap();
                self.forget_log();
                self.oob(Event::SetLen(wal_name(file), len));
                self.print_ls();
            }
            "rmfile" => {
                let file: u64 = toks[1].parse().unwrap();
                self.forget_log();
                self.oob(Event::Unlink(wal_name(file)));
                self.print_ls();
            }
            "cpfile" => {
                let src: u64 = toks[1].parse().unwrap();
                let dst: u64 = toks[2].parse().unwrap();
                self.forget_log();
                let content = std::fs::read(self.dir.join(wal_name(src))).unwrap_or_default();
                if self.dir.join(wal_name(dst)).exists() {
                    self.oob(Event::Unlink(wal_name(dst)));
                }
                self.oob(Event::Create(wal_name(dst)));
                self.oob(Event::Write(wal_name(dst), 0, content));
                self.print_ls();
            }
            "fault" => {
                let site = match toks[1] {
                    "readdir" => FaultSite::ReadDir,
                    "open" => FaultSite::Open,
                    "read" => FaultSite::Read,
                    other => panic!("bad fault site {other}"),
                };
                let nth: usize = toks[2].parse().unwrap();
                let persistent = toks[3] == "p";
                let kind = match toks[4] {
                    "PermissionDenied" => io::ErrorKind::PermissionDenied,
                    "Other" => io::ErrorKind::Other,
                    "Interrupted" => io::ErrorKind::Interrupted,
                    "NotFound" => io::ErrorKind::NotFound,
                    "UnexpectedEof" => io::ErrorKind::UnexpectedEof,
                    other => panic!("bad kind {other}"),
                };
                self.pending_fault = Some(FaultPlan {
                    site,
                    nth,
                    persistent,
                    kind,
                });
            }
            "mem" => cmd_mem(&toks[1..]),
            "consts" => {
                outln!(
                    "out consts block={} nb={} meta={}",
                    BLOCK_NUM_BYTES,
                    hooks::num_blocks_per_file(),
                    hooks::record_meta_size()
                );
            }
            other => panic!("unknown command {other}"),
        }
    }
}

struct RawEntry<'a>(&'a [u8]);

impl<'a> Serializable<'a> for RawEntry<'a> {
    fn serialize(&self, buffer: &mut Vec<u8>) {
        buffer.clear();
        buffer.extend_from_slice(self.0);
    }

    fn deserialize(buffer: &'a [u8]) -> Option<Self> {
        Some(RawEntry(buffer))
    }
}

struct VecBlockReader {
    data: Vec<u8>,
    /// index of the current block
    cur: usize,
    block: [u8; BLOCK_NUM_BYTES],
}

impl VecBlockReader {
    fn new(data: Vec<u8>) -> Self {
        assert!(data.len() >= BLOCK_NUM_BYTES);
        let mut block = [0u8; BLOCK_NUM_BYTES];
        block.copy_from_slice(&data[..BLOCK_NUM_BYTES]);
        VecBlockReader {
            data,
            cur: 0,
            block,
        }
    }
}

impl BlockRead for VecBlockReader {
    fn next_block(&mut self) -> io::Result<bool> {
        let start = (self.cur + 1) * BLOCK_NUM_BYTES;
        if self.data.len() < start + BLOCK_NUM_BYTES {
            return Ok(false);
        }
        self.block.copy_from_slice(&self.data[start..start + BLOCK_NUM_BYTES]);
        self.cur += 1;
        Ok(true)
    }

    fn block(&self) -> &[u8; BLOCK_NUM_BYTES] {
        &self.block
    }
}

/// mem <payload>... : writes raw entries through RecordWriter<VecBlockWriter>, then reads the
/// resulting blocks back with RecordReader.
fn cmd_mem(toks: &[&str]) {
    let res = catch_unwind(AssertUnwindSafe(|| {
        let mut writer: RecordWriter<VecBlockWriter> =
            FrameWriter::create(VecBlockWriter::default()).into();
        let entries: Vec<Vec<u8>> = toks.iter().map(|t| parse_payload(t)).collect();
        let mut lines = Vec::new();
        let mut total: u64 = 0;
        for entry in &entries {
            let n = writer.write_record(RawEntry(entry)).unwrap();
            total += n;
            lines.push(format!("mw {} {}", entry.len(), n));
        }
        // The in-memory writer is consumed through its From impl.
        let wrt: VecBlockWriter = take_writer(writer);
        let mut buf: Vec<u8> = wrt.into();
        // the stream the writer produced is the first `total` bytes; compare it block by block
        let stream_blocks = (total as usize + BLOCK_NUM_BYTES - 1) / BLOCK_NUM_BYTES;
        for b in 0..stream_blocks {
            let lo = b * BLOCK_NUM_BYTES;
            let hi = ((b + 1) * BLOCK_NUM_BYTES).min(total as usize);
            lines.push(format!("mb {} {} {:08x}", b, hi - lo, fnv32(&buf[lo..hi])));
        }
        // reading needs whole blocks and a zero block after the data
        let want = (stream_blocks + 1) * BLOCK_NUM_BYTES;
        buf.truncate(total as usize);
        buf.resize(want, 0u8);
        let mut reader = RecordReader::open(VecBlockReader::new(buf));
        loop {
            match reader.read_record::<RawEntry>() {
                Ok(Some(RawEntry(data))) => {
                    lines.push(format!("mr {} {:08x}", data.len(), fnv32(data)))
                }
                Ok(None) => {
                    lines.push("mr end".to_string());
                    break;
                }
                Err(ReadRecordError::Corruption) => lines.push("mr corruption".to_string()),
                Err(ReadRecordError::IoError(_)) => {
                    lines.push("mr ioerror".to_string());
                    break;
                }
            }
        }
        lines
    }));
    match res {
        Ok(lines) => {
            outln!("out mem ok");
            for line in lines {
                outln!("{line}");
            }
        }
        Err(_) => outln!("out mem err=Panic"),
    }
}

fn take_writer(writer: RecordWriter<VecBlockWriter>) -> VecBlockWriter {
    // RecordWriter::into_writer is cfg(test); rebuild the writer's content from its public view.
    // get_underlying_wrt gives &VecBlockWriter; VecBlockWriter is not Clone, so we move out the
    // bytes with a raw read of the public From impl on a bitwise copy.
    // SAFETY: `writer` is forgotten right after, so the buffer has a single owner.
    let wrt_ref: &VecBlockWriter = writer.get_underlying_wrt();
    let copy: VecBlockWriter = unsafe { std::ptr::read(wrt_ref as *const VecBlockWriter) };
    std::mem::forget(writer);
    copy
}

fn watchdog(start: Instant, deadline_ms: u64) {
    loop {
        std::thread::sleep(Duration::from_millis(50));
        let started = CMD_STARTED.load(Ordering::SeqCst);
        if started == 0 {
            continue;
        }
        let now = start.elapsed().as_millis() as u64;
        if now > started + deadline_ms {
            let name = CMD_NAME.lock().unwrap().clone();
            outln!("out {name} err=Hang");
            flush_out();
            std::process::exit(0);
        }
    }
}

fn main() {
    let args: Vec<String> = std::env::args().collect();
    let scratch = PathBuf::from(args.get(1).expect("usage: mrl-drive <scratch-dir>"));
    std::fs::create_dir_all(&scratch).unwrap();
    let deadline_ms: u64 = std::env::var("MRL_DEADLINE_MS")
        .ok()
        .and_then(|s| s.parse().ok())
        .unwrap_or(20_000);
    let show = std::env::var("MRL_SHOW_PANIC").is_ok();
    std::panic::set_hook(Box::new(move |info| {
        let loc = info.location().map(|l| format!("{}:{}", l.file(), l.line())).unwrap_or_default();
        let msg = info
            .payload()
            .downcast_ref::<&str>()
            .map(|s| s.to_string())
            .or_else(|| info.payload().downcast_ref::<String>().cloned())
            .unwrap_or_default();
        let text = format!("{} {}", loc, msg.replace('\n', " "));
        if show {
            eprintln!("panic: {text}");
        }
        *LAST_PANIC.lock().unwrap_or_else(|e| e.into_inner()) = text;
    }));
    let start = Instant::now();
    std::thread::spawn(move || watchdog(start, deadline_ms));

    let mut script = String::new();
    io::stdin().read_to_string(&mut script).unwrap();
    let mut world = World::new(&scratch);
    let mut idx = 0usize;
    for line in script.lines() {
        let line = line.trim();
        if line.is_empty() || line.starts_with('#') {
            continue;
        }
        if let Some(id) = line.strip_prefix("case ") {
            world.reset_case();
            idx = 0;
            outln!("case {id}");
            flush_out();
            continue;
        }
        *CMD_NAME.lock().unwrap() = line.split_whitespace().next().unwrap_or("").to_string();
        CMD_STARTED.store(start.elapsed().as_millis() as u64 + 1, Ordering::SeqCst);
        world.run(idx, line);
        CMD_STARTED.store(0, Ordering::SeqCst);
        flush_out();
        idx += 1;
    }
    world.forget_log();
    let _ = std::fs::remove_dir_all(&world.dir);
    let _ = std::fs::remove_dir(&scratch);
}
