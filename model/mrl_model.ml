(* mrl_model.ml — runs the Coq model (extracted to Model) on the same scripts as mrl-drive and
   prints the same transcript. Hand-written glue: parsing, printing, hashing, payload
   generation. Everything that decides behaviour is extracted code. *)
open Model

let bs = ref 32768
let nb = ref 4
let rms = ref 24
let legacy_gc = ref false
let legacy_io = ref false
let legacy_short = ref false

(* ---------- conversions ---------- *)
let rec pos_of_int (i : int) : positive =
  if i = 1 then XH
  else if i land 1 = 0 then XO (pos_of_int (i lsr 1))
  else XI (pos_of_int (i lsr 1))

let n_of_int (i : int) : n = if i = 0 then N0 else Npos (pos_of_int i)

let rec int_of_pos (p : positive) : int =
  match p with XH -> 1 | XO q -> 2 * int_of_pos q | XI q -> 2 * int_of_pos q + 1

let int_of_n (x : n) : int = match x with N0 -> 0 | Npos p -> int_of_pos p

(* u64 values do not fit OCaml's 63-bit ints: decimal strings <-> N through Z-free bignum ops *)
let n_of_string (s : string) : n =
  (* s is a decimal string; build N by repeated *10 + d using extracted N.add / N.mul *)
  let ten = n_of_int 10 in
  let acc = ref N0 in
  String.iter
    (fun c ->
      let d = Char.code c - 48 in
      if d < 0 || d > 9 then failwith ("bad number " ^ s);
      acc := N.add (N.mul !acc ten) (n_of_int d))
    s;
  !acc

let string_of_n (x : n) : string =
  match x with
  | N0 -> "0"
  | _ ->
      let ten = n_of_int 10 in
      let buf = Buffer.create 20 in
      let rec go x acc =
        match x with
        | N0 -> acc
        | _ ->
            let q = N.div x ten and r = N.modulo x ten in
            go q (Char.chr (48 + int_of_n r) :: acc)
      in
      List.iter (Buffer.add_char buf) (go x []);
      Buffer.contents buf

(* Coq's byte is an enumeration of 256 constant constructors in order: immediate ints *)
let byte_of_int (i : int) : byte = Obj.magic (i land 255)
let int_of_byte (b : byte) : int = (Obj.magic b : int)

let () =
  for i = 0 to 255 do
    if int_of_n (b2n (byte_of_int i)) <> i then failwith "byte representation self-test failed"
  done

let bytes_of_string (s : string) : byte list =
  let rec go i acc = if i < 0 then acc else go (i - 1) (byte_of_int (Char.code s.[i]) :: acc) in
  go (String.length s - 1) []

let string_of_bytes (l : byte list) : string =
  let buf = Buffer.create 64 in
  List.iter (fun b -> Buffer.add_char buf (Char.chr (int_of_byte b))) l;
  Buffer.contents buf

let hex_of_bytes (l : byte list) : string =
  let buf = Buffer.create 64 in
  List.iter (fun b -> Buffer.add_string buf (Printf.sprintf "%02x" (int_of_byte b))) l;
  Buffer.contents buf

let unhex (s : string) : byte list =
  if s = "-" then []
  else begin
    let n = String.length s / 2 in
    let rec go i acc =
      if i < 0 then acc
      else go (i - 1) (byte_of_int (int_of_string ("0x" ^ String.sub s (2 * i) 2)) :: acc)
    in
    go (n - 1) []
  end

let fnv32 (l : byte list) : int =
  List.fold_left (fun h b -> ((h lxor int_of_byte b) * 16777619) land 0xFFFFFFFF) 0x811c9dc5 l

let show_name (name : byte list) : string =
  let len = List.length name in
  if len <= 32 then "x" ^ hex_of_bytes name else Printf.sprintf "L%d:%08x" len (fnv32 name)

let gen_payload (len : int) (seed : int) : byte list =
  let rec go i acc =
    if i < 0 then acc
    else go (i - 1) (byte_of_int (((seed * 131) + (i * 7) + (i / 256 * 13)) mod 251) :: acc)
  in
  go (len - 1) []

let gen_name (len : int) (seed : int) : byte list =
  let rec go i acc =
    if i < 0 then acc else go (i - 1) (byte_of_int (97 + ((seed + (i * 7) + (i / 26)) mod 26)) :: acc)
  in
  go (len - 1) []

let split_colon (s : string) : string * string =
  match String.index_opt s ':' with
  | Some i -> (String.sub s 0 i, String.sub s (i + 1) (String.length s - i - 1))
  | None -> failwith ("expected a:b in " ^ s)

let parse_name (tok : string) : byte list =
  let rest = String.sub tok 1 (String.length tok - 1) in
  match tok.[0] with
  | '=' -> bytes_of_string rest
  | '@' ->
      let l, s = split_colon rest in
      gen_name (int_of_string l) (int_of_string s)
  | 'x' -> unhex rest
  | _ -> failwith ("bad name token " ^ tok)

let parse_payload (tok : string) : byte list =
  if tok.[0] = 'x' then unhex (String.sub tok 1 (String.length tok - 1))
  else
    let l, s = split_colon tok in
    gen_payload (int_of_string l) (int_of_string s)

let parse_policy (tok : string) : policy * bool =
  match tok with
  | "af" -> (PAlways false, false)
  | "as" -> (PAlways true, false)
  | "no" -> (PNothing, false)
  | "d0f" -> (PDelay false, true)
  | "d0s" -> (PDelay true, true)
  | "dif" -> (PDelay false, false)
  | "dis" -> (PDelay true, false)
  | _ -> failwith ("bad policy " ^ tok)

let parse_bound (tok : string) : bound =
  if tok = "u" then Unb
  else
    let v = n_of_string (String.sub tok 1 (String.length tok - 1)) in
    match tok.[0] with 'i' -> Incl v | 'e' -> Excl v | _ -> failwith ("bad bound " ^ tok)

let io_kind (e : ioerr) : string =
  match e with
  | IoUnexpectedEof -> "Io:UnexpectedEof"
  | IoAlreadyExists -> "Io:AlreadyExists"
  | IoNotFound -> "Io:NotFound"
  | IoPermissionDenied -> "Io:PermissionDenied"
  | IoOther -> "Io:Other"
  | IoInterrupted -> "Io:Interrupted"
  | IoIsADirectory -> "Io:IsADirectory"

let parse_kind (s : string) : ioerr =
  match s with
  | "PermissionDenied" -> IoPermissionDenied
  | "Other" -> IoOther
  | "Interrupted" -> IoInterrupted
  | "NotFound" -> IoNotFound
  | "UnexpectedEof" -> IoUnexpectedEof
  | _ -> failwith ("bad kind " ^ s)

(* ---------- printing ---------- *)
let params () : params =
  { bS = n_of_int !bs; nB = n_of_int !nb; crcf = crc32; rMS = n_of_int !rms;
    l_GC = !legacy_gc; l_IO = !legacy_io; l_SHORT = !legacy_short }

let print_event (idx : int) (e : event) : unit =
  match e with
  | EvReadDir -> Printf.printf "ev %d readdir\n" idx
  | EvCreate n -> Printf.printf "ev %d create %s\n" idx (string_of_bytes n)
  | EvOpenRw n -> Printf.printf "ev %d openrw %s\n" idx (string_of_bytes n)
  | EvSetLen (n, len) -> Printf.printf "ev %d setlen %s %s\n" idx (string_of_bytes n) (string_of_n len)
  | EvWrite (n, off, data) ->
      Printf.printf "ev %d write %s %s %d %08x\n" idx (string_of_bytes n) (string_of_n off)
        (List.length data) (fnv32 data)
  | EvRead (n, off, len, ok) ->
      Printf.printf "ev %d read %s %s %s %d\n" idx (string_of_bytes n) (string_of_n off)
        (string_of_n len) (if ok then 1 else 0)
  | EvFlush n -> Printf.printf "ev %d flush %s\n" idx (string_of_bytes n)
  | EvSyncData n -> Printf.printf "ev %d syncdata %s\n" idx (string_of_bytes n)
  | EvSyncDir -> Printf.printf "ev %d syncdir\n" idx
  | EvUnlink n -> Printf.printf "ev %d unlink %s\n" idx (string_of_bytes n)

let rec drop_list n l = if n <= 0 then l else match l with [] -> [] | _ :: r -> drop_list (n - 1) r

let print_new_events (old_count : int) (w : world) : unit =
  List.iteri (fun i e -> print_event (old_count + i) e) (drop_list old_count w.wd_events)

let print_ls (w : world) : unit =
  let entries =
    List.sort (fun (a, _) (b, _) -> compare (string_of_bytes a) (string_of_bytes b)) w.wd_fs
  in
  List.iter
    (fun (name, e) ->
      match e with
      | FFile b ->
          let len = List.length b in
          if len <= 4096 then Printf.printf "ls x%s f %d %08x\n" (hex_of_bytes name) len (fnv32 b)
          else Printf.printf "ls x%s f %d\n" (hex_of_bytes name) len
      | FDir -> Printf.printf "ls x%s d 0\n" (hex_of_bytes name)
      | FOther -> Printf.printf "ls x%s o 0\n" (hex_of_bytes name))
    entries

let print_state (w : world) : unit =
  (match w.wd_log with
  | None -> ()
  | Some st ->
      let p = params () in
      let qs = List.sort (fun (a, _) (b, _) -> compare (string_of_bytes a) (string_of_bytes b)) st.s_qs in
      List.iter
        (fun (name, q) ->
          let next = next_position q in
          let file = match first_file q.q_metas with Some f -> string_of_n f | None -> "-" in
          let records = mq_range q Unb Unb in
          Printf.printf "q %s start=%s next=%s file=%s n=%d\n" (show_name name)
            (string_of_n q.q_start) (string_of_n next) file (List.length records);
          List.iter
            (fun (pos, payload) ->
              Printf.printf "r %s %d %08x\n" (string_of_n pos) (List.length payload) (fnv32 payload))
            records;
          match mq_last_record q with
          | Some (pos, payload) ->
              Printf.printf "lr %s %d %08x\n" (string_of_n pos) (List.length payload) (fnv32 payload)
          | None -> print_string "lr -\n")
        qs;
      Printf.printf "use mem=%s allocok=1 disk=%s\n"
        (string_of_n (log_memory_used p st))
        (string_of_n (log_disk_used p st)));
  print_ls w

let print_outcome (name : string) (o : outcome) : unit =
  match o with
  | OutCreate n -> Printf.printf "out create ok bytes=%s\n" (string_of_n n)
  | OutDelete n -> Printf.printf "out delete ok bytes=%s\n" (string_of_n n)
  | OutAppend (last, n) ->
      Printf.printf "out append ok last=%s bytes=%s\n"
        (match last with Some p -> string_of_n p | None -> "-")
        (string_of_n n)
  | OutTruncate (ev, n) ->
      Printf.printf "out truncate ok evicted=%s bytes=%s\n" (string_of_n ev) (string_of_n n)
  | OutPersist -> print_string "out persist ok\n"
  | OutAlreadyExists -> Printf.printf "out %s err=AlreadyExists\n" name
  | OutMissing -> Printf.printf "out %s err=MissingQueue\n" name
  | OutPast -> Printf.printf "out %s err=Past\n" name
  | OutIo e -> Printf.printf "out %s err=%s\n" name (io_kind e)

exception Hang

let gc_hint (toks : string list) : byte list list =
  match List.find_opt (fun t -> String.length t >= 3 && String.sub t 0 3 = "gc=") toks with
  | None -> []
  | Some t ->
      let body = String.sub t 3 (String.length t - 3) in
      if body = "" then [] else List.map unhex (String.split_on_char ',' body)

let run_cmd (w : world ref) (idx : int) (line : string) : unit =
  let all_toks = List.filter (fun s -> s <> "") (String.split_on_char ' ' line) in
  let hint = gc_hint all_toks in
  let toks = List.filter (fun t -> not (String.length t >= 3 && String.sub t 0 3 = "gc=")) all_toks in
  let p = params () in
  let old_count = List.length !w.wd_events in
  let step c =
    let w', out = world_step p !w c in
    w := w';
    out
  in
  let nth = List.nth toks in
  let name = nth 0 in
  Printf.printf "# %d %s\n" idx name;
  let do_op opname o =
    (match step (COp o) with
    | WOp out -> print_outcome opname out
    | WNoLog -> Printf.printf "out %s err=NoLog\n" opname
    | _ -> failwith "unexpected wout");
    print_new_events old_count !w;
    print_state !w
  in
  match name with
  | "seedfile" ->
      let nm = unhex (nth 1) in
      let e =
        match nth 2 with
        | "f" -> FFile (unhex (nth 3))
        | "z" -> FFile (gen_payload 0 0 @ List.init (int_of_string (nth 3)) (fun _ -> byte_of_int 0))
        | "d" -> FDir
        | "l" -> FOther
        | k -> failwith ("bad seed kind " ^ k)
      in
      ignore (step (CSeed (nm, e)));
      print_ls !w
  | "open" ->
      let pol, tick = parse_policy (nth 1) in
      let out = step (COpen (pol, tick, hint)) in
      (match out with
      | WOpenOk -> print_string "out open ok\n"
      | WOpenIo e -> Printf.printf "out open err=%s\n" (io_kind e)
      | WOpenCorruption -> print_string "out open err=Corruption\n"
      | WOpenHang ->
          print_string "out open err=Hang\n";
          raise Hang
      | _ -> failwith "unexpected wout");
      print_new_events old_count !w;
      print_state !w
  | "create" -> do_op "create" (OCreate (parse_name (nth 1)))
  | "delete" -> do_op "delete" (ODelete (parse_name (nth 1), hint))
  | "append" ->
      let pos = if nth 2 = "-" then None else Some (n_of_string (nth 2)) in
      let payloads = List.map parse_payload (drop_list 3 toks) in
      do_op "append" (OAppend (parse_name (nth 1), pos, payloads))
  | "truncate" -> do_op "truncate" (OTruncate (parse_name (nth 1), n_of_string (nth 2), hint))
  | "persist" -> do_op "persist" (OPersist (nth 1 = "s"))
  | "range" -> (
      match !w.wd_log with
      | None -> print_string "out range err=NoLog\n"
      | Some st -> (
          match log_range st (parse_name (nth 1)) (parse_bound (nth 2)) (parse_bound (nth 3)) with
          | Some records ->
              Printf.printf "out range ok n=%d\n" (List.length records);
              List.iter
                (fun (pos, payload) ->
                  Printf.printf "rr %s %d %08x\n" (string_of_n pos) (List.length payload)
                    (fnv32 payload))
                records
          | None -> print_string "out range err=MissingQueue\n"))
  | "exists" -> (
      match !w.wd_log with
      | None -> print_string "out exists err=NoLog\n"
      | Some st ->
          Printf.printf "out exists %d\n"
            (match qs_get st.s_qs (parse_name (nth 1)) with Some _ -> 1 | None -> 0))
  | "drop" ->
      (match step CDrop with
      | WDropped -> print_string "out drop ok\n"
      | WNoLog -> print_string "out drop err=NoLog\n"
      | _ -> failwith "unexpected wout");
      print_new_events old_count !w;
      print_ls !w
  | "crash" | "powerloss" ->
      let cut = n_of_string (nth 1) in
      let k = if List.length toks > 2 then n_of_string (nth 2) else N0 in
      (match step (if name = "crash" then CCrash (cut, k) else CPower cut) with
      | WCrashed n -> Printf.printf "out %s ok events=%s\n" name (string_of_n n)
      | _ -> failwith "unexpected wout");
      print_ls !w
  | "damage" ->
      ignore (step (CDamage (n_of_string (nth 1), n_of_string (nth 2), parse_payload (nth 3))));
      print_new_events old_count !w
  | "truncfile" ->
      ignore (step (CTruncFile (n_of_string (nth 1), n_of_string (nth 2))));
      print_new_events old_count !w;
      print_ls !w
  | "rmfile" ->
      ignore (step (CRmFile (n_of_string (nth 1))));
      print_new_events old_count !w;
      print_ls !w
  | "cpfile" ->
      ignore (step (CCpFile (n_of_string (nth 1), n_of_string (nth 2))));
      print_new_events old_count !w;
      print_ls !w
  | "fault" ->
      let site =
        match nth 1 with
        | "readdir" -> SReadDir
        | "open" -> SOpen
        | "read" -> SRead
        | s -> failwith ("bad site " ^ s)
      in
      ignore
        (step
           (CFault
              { fp_site = site; fp_nth = n_of_string (nth 2); fp_persistent = nth 3 = "p";
                fp_kind = parse_kind (nth 4) }))
  | "mem" ->
      let entries = List.map parse_payload (drop_list 1 toks) in
      let (ns, written), reads = mem_roundtrip p entries in
      print_string "out mem ok\n";
      List.iter2
        (fun e n -> Printf.printf "mw %d %s\n" (List.length e) (string_of_n n))
        (List.filteri (fun i _ -> i < List.length ns) entries)
        ns;
      let total = List.length written in
      let arr = Array.of_list written in
      let nblocks = (total + !bs - 1) / !bs in
      for b = 0 to nblocks - 1 do
        let lo = b * !bs in
        let hi = min ((b + 1) * !bs) total in
        let h = ref 0x811c9dc5 in
        for i = lo to hi - 1 do
          h := ((!h lxor int_of_byte arr.(i)) * 16777619) land 0xFFFFFFFF
        done;
        Printf.printf "mb %d %d %08x\n" b (hi - lo) !h
      done;
      List.iter
        (fun r ->
          match r with
          | MrEntry b -> Printf.printf "mr %d %08x\n" (List.length b) (fnv32 b)
          | MrCorrupt -> print_string "mr corruption\n"
          | MrEnd -> print_string "mr end\n"
          | MrFuel -> print_string "mr fuel\n")
        reads
  | "digest" ->
      print_string "dg";
      List.iter (fun n -> print_string (" " ^ string_of_n n)) (world_digest !w);
      print_string "\n"
  | "consts" -> Printf.printf "out consts block=%d nb=%d meta=%d\n" !bs !nb !rms
  | other -> failwith ("unknown command " ^ other)

let () =
  let speclist =
    [ ("--bs", Arg.Set_int bs, "block size");
      ("--nb", Arg.Set_int nb, "blocks per file");
      ("--rms", Arg.Set_int rms, "size of RecordMeta");
      ("--legacy-gc", Arg.Set legacy_gc, "pre-fix GC persist");
      ("--legacy-io", Arg.Set legacy_io, "pre-fix replay loop");
      ("--legacy-short", Arg.Set legacy_short, "pre-fix short last file") ]
  in
  Arg.parse speclist (fun _ -> ()) "mrl-model [options] < script";
  let w = ref world_init in
  let idx = ref 0 in
  let skipping = ref false in
  (try
     while true do
       let line = String.trim (input_line stdin) in
       if line = "" || line.[0] = '#' then ()
       else if String.length line > 5 && String.sub line 0 5 = "case " then begin
         w := world_init;
         idx := 0;
         skipping := false;
         Printf.printf "case %s\n" (String.sub line 5 (String.length line - 5))
       end
       else if !skipping then ()
       else begin
         (try run_cmd w !idx line with Hang -> skipping := true);
         incr idx
       end
     done
   with End_of_file -> ());
  flush stdout
