#!/bin/bash
# Builds the Coq development (full .vo build) and the extracted OCaml model driver.
set -e
mkdir -p /verif/.cache
cd /verif/coq
python3 /verif/tools/gen_consts.py /verif/coq/Consts.v /verif/.cache/consts.json || echo "gen_consts failed"
[ -f Makefile ] || coq_makefile -f _CoqProject -o Makefile >/dev/null
timeout 5400 make -k -j16 2>&1 | grep -v "^COQDEP\|^COQC\|Nothing to be done\|^make" || true
cd /verif/model
if [ ! -f mrl-model ] || [ model.ml -ot /verif/coq/Driver.vo ] || [ mrl-model -ot mrl_model.ml ]; then
  timeout 600 coqc -Q /verif/coq MRL /verif/coq/Extract.v
  ocamlfind ocamlopt -O3 -w -a model.mli model.ml mrl_model.ml -o mrl-model 2>&1 | grep -v "^ocamlfind: \|options are only" || true
fi
