(* PropC09.v — C09: frame payload damage costs only the entry it hits (stream level: the record reader over the blocks the writer produced, any block size, any checksum function; 'damaged' = checksum and/or payload bytes of a frame replaced so that the CRC check fails, length and type intact).
   Statements only; each theorem is closed by `exact <lemma>`; proofs live in the imported files. *)
From Coq Require Import Lia NArith List.
From MRL Require Import Bytes Params Frame Driver StreamProofs DamageProofs.

(* one frame: a CRC failure leaves the reader exactly where the intact frame would have left it, without flagging the block *)
Theorem C09_bad_crc_frame :
    forall P : params,
    7 < BS P ->
    BS P <= 65542 ->
    (forall (t : byte) (p : bytes), crcf P t p < 2 ^ 32) ->
    forall (S : bytes) (fr : freader vecr) (a : N) (pre : list byte) (c4 : bytes)
    (t : ftype) (p' : bytes) (post : list byte),
    stream_ok P S ->
    at_pos P S fr a ->
    S = pre ++ pad_of P a ++ dframe c4 t p' ++ post ->
    lenN pre = a ->
    lenN c4 = 4 ->
    le_dec c4 <> crcf P (n2b (ft_code t)) p' ->
    lenN p' <= max_writable P (BS P - a mod BS P) ->
    exists fr' : freader vecr,
    read_frame P vecr (vr_next P) vr_block fr = (fr', FCorrupt) /\
    fr_corrupt fr' = false /\ at_pos P S fr' (a + lenN (pad_of P a) + 7 + lenN p').
Proof. exact read_frame_bad_crc_at. Qed.
Print Assumptions C09_bad_crc_frame.

(* from the writer: entries es1 ++ [x] ++ es2, one frame of x damaged in any way that fails the CRC: every other entry - earlier or later, same block or not - is read back intact, x is reported as one Corruption, reading does not stop *)
Theorem C09_one_damaged_entry :
    forall P : params,
    7 < BS P ->
    BS P <= 65542 ->
    (forall (t : byte) (p : bytes), crcf P t p < 2 ^ 32) ->
    forall (es1 : list bytes) (x : bytes) (es2 : list bytes) (w : vecw) (ns : list N),
    mem_write_all P {| vw_cursor := 0; vw_buf := [] |} (es1 ++ [x] ++ es2) = (w, ns) ->
    exists (t1 ex0 : list byte) (k : nat) (t2 : list byte),
    vw_buf w = t1 ++ ex0 ++ t2 /\
    enc_rel P (lenN t1) true x ex0 k /\
    (forall ed : bytes,
    enc_dmg P (lenN t1) true x ex0 ed k ->
    lenN ed = lenN ex0 /\
    mem_read_stream P (mem_stream P (t1 ++ ed ++ t2)) =
    map MrEntry es1 ++ [MrCorrupt] ++ map MrEntry es2 ++ [MrEnd]).
Proof. exact C09_one_damaged_entry. Qed.
Print Assumptions C09_one_damaged_entry.

(* any number of damaged frames in any entries: the entries delivered are exactly the intact ones, in order (a subsequence of what was written), one Corruption per damaged frame *)
Theorem C09_general :
    forall P : params,
    7 < BS P ->
    BS P <= 65542 ->
    (forall (t : byte) (p : bytes), crcf P t p < 2 ^ 32) ->
    forall (pxs : list (bytes * list fspec)) (t : bytes),
    encs_any P 0 pxs t ->
    exists t0 : bytes,
    encs_rel P 0 (map fst pxs) t0 /\
    lenN t0 = lenN t /\
    (let out := mem_read_stream P (mem_stream P t) in
    out = flat_map (entry_out P) pxs ++ [MrEnd] /\
    delivered out = map fst (filter (intact P) pxs) /\
    sublist (delivered out) (map fst pxs) /\
    corruptions out =
    fold_right PeanoNat.Nat.add 0%nat (map (fun px : bytes * list fspec => countbad P (snd px)) pxs)).
Proof. exact C09_general. Qed.
Print Assumptions C09_general.

(* non-vacuity: every encoding has a damaged version *)
Theorem C09_damage_exists :
    forall P : params,
    7 < BS P ->
    BS P <= 65542 ->
    (forall (t : byte) (p : bytes), crcf P t p < 2 ^ 32) ->
    forall (a : N) (f : bool) (p e : bytes) (k : nat),
    enc_rel P a f p e k -> exists e' : bytes, enc_dmg P a f p e e' k.
Proof. exact enc_dmg_exists. Qed.
Print Assumptions C09_damage_exists.

