(* PropC09.v — C09: frame payload damage costs only the entry it hits (stream level: the record reader over the blocks the writer produced, any block size, any checksum function; 'damaged' = checksum and/or payload bytes of a frame replaced so that the CRC check fails, length and type intact).
   Statements only; each theorem is closed by `exact <lemma>`; proofs live in the imported files. *)
From Coq Require Import Lia NArith List.
From MRL Require Import Bytes Params Names Frame Record Mem Rolling Log Driver StreamProofs DamageProofs ReplaySpec DeletionSim GhostLog OpenReplay DamageFile RestartInv RestartFinal DamageAtomic.

(* THE PROPERTY, end to end: from any state satisfying the global invariant (any history with restarts), after a clean drop, with the checksum/payload bytes of one frame of entry X damaged so that its CRC fails: open succeeds and every retained record that was not appended by X is still there, same position, same payload *)
Theorem C09_damage_costs_one_entry :
    forall P : params,
    7 < BS P ->
    BS P <= 65542 ->
    1 <= NB P ->
    (forall (t : byte) (p : bytes), crcf P t p < 2 ^ 32) ->
    L_GC P = false ->
    L_IO P = false ->
    forall (st : state) (G : ghost) (i : nat) (X : entry) (ex0 ed : bytes) (k : nat) (fs_d : fsT),
    Inv P st G ->
    damaged_dir P st G i X ex0 ed k fs_d ->
    dmg_bound P st G ->
    forall (pol : policy) (hint : list bytes),
    exists st_r : state,
    open P fs_d None pol hint = OpenOk st_r /\
    SpecRefine.qs_inv (s_qs st_r) /\
    (forall (q : bytes) (m : mq) (pos : N) (payload : bytes),
    qs_get (s_qs st) q = Some m ->
    In (pos, payload) (records_of (q_buf m) (q_metas m)) ->
    ~ appended_by X q (pos, payload) ->
    exists m' : mq,
    qs_get (s_qs st_r) q = Some m' /\ In (pos, payload) (records_of (q_buf m') (q_metas m'))).
Proof. exact C09_damage_costs_one_entry. Qed.
Print Assumptions C09_damage_costs_one_entry.

(* the same from a fresh directory after any hist_ok history *)
Theorem C09_from_fresh :
    forall P : params,
    7 < BS P ->
    BS P <= 65542 ->
    1 <= NB P ->
    (forall (t : byte) (p : bytes), crcf P t p < 2 ^ 32) ->
    L_GC P = false ->
    L_IO P = false ->
    forall (pol0 : policy) (st0 : state) (h : list hop) (st : state) (outs : list outcome),
    open P [] None pol0 [] = OpenOk st0 ->
    hrun P st0 h = Some (st, outs) ->
    hist_ok P st0 h ->
    exists G : ghost,
    Inv P st G /\
    gh_base G = 0 /\
    (forall (i : nat) (X : entry) (ex0 ed : bytes) (k : nat) (fs_d : fsT),
    damaged_dir P st G i X ex0 ed k fs_d ->
    dmg_bound P st G ->
    forall (pol : policy) (hint : list bytes),
    exists st_r : state,
    open P fs_d None pol hint = OpenOk st_r /\
    SpecRefine.qs_inv (s_qs st_r) /\
    (forall (q : bytes) (m : mq) (pos : N) (payload : bytes),
    qs_get (s_qs st) q = Some m ->
    In (pos, payload) (records_of (q_buf m) (q_metas m)) ->
    ~ appended_by X q (pos, payload) ->
    exists m' : mq,
    qs_get (s_qs st_r) q = Some m' /\ In (pos, payload) (records_of (q_buf m') (q_metas m')))).
Proof. exact C09_from_fresh. Qed.
Print Assumptions C09_from_fresh.

(* non-vacuity: for every entry in the kept files such a damaged directory exists *)
Theorem C09_damaged_dir_exists :
    forall P : params,
    7 < BS P ->
    BS P <= 65542 ->
    1 <= NB P ->
    (forall (t : byte) (p : bytes), crcf P t p < 2 ^ 32) ->
    forall (st : state) (G : ghost) (i : nat) (X : entry) (fX : N),
    Inv P st G ->
    nth_error (gh_E G) i = Some (fX, X) ->
    exists (ex0 ed : bytes) (k : nat) (fs_d : fsT), damaged_dir P st G i X ex0 ed k fs_d.
Proof. exact damaged_dir_exists. Qed.
Print Assumptions C09_damaged_dir_exists.

(* one frame: a CRC failure leaves the reader exactly where the intact frame would have left it, without flagging the block *)
Theorem C09_bad_crc_frame :
    forall P : params,
    7 < BS P ->
    BS P <= 65542 ->
    (forall (t : byte) (p : bytes), crcf P t p < 2 ^ 32) ->
    forall (S : bytes) (fr : freader vecr) (a : N) (pre : list byte) (c4 : bytes)
    (t : ftype) (p' : bytes) (post : list byte),
    stream_ok P S ->
    at_pos P S fr a ->
    S = pre ++ pad_of P a ++ dframe c4 t p' ++ post ->
    lenN pre = a ->
    lenN c4 = 4 ->
    le_dec c4 <> crcf P (n2b (ft_code t)) p' ->
    lenN p' <= max_writable P (BS P - a mod BS P) ->
    exists fr' : freader vecr,
    read_frame P vecr (vr_next P) vr_block fr = (fr', FCorrupt) /\
    fr_corrupt fr' = false /\ at_pos P S fr' (a + lenN (pad_of P a) + 7 + lenN p').
Proof. exact read_frame_bad_crc_at. Qed.
Print Assumptions C09_bad_crc_frame.

(* from the writer: entries es1 ++ [x] ++ es2, one frame of x damaged in any way that fails the CRC: every other entry - earlier or later, same block or not - is read back intact, x is reported as one Corruption, reading does not stop *)
Theorem C09_one_damaged_entry :
    forall P : params,
    7 < BS P ->
    BS P <= 65542 ->
    (forall (t : byte) (p : bytes), crcf P t p < 2 ^ 32) ->
    forall (es1 : list bytes) (x : bytes) (es2 : list bytes) (w : vecw) (ns : list N),
    mem_write_all P {| vw_cursor := 0; vw_buf := [] |} (es1 ++ [x] ++ es2) = (w, ns) ->
    exists (t1 ex0 : list byte) (k : nat) (t2 : list byte),
    vw_buf w = t1 ++ ex0 ++ t2 /\
    enc_rel P (lenN t1) true x ex0 k /\
    (forall ed : bytes,
    enc_dmg P (lenN t1) true x ex0 ed k ->
    lenN ed = lenN ex0 /\
    mem_read_stream P (mem_stream P (t1 ++ ed ++ t2)) =
    map MrEntry es1 ++ [MrCorrupt] ++ map MrEntry es2 ++ [MrEnd]).
Proof. exact C09_one_damaged_entry. Qed.
Print Assumptions C09_one_damaged_entry.

(* any number of damaged frames in any entries: the entries delivered are exactly the intact ones, in order (a subsequence of what was written), one Corruption per damaged frame *)
Theorem C09_general :
    forall P : params,
    7 < BS P ->
    BS P <= 65542 ->
    (forall (t : byte) (p : bytes), crcf P t p < 2 ^ 32) ->
    forall (pxs : list (bytes * list fspec)) (t : bytes),
    encs_any P 0 pxs t ->
    exists t0 : bytes,
    encs_rel P 0 (map fst pxs) t0 /\
    lenN t0 = lenN t /\
    (let out := mem_read_stream P (mem_stream P t) in
    out = flat_map (entry_out P) pxs ++ [MrEnd] /\
    delivered out = map fst (filter (intact P) pxs) /\
    DamageProofs.sublist (delivered out) (map fst pxs) /\
    corruptions out =
    fold_right PeanoNat.Nat.add 0%nat (map (fun px : bytes * list fspec => countbad P (snd px)) pxs)).
Proof. exact C09_general. Qed.
Print Assumptions C09_general.

(* non-vacuity: every encoding has a damaged version *)
Theorem C09_damage_exists :
    forall P : params,
    7 < BS P ->
    BS P <= 65542 ->
    (forall (t : byte) (p : bytes), crcf P t p < 2 ^ 32) ->
    forall (a : N) (f : bool) (p e : bytes) (k : nat),
    enc_rel P a f p e k -> exists e' : bytes, enc_dmg P a f p e e' k.
Proof. exact enc_dmg_exists. Qed.
Print Assumptions C09_damage_exists.

(* through the files and open: with one entry X damaged (any frame, CRC fails), open replays exactly the other entries lying in the kept files, in order, and the end of the log does not move *)
Theorem C09_open_one_damaged :
    forall P : params,
    7 < BS P ->
    BS P <= 65542 ->
    1 <= NB P ->
    (forall (t : byte) (p : bytes), crcf P t p < 2 ^ 32) ->
    forall (fs : fsT) (lo : N) (n : nat),
    (forall f : N,
    In f (GcProofs.iota lo (S n)) ->
    exists b : bytes, fs_get fs (filename f) = Some (FFile b) /\ lenN b = FILE_BYTES P) ->
    forall (base : N) (E1 : list entry) (X : entry) (E2 : list entry) (t1 ex0 ed : bytes)
    (k : nat) (t2 : bytes) (z : N) (pol : policy) (hint : list bytes),
    L_IO P = false ->
    base <= lo ->
    list_wal_numbers fs = GcProofs.iota lo (S n) ->
    Forall RecordProofs.wf_entry (E1 ++ X :: E2) ->
    encs_rel P 0 (map entry_ser E1) t1 ->
    enc_dmg P (lenN t1) true (entry_ser X) ex0 ed k ->
    encs_rel P (lenN t1 + lenN ex0) (map entry_ser E2) t2 ->
    FileStream.stream_of fs (GcProofs.iota lo (S n)) =
    dropN ((lo - base) * FILE_BYTES P) ((t1 ++ ed ++ t2) ++ zerosN z) ->
    lenN ((t1 ++ ed ++ t2) ++ zerosN z) = (lo + N.of_nat n - base + 1) * FILE_BYTES P ->
    let b := (lo - base) * FILE_BYTES P in
    b <= ResyncProofs.first_frame_pos P (lenN t1) ->
    exists (w0 : rwriter) (tags : list N) (E1_pre E1_suf : list entry),
    E1 = E1_pre ++ E1_suf /\
    map entry_ser E1_pre = ResyncProofs.skipped_before P b 0 (map entry_ser (E1 ++ X :: E2)) /\
    map entry_ser (E1_suf ++ X :: E2) =
    ResyncProofs.delivered_from P b 0 (map entry_ser (E1 ++ X :: E2)) /\
    lenN (t1 ++ ed ++ t2) = lenN (t1 ++ ex0 ++ t2) /\
    dmg_spec P fs lo n base w0 tags
    (ResyncProofs.starts P (ResyncProofs.cursor_after P 0 (map entry_ser E1_pre))
    (map entry_ser E1_suf) ++ ResyncProofs.starts P (lenN t1 + lenN ex0) (map entry_ser E2))
    (N.max b (lenN (t1 ++ ex0 ++ t2))) /\
    match replay_entries [] (combine tags (E1_suf ++ E2)) with
    | Some qs => open P fs None pol hint = open_finish P w0 qs pol hint
    | None => exists c : ioctx, open P fs None pol hint = OpenCorruption c
    end.
Proof. exact open_one_damaged. Qed.
Print Assumptions C09_open_one_damaged.

(* any number of damaged frames: open replays exactly the entries all of whose frames are intact *)
Theorem C09_open_damaged :
    forall P : params,
    7 < BS P ->
    BS P <= 65542 ->
    1 <= NB P ->
    (forall (t : byte) (p : bytes), crcf P t p < 2 ^ 32) ->
    forall (fs : fsT) (lo : N) (n : nat),
    (forall f : N,
    In f (GcProofs.iota lo (S n)) ->
    exists b : bytes, fs_get fs (filename f) = Some (FFile b) /\ lenN b = FILE_BYTES P) ->
    forall (base : N) (E_all : list entry) (pxs : list (bytes * list fspec)) (T' : bytes)
    (z : N) (pol : policy) (hint : list bytes),
    L_IO P = false ->
    base <= lo ->
    list_wal_numbers fs = GcProofs.iota lo (S n) ->
    Forall RecordProofs.wf_entry E_all ->
    map fst pxs = map entry_ser E_all ->
    encs_any P 0 pxs T' ->
    FileStream.stream_of fs (GcProofs.iota lo (S n)) = dropN ((lo - base) * FILE_BYTES P) (T' ++ zerosN z) ->
    lenN (T' ++ zerosN z) = (lo + N.of_nat n - base + 1) * FILE_BYTES P ->
    let b := (lo - base) * FILE_BYTES P in
    exists
    (w0 : rwriter) (tags : list N) (E_pre E_suf : list entry) (pxs1 pxs2 : list (bytes * list fspec)),
    E_all = E_pre ++ E_suf /\
    pxs = pxs1 ++ pxs2 /\
    map fst pxs1 = map entry_ser E_pre /\
    map fst pxs2 = map entry_ser E_suf /\
    map entry_ser E_pre = ResyncProofs.skipped_before P b 0 (map entry_ser E_all) /\
    map entry_ser E_suf = ResyncProofs.delivered_from P b 0 (map entry_ser E_all) /\
    lenN T' = lenN (ResyncProofs.encs_of P 0 (map entry_ser E_all)) /\
    (let E_ok := ok_entries P pxs2 E_suf in
    dmg_spec P fs lo n base w0 tags
    (ok_sts P (ResyncProofs.cursor_after P 0 (map entry_ser E_pre)) pxs2)
    (N.max b (lenN T')) /\
    match replay_entries [] (combine tags E_ok) with
    | Some qs => open P fs None pol hint = open_finish P w0 qs pol hint
    | None => exists c : ioctx, open P fs None pol hint = OpenCorruption c
    end).
Proof. exact open_damaged. Qed.
Print Assumptions C09_open_damaged.

(* entry level: replaying a legal log with one entry removed never fails, and every record of the full replay that was not appended by the lost entry is recovered with the same position and payload (a lost truncate or delete may leave MORE records; next positions never run ahead) *)
Theorem C09_replay_tolerates_lost_entry :
    forall (fA fB fA' fB' : list (N * entry)) (fx : N * entry) (F : tmap),
    let A := map snd fA in
    let B := map snd fB in
    let x := snd fx in
    map snd fA' = A ->
    map snd fB' = B ->
    legal_log [] 0 (A ++ x :: B) ->
    t_replay [] 0 (A ++ x :: B) = Some F ->
    exists qF qD : queues,
    replay_entries [] (fA ++ fx :: fB) = Some qF /\
    replay_entries [] (fA' ++ fB') = Some qD /\
    SpecRefine.qs_inv qF /\
    SpecRefine.qs_inv qD /\
    SpecRefine.abs_qs qF = untag F /\
    (forall (q : bytes) (rf : list trec) (nf : N),
    t_get F q = Some (rf, nf) ->
    (exists mF : mq,
    qs_get qF q = Some mF /\
    records_of (q_buf mF) (q_metas mF) = map snd rf /\ next_position mF = nf) /\
    (forall r : trec,
    In r rf ->
    fst r <> length A ->
    exists mD : mq, qs_get qD q = Some mD /\ In (snd r) (records_of (q_buf mD) (q_metas mD))) /\
    (forall mD : mq,
    qs_get qD q = Some mD ->
    sublist (map snd (filter (not_x (length A)) rf)) (records_of (q_buf mD) (q_metas mD)) /\
    next_position mD <= nf)).
Proof. exact model_deletion. Qed.
Print Assumptions C09_replay_tolerates_lost_entry.

(* the damaged replay cannot fail (no append is ever 'in the past') *)
Theorem C09_deletion_replay_some :
    forall (A B : list entry) (x : entry),
    legal_log [] 0 (A ++ x :: B) -> exists D : tmap, t_replay_skip A B = Some D.
Proof. exact deletion_replay_some. Qed.
Print Assumptions C09_deletion_replay_some.

