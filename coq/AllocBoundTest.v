(* AllocBoundTest.v — the allocation bound of AllocBound.v evaluated on concrete adversarial
   directories (executable model, real CRC), and two negative results:
   - the bound against FILE_BYTES * (number of WAL files) is FALSE for arbitrary directories:
     a WAL file longer than FILE_BYTES is read to its end;
   - the factor alloc_factor (RMS) = 2 for RMS = 24 cannot be replaced by 1.
   Only N / option N valued terms are evaluated. *)
From Coq Require Import Lia ZArith.
From MRL Require Import Bytes BytesProofs Params Names Frame Record Mem Rolling Log Crc
                        OpenTerm AllocBound.

Definition mem_of (P : params) (r : open_result) : option N :=
  match r with OpenOk st => Some (log_memory_used P st) | _ => None end.

Lemma mem_of_some P r m :
  mem_of P r = Some m -> exists st, r = OpenOk st /\ log_memory_used P st = m.
Proof.
  destruct r as [st|e c|c|c]; cbn [mem_of]; intros H; inversion H; subst.
  exists st. split; reflexivity.
Qed.

Fixpoint empties (k : nat) (p : N) : list (N * bytes) :=
  match k with O => [] | S k' => (p, []) :: empties k' (p + 1) end.

(* ---------- 1. one WAL file eight times longer than FILE_BYTES ---------- *)
Definition Pt : params := mkParams 32 1 Crc.crc32 24 false false false.
(* one block = one Full frame = one AppendRecords entry with one empty record (+ 1 pad byte) *)
Definition blk (i : N) : bytes :=
  frame_bytes Pt Full (entry_ser (EAppend ["q"%byte] i [(i, [])])) ++ [x00].
Definition long_file : bytes := concat (map blk [0;1;2;3;4;5;6;7]).
Definition fs_long : fsT := [(filename 0, FFile long_file)].

Lemma fs_long_mem : mem_of Pt (open Pt fs_long None PNothing []) = Some 193.
Proof. vm_compute. reflexivity. Qed.
Lemma fs_long_sizes :
  (lenN long_file, list_wal_numbers fs_long, FILE_BYTES Pt, alloc_factor (RMS Pt))
  = (256, [0], 32, 2).
Proof. vm_compute. reflexivity. Qed.

(* memory 193 > 2 * (32 * 1) + 2 * 32 = 128: the premise of open_alloc_bound_count
   (no listed file longer than FILE_BYTES) cannot be dropped *)
Theorem alloc_count_bound_needs_premise :
  exists P fs st,
    open P fs None PNothing [] = OpenOk st /\
    alloc_factor (RMS P) * (FILE_BYTES P * N.of_nat (length (list_wal_numbers fs)))
      + alloc_factor (RMS P) * FILE_BYTES P < log_memory_used P st.
Proof.
  exists Pt, fs_long. destruct (mem_of_some _ _ _ fs_long_mem) as (st & Ho & Hm).
  exists st. split; [exact Ho|]. rewrite Hm.
  assert (H2 : list_wal_numbers fs_long = [0]) by (vm_compute; reflexivity).
  assert (H3 : FILE_BYTES Pt = 32) by (vm_compute; reflexivity).
  assert (H4 : alloc_factor (RMS Pt) = 2) by (vm_compute; reflexivity).
  rewrite H2, H3, H4. cbn [length]. lia.
Qed.

(* ---------- 2. dense empty records: factor 1 is not enough ---------- *)
Definition Pd : params := mkParams 127 2 Crc.crc32 24 false false false.
(* one block = one Full frame = one AppendRecords entry with 9 empty records: 7+11+1+9*12 *)
Definition dblk (i : N) : bytes :=
  frame_bytes Pd Full (entry_ser (EAppend ["q"%byte] (9 * i) (empties 9 (9 * i)))).
Definition dfile (j : N) : bytes := dblk (2 * j) ++ dblk (2 * j + 1).
Definition fs_dense : fsT :=
  [(filename 0, FFile (dfile 0)); (filename 1, FFile (dfile 1));
   (filename 2, FFile (dfile 2)); (filename 3, FFile (dfile 3))].

Lemma fs_dense_mem : mem_of Pd (open Pd fs_dense None PNothing []) = Some 1729.
Proof. vm_compute. reflexivity. Qed.
Lemma fs_dense_sizes : (wal_bytes fs_dense, fs_bytes fs_dense, FILE_BYTES Pd) = (1016, 1016, 254).
Proof. vm_compute. reflexivity. Qed.

(* every file has exactly FILE_BYTES bytes; memory 1729 > 1 * (1016 + 254), <= 2 * (1016 + 254) *)
Theorem alloc_factor_one_insufficient :
  exists P fs st,
    open P fs None PNothing [] = OpenOk st /\
    1 * (wal_bytes fs + FILE_BYTES P) < log_memory_used P st /\
    1 * (fs_bytes fs + FILE_BYTES P) < log_memory_used P st.
Proof.
  exists Pd, fs_dense. destruct (mem_of_some _ _ _ fs_dense_mem) as (st & Ho & Hm).
  exists st. split; [exact Ho|]. rewrite Hm.
  assert (H1 : wal_bytes fs_dense = 1016) by (vm_compute; reflexivity).
  assert (H2 : fs_bytes fs_dense = 1016) by (vm_compute; reflexivity).
  assert (H3 : FILE_BYTES Pd = 254) by (vm_compute; reflexivity).
  rewrite H1, H2, H3. lia.
Qed.

(* ---------- 3. other shapes (the inequality of open_alloc_bound, numerically) ---------- *)
(* many queues with one-byte names: 19 bytes in the file for 1 byte in memory *)
Definition Pq : params := mkParams 19 4 Crc.crc32 24 false false false.
Definition qblk (i : N) : bytes := frame_bytes Pq Full (entry_ser (EPosition [n2b (65 + i)] 0)).
Definition fs_queues : fsT :=
  [(filename 0, FFile (qblk 0 ++ qblk 1 ++ qblk 2 ++ qblk 3));
   (filename 1, FFile (qblk 4 ++ qblk 5 ++ qblk 6 ++ qblk 7))].
Lemma fs_queues_mem :
  (mem_of Pq (open Pq fs_queues None PNothing []), wal_bytes fs_queues, FILE_BYTES Pq)
  = (Some 8, 152, 76).
Proof. vm_compute. reflexivity. Qed.

(* one record of 20 empty records spread over 11 frames / blocks *)
Definition Pm : params := mkParams 32 11 Crc.crc32 24 false false false.
Definition big : bytes := entry_ser (EAppend ["q"%byte] 0 (empties 20 0)).
Fixpoint chunks (fuel : nat) (first : bool) (b : bytes) : bytes :=
  match fuel with
  | O => []
  | S f =>
      let last := lenN b <=? 25 in
      frame_bytes Pm (frame_type first last) (takeN 25 b) ++
      (if last then [] else chunks f false (dropN 25 b))
  end.
Definition fs_multi : fsT := [(filename 5, FFile (chunks 20 true big))].
Lemma fs_multi_mem :
  (mem_of Pm (open Pm fs_multi None PNothing []), lenN big, wal_bytes fs_multi, FILE_BYTES Pm)
  = (Some 481, 252, 329, 352).
Proof. vm_compute. reflexivity. Qed.

(* garbage *)
Definition fs_garbage : fsT := [(filename 5, FFile (le_enc 100 123456789123456789123456789))].
Lemma fs_garbage_mem : mem_of Pm (open Pm fs_garbage None PNothing []) = Some 0.
Proof. vm_compute. reflexivity. Qed.

Print Assumptions alloc_count_bound_needs_premise.
Print Assumptions alloc_factor_one_insufficient.
