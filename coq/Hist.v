(* Hist.v — histories: folding the API step over a list of calls; small shared definitions. *)
From MRL Require Import Bytes Params Names Frame Record Mem Rolling Log.

(* the outcome carries wal_bytes_written = 0 wherever it has that field *)
Definition outcome_bytes (o : outcome) : option N :=
  match o with
  | OutCreate n | OutDelete n | OutAppend _ n | OutTruncate _ n => Some n
  | _ => None
  end.

Section WithParams.
Variable P : params.

Fixpoint run (st : state) (h : list (op * bool)) : state * list outcome :=
  match h with
  | [] => (st, [])
  | (o, tick) :: r =>
      let '(st1, out) := step P st o tick in
      let '(st2, outs) := run st1 r in (st2, out :: outs)
  end.

Lemma run_app st h1 h2 :
  run st (h1 ++ h2) =
  let '(st1, o1) := run st h1 in let '(st2, o2) := run st1 h2 in (st2, o1 ++ o2).
Proof.
  revert st; induction h1 as [|[o t] h1 IH]; intros st; cbn [app run].
  - destruct (run st h2); reflexivity.
  - destruct (step P st o t) as [st1 out]. rewrite IH.
    destruct (run st1 h1) as [st2 o1]. destruct (run st2 h2) as [st3 o2]. reflexivity.
Qed.

End WithParams.
