(* PropC02x.v — C02, refuted for the real checksum (known finding F8): CRC-32 is affine, so the premise no_zero_collision of C02_crash_atomic is FALSE for Crc.crc32, and the conclusion itself fails on a concrete instance.
   Statements only; each theorem is closed by `exact <lemma>`; proofs live in the imported files. *)
From Coq Require Import Lia NArith List.
From MRL Require Import Bytes Params Names Frame Record Mem Spec Rolling Log Driver Hist SpecRefine TornProofs RestartInv CrashAtomic VacCrash VacCrc.

(* for the production checksum a frame payload (01 00 00 00 65 67 bc b8) has the checksum of its own zero-completed prefix (eight zero bytes), for every frame type *)
Theorem C02_refuted_crc32_collision :
    forall P : params, crcf P = Crc.crc32 -> 15 <= BS P -> crc_collision P.
Proof. exact crc32_zero_collision. Qed.
Print Assumptions C02_refuted_crc32_collision.

(* hence the premise no_zero_collision is false whenever crcf P = Crc.crc32 and a frame can carry eight payload bytes *)
Theorem C02_refuted_premise_false :
    forall P : params, crcf P = Crc.crc32 -> 15 <= BS P -> ~ no_zero_collision P.
Proof. exact crc32_refutes_nzc. Qed.
Print Assumptions C02_refuted_premise_false.

(* the production constants (32768-byte blocks, 4096 blocks per file, crc32) satisfy every standing hypothesis except that one *)
Theorem C02_refuted_production :
    7 < BS P_prod /\
    BS P_prod <= 65542 /\
    1 <= NB P_prod /\
    (forall (t : byte) (p : bytes), crcf P_prod t p < 2 ^ 32) /\
    L_GC P_prod = false /\
    L_IO P_prod = false /\ L_SHORT P_prod = false /\ crc_collision P_prod /\ ~ no_zero_collision P_prod.
Proof. exact production_params. Qed.
Print Assumptions C02_refuted_production.

(* a concrete state satisfying the global invariant and every other premise of C02_crash_atomic, one append whose payload ends in those eight bytes, one crash image (the last frame's write cut after its header): open succeeds and returns a record with a zero-filled tail that was never appended *)
Theorem C02_refuted_counterexample :
    (exists G : ghost,
    Inv CrashExample.Pe CrashExample.st_ex G /\
    w_pending (s_wr CrashExample.st_ex) = [] /\
    s_pol CrashExample.st_ex = PAlways true /\
    GhostLog.op_wf_strict (s_qs CrashExample.st_ex) o_adv /\
    RestartWrite.stream_bound CrashExample.Pe G
    (map snd (GhostLog.step_log CrashExample.Pe CrashExample.st_ex o_adv)) /\
    crash_bound CrashExample.Pe G
    (map snd (GhostLog.step_log CrashExample.Pe CrashExample.st_ex o_adv))
    (abs_qs (s_qs CrashExample.st_ex)) /\
    crash_bound CrashExample.Pe G
    (map snd (GhostLog.step_log CrashExample.Pe CrashExample.st_ex o_adv))
    (abs_qs (s_qs st_adv)) /\
    step CrashExample.Pe CrashExample.st_ex o_adv false = (st_adv, out_adv) /\
    (forall e : ioerr, out_adv <> OutIo e)) /\
    c_ev (w_ctx (s_wr st_adv)) = rev evs_adv ++ c_ev (w_ctx (s_wr CrashExample.st_ex)) /\
    img_adv = fold_left apply_event (crash_events evs_adv 7 7) (c_fs (w_ctx (s_wr CrashExample.st_ex))) /\
    open CrashExample.Pe img_adv None (PAlways true) [] = OpenOk st_rec /\
    s_get (abs_qs (s_qs CrashExample.st_ex)) CrashExample.qb = Some ([], 0) /\
    s_get (abs_qs (s_qs st_adv)) CrashExample.qb = Some ([(0, CrashExample.pay "x" ++ T8)], 1) /\
    s_get (abs_qs (s_qs st_rec)) CrashExample.qb = Some ([(0, CrashExample.pay "x" ++ zerosN 8)], 1).
Proof. exact crash_counterexample. Qed.
Print Assumptions C02_refuted_counterexample.

(* the conclusion of C02_crash_atomic is false on that instance: with the real CRC-32 the property holds only up to such (constructible) collisions *)
Theorem C02_refuted :
    ~
    (exists evs : list event,
    c_ev (w_ctx (s_wr st_adv)) = rev evs ++ c_ev (w_ctx (s_wr CrashExample.st_ex)) /\
    (forall (cut k : N) (pol : policy) (hint : list bytes),
    let img := fold_left apply_event (crash_events evs cut k) (c_fs (w_ctx (s_wr CrashExample.st_ex)))
    in
    exists st_r : state,
    open CrashExample.Pe img None pol hint = OpenOk st_r /\
    ((forall q : bytes, s_get (abs_qs (s_qs st_r)) q = s_get (abs_qs (s_qs CrashExample.st_ex)) q) \/
    (forall q : bytes, s_get (abs_qs (s_qs st_r)) q = s_get (abs_qs (s_qs st_adv)) q)))).
Proof. exact C02_conclusion_false_for_crc32. Qed.
Print Assumptions C02_refuted.

