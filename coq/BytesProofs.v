(* BytesProofs.v — facts about the byte-string primitives of Bytes.v. *)
From Coq Require Import Lia ZArith ZifyN ZifyNat ZifyBool.
From MRL Require Import Bytes.
Ltac Zify.zify_post_hook ::= Z.div_mod_to_equations.

Arguments N.add : simpl never.
Arguments N.sub : simpl never.
Arguments N.mul : simpl never.
Arguments N.div : simpl never.
Arguments N.modulo : simpl never.
Arguments N.eqb : simpl never.
Arguments N.ltb : simpl never.
Arguments N.leb : simpl never.
Arguments N.pred : simpl never.
Arguments N.succ : simpl never.

Lemma lenN_acc_spec {A} (l : list A) acc : lenN_acc l acc = acc + N.of_nat (length l).
Proof.
  revert acc; induction l as [|x l IH]; intros acc; cbn [lenN_acc length].
  - lia.
  - rewrite IH. lia.
Qed.

Lemma lenN_length {A} (l : list A) : lenN l = N.of_nat (length l).
Proof. unfold lenN. rewrite lenN_acc_spec. lia. Qed.

Lemma lenN_nil {A} : lenN (@nil A) = 0.
Proof. reflexivity. Qed.

Lemma lenN_cons {A} (x : A) l : lenN (x :: l) = 1 + lenN l.
Proof. rewrite !lenN_length. cbn [length]. lia. Qed.

Lemma lenN_app {A} (a b : list A) : lenN (a ++ b) = lenN a + lenN b.
Proof. rewrite !lenN_length, app_length. lia. Qed.

Lemma lenN_0_nil {A} (l : list A) : lenN l = 0 -> l = [].
Proof. destruct l; [reflexivity|]. rewrite lenN_cons. lia. Qed.

Lemma takeN_firstn {A} n (l : list A) : takeN n l = firstn (N.to_nat n) l.
Proof.
  revert n; induction l as [|x l IH]; intros n; cbn [takeN].
  - now rewrite firstn_nil.
  - destruct (N.eqb_spec n 0) as [->|Hn]; [reflexivity|].
    rewrite IH. replace (N.to_nat n) with (S (N.to_nat (N.pred n))) by lia. reflexivity.
Qed.

Lemma dropN_skipn {A} n (l : list A) : dropN n l = skipn (N.to_nat n) l.
Proof.
  revert n; induction l as [|x l IH]; intros n; cbn [dropN].
  - now rewrite skipn_nil.
  - destruct (N.eqb_spec n 0) as [->|Hn]; [reflexivity|].
    rewrite IH. replace (N.to_nat n) with (S (N.to_nat (N.pred n))) by lia. reflexivity.
Qed.

Lemma takeN_dropN {A} n (l : list A) : takeN n l ++ dropN n l = l.
Proof. rewrite takeN_firstn, dropN_skipn. apply firstn_skipn. Qed.

Lemma lenN_takeN {A} n (l : list A) : lenN (takeN n l) = N.min n (lenN l).
Proof. rewrite takeN_firstn, !lenN_length, firstn_length. lia. Qed.

Lemma lenN_dropN {A} n (l : list A) : lenN (dropN n l) = lenN l - n.
Proof. rewrite dropN_skipn, !lenN_length, skipn_length. lia. Qed.

Lemma takeN_0 {A} (l : list A) : takeN 0 l = [].
Proof. destruct l; reflexivity. Qed.

Lemma dropN_0 {A} (l : list A) : dropN 0 l = l.
Proof. destruct l; reflexivity. Qed.

Lemma takeN_all {A} n (l : list A) : lenN l <= n -> takeN n l = l.
Proof. intros H. rewrite takeN_firstn. apply firstn_all2. rewrite lenN_length in H. lia. Qed.

Lemma dropN_all {A} n (l : list A) : lenN l <= n -> dropN n l = [].
Proof. intros H. rewrite dropN_skipn. apply skipn_all2. rewrite lenN_length in H. lia. Qed.

Lemma takeN_app_exact {A} (a b : list A) : takeN (lenN a) (a ++ b) = a.
Proof.
  rewrite takeN_firstn, lenN_length, Nnat.Nat2N.id.
  rewrite firstn_app, Nat.sub_diag, firstn_O, app_nil_r. apply firstn_all.
Qed.

Lemma dropN_app_exact {A} (a b : list A) : dropN (lenN a) (a ++ b) = b.
Proof.
  rewrite dropN_skipn, lenN_length, Nnat.Nat2N.id.
  rewrite skipn_app, Nat.sub_diag, skipn_all. reflexivity.
Qed.

Lemma takeN_app_le {A} n (a b : list A) : n <= lenN a -> takeN n (a ++ b) = takeN n a.
Proof.
  intros H. rewrite !takeN_firstn, firstn_app. rewrite lenN_length in H.
  replace (N.to_nat n - length a)%nat with 0%nat by lia. now rewrite firstn_O, app_nil_r.
Qed.

Lemma dropN_app_le {A} n (a b : list A) : n <= lenN a -> dropN n (a ++ b) = dropN n a ++ b.
Proof.
  intros H. rewrite !dropN_skipn, skipn_app. rewrite lenN_length in H.
  replace (N.to_nat n - length a)%nat with 0%nat by lia. reflexivity.
Qed.

Lemma dropN_app_ge {A} n (a b : list A) : lenN a <= n -> dropN n (a ++ b) = dropN (n - lenN a) b.
Proof.
  intros H. rewrite !dropN_skipn, skipn_app. rewrite lenN_length in *.
  rewrite (skipn_all2 a) by lia. cbn [app]. f_equal. lia.
Qed.

Lemma takeN_app_ge {A} n (a b : list A) : lenN a <= n -> takeN n (a ++ b) = a ++ takeN (n - lenN a) b.
Proof.
  intros H. rewrite !takeN_firstn, firstn_app. rewrite lenN_length in *.
  rewrite (firstn_all2 a) by lia. f_equal. f_equal. lia.
Qed.

Lemma skipn_skipn' {A} (x y : nat) (l : list A) : skipn x (skipn y l) = skipn (x + y) l.
Proof.
  revert l; induction y as [|y IH]; intros l.
  - now rewrite Nat.add_0_r.
  - destruct l as [|a l]; [now rewrite !skipn_nil|].
    rewrite Nat.add_succ_r. cbn [skipn]. apply IH.
Qed.

Lemma dropN_dropN {A} n m (l : list A) : dropN n (dropN m l) = dropN (m + n) l.
Proof.
  rewrite !dropN_skipn, skipn_skipn'. f_equal. lia.
Qed.

Lemma takeN_takeN {A} n m (l : list A) : takeN n (takeN m l) = takeN (N.min n m) l.
Proof.
  rewrite !takeN_firstn, firstn_firstn. f_equal. lia.
Qed.

Lemma sliceN_app_mid {A} (a b c : list A) :
  sliceN (lenN a) (lenN a + lenN b) (a ++ b ++ c) = b.
Proof.
  unfold sliceN. rewrite dropN_app_exact.
  replace (lenN a + lenN b - lenN a) with (lenN b) by lia. apply takeN_app_exact.
Qed.

Lemma zeros_pos_length p : lenN (zeros_pos p) = Npos p.
Proof.
  induction p as [p IH|p IH|]; cbn [zeros_pos].
  - rewrite lenN_cons, lenN_app, IH. lia.
  - rewrite lenN_app, IH. lia.
  - reflexivity.
Qed.

Lemma lenN_zerosN n : lenN (zerosN n) = n.
Proof. destruct n; [reflexivity|]. apply zeros_pos_length. Qed.

Lemma zeros_pos_all_zero p : all_zero (zeros_pos p) = true.
Proof.
  assert (Happ : forall a b, all_zero a = true -> all_zero b = true -> all_zero (a ++ b) = true).
  { induction a as [|x a IH]; intros b Ha Hb; cbn [app all_zero] in *; [exact Hb|].
    apply andb_true_iff in Ha as [H1 H2]. rewrite H1. cbn. now apply IH. }
  induction p as [p IH|p IH|]; cbn [zeros_pos].
  - cbn [all_zero]. cbn. now apply Happ.
  - now apply Happ.
  - reflexivity.
Qed.

Lemma all_zero_zerosN n : all_zero (zerosN n) = true.
Proof. destruct n; [reflexivity|]. apply zeros_pos_all_zero. Qed.

Lemma all_zero_app a b : all_zero (a ++ b) = all_zero a && all_zero b.
Proof.
  induction a as [|x a IH]; cbn [app all_zero]; [reflexivity|].
  rewrite IH. now rewrite andb_assoc.
Qed.

(* ---------- bytes <-> N ---------- *)
Lemma b2n_lt (b : byte) : b2n b < 256.
Proof. unfold b2n. pose proof (Byte.to_N_bounded b). lia. Qed.

Lemma b2n_n2b n : b2n (n2b n) = n mod 256.
Proof.
  unfold n2b, b2n.
  destruct (Byte.of_N (n mod 256)) as [b|] eqn:E.
  - now apply Byte.to_of_N in E.
  - apply Byte.of_N_None_iff in E. pose proof (N.mod_lt n 256). lia.
Qed.

Lemma n2b_b2n b : n2b (b2n b) = b.
Proof.
  unfold n2b, b2n. rewrite N.mod_small by (pose proof (Byte.to_N_bounded b); lia).
  now rewrite Byte.of_to_N.
Qed.

Lemma b2n_inj a b : b2n a = b2n b -> a = b.
Proof. intros H. rewrite <- (n2b_b2n a), <- (n2b_b2n b). now rewrite H. Qed.

Lemma byte_eqb_eq a b : Byte.eqb a b = true <-> a = b.
Proof. split; [apply Byte.byte_dec_bl | apply Byte.byte_dec_lb]. Qed.

Lemma bytes_eqb_eq a b : bytes_eqb a b = true <-> a = b.
Proof.
  revert b; induction a as [|x a IH]; intros [|y b]; cbn [bytes_eqb]; split; intros H;
    try reflexivity; try discriminate.
  - apply andb_true_iff in H as [H1 H2]. apply byte_eqb_eq in H1. apply IH in H2. now subst.
  - inversion H; subst. apply andb_true_iff. split; [now apply byte_eqb_eq | now apply IH].
Qed.

Lemma bytes_eqb_refl a : bytes_eqb a a = true.
Proof. now apply bytes_eqb_eq. Qed.

Lemma bytes_eqb_neq a b : bytes_eqb a b = false <-> a <> b.
Proof.
  split.
  - intros H E. apply bytes_eqb_eq in E. congruence.
  - intros H. destruct (bytes_eqb a b) eqn:E; [|reflexivity]. apply bytes_eqb_eq in E. contradiction.
Qed.

Lemma bytes_eqb_sym a b : bytes_eqb a b = bytes_eqb b a.
Proof.
  destruct (bytes_eqb a b) eqn:E.
  - apply bytes_eqb_eq in E. subst. now rewrite bytes_eqb_refl.
  - symmetry. apply bytes_eqb_neq. apply bytes_eqb_neq in E. congruence.
Qed.

Lemma length_le_enc k n : lenN (le_enc k n) = N.of_nat k.
Proof.
  revert n; induction k as [|k IH]; intros n; cbn [le_enc]; [reflexivity|].
  rewrite lenN_cons, IH. lia.
Qed.

Lemma le_dec_enc k n : le_dec (le_enc k n) = n mod 256 ^ N.of_nat k.
Proof.
  revert n; induction k as [|k IH]; intros n; cbn [le_enc le_dec].
  - now rewrite N.mod_1_r.
  - rewrite b2n_n2b, IH.
    replace (N.of_nat (S k)) with (N.succ (N.of_nat k)) by lia.
    rewrite N.pow_succ_r'.
    pose proof (N.pow_nonzero 256 (N.of_nat k)) as Hp.
    rewrite (N.mod_mul_r n 256 (256 ^ N.of_nat k)) by lia. lia.
Qed.

Lemma le_dec_enc_small k n : n < 256 ^ N.of_nat k -> le_dec (le_enc k n) = n.
Proof. intros H. rewrite le_dec_enc. now apply N.mod_small. Qed.

Lemma le_dec_bound bs : le_dec bs < 256 ^ lenN bs.
Proof.
  induction bs as [|b r IH]; cbn [le_dec].
  - now vm_compute.
  - rewrite lenN_cons. replace (1 + lenN r) with (N.succ (lenN r)) by lia.
    rewrite N.pow_succ_r'. pose proof (b2n_lt b). lia.
Qed.

Lemma le_enc_dec bs : le_enc (length bs) (le_dec bs) = bs.
Proof.
  induction bs as [|b r IH]; cbn [le_dec le_enc length]; [reflexivity|].
  pose proof (b2n_lt b) as Hb. f_equal.
  - rewrite <- (n2b_b2n b) at 2. unfold n2b. f_equal.
    replace (b2n b + 256 * le_dec r) with (b2n b + le_dec r * 256) by lia.
    rewrite N.mod_add by lia. now rewrite N.mod_small by lia.
  - replace (b2n b + 256 * le_dec r) with (b2n b + le_dec r * 256) by lia.
    rewrite N.div_add by lia. rewrite N.div_small by lia. now rewrite N.add_0_l.
Qed.

Lemma last_opt_app {A} (l : list A) x : last_opt (l ++ [x]) = Some x.
Proof.
  induction l as [|y l IH]; [reflexivity|].
  cbn [app]. destruct (l ++ [x]) eqn:E; [destruct l; discriminate|]. cbn [last_opt]. exact IH.
Qed.

Lemma last_opt_nil_iff {A} (l : list A) : last_opt l = None <-> l = [].
Proof.
  split; [|intros ->; reflexivity].
  induction l as [|y l IH]; [reflexivity|]. cbn [last_opt]. destruct l; [discriminate|]. intros H.
  specialize (IH H). discriminate.
Qed.

Lemma isnil_true {A} (l : list A) : isnil l = true <-> l = [].
Proof. destruct l; cbn; split; congruence. Qed.
