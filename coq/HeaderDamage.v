(* HeaderDamage.v — task T15 (properties C08 / C12, finding F4 made precise), stream level:
   ONE block of the stream damaged arbitrarily, frame HEADERS included (length field, type
   byte), so that frame boundaries are no longer where the writer put them.
   Setting as in DamageProofs.v: in-memory writer vecw / block reader vecr of Driver.v. *)
From Coq Require Import Lia ZArith ZifyN ZifyNat ZifyBool.
From MRL Require Import Bytes BytesProofs Params Frame Driver StreamProofs DamageProofs TornProofs
  ResyncProofs HeaderDamageEv.

Arguments N.add : simpl never.
Arguments N.sub : simpl never.
Arguments N.mul : simpl never.
Arguments N.eqb : simpl never.
Arguments N.ltb : simpl never.
Arguments N.leb : simpl never.
Arguments N.div : simpl never.
Arguments N.modulo : simpl never.
Arguments N.min : simpl never.
Arguments N.max : simpl never.

(* ---------- slices ---------- *)
Lemma takeN_add {A} x y (m : list A) : takeN (x + y) m = takeN x m ++ takeN y (dropN x m).
Proof.
  destruct (N.le_gt_cases x (lenN m)) as [Hle|Hgt].
  - rewrite <- (takeN_dropN x m) at 1.
    rewrite takeN_app_ge by (rewrite lenN_takeN; lia).
    rewrite lenN_takeN. f_equal. f_equal. lia.
  - rewrite (dropN_all x m) by lia. rewrite !takeN_all by (try rewrite (@lenN_nil A); lia).
    cbn [takeN]. now rewrite app_nil_r.
Qed.

Lemma sliceN_cat {A} a b c (l : list A) :
  a <= b -> b <= c -> sliceN a b l ++ sliceN b c l = sliceN a c l.
Proof.
  intros H1 H2. unfold sliceN.
  replace (c - a) with ((b - a) + (c - b)) by lia. rewrite takeN_add, dropN_dropN.
  replace (a + (b - a)) with b by lia. reflexivity.
Qed.

Lemma split3 {A} x y (D : list A) : x <= y -> D = takeN x D ++ sliceN x y D ++ dropN y D.
Proof.
  intros H. rewrite <- (takeN_dropN x D) at 1. f_equal.
  unfold sliceN. rewrite <- (takeN_dropN (y - x) (dropN x D)) at 1. f_equal.
  rewrite dropN_dropN. f_equal. lia.
Qed.

Lemma lenN_sliceN {A} x y (D : list A) : y <= lenN D -> lenN (sliceN x y D) = y - x.
Proof. intros H. unfold sliceN. rewrite lenN_takeN, lenN_dropN. lia. Qed.

Lemma sliceN_agree_lo {A} n x y (D S : list A) :
  takeN n D = takeN n S -> y <= n -> sliceN x y D = sliceN x y S.
Proof.
  intros E Hy.
  assert (H : forall L : list A, sliceN x y (takeN n L) = sliceN x y L).
  { intros L. unfold sliceN. rewrite dropN_takeN, takeN_takeN. f_equal. lia. }
  rewrite <- (H D), <- (H S), E. reflexivity.
Qed.

Lemma sliceN_agree_hi {A} n x y (D S : list A) :
  dropN n D = dropN n S -> n <= x -> sliceN x y D = sliceN x y S.
Proof.
  intros E Hx. unfold sliceN.
  replace x with (n + (x - n)) by lia. rewrite <- !dropN_dropN, E. reflexivity.
Qed.

Lemma ft_of_code_inv n t : ft_of_code n = Some t -> n = ft_code t.
Proof.
  intros H. destruct n as [|p]; [discriminate|].
  do 3 (try destruct p as [p|p|]); cbn in H; try discriminate; inversion H; reflexivity.
Qed.

(* a 7-byte header with a valid type byte is the serialisation of its decoded fields *)
Lemma hdr_decompose (hdr : bytes) t :
  lenN hdr = 7 -> ft_of_code (le_dec (dropN 6 hdr)) = Some t ->
  hdr = header_bytes (le_dec (takeN 4 hdr)) (le_dec (sliceN 4 6 hdr)) t.
Proof.
  intros Hl Ht. unfold header_bytes.
  assert (E : hdr = takeN 4 hdr ++ sliceN 4 6 hdr ++ dropN 6 hdr) by (apply split3; lia).
  assert (L4 : length (takeN 4 hdr) = 4%nat).
  { pose proof (lenN_takeN 4 hdr) as H. rewrite (lenN_length (takeN 4 hdr)) in H. lia. }
  assert (L2 : length (sliceN 4 6 hdr) = 2%nat).
  { pose proof (lenN_sliceN 4 6 hdr) as H. rewrite (lenN_length (sliceN 4 6 hdr)) in H. lia. }
  assert (L1 : lenN (dropN 6 hdr) = 1) by (rewrite lenN_dropN; lia).
  rewrite <- L4 at 1. rewrite le_enc_dec. rewrite <- L2 at 1. rewrite le_enc_dec.
  destruct (dropN 6 hdr) as [|tb [|tb' r]] eqn:Ed.
  - rewrite (@lenN_nil byte) in L1. lia.
  - cbn [le_dec] in Ht. apply ft_of_code_inv in Ht.
    replace (n2b (ft_code t)) with tb; [exact E|].
    rewrite <- Ht. replace (b2n tb + 256 * 0) with (b2n tb) by lia. now rewrite n2b_b2n.
  - rewrite !lenN_cons in L1. lia.
Qed.

Section HD.
Variable P : params.
Hypothesis HBS_lo : 7 < BS P.
Hypothesis HBS_hi : BS P <= 65542.
Hypothesis Hcrc : forall t p, crcf P t p < 2 ^ 32.

Local Notation B := (BS P).
Local Notation rframe := (read_frame P vecr (vr_next P) vr_block).
Local Notation pad_of := (pad_of P).
Local Notation rd_at := (rd_at P).
Local Notation rd_of := (rd_of P).
Local Notation at_pos := (at_pos P).
Local Notation stream_ok := (stream_ok P).
Local Notation layout := (layout P).
Local Notation fs_good := (fs_good P).
Local Notation good_fs := (good_fs P).
Local Notation ffp := (first_frame_pos P).
Local Notation ftrace := (ftrace P).
Local Notation thin := (thin).
Local Notation H3 f := (f P HBS_lo HBS_hi Hcrc) (only parsing).
Local Notation H2 f := (f P HBS_lo HBS_hi) (only parsing).
Local Notation pad_geom := (H2 TornProofs.pad_geom).
Local Notation at_pos_pad := (H3 TornProofs.at_pos_pad).
Local Notation kc_unique := (H2 TornProofs.kc_unique).
Local Notation blocks_above := (H2 TornProofs.blocks_above).
Local Notation block_exists := (H3 TornProofs.block_exists).
Local Notation mulB_lt_inv := (H2 TornProofs.mulB_lt_inv).
Local Notation mulB_le := (TornProofs.mulB_le P).
Local Notation read_frame_corruptflag := (H3 TornProofs.read_frame_corruptflag).
Local Notation read_frame_skip := (H3 StreamProofs.read_frame_skip).
Local Notation read_frame_zero := (H3 StreamProofs.read_frame_zero).
Local Notation read_frame_gen_here := (H3 DamageProofs.read_frame_gen_here).

Implicit Types D S : bytes.

(* ---------- (C) one read_frame call at (k, c) of an ARBITRARY stream D ---------- *)
Lemma lenN_block D k : (k + 1) * B <= lenN D -> lenN (sliceN (k * B) ((k + 1) * B) D) = B.
Proof. intros H. rewrite lenN_sliceN by exact H. lia. Qed.

Lemma read_frame_cases D k c :
  c + 7 <= B -> (k + 1) * B <= lenN D ->
  (rframe (rd_at D k c) = (rd_at D k c, FNotAvail) /\
   all_zero (sliceN (k * B + c) (k * B + c + 7) D) = true) \/
  (exists c', rframe (rd_at D k c) = (mkFR (rd_of D k) c' true, FCorrupt)) \/
  (exists len, c + 7 + len <= B /\ rframe (rd_at D k c) = (rd_at D k (c + 7 + len), FCorrupt)) \/
  (exists t p, c + 7 + lenN p <= B /\
     rframe (rd_at D k c) = (rd_at D k (c + 7 + lenN p), FOk t p) /\
     sliceN (k * B + c) (k * B + c + 7 + lenN p) D = frame_bytes P t p).
Proof.
  intros Hc Hblk.
  unfold read_frame, StreamProofs.rd_at, HEADER_LEN. cbn [fr_corrupt fr_cursor fr_rd orb vr_block].
  destruct (N.ltb_spec (B - c) 7) as [Hlt|_]; [lia|].
  cbn [fr_corrupt fr_cursor fr_rd orb vr_block].
  set (blk := sliceN (k * B) ((k + 1) * B) D).
  assert (Lblk : lenN blk = B) by (apply lenN_block; exact Hblk).
  set (hdr := sliceN c (c + 7) blk).
  assert (Lhdr : lenN hdr = 7) by (unfold hdr; rewrite lenN_sliceN by lia; lia).
  destruct (all_zero hdr) eqn:Ez.
  { left. split; [reflexivity|]. unfold hdr, blk in Ez. rewrite sliceN_sliceN in Ez by lia.
    replace (k * B + (c + 7)) with (k * B + c + 7) in Ez by lia. exact Ez. }
  right.
  destruct (ft_of_code (le_dec (dropN 6 hdr))) as [t|] eqn:Et.
  2:{ left. exists c. reflexivity. }
  set (len := le_dec (sliceN 4 6 hdr)).
  destruct (N.ltb_spec B (c + 7 + len)) as [Hlong|Hfit].
  { left. exists (c + 7). reflexivity. }
  right.
  set (payload := sliceN (c + 7) (c + 7 + len) blk).
  assert (Lp : lenN payload = len) by (unfold payload; rewrite lenN_sliceN by lia; lia).
  destruct (N.eqb_spec (crcf P (n2b (ft_code t)) payload) (le_dec (takeN 4 hdr))) as [Ecrc|Ncrc].
  - right. exists t, payload. rewrite Lp. split; [exact Hfit|]. split; [reflexivity|].
    unfold frame_bytes. rewrite Ecrc, Lp.
    pose proof (hdr_decompose hdr t Lhdr Et) as Eh. fold len in Eh. rewrite <- Eh.
    unfold hdr, payload, blk. rewrite !sliceN_sliceN by lia.
    replace (k * B + (c + 7)) with (k * B + c + 7) by lia.
    replace (k * B + (c + 7 + len)) with (k * B + c + 7 + len) by lia.
    symmetry. apply sliceN_cat; lia.
  - left. exists len. split; [exact Hfit|reflexivity].
Qed.

(* a frame image (any 4 checksum bytes) standing at (k, c) of D *)
Lemma read_frame_present D k c x :
  lenN (fs_c4 x) = 4 -> c + 7 + lenN (fs_pl x) <= B -> (k + 1) * B <= lenN D ->
  sliceN (k * B + c) (k * B + c + 7 + lenN (fs_pl x)) D = fs_bytes x ->
  rframe (rd_at D k c) =
    (rd_at D k (c + 7 + lenN (fs_pl x)),
     if fs_good x then FOk (fs_ty x) (fs_pl x) else FCorrupt).
Proof.
  intros Hc4 Hfit Hblk Hsl.
  pose proof (split3 (k * B + c) (k * B + c + 7 + lenN (fs_pl x)) D) as HD.
  rewrite Hsl in HD. unfold fs_bytes in HD.
  rewrite (read_frame_gen_here D k c _ _ _ _ _ (HD ltac:(lia)) Hc4); try lia.
  - reflexivity.
  - rewrite lenN_takeN. lia.
Qed.

(* leaving block k: to the next block if there is one, otherwise the end *)
Definition leaves (D : bytes) (k : N) (fr : freader vecr) : Prop :=
  ((k + 2) * B <= lenN D -> rframe fr = rframe (rd_at D (k + 1) 0)) /\
  (lenN D < (k + 2) * B -> exists fr', rframe fr = (fr', FNotAvail)).

Lemma read_frame_nonext D k c cf :
  lenN D < (k + 2) * B -> cf = true \/ B - c < 7 ->
  exists fr', rframe (mkFR (rd_of D k) c cf) = (fr', FNotAvail).
Proof.
  intros Hlen Hskip. unfold read_frame, TornProofs.rd_of, HEADER_LEN.
  cbn [fr_corrupt fr_cursor fr_rd].
  assert (E : cf || (B - c <? 7) = true).
  { destruct Hskip as [->|H]; [reflexivity|]. apply orb_true_iff. right. apply N.ltb_lt. exact H. }
  rewrite E. unfold vr_next. cbn [vr_rest vr_block]. rewrite lenN_dropN.
  destruct (N.ltb_spec (lenN D - (k + 1) * B) B) as [_|Hge]; [|lia].
  eexists. reflexivity.
Qed.

Lemma leaves_skip D k c : B - c < 7 -> leaves D k (rd_at D k c).
Proof.
  intros Hc. split.
  - intros Hlen. apply read_frame_skip; [exact Hc|exact Hlen].
  - intros Hlen. apply (read_frame_nonext D k c false Hlen). right. exact Hc.
Qed.

Lemma leaves_flag D k c : leaves D k (mkFR (rd_of D k) c true).
Proof.
  split.
  - intros Hlen. apply read_frame_corruptflag. exact Hlen.
  - intros Hlen. apply (read_frame_nonext D k c true Hlen). left. reflexivity.
Qed.

(* ---------- traces from a normalised position ---------- *)
Definition tr (D : bytes) (r : N) (evs : list fev) : Prop :=
  exists k c, r = k * B + c /\ c + 7 <= B /\ (k + 1) * B <= lenN D /\ ftrace (rd_at D k c) evs.

Lemma tr_unnorm D k c evs :
  stream_ok D -> c <= B -> (k + 1) * B <= lenN D ->
  tr D (ffp (k * B + c)) evs -> ftrace (rd_at D k c) evs.
Proof.
  intros Hok Hc Hblk (k' & c' & Hr & Hc' & Hblk' & Hft).
  apply (ftrace_cong P _ (rd_at D k' c')); [|exact Hft].
  apply (at_pos_pad D (rd_at D k c) (k * B + c) k' c' Hok); try assumption.
  exists k, c. repeat split; assumption.
Qed.

Lemma leaves_out D k fr :
  leaves D k fr ->
  (lenN D < (k + 2) * B /\ ftrace fr []) \/
  ((k + 2) * B <= lenN D /\ forall evs, tr D ((k + 1) * B) evs -> ftrace fr evs).
Proof.
  intros [Hn He]. destruct (N.le_gt_cases ((k + 2) * B) (lenN D)) as [Hle|Hgt].
  - right. split; [exact Hle|]. intros evs (k' & c' & Hr & Hc' & Hblk' & Hft).
    destruct (kc_unique (k + 1) 0 k' c') as [<- <-]; [lia|lia|lia|].
    apply (ftrace_cong P _ (rd_at D (k + 1) 0)); [apply Hn; exact Hle|exact Hft].
  - left. split; [exact Hgt|]. destruct (He Hgt) as [fr' Hf]. exact (FT_end P _ _ Hf).
Qed.

Lemma tr_zero D k c :
  c + 7 <= B -> (k + 1) * B <= lenN D ->
  all_zero (sliceN (k * B + c) (k * B + c + 7) D) = true -> tr D (k * B + c) [].
Proof.
  intros Hc Hblk Hz. exists k, c. repeat split; try assumption.
  apply (FT_end P _ (rd_at D k c)). apply read_frame_zero; [lia|].
  rewrite sliceN_sliceN by lia. replace (k * B + (c + 7)) with (k * B + c + 7) by lia. exact Hz.
Qed.


(* ---------- (D) frames with their positions ---------- *)
Fixpoint fpos (a : N) (xs : list fspec) : list (N * fspec) :=
  match xs with
  | [] => []
  | x :: r => (a + lenN (pad_of a), x) :: fpos (a + lenN (pad_of a) + 7 + lenN (fs_pl x)) r
  end.

Definition qend (qx : N * fspec) : N := fst qx + 7 + lenN (fs_pl (snd qx)).

(* positions at or after lo, frames not overlapping *)
Fixpoint spaced (lo : N) (G : list (N * fspec)) : Prop :=
  match G with [] => True | qx :: r => lo <= fst qx /\ spaced (qend qx) r end.

Lemma map_snd_fpos xs : forall a, map snd (fpos a xs) = xs.
Proof. induction xs as [|x xs IH]; intros a; cbn [fpos map snd]; [reflexivity|]. now rewrite IH. Qed.

Lemma lenN_fs_bytes x : lenN (fs_c4 x) = 4 -> lenN (fs_bytes x) = 7 + lenN (fs_pl x).
Proof. intros H. unfold fs_bytes. apply lenN_dframe. exact H. Qed.

Lemma layout_step_pos a x (e : bytes) :
  lenN (fs_c4 x) = 4 ->
  a + lenN (pad_of a ++ fs_bytes x ++ e) = a + lenN (pad_of a) + 7 + lenN (fs_pl x) + lenN e.
Proof. intros H. rewrite !lenN_app, lenN_fs_bytes by exact H. lia. Qed.

Lemma fpos_app a xs1 e1 : layout a xs1 e1 ->
  forall xs2, fpos a (xs1 ++ xs2) = fpos a xs1 ++ fpos (a + lenN e1) xs2.
Proof.
  induction 1 as [a | a x xs e Hc4 Hfit Hl IH]; intros xs2.
  - cbn [app fpos]. rewrite (@lenN_nil byte), N.add_0_r. reflexivity.
  - cbn [app fpos]. f_equal. rewrite IH. f_equal. f_equal. rewrite layout_step_pos by exact Hc4. reflexivity.
Qed.

Lemma spaced_fpos xs : forall a lo, lo <= ffp a -> spaced lo (fpos a xs).
Proof.
  induction xs as [|x xs IH]; intros a lo H; cbn [fpos spaced]; [exact I|].
  split; [exact H|]. apply IH. unfold qend, first_frame_pos. cbn [fst snd]. lia.
Qed.

Lemma spaced_fpos_or xs a lo : xs = [] \/ lo <= ffp a -> spaced lo (fpos a xs).
Proof. intros [->|H]; [exact I|]. apply spaced_fpos. exact H. Qed.

Lemma fpos_bounds a xs e : layout a xs e ->
  Forall (fun qx => a <= fst qx /\ qend qx <= a + lenN e) (fpos a xs).
Proof.
  induction 1 as [a | a x xs e Hc4 Hfit Hl IH]; cbn [fpos]; constructor.
  - unfold qend. cbn [fst snd]. rewrite layout_step_pos by exact Hc4. lia.
  - eapply Forall_impl; [|exact IH]. intros qx [H1 H2]. rewrite layout_step_pos by exact Hc4. lia.
Qed.

Definition present1 (D : bytes) (qx : N * fspec) : Prop :=
  sliceN (fst qx) (qend qx) D = fs_bytes (snd qx).

Lemma layout_present a xs e : layout a xs e ->
  forall D pre post, D = pre ++ e ++ post -> lenN pre = a -> Forall (present1 D) (fpos a xs).
Proof.
  induction 1 as [a | a x xs e Hc4 Hfit Hl IH]; intros D pre post HD Hpre; cbn [fpos]; constructor.
  - unfold present1, qend. cbn [fst snd].
    rewrite HD, <- !app_assoc, (app_assoc pre).
    apply sliceN_app_mid'; [rewrite lenN_app; lia|]. rewrite lenN_fs_bytes by exact Hc4. lia.
  - apply (IH D (pre ++ pad_of a ++ fs_bytes x) post).
    + rewrite HD, <- !app_assoc. reflexivity.
    + rewrite !lenN_app, lenN_fs_bytes by exact Hc4. lia.
Qed.

(* every frame lies within one block *)
Definition fits1 (qx : N * fspec) : Prop := exists k, k * B <= fst qx /\ qend qx <= (k + 1) * B.

Lemma layout_fits a xs e : layout a xs e -> Forall fits1 (fpos a xs).
Proof.
  induction 1 as [a | a x xs e Hc4 Hfit Hl IH]; cbn [fpos]; constructor; [|exact IH].
  destruct (pad_geom a) as (k' & c' & Hp & Hc' & Hmw & _).
  exists k'. unfold qend. cbn [fst snd]. lia.
Qed.

Lemma spaced_split lo' : forall R lo, spaced lo R ->
  exists Rs R', R = Rs ++ R' /\ Forall (fun qx => fst qx < lo') Rs /\ spaced lo' R'.
Proof.
  induction R as [|qx r IH]; intros lo H.
  - exists [], []. repeat split; constructor.
  - destruct H as [H1 H2]. destruct (N.lt_ge_cases (fst qx) lo') as [Hlt|Hge].
    + destruct (IH _ H2) as (Rs & R' & -> & HF & HS).
      exists (qx :: Rs), R'. repeat split; [constructor; assumption|exact HS].
    + exists [], (qx :: r). repeat split; [constructor|exact Hge|exact H2].
Qed.

Lemma spaced_in_ge R : forall lo qx, spaced lo R -> In qx R -> lo <= fst qx.
Proof.
  induction R as [|q1 r IH]; intros lo qx H Hin; [contradiction|].
  destruct H as [H1 H2]. destruct Hin as [<-|Hin]; [exact H1|].
  pose proof (IH _ _ H2 Hin) as H. unfold qend in H. lia.
Qed.

Lemma spaced_head lo R x : spaced lo R -> In (lo, x) R ->
  exists r, R = (lo, x) :: r /\ spaced (qend (lo, x)) r.
Proof.
  destruct R as [|q1 r]; [contradiction|]. intros [H1 H2] [E|Hin].
  - subst q1. exists r. split; [reflexivity|exact H2].
  - pose proof (spaced_in_ge _ _ _ H2 Hin) as H. unfold qend in H. cbn [fst] in H. lia.
Qed.

Lemma split_prefix lo A : forall R A' R',
  Forall (fun qx => fst qx < lo) A -> spaced lo R' -> A ++ R = A' ++ R' ->
  exists M, A' = A ++ M /\ R = M ++ R'.
Proof.
  induction A as [|y A IH]; intros R A' R' HA HR' E.
  - exists A'. split; [reflexivity|exact E].
  - destruct A' as [|y' A'].
    + cbn [app] in E. subst R'. destruct HR' as [H1 _].
      pose proof (Forall_inv HA) as H. cbn beta in H. lia.
    + cbn [app] in E. inversion E as [[Ey E']]. subst y'.
      destruct (IH R A' R' (Forall_inv_tail HA) HR' E') as (M & -> & ->).
      exists M. split; reflexivity.
Qed.

Lemma split_unique lo A R A' R' :
  Forall (fun qx => fst qx < lo) A -> spaced lo R ->
  Forall (fun qx => fst qx < lo) A' -> spaced lo R' ->
  A ++ R = A' ++ R' -> A = A' /\ R = R'.
Proof.
  intros HA HR HA' HR' E.
  destruct (split_prefix lo A R A' R' HA HR' E) as (M & EA & ER).
  destruct M as [|m M].
  - rewrite app_nil_r in EA. subst. split; reflexivity.
  - exfalso. subst R. destruct HR as [H1 _].
    rewrite Forall_forall in HA'. specialize (HA' m). rewrite EA in HA'.
    specialize (HA' ltac:(apply in_or_app; right; left; reflexivity)). lia.
Qed.

(* a block boundary splits a layout into whole frames *)
Lemma layout_split a xs e : layout a xs e -> forall kb, a <= kb * B ->
  exists xs1 xs2 e1 e2,
    xs = xs1 ++ xs2 /\ e = e1 ++ e2 /\ layout a xs1 e1 /\ layout (a + lenN e1) xs2 e2 /\
    a + lenN e1 <= kb * B /\ (xs2 = [] \/ kb * B <= ffp (a + lenN e1)).
Proof.
  induction 1 as [a | a x xs e Hc4 Hfit Hl IH]; intros kb Ha.
  - exists [], [], [], []. rewrite (@lenN_nil byte), N.add_0_r.
    repeat split; try constructor. exact Ha. reflexivity.
  - destruct (N.le_gt_cases (kb * B) (ffp a)) as [Hle|Hgt].
    + exists [], (x :: xs), [], (pad_of a ++ fs_bytes x ++ e).
      rewrite (@lenN_nil byte), N.add_0_r.
      repeat split; [constructor|apply LY_cons; assumption|exact Ha|right; exact Hle].
    + destruct (pad_geom a) as (k' & c' & Hp & Hc' & Hmw & _).
      unfold first_frame_pos in Hgt.
      pose proof (blocks_above kb k' (c' + 1)) as Hb.
      destruct (IH kb) as (xs1 & xs2 & e1 & e2 & -> & -> & L1 & L2 & Hle & Hor); [lia|].
      exists (x :: xs1), xs2, (pad_of a ++ fs_bytes x ++ e1), e2.
      rewrite layout_step_pos by exact Hc4.
      repeat split.
      * now rewrite <- !app_assoc.
      * apply LY_cons; assumption.
      * exact L2.
      * exact Hle.
      * exact Hor.
Qed.

(* ---------- reading a run of frames that are present in D ---------- *)
Lemma run_frames D : stream_ok D -> forall a xs e, layout a xs e ->
  forallb fs_good xs = true -> Forall (present1 D) (fpos a xs) ->
  ffp (a + lenN e) + 7 <= lenN D ->
  forall evs, tr D (ffp (a + lenN e)) evs -> tr D (ffp a) (map ev_of xs ++ evs).
Proof.
  intros Hok a xs e Hl.
  induction Hl as [a | a x xs e Hc4 Hfit Hl IH]; intros Hg Hpres Hroom evs Htr.
  - rewrite (@lenN_nil byte), N.add_0_r in Htr. exact Htr.
  - cbn [forallb] in Hg. apply andb_true_iff in Hg as [Hgx Hg].
    cbn [fpos] in Hpres. pose proof (Forall_inv Hpres) as Hp1. apply Forall_inv_tail in Hpres.
    unfold present1, qend in Hp1. cbn [fst snd] in Hp1.
    destruct (pad_geom a) as (k' & c' & Hp & Hc' & Hmw & _).
    rewrite layout_step_pos in Hroom, Htr by exact Hc4.
    set (a' := a + lenN (pad_of a) + 7 + lenN (fs_pl x)) in *.
    pose proof (IH Hg Hpres Hroom evs Htr) as Hrest.
    assert (Hge : a' + lenN e <= ffp (a' + lenN e)) by (unfold first_frame_pos; lia).
    assert (Hblk : (k' + 1) * B <= lenN D) by (apply (block_exists D k' c' 7 Hok); lia).
    exists k', c'. split; [exact Hp|]. split; [exact Hc'|]. split; [exact Hblk|].
    cbn [map app].
    apply (FT_ok P _ (rd_at D k' (c' + 7 + lenN (fs_pl x)))).
    + assert (Hsl : sliceN (k' * B + c') (k' * B + c' + 7 + lenN (fs_pl x)) D = fs_bytes x)
        by (rewrite <- Hp; exact Hp1).
      rewrite (read_frame_present D k' c' x Hc4 ltac:(lia) Hblk Hsl).
      rewrite Hgx. reflexivity.
    + apply (tr_unnorm D k' _ _ Hok); [lia|exact Hblk|].
      replace (k' * B + (c' + 7 + lenN (fs_pl x))) with a' by (unfold a'; lia).
      exact Hrest.
Qed.

(* ---------- (E) the damaged block ---------- *)
(* the only places of block b of D where the byte image of a CRC-valid frame stands are the
   starts of frames the writer put there, and the image is that frame *)
Definition NoEmbeddedX (D : bytes) (b : N) (xs : list fspec) : Prop :=
  forall o t p, o + 7 + lenN p <= B ->
    sliceN (b * B + o) (b * B + o + 7 + lenN p) D = frame_bytes P t p ->
    In (b * B + o, good_fs t p) (fpos 0 xs).

(* the cursor positions the frame reader goes through inside block b, entering it at 0: after a
   valid header it continues at cursor + 7 + length field, whether the CRC matched or not *)
Inductive reach (D : bytes) (b : N) : N -> Prop :=
| reach_0 : reach D b 0
| reach_step c c' res :
    reach D b c -> c + 7 <= B -> rframe (rd_at D b c) = (rd_at D b c', res) -> reach D b c'.

(* the same requirement, only at the places the reader actually visits: the weakest form *)
Definition NoEmbeddedPathX (D : bytes) (b : N) (xs : list fspec) : Prop :=
  forall o, reach D b o -> forall t p, o + 7 + lenN p <= B ->
    sliceN (b * B + o) (b * B + o + 7 + lenN p) D = frame_bytes P t p ->
    In (b * B + o, good_fs t p) (fpos 0 xs).

Lemma NoEmbeddedX_path D b xs : NoEmbeddedX D b xs -> NoEmbeddedPathX D b xs.
Proof. intros H o _ t p. apply H. Qed.

(* equivalently: every frame the reader ACCEPTS on its way through block b is a frame the
   writer put at that very place *)
Lemma accepted_genuine_path D b xs :
  (b + 1) * B <= lenN D ->
  (forall o, reach D b o -> o + 7 <= B -> forall fr' t p,
     rframe (rd_at D b o) = (fr', FOk t p) -> In (b * B + o, good_fs t p) (fpos 0 xs)) ->
  NoEmbeddedPathX D b xs.
Proof.
  intros Hblk H o Hr t p Hfit Hsl.
  pose proof (read_frame_present D b o (good_fs t p)) as E.
  rewrite (good_fs_bytes P), (good_fs_good P Hcrc) in E.
  cbn [DamageProofs.good_fs fs_c4 fs_ty fs_pl] in E.
  eapply (H o Hr); [lia|]. apply E; [apply length_le_enc|exact Hfit|exact Hblk|exact Hsl].
Qed.

Lemma accepted_genuine_all D b xs :
  (b + 1) * B <= lenN D ->
  (forall o, o + 7 <= B -> forall fr' t p,
     rframe (rd_at D b o) = (fr', FOk t p) -> In (b * B + o, good_fs t p) (fpos 0 xs)) ->
  NoEmbeddedX D b xs.
Proof.
  intros Hblk H o t p Hfit Hsl.
  pose proof (read_frame_present D b o (good_fs t p)) as E.
  rewrite (good_fs_bytes P), (good_fs_good P Hcrc) in E.
  cbn [DamageProofs.good_fs fs_c4 fs_ty fs_pl] in E.
  eapply (H o); [lia|]. apply E; [apply length_le_enc|exact Hfit|exact Hblk|exact Hsl].
Qed.

(* the reader ended inside block b: it met an all-zero header on its way through the block
   (which reads as the end of the log), or there is no block after b *)
Definition stopped_in (D : bytes) (b : N) : Prop :=
  lenN D < (b + 2) * B \/
  exists o, reach D b o /\ o + 7 <= B /\ all_zero (sliceN (b * B + o) (b * B + o + 7) D) = true.

Section Chain.
Variable D : bytes.
Variable b : N.
Variable xs : list fspec.
Hypothesis Hok : stream_ok D.
Hypothesis Hblk : (b + 1) * B <= lenN D.
Hypothesis Hne : NoEmbeddedPathX D b xs.
Hypothesis Hfits : Forall fits1 (fpos 0 xs).

Definition outcome (fr : freader vecr) (evs : list fev) (R' : list (N * fspec)) : Prop :=
  (ftrace fr evs /\ stopped_in D b) \/
  ((b + 2) * B <= lenN D /\ spaced ((b + 1) * B) R' /\
   forall evs3, tr D ((b + 1) * B) evs3 -> ftrace fr (evs ++ evs3)).

Lemma chain_end c st Gd R :
  c <= B -> B - c < 7 -> fpos 0 xs = Gd ++ R -> spaced (b * B + c) R ->
  exists evs Rc R' st',
    R = Rc ++ R' /\ thin st (map snd Rc) evs st' /\
    Forall (fun qx => fst qx < (b + 1) * B) Rc /\
    7 * N.of_nat (length evs) <= B - c + 7 /\ outcome (rd_at D b c) evs R'.
Proof.
  intros Hc Hend HG HR. exists [], [], R, st.
  split; [reflexivity|]. split; [constructor|]. split; [constructor|]. split; [cbn [length]; lia|].
  destruct (leaves_out D b _ (leaves_skip D b c Hend)) as [[Hno Hl] | [Hlen Hl]];
    [left; split; [exact Hl|left; exact Hno]|right].
  split; [exact Hlen|]. split; [|intros evs3 H3; exact (Hl _ H3)].
  destruct R as [|qx r]; [exact I|]. destruct HR as [H1 H2]. split; [|exact H2].
  rewrite Forall_forall in Hfits.
  destruct (Hfits qx) as (k' & Hk1 & Hk2).
  { rewrite HG. apply in_or_app. right. left. reflexivity. }
  unfold qend in Hk2.
  destruct (N.le_gt_cases ((b + 1) * B) (fst qx)) as [Hle|Hgt]; [exact Hle|exfalso].
  assert (Hk : k' < b + 1) by (apply mulB_lt_inv; lia).
  assert (Hk' : k' + 1 <= b + 1) by lia.
  pose proof (mulB_le _ _ Hk'). lia.
Qed.

Lemma chain n : forall c, c <= B -> B - c <= N.of_nat n -> reach D b c ->
  forall st Gd R, fpos 0 xs = Gd ++ R ->
    Forall (fun qx => fst qx < b * B + c) Gd -> spaced (b * B + c) R ->
  exists evs Rc R' st',
    R = Rc ++ R' /\ thin st (map snd Rc) evs st' /\
    Forall (fun qx => fst qx < (b + 1) * B) Rc /\
    7 * N.of_nat (length evs) <= B - c + 7 /\ outcome (rd_at D b c) evs R'.
Proof.
  induction n as [|n IH]; intros c Hc Hn Hrc st Gd R HG HGd HR;
    (destruct (N.lt_ge_cases (B - c) 7) as [Hend|Hroom];
     [apply (chain_end c st Gd R Hc Hend HG HR)|]); [lia|].
  assert (Hroom' : c + 7 <= B) by lia.
  destruct (read_frame_cases D b c) as
    [Hz | [(c' & Hbad) | [(len & Hfit & Hbad) | (t & p & Hfit & Hgood & Hsl)]]]; [lia|exact Hblk| | | |].
  - (* zero header: the reader stops *)
    exists [], [], R, st.
    split; [reflexivity|]. split; [constructor|]. split; [constructor|]. split; [cbn [length]; lia|].
    left. destruct Hz as [Hz Hzero]. split; [exact (FT_end P _ _ Hz)|].
    right. exists c. split; [exact Hrc|]. split; [exact Hroom'|exact Hzero].
  - (* invalid header: the rest of the block is dropped *)
    destruct (spaced_split ((b + 1) * B) R _ HR) as (Rs & R1 & -> & HRs & HR1).
    exists [EvBad], Rs, R1, false.
    split; [reflexivity|]. split.
    { apply T_bad. rewrite <- (app_nil_r (map snd Rs)). apply thin_skips. constructor. }
    split; [exact HRs|]. split; [cbn [length]; lia|].
    destruct (leaves_out D b _ (leaves_flag D b c')) as [[Hno Hl] | [Hlen Hl]].
    + left. split; [exact (FT_bad P _ _ _ Hbad Hl)|left; exact Hno].
    + right. split; [exact Hlen|]. split; [exact HR1|].
      intros evs3 H3. cbn [app]. exact (FT_bad P _ _ _ Hbad (Hl _ H3)).
  - (* valid header, CRC mismatch: jump by the (untrusted) length *)
    destruct (spaced_split (b * B + (c + 7 + len)) R _ HR) as (Rs & R1 & -> & HRs & HR1).
    destruct (IH (c + 7 + len) Hfit ltac:(lia) (reach_step D b _ _ _ Hrc Hroom' Hbad) false (Gd ++ Rs) R1) as
      (evs' & Rc' & R' & st' & -> & Hth & HF & Hlen' & Hout).
    { rewrite HG, app_assoc. reflexivity. }
    { apply Forall_app. split; [|exact HRs].
      eapply Forall_impl; [|exact HGd]. intros qx H. cbn beta in H. lia. }
    { exact HR1. }
    exists (EvBad :: evs'), (Rs ++ Rc'), R', st'.
    split; [now rewrite app_assoc|]. split.
    { rewrite map_app. apply T_bad. apply thin_skips. exact Hth. }
    split.
    { apply Forall_app. split; [|exact HF].
      eapply Forall_impl; [|exact HRs]. intros qx H. cbn beta in H. lia. }
    split; [cbn [length]; lia|].
    destruct Hout as [[Hl Hst] | (Hlen2 & Hsp & Hl)].
    + left. split; [exact (FT_bad P _ _ _ Hbad Hl)|exact Hst].
    + right. split; [exact Hlen2|]. split; [exact Hsp|].
      intros evs3 H3. cbn [app]. exact (FT_bad P _ _ _ Hbad (Hl _ H3)).
  - (* a frame verifies: by NoEmbedded it is the next genuine frame *)
    pose proof (Hne c Hrc t p Hfit Hsl) as Hin. rewrite HG in Hin.
    apply in_app_or in Hin as [Hin|Hin].
    { rewrite Forall_forall in HGd. specialize (HGd _ Hin). cbn [fst] in HGd. lia. }
    destruct (spaced_head _ _ _ HR Hin) as (r & -> & Hr).
    unfold qend in Hr. cbn [fst snd DamageProofs.good_fs fs_pl] in Hr.
    destruct (IH (c + 7 + lenN p) Hfit ltac:(lia) (reach_step D b _ _ _ Hrc Hroom' Hgood) true
                (Gd ++ [(b * B + c, good_fs t p)]) r) as
      (evs' & Rc' & R' & st' & -> & Hth & HF & Hlen' & Hout).
    { rewrite HG, <- app_assoc. reflexivity. }
    { apply Forall_app. split.
      - eapply Forall_impl; [|exact HGd]. intros qx H. cbn beta in H. lia.
      - constructor; [cbn [fst]; lia|constructor]. }
    { replace (b * B + (c + 7 + lenN p)) with (b * B + c + 7 + lenN p) by lia. exact Hr. }
    exists (EvOk t p :: evs'), ((b * B + c, good_fs t p) :: Rc'), R', st'.
    split; [reflexivity|]. split.
    { cbn [map snd]. exact (T_ok st (good_fs t p) _ _ _ Hth). }
    split; [constructor; [cbn [fst]; lia|exact HF]|].
    split; [cbn [length]; lia|].
    destruct Hout as [[Hl Hst] | (Hlen2 & Hsp & Hl)].
    + left. split; [exact (FT_ok P _ _ _ _ _ Hgood Hl)|exact Hst].
    + right. split; [exact Hlen2|]. split; [exact Hsp|].
      intros evs3 H3. cbn [app]. exact (FT_ok P _ _ _ _ _ Hgood (Hl _ H3)).
Qed.

End Chain.


(* ---------- (F) glue ---------- *)
Local Notation encs_any := (encs_any P).
Local Notation intact := (intact P).
Local Notation boundary_is_ffp := (H2 ResyncProofs.boundary_is_ffp).
Local Notation ffp_le_boundary := (H2 ResyncProofs.ffp_le_boundary).
Local Notation ffp_aligned := (H2 ResyncProofs.ffp_aligned).
Local Notation at_pos_open := (H3 DamageProofs.at_pos_open).
Local Notation encs_any_layout := (H3 DamageProofs.encs_any_layout).
Local Notation layout_app := (H3 DamageProofs.layout_app).
Local Notation layout_len := (H3 DamageProofs.layout_len).
Local Notation mem_stream_shape := (H3 StreamProofs.mem_stream_shape).

(* a boundary lying in the padding before the frame written at a: it is also at or before the
   first frame of any later cursor *)
Lemma ffp_after_boundary a a' kb :
  a <= a' -> a <= kb * B -> kb * B <= ffp a -> kb * B <= ffp a'.
Proof.
  intros Haa Ha Hk.
  assert (Hge : a' <= ffp a') by (unfold first_frame_pos; lia).
  destruct (N.le_gt_cases (kb * B) a') as [Hle|Hgt]; [lia|].
  pose proof (boundary_is_ffp a kb Ha Hk) as E.
  unfold first_frame_pos in E.
  destruct (pad_geom a) as (k1 & c1 & Hp1 & Hc1 & _ & [Hz | (Hc0 & Hpad & k0 & Hk1 & Ha0)]); [lia|].
  destruct (pad_geom a') as (k2 & c2 & Hp2 & Hc2 & _).
  destruct (N.le_gt_cases (kb * B) (ffp a')) as [Hok|Hbad]; [exact Hok|exfalso].
  unfold first_frame_pos in Hbad, Hge.
  pose proof (blocks_above kb k2 (c2 + 1)) as Hb. lia.
Qed.

Lemma layout_nil_inv a e : layout a [] e -> e = [].
Proof. intros H. inversion H. reflexivity. Qed.

Lemma encs_any_nil_inv a t : encs_any a [] t -> t = [].
Proof. intros H. inversion H. reflexivity. Qed.

Lemma intact_flat pxs : forallb intact pxs = true -> forallb fs_good (flat_map snd pxs) = true.
Proof.
  induction pxs as [|px pxs IH]; intros H; [reflexivity|].
  cbn [forallb] in H. apply andb_true_iff in H as [H1 H2].
  cbn [flat_map]. rewrite forallb_app. unfold DamageProofs.intact in H1. rewrite H1, (IH H2). reflexivity.
Qed.

Lemma present_lo D S n G :
  takeN n D = takeN n S -> Forall (present1 S) G -> Forall (fun qx => qend qx <= n) G ->
  Forall (present1 D) G.
Proof.
  intros E HS HG. rewrite Forall_forall in *. intros qx Hin. unfold present1.
  rewrite (sliceN_agree_lo n _ _ D S E (HG _ Hin)). exact (HS _ Hin).
Qed.

Lemma present_hi D S n G :
  dropN n D = dropN n S -> Forall (present1 S) G -> Forall (fun qx => n <= fst qx) G ->
  Forall (present1 D) G.
Proof.
  intros E HS HG. rewrite Forall_forall in *. intros qx Hin. unfold present1.
  rewrite (sliceN_agree_hi n _ _ D S E (HG _ Hin)). exact (HS _ Hin).
Qed.

Lemma spaced_all_ge R : forall lo, spaced lo R -> Forall (fun qx => lo <= fst qx) R.
Proof.
  intros lo H. rewrite Forall_forall. intros qx Hin. exact (spaced_in_ge _ _ _ H Hin).
Qed.

Lemma kB_c_zero k c : 0 = k * B + c -> k = 0 /\ c = 0.
Proof.
  intros H. destruct (N.eq_dec k 0) as [->|Hk]; [lia|].
  assert (H1 : 1 <= k) by lia. pose proof (mulB_le _ _ H1). lia.
Qed.

Lemma read_stream_trace D evs :
  B <= lenN D -> tr D 0 evs -> 7 * N.of_nat (length evs) <= lenN D + 7 ->
  mem_read_stream P D = asm evs [] false.
Proof.
  intros HB (k & c & Hr & Hc & Hblk & Hft) Hlen.
  destruct (kB_c_zero _ _ Hr) as [-> ->].
  destruct (at_pos_open D HB) as (k' & c' & Hr' & Hc' & Hblk' & Hfr).
  destruct (kB_c_zero _ _ Hr') as [-> ->].
  unfold mem_read_stream.
  change (mem_open_reader P D) with (mkRR (rr_fr (mem_open_reader P D)) [] false).
  rewrite Hfr.
  assert (Hf : 7 * N.of_nat (length evs) + 7 <=
               7 * N.of_nat (N.to_nat (lenN D / HEADER_LEN + lenN D / B + 4))).
  { unfold HEADER_LEN. pose proof (N.div_mod (lenN D) 7) as Hdm. pose proof (N.mod_lt (lenN D) 7) as Hlt.
    set (r := lenN D mod 7) in *. clearbody r. nodiv. lia. }
  apply (mem_read_all_trace P); [exact Hft|lia|lia].
Qed.

Lemma sublist_refl {A} (l : list A) : sublist l l.
Proof. induction l; constructor; assumption. Qed.

Lemma sublist_nil_l {A} (l : list A) : sublist [] l.
Proof. induction l; constructor; assumption. Qed.

Lemma sublist_app {A} (a a' : list A) : sublist a a' ->
  forall b b', sublist b b' -> sublist (a ++ b) (a' ++ b').
Proof.
  induction 1 as [|x l1 l2 H IH|x l1 l2 H IH]; intros b b' Hb; cbn [app].
  - exact Hb.
  - apply SL_skip. apply IH. exact Hb.
  - apply SL_keep. apply IH. exact Hb.
Qed.


(* ---------- (G) the theorem, on a frame decomposition of the entries ---------- *)
(* entries pxs1 end at or before block b, entries pxs3 start at or after its end, pxsb are
   those in between (the ones with a frame in block b) *)
Theorem header_damage_core pxs1 pxsb pxs3 t1 tb t3 D b :
  encs_any 0 pxs1 t1 -> forallb intact pxs1 = true ->
  encs_any (lenN t1) pxsb tb -> forallb intact pxsb = true ->
  encs_any (lenN t1 + lenN tb) pxs3 t3 -> forallb intact pxs3 = true ->
  lenN D = lenN (mem_stream P (t1 ++ tb ++ t3)) ->
  takeN (b * B) D = takeN (b * B) (mem_stream P (t1 ++ tb ++ t3)) ->
  dropN ((b + 1) * B) D = dropN ((b + 1) * B) (mem_stream P (t1 ++ tb ++ t3)) ->
  (b + 1) * B <= lenN D ->
  lenN t1 <= b * B ->
  (pxs3 = [] \/ (b + 1) * B <= ffp (lenN t1 + lenN tb)) ->
  NoEmbeddedPathX D b (flat_map snd (pxs1 ++ pxsb ++ pxs3)) ->
  exists evs mid tail,
    mem_read_stream P D = asm evs [] false /\
    delivered (mem_read_stream P D) = map fst pxs1 ++ mid ++ tail /\
    sublist mid (map fst pxsb) /\ (tail = map fst pxs3 \/ (tail = [] /\ stopped_in D b)).
Proof.
  intros E1 G1 Eb Gb E3 G3 HlenD Hlo Hhi Hb H1pos H3pos Hne.
  pose proof (encs_any_layout _ _ _ E1) as L1.
  pose proof (encs_any_layout _ _ _ Eb) as Lb.
  pose proof (encs_any_layout _ _ _ E3) as L3.
  destruct (mem_stream_shape (t1 ++ tb ++ t3)) as (z & nb & HS & HlenS & Hnb).
  set (S := mem_stream P (t1 ++ tb ++ t3)) in *.
  assert (Hok : stream_ok D) by (exists (nb + 1); lia).
  destruct (layout_split _ _ _ Lb b H1pos) as (H & X2 & eH & e2 & EFb & Etb & LH & LX2 & HaH & HorH).
  set (aH := lenN t1 + lenN eH) in *.
  destruct (layout_split _ _ _ LX2 (b + 1)) as (Xb & T & eb & eT & EX2 & Ee2 & LXb & LT & HaT & HorT); [lia|].
  set (aT := aH + lenN eb) in *.
  set (F1 := flat_map snd pxs1) in *. set (F3 := flat_map snd pxs3) in *.
  assert (Hpos3 : aT + lenN eT = lenN t1 + lenN tb).
  { rewrite Etb, Ee2, !lenN_app. unfold aT, aH. lia. }
  assert (L3' : layout (aT + lenN eT) F3 t3) by (rewrite Hpos3; exact L3).
  pose proof (layout_app _ _ _ LT _ _ L3') as LY.
  assert (LH' : layout (0 + lenN t1) H eH) by (rewrite N.add_0_l; exact LH).
  pose proof (layout_app _ _ _ L1 _ _ LH') as L1H.
  assert (HlenL1H : 0 + lenN (t1 ++ eH) = aH) by (rewrite lenN_app; unfold aH; lia).
  pose proof (layout_app aH Xb eb LXb _ _ LY) as LXbY.
  assert (LXbY' : layout (0 + lenN (t1 ++ eH)) (Xb ++ T ++ F3) (eb ++ eT ++ t3))
    by (rewrite HlenL1H; exact LXbY).
  pose proof (layout_app _ _ _ L1H _ _ LXbY') as Lxs.
  assert (Et : t1 ++ tb ++ t3 = (t1 ++ eH) ++ eb ++ eT ++ t3).
  { rewrite Etb, Ee2, <- !app_assoc. reflexivity. }
  assert (Exs : flat_map snd (pxs1 ++ pxsb ++ pxs3) = (F1 ++ H) ++ Xb ++ T ++ F3).
  { rewrite !flat_map_app, EFb, EX2, <- !app_assoc. reflexivity. }
  set (xs := (F1 ++ H) ++ Xb ++ T ++ F3) in *.
  assert (Hfp : fpos 0 xs = fpos 0 (F1 ++ H) ++ fpos aH Xb ++ fpos aT (T ++ F3)).
  { unfold xs. rewrite (fpos_app 0 _ _ L1H), HlenL1H, (fpos_app aH _ _ LXb). reflexivity. }
  assert (Gxs : forallb fs_good xs = true).
  { rewrite <- Exs. apply intact_flat. rewrite !forallb_app, G1, Gb, G3. reflexivity. }
  assert (GG : forallb fs_good (F1 ++ H) = true /\ forallb fs_good (T ++ F3) = true).
  { unfold xs in Gxs.
    rewrite (forallb_app _ (F1 ++ H) (Xb ++ T ++ F3)), (forallb_app _ Xb (T ++ F3)) in Gxs.
    apply andb_true_iff in Gxs as [Ha Hb']. apply andb_true_iff in Hb' as [_ Hc]. split; assumption. }
  destruct GG as [G1H GY].
  (* the frames outside block b stand in D *)
  assert (PresS : Forall (present1 S) (fpos 0 xs)).
  { apply (layout_present 0 xs _ Lxs S [] (zerosN z)); [|reflexivity].
    rewrite HS, Et. reflexivity. }
  rewrite Hfp in PresS. apply Forall_app in PresS as [PS1 PS3]. apply Forall_app in PS3 as [_ PS3].
  assert (PD1 : Forall (present1 D) (fpos 0 (F1 ++ H))).
  { apply (present_lo D S (b * B) _ Hlo PS1).
    eapply Forall_impl; [|exact (fpos_bounds _ _ _ L1H)]. intros qx [_ Hq]. lia. }
  assert (HY : T ++ F3 = [] \/ (b + 1) * B <= ffp aT).
  { destruct HorT as [ET | HT]; [|right; exact HT]. subst T.
    pose proof (layout_nil_inv _ _ LT) as EeT. subst eT.
    rewrite (@lenN_nil byte), N.add_0_r in Hpos3.
    destruct H3pos as [E3'|H3]; [left; unfold F3; rewrite E3'; reflexivity|right].
    rewrite Hpos3. exact H3. }
  pose proof (spaced_fpos_or _ _ _ HY) as SpY.
  assert (PD3 : Forall (present1 D) (fpos aT (T ++ F3))).
  { exact (present_hi D S ((b + 1) * B) _ Hhi PS3 (spaced_all_ge _ _ SpY)). }
  set (lt := lenN (t1 ++ tb ++ t3)) in *.
  assert (Hlt : lt = aT + lenN eT + lenN t3).
  { unfold lt. rewrite Et, !lenN_app. unfold aT, aH. lia. }
  assert (Zlo : forall r, lt <= r -> r + 7 <= b * B -> all_zero (sliceN r (r + 7) D) = true).
  { intros r H1 H2. rewrite (sliceN_agree_lo (b * B) r (r + 7) D S Hlo H2), HS.
    apply slice_zero. exact H1. }
  assert (Zhi : forall r, lt <= r -> (b + 1) * B <= r -> all_zero (sliceN r (r + 7) D) = true).
  { intros r H1 H2. rewrite (sliceN_agree_hi ((b + 1) * B) r (r + 7) D S Hhi H2), HS.
    apply slice_zero. exact H1. }
  assert (ffp0 : ffp 0 = 0).
  { pose proof (ffp_aligned 0) as E. rewrite N.mul_0_l in E. exact E. }
  pose proof (ffp_le_boundary aH b HaH) as HffH.
  assert (P1 : forall evs, tr D (ffp aH) evs -> tr D 0 (map ev_of (F1 ++ H) ++ evs)).
  { intros evs Htr. pose proof (run_frames D Hok 0 (F1 ++ H) (t1 ++ eH) L1H G1H PD1) as R.
    rewrite HlenL1H, ffp0 in R. apply R; [lia|exact Htr]. }
  assert (P3 : (b + 2) * B <= lenN D -> tr D ((b + 1) * B) (map ev_of (T ++ F3))).
  { intros Hlen2. destruct HY as [EY|HYr].
    - rewrite EY in LY |- *. cbn [map]. apply layout_nil_inv in LY.
      apply (f_equal lenN) in LY. rewrite lenN_app, (@lenN_nil byte) in LY.
      replace ((b + 1) * B) with ((b + 1) * B + 0) by lia.
      apply tr_zero; [lia|lia|]. apply Zhi; lia.
    - pose proof (boundary_is_ffp aT (b + 1) HaT HYr) as Eff. rewrite Eff.
      rewrite <- (app_nil_r (map ev_of (T ++ F3))).
      assert (Eend : aT + lenN (eT ++ t3) = lt) by (rewrite lenN_app; lia).
      pose proof (ffp_le_boundary lt nb Hnb) as Hfl.
      apply (run_frames D Hok aT _ _ LY GY PD3); rewrite Eend; [lia|].
      destruct (pad_geom lt) as (k' & c' & Hp & Hc' & _).
      pose proof (ffp_after_boundary aT lt (b + 1) ltac:(lia) HaT HYr) as Hab.
      unfold first_frame_pos in Hab, Hfl |- *. rewrite Hp in Hab, Hfl |- *.
      apply tr_zero; [exact Hc'|apply (block_exists D k' c' 7 Hok); lia|].
      apply Zhi; lia. }
  assert (HBD : B <= lenN D) by lia.
  destruct (thin_oks H true) as (c1 & ThH).
  destruct (N.lt_ge_cases (ffp aH) (b * B)) as [HA|HBge].
  - (* the data ends before block b: the damaged block is never decoded as data *)
    destruct HorH as [EX|Hge]; [|lia]. subst X2.
    symmetry in EX2. apply app_eq_nil in EX2 as [EXb ET]. 
    pose proof (layout_nil_inv _ _ LX2) as Ee2'.
    assert (He2 : lenN e2 = 0) by (rewrite Ee2'; reflexivity).
    assert (E3' : pxs3 = []).
    { destruct H3pos as [E|Hge]; [exact E|exfalso].
      rewrite Etb, lenN_app, He2, N.add_0_r in Hge. fold aH in Hge. lia. }
    subst pxs3. pose proof (encs_any_nil_inv _ _ E3) as Et3.
    assert (Hlt' : lt = aH).
    { unfold lt. rewrite Etb, Et3, !lenN_app, He2, !(@lenN_nil byte). unfold aH. lia. }
    assert (Htr : tr D (ffp aH) []).
    { destruct (pad_geom aH) as (k' & c' & Hp & Hc' & _).
      unfold first_frame_pos in HA |- *. rewrite Hp in HA |- *.
      pose proof (blocks_above b k' (c' + 1)) as Hbl.
      apply tr_zero; [exact Hc'|lia|]. apply Zlo; lia. }
    pose proof (P1 _ Htr) as Htr0.
    pose proof (layout_len _ _ _ L1H) as Hcnt.
    rewrite (read_stream_trace D _ HBD Htr0) by (rewrite app_nil_r, map_length; lia).
    destruct (asm_two_stop P 0 pxs1 t1 (lenN t1) pxsb tb (map ev_of H) c1 H [] E1 G1 Eb Gb)
      as (mid & Hdel & Hsub); [rewrite EFb; reflexivity|exact ThH|].
    exists (map ev_of (F1 ++ H) ++ []), mid, [].
    split; [reflexivity|]. split; [|split; [exact Hsub|left; reflexivity]].
    rewrite !app_nil_r, map_app. exact Hdel.
  - (* the reader enters block b at its start *)
    assert (Eff : ffp aH = b * B) by lia.
    assert (Hfits : Forall fits1 (fpos 0 xs)) by exact (layout_fits _ _ _ Lxs).
    rewrite Exs in Hne.
    destruct (chain D b xs Hb Hne Hfits (N.to_nat B) 0 ltac:(lia) ltac:(lia) (reach_0 D b) c1
                (fpos 0 (F1 ++ H)) (fpos aH Xb ++ fpos aT (T ++ F3)) Hfp)
      as (evs2 & Rc & R' & st' & ER & Hth & HF & Hlen & Hout).
    { eapply Forall_impl; [|exact (fpos_bounds _ _ _ L1H)]. intros qx [_ Hq]. unfold qend in Hq. lia. }
    { rewrite <- (fpos_app aH _ _ LXb). apply spaced_fpos. lia. }
    destruct (split_prefix ((b + 1) * B) Rc R' (fpos aH Xb) (fpos aT (T ++ F3)) HF SpY (eq_sym ER))
      as (M & EXb & ER').
    assert (EXb' : Xb = map snd Rc ++ map snd M).
    { rewrite <- (map_snd_fpos Xb aH), EXb, map_app. reflexivity. }
    assert (Hcnt : (length (F1 ++ H) + length (T ++ F3) <= length xs)%nat)
      by (unfold xs; rewrite !app_length; lia).
    pose proof (layout_len _ _ _ Lxs) as Hlen_xs. rewrite <- Et in Hlen_xs. fold lt in Hlen_xs.
    destruct Hout as [[Hstop Hst] | (Hlen2 & Hsp & Hcont)].
    + (* the reader stopped inside block b *)
      assert (Htr : tr D (ffp aH) evs2).
      { rewrite Eff. exists b, 0. repeat split; try lia. exact Hstop. }
      pose proof (P1 _ Htr) as Htr0.
      rewrite (read_stream_trace D _ HBD Htr0) by (rewrite app_length, map_length; lia).
      destruct (asm_two_stop P 0 pxs1 t1 (lenN t1) pxsb tb (map ev_of H ++ evs2) st'
                  (H ++ map snd Rc) (map snd M ++ T) E1 G1 Eb Gb) as (mid & Hdel & Hsub).
      { rewrite EFb, EX2, EXb', <- !app_assoc. reflexivity. }
      { exact (thin_app _ _ _ _ ThH _ _ _ Hth). }
      exists (map ev_of (F1 ++ H) ++ evs2), mid, [].
      split; [reflexivity|]. split; [|split; [exact Hsub|right; split; [reflexivity|exact Hst]]].
      rewrite app_nil_r, map_app, <- app_assoc. exact Hdel.
    + (* the reader went on to block b + 1 *)
      assert (EM : M = []).
      { destruct M as [|m M]; [reflexivity|exfalso].
        rewrite ER' in Hsp. destruct Hsp as [Hm _].
        pose proof (fpos_bounds _ _ _ LXb) as Hbd. rewrite Forall_forall in Hbd.
        destruct (Hbd m) as [_ Hq].
        { rewrite EXb. apply in_or_app. right. left. reflexivity. }
        unfold qend in Hq. fold aT in Hq. lia. }
      subst M. rewrite app_nil_r in EXb'. rewrite <- EXb' in Hth.
      pose proof (Hcont _ (P3 Hlen2)) as Hft.
      assert (Htr : tr D (ffp aH) (evs2 ++ map ev_of (T ++ F3))).
      { rewrite Eff. exists b, 0. repeat split; try lia. exact Hft. }
      pose proof (P1 _ Htr) as Htr0.
      rewrite (read_stream_trace D _ HBD Htr0) by (rewrite !app_length, !map_length; lia).
      destruct (thin_oks T st') as (c3 & ThT).
      destruct (asm_three P 0 pxs1 t1 (lenN t1) pxsb tb (lenN t1 + lenN tb) pxs3 t3
                  (map ev_of H ++ evs2 ++ map ev_of T) c3 E1 G1 Eb Gb E3 G3) as (mid & Hdel & Hsub).
      { rewrite EFb, EX2. exact (thin_app _ _ _ _ ThH _ _ _ (thin_app _ _ _ _ Hth _ _ _ ThT)). }
      exists (map ev_of (F1 ++ H) ++ evs2 ++ map ev_of (T ++ F3)), mid, (map fst pxs3).
      split; [reflexivity|]. split; [|split; [exact Hsub|left; reflexivity]].
      rewrite <- Hdel. f_equal. f_equal. rewrite !map_app, <- !app_assoc. reflexivity.
Qed.


(* ---------- the frame list of a stream is unique ---------- *)
Lemma app_inj_len {A} (a a' b b' : list A) :
  lenN a = lenN a' -> a ++ b = a' ++ b' -> a = a' /\ b = b'.
Proof.
  intros L E.
  assert (Ea : a = a').
  { rewrite <- (takeN_app_exact a b), E, L. apply takeN_app_exact. }
  subst a'. split; [reflexivity|]. exact (app_inv_head _ _ _ E).
Qed.

Lemma fs_bytes_inj x x' (e e' : bytes) :
  lenN (fs_c4 x) = 4 -> lenN (fs_c4 x') = 4 ->
  lenN (fs_pl x) < 65536 -> lenN (fs_pl x') < 65536 ->
  fs_bytes x ++ e = fs_bytes x' ++ e' -> x = x' /\ e = e'.
Proof.
  destruct x as [c4 ty pl], x' as [c4' ty' pl']. unfold fs_bytes, dframe. cbn [fs_c4 fs_ty fs_pl].
  intros H4 H4' Hl Hl' E. rewrite <- !app_assoc in E.
  destruct (app_inj_len _ _ _ _ (eq_trans H4 (eq_sym H4')) E) as [-> E1].
  destruct (app_inj_len _ _ _ _ (eq_trans (length_le_enc 2 _) (eq_sym (length_le_enc 2 _))) E1) as [En E2].
  apply (f_equal le_dec) in En.
  rewrite !le_dec_enc_small in En by (change (256 ^ N.of_nat 2) with 65536; assumption).
  cbn [app] in E2. inversion E2 as [[Et E3]].
  destruct (app_inj_len _ _ _ _ En E3) as [-> ->].
  assert (ty = ty') by (destruct ty, ty'; try reflexivity; discriminate Et).
  subst ty'. split; reflexivity.
Qed.

Lemma layout_unique a xs e : layout a xs e -> forall xs', layout a xs' e -> xs = xs'.
Proof.
  induction 1 as [a | a x xs e Hc4 Hfit Hl IH]; intros xs' L'.
  - inversion L' as [|a0 x' xs0 e0 Hc4' Hfit' Hl' Ea Exs Ee]; [reflexivity|].
    apply (f_equal lenN) in Ee. rewrite !lenN_app, lenN_fs_bytes, (@lenN_nil byte) in Ee by exact Hc4'. lia.
  - inversion L' as [a0 Ea Exs Ee|a0 x' xs0 e0 Hc4' Hfit' Hl' Ea Exs Ee].
    + apply (f_equal lenN) in Ee. rewrite !lenN_app, lenN_fs_bytes, (@lenN_nil byte) in Ee by exact Hc4. lia.
    + apply app_inv_head in Ee.
      destruct (pad_geom a) as (k' & c' & _ & Hc' & Hmw & _).
      destruct (fs_bytes_inj x' x e0 e Hc4' Hc4 ltac:(lia) ltac:(lia) Ee) as [-> ->].
      f_equal. apply IH. exact Hl'.
Qed.

(* ---------- (H) the theorem, on the entries written ---------- *)
Local Notation encs_rel := (encs_rel P).
Local Notation enc_rel_any := (H3 DamageProofs.enc_rel_any).
Local Notation mem_write_all_spec := (H3 StreamProofs.mem_write_all_spec).
Local Notation encs_rel_app_inv := (H3 DamageProofs.encs_rel_app_inv).

(* D is the clean stream of t (zero-padded as the reader gets it) except inside block b *)
Definition damaged_in_block (D t : bytes) (b : N) : Prop :=
  lenN D = lenN (mem_stream P t) /\
  takeN (b * B) D = takeN (b * B) (mem_stream P t) /\
  dropN ((b + 1) * B) D = dropN ((b + 1) * B) (mem_stream P t) /\
  (b + 1) * B <= lenN D.

(* THE HYPOTHESIS.  t: the bytes the writer emitted; xs: its frames (type, payload, checksum),
   fpos 0 xs: their start offsets in t.  Wherever in block b of D the byte image of a
   CRC-valid frame (frame_bytes ty p, i.e. valid type, length within the block, matching CRC)
   stands, that place is the start of a frame the writer put there and the image is that frame. *)
Definition NoEmbedded (D : bytes) (b : N) (t : bytes) : Prop :=
  forall xs, layout 0 xs t -> forallb fs_good xs = true -> NoEmbeddedX D b xs.

(* the weakest form: the same, required only at the cursor positions the reader goes through
   in block b (reach); equivalently (accepted_genuine_path) "every frame the reader accepts in
   block b is a frame the writer put at that place" *)
Definition NoEmbeddedPath (D : bytes) (b : N) (t : bytes) : Prop :=
  forall xs, layout 0 xs t -> forallb fs_good xs = true -> NoEmbeddedPathX D b xs.

Lemma NoEmbedded_path D b t : NoEmbedded D b t -> NoEmbeddedPath D b t.
Proof. intros H xs L G. apply NoEmbeddedX_path. exact (H xs L G). Qed.

(* by uniqueness of the frame list, it is enough to check one *)
Lemma NoEmbedded_of_X D b t xs : layout 0 xs t -> NoEmbeddedX D b xs -> NoEmbedded D b t.
Proof. intros L H xs' L' _. rewrite <- (layout_unique _ _ _ L _ L'). exact H. Qed.

Lemma NoEmbeddedPath_of_X D b t xs : layout 0 xs t -> NoEmbeddedPathX D b xs -> NoEmbeddedPath D b t.
Proof. intros L H xs' L' _. rewrite <- (layout_unique _ _ _ L _ L'). exact H. Qed.

Lemma encs_rel_any a es t : encs_rel a es t ->
  exists pxs, encs_any a pxs t /\ map fst pxs = es /\ forallb intact pxs = true.
Proof.
  induction 1 as [a | a p ps e k t He Hes (pxs & Hany & Hmap & Hall)].
  - exists []. repeat split. constructor.
  - destruct (enc_rel_any _ _ _ _ _ He) as (xs & Hx & Hgx & _).
    exists ((p, xs) :: pxs). split; [econstructor; eassumption|]. split.
    + cbn [map fst]. now rewrite Hmap.
    + cbn [forallb]. unfold DamageProofs.intact at 1. cbn [snd]. rewrite Hgx, Hall. reflexivity.
Qed.

(* es1: entries ending at or before block b; es3: entries starting at or after its end;
   esb: the entries in between.  What the reader delivers over D: all of es1, then a
   subsequence of esb, then either all of es3 or — only if it met an all-zero header on its
   way through the damaged block (which reads as end of log: stopped_in) — nothing more.
   No fuel exhaustion. *)
Theorem header_damage_local es1 esb es3 t1 tb t3 D b :
  encs_rel 0 es1 t1 -> encs_rel (lenN t1) esb tb -> encs_rel (lenN t1 + lenN tb) es3 t3 ->
  damaged_in_block D (t1 ++ tb ++ t3) b ->
  lenN t1 <= b * B ->
  (es3 = [] \/ (b + 1) * B <= ffp (lenN t1 + lenN tb)) ->
  NoEmbeddedPath D b (t1 ++ tb ++ t3) ->
  let out := mem_read_stream P D in
  ~ In MrFuel out /\
  sublist (delivered out) (es1 ++ esb ++ es3) /\
  exists mid tail,
    delivered out = es1 ++ mid ++ tail /\ sublist mid esb /\
    (tail = es3 \/ (tail = [] /\ stopped_in D b)).
Proof.
  intros R1 Rb R3 (HlenD & Hlo & Hhi & Hb) H1pos H3pos Hne out.
  destruct (encs_rel_any _ _ _ R1) as (pxs1 & E1 & M1 & G1).
  destruct (encs_rel_any _ _ _ Rb) as (pxsb & Eb & Mb & Gb).
  destruct (encs_rel_any _ _ _ R3) as (pxs3 & E3 & M3 & G3).
  assert (H3pos' : pxs3 = [] \/ (b + 1) * B <= ffp (lenN t1 + lenN tb)).
  { destruct H3pos as [E|H]; [left|right; exact H].
    rewrite <- M3 in E. destruct pxs3; [reflexivity|discriminate]. }
  assert (HneX : NoEmbeddedPathX D b (flat_map snd (pxs1 ++ pxsb ++ pxs3))).
  { apply Hne.
    - rewrite !flat_map_app.
      apply (layout_app _ _ _ (encs_any_layout _ _ _ E1)).
      rewrite N.add_0_l. apply (layout_app _ _ _ (encs_any_layout _ _ _ Eb)).
      exact (encs_any_layout _ _ _ E3).
    - apply intact_flat. rewrite !forallb_app, G1, Gb, G3. reflexivity. }
  destruct (header_damage_core pxs1 pxsb pxs3 t1 tb t3 D b E1 G1 Eb Gb E3 G3 HlenD Hlo Hhi Hb
              H1pos H3pos' HneX) as (evs & mid & tail & Hout & Hdel & Hsub & Htail).
  fold out in Hout, Hdel. rewrite M1 in Hdel. rewrite Mb in Hsub. rewrite M3 in Htail.
  split; [rewrite Hout; apply asm_no_fuel|].
  split; [|exists mid, tail; repeat split; assumption].
  rewrite Hdel. apply sublist_app; [apply sublist_refl|].
  apply sublist_app; [exact Hsub|].
  destruct Htail as [->| [-> _]]; [apply sublist_refl|apply sublist_nil_l].
Qed.

(* damage is local: if the reader met no all-zero header on its way through block b (and a
   block follows), every entry lying outside block b is delivered *)
Corollary header_damage_resync es1 esb es3 t1 tb t3 D b :
  encs_rel 0 es1 t1 -> encs_rel (lenN t1) esb tb -> encs_rel (lenN t1 + lenN tb) es3 t3 ->
  damaged_in_block D (t1 ++ tb ++ t3) b ->
  lenN t1 <= b * B ->
  (es3 = [] \/ (b + 1) * B <= ffp (lenN t1 + lenN tb)) ->
  NoEmbeddedPath D b (t1 ++ tb ++ t3) ->
  ~ stopped_in D b ->
  exists mid, delivered (mem_read_stream P D) = es1 ++ mid ++ es3 /\ sublist mid esb.
Proof.
  intros R1 Rb R3 Hd H1 H3' Hne Hns.
  destruct (header_damage_local es1 esb es3 t1 tb t3 D b R1 Rb R3 Hd H1 H3' Hne)
    as (_ & _ & mid & tail & Hdel & Hsub & [->|[_ Hst]]); [|contradiction].
  exists mid. split; assumption.
Qed.

(* the plain statement: nothing that was not written is delivered *)
Theorem header_damage_sublist es t D b :
  encs_rel 0 es t -> damaged_in_block D t b -> NoEmbeddedPath D b t ->
  let out := mem_read_stream P D in
  ~ In MrFuel out /\ sublist (delivered out) es.
Proof.
  intros R Hd Hne out.
  assert (Et : t = [] ++ t ++ []) by (rewrite app_nil_r; reflexivity).
  rewrite Et in Hd, Hne.
  destruct (header_damage_local [] es [] [] t [] D b) as (Hf & Hs & _); try assumption.
  - constructor.
  - constructor.
  - rewrite (@lenN_nil byte). lia.
  - left. reflexivity.
  - rewrite app_nil_r in Hs. split; assumption.
Qed.

(* from the writer *)
Theorem header_damage_written es1 esb es3 w ns D b :
  mem_write_all P (mkVecW 0 []) (es1 ++ esb ++ es3) = (w, ns) ->
  exists t1 tb t3,
    vw_buf w = t1 ++ tb ++ t3 /\
    encs_rel 0 es1 t1 /\ encs_rel (lenN t1) esb tb /\ encs_rel (lenN t1 + lenN tb) es3 t3 /\
    (damaged_in_block D (vw_buf w) b ->
     lenN t1 <= b * B ->
     (es3 = [] \/ (b + 1) * B <= ffp (lenN t1 + lenN tb)) ->
     NoEmbeddedPath D b (vw_buf w) ->
     let out := mem_read_stream P D in
     ~ In MrFuel out /\
     sublist (delivered out) (es1 ++ esb ++ es3) /\
     exists mid tail,
       delivered out = es1 ++ mid ++ tail /\ sublist mid esb /\
       (tail = es3 \/ (tail = [] /\ stopped_in D b))).
Proof.
  intros Hw.
  destruct (mem_write_all_spec (es1 ++ esb ++ es3) (mkVecW 0 [])) as (ns' & t & Hall & Hes & _ & _).
  rewrite Hw in Hall. inversion Hall as [[Ew Ens]]. cbn [vw_cursor vw_buf app] in *.
  destruct (encs_rel_app_inv _ _ _ _ Hes) as (t1 & t' & -> & R1 & R').
  rewrite N.add_0_l in R'.
  destruct (encs_rel_app_inv _ _ _ _ R') as (tb & t3 & -> & Rb & R3).
  exists t1, tb, t3. split; [reflexivity|]. split; [exact R1|]. split; [exact Rb|]. split; [exact R3|].
  intros Hd H1 H3' Hne. exact (header_damage_local es1 esb es3 t1 tb t3 D b R1 Rb R3 Hd H1 H3' Hne).
Qed.

End HD.

Print Assumptions header_damage_core.
Print Assumptions header_damage_local.
Print Assumptions header_damage_sublist.
Print Assumptions header_damage_resync.
Print Assumptions header_damage_written.
Check header_damage_local.
Check header_damage_sublist.
