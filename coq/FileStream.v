(* FileStream.v — entries round-trip through the rolling files, and the reader ends where the
   writer stands (C07 through files; core of C01).

   The WAL files, in tracker order, are viewed as ONE byte stream (the concatenation of their
   contents).  When every file is a regular file of exactly FILE_BYTES bytes and no fault plan is
   armed:
     (R) the rolling reader behaves exactly like the in-memory block reader `vecr` over that
         stream (rd_rel, rd_next_sim, rd_open_sim);
     (W) the rolling writer behaves like the in-memory writer `vecw` at the absolute position
         of the stream (winv, wsim, wsim_write, write_record_file_sim);
   both are obtained from generic simulation lemmas for Frame.v (part 1).  Part 4 is the
   file-level round trip (file_roundtrip). *)
From Coq Require Import Lia ZArith ZifyN ZifyNat ZifyBool Sorted.
From MRL Require Import Bytes BytesProofs Params Names NamesProofs Frame Record Mem Rolling Log
  Driver StreamProofs PolicyProofs GcProofs.

Arguments N.add : simpl never.
Arguments N.sub : simpl never.
Arguments N.mul : simpl never.
Arguments N.eqb : simpl never.
Arguments N.ltb : simpl never.
Arguments N.leb : simpl never.
Arguments N.div : simpl never.
Arguments N.modulo : simpl never.
Arguments N.min : simpl never.
Arguments N.max : simpl never.

(* ====================================================================================== *)
(* PART 1 — generic simulation lemmas for Frame.v *)
(* ====================================================================================== *)

(* ====================================================================== *)
(* 1a. two block readers related by a simulation                           *)
(* ====================================================================== *)

(* read_frame once the block holding the frame is current *)
Section ReadHere.
Variable P : params.
Variable R : Type.
Variable rnext : R -> R * res bool.
Variable rblock : R -> bytes.

Definition read_here (x : R) (c : N) (k : bool) : freader R * fresult :=
  let blk := rblock x in
  let hdr := sliceN c (c + HEADER_LEN) blk in
  if all_zero hdr then (mkFR x c k, FNotAvail)
  else match ft_of_code (le_dec (dropN 6 hdr)) with
       | None => (mkFR x c true, FCorrupt)
       | Some t =>
           let c1 := c + HEADER_LEN in
           let len := le_dec (sliceN 4 6 hdr) in
           if BS P <? c1 + len then (mkFR x c1 true, FCorrupt)
           else
             let payload := sliceN c1 (c1 + len) blk in
             let fr2 := mkFR x (c1 + len) k in
             if crcf P (n2b (ft_code t)) payload =? le_dec (takeN 4 hdr)
             then (fr2, FOk t payload) else (fr2, FCorrupt)
       end.

Lemma read_frame_unfold fr :
  read_frame P R rnext rblock fr =
  if fr_corrupt fr || (BS P - fr_cursor fr <? HEADER_LEN) then
    match rnext (fr_rd fr) with
    | (r', Err e) => (mkFR r' (fr_cursor fr) (fr_corrupt fr), FIo e)
    | (r', Ok false) => (mkFR r' (fr_cursor fr) (fr_corrupt fr), FNotAvail)
    | (r', Ok true) => read_here r' 0 false
    end
  else read_here (fr_rd fr) (fr_cursor fr) (fr_corrupt fr).
Proof.
  unfold read_frame, read_here. destruct fr as [r c k]. cbn [fr_rd fr_cursor fr_corrupt].
  destruct (k || (BS P - c <? HEADER_LEN)); [|reflexivity].
  destruct (rnext r) as [r' [[|]|e]]; reflexivity.
Qed.

(* a frame that was read moved the cursor by at least a header *)
Lemma read_here_ok_cursor x c k fr' t p :
  read_here x c k = (fr', FOk t p) -> HEADER_LEN <= fr_cursor fr'.
Proof.
  unfold read_here. destruct (all_zero _); [discriminate|].
  destruct (ft_of_code _) as [t0|]; [|discriminate].
  destruct (BS P <? _); [discriminate|].
  destruct (_ =? _); [|discriminate].
  intros H. inversion H; subst. cbn [fr_cursor]. lia.
Qed.

Lemma read_frame_ok_cursor fr fr' t p :
  read_frame P R rnext rblock fr = (fr', FOk t p) -> HEADER_LEN <= fr_cursor fr'.
Proof.
  rewrite read_frame_unfold. destruct (_ || _).
  - destruct (rnext (fr_rd fr)) as [r' [[|]|e]]; try discriminate. apply read_here_ok_cursor.
  - apply read_here_ok_cursor.
Qed.

Lemma go_next_record_cursor fuel : forall rr rr',
  go_next P R rnext rblock fuel rr = (rr', RRecord) -> HEADER_LEN <= fr_cursor (rr_fr rr').
Proof.
  induction fuel as [|fuel IH]; intros rr rr'; cbn [go_next]; [discriminate|].
  destruct (read_frame P R rnext rblock (rr_fr rr)) as [fr' [t p|e| |]] eqn:Erf; try discriminate.
  apply read_frame_ok_cursor in Erf.
  destruct (if is_first_frame t then true else rr_within rr).
  - destruct (is_last_frame t).
    + intros H. inversion H; subst. exact Erf.
    + apply IH.
  - apply IH.
Qed.
End ReadHere.

Section ReaderSim.
Variable P : params.
Variables R1 R2 : Type.
Variable rnext1 : R1 -> R1 * res bool.
Variable rblock1 : R1 -> bytes.
Variable rnext2 : R2 -> R2 * res bool.
Variable rblock2 : R2 -> bytes.
Variable sim : R1 -> R2 -> Prop.
Hypothesis sim_next : forall r1 r2, sim r1 r2 ->
  snd (rnext1 r1) = snd (rnext2 r2) /\ sim (fst (rnext1 r1)) (fst (rnext2 r2)).
Hypothesis sim_block : forall r1 r2, sim r1 r2 -> rblock1 r1 = rblock2 r2.

Definition fr_sim (a : freader R1) (b : freader R2) : Prop :=
  sim (fr_rd a) (fr_rd b) /\ fr_cursor a = fr_cursor b /\ fr_corrupt a = fr_corrupt b.

Definition rr_sim (a : rreader R1) (b : rreader R2) : Prop :=
  fr_sim (rr_fr a) (rr_fr b) /\ rr_buf a = rr_buf b /\ rr_within a = rr_within b.

Lemma fr_open_sim r1 r2 : sim r1 r2 -> fr_sim (fr_open R1 r1) (fr_open R2 r2).
Proof. intros H. repeat split; assumption. Qed.

Lemma rr_open_sim r1 r2 : sim r1 r2 -> rr_sim (rr_open R1 r1) (rr_open R2 r2).
Proof. intros H. repeat split; assumption. Qed.

Lemma read_here_sim x1 x2 c k : sim x1 x2 ->
  snd (read_here P R1 rblock1 x1 c k) = snd (read_here P R2 rblock2 x2 c k) /\
  fr_sim (fst (read_here P R1 rblock1 x1 c k)) (fst (read_here P R2 rblock2 x2 c k)).
Proof.
  intros Hx. unfold read_here. cbv zeta. rewrite <- (sim_block x1 x2 Hx).
  set (hdr := sliceN c (c + HEADER_LEN) (rblock1 x1)).
  destruct (all_zero hdr); [cbn [fst snd]; repeat split; assumption|].
  destruct (ft_of_code (le_dec (dropN 6 hdr))) as [t|];
    [|cbn [fst snd]; repeat split; assumption].
  destruct (BS P <? c + HEADER_LEN + le_dec (sliceN 4 6 hdr));
    [cbn [fst snd]; repeat split; assumption|].
  destruct (crcf P (n2b (ft_code t)) _ =? le_dec (takeN 4 hdr));
    cbn [fst snd]; repeat split; assumption.
Qed.

Lemma read_frame_sim a b : fr_sim a b ->
  snd (read_frame P R1 rnext1 rblock1 a) = snd (read_frame P R2 rnext2 rblock2 b) /\
  fr_sim (fst (read_frame P R1 rnext1 rblock1 a)) (fst (read_frame P R2 rnext2 rblock2 b)).
Proof.
  intros (Hs & Hc & Hk). rewrite !read_frame_unfold, <- Hc, <- Hk.
  destruct (fr_corrupt a || (BS P - fr_cursor a <? HEADER_LEN)).
  - destruct (sim_next _ _ Hs) as [Hr Hs'].
    destruct (rnext1 (fr_rd a)) as [r1' [[|]|e1]]; destruct (rnext2 (fr_rd b)) as [r2' [[|]|e2]];
      cbn [fst snd] in Hr, Hs'; try discriminate.
    + apply read_here_sim. exact Hs'.
    + cbn [fst snd]. repeat split; assumption.
    + cbn [fst snd]. split; [congruence|]. repeat split; assumption.
  - apply read_here_sim. exact Hs.
Qed.

Lemma go_next_sim fuel : forall a b, rr_sim a b ->
  snd (go_next P R1 rnext1 rblock1 fuel a) = snd (go_next P R2 rnext2 rblock2 fuel b) /\
  rr_sim (fst (go_next P R1 rnext1 rblock1 fuel a)) (fst (go_next P R2 rnext2 rblock2 fuel b)).
Proof.
  induction fuel as [|fuel IH]; intros a b Hab; cbn [go_next].
  - cbn [fst snd]. split; [reflexivity|exact Hab].
  - destruct Hab as (Hfr & Hbuf & Hw).
    destruct (read_frame_sim _ _ Hfr) as [Hres Hfr'].
    destruct (read_frame P R1 rnext1 rblock1 (rr_fr a)) as [fa ra].
    destruct (read_frame P R2 rnext2 rblock2 (rr_fr b)) as [fb rb].
    cbn [fst snd] in Hres, Hfr'. subst rb. rewrite <- Hbuf, <- Hw.
    destruct ra as [t payload|e| |].
    + destruct (if is_first_frame t then true else rr_within a).
      * destruct (is_last_frame t).
        -- cbn [fst snd]. split; [reflexivity|]. repeat split; assumption || apply Hfr'.
        -- apply IH. repeat split; assumption || apply Hfr'.
      * apply IH. repeat split; assumption || apply Hfr'.
    + cbn [fst snd]. split; [reflexivity|]. repeat split; assumption || apply Hfr'.
    + cbn [fst snd]. split; [reflexivity|]. repeat split; assumption || apply Hfr'.
    + cbn [fst snd]. split; [reflexivity|]. repeat split; assumption || apply Hfr'.
Qed.
End ReaderSim.

(* ====================================================================== *)
(* 1b. two block writers related by a simulation                           *)
(* ====================================================================== *)
(* The relation only has to be preserved by writes that fit in the current block
   (lenN d <= wrem), which is all write_frame ever does; `G` is a guard on the reference
   execution (second writer), closed under going back in time: the simulation is only claimed
   for executions whose final reference state satisfies it (take G := fun _ => True for an
   unconditional simulation). *)
Section WriterSim.
Variable P : params.
Hypothesis HBS : HEADER_LEN <= BS P.
Variables W1 W2 : Type.
Variable wwrite1 : W1 -> bytes -> W1 * res unit.
Variable wrem1 : W1 -> N.
Variable wwrite2 : W2 -> bytes -> W2 * res unit.
Variable wrem2 : W2 -> N.
Variable sim : W1 -> W2 -> Prop.
Variable G : W2 -> Prop.
Hypothesis sim_rem : forall a b, sim a b -> wrem1 a = wrem2 b.
Hypothesis G_back : forall b d, G (fst (wwrite2 b d)) -> G b.
Hypothesis sim_write : forall a b d, sim a b -> lenN d <= wrem2 b -> G (fst (wwrite2 b d)) ->
  snd (wwrite1 a d) = snd (wwrite2 b d) /\ sim (fst (wwrite1 a d)) (fst (wwrite2 b d)).
(* after the padding the reference writer is at the start of a block *)
Hypothesis pad_full : forall b b', wrem2 b < HEADER_LEN ->
  wwrite2 b (zerosN (wrem2 b)) = (b', Ok tt) -> wrem2 b' = BS P.

Local Notation wf1 := (write_frame P W1 wwrite1 wrem1).
Local Notation wf2 := (write_frame P W2 wwrite2 wrem2).
Local Notation wl1 := (write_record_loop P W1 wwrite1 wrem1).
Local Notation wl2 := (write_record_loop P W2 wwrite2 wrem2).

Lemma lenN_frame_bytes' t p : lenN (frame_bytes P t p) = HEADER_LEN + lenN p.
Proof.
  unfold frame_bytes, header_bytes. rewrite !lenN_app, !length_le_enc, lenN_cons, lenN_nil.
  unfold HEADER_LEN. lia.
Qed.

Lemma G_write_frame b t p : G (fst (wf2 b t p)) -> G b.
Proof.
  unfold write_frame. destruct (wrem2 b <? HEADER_LEN).
  - destruct (wwrite2 b (zerosN (wrem2 b))) as [b1 [[]|e]] eqn:E1.
    + destruct (wwrite2 b1 (frame_bytes P t p)) as [b2 [[]|e]] eqn:E2; cbn [fst]; intros HG;
        apply (G_back b (zerosN (wrem2 b))); rewrite E1; cbn [fst];
        apply (G_back b1 (frame_bytes P t p)); rewrite E2; exact HG.
    + cbn [fst]. intros HG. apply (G_back b (zerosN (wrem2 b))). rewrite E1. exact HG.
  - destruct (wwrite2 b (frame_bytes P t p)) as [b2 [[]|e]] eqn:E2; cbn [fst]; intros HG;
      apply (G_back b (frame_bytes P t p)); rewrite E2; exact HG.
Qed.

Lemma G_write_loop fuel : forall b f p acc, G (fst (wl2 fuel b f p acc)) -> G b.
Proof.
  induction fuel as [|fuel IH]; intros b f p acc; cbn [write_record_loop]; [auto|].
  set (n := N.min (max_writable P (wrem2 b)) (lenN p)).
  destruct (wf2 b (frame_type f (isnil (dropN n p))) (takeN n p)) as [b1 [k|e]] eqn:E.
  - destruct (isnil (dropN n p)).
    + cbn [fst]. intros HG. eapply G_write_frame. rewrite E. exact HG.
    + intros HG. apply IH in HG. eapply G_write_frame. rewrite E. exact HG.
  - cbn [fst]. intros HG. eapply G_write_frame. rewrite E. exact HG.
Qed.

Lemma write_frame_sim a b t p : sim a b -> lenN p <= max_writable P (wrem2 b) ->
  G (fst (wf2 b t p)) ->
  snd (wf1 a t p) = snd (wf2 b t p) /\ sim (fst (wf1 a t p)) (fst (wf2 b t p)).
Proof.
  intros Hs Hp. unfold write_frame, max_writable in *. rewrite (sim_rem a b Hs).
  destruct (N.ltb_spec (wrem2 b) HEADER_LEN) as [Hlt|Hge].
  - destruct (N.leb_spec HEADER_LEN (wrem2 b)) as [Hle|_]; [lia|].
    assert (Hz : lenN (zerosN (wrem2 b)) <= wrem2 b) by (rewrite lenN_zerosN; lia).
    pose proof (sim_write a b (zerosN (wrem2 b)) Hs Hz) as H1.
    pose proof (pad_full b) as Hpad.
    destruct (wwrite2 b (zerosN (wrem2 b))) as [b1 [[]|e2]] eqn:E2.
    + specialize (Hpad b1 Hlt eq_refl).
      assert (Hf : lenN (frame_bytes P t p) <= wrem2 b1)
        by (rewrite lenN_frame_bytes', Hpad; lia).
      intros HG.
      assert (HG1 : G b1).
      { destruct (wwrite2 b1 (frame_bytes P t p)) as [b2 [[]|e]] eqn:E3; cbn [fst] in HG;
          apply (G_back b1 (frame_bytes P t p)); rewrite E3; exact HG. }
      destruct (H1 HG1) as [R1 S1].
      destruct (wwrite1 a (zerosN (wrem2 b))) as [a1 [[]|e1]]; cbn [fst snd] in R1, S1;
        [|discriminate].
      pose proof (sim_write a1 b1 (frame_bytes P t p) S1 Hf) as H2.
      destruct (wwrite2 b1 (frame_bytes P t p)) as [b2 [[]|e]];
        cbn [fst snd] in HG, H2 |- *; destruct (H2 HG) as [R2 S2];
        destruct (wwrite1 a1 (frame_bytes P t p)) as [a2 [[]|e']]; cbn [fst snd] in R2, S2 |- *;
        try discriminate; (split; [congruence|exact S2]).
    + cbn [fst snd]. intros HG. destruct (H1 HG) as [R1 S1].
      destruct (wwrite1 a (zerosN (wrem2 b))) as [a1 [[]|e1]]; cbn [fst snd] in R1, S1 |- *;
        [discriminate|]. split; [congruence|exact S1].
  - destruct (N.leb_spec HEADER_LEN (wrem2 b)) as [_|Hlt]; [|lia].
    assert (Hf : lenN (frame_bytes P t p) <= wrem2 b) by (rewrite lenN_frame_bytes'; lia).
    pose proof (sim_write a b (frame_bytes P t p) Hs Hf) as H2.
    destruct (wwrite2 b (frame_bytes P t p)) as [b2 [[]|e]];
      cbn [fst snd] in H2 |- *; intros HG; destruct (H2 HG) as [R2 S2];
      destruct (wwrite1 a (frame_bytes P t p)) as [a2 [[]|e']]; cbn [fst snd] in R2, S2 |- *;
      try discriminate; (split; [congruence|exact S2]).
Qed.

Lemma write_record_loop_sim fuel : forall a b f p acc, sim a b ->
  G (fst (wl2 fuel b f p acc)) ->
  snd (wl1 fuel a f p acc) = snd (wl2 fuel b f p acc) /\
  sim (fst (wl1 fuel a f p acc)) (fst (wl2 fuel b f p acc)).
Proof.
  induction fuel as [|fuel IH]; intros a b f p acc Hs; cbn [write_record_loop].
  - cbn [fst snd]. intros _. split; [reflexivity|exact Hs].
  - rewrite (sim_rem a b Hs).
    set (n := N.min (max_writable P (wrem2 b)) (lenN p)).
    assert (Hn : lenN (takeN n p) <= max_writable P (wrem2 b)) by (rewrite lenN_takeN; lia).
    pose proof (write_frame_sim a b (frame_type f (isnil (dropN n p))) (takeN n p) Hs Hn) as H1.
    destruct (wf2 b (frame_type f (isnil (dropN n p))) (takeN n p)) as [b1 [k2|e2]] eqn:E2.
    + intros HG.
      assert (HG1 : G b1).
      { destruct (isnil (dropN n p)); [exact HG|]. eapply G_write_loop. exact HG. }
      destruct (H1 HG1) as [R1 S1].
      destruct (wf1 a (frame_type f (isnil (dropN n p))) (takeN n p)) as [a1 [k1|e1]];
        cbn [fst snd] in R1, S1; [|discriminate].
      injection R1 as ->.
      destruct (isnil (dropN n p)).
      * cbn [fst snd]. split; [reflexivity|exact S1].
      * apply IH; assumption.
    + cbn [fst snd]. intros HG. destruct (H1 HG) as [R1 S1].
      destruct (wf1 a (frame_type f (isnil (dropN n p))) (takeN n p)) as [a1 [k1|e1]];
        cbn [fst snd] in R1, S1 |- *; [discriminate|]. split; [exact R1|exact S1].
Qed.

Theorem write_record_sim a b p : sim a b ->
  G (fst (write_record P W2 wwrite2 wrem2 b p)) ->
  snd (write_record P W1 wwrite1 wrem1 a p) = snd (write_record P W2 wwrite2 wrem2 b p) /\
  sim (fst (write_record P W1 wwrite1 wrem1 a p)) (fst (write_record P W2 wwrite2 wrem2 b p)).
Proof. unfold write_record. apply write_record_loop_sim. Qed.

Lemma G_write_record b p : G (fst (write_record P W2 wwrite2 wrem2 b p)) -> G b.
Proof. unfold write_record. apply G_write_loop. Qed.
End WriterSim.

(* ====================================================================================== *)
(* PART 2 — the WAL files as one byte stream; the rolling reader is the block reader over it *)
(* ====================================================================================== *)

(* ---------- byte-list helpers ---------- *)
Lemma all_zero_unique : forall a b,
  all_zero a = true -> all_zero b = true -> lenN a = lenN b -> a = b.
Proof.
  induction a as [|x a IH]; intros [|y b] Ha Hb Hl.
  - reflexivity.
  - rewrite lenN_nil, lenN_cons in Hl. lia.
  - rewrite lenN_nil, lenN_cons in Hl. lia.
  - cbn [all_zero] in Ha, Hb. apply andb_true_iff in Ha as [Hx Ha], Hb as [Hy Hb].
    apply byte_eqb_eq in Hx, Hy. subst x y. f_equal. apply IH; try assumption.
    rewrite !lenN_cons in Hl. lia.
Qed.

Lemma zerosN_app a b : zerosN (a + b) = zerosN a ++ zerosN b.
Proof.
  apply all_zero_unique.
  - apply all_zero_zerosN.
  - rewrite all_zero_app, !all_zero_zerosN. reflexivity.
  - rewrite lenN_app, !lenN_zerosN. reflexivity.
Qed.

Lemma dropN_zerosN n m : dropN n (zerosN m) = zerosN (m - n).
Proof.
  apply all_zero_unique.
  - apply all_zero_dropN, all_zero_zerosN.
  - apply all_zero_zerosN.
  - rewrite lenN_dropN, !lenN_zerosN. reflexivity.
Qed.

Lemma takeN_zerosN n m : n <= m -> takeN n (zerosN m) = zerosN n.
Proof.
  intros H. apply all_zero_unique.
  - apply all_zero_takeN, all_zero_zerosN.
  - apply all_zero_zerosN.
  - rewrite lenN_takeN, !lenN_zerosN. lia.
Qed.

Lemma all_zero_is_zeros l : all_zero l = true -> l = zerosN (lenN l).
Proof.
  intros H. apply all_zero_unique; [exact H|apply all_zero_zerosN|now rewrite lenN_zerosN].
Qed.

Lemma sliceN_app_r {A} lo hi (a x : list A) :
  sliceN (lenN a + lo) (lenN a + hi) (a ++ x) = sliceN lo hi x.
Proof.
  unfold sliceN. rewrite dropN_app_ge by lia. f_equal; [lia|f_equal; lia].
Qed.

Lemma sliceN_app_l {A} lo hi (x c : list A) :
  hi <= lenN x -> sliceN lo hi (x ++ c) = sliceN lo hi x.
Proof.
  intros H. unfold sliceN. destruct (N.le_gt_cases lo (lenN x)) as [Hlo|Hlo].
  - rewrite dropN_app_le by exact Hlo. apply takeN_app_le. rewrite lenN_dropN. lia.
  - replace (hi - lo) with 0 by lia. now rewrite !takeN_0.
Qed.

Lemma sliceN_app_mid_gen {A} lo hi (a x c : list A) :
  hi <= lenN x -> sliceN (lenN a + lo) (lenN a + hi) (a ++ x ++ c) = sliceN lo hi x.
Proof. intros H. rewrite sliceN_app_r. now apply sliceN_app_l. Qed.

Lemma lenN_sliceN {A} lo hi (l : list A) : hi <= lenN l -> lenN (sliceN lo hi l) = hi - lo.
Proof. intros H. unfold sliceN. rewrite lenN_takeN, lenN_dropN. lia. Qed.

(* ---------- the stream of a list of files ---------- *)
Definition stream_of (fs : fsT) (files : list N) : bytes := flat_map (fcontent fs) files.

Lemma stream_of_app fs a b : stream_of fs (a ++ b) = stream_of fs a ++ stream_of fs b.
Proof. apply flat_map_app. Qed.

Lemma stream_of_cons fs a b : stream_of fs (a :: b) = fcontent fs a ++ stream_of fs b.
Proof. reflexivity. Qed.

Lemma lenN_stream_of fs F : forall files,
  (forall n, In n files -> lenN (fcontent fs n) = F) ->
  lenN (stream_of fs files) = lenN files * F.
Proof.
  induction files as [|a r IH]; intros H.
  - unfold stream_of. cbn [flat_map]. rewrite (@lenN_nil byte), (@lenN_nil N). lia.
  - rewrite stream_of_cons, lenN_app, lenN_cons, IH.
    + rewrite (H a) by now left. lia.
    + intros n Hn. apply H. now right.
Qed.

Lemma stream_of_ext fs fs' : forall files,
  (forall n, In n files -> fcontent fs' n = fcontent fs n) ->
  stream_of fs' files = stream_of fs files.
Proof.
  induction files as [|a r IH]; intros H; [reflexivity|].
  rewrite !stream_of_cons, IH, (H a); [reflexivity|now left|].
  intros n Hn. apply H. now right.
Qed.

(* ---------- sorted trackers ---------- *)
Lemma sorted_split : forall pre f post,
  StronglySorted N.lt (pre ++ f :: post) ->
  (forall x, In x pre -> x < f) /\ (forall x, In x post -> f < x).
Proof.
  induction pre as [|a pre IH]; intros f post Hs; cbn [app] in Hs.
  - inversion Hs as [|x l Hr Hall]; subst. rewrite Forall_forall in Hall.
    split; [intros x []|exact Hall].
  - inversion Hs as [|x l Hr Hall]; subst. rewrite Forall_forall in Hall.
    destruct (IH f post Hr) as [H1 H2]. split; [|exact H2].
    intros x [<-|Hx]; [|now apply H1]. apply Hall. apply in_or_app. right. now left.
Qed.

Lemma files_after_split pre f post :
  StronglySorted N.lt (pre ++ f :: post) -> files_after (pre ++ f :: post) f = post.
Proof.
  intros Hs. destruct (sorted_split _ _ _ Hs) as [H1 H2].
  unfold files_after. rewrite filter_app. cbn [filter].
  destruct (N.ltb_spec f f) as [H|_]; [lia|].
  replace (filter (fun x => f <? x) pre) with (@nil N).
  - cbn [app]. clear Hs H1. induction post as [|y r IH]; [reflexivity|].
    cbn [filter]. destruct (N.ltb_spec f y) as [_|H]; [|specialize (H2 y (or_introl eq_refl)); lia].
    f_equal. apply IH. intros x Hx. apply H2. now right.
  - clear Hs H2. induction pre as [|y r IH]; [reflexivity|].
    cbn [filter]. destruct (N.ltb_spec f y) as [H|_]; [specialize (H1 y (or_introl eq_refl)); lia|].
    apply IH. intros x Hx. apply H1. now right.
Qed.

(* ---------- contexts without a fault plan ---------- *)
Definition cok (fs : fsT) (c : ioctx) : Prop := c_fs c = fs /\ c_plan c = None.

Lemma fault_point_none fs c s : cok fs c ->
  exists c', fault_point c s = (c', None) /\ cok fs c'.
Proof.
  intros [Hf Hp]. unfold fault_point. rewrite Hp.
  destruct s; eexists; (split; [reflexivity|]); (split; cbn [c_fs c_plan]; [assumption|reflexivity]).
Qed.

Lemma ctx_ev_cok fs c e : cok fs c -> cok fs (ctx_ev c e).
Proof. intros [H1 H2]. split; assumption. Qed.

Lemma open_file_none fs c n b : cok fs c -> fs_get fs (filename n) = Some (FFile b) ->
  exists c', open_file c n = (c', Ok tt) /\ cok fs c'.
Proof.
  intros Hc Hg. unfold open_file. destruct (fault_point_none fs c SOpen Hc) as (c1 & -> & Hc1).
  destruct Hc1 as [Hf Hp]. rewrite Hf, Hg. eexists. split; [reflexivity|].
  apply ctx_ev_cok. split; assumption.
Qed.

Lemma file_content_fcontent c n : file_content c n = fcontent (c_fs c) n.
Proof. reflexivity. Qed.

Section Reader.
Variable P : params.
Hypothesis HB : 0 < BS P.
Hypothesis HNB : 1 <= NB P.
Local Notation B := (BS P).
Local Notation FB := (FILE_BYTES P).

Lemma FB_ge_B : B <= FB.
Proof. unfold FILE_BYTES. nia. Qed.

Lemma read_block_none fs c n pos : cok fs c -> lenN (fcontent fs n) = FB ->
  exists c', cok fs c' /\
    read_block P c n pos =
      if pos + B <=? FB
      then (c', pos + B, Ok (Some (sliceN pos (pos + B) (fcontent fs n))))
      else (c', N.max pos FB, Ok None).
Proof.
  intros Hc Hl. unfold read_block.
  destruct (fault_point_none fs c SRead Hc) as (c1 & -> & Hc1).
  rewrite file_content_fcontent. destruct Hc1 as [Hf Hp]. rewrite Hf, Hl.
  destruct (pos + B <=? FB); eexists; (split; [|reflexivity]); apply ctx_ev_cok; split; assumption.
Qed.

Variable fs : fsT.
Variable files : list N.
Hypothesis Hsorted : StronglySorted N.lt files.
Hypothesis Hfull : forall n, In n files ->
  exists b, fs_get fs (filename n) = Some (FFile b) /\ lenN b = FB.

Local Notation S := (stream_of fs files).

Lemma full_content n : In n files -> lenN (fcontent fs n) = FB.
Proof. intros H. destruct (Hfull n H) as (b & Hg & Hl). unfold fcontent. now rewrite Hg. Qed.

Lemma lenN_S : lenN S = lenN files * FB.
Proof. apply lenN_stream_of. exact full_content. Qed.

Lemma lenN_stream_sub l : (forall n, In n l -> In n files) -> lenN (stream_of fs l) = lenN l * FB.
Proof. intros H. apply lenN_stream_of. intros n Hn. apply full_content, H, Hn. Qed.

Definition vec_at (k : N) : vecr := mkVecR (dropN ((k + 1) * B) S) (sliceN (k * B) ((k + 1) * B) S).

Lemma vec_at_next k :
  mkVecR (dropN B (dropN ((k + 1) * B) S)) (takeN B (dropN ((k + 1) * B) S)) = vec_at (k + 1).
Proof.
  unfold vec_at, sliceN. rewrite dropN_dropN. f_equal.
  - f_equal. lia.
  - f_equal. lia.
Qed.

(* the rolling reader r is the in-memory reader v = vec_at k, k the index of its block in S *)
Definition rd_rel (r : rreaderS) (v : vecr) : Prop :=
  cok fs (rd_ctx r) /\ rd_files r = files /\
  exists pre post j,
    files = pre ++ rd_file r :: post /\ j < NB P /\ rd_block_id r = j /\
    rd_pos r = (j + 1) * B /\ v = vec_at (lenN pre * NB P + j) /\ rd_block r = vr_block v.

Lemma block_in_file pre f post j :
  files = pre ++ f :: post -> j < NB P ->
  sliceN ((lenN pre * NB P + j) * B) ((lenN pre * NB P + j + 1) * B) S =
  sliceN (j * B) ((j + 1) * B) (fcontent fs f).
Proof.
  intros Hf Hj.
  assert (Hpre : lenN (stream_of fs pre) = lenN pre * FB).
  { apply lenN_stream_sub. intros n Hn. rewrite Hf. apply in_or_app. now left. }
  assert (Hc : lenN (fcontent fs f) = FB).
  { apply full_content. rewrite Hf. apply in_or_app. right. now left. }
  rewrite Hf at 1. rewrite stream_of_app, stream_of_cons.
  replace ((lenN pre * NB P + j) * B) with (lenN (stream_of fs pre) + j * B)
    by (rewrite Hpre; unfold FILE_BYTES; lia).
  replace ((lenN pre * NB P + j + 1) * B) with (lenN (stream_of fs pre) + (j + 1) * B)
    by (rewrite Hpre; unfold FILE_BYTES; lia).
  apply sliceN_app_mid_gen. rewrite Hc. unfold FILE_BYTES. nia.
Qed.

Lemma rd_rel_block r v : rd_rel r v -> rd_block r = vr_block v.
Proof. intros (_ & _ & pre & post & j & _ & _ & _ & _ & _ & H). exact H. Qed.

Lemma rd_next_sim r v : rd_rel r v ->
  snd (rd_next P r) = snd (vr_next P v) /\ rd_rel (fst (rd_next P r)) (fst (vr_next P v)).
Proof.
  intros (Hc & Hfl & pre & post & j & Hf & Hj & Hid & Hpos & Hv & Hblk).
  assert (Hin : In (rd_file r) files) by (rewrite Hf; apply in_or_app; right; now left).
  assert (HlenF : lenN files = lenN pre + 1 + lenN post)
    by (rewrite Hf, lenN_app, lenN_cons; lia).
  unfold rd_next.
  destruct (read_block_none fs (rd_ctx r) (rd_file r) (rd_pos r) Hc (full_content _ Hin))
    as (c1 & Hc1 & ->).
  rewrite Hpos. unfold vr_next. subst v. unfold vec_at at 1 2 3 4 5 6 7 8. cbn [vr_rest vr_block].
  rewrite lenN_dropN, lenN_S, HlenF.
  destruct (N.leb_spec ((j + 1) * B + B) FB) as [Hfit|Hend].
  - (* next block of the same file *)
    assert (Hj' : j + 1 < NB P) by (unfold FILE_BYTES in Hfit; nia).
    destruct (N.ltb_spec ((lenN pre + 1 + lenN post) * FB - (lenN pre * NB P + j + 1) * B) B)
      as [Hlt|_]; [unfold FILE_BYTES in *; nia|].
    cbn [fst snd]. split; [reflexivity|].
    split; [exact Hc1|]. split; [exact Hfl|].
    exists pre, post, (j + 1). cbn [rd_file rd_block_id rd_pos rd_block].
    split; [exact Hf|]. split; [exact Hj'|]. split; [lia|]. split; [lia|].
    assert (Hv : mkVecR (dropN B (dropN ((lenN pre * NB P + j + 1) * B) S))
                        (takeN B (dropN ((lenN pre * NB P + j + 1) * B) S)) =
                 vec_at (lenN pre * NB P + (j + 1))).
    { rewrite vec_at_next. f_equal. lia. }
    split; [exact Hv|]. rewrite Hv. unfold vec_at. cbn [vr_block].
    replace (lenN pre * NB P + (j + 1) + 1) with (lenN pre * NB P + (j + 1) + 1) by lia.
    rewrite (block_in_file pre (rd_file r) post (j + 1) Hf Hj').
    f_equal; lia.
  - (* last block of the file *)
    assert (Hj' : j + 1 = NB P) by (unfold FILE_BYTES in Hend; nia).
    assert (Hfa : files_after (rd_files r) (rd_file r) = post).
    { rewrite Hfl. rewrite Hf at 1. apply files_after_split. rewrite <- Hf. exact Hsorted. }
    rewrite Hfa.
    destruct post as [|g post'].
    + (* end of the stream *)
      cbn [next_file_loop rd_files rd_file rd_block_id rd_pos rd_block fst snd].
      rewrite lenN_nil.
      destruct (N.ltb_spec ((lenN pre + 1 + 0) * FB - (lenN pre * NB P + j + 1) * B) B)
        as [_|Hge]; [|unfold FILE_BYTES in *; nia].
      cbn [fst snd]. split; [reflexivity|].
      split; [exact Hc1|]. split; [exact Hfl|].
      exists pre, [], j. cbn [rd_file rd_block_id rd_pos rd_block].
      split; [exact Hf|]. split; [exact Hj|]. split; [exact Hid|].
      split; [unfold FILE_BYTES in *; nia|]. split; [reflexivity|exact Hblk].
    + (* first block of the next file *)
      assert (Hing : In g files).
      { rewrite Hf. apply in_or_app. right. right. now left. }
      destruct (Hfull g Hing) as (bg & Hg & Hlg).
      cbn [next_file_loop].
      destruct (open_file_none fs c1 g bg Hc1 Hg) as (c2 & -> & Hc2).
      destruct (read_block_none fs c2 g 0 Hc2 (full_content _ Hing)) as (c3 & Hc3 & ->).
      pose proof FB_ge_B as HFB.
      destruct (N.leb_spec (0 + B) FB) as [_|Hbad]; [|lia].
      rewrite lenN_cons.
      destruct (N.ltb_spec ((lenN pre + 1 + (1 + lenN post')) * FB - (lenN pre * NB P + j + 1) * B) B)
        as [Hlt|_]; [unfold FILE_BYTES in *; nia|].
      cbn [fst snd rd_files]. split; [reflexivity|].
      split; [exact Hc3|]. split; [exact Hfl|].
      exists (pre ++ [rd_file r]), post', 0. cbn [rd_file rd_block_id rd_pos rd_block].
      assert (Hf' : files = (pre ++ [rd_file r]) ++ g :: post')
        by (rewrite <- app_assoc; exact Hf).
      split; [exact Hf'|]. split; [lia|]. split; [reflexivity|]. split; [lia|].
      assert (Hk : lenN (pre ++ [rd_file r]) * NB P + 0 = lenN pre * NB P + j + 1)
        by (rewrite lenN_app, lenN_cons, lenN_nil; lia).
      assert (Hv : mkVecR (dropN B (dropN ((lenN pre * NB P + j + 1) * B) S))
                          (takeN B (dropN ((lenN pre * NB P + j + 1) * B) S)) =
                   vec_at (lenN (pre ++ [rd_file r]) * NB P + 0)).
      { rewrite Hk. rewrite vec_at_next. f_equal. }
      split; [exact Hv|]. rewrite Hv. unfold vec_at. cbn [vr_block].
      rewrite (block_in_file (pre ++ [rd_file r]) g post' 0 Hf') by lia.
      f_equal; lia.
Qed.

(* Directory::open + RollingReader::open on a directory whose WAL files are `files` *)
Lemma rd_open_sim c0 : cok fs c0 -> list_wal_numbers fs = files -> files <> [] ->
  exists c rd, rd_open P c0 = (c, Ok rd) /\ rd_rel rd (vec_at 0).
Proof.
  intros Hc0 Hlist Hne. unfold rd_open.
  destruct (fault_point_none fs (ctx_ev c0 EvReadDir) SReadDir (ctx_ev_cok _ _ _ Hc0))
    as (c1 & -> & Hc1).
  destruct Hc1 as [Hf1 Hp1]. rewrite Hf1, Hlist.
  assert (Hex : exists f0 rest, files = f0 :: rest) by (destruct files; [congruence|eauto]).
  destruct Hex as (f0 & rest & Efiles).
  match goal with
  | |- context [match files with [] => ?X | _ :: _ => ?Y end] =>
      replace (match files with [] => X | _ :: _ => Y end) with Y by (rewrite Efiles; reflexivity)
  end.
  replace (match files with [] => 0 | f :: _ => f end) with f0 by (rewrite Efiles; reflexivity).
  assert (Hel : (if L_SHORT P then (c1, Ok tt) else ensure_last_full P c1 files) = (c1, Ok tt)).
  { destruct (L_SHORT P); [reflexivity|]. unfold ensure_last_full.
    destruct (last_opt files) as [n|] eqn:El; [|reflexivity].
    rewrite file_content_fcontent, Hf1, (full_content n) by (now apply last_opt_In).
    destruct (N.ltb_spec FB FB) as [H|_]; [lia|reflexivity]. }
  rewrite Hel.
  assert (Hin0 : In f0 files) by (rewrite Efiles; now left).
  destruct (Hfull f0 Hin0) as (b0 & Hg0 & Hl0).
  destruct (open_file_none fs c1 f0 b0 (conj Hf1 Hp1) Hg0) as (c3 & -> & Hc3).
  destruct (read_block_none fs c3 f0 0 Hc3 (full_content _ Hin0)) as (c4 & Hc4 & ->).
  pose proof FB_ge_B as HFB.
  destruct (N.leb_spec (0 + B) FB) as [_|Hbad]; [|lia].
  eexists; eexists. split; [reflexivity|].
  split; [exact Hc4|]. split; [reflexivity|].
  exists [], rest, 0. cbn [rd_file rd_block_id rd_pos rd_block app].
  split; [exact Efiles|]. split; [lia|]. split; [reflexivity|]. split; [lia|].
  rewrite (@lenN_nil N). split; [reflexivity|].
  unfold vec_at. cbn [vr_block].
  pose proof (block_in_file [] f0 rest 0 Efiles) as Hb. rewrite (@lenN_nil N) in Hb.
  replace (0 * B) with ((0 * NB P + 0) * B) by lia.
  replace ((0 + 1) * B) with ((0 * NB P + 0 + 1) * B) by lia.
  rewrite Hb by lia. f_equal; lia.
Qed.
End Reader.

(* ====================================================================================== *)
(* PART 3 — the rolling writer is the in-memory writer over the stream of its files *)
(* ====================================================================================== *)

(* ---------- pwrite inside a file ---------- *)
Lemma write_at_inside c off d :
  off + lenN d <= lenN c ->
  write_at c off d = takeN off c ++ d ++ dropN (off + lenN d) c.
Proof.
  intros H. unfold write_at. destruct (N.leb_spec off (lenN c)) as [_|Hgt]; [reflexivity|lia].
Qed.

Lemma lenN_write_at_inside c off d :
  off + lenN d <= lenN c -> lenN (write_at c off d) = lenN c.
Proof.
  intros H. rewrite write_at_inside by exact H.
  rewrite !lenN_app, lenN_takeN, lenN_dropN. lia.
Qed.

Lemma last_opt_split {A} : forall (l : list A) x, last_opt l = Some x -> exists pre, l = pre ++ [x].
Proof.
  induction l as [|a r IH]; intros x H; [discriminate|].
  destruct r as [|b r'].
  - cbn in H. injection H as ->. now exists [].
  - rewrite last_opt_cons2 in H. destruct (IH x H) as (pre & Hp).
    exists (a :: pre). cbn [app]. now rewrite <- Hp.
Qed.

(* ---------- the directory under fs_write / fs_put ---------- *)
Lemma filename_neq a b : a <= U64_MAX -> b <= U64_MAX -> a <> b -> filename a <> filename b.
Proof. intros Ha Hb Hne E. apply Hne. now apply filename_inj. Qed.

Lemma fs_get_write_other fs f off d name :
  filename f <> name -> fs_get (fs_write fs f off d) name = fs_get fs name.
Proof. intros H. unfold fs_write. now apply GcProofs.fs_get_put_other. Qed.

Lemma fs_get_write_same fs f off d :
  fs_get (fs_write fs f off d) (filename f) = Some (FFile (write_at (fcontent fs f) off d)).
Proof. unfold fs_write. apply GcProofs.fs_get_put_same. Qed.

Lemma fcontent_write_same fs f off d :
  fcontent (fs_write fs f off d) f = write_at (fcontent fs f) off d.
Proof. unfold fcontent at 1. now rewrite fs_get_write_same. Qed.

Lemma fcontent_write_other fs f off d n :
  filename f <> filename n -> fcontent (fs_write fs f off d) n = fcontent fs n.
Proof. intros H. unfold fcontent. now rewrite fs_get_write_other. Qed.

Lemma fcontent_put_same fs name b n : name = filename n -> fcontent (fs_put fs name (FFile b)) n = b.
Proof. intros ->. unfold fcontent. now rewrite GcProofs.fs_get_put_same. Qed.

Lemma fcontent_put_other fs name e n :
  name <> filename n -> fcontent (fs_put fs name e) n = fcontent fs n.
Proof. intros H. unfold fcontent. now rewrite GcProofs.fs_get_put_other. Qed.

Section Writer.
Variable P : params.
Hypothesis HB : 0 < BS P.
Hypothesis HNB : 1 <= NB P.
Local Notation B := (BS P).
Local Notation FB := (FILE_BYTES P).

(* ---------- what one block write does, when it succeeds ---------- *)
Lemma wkey_fields (w' : rwriter) fl n off m :
  wkey w' = (fl, n, off, m) ->
  w_files w' = fl /\ w_file w' = n /\ w_off w' = off /\ cmeta (w_ctx w') = m.
Proof. unfold wkey. intros H. injection H as H1 H2 H3 H4. auto. Qed.

Lemma cmeta_plan c c' : cmeta c' = cmeta c -> c_plan c' = c_plan c.
Proof. unfold cmeta. intros H. now injection H. Qed.

Lemma wr_write_fit w d :
  d <> [] -> wf w -> w_off w + lenN d <= FB ->
  exists w', wr_write P w d = (w', Ok tt) /\
    w_files w' = w_files w /\ w_file w' = w_file w /\ w_off w' = w_off w + lenN d /\
    c_plan (w_ctx w') = c_plan (w_ctx w) /\
    vfs w' = fs_write (vfs w) (w_file w) (w_off w) d /\ wf w'.
Proof.
  intros Hd Hwf Hfit. unfold wr_write. destruct d as [|x d'] eqn:Ed; [congruence|].
  rewrite <- Ed in *. clear Ed x d'.
  destruct (N.ltb_spec FB (w_off w + lenN d)) as [H|_]; [lia|].
  destruct (bw_write_all_wrote P w d Hd Hwf) as (Hk & Hv & Hw').
  apply wkey_fields in Hk. destruct Hk as (K1 & K2 & K3 & K4).
  eexists. split; [reflexivity|]. repeat split; try assumption. now apply cmeta_plan.
Qed.

Lemma wr_write_roll w d :
  d <> [] -> wr_ok w -> FB < w_off w + lenN d ->
  fs_get (vfs w) (filename (w_file w + 1)) = None ->
  exists w', wr_write P w d = (w', Ok tt) /\
    w_files w' = w_files w ++ [w_file w + 1] /\ w_file w' = w_file w + 1 /\
    w_off w' = lenN d /\ c_plan (w_ctx w') = c_plan (w_ctx w) /\
    vfs w' = fs_write (fs_put (vfs w) (filename (w_file w + 1)) (FFile (zerosN FB)))
                      (w_file w + 1) 0 d /\ wf w'.
Proof.
  intros Hd Hok Hroll Hfresh. unfold wr_write. destruct d as [|x d'] eqn:Ed; [congruence|].
  rewrite <- Ed in *. clear Ed x d'.
  destruct (N.ltb_spec FB (w_off w + lenN d)) as [_|H]; [|lia].
  fold (synced w).
  pose proof (synced_pending w) as P1. pose proof (synced_key w) as Q1.
  pose proof (synced_fs w) as V1.
  assert (Hok1 : wr_ok (synced w)).
  { eapply same_tracker_ok; [apply presync_tracker|exact Hok]. }
  rewrite (wr_ok_tracker_next _ Hok1).
  destruct (synced w) as [c1 fl1 n1 off1 p1]. cbn [w_pending w_ctx] in P1, V1. subst p1.
  symmetry in Q1. apply wkey_fields in Q1. cbn [w_files w_file w_off w_ctx] in Q1.
  destruct Q1 as (E1 & E2 & E3 & Hm). subst fl1 n1 off1. cbn [w_files w_file w_off w_ctx w_pending].
  unfold create_file. rewrite V1, Hfresh.
  set (c2 := ctx_ev (ctx_fs (ctx_ev (ctx_fs c1 _) _) _) _).
  assert (Hc2 : c_fs c2 = fs_put (vfs w) (filename (w_file w + 1)) (FFile (zerosN FB))).
  { unfold c2. cbn [ctx_ev ctx_fs c_fs]. apply fs_put_put. }
  assert (Hm2 : cmeta c2 = cmeta (w_ctx w)) by (rewrite Hm; reflexivity).
  set (w2 := mkWr c2 (insert_sorted (w_file w + 1) (w_files w)) (w_file w + 1) 0 []).
  destruct (bw_write_all_wrote P w2 d Hd (wf_nil w2 eq_refl)) as (Hk & Hv & Hw').
  apply wkey_fields in Hk. destruct Hk as (K1 & K2 & K3 & K4).
  eexists. split; [reflexivity|].
  destruct Hok as [Hc Hl]. destruct (w_files w) as [|lo r] eqn:Efl; [destruct Hc|].
  cbn [contiguous] in Hc.
  split; [rewrite K1; unfold w2; cbn [w_files]; now apply insert_sorted_last|].
  split; [exact K2|]. split; [rewrite K3; unfold w2; cbn [w_off]; lia|].
  split; [apply cmeta_plan; rewrite K4; exact Hm2|].
  split; [|exact Hw'].
  rewrite Hv. unfold w2. rewrite vfs_mk. cbn [w_file w_off]. now rewrite Hc2.
Qed.

(* ---------- the invariant of a writer over full-size, zero-prefilled files ---------- *)
Definition winv (w : rwriter) : Prop :=
  wr_ok w /\ wf w /\ w_off w <= FB /\ c_plan (w_ctx w) = None /\ w_file w <= U64_MAX /\
  (forall n, In n (w_files w) ->
     exists b, fs_get (vfs w) (filename n) = Some (FFile b) /\ lenN b = FB) /\
  (forall n, w_file w < n -> n <= U64_MAX -> fs_get (vfs w) (filename n) = None).

(* the files of the tracker, in order, as one stream; the writer's position in it *)
Definition wstream (w : rwriter) : bytes := stream_of (vfs w) (w_files w).
Definition wpos (w : rwriter) : N := (lenN (w_files w) - 1) * FB + w_off w.

Lemma wr_ok_files w : wr_ok w ->
  exists pre, w_files w = pre ++ [w_file w] /\ (forall x, In x pre -> x < w_file w) /\
              StronglySorted N.lt (w_files w).
Proof.
  intros [Hc Hl]. destruct (last_opt_split _ _ Hl) as (pre & Hp). exists pre.
  assert (Hs : StronglySorted N.lt (w_files w)).
  { destruct (w_files w) as [|lo r]; [destruct Hc|]. now apply chain_sorted. }
  split; [exact Hp|]. split; [|exact Hs].
  rewrite Hp in Hs. now destruct (sorted_split _ _ _ Hs) as [H1 _].
Qed.

Lemma wr_ok_le w x : wr_ok w -> In x (w_files w) -> x <= w_file w.
Proof.
  intros [Hc Hl] Hx. destruct (w_files w) as [|lo r]; [destruct Hx|].
  cbn [contiguous] in Hc. destruct (chain_bounds _ _ _ Hc Hl) as [_ Hb]. now apply Hb.
Qed.

Lemma winv_content w n : winv w -> In n (w_files w) -> lenN (fcontent (vfs w) n) = FB.
Proof.
  intros (_ & _ & _ & _ & _ & Hfull & _) Hn. destruct (Hfull n Hn) as (b & Hg & Hl).
  unfold fcontent. now rewrite Hg.
Qed.

Lemma lenN_wstream w : winv w -> lenN (wstream w) = lenN (w_files w) * FB.
Proof. intros Hi. apply lenN_stream_of. intros n Hn. now apply winv_content. Qed.

Lemma wr_write_fit_inv w d :
  winv w -> d <> [] -> w_off w + lenN d <= FB ->
  exists w', wr_write P w d = (w', Ok tt) /\ winv w' /\
    w_files w' = w_files w /\ w_file w' = w_file w /\ w_off w' = w_off w + lenN d /\
    wstream w' = takeN (wpos w) (wstream w) ++ d ++ dropN (wpos w + lenN d) (wstream w).
Proof.
  intros Hi Hd Hfit. pose proof Hi as (Hok & Hwf & Hoff & Hplan & Hu & Hfull & Hfresh).
  destruct (wr_write_fit w d Hd Hwf Hfit) as (w' & Hw & K1 & K2 & K3 & K4 & Hv & Hwf').
  exists w'. split; [exact Hw|].
  destruct (wr_ok_files w Hok) as (pre & Hp & Hpre & Hsorted).
  set (f := w_file w) in *. set (fs := vfs w) in *.
  assert (Hinf : In f (w_files w)) by (rewrite Hp; apply in_or_app; right; now left).
  assert (Hcf : lenN (fcontent fs f) = FB) by now apply winv_content.
  assert (Hle : forall x, In x (w_files w) -> x <= U64_MAX).
  { intros x Hx. pose proof (wr_ok_le w x Hok Hx). fold f in H. lia. }
  split.
  - (* the invariant *)
    split; [eapply wr_ok_same; [exact K1|exact K2|exact Hok]|].
    split; [exact Hwf'|]. split; [lia|]. split; [congruence|]. split; [rewrite K2; exact Hu|].
    rewrite Hv, K1, K2. split.
    + intros n Hn. destruct (N.eq_dec n f) as [->|Hne].
      * rewrite fs_get_write_same. eexists. split; [reflexivity|].
        rewrite lenN_write_at_inside; [exact Hcf|lia].
      * rewrite fs_get_write_other by (apply filename_neq; auto). now apply Hfull.
    + intros n Hn Hnu. rewrite fs_get_write_other by (apply filename_neq; lia).
      now apply Hfresh.
  - split; [exact K1|]. split; [exact K2|]. split; [exact K3|].
    unfold wstream, wpos. fold fs. rewrite Hv, K1, Hp, !stream_of_app.
    assert (Hpre' : stream_of (fs_write fs f (w_off w) d) pre = stream_of fs pre).
    { apply stream_of_ext. intros n Hn. apply fcontent_write_other.
      apply filename_neq; [exact Hu| |specialize (Hpre n Hn); lia].
      apply Hle. rewrite Hp. apply in_or_app. now left. }
    rewrite Hpre'.
    assert (HlenP : lenN (stream_of fs pre) = lenN pre * FB).
    { apply lenN_stream_of. intros n Hn. apply winv_content; [exact Hi|].
      rewrite Hp. apply in_or_app. now left. }
    rewrite !stream_of_cons. unfold stream_of at 2 4 6. cbn [flat_map]. rewrite !app_nil_r.
    rewrite fcontent_write_same, write_at_inside by lia.
    rewrite lenN_app, lenN_cons, lenN_nil.
    replace (lenN pre + (1 + 0) - 1) with (lenN pre) by lia. rewrite <- HlenP.
    rewrite takeN_app_ge, dropN_app_ge by lia.
    rewrite <- app_assoc. f_equal. f_equal; [f_equal; lia|]. f_equal. f_equal. lia.
Qed.

Lemma wr_write_roll_inv w d :
  winv w -> d <> [] -> w_off w = FB -> lenN d <= FB -> w_file w + 1 <= U64_MAX ->
  exists w', wr_write P w d = (w', Ok tt) /\ winv w' /\
    w_files w' = w_files w ++ [w_file w + 1] /\ w_file w' = w_file w + 1 /\
    w_off w' = lenN d /\
    wstream w' = wstream w ++ d ++ zerosN (FB - lenN d).
Proof.
  intros Hi Hd Hend Hlen Hu1. pose proof Hi as (Hok & Hwf & Hoff & Hplan & Hu & Hfull & Hfresh).
  pose proof (lenN_pos d Hd) as Hpos.
  assert (Hroll : FB < w_off w + lenN d) by lia.
  assert (Hfr : fs_get (vfs w) (filename (w_file w + 1)) = None) by (apply Hfresh; lia).
  destruct (wr_write_roll w d Hd Hok Hroll Hfr) as (w' & Hw & K1 & K2 & K3 & K4 & Hv & Hwf').
  exists w'. split; [exact Hw|].
  set (f := w_file w) in *. set (fs := vfs w) in *.
  set (fs1 := fs_put fs (filename (f + 1)) (FFile (zerosN FB))) in *.
  assert (Hle : forall x, In x (w_files w) -> x <= f) by (intros x; apply wr_ok_le; exact Hok).
  assert (Hold : forall n, In n (w_files w) ->
            fs_get (fs_write fs1 (f + 1) 0 d) (filename n) = fs_get fs (filename n)).
  { intros n Hn. specialize (Hle n Hn).
    rewrite fs_get_write_other by (apply filename_neq; lia).
    unfold fs1. apply GcProofs.fs_get_put_other. apply filename_neq; lia. }
  assert (Hnew : fcontent (fs_write fs1 (f + 1) 0 d) (f + 1) = d ++ zerosN (FB - lenN d)).
  { rewrite fcontent_write_same. unfold fs1. rewrite fcontent_put_same by reflexivity.
    rewrite write_at_inside by (rewrite lenN_zerosN; lia).
    rewrite takeN_0, dropN_zerosN. cbn [app]. do 2 f_equal; try lia. }
  split.
  - split.
    { destruct Hok as [Hc Hl]. destruct (wr_ok_roll _ _ Hc Hl) as [Hc' Hl'].
      unfold wr_ok. rewrite K1, K2.
      destruct (w_files w) as [|lo r] eqn:Efl; [destruct Hc|]. cbn [contiguous] in Hc.
      rewrite (insert_sorted_last _ _ _ Hc Hl) in Hc', Hl'. fold f in Hc', Hl'. split; assumption. }
    split; [exact Hwf'|]. split; [lia|]. split; [congruence|]. split; [rewrite K2; exact Hu1|].
    rewrite Hv, K1, K2. split.
    + intros n Hn. apply in_app_or in Hn. destruct Hn as [Hn|[<-|[]]].
      * rewrite Hold by exact Hn. now apply Hfull.
      * rewrite fs_get_write_same. eexists. split; [reflexivity|].
        rewrite lenN_write_at_inside; unfold fs1; rewrite fcontent_put_same by reflexivity;
          rewrite lenN_zerosN; lia.
    + intros n Hn Hnu. rewrite fs_get_write_other by (apply filename_neq; lia).
      unfold fs1. rewrite GcProofs.fs_get_put_other by (apply filename_neq; lia).
      apply Hfresh; lia.
  - split; [exact K1|]. split; [exact K2|]. split; [exact K3|].
    unfold wstream. rewrite Hv, K1, stream_of_app. f_equal.
    + apply stream_of_ext. intros n Hn. unfold fcontent. now rewrite Hold.
    + rewrite stream_of_cons. unfold stream_of. cbn [flat_map]. rewrite app_nil_r. exact Hnew.
Qed.

(* ---------- arithmetic of blocks inside files ---------- *)
Lemma pos_mod k off : (k * FB + off) mod B = off mod B.
Proof.
  unfold FILE_BYTES. replace (k * (B * NB P) + off) with (off + (k * NB P) * B) by lia.
  apply N.mod_add. lia.
Qed.

Lemma fit_or_end off len : off <= FB -> len <= B - off mod B -> FB < off + len -> off = FB.
Proof.
  intros H1 H2 H3. pose proof (N.div_mod off B ltac:(lia)) as Hdm.
  pose proof (N.mod_lt off B ltac:(lia)) as Hlt.
  set (q := off / B) in *. set (r := off mod B) in *. clearbody q r.
  unfold FILE_BYTES in *.
  destruct (N.lt_ge_cases q (NB P)) as [Hq|Hq]; [|nia].
  assert (B * (q + 1) <= B * NB P) by (apply N.mul_le_mono_l; lia). lia.
Qed.

(* (W), invariant form: a block write that fits in the current block never fails and keeps the
   invariant; the only side condition is that rolling over needs a file number that fits in
   a u64 *)
Theorem wr_write_ok_inv w d :
  winv w -> lenN d <= wr_rem P w ->
  (d <> [] -> w_off w = FB -> w_file w + 1 <= U64_MAX) ->
  exists w', wr_write P w d = (w', Ok tt) /\ winv w'.
Proof.
  intros Hi Hlen Hu. destruct d as [|x d'] eqn:Ed.
  - exists w. split; [reflexivity|exact Hi].
  - rewrite <- Ed in *. assert (Hd : d <> []) by (rewrite Ed; discriminate). clear Ed x d'.
    pose proof Hi as (_ & _ & Hoff & _). unfold wr_rem in Hlen.
    destruct (N.le_gt_cases (w_off w + lenN d) FB) as [Hfit|Hroll].
    + destruct (wr_write_fit_inv w d Hi Hd Hfit) as (w' & Hw & Hi' & _). eauto.
    + assert (Hend : w_off w = FB) by (apply (fit_or_end _ (lenN d)); assumption).
      assert (HlenFB : lenN d <= FB).
      { pose proof (FB_ge_B P HB HNB). pose proof (N.mod_lt (w_off w) B ltac:(lia)). lia. }
      destruct (wr_write_roll_inv w d Hi Hd Hend HlenFB (Hu Hd Hend)) as (w' & Hw & Hi' & _).
      eauto.
Qed.

(* first file of the tracker *)
Definition wlo (w : rwriter) : N := w_file w + 1 - lenN (w_files w).

Lemma wr_ok_len w : wr_ok w -> lenN (w_files w) + wlo w = w_file w + 1 /\ 1 <= lenN (w_files w).
Proof.
  intros [Hc Hl]. unfold wlo. destruct (w_files w) as [|lo r]; [destruct Hc|].
  cbn [contiguous] in Hc. destruct (chain_length _ _ _ Hc Hl) as [H1 H2]. lia.
Qed.

(* ---------- the simulation: rolling writer / in-memory writer ---------- *)
Section Sim.
Variable M : N.      (* bound on the cursor of the reference execution *)

Definition wsim (w : rwriter) (v : vecw) : Prop :=
  winv w /\ vw_cursor v = wpos w /\ lenN (vw_buf v) = vw_cursor v /\
  wstream w = vw_buf v ++ zerosN (lenN (w_files w) * FB - wpos w) /\
  FB * wlo w + M <= FB * (U64_MAX + 1).

Definition Gv (v : vecw) : Prop := vw_cursor v <= M.

Lemma wsim_rem w v : wsim w v -> wr_rem P w = vw_rem P v.
Proof.
  intros (_ & Hc & _). unfold wr_rem, vw_rem, wpos in *. now rewrite Hc, pos_mod.
Qed.

Lemma Gv_back v d : Gv (fst (vw_write v d)) -> Gv v.
Proof. unfold Gv, vw_write. cbn [fst vw_cursor]. lia. Qed.

Lemma vw_pad_full v v' : vw_rem P v < HEADER_LEN ->
  vw_write v (zerosN (vw_rem P v)) = (v', Ok tt) -> vw_rem P v' = B.
Proof.
  intros _ H. unfold vw_write in H. injection H as <-. unfold vw_rem. cbn [vw_cursor].
  rewrite lenN_zerosN.
  pose proof (N.div_mod (vw_cursor v) B ltac:(lia)) as Hdm.
  pose proof (N.mod_lt (vw_cursor v) B ltac:(lia)) as Hlt.
  replace (vw_cursor v + (B - vw_cursor v mod B)) with ((vw_cursor v / B + 1) * B) by lia.
  rewrite N.mod_mul by lia. lia.
Qed.

Lemma wsim_write_full w v d : wsim w v -> lenN d <= vw_rem P v -> Gv (fst (vw_write v d)) ->
  snd (wr_write P w d) = snd (vw_write v d) /\
  (d <> [] -> 0 < w_off (fst (wr_write P w d))) /\
  wsim (fst (wr_write P w d)) (fst (vw_write v d)).
Proof.
  intros Hs Hlen HG. pose proof (wsim_rem w v Hs) as Hrem.
  destruct Hs as (Hi & Hc & Hb & HS & HM).
  pose proof Hi as (Hok & Hwf & Hoff & Hplan & Hu & Hfull & Hfresh).
  destruct (wr_ok_len w Hok) as [Hlo Hk].
  unfold vw_write. cbn [fst snd vw_cursor vw_buf].
  destruct d as [|x d'] eqn:Ed.
  - cbn [wr_write fst snd]. split; [reflexivity|]. split; [congruence|].
    split; [exact Hi|]. cbn [vw_cursor vw_buf]. rewrite app_nil_r, lenN_nil, N.add_0_r.
    repeat split; assumption.
  - rewrite <- Ed in *. assert (Hd : d <> []) by (rewrite Ed; discriminate). clear Ed x d'.
    pose proof (lenN_pos d Hd) as Hpos.
    rewrite <- Hrem in Hlen. unfold wr_rem in Hlen.
    unfold Gv in HG. cbn [vw_write fst vw_cursor] in HG.
    destruct (N.le_gt_cases (w_off w + lenN d) FB) as [Hfit|Hroll].
    + destruct (wr_write_fit_inv w d Hi Hd Hfit) as (w' & -> & Hi' & K1 & K2 & K3 & HS').
      cbn [fst snd]. split; [reflexivity|]. split; [intros _; lia|].
      split; [exact Hi'|]. cbn [vw_cursor vw_buf].
      split; [unfold wpos in *; rewrite K1, K3; lia|].
      split; [rewrite lenN_app; lia|].
      split; [|unfold wlo in *; rewrite K1, K2; exact HM].
      rewrite HS', HS. rewrite <- Hc.
      rewrite takeN_app_exact' by exact Hb.
      rewrite dropN_app_ge by lia. rewrite dropN_zerosN.
      rewrite <- app_assoc. do 3 f_equal. unfold wpos in *. rewrite K1, K3. lia.
    + assert (Hend : w_off w = FB) by (apply (fit_or_end _ (lenN d)); assumption).
      assert (Hpos' : wpos w = lenN (w_files w) * FB) by (unfold wpos; rewrite Hend; nia).
      assert (HFBpos : 0 < FB) by (pose proof (FB_ge_B P HB HNB); lia).
      assert (Hu1 : w_file w + 1 <= U64_MAX).
      { rewrite <- Hlo. rewrite Hc, Hpos' in HG.
        assert (FB * (wlo w + lenN (w_files w)) < FB * (U64_MAX + 1)) by lia.
        apply N.mul_lt_mono_pos_l in H; lia. }
      assert (HlenFB : lenN d <= FB).
      { pose proof (FB_ge_B P HB HNB). pose proof (N.mod_lt (w_off w) B ltac:(lia)). lia. }
      destruct (wr_write_roll_inv w d Hi Hd Hend HlenFB Hu1)
        as (w' & -> & Hi' & K1 & K2 & K3 & HS').
      cbn [fst snd]. split; [reflexivity|]. split; [intros _; lia|].
      split; [exact Hi'|]. cbn [vw_cursor vw_buf].
      assert (HlenF' : lenN (w_files w') = lenN (w_files w) + 1)
        by (rewrite K1, lenN_app, lenN_cons, lenN_nil; lia).
      assert (Hpos2 : wpos w' = lenN (w_files w) * FB + lenN d).
      { unfold wpos. rewrite HlenF', K3. f_equal. f_equal. lia. }
      split; [lia|]. split; [rewrite lenN_app; lia|].
      split; [|unfold wlo in *; rewrite HlenF', K2; lia].
      rewrite HS', HS, Hpos', Hpos2, HlenF'.
      replace (lenN (w_files w) * FB - lenN (w_files w) * FB) with 0 by lia.
      change (zerosN 0) with (@nil byte). rewrite app_nil_r, <- app_assoc. do 3 f_equal. lia.
Qed.

Lemma wsim_write w v d : wsim w v -> lenN d <= vw_rem P v -> Gv (fst (vw_write v d)) ->
  snd (wr_write P w d) = snd (vw_write v d) /\
  wsim (fst (wr_write P w d)) (fst (vw_write v d)).
Proof. intros H1 H2 H3. destruct (wsim_write_full w v d H1 H2 H3) as (A & _ & C). now split. Qed.

(* the writer never sits at offset 0 of a file it rolled to *)
Definition offpos (w : rwriter) : Prop := 0 < w_off w \/ lenN (w_files w) = 1.
Definition wsim' (w : rwriter) (v : vecw) : Prop := wsim w v /\ offpos w.

Lemma wsim'_write w v d : wsim' w v -> lenN d <= vw_rem P v -> Gv (fst (vw_write v d)) ->
  snd (wr_write P w d) = snd (vw_write v d) /\
  wsim' (fst (wr_write P w d)) (fst (vw_write v d)).
Proof.
  intros [H1 Ho] H2 H3. destruct (wsim_write_full w v d H1 H2 H3) as (A & Bo & C).
  split; [exact A|]. split; [exact C|].
  destruct d as [|x d']; [exact Ho|]. left. apply Bo. discriminate.
Qed.

Lemma wsim'_rem w v : wsim' w v -> wr_rem P w = vw_rem P v.
Proof. intros [H _]. now apply wsim_rem. Qed.

Theorem write_record_file_sim' w v p : HEADER_LEN <= B -> wsim' w v ->
  Gv (fst (write_record P vecw vw_write (vw_rem P) v p)) ->
  snd (write_record P rwriter (wr_write P) (wr_rem P) w p) =
    snd (write_record P vecw vw_write (vw_rem P) v p) /\
  wsim' (fst (write_record P rwriter (wr_write P) (wr_rem P) w p))
        (fst (write_record P vecw vw_write (vw_rem P) v p)).
Proof.
  intros HB7. apply (write_record_sim P HB7 rwriter vecw (wr_write P) (wr_rem P)
                       vw_write (vw_rem P) wsim' Gv wsim'_rem Gv_back wsim'_write vw_pad_full).
Qed.

(* the record writer over the rolling files = the record writer over the stream *)
Theorem write_record_file_sim w v p : HEADER_LEN <= B -> wsim w v ->
  Gv (fst (write_record P vecw vw_write (vw_rem P) v p)) ->
  snd (write_record P rwriter (wr_write P) (wr_rem P) w p) =
    snd (write_record P vecw vw_write (vw_rem P) v p) /\
  wsim (fst (write_record P rwriter (wr_write P) (wr_rem P) w p))
       (fst (write_record P vecw vw_write (vw_rem P) v p)).
Proof.
  intros HB7. apply (write_record_sim P HB7 rwriter vecw (wr_write P) (wr_rem P)
                       vw_write (vw_rem P) wsim Gv wsim_rem Gv_back wsim_write vw_pad_full).
Qed.

(* a block write that fits in the block never fails and keeps the invariant *)
Corollary wr_write_never_fails w v d : wsim w v -> lenN d <= wr_rem P w ->
  vw_cursor v + lenN d <= M ->
  exists w', wr_write P w d = (w', Ok tt) /\ winv w'.
Proof.
  intros Hs Hlen HM. pose proof (wsim_rem w v Hs) as Hrem. rewrite Hrem in Hlen.
  destruct (wsim_write w v d Hs Hlen) as [H1 H2].
  - unfold Gv, vw_write. cbn [fst vw_cursor]. exact HM.
  - destruct (wr_write P w d) as [w' r]. cbn [fst snd] in *. unfold vw_write in H1.
    cbn [snd] in H1. subst r. exists w'. split; [reflexivity|]. now destruct H2.
Qed.
End Sim.
End Writer.

(* ====================================================================================== *)
(* PART 4 — the file-level round trip *)
(* ====================================================================================== *)

Section RoundTrip.
Variable P : params.
Hypothesis HBS_lo : 7 < BS P.
Hypothesis HBS_hi : BS P <= 65542.
Hypothesis HNB : 1 <= NB P.
Hypothesis Hcrc : forall t p, crcf P t p < 2 ^ 32.
Local Notation B := (BS P).
Local Notation FB := (FILE_BYTES P).

Lemma HB0 : 0 < B. Proof. lia. Qed.
Lemma HB7 : HEADER_LEN <= B. Proof. unfold HEADER_LEN. lia. Qed.
Lemma HFB : B <= FB. Proof. apply FB_ge_B; [exact HB0|exact HNB]. Qed.

(* ---------- the fresh directory ---------- *)
Definition fs_fresh : fsT := [(filename 0, FFile (zerosN FB))].

Lemma fs_fresh_get0 : fs_get fs_fresh (filename 0) = Some (FFile (zerosN FB)).
Proof. unfold fs_fresh. cbn [fs_get]. now rewrite bytes_eqb_refl. Qed.

Lemma fs_fresh_get_other n : 0 < n -> n <= U64_MAX -> fs_get fs_fresh (filename n) = None.
Proof.
  intros H1 H2. unfold fs_fresh. cbn [fs_get].
  replace (bytes_eqb (filename 0) (filename n)) with false; [reflexivity|].
  symmetry. apply bytes_eqb_neq. apply filename_neq; unfold U64_MAX in *; lia.
Qed.

Lemma all_zero_sliceN lo hi l : all_zero l = true -> all_zero (sliceN lo hi l) = true.
Proof. intros H. unfold sliceN. now apply all_zero_takeN, all_zero_dropN. Qed.

Lemma open_fresh pol :
  exists c, cok fs_fresh c /\
    open P [] None pol [] = OpenOk (mkSt (mkWr c [0] 0 (0 * B + 0) []) [] pol).
Proof.
  unfold open, open_with.
  assert (Hrd : exists c, cok fs_fresh c /\
            rd_open P (ctx_init [] None) =
              (c, Ok (mkRd c [0] 0 0 (0 + B) (sliceN 0 (0 + B) (fcontent fs_fresh 0))))).
  { unfold rd_open.
    assert (Hc0 : cok [] (ctx_ev (ctx_init [] None) EvReadDir)) by (split; reflexivity).
    destruct (fault_point_none [] _ SReadDir Hc0) as (c1 & -> & Hf1 & Hp1).
    rewrite Hf1. cbn [list_wal_numbers fold_right]. unfold create_file. rewrite Hf1. cbn [fs_get].
    set (c2 := ctx_ev (ctx_fs (ctx_ev (ctx_fs c1 _) _) _) _).
    assert (Hc2 : cok fs_fresh c2).
    { split; [|exact Hp1]. unfold c2. cbn [ctx_ev ctx_fs c_fs fs_put].
      now rewrite bytes_eqb_refl. }
    assert (Hcont : lenN (fcontent fs_fresh 0) = FB).
    { unfold fcontent. rewrite fs_fresh_get0. apply lenN_zerosN. }
    assert (Hel : (if L_SHORT P then (c2, Ok tt) else ensure_last_full P c2 [0]) = (c2, Ok tt)).
    { destruct (L_SHORT P); [reflexivity|]. unfold ensure_last_full. cbn [last_opt].
      rewrite file_content_fcontent. destruct Hc2 as [-> _]. rewrite Hcont.
      destruct (N.ltb_spec FB FB) as [H|_]; [lia|reflexivity]. }
    rewrite Hel.
    destruct (open_file_none fs_fresh c2 0 _ Hc2 fs_fresh_get0) as (c3 & -> & Hc3).
    destruct (read_block_none P fs_fresh c3 0 0 Hc3 Hcont) as (c4 & Hc4 & ->).
    pose proof HFB.
    destruct (N.leb_spec (0 + B) FB) as [_|Hbad]; [|lia].
    exists c4. split; [exact Hc4|reflexivity]. }
  destruct Hrd as (c & Hc & ->). exists c. split; [exact Hc|].
  assert (Hfuel : exists f, open_fuel P [] = S f).
  { unfold open_fuel. exists (N.to_nat 7). cbn [fs_bytes fold_right].
    rewrite (@lenN_nil (bytes * fentry)), N.mul_0_l. reflexivity. }
  destruct Hfuel as (f & ->).
  unfold rr_open, fr_open. cbn [replay_loop go_next rr_fr rr_buf rr_within].
  rewrite read_frame_unfold. cbn [fr_corrupt fr_cursor fr_rd orb].
  destruct (N.ltb_spec (B - 0) HEADER_LEN) as [H|_]; [unfold HEADER_LEN in H; lia|].
  unfold read_here. cbn [rd_block].
  assert (Hz : all_zero (sliceN 0 (0 + HEADER_LEN) (sliceN 0 (0 + B) (fcontent fs_fresh 0))) = true).
  { apply all_zero_sliceN, all_zero_sliceN. unfold fcontent. rewrite fs_fresh_get0.
    apply all_zero_zerosN. }
  rewrite Hz. cbn [rr_fr fr_rd fr_cursor rd_into_writer rd_ctx rd_files rd_file rd_block_id].
  unfold run_gc_if_necessary, has_deletable. cbn [s_wr w_files]. reflexivity.
Qed.

(* ---------- writing a list of entries ---------- *)
Fixpoint file_write_all (w : rwriter) (entries : list bytes) : rwriter * res (list N) :=
  match entries with
  | [] => (w, Ok [])
  | e :: r =>
      match write_record P rwriter (wr_write P) (wr_rem P) w e with
      | (w1, Ok n) =>
          match file_write_all w1 r with
          | (w2, Ok ns) => (w2, Ok (n :: ns))
          | (w2, Err x) => (w2, Err x)
          end
      | (w1, Err x) => (w1, Err x)
      end
  end.

(* the bound on the length of the encoded stream: file numbers must fit in a u64 *)
Definition MAXLEN : N := FB * (U64_MAX + 1).

Lemma wsim_fresh c : cok fs_fresh c ->
  wsim' P MAXLEN (mkWr c [0] 0 (0 * B + 0) []) (mkVecW 0 []).
Proof.
  intros [Hf Hp]. set (w := mkWr c [0] 0 (0 * B + 0) []).
  assert (Hv : vfs w = fs_fresh) by (unfold w; rewrite vfs_mk; exact Hf).
  assert (Hinv : winv P w).
  { split; [split; [exact I|reflexivity]|].
    split; [unfold wf, w; cbn [w_pending w_off]; rewrite lenN_nil; lia|].
    split; [unfold w; cbn [w_off]; lia|].
    split; [exact Hp|]. split; [unfold w, U64_MAX; cbn [w_file]; lia|].
    rewrite Hv. split.
    - intros n [<-|[]]. eexists. split; [apply fs_fresh_get0|apply lenN_zerosN].
    - unfold w. cbn [w_file]. intros n H1 H2. now apply fs_fresh_get_other. }
  split; [|right; reflexivity].
  split; [exact Hinv|]. cbn [vw_cursor vw_buf].
  assert (Hpos : wpos P w = 0).
  { unfold wpos, w. cbn [w_files w_off]. rewrite lenN_cons, (@lenN_nil N). lia. }
  split; [now rewrite Hpos|]. split; [reflexivity|]. split.
  - unfold wstream. rewrite Hv, Hpos. unfold w. cbn [w_files app].
    rewrite stream_of_cons. unfold stream_of. cbn [flat_map]. rewrite app_nil_r.
    unfold fcontent. rewrite fs_fresh_get0, lenN_cons, (@lenN_nil N). f_equal. lia.
  - unfold wlo, w, MAXLEN. cbn [w_file w_files]. rewrite lenN_cons, (@lenN_nil N). lia.
Qed.

Lemma mem_write_all_cursor es : forall v, vw_cursor v <= vw_cursor (fst (mem_write_all P v es)).
Proof.
  intros v. destruct (mem_write_all_spec P HBS_lo HBS_hi Hcrc es v) as (ns & t & -> & _).
  cbn [fst vw_cursor]. lia.
Qed.

Lemma file_write_all_sim es : forall w v,
  wsim' P MAXLEN w v -> Gv MAXLEN (fst (mem_write_all P v es)) ->
  exists w', file_write_all w es = (w', Ok (snd (mem_write_all P v es))) /\
             wsim' P MAXLEN w' (fst (mem_write_all P v es)).
Proof.
  induction es as [|p ps IH]; intros w v Hs HG.
  - cbn [file_write_all mem_write_all fst snd]. exists w. split; [reflexivity|exact Hs].
  - cbn [file_write_all mem_write_all] in *.
    destruct (write_record_vecw P HBS_lo HBS_hi Hcrc v p) as (e & k & _ & Hwr).
    pose proof (write_record_file_sim' P HB0 HNB MAXLEN w v p HB7 Hs) as Hsim.
    rewrite Hwr in *. cbn [fst snd] in Hsim.
    set (v1 := mkVecW (vw_cursor v + lenN e) (vw_buf v ++ e)) in *.
    pose proof (mem_write_all_cursor ps v1) as Hmono.
    destruct (mem_write_all P v1 ps) as [v2 ns] eqn:Emem. cbn [fst snd] in HG, Hmono |- *.
    destruct Hsim as [Hres Hs1]; [unfold Gv in *; lia|].
    destruct (write_record P rwriter (wr_write P) (wr_rem P) w p) as [w1 r1].
    cbn [fst snd] in Hres, Hs1. subst r1.
    destruct (IH w1 v1 Hs1) as (w' & Hw' & Hs'); [rewrite Emem; exact HG|].
    rewrite Emem in Hw', Hs'. cbn [fst snd] in Hw', Hs'.
    exists w'. rewrite Hw'. split; [reflexivity|exact Hs'].
Qed.

(* ---------- where the reader stops, compared with the writer ---------- *)
(* the reader skips the tail of a block that cannot hold a header (the writer will pad it with
   zeros before its next frame), except in the last block of the last file *)
Definition norm_off (off : N) : N :=
  if (B - off mod B <? 7) && (off + (B - off mod B) <? FB)
  then off + (B - off mod B) else off.

Lemma final_arith lp lq j k c woff :
  (lp + lq) * FB + woff = k * B + c -> c <= B -> woff <= FB ->
  (0 < woff \/ lp + lq = 0) -> (0 < c \/ k * B + c = 0) -> j < NB P ->
  (if (B - c <? 7) && ((k + 2) * B <=? (lp + 1 + lq) * FB) then k + 1 else k) = lp * NB P + j ->
  lq = 0 /\
  j * B + (if (B - c <? 7) && ((k + 2) * B <=? (lp + 1 + lq) * FB) then 0 else c) = norm_off woff.
Proof.
  intros Heq Hc Hw Hwpos Hcpos Hj Hk.
  assert (HFB : FB = NB P * B) by (unfold FILE_BYTES; lia).
  assert (Hj1 : j * B + B <= FB).
  { rewrite HFB. replace (j * B + B) with ((j + 1) * B) by lia. apply N.mul_le_mono_r. lia. }
  assert (Hlq : 1 <= lq -> FB <= lq * FB).
  { intros H. replace FB with (1 * FB) at 1 by lia. now apply N.mul_le_mono_r. }
  assert (Hdist : (lp + lq) * FB = lp * FB + lq * FB) by lia.
  assert (Hlp : lp * FB = lp * NB P * B) by (rewrite HFB; lia).
  unfold norm_off.
  destruct (N.ltb_spec (B - c) 7) as [Hc7|Hc7];
    [destruct (N.leb_spec ((k + 2) * B) ((lp + 1 + lq) * FB)) as [Hnext|Hnext]|];
    cbn [andb] in Hk |- *.
  - (* the reader moved to the next block *)
    assert (Hk' : (k + 1) * B = lp * FB + j * B) by (rewrite Hk, Hlp; lia).
    assert (Hmain : j * B + c = lq * FB + woff + B) by lia.
    assert (Hlq0 : lq = 0).
    { destruct (N.eq_dec lq 0) as [E|E]; [exact E|]. specialize (Hlq ltac:(lia)). lia. }
    split; [exact Hlq0|]. subst lq. rewrite N.mul_0_l in Hmain.
    destruct (N.eq_dec c B) as [->|Hne].
    + assert (Hwo : woff = j * B) by lia. rewrite Hwo.
      rewrite N.mod_mul by lia.
      destruct (N.ltb_spec (B - 0) 7) as [H|_]; [lia|]. cbn [andb]. lia.
    + assert (Hj0 : 1 <= j).
      { destruct (N.eq_dec j 0) as [E|E]; [subst j; lia|lia]. }
      assert (Hwo : woff = (j - 1) * B + c).
      { replace (j * B) with ((j - 1) * B + B) in Hmain by nia. lia. }
      rewrite Hwo, (mod_kc P HBS_lo HBS_hi) by lia.
      destruct (N.ltb_spec (B - c) 7) as [_|H]; [|lia].
      assert (Hsum : (j - 1) * B + c + (B - c) = j * B) by nia.
      rewrite Hsum.
      destruct (N.ltb_spec (j * B) FB) as [_|H]; [cbn [andb]; lia|lia].
  - (* no next block *)
    subst k.
    assert (Hmain : j * B + c = lq * FB + woff) by lia.
    assert (Hlq0 : lq = 0).
    { destruct (N.eq_dec lq 0) as [E|E]; [exact E|]. specialize (Hlq ltac:(lia)). lia. }
    split; [exact Hlq0|]. subst lq. rewrite N.mul_0_l in Hmain.
    destruct (N.eq_dec c B) as [->|Hne].
    + assert (Hwo : woff = (j + 1) * B) by lia. rewrite Hwo.
      rewrite N.mod_mul by lia.
      destruct (N.ltb_spec (B - 0) 7) as [H|_]; [lia|]. cbn [andb]. lia.
    + assert (Hwo : woff = j * B + c) by lia.
      rewrite Hwo, (mod_kc P HBS_lo HBS_hi) by lia.
      destruct (N.ltb_spec (B - c) 7) as [_|H]; [|lia].
      destruct (N.ltb_spec (j * B + c + (B - c)) FB) as [H|_]; [|cbn [andb]; lia].
      exfalso.
      assert (H1 : (j + 1) * B < NB P * B) by lia.
      apply N.mul_lt_mono_pos_r in H1; [|lia].
      assert (H2 : (j + 2) * B <= NB P * B) by (apply N.mul_le_mono_r; lia).
      rewrite Hlp in *. lia.
  - subst k.
    assert (Hmain : j * B + c = lq * FB + woff) by lia.
    assert (Hlq0 : lq = 0).
    { destruct (N.eq_dec lq 0) as [E|E]; [exact E|]. specialize (Hlq ltac:(lia)). lia. }
    split; [exact Hlq0|]. subst lq. rewrite N.mul_0_l in Hmain.
    assert (Hwo : woff = j * B + c) by lia. rewrite Hwo.
    destruct (N.eq_dec c B) as [->|Hne].
    + replace (j * B + B) with ((j + 1) * B) by lia. rewrite N.mod_mul by lia.
      destruct (N.ltb_spec (B - 0) 7) as [H|_]; [lia|]. cbn [andb]. lia.
    + rewrite (mod_kc P HBS_lo HBS_hi) by lia.
      destruct (N.ltb_spec (B - c) 7) as [H|_]; [lia|]. cbn [andb]. lia.
Qed.

Lemma norm_off_bounds off : off <= FB -> off <= norm_off off /\ norm_off off <= FB.
Proof.
  intros H. unfold norm_off. destruct (N.ltb_spec (B - off mod B) 7); cbn [andb]; [|lia].
  destruct (N.ltb_spec (off + (B - off mod B)) FB); lia.
Qed.

(* the two cursors coincide unless the block tail is too short for a header (and it is not
   the last block of the file) *)
(* (BS - off mod BS is wr_rem of a writer at offset off) *)
Lemma norm_off_same off :
  7 <= B - off mod B \/ FB <= off + (B - off mod B) -> norm_off off = off.
Proof.
  unfold norm_off. intros [H|H].
  - destruct (N.ltb_spec (B - off mod B) 7); [lia|reflexivity].
  - destruct (N.ltb_spec (off + (B - off mod B)) FB); [lia|]. now rewrite andb_false_r.
Qed.

(* otherwise the reader is ahead by exactly the padding the writer will emit first *)
Lemma norm_off_pad off :
  norm_off off = off \/
  (B - off mod B < 7 /\ norm_off off = off + (B - off mod B) /\ norm_off off < FB).
Proof.
  unfold norm_off. destruct (N.ltb_spec (B - off mod B) 7); cbn [andb]; [|now left].
  destruct (N.ltb_spec (off + (B - off mod B)) FB); [right; lia|now left].
Qed.

(* ---------- reading everything back ---------- *)
Inductive file_read := FrEntry (b : bytes) | FrCorrupt | FrEnd | FrIo (e : ioerr) | FrFuel.

(* what was read, and the reader as left behind *)
Fixpoint file_read_all (fuel gofuel : nat) (rr : rreader rreaderS)
  : list file_read * rreader rreaderS :=
  match fuel with
  | O => ([FrFuel], rr)
  | S fuel' =>
      match go_next P rreaderS (rd_next P) rd_block gofuel rr with
      | (rr', RRecord) =>
          let '(l, r) := file_read_all fuel' gofuel rr' in (FrEntry (rr_buf rr') :: l, r)
      | (rr', RCorrupt) =>
          let '(l, r) := file_read_all fuel' gofuel rr' in (FrCorrupt :: l, r)
      | (rr', REnd) => ([FrEnd], rr')
      | (rr', RIo e) => ([FrIo e], rr')
      | (rr', RFuel) => ([FrFuel], rr')
      end
  end.

Section Reading.
Variable fs : fsT.
Variable files : list N.
Hypothesis Hsorted : StronglySorted N.lt files.
Hypothesis Hfull : forall n, In n files ->
  exists b, fs_get fs (filename n) = Some (FFile b) /\ lenN b = FB.

Local Notation St := (stream_of fs files).
Local Notation rsim := (rd_rel P fs files).
Local Notation rrsim := (rr_sim rreaderS vecr rsim).
Local Notation gonextF := (go_next P rreaderS (rd_next P) rd_block).
Local Notation gonextV := (go_next P vecr (vr_next P) vr_block).

Lemma go_next_FV fuel rrF rrV : rrsim rrF rrV ->
  snd (gonextF fuel rrF) = snd (gonextV fuel rrV) /\
  rrsim (fst (gonextF fuel rrF)) (fst (gonextV fuel rrV)).
Proof.
  apply go_next_sim.
  - apply rd_next_sim; [exact HB0|exact HNB|exact Hsorted|exact Hfull].
  - apply rd_rel_block.
Qed.

Lemma stream_ok_St : stream_ok P St.
Proof.
  exists (lenN files * NB P). rewrite (lenN_S P fs files Hfull). unfold FILE_BYTES. lia.
Qed.

Lemma file_read_entries a es t :
  encs_rel P a es t ->
  forall pre post rrF rrV gofuel fuel2,
    rrsim rrF rrV -> at_pos P St (rr_fr rrV) a -> St = pre ++ t ++ post -> lenN pre = a ->
    lenN t <= 7 * N.of_nat gofuel ->
    (0 < fr_cursor (rr_fr rrV) \/ a = 0) ->
    exists rrF' rrV',
      rrsim rrF' rrV' /\ at_pos P St (rr_fr rrV') (a + lenN t) /\
      (0 < fr_cursor (rr_fr rrV') \/ a + lenN t = 0) /\
      file_read_all (length es + fuel2) gofuel rrF =
        (map FrEntry es ++ fst (file_read_all fuel2 gofuel rrF'),
         snd (file_read_all fuel2 gofuel rrF')).
Proof.
  induction 1 as [a | a p ps e k t He Hes IH];
    intros pre post rrF rrV gofuel fuel2 Hsim Hat HS Hpre Hgf Hcur.
  - exists rrF, rrV. rewrite (@lenN_nil byte), N.add_0_r.
    split; [exact Hsim|]. split; [exact Hat|]. split; [exact Hcur|].
    cbn [length Nat.add map app]. now destruct (file_read_all fuel2 gofuel rrF).
  - destruct rrV as [fr rbuf within]. cbn [rr_fr] in Hat.
    rewrite <- app_assoc in HS. rewrite lenN_app in Hgf.
    pose proof (enc_rel_frames P HBS_lo HBS_hi Hcrc _ _ _ _ _ He) as [Hk _].
    destruct (go_next_record P HBS_lo HBS_hi Hcrc a true p e k He St pre (t ++ post) fr rbuf
                within gofuel stream_ok_St Hat HS Hpre) as (fr' & Hgo & Hat');
      [left; reflexivity | lia |].
    pose proof (go_next_record_cursor _ _ _ _ _ _ _ Hgo) as Hc7. cbn [rr_fr] in Hc7.
    destruct (go_next_FV gofuel rrF _ Hsim) as [Hres Hsim1].
    rewrite Hgo in Hres, Hsim1. cbn [fst snd] in Hres, Hsim1.
    destruct (gonextF gofuel rrF) as [rrF1 r1] eqn:EgoF. cbn [fst snd] in Hres, Hsim1. subst r1.
    destruct (IH (pre ++ e) post rrF1 (mkRR fr' ([] ++ p) false) gofuel fuel2)
      as (rrF' & rrV' & Hsim' & Hat'' & Hcur' & Hrd).
    + exact Hsim1.
    + exact Hat'.
    + rewrite HS, <- app_assoc. reflexivity.
    + rewrite lenN_app. lia.
    + lia.
    + left. cbn [rr_fr]. unfold HEADER_LEN in Hc7. lia.
    + exists rrF', rrV'. split; [exact Hsim'|].
      rewrite lenN_app.
      replace (a + (lenN e + lenN t)) with (a + lenN e + lenN t) by lia.
      split; [exact Hat''|]. split; [exact Hcur'|].
      cbn [length Nat.add file_read_all map app]. rewrite EgoF, Hrd.
      destruct Hsim1 as (_ & Hbuf & _). cbn [rr_buf app] in Hbuf. rewrite Hbuf. reflexivity.
Qed.

(* ---------- the end of the log ---------- *)
Local Notation rframeV := (read_frame P vecr (vr_next P) vr_block).

Lemma vec_read_end Sx t z k c :
  Sx = t ++ zerosN z -> lenN t = k * B + c -> c <= B -> (k + 1) * B <= lenN Sx ->
  rframeV (rd_at P Sx k c) =
    if (B - c <? 7) && ((k + 2) * B <=? lenN Sx)
    then (rd_at P Sx (k + 1) 0, FNotAvail) else (rd_at P Sx k c, FNotAvail).
Proof.
  intros HS Ht Hc Hblk.
  destruct (N.ltb_spec (B - c) 7) as [Hc7|Hc7];
    [destruct (N.leb_spec ((k + 2) * B) (lenN Sx)) as [Hnext|Hnext]|]; cbn [andb].
  - rewrite (read_frame_skip P HBS_lo HBS_hi Hcrc) by assumption.
    apply (read_frame_zero P HBS_lo HBS_hi Hcrc); [lia|].
    rewrite sliceN_sliceN by lia. rewrite HS. apply slice_zero. lia.
  - rewrite read_frame_unfold. unfold rd_at. cbn [fr_corrupt fr_cursor fr_rd orb].
    destruct (N.ltb_spec (B - c) HEADER_LEN) as [_|H]; [|unfold HEADER_LEN in H; lia].
    unfold vr_next. cbn [vr_rest vr_block]. rewrite lenN_dropN.
    destruct (N.ltb_spec (lenN Sx - (k + 1) * B) B) as [_|H]; [reflexivity|lia].
  - apply (read_frame_zero P HBS_lo HBS_hi Hcrc); [lia|].
    rewrite sliceN_sliceN by lia. rewrite HS. apply slice_zero. lia.
Qed.

Lemma vec_at_inj k1 k2 :
  (k1 + 1) * B <= lenN St -> (k2 + 1) * B <= lenN St ->
  vec_at P fs files k1 = vec_at P fs files k2 -> k1 = k2.
Proof.
  intros H1 H2 H. apply (f_equal (fun v => lenN (vr_rest v))) in H.
  unfold vec_at in H. cbn [vr_rest] in H. rewrite !lenN_dropN in H.
  assert (E : (k1 + 1) * B = (k2 + 1) * B) by lia.
  apply N.mul_cancel_r in E; lia.
Qed.

(* the last go_next: end of the log, and where the reader is left *)
Lemma file_read_end t z rrF rrV wfile woff pre0 g :
  St = t ++ zerosN z -> rrsim rrF rrV -> at_pos P St (rr_fr rrV) (lenN t) ->
  (0 < fr_cursor (rr_fr rrV) \/ lenN t = 0) ->
  files = pre0 ++ [wfile] -> lenN pre0 * FB + woff = lenN t -> woff <= FB ->
  (0 < woff \/ lenN pre0 = 0) ->
  exists rrF',
    gonextF (S g) rrF = (rrF', REnd) /\
    cok fs (rd_ctx (fr_rd (rr_fr rrF'))) /\
    rd_files (fr_rd (rr_fr rrF')) = files /\
    rd_file (fr_rd (rr_fr rrF')) = wfile /\
    rd_block_id (fr_rd (rr_fr rrF')) * B + fr_cursor (rr_fr rrF') = norm_off woff.
Proof.
  intros HS Hsim (k & c & Ha & Hc & Hblk & Hfr) Hcur Hfiles Hwpos Hwoff Hwz.
  destruct rrV as [frV bufV withinV]. cbn [rr_fr] in *. subst frV.
  unfold rd_at in Hcur at 1. cbn [fr_cursor] in Hcur.
  pose proof (lenN_S P fs files Hfull) as HlenS.
  pose proof (vec_read_end St t z k c HS Ha Hc Hblk) as Hrf.
  set (cond := (B - c <? 7) && ((k + 2) * B <=? lenN St)) in *.
  set (k2 := if cond then k + 1 else k).
  set (c2 := if cond then 0 else c).
  assert (Hrf' : rframeV (rd_at P St k c) = (rd_at P St k2 c2, FNotAvail)).
  { rewrite Hrf. unfold k2, c2. now destruct cond. }
  assert (Hblk2 : (k2 + 1) * B <= lenN St).
  { unfold k2, cond. destruct (N.ltb_spec (B - c) 7); cbn [andb]; [|exact Hblk].
    destruct (N.leb_spec ((k + 2) * B) (lenN St)); [lia|exact Hblk]. }
  assert (HgoV : gonextV (S g) (mkRR (rd_at P St k c) bufV withinV) =
                 (mkRR (rd_at P St k2 c2) bufV withinV, REnd)).
  { cbn [go_next rr_fr rr_buf rr_within]. rewrite Hrf'. reflexivity. }
  destruct (go_next_FV (S g) rrF _ Hsim) as [Hres Hsim'].
  rewrite HgoV in Hres, Hsim'. cbn [fst snd] in Hres, Hsim'.
  revert Hres Hsim'.
  destruct (gonextF (S g) rrF) as [rrF' r'] eqn:EgoF. cbn [fst snd]. intros Hres Hsim'. subst r'.
  exists rrF'. split; [reflexivity|].
  destruct Hsim' as ((Hrd & Hcf & _) & _ & _). cbn [rr_fr] in Hrd, Hcf.
  unfold rd_at in Hcf at 1. cbn [fr_cursor] in Hcf.
  change (fr_rd (rd_at P St k2 c2)) with (vec_at P fs files k2) in Hrd.
  destruct Hrd as (Hcok & Hfl & pre & post & j & Hf & Hj & Hid & _ & Hv & _).
  split; [exact Hcok|].
  assert (HlenF : lenN files = lenN pre + 1 + lenN post)
    by (rewrite Hf, lenN_app, lenN_cons; lia).
  assert (HlenF0 : lenN files = lenN pre0 + 1)
    by (rewrite Hfiles, lenN_app, lenN_cons, (@lenN_nil N); lia).
  assert (Hk2 : k2 = lenN pre * NB P + j).
  { apply vec_at_inj; [exact Hblk2| |exact Hv].
    rewrite HlenS, HlenF. unfold FILE_BYTES.
    assert ((lenN pre * NB P + j + 1) * B <= (lenN pre * NB P + NB P) * B)
      by (apply N.mul_le_mono_r; lia).
    nia. }
  destruct (final_arith (lenN pre) (lenN post) j k c woff) as [Hpost Hoff].
  - replace (lenN pre + lenN post) with (lenN pre0) by lia. lia.
  - exact Hc.
  - exact Hwoff.
  - destruct Hwz as [H|H]; [now left|right; lia].
  - destruct Hcur as [H|H]; [now left|right; lia].
  - exact Hj.
  - rewrite <- Hk2. unfold k2, cond. rewrite HlenS, HlenF. reflexivity.
  - split; [exact Hfl|]. apply lenN_0_nil in Hpost. subst post.
    split.
    + rewrite Hf in Hfiles. apply app_inj_tail in Hfiles. now destruct Hfiles.
    + rewrite Hid, Hcf. rewrite <- Hoff. unfold c2, cond.
      rewrite HlenS, HlenF, (@lenN_nil N). reflexivity.
Qed.
End Reading.

(* ---------- invariants of the block writer carried through a list of records ---------- *)
Lemma file_write_all_inv (Inv : rwriter -> Prop) :
  (forall w d w' r, wr_write P w d = (w', r) -> Inv w -> Inv w') ->
  forall es w w' r, file_write_all w es = (w', r) -> Inv w -> Inv w'.
Proof.
  intros Hstep. induction es as [|p ps IH]; intros w w' r; cbn [file_write_all].
  - intros H; inversion H; subst. auto.
  - destruct (write_record P rwriter (wr_write P) (wr_rem P) w p) as [w1 [n|x]] eqn:E1.
    + destruct (file_write_all w1 ps) as [w2 [ns|x]] eqn:E2; intros H Hi; inversion H; subst;
        (eapply IH; [exact E2|]);
        eapply (write_record_inv P rwriter (wr_write P) (wr_rem P) Inv Hstep); eassumption.
    + intros H Hi; inversion H; subst.
      eapply (write_record_inv P rwriter (wr_write P) (wr_rem P) Inv Hstep); eassumption.
Qed.

Lemma fresh_dir_inv c : cok fs_fresh c ->
  wd_ok (mkWr c [0] 0 (0 * B + 0) []) /\ nd (mkWr c [0] 0 (0 * B + 0) []).
Proof.
  intros [Hf Hp]. split.
  - split; [split; [exact I|reflexivity]|]. intros _. unfold dir_ok, dir_of. cbn [w_ctx w_files].
    rewrite Hf. intros n Hn. destruct (N.eq_dec n 0) as [->|Hne].
    + rewrite fs_fresh_get0. split; [now left|eauto].
    + rewrite fs_fresh_get_other by lia. split; [intros [b Hb]; discriminate|].
      intros [E|[]]. congruence.
  - unfold nd, nodup_keys. cbn [w_ctx]. rewrite Hf. unfold fs_fresh. cbn [map fst].
    constructor; [intros []|constructor].
Qed.

(* the listing of the directory the writer leaves behind is its tracker *)
Lemma listing_after w : winv P w -> wd_ok w -> nd w ->
  list_wal_numbers (vfs w) = w_files w.
Proof.
  intros Hi [Hok Hdir] Hnd. destruct Hi as (_ & _ & _ & _ & Hu & _).
  pose proof (flush_buf_tracker w) as [T1 T2].
  change (vfs w) with (c_fs (w_ctx (flush_buf w))). rewrite <- T1.
  apply dir_ok_listing.
  - now apply flush_buf_nd.
  - eapply same_tracker_ok; [apply flush_buf_tracker|exact Hok].
  - apply flush_buf_dir; [now apply wr_ok_cur_in|exact Hu|now apply Hdir].
  - rewrite T2. exact Hu.
Qed.

(* ====================================================================== *)
(* the file-level round trip                                               *)
(* ====================================================================== *)
Theorem file_roundtrip pol st0 es :
  open P [] None pol [] = OpenOk st0 ->
  vw_cursor (fst (mem_write_all P (mkVecW 0 []) es)) <= MAXLEN ->
  exists w',
    (* writing never fails, and pushes the same byte counts as the in-memory writer *)
    file_write_all (s_wr st0) es = (w', Ok (snd (mem_write_all P (mkVecW 0 []) es))) /\
    forall qs pol',
      let fs' := c_fs (drop_log (mkSt w' qs pol')) in
      exists c rd,
        rd_open P (ctx_init fs' None) = (c, Ok rd) /\
        forall fuel gofuel,
          (length es < fuel)%nat -> lenN (w_files w') * FB <= 7 * N.of_nat gofuel ->
          exists rr,
            file_read_all fuel gofuel (rr_open rreaderS rd) = (map FrEntry es ++ [FrEnd], rr) /\
            let wr := rd_into_writer P (fr_rd (rr_fr rr)) (fr_cursor (rr_fr rr)) in
            w_files wr = w_files w' /\ w_file wr = w_file w' /\
            w_off wr = norm_off (w_off w') /\
            w_pending wr = [] /\ c_fs (w_ctx wr) = fs' /\ c_plan (w_ctx wr) = None.
Proof.
  intros Hopen HG.
  destruct (open_fresh pol) as (c0 & Hc0 & Hopen'). rewrite Hopen' in Hopen.
  injection Hopen as <-. cbn [s_wr].
  set (w0 := mkWr c0 [0] 0 (0 * B + 0) []) in *.
  destruct (file_write_all_sim es w0 (mkVecW 0 []) (wsim_fresh c0 Hc0) HG) as (w' & Hw' & Hs').
  exists w'. split; [exact Hw'|].
  destruct (mem_write_all_spec P HBS_lo HBS_hi Hcrc es (mkVecW 0 [])) as (ns & t & Hmem & Hencs & _).
  rewrite Hmem in Hs'. cbn [fst vw_cursor vw_buf app] in Hs', Hencs.
  destruct Hs' as [(Hi & Hcur & _ & HS & _) Hoffpos]. cbn [vw_cursor vw_buf] in Hcur, HS.
  rewrite N.add_0_l in Hcur.
  destruct (fresh_dir_inv c0 Hc0) as [Hwd0 Hnd0]. fold w0 in Hwd0, Hnd0.
  assert (Hwd : wd_ok w').
  { apply (file_write_all_inv wd_ok (wr_write_wd_ok P) es w0 w' _ Hw' Hwd0). }
  assert (Hnd : nd w').
  { apply (file_write_all_inv nd (wr_write_nd P) es w0 w' _ Hw' Hnd0). }
  intros qs pol'. change (c_fs (drop_log (mkSt w' qs pol'))) with (vfs w').
  set (fs' := vfs w') in *. set (files := w_files w') in *.
  pose proof Hi as (Hok & _ & Hoff & _ & _ & Hfull & _). fold fs' files in Hfull.
  destruct (wr_ok_files w' Hok) as (pre0 & Hfiles & _ & Hsorted). fold files in Hfiles, Hsorted.
  assert (Hlist : list_wal_numbers fs' = files) by (apply listing_after; assumption).
  assert (Hne : files <> []) by (rewrite Hfiles; destruct pre0; discriminate).
  destruct (rd_open_sim P HB0 HNB fs' files Hsorted Hfull (ctx_init fs' None))
    as (c & rd & Hrd & Hrel); [split; reflexivity|exact Hlist|exact Hne|].
  exists c, rd. split; [exact Hrd|].
  intros fuel gofuel Hfuel Hgofuel.
  pose proof (lenN_S P fs' files Hfull) as HlenS.
  assert (HlenF : lenN files = lenN pre0 + 1)
    by (rewrite Hfiles, lenN_app, lenN_cons, (@lenN_nil N); lia).
  pose proof HFB as HFB'.
  assert (HSt : stream_of fs' files = [] ++ t ++ zerosN (lenN files * FB - wpos P w')).
  { cbn [app]. exact HS. }
  assert (HtS : lenN t <= lenN files * FB).
  { rewrite <- HlenS, HSt. cbn [app]. rewrite lenN_app. lia. }
  set (rrF0 := rr_open rreaderS rd).
  set (rrV0 := rr_open vecr (vec_at P fs' files 0)).
  assert (Hsim0 : rr_sim rreaderS vecr (rd_rel P fs' files) rrF0 rrV0)
    by (apply rr_open_sim; exact Hrel).
  assert (Hat0 : at_pos P (stream_of fs' files) (rr_fr rrV0) 0).
  { exists 0, 0. split; [lia|]. split; [lia|]. split; [rewrite HlenS; nia|reflexivity]. }
  assert (Hsplit : fuel = (length es + S (fuel - length es - 1))%nat) by lia.
  destruct (file_read_entries fs' files Hsorted Hfull 0 es t Hencs [] _ rrF0 rrV0 gofuel
              (S (fuel - length es - 1)) Hsim0 Hat0 HSt eq_refl)
    as (rrF1 & rrV1 & Hsim1 & Hat1 & Hcur1 & Hread); [lia|now right|].
  rewrite N.add_0_l in Hat1, Hcur1.
  destruct gofuel as [|g]; [lia|].
  unfold wpos in Hcur. fold files in Hcur. rewrite HlenF in Hcur.
  replace (lenN pre0 + 1 - 1) with (lenN pre0) in Hcur by lia.
  destruct (file_read_end fs' files Hsorted Hfull t _ rrF1 rrV1 (w_file w') (w_off w') pre0 g
              HS Hsim1 Hat1 Hcur1 Hfiles) as (rr & Hgo & [R4 R5] & R1 & R2 & R3).
  - lia.
  - exact Hoff.
  - destruct Hoffpos as [H|H]; [now left|right]. fold files in H. lia.
  - exists rr. split.
    + rewrite Hsplit, Hread. cbn [file_read_all]. rewrite Hgo. reflexivity.
    + cbn [rd_into_writer w_files w_file w_off w_pending w_ctx]. repeat split; assumption.
Qed.

(* the writer rebuilt from the reader is again in simulation with the in-memory writer: the one
   that has emitted the padding (if any) the reader skipped *)
Lemma reopen_wsim w' v' wr :
  wsim' P MAXLEN w' v' ->
  w_files wr = w_files w' -> w_file wr = w_file w' -> w_off wr = norm_off (w_off w') ->
  w_pending wr = [] -> c_fs (w_ctx wr) = vfs w' -> c_plan (w_ctx wr) = None ->
  let pad := norm_off (w_off w') - w_off w' in
  wsim' P MAXLEN wr (mkVecW (vw_cursor v' + pad) (vw_buf v' ++ zerosN pad)).
Proof.
  intros [(Hi & Hc & Hb & HS & HM) Hop] E1 E2 E3 E4 E5 E6 pad.
  pose proof Hi as (Hok & Hwf & Hoff & Hplan & Hu & Hfull & Hfresh).
  destruct (norm_off_bounds (w_off w') Hoff) as [Hn1 Hn2].
  assert (Hv : vfs wr = vfs w') by (rewrite vfs_nil; assumption).
  assert (Hi' : winv P wr).
  { split; [eapply wr_ok_same; eassumption|].
    split; [apply wf_nil; exact E4|]. split; [rewrite E3; exact Hn2|].
    split; [exact E6|]. split; [rewrite E2; exact Hu|]. rewrite Hv, E1, E2. split; assumption. }
  destruct (wr_ok_len P HB0 HNB w' Hok) as [_ Hk].
  split; [|destruct Hop as [H|H]; [left; rewrite E3; lia|right; rewrite E1; exact H]].
  split; [exact Hi'|]. cbn [vw_cursor vw_buf].
  assert (Hpos : wpos P wr = wpos P w' + pad) by (unfold wpos, pad; rewrite E1, E3; lia).
  split; [lia|]. split; [rewrite lenN_app, lenN_zerosN; lia|].
  split; [|unfold wlo in *; rewrite E1, E2; exact HM].
  unfold wstream in *. rewrite Hv, E1, HS, Hpos, <- app_assoc. f_equal.
  rewrite <- zerosN_app. f_equal.
  assert (wpos P w' + pad <= lenN (w_files w') * FB); [|lia].
  unfold wpos, pad. nia.
Qed.

(* round trip + restart: after reading everything back, the reader turned into a writer
   continues the same stream *)
Corollary file_roundtrip_reopen pol st0 es :
  open P [] None pol [] = OpenOk st0 ->
  vw_cursor (fst (mem_write_all P (mkVecW 0 []) es)) <= MAXLEN ->
  exists w' c rd,
    file_write_all (s_wr st0) es = (w', Ok (snd (mem_write_all P (mkVecW 0 []) es))) /\
    rd_open P (ctx_init (vfs w') None) = (c, Ok rd) /\
    forall fuel gofuel,
      (length es < fuel)%nat -> lenN (w_files w') * FB <= 7 * N.of_nat gofuel ->
      exists rr,
        file_read_all fuel gofuel (rr_open rreaderS rd) = (map FrEntry es ++ [FrEnd], rr) /\
        let wr := rd_into_writer P (fr_rd (rr_fr rr)) (fr_cursor (rr_fr rr)) in
        let v' := fst (mem_write_all P (mkVecW 0 []) es) in
        let pad := norm_off (w_off w') - w_off w' in
        wsim' P MAXLEN wr (mkVecW (vw_cursor v' + pad) (vw_buf v' ++ zerosN pad)).
Proof.
  intros Hopen HG.
  destruct (open_fresh pol) as (c0 & Hc0 & Hopen0).
  destruct (file_roundtrip pol st0 es Hopen HG) as (w' & Hw' & Hrest).
  destruct (Hrest [] pol) as (c & rd & Hrd & Hread). clear Hrest.
  change (c_fs (drop_log (mkSt w' [] pol))) with (vfs w') in Hrd, Hread.
  exists w', c, rd. split; [exact Hw'|]. split; [exact Hrd|].
  intros fuel gofuel H1 H2. destruct (Hread fuel gofuel H1 H2) as (rr & Hall & R1 & R2 & R3 & R4 & R5 & R6).
  exists rr. split; [exact Hall|].
  rewrite Hopen0 in Hopen. injection Hopen as <-. cbn [s_wr] in Hw'.
  destruct (file_write_all_sim es _ (mkVecW 0 []) (wsim_fresh c0 Hc0) HG) as (w2 & Hw2 & Hs2).
  rewrite Hw' in Hw2. injection Hw2 as <-.
  apply (reopen_wsim w'); assumption.
Qed.
End RoundTrip.

(* ---------- the exact statement "reader cursor = writer cursor" is false ---------- *)
(* BS = 16, NB = 2, one entry of 5 bytes: the writer stands at offset 12 (4 bytes left in the
   block, too few for a header); on restart the reader skips to the next block, and the writer
   rebuilt from it stands at offset 16 = norm_off 12.  Hence norm_off in file_roundtrip. *)
Definition P_ex : params := mkParams 16 2 (fun _ _ => 5) 0 false false false.

Definition cursor_ex : option (N * N) :=
  match open P_ex [] None PNothing [] with
  | OpenOk st0 =>
      match file_write_all P_ex (s_wr st0) [["a"; "b"; "c"; "d"; "e"]%byte] with
      | (w', Ok _) =>
          match rd_open P_ex (ctx_init (vfs w') None) with
          | (_, Ok rd) =>
              let rr := snd (file_read_all P_ex 5 5 (rr_open rreaderS rd)) in
              Some (w_off w',
                    w_off (rd_into_writer P_ex (fr_rd (rr_fr rr)) (fr_cursor (rr_fr rr))))
          | _ => None
          end
      | _ => None
      end
  | _ => None
  end.

Example exact_cursor_false : cursor_ex = Some (12, 16).
Proof. vm_compute. reflexivity. Qed.

(* ================================================================ audit *)
Print Assumptions read_frame_sim.
Print Assumptions go_next_sim.
Print Assumptions write_frame_sim.
Print Assumptions write_record_sim.
Print Assumptions rd_next_sim.
Print Assumptions rd_open_sim.
Print Assumptions wr_write_fit_inv.
Print Assumptions wr_write_roll_inv.
Print Assumptions wr_write_ok_inv.
Print Assumptions wsim_write.
Print Assumptions write_record_file_sim.
Print Assumptions wr_write_never_fails.
Print Assumptions open_fresh.
Print Assumptions file_write_all_sim.
Print Assumptions file_read_entries.
Print Assumptions file_read_end.
Print Assumptions file_roundtrip.
Print Assumptions reopen_wsim.
Print Assumptions file_roundtrip_reopen.
Print Assumptions exact_cursor_false.
Check file_roundtrip.
Check file_roundtrip_reopen.
