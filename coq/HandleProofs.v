(* HandleProofs.v — the file handles held by the in-memory records cover the WAL entries that
   appended them (part (C1) of the restart plan, at the level of queues and replay).

   Each retained record has a ghost "attribution": the file number passed to append_record
   when it was appended (the writer's current file at a live call, the reader's current file
   at replay).  The implementation keeps a handle (m_file = Some f) only in the LAST record of
   a run of records appended with the same file; the invariant `handles_ok` says that every
   record's attribution file is held by that record or a later one of the same queue.
   It is preserved by append_record / append_all / truncate_head / ack_position, hence by
   apply_entry and by any replay; the attribution of a record tagged i by ReplaySpec.t_replay is
   the file of the i-th entry of the replayed list; a file that no record references
   (qs_ref f = false, the GC's criterion) is the attribution of no retained record. *)
From Coq Require Import Lia ZArith ZifyN ZifyNat ZifyBool List Sorted.
From MRL Require Import Bytes BytesProofs Params Record Mem Spec Log SpecRefine RecordProofs
                        GhostLog ReplaySpec.

Arguments N.add : simpl never.
Arguments N.sub : simpl never.
Arguments N.mul : simpl never.
Arguments N.eqb : simpl never.
Arguments N.ltb : simpl never.
Arguments N.leb : simpl never.
Arguments N.div : simpl never.
Arguments N.modulo : simpl never.

(* ====================================================================== *)
(* 0. small facts                                                         *)
(* ====================================================================== *)

Lemma opt_N_eqb_true o f : opt_N_eqb o f = true <-> o = Some f.
Proof.
  destruct o as [x|]; cbn [opt_N_eqb].
  - split; intros H.
    + apply N.eqb_eq in H. now subst.
    + inversion H; subst. apply N.eqb_refl.
  - split; discriminate.
Qed.

Lemma metas_ref_cons f m r : metas_ref f (m :: r) = opt_N_eqb (m_file m) f || metas_ref f r.
Proof. reflexivity. Qed.

Lemma metas_ref_nil f : metas_ref f [] = false.
Proof. reflexivity. Qed.

Lemma metas_ref_app f a b : metas_ref f (a ++ b) = metas_ref f a || metas_ref f b.
Proof. unfold metas_ref. apply existsb_app. Qed.

Lemma metas_ref_true_iff f ms :
  metas_ref f ms = true <-> exists m, In m ms /\ m_file m = Some f.
Proof.
  unfold metas_ref. rewrite existsb_exists. split; intros (m & Hin & H); exists m; split;
    try exact Hin; now apply opt_N_eqb_true.
Qed.

Lemma metas_ref_map_rebase f off ms : metas_ref f (map (rebase off) ms) = metas_ref f ms.
Proof.
  induction ms as [|m r IH]; [reflexivity|].
  cbn [map]. rewrite !metas_ref_cons, IH. reflexivity.
Qed.

Lemma dropN_nil {A} k : dropN k (@nil A) = [].
Proof. reflexivity. Qed.

Lemma dropN_cons_pos {A} k (x : A) l : 0 < k -> dropN k (x :: l) = dropN (k - 1) l.
Proof. intros H. cbn [dropN]. destruct (N.eqb_spec k 0) as [E|_]; [lia|f_equal; lia]. Qed.

Lemma dropN_map {A B} (f : A -> B) k l : dropN k (map f l) = map f (dropN k l).
Proof. rewrite !dropN_skipn. apply skipn_map. Qed.

Lemma lenN_map {A B} (f : A -> B) l : lenN (map f l) = lenN l.
Proof. rewrite !lenN_length, map_length. reflexivity. Qed.

Lemma lenN_eq_length {A B} (a : list A) (b : list B) : lenN a = lenN b <-> length a = length b.
Proof. rewrite !lenN_length. lia. Qed.

Lemma Forall_dropN {A} (P : A -> Prop) k l : Forall P l -> Forall P (dropN k l).
Proof.
  intros H. rewrite <- (takeN_dropN k l) in H. apply Forall_app in H. exact (proj2 H).
Qed.

Lemma map_repeat_eq {A B} (f : A -> B) a n : map f (repeat a n) = repeat (f a) n.
Proof. induction n as [|n IH]; cbn [repeat map]; [reflexivity|now rewrite IH]. Qed.

Lemma Forall_repeat {A} (P : A -> Prop) a n : P a -> Forall P (repeat a n).
Proof. intros H. induction n as [|n IH]; cbn [repeat]; constructor; assumption. Qed.

(* ====================================================================== *)
(* 1. the per-queue invariant                                             *)
(* ====================================================================== *)

(* attrs: one attribution file per retained record, in queue order.  The j-th record's file is
   referenced by a handle held at index j or later. *)
Fixpoint handles_ok (attrs : list N) (ms : list meta) : Prop :=
  match attrs, ms with
  | [], [] => True
  | f :: ar, m :: mr => metas_ref f (m :: mr) = true /\ handles_ok ar mr
  | _, _ => False
  end.

Lemma handles_ok_nil : handles_ok [] [].
Proof. exact I. Qed.

Lemma handles_ok_cons f ar m mr :
  handles_ok (f :: ar) (m :: mr) <-> metas_ref f (m :: mr) = true /\ handles_ok ar mr.
Proof. reflexivity. Qed.

Lemma handles_ok_length : forall attrs ms, handles_ok attrs ms -> length attrs = length ms.
Proof.
  induction attrs as [|f ar IH]; intros [|m mr] H; cbn [handles_ok] in H; try contradiction.
  - reflexivity.
  - cbn [length]. f_equal. apply IH. exact (proj2 H).
Qed.

Lemma handles_ok_lenN attrs ms : handles_ok attrs ms -> lenN attrs = lenN ms.
Proof. intros H. apply lenN_eq_length. now apply handles_ok_length. Qed.

Lemma handles_ok_nil_l ms : handles_ok [] ms -> ms = [].
Proof. destruct ms; [reflexivity|contradiction]. Qed.

Lemma handles_ok_nil_r attrs : handles_ok attrs [] -> attrs = [].
Proof. destruct attrs; [reflexivity|contradiction]. Qed.

(* the meaning of the recursive definition: equal lengths, and for every index j a handle on
   the j-th attribution at some index j' >= j *)
Theorem handles_ok_spec attrs ms :
  handles_ok attrs ms <->
  length attrs = length ms /\
  forall j, (j < length attrs)%nat ->
    exists j', (j <= j' < length ms)%nat /\
               m_file (nth j' ms (mkMeta 0 None 0)) = Some (nth j attrs 0).
Proof.
  revert ms; induction attrs as [|f ar IH]; intros [|m mr]; cbn [handles_ok length].
  - split; [intros _; split; [reflexivity|intros j Hj; lia]|trivial].
  - split; [contradiction|intros (H & _); discriminate].
  - split; [contradiction|intros (H & _); discriminate].
  - rewrite IH. split.
    + intros (Href & Hlen & Hall). split; [lia|]. intros [|j] Hj.
      * apply metas_ref_true_iff in Href. destruct Href as (m0 & Hin & Hf).
        destruct (In_nth _ _ (mkMeta 0 None 0) Hin) as (j' & Hj' & E).
        exists j'. split; [cbn [length] in Hj'; lia|]. rewrite E. exact Hf.
      * destruct (Hall j ltac:(lia)) as (j' & Hj' & E). exists (S j'). split; [lia|exact E].
    + intros (Hlen & Hall). split; [|split; [lia|]].
      * destruct (Hall 0%nat ltac:(lia)) as (j' & Hj' & E). apply metas_ref_true_iff.
        exists (nth j' (m :: mr) (mkMeta 0 None 0)). split; [|exact E].
        apply nth_In. cbn [length]. lia.
      * intros j Hj. destruct (Hall (S j) ltac:(lia)) as ([|j'] & Hj' & E); [lia|].
        exists j'. split; [lia|exact E].
Qed.

(* (1) the key consequence: every attribution file is referenced by the queue *)
Lemma handles_ok_ref_metas : forall attrs ms f,
  handles_ok attrs ms -> In f attrs -> metas_ref f ms = true.
Proof.
  induction attrs as [|g ar IH]; intros [|m mr] f H Hin; cbn [handles_ok] in H;
    try contradiction.
  destruct H as (H1 & H2). destruct Hin as [<-|Hin]; [exact H1|].
  rewrite metas_ref_cons, (IH _ _ H2 Hin). apply orb_true_r.
Qed.

Lemma handles_ok_ref attrs q f :
  handles_ok attrs (q_metas q) -> In f attrs -> metas_ref f (q_metas q) = true.
Proof. apply handles_ok_ref_metas. Qed.

(* ====================================================================== *)
(* 2. preservation by the queue operations                                *)
(* ====================================================================== *)

(* ---------- pushing a record that holds its own file ---------- *)

Lemma handles_ok_snoc : forall attrs ms f m,
  handles_ok attrs ms -> m_file m = Some f -> handles_ok (attrs ++ [f]) (ms ++ [m]).
Proof.
  induction attrs as [|g ar IH]; intros [|m0 mr] f m H Hm; cbn [handles_ok] in H;
    try contradiction; cbn [app].
  - cbn [handles_ok]. split; [|exact I]. rewrite metas_ref_cons.
    apply opt_N_eqb_true in Hm. now rewrite Hm.
  - destruct H as (H1 & H2). apply handles_ok_cons. split; [|now apply IH].
    change (m0 :: mr ++ [m]) with ((m0 :: mr) ++ [m]). rewrite metas_ref_app, H1. reflexivity.
Qed.

(* ---------- the subtle case: the previous last handle (on the same file) is taken ---------- *)

Lemma last_opt_cons_cons {A} (x y : A) l : last_opt (x :: y :: l) = last_opt (y :: l).
Proof. reflexivity. Qed.

(* whatever was referenced before is still referenced once the new record is pushed: only a
   handle on `file` was taken, and the new record holds `file` *)
Lemma metas_ref_take_last g file new : forall ms,
  (forall ml, last_opt ms = Some ml -> m_file ml = Some file) ->
  m_file new = Some file ->
  metas_ref g ms = true -> metas_ref g (take_last_file ms ++ [new]) = true.
Proof.
  intros ms Hlast Hnew. induction ms as [|m r IH]; intros Href; [discriminate|].
  rewrite take_last_file_cons. destruct r as [|m' r'].
  - rewrite metas_ref_cons, metas_ref_nil, orb_false_r in Href. apply opt_N_eqb_true in Href.
    specialize (Hlast m eq_refl). rewrite Href in Hlast. inversion Hlast; subst g.
    cbn [app]. rewrite !metas_ref_cons. apply opt_N_eqb_true in Hnew. rewrite Hnew.
    apply orb_true_r.
  - cbn [app]. rewrite metas_ref_cons in *.
    destruct (opt_N_eqb (m_file m) g); [reflexivity|]. cbn [orb] in *.
    apply IH; [|exact Href]. intros ml Hl. apply Hlast. rewrite last_opt_cons_cons. exact Hl.
Qed.

Lemma handles_ok_take_snoc file new : forall attrs ms,
  (forall ml, last_opt ms = Some ml -> m_file ml = Some file) ->
  m_file new = Some file ->
  handles_ok attrs ms -> handles_ok (attrs ++ [file]) (take_last_file ms ++ [new]).
Proof.
  intros attrs ms Hlast Hnew. revert ms Hlast.
  induction attrs as [|g ar IH]; intros [|m mr] Hlast H; cbn [handles_ok] in H;
    try contradiction.
  - cbn [take_last_file app handles_ok]. split; [|exact I]. rewrite metas_ref_cons.
    apply opt_N_eqb_true in Hnew. now rewrite Hnew.
  - destruct H as (H1 & H2).
    pose proof (metas_ref_take_last g file new (m :: mr) Hlast Hnew H1) as Hcov.
    rewrite take_last_file_cons in *. destruct mr as [|m' r'].
    + apply handles_ok_nil_r in H2. subst ar. cbn [app] in *. apply handles_ok_cons.
      split; [exact Hcov|]. cbn [handles_ok]. split; [|exact I]. rewrite metas_ref_cons.
      apply opt_N_eqb_true in Hnew. now rewrite Hnew.
    + cbn [app] in *. apply handles_ok_cons. split; [exact Hcov|].
      apply IH; [|exact H2]. intros ml Hl. apply Hlast. rewrite last_opt_cons_cons. exact Hl.
Qed.

(* (2a) append_record: the new record is attributed to `file` *)
Theorem append_record_handles q file target payload q' attrs :
  append_record q file target payload = Some q' ->
  handles_ok attrs (q_metas q) ->
  handles_ok (attrs ++ [file]) (q_metas q').
Proof.
  intros H Hok. apply append_record_some in H. destruct H as (_ & ->). cbn [q_metas].
  unfold metas_before. destruct (last_opt (q_metas q)) as [ml|] eqn:El.
  - destruct (opt_N_eqb (m_file ml) file) eqn:Ef.
    + apply handles_ok_take_snoc; [|reflexivity|exact Hok].
      intros ml' Hl. rewrite El in Hl. inversion Hl; subst ml'. now apply opt_N_eqb_true.
    + apply handles_ok_snoc; [exact Hok|reflexivity].
  - apply handles_ok_snoc; [exact Hok|reflexivity].
Qed.

(* (2b) append_all *)
Theorem append_all_handles : forall recs q file q' attrs,
  append_all q file recs = Some q' ->
  handles_ok attrs (q_metas q) ->
  handles_ok (attrs ++ repeat file (length recs)) (q_metas q').
Proof.
  induction recs as [|[p x] r IH]; intros q file q' attrs H Hok; cbn [append_all] in H.
  - inversion H; subst. cbn [length repeat]. now rewrite app_nil_r.
  - destruct (append_record q file p x) as [q1|] eqn:E1; [|discriminate].
    cbn [length repeat]. change (file :: repeat file (length r)) with ([file] ++ repeat file (length r)).
    rewrite app_assoc. eapply IH; [exact H|]. eapply append_record_handles; eassumption.
Qed.

(* ---------- truncate_head keeps a suffix ---------- *)

Lemma handles_ok_dropN : forall attrs ms k,
  handles_ok attrs ms -> handles_ok (dropN k attrs) (dropN k ms).
Proof.
  induction attrs as [|f ar IH]; intros [|m mr] k H; cbn [handles_ok] in H; try contradiction.
  - rewrite !dropN_nil. exact I.
  - destruct (N.eqb_spec k 0) as [->|Hk].
    + rewrite !dropN_0. exact H.
    + rewrite !dropN_cons_pos by lia. apply IH. exact (proj2 H).
Qed.

Lemma handles_ok_map_rebase off : forall attrs ms,
  handles_ok attrs ms -> handles_ok attrs (map (rebase off) ms).
Proof.
  induction attrs as [|f ar IH]; intros [|m mr] H; cbn [handles_ok] in H; try contradiction.
  - exact I.
  - destruct H as (H1 & H2). cbn [map]. apply handles_ok_cons. split; [|now apply IH].
    change (rebase off m :: map (rebase off) mr) with (map (rebase off) (m :: mr)).
    now rewrite metas_ref_map_rebase.
Qed.

(* (2c) truncate_head: the k evicted records lose their attributions *)
Theorem truncate_head_handles q p q' k attrs :
  truncate_head q p = (q', k) ->
  handles_ok attrs (q_metas q) ->
  handles_ok (dropN k attrs) (q_metas q').
Proof.
  unfold truncate_head. intros H Hok.
  destruct (p <? q_start q).
  - inversion H; subst. now rewrite dropN_0.
  - destruct (next_position q <=? p + 1).
    + inversion H; subst. cbn [q_metas].
      rewrite dropN_all by (rewrite (handles_ok_lenN _ _ Hok); lia). exact I.
    + inversion H; subst. cbn [q_metas]. apply handles_ok_map_rebase.
      now apply handles_ok_dropN.
Qed.

(* (2d) the empty queues *)
Lemma handles_ok_default : handles_ok [] (q_metas mq_default).
Proof. exact I. Qed.

Lemma handles_ok_with_next n : handles_ok [] (q_metas (mq_with_next n)).
Proof. exact I. Qed.

Lemma handles_ok_empty attrs q : handles_ok attrs (q_metas q) -> mq_is_empty q = true -> attrs = [].
Proof.
  unfold mq_is_empty. intros H He. apply isnil_true in He. rewrite He in H.
  now apply handles_ok_nil_r.
Qed.

(* ====================================================================== *)
(* 3. the ghost-attributed replay                                         *)
(* ====================================================================== *)

(* A ghost map from queue names to one ghost value per retained record, in queue order.
   It is polymorphic in the ghost value so that the same replay can carry the attribution
   file (A = N), the index of the entry in the log (A = nat, the tags of ReplaySpec) or both
   (A = nat * N). *)
Section Ghost.
Context {A : Type}.

Definition gmap := list (bytes * list A).

Fixpoint g_get (m : gmap) (q : bytes) : option (list A) :=
  match m with
  | [] => None
  | (n, v) :: r => if bytes_eqb n q then Some v else g_get r q
  end.
Fixpoint g_remove (m : gmap) (q : bytes) : gmap :=
  match m with
  | [] => []
  | (n, v) :: r => if bytes_eqb n q then g_remove r q else (n, v) :: g_remove r q
  end.
Fixpoint g_put (m : gmap) (q : bytes) (v : list A) : gmap :=
  match m with
  | [] => [(q, v)]
  | (n, v0) :: r => if bytes_eqb n q then (n, v) :: r else (n, v0) :: g_put r q v
  end.

Lemma g_get_put_same m q v : g_get (g_put m q v) q = Some v.
Proof.
  induction m as [|[n0 v0] r IH]; cbn [g_put g_get].
  - now rewrite bytes_eqb_refl.
  - destruct (bytes_eqb n0 q) eqn:E; cbn [g_get]; rewrite E; [reflexivity|exact IH].
Qed.

Lemma g_get_put_other m q v q' : q <> q' -> g_get (g_put m q v) q' = g_get m q'.
Proof.
  intros Hne. induction m as [|[n0 v0] r IH]; cbn [g_put g_get].
  - apply bytes_eqb_neq in Hne. now rewrite Hne.
  - destruct (bytes_eqb n0 q) eqn:E; cbn [g_get].
    + apply bytes_eqb_eq in E. subst n0. apply bytes_eqb_neq in Hne. now rewrite Hne.
    + destruct (bytes_eqb n0 q'); [reflexivity|exact IH].
Qed.

Lemma g_get_remove_other m q q' : q <> q' -> g_get (g_remove m q) q' = g_get m q'.
Proof.
  intros Hne. induction m as [|[n0 v0] r IH]; cbn [g_remove g_get]; [reflexivity|].
  destruct (bytes_eqb n0 q) eqn:E; cbn [g_get].
  - apply bytes_eqb_eq in E. subst n0. apply bytes_eqb_neq in Hne. now rewrite Hne.
  - destruct (bytes_eqb n0 q'); [reflexivity|exact IH].
Qed.

Lemma g_get_remove_same m q : g_get (g_remove m q) q = None.
Proof.
  induction m as [|[n0 v0] r IH]; cbn [g_remove g_get]; [reflexivity|].
  destruct (bytes_eqb n0 q) eqn:E; cbn [g_get]; [exact IH|]. now rewrite E.
Qed.

(* the ghost step, mirroring Log.apply_entry (qs = the queues BEFORE the entry, a = the ghost
   value of the entry):
   - EAppend adds one copy of a per appended record (creating the queue if absent),
   - ETruncate drops as many leading values as truncate_head evicts records,
   - EPosition leaves an empty queue (ack_position either resets the queue or finds it empty),
   - EDelete removes the queue. *)
Definition g_apply (am : gmap) (qs : queues) (a : A) (e : entry) : gmap :=
  match e with
  | EAppend q pos recs =>
      let old := match g_get am q with Some l => l | None => [] end in
      g_put am q (old ++ repeat a (length recs))
  | ETruncate q p =>
      match g_get am q, qs_get qs q with
      | Some l, Some mqv => g_put am q (dropN (snd (truncate_head mqv p)) l)
      | _, _ => am
      end
  | EPosition q p => g_put am q []
  | EDelete q _ => g_remove am q
  end.

(* the effect on the queue the entry names, and only on it *)
Definition gq_apply (v : option (list A)) (mqv : option mq) (a : A) (e : entry)
  : option (list A) :=
  match e with
  | EAppend _ _ recs =>
      Some (match v with Some l => l | None => [] end ++ repeat a (length recs))
  | ETruncate _ p =>
      match v, mqv with
      | Some l, Some m => Some (dropN (snd (truncate_head m p)) l)
      | _, _ => v
      end
  | EPosition _ _ => Some []
  | EDelete _ _ => None
  end.

Lemma g_apply_spec am qs a e :
  g_get (g_apply am qs a e) (entry_queue e) =
    gq_apply (g_get am (entry_queue e)) (qs_get qs (entry_queue e)) a e /\
  (forall q', entry_queue e <> q' -> g_get (g_apply am qs a e) q' = g_get am q').
Proof.
  destruct e as [q pos recs|q p|q p|q p]; cbn [g_apply gq_apply entry_queue].
  - rewrite g_get_put_same. split; [reflexivity|]. intros q' Hne. now apply g_get_put_other.
  - destruct (g_get am q) as [l|] eqn:E.
    + destruct (qs_get qs q) as [m|].
      * rewrite g_get_put_same. split; [reflexivity|]. intros q' Hne. now apply g_get_put_other.
      * rewrite E. split; reflexivity.
    + rewrite E. split; reflexivity.
  - rewrite g_get_put_same. split; [reflexivity|]. intros q' Hne. now apply g_get_put_other.
  - rewrite g_get_remove_same. split; [reflexivity|]. intros q' Hne. now apply g_get_remove_other.
Qed.

(* every ghost value of the map satisfies a property *)
Definition g_all (Pr : A -> Prop) (am : gmap) : Prop :=
  forall q l, g_get am q = Some l -> Forall Pr l.

Lemma g_all_nil Pr : g_all Pr [].
Proof. intros q l H. discriminate. Qed.

Lemma g_all_weaken (Pr Pr' : A -> Prop) am :
  (forall a, Pr a -> Pr' a) -> g_all Pr am -> g_all Pr' am.
Proof. intros Hi H q l E. eapply Forall_impl; [exact Hi|]. eapply H; exact E. Qed.

Lemma g_apply_all Pr am qs a e : g_all Pr am -> Pr a -> g_all Pr (g_apply am qs a e).
Proof.
  intros Hall Ha q l E. destruct (g_apply_spec am qs a e) as (H1 & H2).
  destruct (bytes_eqb (entry_queue e) q) eqn:Eq.
  - apply bytes_eqb_eq in Eq. subst q. rewrite H1 in E. clear H1 H2.
    pose proof (Hall (entry_queue e)) as Hq.
    destruct e as [q pos recs|q p|q p|q p]; cbn [gq_apply entry_queue] in *.
    + inversion E; subst l. apply Forall_app. split; [|now apply Forall_repeat].
      destruct (g_get am q) as [l0|]; [now apply Hq|constructor].
    + destruct (g_get am q) as [l0|]; [|discriminate].
      destruct (qs_get qs q) as [m|]; inversion E; subst l.
      * apply Forall_dropN. now apply Hq.
      * now apply Hq.
    + inversion E; subst l. constructor.
    + discriminate.
  - apply bytes_eqb_neq in Eq. rewrite (H2 q Eq) in E. eapply Hall; exact E.
Qed.

(* ---------- the ghost replay: apply_entry with the ghost threaded along ---------- *)

(* mk i f = the ghost value given to the entry of index i read from / written in file f *)
Fixpoint g_replay (mk : nat -> N -> A) (am : gmap) (qs : queues) (i : nat) (fes : glog)
  : option (gmap * queues) :=
  match fes with
  | [] => Some (am, qs)
  | (f, e) :: r =>
      match apply_entry qs f e with
      | Some qs' => g_replay mk (g_apply am qs (mk i f) e) qs' (S i) r
      | None => None
      end
  end.

(* the queues of the ghost replay are those of the plain replay *)
Lemma g_replay_queues mk : forall fes am qs i,
  match replay_entries qs fes with
  | Some qs' => exists am', g_replay mk am qs i fes = Some (am', qs')
  | None => g_replay mk am qs i fes = None
  end.
Proof.
  induction fes as [|[f e] r IH]; intros am qs i; cbn [replay_entries g_replay].
  - exists am. reflexivity.
  - destruct (apply_entry qs f e) as [qs1|]; [apply IH|reflexivity].
Qed.

Lemma g_replay_some mk fes am qs i am' qs' :
  g_replay mk am qs i fes = Some (am', qs') -> replay_entries qs fes = Some qs'.
Proof.
  intros H. pose proof (g_replay_queues mk fes am qs i) as Hq.
  destruct (replay_entries qs fes) as [qs1|]; [|congruence].
  destruct Hq as (am1 & E). congruence.
Qed.

Lemma g_replay_app mk : forall a b am qs i,
  g_replay mk am qs i (a ++ b) =
  match g_replay mk am qs i a with
  | Some (am', qs') => g_replay mk am' qs' (i + length a) b
  | None => None
  end.
Proof.
  induction a as [|[f e] r IH]; intros b am qs i; cbn [app g_replay length].
  - now rewrite Nat.add_0_r.
  - destruct (apply_entry qs f e) as [qs1|]; [|reflexivity]. rewrite IH.
    replace (S i + length r)%nat with (i + S (length r))%nat by lia. reflexivity.
Qed.

End Ghost.

Arguments gmap A : clear implicits.

(* ReplaySpec.apply_entries and GhostLog.replay_entries are the same function *)
Lemma apply_entries_replay_entries : forall fes qs, apply_entries qs fes = replay_entries qs fes.
Proof.
  induction fes as [|[f e] r IH]; intros qs; cbn [apply_entries replay_entries]; [reflexivity|].
  destruct (apply_entry qs f e); [apply IH|reflexivity].
Qed.

(* ====================================================================== *)
(* 4. apply_entry, one queue at a time                                    *)
(* ====================================================================== *)

(* the effect of an entry on the queue it names; the outer None = Corruption *)
Definition mq_apply (v : option mq) (file : N) (e : entry) : option (option mq) :=
  match e with
  | EAppend _ pos recs =>
      match append_all (match v with Some m => m | None => mq_with_next pos end) file recs with
      | Some m' => Some (Some m')
      | None => None
      end
  | ETruncate _ p =>
      Some (match v with Some m => Some (fst (truncate_head m p)) | None => None end)
  | EPosition _ p =>
      Some (Some (match v with
                  | Some m => if negb (mq_is_empty m) || negb (next_position m =? p)
                              then mq_with_next p else m
                  | None => mq_with_next p
                  end))
  | EDelete _ _ => Some None
  end.

Lemma apply_entry_spec qs file e :
  match apply_entry qs file e with
  | Some qs' =>
      mq_apply (qs_get qs (entry_queue e)) file e = Some (qs_get qs' (entry_queue e)) /\
      (forall q', entry_queue e <> q' -> qs_get qs' q' = qs_get qs q')
  | None => mq_apply (qs_get qs (entry_queue e)) file e = None
  end.
Proof.
  destruct e as [q pos recs|q p|q p|q p]; cbn [apply_entry mq_apply entry_queue].
  - rewrite qs_contains_get. destruct (qs_get qs q) as [m|] eqn:E.
    + rewrite E. destruct (append_all m file recs) as [m'|]; [|reflexivity].
      rewrite qs_get_put_same. split; [reflexivity|]. intros q' Hne. now apply qs_get_put_other.
    + unfold ack_position. rewrite E, qs_get_put_same.
      destruct (append_all (mq_with_next pos) file recs) as [m'|]; [|reflexivity].
      rewrite qs_get_put_same. split; [reflexivity|]. intros q' Hne.
      now rewrite !qs_get_put_other.
  - destruct (qs_get qs q) as [m|] eqn:E.
    + rewrite qs_get_put_same. split; [reflexivity|]. intros q' Hne. now apply qs_get_put_other.
    + rewrite E. split; reflexivity.
  - split; [|intros q' Hne; now apply qs_get_ack_other].
    unfold ack_position. destruct (qs_get qs q) as [m|] eqn:E.
    + destruct (negb (mq_is_empty m) || negb (next_position m =? p)).
      * now rewrite qs_get_put_same.
      * now rewrite E.
    + now rewrite qs_get_put_same.
  - rewrite qs_get_remove_same. split; [reflexivity|]. intros q' Hne.
    now apply qs_get_remove_other.
Qed.

Lemma apply_entry_some qs file e qs' :
  apply_entry qs file e = Some qs' ->
  mq_apply (qs_get qs (entry_queue e)) file e = Some (qs_get qs' (entry_queue e)) /\
  (forall q', entry_queue e <> q' -> qs_get qs' q' = qs_get qs q').
Proof. intros H. pose proof (apply_entry_spec qs file e) as Hs. now rewrite H in Hs. Qed.

(* ====================================================================== *)
(* 5. the handle invariant is preserved by every replayed entry           *)
(* ====================================================================== *)

Section HandleInv.
Context {A : Type}.
Variable proj : A -> N.     (* the attribution file carried by a ghost value *)

Definition hq_inv (v : option (list A)) (mqv : option mq) : Prop :=
  match v, mqv with
  | Some l, Some m => handles_ok (map proj l) (q_metas m)
  | None, None => True
  | _, _ => False
  end.

(* the same queue names on both sides; for every queue one ghost value per retained record,
   and the file of every record is held by that record or a later one *)
Definition ginv (am : gmap A) (qs : queues) : Prop :=
  forall q, hq_inv (g_get am q) (qs_get qs q).

Lemma ginv_nil : ginv [] [].
Proof. intros q. exact I. Qed.

Lemma ginv_get am qs q m :
  ginv am qs -> qs_get qs q = Some m ->
  exists l, g_get am q = Some l /\ handles_ok (map proj l) (q_metas m) /\
            lenN l = lenN (records_of (q_buf m) (q_metas m)).
Proof.
  intros Hi E. specialize (Hi q). rewrite E in Hi. unfold hq_inv in Hi.
  destruct (g_get am q) as [l|]; [|contradiction]. exists l. split; [reflexivity|].
  split; [exact Hi|]. rewrite lenN_records_of, <- (handles_ok_lenN _ _ Hi). now rewrite lenN_map.
Qed.

Lemma ginv_get_ghost am qs q l :
  ginv am qs -> g_get am q = Some l ->
  exists m, qs_get qs q = Some m /\ handles_ok (map proj l) (q_metas m).
Proof.
  intros Hi E. specialize (Hi q). rewrite E in Hi. unfold hq_inv in Hi.
  destruct (qs_get qs q) as [m|]; [|contradiction]. exists m. split; [reflexivity|exact Hi].
Qed.

Lemma hq_step v mqv a e mqv' :
  hq_inv v mqv -> mq_apply mqv (proj a) e = Some mqv' -> hq_inv (gq_apply v mqv a e) mqv'.
Proof.
  intros Hi H. destruct e as [q pos recs|q p|q p|q p]; cbn [mq_apply gq_apply] in *.
  - (* EAppend *)
    destruct (append_all _ (proj a) recs) as [m'|] eqn:Ea; [|discriminate].
    inversion H; subst mqv'. cbn [hq_inv]. rewrite map_app, map_repeat_eq.
    eapply append_all_handles; [exact Ea|].
    destruct v as [l|], mqv as [m|]; cbn [hq_inv] in Hi; try contradiction; [exact Hi|exact I].
  - (* ETruncate *)
    inversion H; subst mqv'.
    destruct v as [l|], mqv as [m|]; cbn [hq_inv] in *; try contradiction; [|exact I].
    rewrite <- dropN_map. eapply truncate_head_handles; [|exact Hi]. apply surjective_pairing.
  - (* EPosition *)
    inversion H; subst mqv'. cbn [hq_inv map].
    destruct v as [l|], mqv as [m|]; cbn [hq_inv] in Hi; try contradiction; [|exact I].
    destruct (mq_is_empty m) eqn:Ee; cbn [negb orb]; [|exact I].
    destruct (negb (next_position m =? p)); [exact I|].
    unfold mq_is_empty in Ee. apply isnil_true in Ee. rewrite Ee. exact I.
  - (* EDelete *)
    inversion H; subst mqv'. exact I.
Qed.

(* (3a) one step, from any state satisfying the invariant *)
Theorem apply_entry_handles am qs a e qs' :
  ginv am qs -> apply_entry qs (proj a) e = Some qs' -> ginv (g_apply am qs a e) qs'.
Proof.
  intros Hi H q. destruct (apply_entry_some _ _ _ _ H) as (H1 & H2).
  destruct (g_apply_spec am qs a e) as (G1 & G2).
  destruct (bytes_eqb (entry_queue e) q) eqn:E.
  - apply bytes_eqb_eq in E. subst q. rewrite G1. eapply hq_step; [apply Hi|exact H1].
  - apply bytes_eqb_neq in E. rewrite (G2 q E), (H2 q E). apply Hi.
Qed.

(* (3b) any number of steps *)
Theorem g_replay_handles mk :
  (forall i f, proj (mk i f) = f) ->
  forall fes am qs i am' qs',
  ginv am qs -> g_replay mk am qs i fes = Some (am', qs') -> ginv am' qs'.
Proof.
  intros Hmk. induction fes as [|[f e] r IH]; intros am qs i am' qs' Hi H; cbn [g_replay] in H.
  - inversion H; subst. exact Hi.
  - destruct (apply_entry qs f e) as [qs1|] eqn:E; [|discriminate].
    eapply IH; [|exact H]. apply apply_entry_handles; [exact Hi|]. now rewrite Hmk.
Qed.

(* (4) the GC's criterion: an unreferenced file is the attribution of no retained record *)
Theorem unreferenced_file_has_no_record am qs f :
  ginv am qs -> qs_ref f qs = false ->
  forall q l, g_get am q = Some l -> ~ In f (map proj l).
Proof.
  intros Hi Href q l E Hin. destruct (ginv_get_ghost _ _ _ _ Hi E) as (m & Em & Hok).
  pose proof (handles_ok_ref_metas _ _ _ Hok Hin) as Hm.
  assert (Hq : qs_ref f qs = true).
  { unfold qs_ref. apply existsb_exists. exists (q, m). split; [now apply qs_get_In_eq|exact Hm]. }
  congruence.
Qed.

(* every attribution is a referenced file *)
Corollary attribution_referenced am qs q l a :
  ginv am qs -> g_get am q = Some l -> In a l -> qs_ref (proj a) qs = true.
Proof.
  intros Hi E Hin. destruct (qs_ref (proj a) qs) eqn:Er; [reflexivity|exfalso].
  eapply unreferenced_file_has_no_record; eauto. now apply in_map.
Qed.

(* the GC deletes files that are unreferenced: no retained record is attributed to a deleted
   file; if the tracked files were dropped ++ kept, every attribution is in kept *)
Corollary gc_keeps_attributed_files am qs dropped kept :
  ginv am qs ->
  Forall (fun f => qs_ref f qs = false) dropped ->
  g_all (fun a => In (proj a) (dropped ++ kept)) am ->
  g_all (fun a => In (proj a) kept) am.
Proof.
  intros Hi Hd Hall q l E. specialize (Hall q l E). rewrite Forall_forall in *.
  intros a Ha. specialize (Hall a Ha). cbn beta in Hall. apply in_app_or in Hall.
  destruct Hall as [Hin|Hin]; [exfalso|exact Hin].
  specialize (Hd _ Hin). cbn beta in Hd.
  rewrite (attribution_referenced am qs q l a Hi E Ha) in Hd. discriminate.
Qed.

(* numeric form: the GC deletes a prefix lo0 .. lo-1 of the file numbers, all unreferenced;
   every retained record then has an attribution >= lo, the first kept file *)
Corollary gc_prefix_attr_ge am qs lo0 lo :
  ginv am qs ->
  (forall f, lo0 <= f < lo -> qs_ref f qs = false) ->
  g_all (fun a => lo0 <= proj a) am ->
  g_all (fun a => lo <= proj a) am.
Proof.
  intros Hi Hd Hall q l E. specialize (Hall q l E). rewrite Forall_forall in *.
  intros a Ha. specialize (Hall a Ha). cbn beta in Hall.
  destruct (N.le_gt_cases lo (proj a)) as [Hle|Hgt]; [exact Hle|exfalso].
  specialize (Hd (proj a) ltac:(lia)).
  rewrite (attribution_referenced am qs q l a Hi E Ha) in Hd. discriminate.
Qed.

End HandleInv.

(* ====================================================================== *)
(* 6. the ghost values follow the tags of ReplaySpec.t_replay             *)
(* ====================================================================== *)

(* on sorted positions, filtering by position = dropping the idx_ge first records; stated on any
   list that projects (by snd) onto the records of the queue, e.g. ReplaySpec's tagged records *)
Lemma filter_idx_drop {T} buf p : forall ms lp lo len (old : list (T * (N * bytes))),
  metas_ok lp lo len ms -> map snd old = records_of buf ms ->
  filter (fun r => p <=? fst (snd r)) old = dropN (idx_ge p ms) old.
Proof.
  induction ms as [|m r IH]; intros lp lo len old Hok Hm.
  - cbn [records_of] in Hm. apply map_eq_nil in Hm. subst old. reflexivity.
  - rewrite records_of_cons in Hm. destruct old as [|x t]; [discriminate|].
    cbn [map] in Hm. inversion Hm as [[Hx Ht]].
    cbn [idx_ge]. destruct (N.ltb_spec (m_pos m) p) as [Hlt|Hge].
    + rewrite dropN_cons_succ. cbn [filter]. rewrite Hx. cbn [fst].
      destruct (N.leb_spec p (m_pos m)) as [Hc|_]; [lia|].
      cbn [metas_ok] in Hok. destruct Hok as (_ & _ & H3). eapply IH; [exact H3|exact Ht].
    + rewrite dropN_0. apply filter_all_true. intros y Hy.
      assert (Hok' : metas_ok (m_pos m) lo len (m :: r)).
      { cbn [metas_ok] in *. destruct Hok as (H1 & H2 & H3). repeat split; try assumption; lia. }
      assert (Hin : In (snd y) (records_of buf (m :: r))).
      { rewrite records_of_cons, <- Hx, <- Ht. change (In (snd y) (map snd (x :: t))).
        now apply in_map. }
      pose proof (records_pos_ge _ _ _ _ _ _ Hok' Hin). lia.
Qed.

Lemma truncate_head_filter_drop {T} (old : list (T * (N * bytes))) m p :
  mq_inv m -> map snd old = records_of (q_buf m) (q_metas m) ->
  filter (fun r => p <? fst (snd r)) old = dropN (snd (truncate_head m p)) old.
Proof.
  intros Hi Hm.
  assert (Hpos : forall x, In x old -> q_start m <= fst (snd x) < next_position m).
  { intros x Hx. apply (records_pos_lt_next m (snd x) Hi). rewrite <- Hm. now apply in_map. }
  unfold truncate_head. destruct (N.ltb_spec p (q_start m)) as [Hlt|Hge]; cbn [snd].
  - rewrite dropN_0. apply filter_all_true. intros x Hx. specialize (Hpos x Hx). lia.
  - destruct (N.leb_spec (next_position m) (p + 1)) as [Hle|Hgt]; cbn [snd].
    + rewrite dropN_all.
      * apply filter_all_false. intros x Hx. specialize (Hpos x Hx). lia.
      * rewrite <- (lenN_map snd old), Hm, lenN_records_of. lia.
    + destruct Hi as (Hok & _ & _).
      rewrite <- (filter_idx_drop (q_buf m) (p + 1) (q_metas m) _ _ _ old Hok Hm).
      apply filter_ext. intros a. lia.
Qed.

Lemma map_fst_tag_with i new : map fst (tag_with i new) = repeat i (length new).
Proof.
  unfold tag_with. induction new as [|x r IH]; cbn [map length repeat fst]; [reflexivity|].
  now rewrite IH.
Qed.

Section TagInv.
Context {A : Type}.
Variable tagp : A -> nat.    (* the entry index carried by a ghost value *)

Definition tq_inv (v : option (list A)) (tv : option tqueue) : Prop :=
  match v, tv with
  | Some l, Some (recs, _) => map tagp l = map fst recs
  | None, None => True
  | _, _ => False
  end.

(* same queue names, and per queue the ghost values carry the tags of the tagged records *)
Definition tinv (am : gmap A) (tm : tmap) : Prop := forall q, tq_inv (g_get am q) (t_get tm q).

Lemma tinv_nil : tinv [] [].
Proof. intros q. exact I. Qed.

(* the tagged queue and the model queue describe the same records *)
Definition same_q (tv : option tqueue) (mqv : option mq) : Prop :=
  match tv, mqv with
  | Some v, Some m => untag_q v = abs_q m /\ mq_inv m
  | None, None => True
  | _, _ => False
  end.

Lemma tq_step v tv mqv a i e tv' :
  tq_inv v tv -> same_q tv mqv -> tagp a = i ->
  q_apply tv i e = Some tv' -> tq_inv (gq_apply v mqv a e) tv'.
Proof.
  intros Hi Hs Ha H. destruct e as [q pos recs|q p|q p|q p]; cbn [q_apply gq_apply] in *.
  - (* EAppend *)
    set (w := match tv with Some v0 => v0 | None => ([], pos) end) in *.
    assert (Hold : map tagp (match v with Some l => l | None => [] end) = map fst (fst w)).
    { unfold w. destruct v as [l|], tv as [[old next]|]; cbn [tq_inv] in Hi; try contradiction;
        [exact Hi|reflexivity]. }
    clearbody w. destruct w as [old next].
    rewrite t_append_all_eq in H. destruct (chk_pos next recs) as [n|]; [|discriminate].
    inversion H; subst tv'. cbn [tq_inv fst] in *.
    rewrite !map_app, map_repeat_eq, map_fst_tag_with, Ha, Hold. reflexivity.
  - (* ETruncate *)
    destruct tv as [[rf n]|].
    + inversion H; subst tv'. destruct v as [l|]; cbn [tq_inv] in Hi; [|contradiction].
      destruct mqv as [m|]; cbn [same_q] in Hs; [|contradiction]. destruct Hs as (Hu & Him).
      unfold untag_q, abs_q in Hu. cbn [fst snd] in Hu. inversion Hu as [[Hr Hn]].
      unfold t_truncate. cbn [tq_inv].
      rewrite (truncate_head_filter_drop rf m p Him Hr), <- !dropN_map, Hi. reflexivity.
    + inversion H; subst tv'. destruct v as [l|]; cbn [tq_inv] in Hi; [contradiction|].
      exact I.
  - (* EPosition *)
    destruct tv as [[rf n]|]; [|inversion H; subst tv'; reflexivity].
    destruct (isnil rf) eqn:En; cbn [negb orb] in H.
    + apply isnil_true in En. subst rf.
      destruct (negb (n =? p)); inversion H; subst tv'; reflexivity.
    + inversion H; subst tv'. reflexivity.
  - (* EDelete *)
    inversion H; subst tv'. exact I.
Qed.

Lemma same_q_get tm qs q :
  qs_inv qs -> untag tm = abs_qs qs -> same_q (t_get tm q) (qs_get qs q).
Proof.
  intros Hi Hu. pose proof (untag_abs_get tm qs q Hu) as Hg. unfold same_q.
  destruct (t_get tm q) as [v|], (qs_get qs q) as [m|] eqn:E; try contradiction; [|exact I].
  split; [exact Hg|]. eapply qs_inv_get; eauto.
Qed.

(* one step *)
Theorem t_apply_tags am qs tm a i e tm' :
  tinv am tm -> qs_inv qs -> untag tm = abs_qs qs -> tagp a = i ->
  t_apply tm i e = Some tm' -> tinv (g_apply am qs a e) tm'.
Proof.
  intros Hi Hq Hu Ha H q. destruct (t_apply_some _ _ _ _ H) as (H1 & H2).
  destruct (g_apply_spec am qs a e) as (G1 & G2).
  destruct (bytes_eqb (entry_queue e) q) eqn:E.
  - apply bytes_eqb_eq in E. subst q. rewrite G1.
    eapply tq_step; [apply Hi|now apply same_q_get|exact Ha|exact H1].
  - apply bytes_eqb_neq in E. rewrite (G2 q E), (H2 q E). apply Hi.
Qed.

(* any number of steps: the ghost replay runs in lockstep with the tagged spec-level replay *)
Theorem g_replay_tags mk :
  (forall i f, tagp (mk i f) = i) ->
  forall fes am qs tm i am' qs',
  tinv am tm -> qs_inv qs -> untag tm = abs_qs qs ->
  g_replay mk am qs i fes = Some (am', qs') ->
  exists tm', t_replay tm i (map snd fes) = Some tm' /\ tinv am' tm' /\
              untag tm' = abs_qs qs' /\ qs_inv qs'.
Proof.
  intros Hmk. induction fes as [|[f e] r IH]; intros am qs tm i am' qs' Hi Hq Hu H;
    cbn [g_replay map snd t_replay] in *.
  - inversion H; subst. exists tm. split; [reflexivity|]. split; [exact Hi|]. split; assumption.
  - pose proof (apply_entry_refines qs f i e Hq tm Hu) as Hr.
    destruct (apply_entry qs f e) as [qs1|]; [|discriminate].
    destruct Hr as (tm1 & Ht & Hu1 & Hq1). rewrite Ht.
    eapply IH; [|exact Hq1|exact Hu1|exact H].
    eapply t_apply_tags; eauto.
Qed.

End TagInv.

(* ====================================================================== *)
(* 7. the ghost replay is natural in the ghost value                      *)
(* ====================================================================== *)

Definition gmap_map {A B} (h : A -> B) (m : gmap A) : gmap B :=
  map (fun '(n, l) => (n, map h l)) m.

Section Natural.
Context {A B : Type}.
Variable h : A -> B.

Lemma gmap_map_get m q : g_get (gmap_map h m) q = option_map (map h) (g_get m q).
Proof.
  induction m as [|[n0 l0] r IH]; [reflexivity|].
  cbn [gmap_map map g_get]. fold (gmap_map h r). destruct (bytes_eqb n0 q); [reflexivity|exact IH].
Qed.

Lemma gmap_map_put m q v : gmap_map h (g_put m q v) = g_put (gmap_map h m) q (map h v).
Proof.
  induction m as [|[n0 l0] r IH]; [reflexivity|].
  cbn [gmap_map map g_put]. fold (gmap_map h r).
  destruct (bytes_eqb n0 q); cbn [map]; [reflexivity|].
  fold (gmap_map h (g_put r q v)). now rewrite IH.
Qed.

Lemma gmap_map_remove m q : gmap_map h (g_remove m q) = g_remove (gmap_map h m) q.
Proof.
  induction m as [|[n0 l0] r IH]; [reflexivity|].
  cbn [gmap_map map g_remove]. fold (gmap_map h r).
  destruct (bytes_eqb n0 q); cbn [map]; [exact IH|].
  fold (gmap_map h (g_remove r q)). now rewrite IH.
Qed.

Lemma g_apply_map am qs a e :
  gmap_map h (g_apply am qs a e) = g_apply (gmap_map h am) qs (h a) e.
Proof.
  destruct e as [q pos recs|q p|q p|q p]; cbn [g_apply].
  - rewrite gmap_map_put, gmap_map_get, map_app, map_repeat_eq.
    destruct (g_get am q); reflexivity.
  - rewrite gmap_map_get. destruct (g_get am q) as [l|]; cbn [option_map]; [|reflexivity].
    destruct (qs_get qs q) as [m|]; [|reflexivity].
    now rewrite gmap_map_put, dropN_map.
  - now rewrite gmap_map_put.
  - now rewrite gmap_map_remove.
Qed.

Lemma g_replay_map (mk : nat -> N -> A) (mk' : nat -> N -> B) :
  (forall i f, h (mk i f) = mk' i f) ->
  forall fes am qs i,
  g_replay mk' (gmap_map h am) qs i fes =
  match g_replay mk am qs i fes with
  | Some (am', qs') => Some (gmap_map h am', qs')
  | None => None
  end.
Proof.
  intros Hmk. induction fes as [|[f e] r IH]; intros am qs i; cbn [g_replay]; [reflexivity|].
  destruct (apply_entry qs f e) as [qs1|]; [|reflexivity].
  rewrite <- Hmk, <- g_apply_map. apply IH.
Qed.

End Natural.

(* ====================================================================== *)
(* 8. the attributed replay (A = N) and the main theorems                 *)
(* ====================================================================== *)

(* queue name -> attribution file of each retained record, in order *)
Definition amap := gmap N.

(* a_apply am qs file e: the attributions after applying e (read from / written in `file`) to
   the queues qs *)
Definition a_apply (am : amap) (qs : queues) (file : N) (e : entry) : amap :=
  g_apply am qs file e.

Definition a_replay (am : amap) (qs : queues) (fes : glog) : option (amap * queues) :=
  g_replay (fun _ f => f) am qs 0 fes.

(* the invariant: per queue, one attribution per retained record, covered by the handles *)
Definition attr_inv (am : amap) (qs : queues) : Prop :=
  forall q, match g_get am q, qs_get qs q with
            | Some attrs, Some m => handles_ok attrs (q_metas m)
            | None, None => True
            | _, _ => False
            end.

Lemma attr_inv_ginv am qs : attr_inv am qs <-> ginv (fun f => f) am qs.
Proof.
  unfold attr_inv, ginv, hq_inv. split; intros H q; specialize (H q);
    destruct (g_get am q) as [l|], (qs_get qs q) as [m|]; try exact H;
    [now rewrite map_id|now rewrite map_id in H].
Qed.

Lemma attr_inv_nil : attr_inv [] [].
Proof. intros q. exact I. Qed.

(* (3a) one replayed entry, from ANY state satisfying the invariant (a live call is the replay
   of the entries it logged: GhostLog.live_is_replay) *)
Theorem apply_entry_attr_inv am qs file e qs' :
  attr_inv am qs -> apply_entry qs file e = Some qs' -> attr_inv (a_apply am qs file e) qs'.
Proof.
  intros Hi H. apply attr_inv_ginv. apply attr_inv_ginv in Hi.
  exact (apply_entry_handles (fun f => f) am qs file e qs' Hi H).
Qed.

(* (3b) a whole list of entries, from any state satisfying the invariant *)
Theorem replay_handles_from am qs fes qs' :
  attr_inv am qs -> replay_entries qs fes = Some qs' ->
  exists am', a_replay am qs fes = Some (am', qs') /\ attr_inv am' qs'.
Proof.
  intros Hi H. pose proof (g_replay_queues (fun _ f => f) fes am qs 0) as Hq. rewrite H in Hq.
  destruct Hq as (am' & E). exists am'. split; [exact E|].
  apply attr_inv_ginv. apply attr_inv_ginv in Hi.
  eapply (g_replay_handles (fun f => f) (fun _ f => f)); [reflexivity|exact Hi|exact E].
Qed.

(* (3c) from the empty state: what `open` rebuilds, and every state reached by live calls *)
Theorem replay_handles fes qs :
  replay_entries [] fes = Some qs ->
  exists am, a_replay [] [] fes = Some (am, qs) /\
    forall q m, qs_get qs q = Some m ->
      exists attrs, g_get am q = Some attrs /\
        handles_ok attrs (q_metas m) /\
        lenN attrs = lenN (records_of (q_buf m) (q_metas m)).
Proof.
  intros H. destruct (replay_handles_from [] [] fes qs attr_inv_nil H) as (am & E & Hi).
  exists am. split; [exact E|]. intros q m Em. specialize (Hi q). rewrite Em in Hi.
  destruct (g_get am q) as [attrs|]; [|contradiction]. exists attrs.
  split; [reflexivity|]. split; [exact Hi|].
  rewrite lenN_records_of. now apply handles_ok_lenN.
Qed.

(* (4) the GC consequence, for the attributed state *)
Theorem unreferenced_file_has_no_record_attr am qs f :
  attr_inv am qs -> qs_ref f qs = false ->
  forall q attrs, g_get am q = Some attrs -> ~ In f attrs.
Proof.
  intros Hi Hr q attrs E Hin. apply attr_inv_ginv in Hi.
  apply (unreferenced_file_has_no_record (fun f => f) am qs f Hi Hr q attrs E).
  now rewrite map_id.
Qed.

Theorem gc_prefix_attr_ge_attr am qs lo0 lo :
  attr_inv am qs ->
  (forall f, lo0 <= f < lo -> qs_ref f qs = false) ->
  (forall q attrs, g_get am q = Some attrs -> Forall (fun a => lo0 <= a) attrs) ->
  forall q attrs, g_get am q = Some attrs -> Forall (fun a => lo <= a) attrs.
Proof.
  intros Hi Hd Hall. apply attr_inv_ginv in Hi.
  exact (gc_prefix_attr_ge (fun f => f) am qs lo0 lo Hi Hd Hall).
Qed.

(* ---------- attributions and tags: the combined ghost (entry index, file) ---------- *)

Definition file_of (fes : glog) (i : nat) : N := nth i (map fst fes) 0.

Definition c_replay (cm : gmap (nat * N)) (qs : queues) (i : nat) (fes : glog) :=
  g_replay (fun i f => (i, f)) cm qs i fes.

(* every ghost pair (j, f) of the combined replay names the file of the j-th entry *)
Lemma c_replay_files : forall fes pre cm qs cm' qs',
  g_all (fun a => nth_error (map fst (pre ++ fes)) (fst a) = Some (snd a)) cm ->
  c_replay cm qs (length pre) fes = Some (cm', qs') ->
  g_all (fun a => nth_error (map fst (pre ++ fes)) (fst a) = Some (snd a)) cm'.
Proof.
  unfold c_replay.
  induction fes as [|[f e] r IH]; intros pre cm qs cm' qs' Hall H; cbn [g_replay] in H.
  - inversion H; subst. exact Hall.
  - destruct (apply_entry qs f e) as [qs1|]; [|discriminate].
    replace (pre ++ (f, e) :: r) with ((pre ++ [(f, e)]) ++ r) in * by (now rewrite <- app_assoc).
    eapply (IH (pre ++ [(f, e)])); [|rewrite app_length, Nat.add_1_r; exact H].
    apply g_apply_all; [exact Hall|]. cbn [fst snd].
    rewrite <- app_assoc, map_app, nth_error_app2 by (rewrite map_length; lia).
    rewrite map_length, Nat.sub_diag. reflexivity.
Qed.

Lemma map_snd_of_files (L : list N) : forall (l : list (nat * N)),
  Forall (fun a => nth_error L (fst a) = Some (snd a)) l ->
  map snd l = map (fun j => nth j L 0) (map fst l).
Proof.
  induction l as [|a t IH]; intros H; [reflexivity|].
  inversion H as [|? ? Ha Ht]; subst. cbn [map]. rewrite (IH Ht). f_equal.
  symmetry. now apply nth_error_nth.
Qed.

(* the three views of one replay of fes from the empty state: the model's queues qs, the
   attributions am, and ReplaySpec's tagged queues F *)
Theorem replay_views fes qs :
  replay_entries [] fes = Some qs ->
  exists cm am F,
    c_replay [] [] 0 fes = Some (cm, qs) /\
    a_replay [] [] fes = Some (am, qs) /\ am = gmap_map snd cm /\
    t_replay [] 0 (map snd fes) = Some F /\
    ginv snd cm qs /\ attr_inv am qs /\ tinv fst cm F /\
    g_all (fun a => nth_error (map fst fes) (fst a) = Some (snd a)) cm /\
    untag F = abs_qs qs /\ qs_inv qs.
Proof.
  intros H. pose proof (g_replay_queues (fun i f => (i, f)) fes [] [] 0) as Hq. rewrite H in Hq.
  destruct Hq as (cm & Ec).
  pose proof (g_replay_map snd (fun i f => (i, f)) (fun _ f => f) (fun _ _ => eq_refl)
                fes [] [] 0) as Ea. rewrite Ec in Ea. cbn [gmap_map map] in Ea.
  destruct (g_replay_tags fst (fun i f => (i, f)) (fun _ _ => eq_refl) fes [] [] [] 0 cm qs
              (tinv_nil fst) qs_inv_nil eq_refl Ec) as (F & EF & Ht & Hu & Hq).
  pose proof (g_replay_handles snd (fun i f => (i, f)) (fun _ _ => eq_refl) fes [] [] 0 cm qs
                (ginv_nil snd) Ec) as Hg.
  pose proof (c_replay_files fes [] [] [] cm qs (g_all_nil _) Ec) as Hf. cbn [app] in Hf.
  exists cm, (gmap_map snd cm), F. repeat (split; [first [assumption|reflexivity]|]).
  split; [|split; [exact Ht|split; [exact Hf|split; assumption]]].
  intros q. specialize (Hg q). unfold hq_inv in Hg. rewrite gmap_map_get.
  destruct (g_get cm q) as [l|], (qs_get qs q) as [m|]; cbn [option_map]; exact Hg.
Qed.

(* (3d) the attribution of a record tagged i by t_replay is the file of the i-th entry *)
Theorem attr_is_file_of_tag fes am qs F :
  a_replay [] [] fes = Some (am, qs) ->
  t_replay [] 0 (map snd fes) = Some F ->
  forall q,
    g_get am q =
    match t_get F q with
    | Some (rf, _) => Some (map (fun r => file_of fes (fst r)) rf)
    | None => None
    end.
Proof.
  intros Ha EF q. pose proof (g_replay_some _ _ _ _ _ _ _ Ha) as H.
  destruct (replay_views fes qs H) as (cm & am' & F' & _ & Ea & -> & EF' & _ & _ & Ht & Hf & _).
  unfold a_replay in *. rewrite Ea in Ha. inversion Ha; subst am. clear Ha.
  rewrite EF' in EF. inversion EF; subst F'. clear EF.
  rewrite gmap_map_get. specialize (Ht q). specialize (Hf q). unfold tq_inv in Ht.
  destruct (g_get cm q) as [l|], (t_get F q) as [[rf n]|]; try contradiction; [|reflexivity].
  cbn [option_map]. f_equal. rewrite (map_snd_of_files (map fst fes) l (Hf l eq_refl)), Ht.
  rewrite map_map. reflexivity.
Qed.

(* the same, without the ghost: the handles of the model's queues cover, for every retained
   record, the file of the entry that appended it (as identified by ReplaySpec's tag) *)
Theorem tagged_handles_ok fes qs F :
  replay_entries [] fes = Some qs ->
  t_replay [] 0 (map snd fes) = Some F ->
  forall q,
    match t_get F q, qs_get qs q with
    | Some (rf, _), Some m => handles_ok (map (fun r => file_of fes (fst r)) rf) (q_metas m)
    | None, None => True
    | _, _ => False
    end.
Proof.
  intros H EF q.
  destruct (replay_views fes qs H) as (cm & am & F' & _ & Ea & _ & _ & _ & Hi & _).
  pose proof (attr_is_file_of_tag fes am qs F Ea EF q) as Hg. specialize (Hi q).
  rewrite Hg in Hi. destruct (t_get F q) as [[rf n]|]; exact Hi.
Qed.

(* hence: the file of the entry that appended a retained record is referenced (the GC's
   criterion `referenced` holds for it, so the GC does not delete it) *)
Corollary tagged_record_file_referenced fes qs F q rf n r :
  replay_entries [] fes = Some qs ->
  t_replay [] 0 (map snd fes) = Some F ->
  t_get F q = Some (rf, n) -> In r rf ->
  qs_ref (file_of fes (fst r)) qs = true.
Proof.
  intros H EF Eq Hin. pose proof (tagged_handles_ok fes qs F H EF q) as Hq. rewrite Eq in Hq.
  destruct (qs_get qs q) as [m|] eqn:Em; [|contradiction].
  unfold qs_ref. apply existsb_exists. exists (q, m). split; [now apply qs_get_In_eq|].
  eapply handles_ok_ref_metas; [exact Hq|].
  apply (in_map (fun r => file_of fes (fst r))). exact Hin.
Qed.

(* contrapositive: an unreferenced file is the file of no entry that appended a retained record *)
Corollary unreferenced_file_no_tagged_record fes qs F f :
  replay_entries [] fes = Some qs ->
  t_replay [] 0 (map snd fes) = Some F ->
  qs_ref f qs = false ->
  forall q rf n r, t_get F q = Some (rf, n) -> In r rf -> file_of fes (fst r) <> f.
Proof.
  intros H EF Hr q rf n r Eq Hin E.
  rewrite <- E, (tagged_record_file_referenced fes qs F q rf n r H EF Eq Hin) in Hr.
  discriminate.
Qed.

(* ====================================================================== *)
(* 9. composition, live steps, monotonicity                               *)
(* ====================================================================== *)

Lemma a_replay_index : forall fes am qs i j,
  g_replay (fun _ f => f) am qs i fes = g_replay (fun _ (f : N) => f) am qs j fes.
Proof.
  induction fes as [|[f e] r IH]; intros am qs i j; cbn [g_replay]; [reflexivity|].
  destruct (apply_entry qs f e); [apply IH|reflexivity].
Qed.

Lemma a_replay_app a b am qs :
  a_replay am qs (a ++ b) =
  match a_replay am qs a with
  | Some (am', qs') => a_replay am' qs' b
  | None => None
  end.
Proof.
  unfold a_replay. rewrite g_replay_app.
  destruct (g_replay _ am qs 0 a) as [[am' qs']|]; [|reflexivity]. apply a_replay_index.
Qed.

Lemma a_replay_cons f e r am qs :
  a_replay am qs ((f, e) :: r) =
  match apply_entry qs f e with
  | Some qs' => a_replay (a_apply am qs f e) qs' r
  | None => None
  end.
Proof.
  unfold a_replay, a_apply. cbn [g_replay].
  destruct (apply_entry qs f e); [apply a_replay_index|reflexivity].
Qed.

(* a live call (without I/O error) keeps the invariant: it is the replay of what it logged *)
Theorem live_step_attr_inv P st L o tick st' L' out am :
  nodup_names (s_qs st) -> attr_inv am (s_qs st) ->
  gstep P (st, L) o tick = ((st', L'), out) -> (forall e, out <> OutIo e) ->
  exists es am', L' = L ++ es /\
                 a_replay am (s_qs st) es = Some (am', s_qs st') /\
                 attr_inv am' (s_qs st').
Proof.
  intros Hnd Hi H Hio.
  destruct (live_is_replay P st L o tick st' L' out Hnd H Hio) as (es & -> & Hr).
  destruct (replay_handles_from am (s_qs st) es (s_qs st') Hi Hr) as (am' & E & Hi').
  exists es, am'. split; [reflexivity|]. split; assumption.
Qed.

(* ---------- monotonicity: attributions never decrease along a queue ---------- *)

Lemma sorted_nth_le : forall (L : list N), StronglySorted N.le L ->
  forall i j, (i <= j < length L)%nat -> nth i L 0 <= nth j L 0.
Proof.
  induction L as [|x t IH]; intros Hs i j Hij; cbn [length] in Hij; [lia|].
  inversion Hs as [|? ? Hst Hall]; subst. destruct j as [|j'].
  - assert (i = 0)%nat by lia. subst i. cbn [nth]. lia.
  - destruct i as [|i'].
    + cbn [nth]. rewrite Forall_forall in Hall. apply Hall. apply nth_In. lia.
    + cbn [nth]. apply IH; [exact Hst|lia].
Qed.

Lemma tags_nd_files_sorted (L : list N) : StronglySorted N.le L ->
  forall (rf : list trec) lo, tags_nd lo rf -> Forall (fun r => (fst r < length L)%nat) rf ->
  StronglySorted N.le (map (fun r => nth (fst r) L 0) rf).
Proof.
  intros HL. induction rf as [|r t IH]; intros lo Hnd Hlt; cbn [map]; [constructor|].
  cbn [tags_nd] in Hnd. destruct Hnd as (_ & Hnd). inversion Hlt as [|? ? Hr Ht]; subst.
  constructor; [eapply IH; eassumption|].
  apply Forall_map. apply Forall_forall. intros x Hx.
  pose proof (tags_nd_ge _ _ _ Hnd Hx) as Hge. rewrite Forall_forall in Ht.
  specialize (Ht x Hx). cbn beta in Ht. apply sorted_nth_le; [exact HL|lia].
Qed.

(* if the files of the replayed entries never decrease (GhostLog.tags_mono_sorted for the live
   log; the reader's file number at replay), the attributions of every queue are sorted and each
   of them is the file of some entry *)
Theorem attrs_sorted fes am qs :
  StronglySorted N.le (map fst fes) ->
  a_replay [] [] fes = Some (am, qs) ->
  forall q attrs, g_get am q = Some attrs ->
    StronglySorted N.le attrs /\ Forall (fun a => In a (map fst fes)) attrs.
Proof.
  intros HL Ha q attrs E. pose proof (g_replay_some _ _ _ _ _ _ _ Ha) as H.
  destruct (replay_views fes qs H) as (_ & _ & F & _ & _ & _ & EF & _).
  rewrite (attr_is_file_of_tag fes am qs F Ha EF q) in E.
  pose proof (t_replay_wf (map snd fes) 0 [] F (wf_tmap_nil 0) EF q) as Hw.
  destruct (t_get F q) as [[rf n]|]; [|discriminate]. inversion E; subst attrs. clear E.
  cbn [wfq] in Hw. destruct Hw as (Hnd & Hlt & _).
  rewrite map_length, Nat.add_0_l, <- (map_length fst fes) in Hlt. split.
  - unfold file_of. eapply tags_nd_files_sorted; eassumption.
  - apply Forall_map. eapply Forall_impl; [|exact Hlt]. cbn beta. intros r Hr.
    unfold file_of. now apply nth_In.
Qed.

(* the GC deletes unreferenced files only: as soon as every entry file below lo (the first kept
   file) is unreferenced, every retained record is attributed to a file >= lo *)
Corollary attrs_ge_first_kept fes am qs lo :
  a_replay [] [] fes = Some (am, qs) ->
  (forall f, In f (map fst fes) -> f < lo -> qs_ref f qs = false) ->
  forall q attrs, g_get am q = Some attrs -> Forall (fun a => lo <= a) attrs.
Proof.
  intros Ha Hd q attrs E. pose proof (g_replay_some _ _ _ _ _ _ _ Ha) as H.
  destruct (replay_views fes qs H) as (cm & am' & F & _ & Ea & -> & EF & _ & Hi & _ & Hf & _).
  rewrite Ea in Ha. inversion Ha; subst am. clear Ha.
  apply Forall_forall. intros a Hin.
  destruct (N.le_gt_cases lo a) as [Hle|Hgt]; [exact Hle|exfalso].
  assert (Hfile : In a (map fst fes)).
  { rewrite gmap_map_get in E. destruct (g_get cm q) as [l|] eqn:El; [|discriminate].
    inversion E; subst attrs. apply in_map_iff in Hin. destruct Hin as (x & <- & Hx).
    specialize (Hf q l El). rewrite Forall_forall in Hf. specialize (Hf x Hx). cbn beta in Hf.
    eapply nth_error_In; exact Hf. }
  apply (unreferenced_file_has_no_record_attr _ _ a Hi (Hd a Hfile Hgt) q attrs E Hin).
Qed.

(* ====================================================================== *)
(* 10. a concrete instance: the subtle case of append_record              *)
(* ====================================================================== *)

(* two batches appended to queue "a" while in file 3 (the handle of the first batch's last
   record is taken by the next record), one batch in file 4, then a truncation that evicts the
   first record: handles [None; None; Some 3; Some 4] for attributions [3; 3; 3; 4] *)
Definition ex_fes : glog :=
  [(3, EPosition qa 0);
   (3, EAppend qa 0 (number_from 0 [[x01]; [x02]]));
   (3, EAppend qa 2 (number_from 2 [[x03]; [x04]]));
   (4, EAppend qa 4 (number_from 4 [[x05]]));
   (4, ETruncate qa 0)].

Example ex_attr :
  exists am qs m,
    a_replay [] [] ex_fes = Some (am, qs) /\
    g_get am qa = Some [3; 3; 3; 4] /\
    qs_get qs qa = Some m /\
    map m_file (q_metas m) = [None; None; Some 3; Some 4] /\
    handles_ok [3; 3; 3; 4] (q_metas m).
Proof.
  do 3 eexists. split; [vm_compute; reflexivity|]. split; [reflexivity|].
  split; [reflexivity|]. split; [reflexivity|]. vm_compute. tauto.
Qed.

(* ================================================================ audit *)
Print Assumptions handles_ok_spec.
Print Assumptions handles_ok_ref.
Print Assumptions append_record_handles.
Print Assumptions append_all_handles.
Print Assumptions truncate_head_handles.
Print Assumptions apply_entry_handles.
Print Assumptions g_replay_handles.
Print Assumptions unreferenced_file_has_no_record.
Print Assumptions gc_keeps_attributed_files.
Print Assumptions gc_prefix_attr_ge.
Print Assumptions t_apply_tags.
Print Assumptions g_replay_tags.
Print Assumptions apply_entry_attr_inv.
Print Assumptions replay_handles_from.
Print Assumptions replay_handles.
Print Assumptions unreferenced_file_has_no_record_attr.
Print Assumptions gc_prefix_attr_ge_attr.
Print Assumptions replay_views.
Print Assumptions attr_is_file_of_tag.
Print Assumptions tagged_handles_ok.
Print Assumptions tagged_record_file_referenced.
Print Assumptions unreferenced_file_no_tagged_record.
Print Assumptions live_step_attr_inv.
Print Assumptions attrs_sorted.
Print Assumptions attrs_ge_first_kept.
Print Assumptions ex_attr.
