(* Crc.v — executable CRC-32/IEEE (reflected, poly 0xEDB88320), as computed by crc32fast.
   Used only to run the model; every theorem is stated for an arbitrary checksum function. *)
From MRL Require Import Bytes.

Definition crc_step (c : N) : N :=
  if N.odd c then N.lxor (N.shiftr c 1) 3988292384 else N.shiftr c 1.

Definition crc_byte (c : N) (b : byte) : N :=
  crc_step (crc_step (crc_step (crc_step (crc_step (crc_step (crc_step (crc_step
    (N.lxor c (b2n b))))))))).

Definition crc32_update (c : N) (bs : bytes) : N := fold_left crc_byte bs c.

(* crc32(data, frame_type): hash.update(&[frame_type]); hash.update(data); finalize() *)
Definition crc32 (t : byte) (p : bytes) : N :=
  N.land (N.lxor (crc32_update 4294967295 (t :: p)) 4294967295) 4294967295.
