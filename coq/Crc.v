(* Crc.v — executable CRC-32/IEEE (reflected, poly 0xEDB88320), as computed by crc32fast.
   Used only to run the model; every theorem is stated for an arbitrary checksum function.
   Its agreement with crc32fast is checked by the byte-exact comparison of every write. *)
From MRL Require Import Bytes CrcTable.

(* bitwise reference *)
Definition crc_step (c : N) : N :=
  if N.odd c then N.lxor (N.shiftr c 1) 3988292384 else N.shiftr c 1.
Definition crc_byte_bitwise (c : N) (b : byte) : N :=
  crc_step (crc_step (crc_step (crc_step (crc_step (crc_step (crc_step (crc_step
    (N.lxor c (b2n b))))))))).

Lemma crc_table_ok : forall b, crc_table b = crc_byte_bitwise 0 b.
Proof. destruct b; vm_compute; reflexivity. Qed.

(* table-driven step: table[(c xor b) land 255] xor (c >> 8) *)
Definition byte_of_small (n : N) : byte :=
  match Byte.of_N n with Some b => b | None => x00 end.
Definition crc_byte (c : N) (b : byte) : N :=
  N.lxor (crc_table (byte_of_small (N.land (N.lxor c (b2n b)) 255))) (N.shiftr c 8).

Definition crc32_update (c : N) (bs : bytes) : N := fold_left crc_byte bs c.

(* crc32(data, frame_type): hash.update(&[frame_type]); hash.update(data); finalize() *)
Definition crc32 (t : byte) (p : bytes) : N :=
  N.land (N.lxor (crc32_update 4294967295 (t :: p)) 4294967295) 4294967295.

(* the standard check value, crc32("123456789") = 0xCBF43926 *)
Example crc32_check :
  crc32 "1"%byte ["2"; "3"; "4"; "5"; "6"; "7"; "8"; "9"]%byte = 3421780262.
Proof. vm_compute. reflexivity. Qed.
