(* ReplaySpec.v — replaying a suffix of the WAL (properties C01 / C04 / C18, restart halves).
   A spec-level replay on abstract queues whose records are tagged with the index of the entry
   that appended them; the model's replay step (Log.apply_entry) refines it; replaying a
   suffix of a legal log yields, per queue, the same next position and exactly the records
   appended by entries of the suffix; coverage implies equality of the observable state. *)
From Coq Require Import Lia ZArith ZifyN ZifyNat ZifyBool.
From MRL Require Import Bytes BytesProofs Params Record Mem Spec Log SpecRefine RecordProofs.

Arguments N.add : simpl never.
Arguments N.sub : simpl never.
Arguments N.mul : simpl never.
Arguments N.eqb : simpl never.
Arguments N.ltb : simpl never.
Arguments N.leb : simpl never.
Arguments N.div : simpl never.
Arguments N.modulo : simpl never.

(* ====================================================================== *)
(* 1. spec-level replay with tagged records                               *)
(* ====================================================================== *)

Definition trec := (nat * (N * bytes))%type.
Definition tqueue := (list trec * N)%type.
Definition tmap := list (bytes * tqueue).

Fixpoint t_get (m : tmap) (q : bytes) : option tqueue :=
  match m with
  | [] => None
  | (n, v) :: r => if bytes_eqb n q then Some v else t_get r q
  end.
Fixpoint t_remove (m : tmap) (q : bytes) : tmap :=
  match m with
  | [] => []
  | (n, v) :: r => if bytes_eqb n q then t_remove r q else (n, v) :: t_remove r q
  end.
Fixpoint t_put (m : tmap) (q : bytes) (v : tqueue) : tmap :=
  match m with
  | [] => [(q, v)]
  | (n, v0) :: r => if bytes_eqb n q then (n, v) :: r else (n, v0) :: t_put r q v
  end.

Definition untag (m : tmap) : smap :=
  map (fun '(n, (recs, nx)) => (n, (map snd recs, nx))) m.

Fixpoint t_append_all (recs : list trec) (next : N) (i : nat) (new : list (N * bytes))
  : option (list trec * N) :=
  match new with
  | [] => Some (recs, next)
  | (p, x) :: r =>
      if p <? next then None else t_append_all (recs ++ [(i, (p, x))]) (p + 1) i r
  end.

Definition t_truncate (recs : list trec) (next p : N) : tqueue :=
  let kept := filter (fun r => p <? fst (snd r)) recs in
  (kept, if isnil kept && (next <=? p + 1) then p + 1 else next).

Definition t_apply (m : tmap) (i : nat) (e : entry) : option tmap :=
  match e with
  | EAppend q pos recs =>
      let '(old, next) := match t_get m q with Some v => v | None => ([], pos) end in
      match t_append_all old next i recs with
      | Some v => Some (t_put m q v)
      | None => None
      end
  | ETruncate q p =>
      match t_get m q with
      | Some (recs, next) => Some (t_put m q (t_truncate recs next p))
      | None => Some m
      end
  | EPosition q p =>
      match t_get m q with
      | Some (recs, next) =>
          if negb (isnil recs) || negb (next =? p) then Some (t_put m q ([], p)) else Some m
      | None => Some (t_put m q ([], p))
      end
  | EDelete q _ => Some (t_remove m q)
  end.

Fixpoint t_replay (m : tmap) (i : nat) (es : list entry) : option tmap :=
  match es with
  | [] => Some m
  | e :: r =>
      match t_apply m i e with
      | Some m' => t_replay m' (S i) r
      | None => None
      end
  end.

(* ---------- association-list laws ---------- *)

Lemma t_get_put_same m q v : t_get (t_put m q v) q = Some v.
Proof.
  induction m as [|[n0 v0] r IH]; cbn [t_put t_get].
  - now rewrite bytes_eqb_refl.
  - destruct (bytes_eqb n0 q) eqn:E; cbn [t_get]; rewrite E; [reflexivity|exact IH].
Qed.

Lemma t_get_put_other m q v q' : q <> q' -> t_get (t_put m q v) q' = t_get m q'.
Proof.
  intros Hne. induction m as [|[n0 v0] r IH]; cbn [t_put t_get].
  - apply bytes_eqb_neq in Hne. now rewrite Hne.
  - destruct (bytes_eqb n0 q) eqn:E; cbn [t_get].
    + apply bytes_eqb_eq in E. subst n0. apply bytes_eqb_neq in Hne. now rewrite Hne.
    + destruct (bytes_eqb n0 q'); [reflexivity|exact IH].
Qed.

Lemma t_get_remove_other m q q' : q <> q' -> t_get (t_remove m q) q' = t_get m q'.
Proof.
  intros Hne. induction m as [|[n0 v0] r IH]; cbn [t_remove t_get]; [reflexivity|].
  destruct (bytes_eqb n0 q) eqn:E; cbn [t_get].
  - apply bytes_eqb_eq in E. subst n0. apply bytes_eqb_neq in Hne. now rewrite Hne.
  - destruct (bytes_eqb n0 q'); [reflexivity|exact IH].
Qed.

Lemma t_get_remove_same m q : t_get (t_remove m q) q = None.
Proof.
  induction m as [|[n0 v0] r IH]; cbn [t_remove t_get]; [reflexivity|].
  destruct (bytes_eqb n0 q) eqn:E; cbn [t_get]; [exact IH|]. now rewrite E.
Qed.

Definition untag_q (v : tqueue) : squeue := (map snd (fst v), snd v).

Lemma untag_get m q :
  s_get (untag m) q = match t_get m q with Some v => Some (untag_q v) | None => None end.
Proof.
  induction m as [|[n0 [r0 x0]] r IH]; [reflexivity|].
  cbn [untag map s_get t_get]. fold (untag r). destruct (bytes_eqb n0 q); [reflexivity|exact IH].
Qed.

Lemma untag_put m q v : untag (t_put m q v) = s_put (untag m) q (untag_q v).
Proof.
  induction m as [|[n0 [r0 x0]] r IH].
  - destruct v as [rv xv]. reflexivity.
  - cbn [untag map s_put t_put]. fold (untag r).
    destruct (bytes_eqb n0 q); cbn [map].
    + destruct v as [rv xv]. reflexivity.
    + fold (untag (t_put r q v)). now rewrite IH.
Qed.

Lemma untag_remove m q : untag (t_remove m q) = s_remove (untag m) q.
Proof.
  induction m as [|[n0 [r0 x0]] r IH]; [reflexivity|].
  cbn [untag map s_remove t_remove]. fold (untag r).
  destruct (bytes_eqb n0 q); cbn [map]; [exact IH|]. fold (untag (t_remove r q)).
  now rewrite IH.
Qed.

Lemma s_put_put m q a b : s_put (s_put m q a) q b = s_put m q b.
Proof.
  induction m as [|[n0 v0] r IH]; cbn [s_put].
  - now rewrite bytes_eqb_refl.
  - destruct (bytes_eqb n0 q) eqn:E; cbn [s_put]; rewrite E; [reflexivity|now rewrite IH].
Qed.

(* ====================================================================== *)
(* 2. the model's replay step refines t_apply                             *)
(* ====================================================================== *)

Lemma map_snd_filter (f : N * bytes -> bool) (l : list trec) :
  map snd (filter (fun r => f (snd r)) l) = filter f (map snd l).
Proof.
  induction l as [|r t IH]; cbn [filter map]; [reflexivity|].
  destruct (f (snd r)); cbn [map]; now rewrite IH.
Qed.

Lemma isnil_map {A B} (f : A -> B) l : isnil (map f l) = isnil l.
Proof. destruct l; reflexivity. Qed.

Lemma append_record_none q file p x :
  append_record q file p x = None -> p < next_position q.
Proof.
  unfold append_record. destruct (N.ltb_spec p (next_position q)) as [H|H]; [trivial|discriminate].
Qed.

Lemma append_all_trefines : forall recs q file (trecs : list trec) i,
  mq_inv q -> map snd trecs = records_of (q_buf q) (q_metas q) ->
  match append_all q file recs with
  | Some q' => exists trecs',
      t_append_all trecs (next_position q) i recs = Some (trecs', next_position q') /\
      map snd trecs' = records_of (q_buf q') (q_metas q') /\ mq_inv q'
  | None => t_append_all trecs (next_position q) i recs = None
  end.
Proof.
  induction recs as [|[p x] r IH]; intros q file trecs i Hi Hm; cbn [append_all t_append_all].
  - exists trecs. split; [reflexivity|]. split; assumption.
  - destruct (append_record q file p x) as [q1|] eqn:E1.
    + destruct (append_record_some _ _ _ _ _ E1) as (Hge & _).
      destruct (append_record_some_refines _ _ _ _ _ Hi E1) as (Hi1 & Hr1 & Hn1).
      destruct (N.ltb_spec p (next_position q)) as [Hlt|_]; [lia|].
      rewrite <- Hn1. apply IH; [exact Hi1|].
      rewrite map_app, Hr1. f_equal. exact Hm.
    + apply append_record_none in E1.
      destruct (N.ltb_spec p (next_position q)) as [_|Hge]; [reflexivity|lia].
Qed.

Lemma untag_abs_get tm qs q :
  untag tm = abs_qs qs ->
  match t_get tm q, qs_get qs q with
  | Some v, Some m => untag_q v = abs_q m
  | None, None => True
  | _, _ => False
  end.
Proof.
  intros H. pose proof (untag_get tm q) as H1. rewrite H, abs_get in H1.
  destruct (t_get tm q) as [v|], (qs_get qs q) as [m|]; try discriminate; [|exact I].
  congruence.
Qed.

Theorem apply_entry_refines qs file i e :
  qs_inv qs -> forall tm, untag tm = abs_qs qs ->
  match apply_entry qs file e with
  | Some qs' => exists tm', t_apply tm i e = Some tm' /\ untag tm' = abs_qs qs' /\ qs_inv qs'
  | None => t_apply tm i e = None
  end.
Proof.
  intros Hi tm Hu. destruct e as [q pos recs|q p|q p|q p]; cbn [apply_entry t_apply].
  - (* EAppend *)
    rewrite qs_contains_get. pose proof (untag_abs_get tm qs q Hu) as Hg.
    destruct (qs_get qs q) as [m|] eqn:E.
    + rewrite E. destruct (t_get tm q) as [[old next]|]; [|destruct Hg].
      unfold untag_q, abs_q in Hg. cbn [fst snd] in Hg. inversion Hg as [[Hr Hn]].
      pose proof (append_all_trefines recs m file old i (qs_inv_get _ _ _ Hi E) Hr) as Ha.
      destruct (append_all m file recs) as [m'|].
      * destruct Ha as (trecs' & Ht & Hr' & Hi'). rewrite Ht.
        eexists. split; [reflexivity|]. split.
        -- rewrite untag_put, Hu, <- abs_put. unfold untag_q, abs_q. cbn [fst snd].
           now rewrite Hr'.
        -- now apply qs_inv_put.
      * now rewrite Ha.
    + destruct (t_get tm q) as [v|]; [destruct Hg|].
      unfold ack_position. rewrite E, qs_get_put_same.
      pose proof (append_all_trefines recs (mq_with_next pos) file [] i
                    (mq_inv_with_next pos) eq_refl) as Ha.
      change (next_position (mq_with_next pos)) with pos in Ha.
      destruct (append_all (mq_with_next pos) file recs) as [m'|].
      * destruct Ha as (trecs' & Ht & Hr' & Hi'). rewrite Ht.
        eexists. split; [reflexivity|]. split.
        -- rewrite untag_put, Hu, <- !abs_put, s_put_put. unfold untag_q, abs_q. cbn [fst snd].
           now rewrite Hr'.
        -- apply qs_inv_put; [|exact Hi']. apply qs_inv_put; [exact Hi|apply mq_inv_with_next].
      * now rewrite Ha.
  - (* ETruncate *)
    pose proof (untag_abs_get tm qs q Hu) as Hg.
    destruct (qs_get qs q) as [m|] eqn:E.
    + destruct (t_get tm q) as [[old next]|]; [|destruct Hg].
      unfold untag_q, abs_q in Hg. cbn [fst snd] in Hg. inversion Hg as [[Hr Hn]].
      pose proof (truncate_head_refines m p (qs_inv_get _ _ _ Hi E)) as Ht.
      destruct (truncate_head m p) as [m' k]. destruct Ht as (Hi' & Hr' & _ & Hn'). cbn [fst].
      eexists. split; [reflexivity|]. split; [|now apply qs_inv_put].
      rewrite untag_put, Hu, <- abs_put. f_equal.
      unfold untag_q, abs_q, t_truncate. cbn [fst snd].
      rewrite (map_snd_filter (fun r => p <? fst r)), Hr, <- Hr'. f_equal.
      rewrite Hn'. rewrite <- (isnil_map snd (filter _ old)).
      rewrite (map_snd_filter (fun r => p <? fst r)), Hr, <- Hr'. reflexivity.
    + destruct (t_get tm q) as [v|]; [destruct Hg|].
      exists tm. split; [reflexivity|]. split; assumption.
  - (* EPosition *)
    pose proof (untag_abs_get tm qs q Hu) as Hg. unfold ack_position.
    destruct (qs_get qs q) as [m|] eqn:E.
    + destruct (t_get tm q) as [[old next]|]; [|destruct Hg].
      unfold untag_q, abs_q in Hg. cbn [fst snd] in Hg. inversion Hg as [[Hr Hn]].
      assert (He : mq_is_empty m = isnil old).
      { unfold mq_is_empty. transitivity (isnil (map snd old)); [|apply isnil_map].
        rewrite Hr. destruct (q_metas m); reflexivity. }
      rewrite He.
      destruct (negb (isnil old) || negb (next_position m =? p)).
      * eexists. split; [reflexivity|]. split.
        -- rewrite untag_put, Hu, <- abs_put. reflexivity.
        -- apply qs_inv_put; [exact Hi|apply mq_inv_with_next].
      * exists tm. split; [reflexivity|]. split; assumption.
    + destruct (t_get tm q) as [v|]; [destruct Hg|].
      eexists. split; [reflexivity|]. split.
      * rewrite untag_put, Hu, <- abs_put. reflexivity.
      * apply qs_inv_put; [exact Hi|apply mq_inv_with_next].
  - (* EDelete *)
    eexists. split; [reflexivity|]. split.
    + rewrite untag_remove, Hu, abs_remove. reflexivity.
    + now apply qs_inv_remove.
Qed.

(* the replay loop of `open`, abstracted: entries with the file they were read from *)
Fixpoint apply_entries (qs : queues) (fes : list (N * entry)) : option queues :=
  match fes with
  | [] => Some qs
  | (f, e) :: r =>
      match apply_entry qs f e with
      | Some qs' => apply_entries qs' r
      | None => None
      end
  end.

Corollary apply_entries_refines : forall fes qs i tm,
  qs_inv qs -> untag tm = abs_qs qs ->
  match apply_entries qs fes with
  | Some qs' => exists tm',
      t_replay tm i (map snd fes) = Some tm' /\ untag tm' = abs_qs qs' /\ qs_inv qs'
  | None => t_replay tm i (map snd fes) = None
  end.
Proof.
  induction fes as [|[f e] r IH]; intros qs i tm Hi Hu; cbn [apply_entries map snd t_replay].
  - exists tm. split; [reflexivity|]. split; assumption.
  - pose proof (apply_entry_refines qs f i e Hi tm Hu) as H1.
    destruct (apply_entry qs f e) as [qs1|].
    + destruct H1 as (tm1 & -> & Hu1 & Hi1). apply IH; assumption.
    + now rewrite H1.
Qed.

(* ====================================================================== *)
(* 3. t_apply, one queue at a time                                        *)
(* ====================================================================== *)

(* the effect of an entry on the queue it names *)
Definition q_apply (v : option tqueue) (i : nat) (e : entry) : option (option tqueue) :=
  match e with
  | EAppend _ pos recs =>
      let '(old, next) := match v with Some v => v | None => ([], pos) end in
      match t_append_all old next i recs with
      | Some v' => Some (Some v')
      | None => None
      end
  | ETruncate _ p =>
      match v with
      | Some (recs, next) => Some (Some (t_truncate recs next p))
      | None => Some None
      end
  | EPosition _ p =>
      match v with
      | Some (recs, next) =>
          if negb (isnil recs) || negb (next =? p) then Some (Some ([], p)) else Some v
      | None => Some (Some ([], p))
      end
  | EDelete _ _ => Some None
  end.

Lemma t_apply_spec m i e :
  match t_apply m i e with
  | Some m' =>
      q_apply (t_get m (entry_queue e)) i e = Some (t_get m' (entry_queue e)) /\
      (forall q', entry_queue e <> q' -> t_get m' q' = t_get m q')
  | None => q_apply (t_get m (entry_queue e)) i e = None
  end.
Proof.
  destruct e as [q pos recs|q p|q p|q p]; cbn [t_apply q_apply entry_queue].
  - destruct (match t_get m q with Some v => v | None => ([], pos) end) as [old next].
    destruct (t_append_all old next i recs) as [v'|]; [|reflexivity].
    rewrite t_get_put_same. split; [reflexivity|]. intros q' Hne. now apply t_get_put_other.
  - destruct (t_get m q) as [[recs next]|] eqn:E.
    + rewrite t_get_put_same. split; [reflexivity|]. intros q' Hne. now apply t_get_put_other.
    + rewrite E. split; reflexivity.
  - destruct (t_get m q) as [[recs next]|] eqn:E.
    + destruct (negb (isnil recs) || negb (next =? p)).
      * rewrite t_get_put_same. split; [reflexivity|]. intros q' Hne. now apply t_get_put_other.
      * rewrite E. split; reflexivity.
    + rewrite t_get_put_same. split; [reflexivity|]. intros q' Hne. now apply t_get_put_other.
  - rewrite t_get_remove_same. split; [reflexivity|]. intros q' Hne. now apply t_get_remove_other.
Qed.

Lemma t_apply_some m i e m' :
  t_apply m i e = Some m' ->
  q_apply (t_get m (entry_queue e)) i e = Some (t_get m' (entry_queue e)) /\
  (forall q', entry_queue e <> q' -> t_get m' q' = t_get m q').
Proof. intros H. pose proof (t_apply_spec m i e) as Hs. now rewrite H in Hs. Qed.

Lemma q_apply_some_t_apply m i e v' :
  q_apply (t_get m (entry_queue e)) i e = Some v' ->
  exists m', t_apply m i e = Some m' /\ t_get m' (entry_queue e) = v' /\
             (forall q', entry_queue e <> q' -> t_get m' q' = t_get m q').
Proof.
  intros H. pose proof (t_apply_spec m i e) as Hs.
  destruct (t_apply m i e) as [m'|]; [|congruence].
  destruct Hs as (H1 & H2). exists m'. split; [reflexivity|]. split; [congruence|exact H2].
Qed.

(* ---------- t_append_all in closed form ---------- *)

Fixpoint chk_pos (next : N) (new : list (N * bytes)) : option N :=
  match new with
  | [] => Some next
  | (p, x) :: r => if p <? next then None else chk_pos (p + 1) r
  end.

Definition tag_with (i : nat) (new : list (N * bytes)) : list trec := map (pair i) new.

Lemma t_append_all_eq : forall new recs next i,
  t_append_all recs next i new =
  match chk_pos next new with
  | Some n => Some (recs ++ tag_with i new, n)
  | None => None
  end.
Proof.
  induction new as [|[p x] r IH]; intros recs next i; cbn [t_append_all chk_pos tag_with map].
  - now rewrite app_nil_r.
  - destruct (p <? next); [reflexivity|]. rewrite IH.
    destruct (chk_pos (p + 1) r); [|reflexivity]. unfold tag_with. now rewrite <- app_assoc.
Qed.

Lemma chk_pos_bound : forall new next n,
  chk_pos next new = Some n ->
  next <= n /\ Forall (fun r => next <= fst r < n) new.
Proof.
  induction new as [|[p x] r IH]; intros next n H; cbn [chk_pos] in H.
  - inversion H; subst. split; [lia|constructor].
  - destruct (N.ltb_spec p next) as [_|Hge]; [discriminate|].
    destruct (IH _ _ H) as (H1 & H2). split; [lia|]. constructor; [cbn [fst]; lia|].
    eapply Forall_impl; [|exact H2]. cbn beta. intros a Ha. lia.
Qed.

Lemma chk_pos_number_from : forall payloads pos next,
  next <= pos -> payloads <> [] ->
  chk_pos next (number_from pos payloads) = Some (pos + lenN payloads).
Proof.
  induction payloads as [|x r IH]; intros pos next Hle Hne; [congruence|].
  cbn [number_from chk_pos]. destruct (N.ltb_spec pos next) as [Hlt|_]; [lia|].
  destruct r as [|y r'].
  - cbn [number_from chk_pos]. rewrite lenN_cons, lenN_nil. f_equal.
  - rewrite IH by (try lia; discriminate). rewrite (lenN_cons x). f_equal. lia.
Qed.

(* ====================================================================== *)
(* 4. invariants of the tagged state                                      *)
(* ====================================================================== *)

(* tags non-decreasing along a queue *)
Fixpoint tags_nd (lo : nat) (l : list trec) : Prop :=
  match l with
  | [] => True
  | r :: t => (lo <= fst r)%nat /\ tags_nd (fst r) t
  end.

Lemma tags_nd_weaken lo lo' l : tags_nd lo l -> (lo' <= lo)%nat -> tags_nd lo' l.
Proof.
  destruct l as [|r t]; cbn [tags_nd]; [trivial|]. intros (H1 & H2) H. split; [lia|exact H2].
Qed.

Lemma tags_nd_ge lo l x : tags_nd lo l -> In x l -> (lo <= fst x)%nat.
Proof.
  revert lo; induction l as [|r t IH]; intros lo H Hin; [destruct Hin|].
  cbn [tags_nd] in H. destruct H as (H1 & H2). destruct Hin as [<-|Hin]; [exact H1|].
  specialize (IH _ H2 Hin). lia.
Qed.

Lemma tags_nd_filter f lo l : tags_nd lo l -> tags_nd lo (filter f l).
Proof.
  revert lo; induction l as [|r t IH]; intros lo H; [exact I|].
  cbn [tags_nd filter] in *. destruct H as (H1 & H2). specialize (IH _ H2).
  destruct (f r).
  - cbn [tags_nd]. split; assumption.
  - eapply tags_nd_weaken; [exact IH|lia].
Qed.

Lemma tags_nd_tag_with lo i new : (lo <= i)%nat -> tags_nd lo (tag_with i new).
Proof.
  revert lo; induction new as [|a r IH]; intros lo H; cbn [tag_with map tags_nd]; [exact I|].
  cbn [fst]. split; [exact H|]. apply IH. lia.
Qed.

Lemma tags_nd_app_tag lo l i new :
  tags_nd lo l -> Forall (fun r => (fst r <= i)%nat) l -> (lo <= i)%nat ->
  tags_nd lo (l ++ tag_with i new).
Proof.
  revert lo; induction l as [|r t IH]; intros lo H Hf Hlo; cbn [app].
  - now apply tags_nd_tag_with.
  - cbn [tags_nd] in *. destruct H as (H1 & H2). inversion Hf as [|? ? Hr Ht]; subst.
    split; [exact H1|]. apply IH; assumption.
Qed.

(* the records carrying a tag >= k form a suffix of the queue *)
Lemma tags_nd_filter_suffix k lo l :
  tags_nd lo l ->
  exists l1, l = l1 ++ filter (fun r => (k <=? fst r)%nat) l /\
             Forall (fun r => (fst r < k)%nat) l1.
Proof.
  revert lo; induction l as [|r t IH]; intros lo H.
  - exists []. split; [reflexivity|constructor].
  - cbn [tags_nd] in H. destruct H as (H1 & H2).
    destruct (Nat.leb_spec k (fst r)) as [Hk|Hk].
    + exists []. split; [|constructor]. cbn [app]. symmetry. apply filter_all_true.
      intros x [<-|Hx]; [apply Nat.leb_le; exact Hk|].
      pose proof (tags_nd_ge _ _ _ H2 Hx). apply Nat.leb_le. lia.
    + destruct (IH _ H2) as (l1 & E & Hf). exists (r :: l1). split.
      * cbn [filter]. destruct (Nat.leb_spec k (fst r)) as [Hc|_]; [lia|].
        cbn [app]. f_equal. exact E.
      * constructor; assumption.
Qed.

(* per queue: tags sorted and below the current index, positions below next *)
Definition wfq (i : nat) (v : option tqueue) : Prop :=
  match v with
  | Some (rf, n) =>
      tags_nd 0 rf /\ Forall (fun r => (fst r < i)%nat) rf /\ Forall (fun r => fst (snd r) < n) rf
  | None => True
  end.

Definition wf_tmap (i : nat) (m : tmap) : Prop := forall q, wfq i (t_get m q).

Lemma wfq_mono i j v : (i <= j)%nat -> wfq i v -> wfq j v.
Proof.
  intros Hij. destruct v as [[rf n]|]; [|trivial]. cbn [wfq]. intros (H1 & H2 & H3).
  split; [exact H1|]. split; [|exact H3]. eapply Forall_impl; [|exact H2]. cbn beta. intros a Ha. lia.
Qed.

Lemma Forall_filter {A} (P : A -> Prop) f l : Forall P l -> Forall P (filter f l).
Proof.
  induction l as [|x t IH]; intros H; cbn [filter]; [constructor|].
  inversion H; subst. destruct (f x); [constructor|]; auto.
Qed.

Lemma q_apply_wf i v e v' : wfq i v -> q_apply v i e = Some v' -> wfq (S i) v'.
Proof.
  intros Hw H. destruct e as [q pos recs|q p|q p|q p]; cbn [q_apply] in H.
  - (* EAppend *)
    assert (Hw0 : wfq i (Some (match v with Some v0 => v0 | None => ([], pos) end))).
    { destruct v as [v0|]; [exact Hw|]. cbn [wfq tags_nd]. repeat split; constructor. }
    destruct (match v with Some v0 => v0 | None => ([], pos) end) as [old next].
    rewrite t_append_all_eq in H. destruct (chk_pos next recs) as [n|] eqn:Ec; [|discriminate].
    inversion H; subst v'. cbn [wfq] in *. destruct Hw0 as (H1 & H2 & H3).
    destruct (chk_pos_bound _ _ _ Ec) as (Hn & Hb). split; [|split].
    + apply tags_nd_app_tag; [exact H1| |lia].
      eapply Forall_impl; [|exact H2]. cbn beta. intros a Ha. lia.
    + apply Forall_app. split.
      * eapply Forall_impl; [|exact H2]. cbn beta. intros a Ha. lia.
      * unfold tag_with. apply Forall_map. apply Forall_forall. intros a _. cbn [fst]. lia.
    + apply Forall_app. split.
      * eapply Forall_impl; [|exact H3]. cbn beta. intros a Ha. lia.
      * unfold tag_with. apply Forall_map. eapply Forall_impl; [|exact Hb].
        cbn beta. intros a Ha. cbn [snd]. lia.
  - (* ETruncate *)
    destruct v as [[rf n]|]; inversion H; subst v'; [|exact I].
    cbn [wfq] in Hw. destruct Hw as (H1 & H2 & H3). unfold t_truncate. cbn [wfq].
    split; [now apply tags_nd_filter|]. split.
    + apply Forall_filter. eapply Forall_impl; [|exact H2]. cbn beta. intros a Ha. lia.
    + apply Forall_filter. eapply Forall_impl; [|exact H3]. cbn beta. intros a Ha.
      destruct (isnil _ && (n <=? p + 1)) eqn:Eb; lia.
  - (* EPosition *)
    assert (Hnil : wfq (S i) (Some ([], p))).
    { cbn [wfq tags_nd]. repeat split; constructor. }
    destruct v as [[rf n]|]; [|inversion H; subst; exact Hnil].
    destruct (negb (isnil rf) || negb (n =? p)); inversion H; subst; [exact Hnil|].
    eapply wfq_mono; [|exact Hw]. lia.
  - inversion H; subst. exact I.
Qed.

Lemma t_apply_wf i m e m' : wf_tmap i m -> t_apply m i e = Some m' -> wf_tmap (S i) m'.
Proof.
  intros Hw H q. destruct (t_apply_some _ _ _ _ H) as (H1 & H2).
  destruct (bytes_eqb (entry_queue e) q) eqn:E.
  - apply bytes_eqb_eq in E. subst q. eapply q_apply_wf; [apply Hw|exact H1].
  - apply bytes_eqb_neq in E. rewrite (H2 q E). eapply wfq_mono; [|apply Hw]. lia.
Qed.

Lemma t_replay_wf : forall es i m m',
  wf_tmap i m -> t_replay m i es = Some m' -> wf_tmap (i + length es) m'.
Proof.
  induction es as [|e r IH]; intros i m m' Hw H; cbn [t_replay length] in *.
  - inversion H; subst. now rewrite Nat.add_0_r.
  - destruct (t_apply m i e) as [m1|] eqn:E; [|discriminate].
    replace (i + S (length r))%nat with (S i + length r)%nat by lia.
    eapply IH; [|exact H]. eapply t_apply_wf; eauto.
Qed.

Lemma wf_tmap_nil i : wf_tmap i [].
Proof. intros q. exact I. Qed.

Lemma t_replay_app : forall a b m i,
  t_replay m i (a ++ b) =
  match t_replay m i a with
  | Some m' => t_replay m' (i + length a) b
  | None => None
  end.
Proof.
  induction a as [|e r IH]; intros b m i; cbn [app t_replay length].
  - now rewrite Nat.add_0_r.
  - destruct (t_apply m i e) as [m1|]; [|reflexivity]. rewrite IH.
    replace (S i + length r)%nat with (i + S (length r))%nat by lia. reflexivity.
Qed.

(* ====================================================================== *)
(* 5. legal logs                                                          *)
(* ====================================================================== *)

(* what the live system writes, relative to the (full) state the entry is applied to *)
Definition legal (m : tmap) (e : entry) : Prop :=
  match e with
  | EAppend q pos recs =>
      exists old next, t_get m q = Some (old, next) /\ next <= pos /\ recs <> [] /\
                       (exists payloads, recs = number_from pos payloads)
  | ETruncate q p => t_get m q <> None
  | EPosition q p =>
      (t_get m q = None /\ p = 0) \/ (exists next, t_get m q = Some ([], next) /\ p = next)
  | EDelete q _ => t_get m q <> None
  end.

(* the same, on the queue the entry names *)
Definition legal_q (v : option tqueue) (e : entry) : Prop :=
  match e with
  | EAppend _ pos recs =>
      exists old next, v = Some (old, next) /\ next <= pos /\ recs <> [] /\
                       (exists payloads, recs = number_from pos payloads)
  | ETruncate _ p => v <> None
  | EPosition _ p => (v = None /\ p = 0) \/ (exists next, v = Some ([], next) /\ p = next)
  | EDelete _ _ => v <> None
  end.

Lemma legal_legal_q m e : legal m e <-> legal_q (t_get m (entry_queue e)) e.
Proof. destruct e; reflexivity. Qed.

(* every entry is legal with respect to the state reached so far *)
Inductive legal_log : tmap -> nat -> list entry -> Prop :=
| ll_nil m i : legal_log m i []
| ll_cons m i e es :
    legal m e ->
    (forall m', t_apply m i e = Some m' -> legal_log m' (S i) es) ->
    legal_log m i (e :: es).

Lemma number_from_nonnil pos payloads : number_from pos payloads <> [] -> payloads <> [].
Proof. destruct payloads; [cbn; congruence|discriminate]. Qed.

Lemma legal_q_apply_some v i e : legal_q v e -> exists v', q_apply v i e = Some v'.
Proof.
  destruct e as [q pos recs|q p|q p|q p]; cbn [legal_q q_apply]; intros H.
  - destruct H as (old & next & -> & Hle & Hne & payloads & ->).
    rewrite t_append_all_eq, (chk_pos_number_from payloads pos next Hle).
    + eexists; reflexivity.
    + eapply number_from_nonnil; exact Hne.
  - destruct v as [[rf n]|]; eexists; reflexivity.
  - destruct v as [[rf n]|]; [|eexists; reflexivity].
    destruct (negb (isnil rf) || negb (n =? p)); eexists; reflexivity.
  - eexists; reflexivity.
Qed.

Lemma legal_apply_some m i e : legal m e -> exists m', t_apply m i e = Some m'.
Proof.
  intros H. apply legal_legal_q in H. destruct (legal_q_apply_some _ i _ H) as (v' & Hv).
  destruct (q_apply_some_t_apply _ _ _ _ Hv) as (m' & Hm & _). exists m'. exact Hm.
Qed.

Lemma legal_log_cons_inv m i e es :
  legal_log m i (e :: es) ->
  legal m e /\ exists m', t_apply m i e = Some m' /\ legal_log m' (S i) es.
Proof.
  intros H. inversion H as [|? ? ? ? Hl Hr]; subst. split; [exact Hl|].
  destruct (legal_apply_some m i e Hl) as (m' & Hm). exists m'. split; [exact Hm|].
  apply Hr. exact Hm.
Qed.

(* replay never fails on a legal log *)
Theorem legal_log_replay_some : forall es m i,
  legal_log m i es -> exists m', t_replay m i es = Some m'.
Proof.
  induction es as [|e r IH]; intros m i H; cbn [t_replay].
  - eexists; reflexivity.
  - destruct (legal_log_cons_inv _ _ _ _ H) as (_ & m1 & -> & Hr). apply IH. exact Hr.
Qed.

Lemma legal_log_app : forall a b m i,
  legal_log m i (a ++ b) ->
  exists m', t_replay m i a = Some m' /\ legal_log m' (i + length a) b.
Proof.
  induction a as [|e r IH]; intros b m i H; cbn [app t_replay length] in *.
  - exists m. split; [reflexivity|]. now rewrite Nat.add_0_r.
  - destruct (legal_log_cons_inv _ _ _ _ H) as (_ & m1 & -> & Hr).
    destruct (IH _ _ _ Hr) as (m' & Hm & Hl). exists m'. split; [exact Hm|].
    replace (i + S (length r))%nat with (S i + length r)%nat by lia. exact Hl.
Qed.

(* ====================================================================== *)
(* 6. the simulation: full replay vs replay of a suffix                   *)
(* ====================================================================== *)

Definition from_suffix (k : nat) (r : trec) : bool := (k <=? fst r)%nat.

(* F's view of a queue against S's view, k = index of the first entry of the suffix *)
Definition sim_q (k : nat) (fq sq : option tqueue) : Prop :=
  match sq with
  | None => forall rf n, fq = Some (rf, n) -> filter (from_suffix k) rf = []
  | Some (rs, ns) => exists rf, fq = Some (rf, ns) /\ rs = filter (from_suffix k) rf
  end.

Definition sim (k : nat) (F S : tmap) : Prop := forall q, sim_q k (t_get F q) (t_get S q).

Lemma filter_comm {A} (f g : A -> bool) l : filter f (filter g l) = filter g (filter f l).
Proof.
  induction l as [|x t IH]; cbn [filter]; [reflexivity|].
  destruct (f x) eqn:Ef, (g x) eqn:Eg; cbn [filter]; rewrite ?Ef, ?Eg, IH; reflexivity.
Qed.

Lemma filter_from_suffix_tag_with k i new :
  (k <= i)%nat -> filter (from_suffix k) (tag_with i new) = tag_with i new.
Proof.
  intros H. apply filter_all_true. intros x Hx. unfold tag_with in Hx.
  apply in_map_iff in Hx. destruct Hx as (a & <- & _). unfold from_suffix. cbn [fst].
  apply Nat.leb_le. exact H.
Qed.

Lemma filter_pos_nil (p n : N) (rf : list trec) :
  Forall (fun r => fst (snd r) < n) rf -> n <= p + 1 ->
  filter (fun r => p <? fst (snd r)) rf = [].
Proof.
  intros Hf Hn. apply filter_all_false. intros x Hx.
  rewrite Forall_forall in Hf. specialize (Hf x Hx). cbn beta in Hf. lia.
Qed.

Lemma sim_q_step k i fq sq e fq' :
  sim_q k fq sq -> wfq i fq -> legal_q fq e -> (k <= i)%nat ->
  q_apply fq i e = Some fq' ->
  exists sq', q_apply sq i e = Some sq' /\ sim_q k fq' sq'.
Proof.
  intros Hs Hw Hl Hk Hf. destruct e as [q pos recs|q p|q p|q p]; cbn [legal_q q_apply] in *.
  - (* EAppend *)
    destruct Hl as (old & next & -> & Hle & Hne & payloads & ->).
    apply number_from_nonnil in Hne.
    rewrite t_append_all_eq, (chk_pos_number_from payloads pos next Hle Hne) in Hf.
    inversion Hf; subst fq'. clear Hf.
    destruct sq as [[rs ns]|]; cbn [sim_q] in Hs.
    + destruct Hs as (rf & E & ->). inversion E; subst rf ns.
      rewrite t_append_all_eq, (chk_pos_number_from payloads pos next Hle Hne).
      eexists. split; [reflexivity|]. cbn [sim_q]. eexists. split; [reflexivity|].
      rewrite filter_app, filter_from_suffix_tag_with by exact Hk. reflexivity.
    + rewrite t_append_all_eq, (chk_pos_number_from payloads pos pos (N.le_refl _) Hne).
      eexists. split; [reflexivity|]. cbn [sim_q]. eexists. split; [reflexivity|].
      rewrite filter_app, filter_from_suffix_tag_with by exact Hk.
      rewrite (Hs old next eq_refl). reflexivity.
  - (* ETruncate *)
    destruct fq as [[rf n]|]; [|congruence]. inversion Hf; subst fq'. clear Hf Hl.
    cbn [wfq] in Hw. destruct Hw as (_ & _ & Hpos).
    destruct sq as [[rs ns]|]; cbn [sim_q] in Hs.
    + destruct Hs as (rf' & E & ->). inversion E; subst rf' ns.
      eexists. split; [reflexivity|]. unfold t_truncate. cbn [sim_q].
      exists (filter (fun r => p <? fst (snd r)) rf). split.
      * f_equal. f_equal. destruct (N.leb_spec n (p + 1)) as [Hn|Hn].
        -- rewrite (filter_pos_nil p n rf Hpos Hn).
           rewrite (filter_pos_nil p n (filter (from_suffix k) rf)); [reflexivity| |exact Hn].
           now apply Forall_filter.
        -- rewrite !andb_false_r. reflexivity.
      * apply filter_comm.
    + eexists. split; [reflexivity|]. cbn [sim_q]. intros rf' n' E. unfold t_truncate in E.
      inversion E; subst rf' n'. rewrite filter_comm, (Hs rf n eq_refl). reflexivity.
  - (* EPosition *)
    destruct Hl as [(-> & ->)|(next & -> & ->)].
    + inversion Hf; subst fq'. clear Hf.
      destruct sq as [[rs ns]|]; cbn [sim_q] in Hs.
      * destruct Hs as (rf & E & _). discriminate.
      * eexists. split; [reflexivity|]. cbn [sim_q]. exists []. split; reflexivity.
    + cbn [isnil negb orb] in Hf. rewrite N.eqb_refl in Hf. cbn [negb] in Hf.
      inversion Hf; subst fq'. clear Hf.
      destruct sq as [[rs ns]|]; cbn [sim_q] in Hs.
      * destruct Hs as (rf & E & ->). inversion E; subst rf ns.
        cbn [filter isnil negb orb]. rewrite N.eqb_refl. cbn [negb].
        eexists. split; [reflexivity|]. cbn [sim_q]. exists []. split; reflexivity.
      * eexists. split; [reflexivity|]. cbn [sim_q]. exists []. split; reflexivity.
  - (* EDelete *)
    inversion Hf; subst fq'. eexists. split; [reflexivity|]. cbn [sim_q]. discriminate.
Qed.

Lemma sim_step k i F S e F' :
  sim k F S -> wf_tmap i F -> legal F e -> (k <= i)%nat ->
  t_apply F i e = Some F' ->
  exists S', t_apply S i e = Some S' /\ sim k F' S'.
Proof.
  intros Hs Hw Hl Hk Hf. apply legal_legal_q in Hl.
  destruct (t_apply_some _ _ _ _ Hf) as (Hf1 & Hf2).
  destruct (sim_q_step k i _ _ e _ (Hs (entry_queue e)) (Hw (entry_queue e)) Hl Hk Hf1)
    as (sq' & Hq & Hsq).
  destruct (q_apply_some_t_apply _ _ _ _ Hq) as (S' & HS & HS1 & HS2).
  exists S'. split; [exact HS|]. intros q.
  destruct (bytes_eqb (entry_queue e) q) eqn:E.
  - apply bytes_eqb_eq in E. subst q. rewrite HS1. exact Hsq.
  - apply bytes_eqb_neq in E. rewrite (Hf2 q E), (HS2 q E). apply Hs.
Qed.

Lemma sim_lockstep k : forall suf i F S,
  sim k F S -> wf_tmap i F -> (k <= i)%nat -> legal_log F i suf ->
  exists F' S', t_replay F i suf = Some F' /\ t_replay S i suf = Some S' /\ sim k F' S'.
Proof.
  induction suf as [|e r IH]; intros i F S Hs Hw Hk Hl; cbn [t_replay].
  - exists F, S. repeat split; try reflexivity. exact Hs.
  - destruct (legal_log_cons_inv _ _ _ _ Hl) as (Hle & F1 & HF1 & Hr).
    destruct (sim_step k i F S e F1 Hs Hw Hle Hk HF1) as (S1 & HS1 & Hs1).
    rewrite HF1, HS1. apply IH; [exact Hs1| |lia|exact Hr].
    eapply t_apply_wf; eauto.
Qed.

Lemma sim_init k F : wf_tmap k F -> sim k F [].
Proof.
  intros Hw q. cbn [t_get sim_q]. intros rf n E. specialize (Hw q). rewrite E in Hw.
  cbn [wfq] in Hw. destruct Hw as (_ & Ht & _). apply filter_all_false. intros x Hx.
  rewrite Forall_forall in Ht. specialize (Ht x Hx). cbn beta in Ht.
  unfold from_suffix. apply Nat.leb_gt. exact Ht.
Qed.

Section Suffix.
Variables (pre suf : list entry) (F : tmap).
Hypothesis Hlegal : legal_log [] 0 (pre ++ suf).
Hypothesis HF : t_replay [] 0 (pre ++ suf) = Some F.

Lemma suffix_split0 :
  exists F0, t_replay [] 0 pre = Some F0 /\ wf_tmap (length pre) F0 /\
             legal_log F0 (length pre) suf.
Proof.
  destruct (legal_log_app _ _ _ _ Hlegal) as (F0 & H0 & Hl). cbn [Nat.add] in Hl.
  exists F0. split; [exact H0|]. split; [|exact Hl].
  apply (t_replay_wf pre 0 [] F0 (wf_tmap_nil 0) H0).
Qed.

(* the suffix alone, replayed from nothing with the same tags, does not fail *)
Theorem suffix_replay_some : exists S, t_replay [] (length pre) suf = Some S.
Proof.
  destruct suffix_split0 as (F0 & H0 & Hw & Hl).
  destruct (sim_lockstep (length pre) suf (length pre) F0 [] (sim_init _ _ Hw) Hw (le_n _) Hl)
    as (F' & S' & _ & HS & _).
  exists S'. exact HS.
Qed.

Lemma suffix_split :
  exists F0, t_replay [] 0 pre = Some F0 /\ wf_tmap (length pre) F0 /\
             legal_log F0 (length pre) suf /\ t_replay F0 (length pre) suf = Some F.
Proof.
  destruct suffix_split0 as (F0 & H0 & Hw & Hl).
  exists F0. split; [exact H0|]. split; [exact Hw|]. split; [exact Hl|].
  pose proof HF as H. rewrite t_replay_app, H0 in H. exact H.
Qed.

Variable S : tmap.
Hypothesis HS : t_replay [] (length pre) suf = Some S.

(* strong form: a queue unknown to the suffix replay has, in the full state, no record
   appended by the suffix *)
Theorem suffix_simulation_strong : sim (length pre) F S.
Proof.
  destruct suffix_split as (F0 & H0 & Hw & Hl & HF0).
  destruct (sim_lockstep (length pre) suf (length pre) F0 [] (sim_init _ _ Hw) Hw (le_n _) Hl)
    as (F' & S' & HF' & HS' & Hsim).
  rewrite HF0 in HF'. rewrite HS in HS'. inversion HF'; inversion HS'; subst. exact Hsim.
Qed.

Theorem suffix_simulation : forall q,
  t_get S q = None \/
  exists rf n, t_get F q = Some (rf, n) /\
               t_get S q = Some (filter (fun r => length pre <=? fst r)%nat rf, n).
Proof.
  intros q. pose proof (suffix_simulation_strong q) as H.
  destruct (t_get S q) as [[rs ns]|]; [|now left]. right. cbn [sim_q] in H.
  destruct H as (rf & E & ->). exists rf, ns. split; [exact E|reflexivity].
Qed.

(* the full state is well formed: tags sorted and below the log length *)
Lemma full_wf : wf_tmap (length (pre ++ suf)) F.
Proof. apply (t_replay_wf (pre ++ suf) 0 [] F (wf_tmap_nil 0) HF). Qed.

(* hence the records the suffix replay holds are a list-suffix of the full queue *)
Corollary suffix_simulation_list_suffix : forall q rs n,
  t_get S q = Some (rs, n) ->
  exists dropped, t_get F q = Some (dropped ++ rs, n) /\
                  Forall (fun r => (fst r < length pre)%nat) dropped /\
                  Forall (fun r => (length pre <= fst r)%nat) rs.
Proof.
  intros q rs n E. pose proof (suffix_simulation_strong q) as H. rewrite E in H.
  cbn [sim_q] in H. destruct H as (rf & EF & ->).
  pose proof (full_wf q) as Hw. rewrite EF in Hw. cbn [wfq] in Hw. destruct Hw as (Hnd & _ & _).
  destruct (tags_nd_filter_suffix (length pre) 0 rf Hnd) as (l1 & El & Hl1).
  exists l1. split; [|split; [exact Hl1|]].
  - rewrite EF. f_equal. f_equal. exact El.
  - apply Forall_forall. intros x Hx. apply filter_In in Hx. destruct Hx as (_ & Hx).
    unfold from_suffix in Hx. apply Nat.leb_le in Hx. exact Hx.
Qed.
End Suffix.

(* ====================================================================== *)
(* 7. coverage implies equality                                           *)
(* ====================================================================== *)

(* entries that (re)create the queue they name when replayed *)
Definition creates (e : entry) (q : bytes) : bool :=
  match e with
  | EAppend q' _ _ | EPosition q' _ => bytes_eqb q' q
  | ETruncate _ _ | EDelete _ _ => false
  end.

Definition is_delete (e : entry) : bool := match e with EDelete _ _ => true | _ => false end.

Lemma creates_queue e q : creates e q = true -> entry_queue e = q.
Proof. destruct e; cbn [creates entry_queue]; intros H; try discriminate; now apply bytes_eqb_eq. Qed.

Lemma creates_self_false e : creates e (entry_queue e) = false -> e = e /\
  match e with EAppend _ _ _ | EPosition _ _ => False | _ => True end.
Proof.
  destruct e; cbn [creates entry_queue]; rewrite ?bytes_eqb_refl; intros H;
    try discriminate; split; trivial.
Qed.

Lemma q_apply_creates v i e v' :
  q_apply v i e = Some v' -> creates e (entry_queue e) = true -> v' <> None.
Proof.
  destruct e as [q pos recs|q p|q p|q p]; cbn [q_apply creates]; intros H Hc; try discriminate.
  - destruct (match v with Some v0 => v0 | None => ([], pos) end) as [old next].
    destruct (t_append_all old next i recs); inversion H; subst. discriminate.
  - destruct v as [[rf n]|]; [|inversion H; subst; discriminate].
    destruct (negb (isnil rf) || negb (n =? p)); inversion H; subst; discriminate.
Qed.

Lemma q_apply_none_stays i e v' :
  q_apply None i e = Some v' -> creates e (entry_queue e) = false -> v' = None.
Proof.
  intros H Hc. destruct (creates_self_false e Hc) as (_ & Hk).
  destruct e; try destruct Hk; cbn [q_apply] in H; inversion H; reflexivity.
Qed.

Lemma q_apply_has_stays v i e v' :
  q_apply v i e = Some v' -> v <> None -> is_delete e = false -> v' <> None.
Proof.
  destruct e as [q pos recs|q p|q p|q p]; cbn [q_apply is_delete]; intros H Hv Hd;
    try discriminate.
  - destruct (match v with Some v0 => v0 | None => ([], pos) end) as [old next].
    destruct (t_append_all old next i recs); inversion H; subst. discriminate.
  - destruct v as [[rf n]|]; [|congruence]. inversion H; subst. discriminate.
  - destruct v as [[rf n]|]; [|congruence].
    destruct (negb (isnil rf) || negb (n =? p)); inversion H; subst; discriminate.
Qed.

Lemma q_apply_delete v i e v' : q_apply v i e = Some v' -> is_delete e = true -> v' = None.
Proof. destruct e; cbn [q_apply is_delete]; intros H Hd; try discriminate. now inversion H. Qed.

(* a queue absent before and present after was created in between *)
Lemma created_in q : forall suf i F F',
  t_replay F i suf = Some F' -> t_get F q = None -> t_get F' q <> None ->
  existsb (fun e => creates e q) suf = true.
Proof.
  induction suf as [|e r IH]; intros i F F' H Hn Hh; cbn [t_replay existsb] in *.
  - inversion H; subst. congruence.
  - destruct (creates e q) eqn:Ec; [reflexivity|]. cbn [orb].
    destruct (t_apply F i e) as [F1|] eqn:E1; [|discriminate].
    destruct (t_apply_some _ _ _ _ E1) as (H1 & H2).
    eapply IH; [exact H| |exact Hh].
    destruct (bytes_eqb (entry_queue e) q) eqn:E.
    + apply bytes_eqb_eq in E. subst q. rewrite Hn in H1.
      eapply q_apply_none_stays; [exact H1|exact Ec].
    + apply bytes_eqb_neq in E. rewrite (H2 q E). exact Hn.
Qed.

(* if the full replay ends with q, and the suffix creates q (or started with it), the suffix
   replay ends with q as well *)
Lemma has_after q : forall suf i F S F' S',
  t_replay F i suf = Some F' -> t_replay S i suf = Some S' ->
  t_get F' q <> None ->
  existsb (fun e => creates e q) suf = true \/ t_get S q <> None ->
  t_get S' q <> None.
Proof.
  induction suf as [|e r IH]; intros i F S F' S' HF HS Hh Hc; cbn [t_replay existsb] in *.
  - inversion HS; subst. destruct Hc as [Hc|Hc]; [discriminate|exact Hc].
  - destruct (t_apply F i e) as [F1|] eqn:EF; [|discriminate].
    destruct (t_apply S i e) as [S1|] eqn:ES; [|discriminate].
    destruct (t_apply_some _ _ _ _ EF) as (HF1 & HF2).
    destruct (t_apply_some _ _ _ _ ES) as (HS1 & HS2).
    eapply IH; [exact HF|exact HS|exact Hh|].
    destruct (creates e q) eqn:Ec.
    { right. pose proof (creates_queue _ _ Ec) as Eq. subst q.
      eapply q_apply_creates; [exact HS1|exact Ec]. }
    cbn [orb] in Hc. destruct Hc as [Hc|Hc]; [now left|].
    destruct (bytes_eqb (entry_queue e) q) eqn:E.
    + apply bytes_eqb_eq in E. subst q. destruct (is_delete e) eqn:Ed.
      * left. eapply created_in; [exact HF| |exact Hh].
        eapply q_apply_delete; [exact HF1|exact Ed].
      * right. eapply q_apply_has_stays; [exact HS1|exact Hc|exact Ed].
    + apply bytes_eqb_neq in E. right. rewrite (HS2 q E). exact Hc.
Qed.

Section Covered.
Variables (pre suf : list entry) (F S : tmap).
Hypothesis Hlegal : legal_log [] 0 (pre ++ suf).
Hypothesis HF : t_replay [] 0 (pre ++ suf) = Some F.
Hypothesis HS : t_replay [] (length pre) suf = Some S.
(* every retained record was appended by the suffix; every empty queue is mentioned in it *)
Hypothesis Hcov : forall q rf n, t_get F q = Some (rf, n) ->
  Forall (fun r => (length pre <= fst r)%nat) rf /\
  (rf = [] -> existsb (fun e => creates e q) suf = true).

Theorem covered_suffix_equal_tagged : forall q, t_get S q = t_get F q.
Proof.
  intros q. pose proof (suffix_simulation_strong pre suf F Hlegal HF S HS q) as Hsim.
  destruct (t_get F q) as [[rf n]|] eqn:EF.
  - destruct (Hcov q rf n EF) as (Hall & Hnil).
    assert (Hfil : filter (from_suffix (length pre)) rf = rf).
    { apply filter_all_true. intros x Hx. rewrite Forall_forall in Hall.
      unfold from_suffix. apply Nat.leb_le. apply Hall. exact Hx. }
    assert (Hhas : t_get S q <> None).
    { destruct rf as [|r0 rf'].
      - destruct (suffix_split pre suf F Hlegal HF) as (F0 & _ & _ & _ & HF0).
        eapply (has_after q suf (length pre) F0 [] F S HF0 HS); [congruence|].
        left. now apply Hnil.
      - intros HN. rewrite HN in Hsim. cbn [sim_q] in Hsim.
        specialize (Hsim _ _ eq_refl). rewrite Hfil in Hsim. discriminate. }
    destruct (t_get S q) as [[rs ns]|]; [|congruence]. cbn [sim_q] in Hsim.
    destruct Hsim as (rf' & E & ->). inversion E; subst rf' ns. now rewrite Hfil.
  - destruct (t_get S q) as [[rs ns]|]; [|reflexivity]. cbn [sim_q] in Hsim.
    destruct Hsim as (rf' & E & _). discriminate.
Qed.

Theorem covered_suffix_equal : forall q, s_get (untag S) q = s_get (untag F) q.
Proof. intros q. now rewrite !untag_get, covered_suffix_equal_tagged. Qed.
End Covered.

(* ---------- the same statement for the model's queues ---------- *)

(* replaying the whole log with `apply_entry` and replaying only the suffix (possibly read
   from other files) give the same observable queues *)
Theorem model_covered_suffix_equal (fpre fsuf fsuf' : list (N * entry)) F :
  let pre := map snd fpre in
  let suf := map snd fsuf in
  map snd fsuf' = suf ->
  legal_log [] 0 (pre ++ suf) ->
  t_replay [] 0 (pre ++ suf) = Some F ->
  (forall q rf n, t_get F q = Some (rf, n) ->
     Forall (fun r => (length pre <= fst r)%nat) rf /\
     (rf = [] -> existsb (fun e => creates e q) suf = true)) ->
  exists qF qS,
    apply_entries [] (fpre ++ fsuf) = Some qF /\ apply_entries [] fsuf' = Some qS /\
    qs_inv qF /\ qs_inv qS /\ abs_qs qF = untag F /\
    forall q, s_get (abs_qs qS) q = s_get (abs_qs qF) q.
Proof.
  intros pre suf Hsuf Hl HF Hcov.
  destruct (suffix_replay_some pre suf Hl) as (S & HS).
  pose proof (apply_entries_refines (fpre ++ fsuf) [] 0 [] qs_inv_nil eq_refl) as H1.
  rewrite map_app in H1. fold pre suf in H1. rewrite HF in H1.
  destruct (apply_entries [] (fpre ++ fsuf)) as [qF|]; [|discriminate].
  destruct H1 as (tmF & EF & HuF & HiF). inversion EF; subst tmF.
  pose proof (apply_entries_refines fsuf' [] (length pre) [] qs_inv_nil eq_refl) as H2.
  rewrite Hsuf, HS in H2.
  destruct (apply_entries [] fsuf') as [qS|]; [|discriminate].
  destruct H2 as (tmS & ES & HuS & HiS). inversion ES; subst tmS.
  exists qF, qS. split; [reflexivity|]. split; [reflexivity|]. split; [exact HiF|].
  split; [exact HiS|]. split; [now symmetry|].
  intros q. rewrite <- HuS, <- HuF.
  apply (covered_suffix_equal pre suf F S Hl HF HS Hcov).
Qed.

(* ====================================================================== *)
(* 8. a concrete instance (the hypotheses are satisfiable)                *)
(* ====================================================================== *)

Definition qa : bytes := [x61].
Definition qb : bytes := [x62].
Definition ex_pre : list entry := [EPosition qa 0; EPosition qb 0; EAppend qb 0 (number_from 0 [[x09]])].
Definition ex_suf : list entry :=
  [EAppend qa 0 (number_from 0 [[x01]; [x02]]); ETruncate qa 0; EDelete qb 1;
   EAppend qa 5 (number_from 5 [[x03]]); EPosition qb 0].

Ltac legal_step :=
  apply ll_cons;
  [ first
      [ left; split; reflexivity
      | right; eexists; split; reflexivity
      | do 2 eexists; split; [reflexivity|]; split; [lia|]; split; [discriminate|];
        eexists; reflexivity
      | vm_compute; discriminate ]
  | let m' := fresh "m" in let H := fresh "H" in
    intros m' H; vm_compute in H; inversion H; subst m'; clear H ].

Example ex_legal : legal_log [] 0 (ex_pre ++ ex_suf).
Proof. unfold ex_pre, ex_suf. cbn [app]. repeat legal_step. apply ll_nil. Qed.

Example ex_equal :
  exists qF qS,
    apply_entries [] (map (pair 1) ex_pre ++ map (pair 2) ex_suf) = Some qF /\
    apply_entries [] (map (pair 7) ex_suf) = Some qS /\
    forall q, s_get (abs_qs qS) q = s_get (abs_qs qF) q.
Proof.
  assert (HF : exists F, t_replay [] 0 (ex_pre ++ ex_suf) = Some F) by (eexists; vm_compute; reflexivity).
  destruct HF as (F & HF).
  destruct (model_covered_suffix_equal (map (pair 1) ex_pre) (map (pair 2) ex_suf)
              (map (pair 7) ex_suf) F) as (qF & qS & H1 & H2 & _ & _ & _ & H3).
  - reflexivity.
  - exact ex_legal.
  - exact HF.
  - vm_compute in HF. inversion HF; subst F. clear HF. intros q rf n H.
    cbn [t_get] in H. destruct (bytes_eqb [x61] q) eqn:Ea.
    + apply bytes_eqb_eq in Ea. subst q. inversion H; subst. split.
      * repeat constructor.
      * discriminate.
    + destruct (bytes_eqb [x62] q) eqn:Eb; [|discriminate].
      apply bytes_eqb_eq in Eb. subst q. inversion H; subst. split; [constructor|].
      intros _. reflexivity.
  - exists qF, qS. auto.
Qed.

Print Assumptions apply_entry_refines.
Print Assumptions apply_entries_refines.
Print Assumptions legal_log_replay_some.
Print Assumptions suffix_replay_some.
Print Assumptions suffix_simulation_strong.
Print Assumptions suffix_simulation.
Print Assumptions suffix_simulation_list_suffix.
Print Assumptions covered_suffix_equal_tagged.
Print Assumptions covered_suffix_equal.
Print Assumptions model_covered_suffix_equal.
Print Assumptions ex_equal.
