(* VacCrc.v — vacuity audit, finding F1: the REPAIRED hypothesis (payload length bounded by the
   block size: now TornProofs.no_zero_collision itself) is satisfiable for some checksum function
   (NzcVacuous.nzc_bounded_sat) but it is FALSE FOR THE PRODUCTION CHECKSUM Crc.crc32 as soon as
   a frame can carry 8 payload bytes (BS >= 15): the CRC being affine, any payload ending in
      T8 = d ++ le32 (crc32_update 0 d)          (here d = 01 00 00 00)
   has the same CRC as the payload with these 8 bytes replaced by zeros.
   Hence every theorem that assumes no_zero_collision (bounded or not) is vacuous for
   P with crcf P = Crc.crc32, i.e. for the implementation as it is, and the property itself
   (C02: a crash recovers the state before or after the call) is FALSE in the model with the real
   CRC-32: crash_counterexample below exhibits a state under the global invariant, a well-formed
   append and a crash image (the write of the last frame cut after its 7 header bytes) on which
   `open` succeeds and returns a record that was never appended - with every other premise of
   C02_crash_atomic satisfied. *)
From Coq Require Import Lia ZArith ZifyN ZifyNat ZifyBool List.
From MRL Require Import Bytes BytesProofs Params Names Frame Record Mem Spec Rolling Log Driver Hist
  SpecRefine RecordProofs StreamProofs TornProofs ResyncProofs GhostLog RestartInv RestartWrite
  RestartFinal CrashAtomic NzcVacuous Crc VacBase VacCrash.
Import ListNotations.
Import CrashAtomic.CrashExample.

Arguments N.add : simpl never.
Arguments N.sub : simpl never.
Arguments N.mul : simpl never.
Arguments N.eqb : simpl never.
Arguments N.ltb : simpl never.
Arguments N.leb : simpl never.
Arguments N.div : simpl never.
Arguments N.modulo : simpl never.

Definition T8 : bytes :=
  Eval vm_compute in [x01; x00; x00; x00] ++ le_enc 4 (crc32_update 0 [x01; x00; x00; x00]).

Example T8_value : T8 = [x01; x00; x00; x00; x65; x67; xbc; xb8].
Proof. reflexivity. Qed.

(* for every frame type byte: same CRC as eight zero bytes *)
Lemma T8_collides : forall ty, crc32 ty T8 = crc32 ty (zerosN 8).
Proof. destruct ty; vm_compute; reflexivity. Qed.

Section RealCrc.
Variable P : params.
Hypothesis Hcrc32 : crcf P = crc32.

(* the 4th alternative of C02_torn_read is REAL for the production checksum *)
Hypothesis HB15 : 15 <= BS P.

(* the 4th alternative of C02_torn_read is REAL for the production checksum *)
Theorem crc32_zero_collision : crc_collision P.
Proof.
  exists x01, T8, 0. split; [change (lenN T8) with 8; lia|]. split; [reflexivity|]. split; [discriminate|].
  rewrite Hcrc32. symmetry. apply T8_collides.
Qed.

(* hence the (bounded) hypothesis no_zero_collision is FALSE for the production checksum, for every
   block size that lets a frame carry eight payload bytes *)
Theorem crc32_refutes_nzc : ~ no_zero_collision P.
Proof. intros H. exact (no_collision P H crc32_zero_collision). Qed.

Theorem crc32_refutes_nzc_bounded : ~ no_zero_collision P.
Proof. exact crc32_refutes_nzc. Qed.
End RealCrc.

(* ---------- the property itself fails in the model with the real CRC-32 ---------- *)
(* CrashExample: BS = 32, NB = 2, crcf = crc32; st_ex is reached from a fresh directory by a
   hist_ok history (VacCrash.hist_ok_ex) and satisfies Inv.  The call: append to qb one record
   whose payload ends with T8. *)
Definition o_adv : op := OAppend qb None [pay "x"%byte ++ T8].
Definition st_adv : state := Eval vm_compute in fst (step Pe st_ex o_adv false).
Definition out_adv : outcome := Eval vm_compute in snd (step Pe st_ex o_adv false).
Lemma step_adv : step Pe st_ex o_adv false = (st_adv, out_adv).
Proof. vm_compute. reflexivity. Qed.
Definition evs_adv : list event := Eval vm_compute in new_events st_ex st_adv.
Definition img_adv : fsT :=
  Eval vm_compute in fold_left apply_event (crash_events evs_adv 7 7) (c_fs (w_ctx (s_wr st_ex))).
Definition st_rec : state :=
  Eval vm_compute in match open Pe img_adv None (PAlways true) [] with OpenOk s => s | _ => st_dummy end.

Lemma op_wf_adv : op_wf_strict (s_qs st_ex) o_adv.
Proof. unfold o_adv. wf_tac. Qed.

Theorem crash_counterexample :
  (* all premises of C02_crash_atomic except no_zero_collision *)
  (exists G,
     Inv Pe st_ex G /\ w_pending (s_wr st_ex) = [] /\ s_pol st_ex = PAlways true /\
     op_wf_strict (s_qs st_ex) o_adv /\
     RestartWrite.stream_bound Pe G (map snd (step_log Pe st_ex o_adv)) /\
     crash_bound Pe G (map snd (step_log Pe st_ex o_adv)) (abs_qs (s_qs st_ex)) /\
     crash_bound Pe G (map snd (step_log Pe st_ex o_adv)) (abs_qs (s_qs st_adv)) /\
     step Pe st_ex o_adv false = (st_adv, out_adv) /\ (forall e, out_adv <> OutIo e)) /\
  (* the trace of the call *)
  c_ev (w_ctx (s_wr st_adv)) = rev evs_adv ++ c_ev (w_ctx (s_wr st_ex)) /\
  (* the crash image: event 7 (the write of the last frame) cut after 7 bytes *)
  img_adv = fold_left apply_event (crash_events evs_adv 7 7) (c_fs (w_ctx (s_wr st_ex))) /\
  open Pe img_adv None (PAlways true) [] = OpenOk st_rec /\
  (* the recovered state is neither the state before nor the state after the call: *)
  s_get (abs_qs (s_qs st_ex)) qb = Some ([], 0) /\
  s_get (abs_qs (s_qs st_adv)) qb = Some ([(0, pay "x"%byte ++ T8)], 1) /\
  s_get (abs_qs (s_qs st_rec)) qb = Some ([(0, pay "x"%byte ++ zerosN 8)], 1).
Proof.
  split.
  { destruct VacCrash.inv_ex as (G & HI & _). exists G.
    assert (Hb1 : crash_phys_bound Pe (s_wr st_ex) (map snd (step_log Pe st_ex o_adv)) (abs_qs (s_qs st_ex))).
    { apply (crash_phys_bound_by Pe Pe_BS_lo Pe_BS_hi Pe_NB Pe_crc 64); [vm_compute; reflexivity|le_tac]. }
    assert (Hb2 : crash_phys_bound Pe (s_wr st_ex) (map snd (step_log Pe st_ex o_adv)) (abs_qs (s_qs st_adv))).
    { apply (crash_phys_bound_by Pe Pe_BS_lo Pe_BS_hi Pe_NB Pe_crc 64); [vm_compute; reflexivity|le_tac]. }
    pose proof (crash_phys_bound_ghost Pe Pe_BS_lo Pe_BS_hi Pe_NB Pe_crc _ G _ _ (proj1 HI) Hb1) as Hc1.
    pose proof (crash_phys_bound_ghost Pe Pe_BS_lo Pe_BS_hi Pe_NB Pe_crc _ G _ _ (proj1 HI) Hb2) as Hc2.
    split; [exact HI|]. split; [reflexivity|]. split; [reflexivity|]. split; [exact op_wf_adv|].
    split; [exact (crash_bound_stream_bound Pe Pe_BS_lo Pe_BS_hi Pe_NB Pe_crc _ _ _ Hc1)|].
    split; [exact Hc1|]. split; [exact Hc2|]. split; [exact step_adv|]. intros e H; discriminate H. }
  split; [vm_compute; reflexivity|]. split; [reflexivity|]. split; [vm_compute; reflexivity|].
  split; [vm_compute; reflexivity|]. split; vm_compute; reflexivity.
Qed.

(* consequently the conclusion of C02_crash_atomic is false for this instance: no proof of it can
   exist for Pe without a contradictory hypothesis *)
Corollary C02_conclusion_false_for_crc32 :
  ~ (exists evs,
       c_ev (w_ctx (s_wr st_adv)) = rev evs ++ c_ev (w_ctx (s_wr st_ex)) /\
       forall cut k pol hint,
         let img := fold_left apply_event (crash_events evs cut k) (c_fs (w_ctx (s_wr st_ex))) in
         exists st_r, open Pe img None pol hint = OpenOk st_r /\
           ((forall q, s_get (abs_qs (s_qs st_r)) q = s_get (abs_qs (s_qs st_ex)) q) \/
            (forall q, s_get (abs_qs (s_qs st_r)) q = s_get (abs_qs (s_qs st_adv)) q))).
Proof.
  intros (evs & Hev & Hall).
  destruct crash_counterexample as (_ & Hev' & Himg & Hopen & Hb & Ha & Hr).
  assert (evs = evs_adv) as ->.
  { rewrite Hev' in Hev. apply app_inv_tail in Hev. apply (f_equal (@rev event)) in Hev.
    rewrite !rev_involutive in Hev. now symmetry. }
  specialize (Hall 7 7 (PAlways true) []). cbv zeta in Hall. rewrite <- Himg in Hall.
  destruct Hall as (st_r & Ho & [H|H]); rewrite Hopen in Ho; injection Ho as <-; specialize (H qb).
  - rewrite Hr, Hb in H. discriminate H.
  - rewrite Hr, Ha in H. injection H as H. discriminate H.
Qed.

(* ---------- the production configuration ---------- *)
(* the parameter premises of the theorems hold for the constants of the crate (Consts.v), with the
   real checksum; so do crc_collision and the negation of the (bounded) no_zero_collision *)
(* BLOCK_NUM_BYTES_c = 32768, NUM_BLOCKS_PER_FILE_c = 4096, RECORD_META_SIZE_c = 24 in Consts.v
   (which is not part of _CoqProject) *)
Definition P_prod : params := mkParams 32768 4096 crc32 24 false false false.

Theorem production_params :
  7 < BS P_prod /\ BS P_prod <= 65542 /\ 1 <= NB P_prod /\ (forall t p, crcf P_prod t p < 2 ^ 32) /\
  L_GC P_prod = false /\ L_IO P_prod = false /\ L_SHORT P_prod = false /\
  crc_collision P_prod /\ ~ no_zero_collision P_prod.
Proof.
  split; [reflexivity|]. split; [intros H; discriminate H|]. split; [intros H; discriminate H|].
  split; [exact Pe_crc|]. split; [reflexivity|]. split; [reflexivity|]. split; [reflexivity|].
  assert (HB : 15 <= BS P_prod) by (intros H; discriminate H).
  split; [exact (crc32_zero_collision P_prod eq_refl HB)|].
  exact (crc32_refutes_nzc P_prod eq_refl HB).
Qed.
