(* CrashRecovered.v — TASK T14, stage 2: a log recovered from a crash image is fully usable.
   crash_recovered_run     : every continuation history (calls and clean restarts) from the
                             recovered state runs without I/O error and refines the
                             specification started from the recovered abstract state;
   crash_recovered_restart : after any such continuation a clean restart is the identity on the
                             abstract state.
   Restrictions: see JRecover.v (no roll-over of the interrupted call, it ends before the last
   block of its file, no_zero_collision). *)
From Coq Require Import Lia ZArith ZifyN ZifyNat ZifyBool List Sorted.
From MRL Require Import Bytes BytesProofs Params Names NamesProofs Frame Record Mem Spec Rolling Log
  Driver Hist NoopProofs SpecRefine RecordProofs StreamProofs PolicyProofs GcProofs GhostLog ReplaySpec
  HandleProofs FileStream ResyncProofs QueueIso RestartInv RestartWrite RestartGc RestartStep
  OpenReplay RestartFinal TornProofs TornFile CrashTrace CrashAtomic
  JInv JGc JStep JunkStream JReopen JRecoverL JRecoverS JRecoverP JRecover.

Arguments N.add : simpl never.
Arguments N.sub : simpl never.
Arguments N.mul : simpl never.

Section Recovered.
Variable P : params.
Hypothesis HBS_lo : 7 < BS P.
Hypothesis HBS_hi : BS P <= 65542.
Hypothesis HNB : 1 <= NB P.
Hypothesis Hcrc : forall t p, crcf P t p < 2 ^ 32.
Hypothesis HGC : L_GC P = false.
Hypothesis HIO : L_IO P = false.
Hypothesis HSHORT : L_SHORT P = false.
Hypothesis Hnc : no_zero_collision P.

Local Notation B := (BS P).
Local Notation FB := (FILE_BYTES P).

(* the premises on the interrupted call *)
Definition crash_setting (st : state) (G : ghost) (a : bool) (o : op) (tick : bool)
    (st' : state) (out : outcome) : Prop :=
  Inv P st G /\ w_pending (s_wr st) = [] /\ s_pol st = PAlways a /\
  op_wf_strict (s_qs st) o /\
  stream_bound P G (map snd (step_log P st o)) /\
  crash_bound P G (map snd (step_log P st o)) (abs_qs (s_qs st)) /\
  crash_bound P G (map snd (step_log P st o)) (abs_qs (s_qs st')) /\
  step P st o tick = (st', out) /\ (forall e, out <> OutIo e) /\
  (* restrictions *)
  w_file (s_wr st') = w_file (s_wr st) /\
  w_off (s_wr st') + B <= FB.

Theorem crash_recovered_usable st G a o tick st' out :
  crash_setting st G a o tick st' out ->
  exists evs, c_ev (w_ctx (s_wr st')) = rev evs ++ c_ev (w_ctx (s_wr st)) /\
    forall cut k pol hint,
      let img := fold_left apply_event (crash_events evs cut k) (c_fs (w_ctx (s_wr st))) in
      exists st_r, open P img None pol hint = OpenOk st_r /\
        ((forall q, s_get (abs_qs (s_qs st_r)) q = s_get (abs_qs (s_qs st)) q) \/
         (forall q, s_get (abs_qs (s_qs st_r)) q = s_get (abs_qs (s_qs st')) q)) /\
        (* every continuation history runs, without I/O errors, as the specification does *)
        (forall h2, hist_ok P st_r h2 ->
           exists st2 outs2 m2 souts2,
             hrun P st_r h2 = Some (st2, outs2) /\ Forall no_io outs2 /\
             s_run (abs_qs (s_qs st_r)) (map sop_of (hcalls h2)) = (m2, souts2) /\
             (forall q, s_get m2 q = s_get (abs_qs (s_qs st2)) q) /\
             map out_logical outs2 = map Some souts2) /\
        (* and a clean restart after it is the identity on the abstract state *)
        (forall h2 st2 outs2, hrun P st_r h2 = Some (st2, outs2) -> hist_ok P st_r h2 ->
           restart_bound P st2 ->
           forall pol2 hint2, exists st3,
             restart P st2 pol2 hint2 = OpenOk st3 /\
             (forall q, s_get (abs_qs (s_qs st3)) q = s_get (abs_qs (s_qs st2)) q)).
Proof.
  intros (HI & Hp0 & Hpol & Hop & Hb & Hcb & Hcb' & Hstep & Hno & Hroll & Hblk).
  destruct (crash_recover_invJ P HBS_lo HBS_hi HNB Hcrc HGC HIO HSHORT Hnc st G a o tick st' out
              HI Hp0 Hpol Hop Hb Hcb Hcb' Hstep Hno Hroll Hblk) as (evs & Hev & Hall).
  exists evs. split; [exact Hev|]. intros cut k pol hint. cbn zeta.
  destruct (Hall cut k pol hint)
    as (PRE & OLD & opos & adm & cmax & rm & st_r & G_r & Hopen & Hpre & Hpc & _ & Hadm & HIr & Hroom &
        _ & _ & Habs).
  pose proof (pre_reads_of_cont P HBS_lo HBS_hi Hcrc PRE (map entry_ser OLD) opos adm cmax rm Hpc) as Hrd.
  exists st_r. split; [exact Hopen|]. split; [exact Habs|]. split.
  - intros h2 Hok2.
    destruct (hrunJ_inv P HBS_lo HBS_hi HNB Hcrc HGC HIO HSHORT PRE OLD opos adm cmax rm Hpre Hrd Hadm
                h2 st_r G_r HIr Hroom Hok2) as (st2 & outs2 & G2 & Hrun & _ & _ & _ & Hnoio & Hspec).
    destruct (Hspec (abs_qs (s_qs st_r)) (fun q => eq_refl)) as (m2 & souts2 & Hs & Hm & Hl).
    exists st2, outs2, m2, souts2. repeat split; assumption.
  - intros h2 st2 outs2 Hrun Hok2 Hrb pol2 hint2.
    exact (invJ_restart_identity P HBS_lo HBS_hi HNB Hcrc HGC HIO HSHORT PRE OLD opos adm cmax rm
             Hpre Hrd Hadm st_r G_r h2 st2 outs2 HIr Hroom Hrun Hok2 Hrb pol2 hint2).
Qed.

(* the restart-identity half, in the form asked for by the task *)
Corollary crash_recovered_restart st G a o tick st' out :
  crash_setting st G a o tick st' out ->
  exists evs, c_ev (w_ctx (s_wr st')) = rev evs ++ c_ev (w_ctx (s_wr st)) /\
    forall cut k pol hint st_r,
      open P (fold_left apply_event (crash_events evs cut k) (c_fs (w_ctx (s_wr st)))) None pol hint
        = OpenOk st_r ->
      forall h2 st2 outs2, hrun P st_r h2 = Some (st2, outs2) -> hist_ok P st_r h2 ->
        restart_bound P st2 ->
        forall pol2 hint2, exists st3,
          restart P st2 pol2 hint2 = OpenOk st3 /\
          (forall q, s_get (abs_qs (s_qs st3)) q = s_get (abs_qs (s_qs st2)) q).
Proof.
  intros Hset. destruct (crash_recovered_usable st G a o tick st' out Hset) as (evs & Hev & Hall).
  exists evs. split; [exact Hev|]. intros cut k pol hint st_r Hopen.
  destruct (Hall cut k pol hint) as (st_r' & Hopen' & _ & _ & Hres). cbn zeta in Hopen'.
  rewrite Hopen in Hopen'. injection Hopen' as <-. exact Hres.
Qed.

End Recovered.

Print Assumptions crash_recovered_usable.
Print Assumptions crash_recovered_restart.
