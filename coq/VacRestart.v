(* VacRestart.v — vacuity audit, part 1: the theorems of PropC01 / PropC04 / PropC18 whose premises
   are the global invariant Inv, hist_ok, restart_bound / reopen_bound, stream_bound.
   Every Example below applies the Prop theorem itself to concrete data: all premises are
   discharged, so the hypothesis set is satisfiable, and by a non-trivial witness (roll-overs,
   GC passes that unlink files, restarts, two queues). The instance is RestartFinal.Example:
   BS = 32, NB = 2, constant checksum, history h_ex (12 steps, 3 restarts). *)
From Coq Require Import Lia ZArith ZifyN ZifyNat ZifyBool List.
From MRL Require Import Bytes BytesProofs Params Names Frame Record Mem Spec Rolling Log Hist
  WriterProofs SpecRefine RecordProofs StreamProofs ResyncProofs GhostLog ReplaySpec QueueIso
  RestartInv RestartWrite RestartStep OpenReplay RestartFinal RestartCorollaries VacBase.
From MRL Require PropC01 PropC04 PropC18.
Import ListNotations.
Import RestartFinal.Example.

Arguments N.add : simpl never.
Arguments N.sub : simpl never.
Arguments N.mul : simpl never.
Arguments N.eqb : simpl never.
Arguments N.ltb : simpl never.
Arguments N.leb : simpl never.
Arguments N.div : simpl never.
Arguments N.modulo : simpl never.

Local Notation HPx := (Px_BS_lo) (only parsing).

(* ---------- the invariant holds at the end of h_ex, for some ghost state ---------- *)
Lemma inv_fresh_ex : Inv Px st0 gh_fresh.
Proof. exact (inv_fresh Px Px_BS_lo Px_BS_hi Px_NB PNothing st0 open_st0). Qed.

Lemma inv_ex : exists G, Inv Px st_ex G /\ gh_base G = 0.
Proof.
  destruct (hrun_inv Px Px_BS_lo Px_BS_hi Px_NB Px_crc eq_refl eq_refl h_ex st0 gh_fresh
              inv_fresh_ex hist_ok_ex) as (st' & outs & G & Er & HI & Eb & _).
  rewrite hrun_ex in Er. injection Er as <- <-. exists G. split; [exact HI|exact Eb].
Qed.

(* ====================================================================== *)
(* PropC01                                                                *)
(* ====================================================================== *)

(* C01_restart_identity: RestartFinal.Example.C01_ex is the lemma behind it applied to this
   instance; here the Prop theorem itself *)
Example C01_restart_identity_inst : forall pol hint, exists st',
  restart Px st_ex pol hint = OpenOk st' /\
  (forall q, s_get (abs_qs (s_qs st')) q = s_get (abs_qs (s_qs st_ex)) q) /\
  (forall q lo hi, log_range st' q lo hi = log_range st_ex q lo hi) /\
  (forall q, log_last_position st' q = log_last_position st_ex q) /\
  (forall q, log_last_record st' q = log_last_record st_ex q).
Proof.
  exact (PropC01.C01_restart_identity Px Px_BS_lo Px_BS_hi Px_NB Px_crc eq_refl eq_refl
           PNothing st0 h_ex st_ex outs_ex open_st0 hrun_ex hist_ok_ex restart_bound_ex).
Qed.

Example C01_history_spec_inst :
  exists st outs m souts,
    hrun Px st0 h_ex = Some (st, outs) /\
    s_run [] (map sop_of (hcalls h_ex)) = (m, souts) /\
    (forall q, s_get m q = s_get (abs_qs (s_qs st)) q) /\ map out_logical outs = map Some souts.
Proof.
  exact (PropC01.C01_history_spec Px Px_BS_lo Px_BS_hi Px_NB Px_crc eq_refl eq_refl
           PNothing st0 h_ex open_st0 hist_ok_ex).
Qed.

(* C01_inv_reopen: Inv + reopen_bound *)
Lemma C01_inv_reopen_premises_satisfiable :
  exists G, Inv Px st_ex G /\ reopen_bound Px st_ex G.
Proof.
  destruct inv_ex as (G & HI & _). exists G. split; [exact HI|].
  exact (restart_reopen_bound Px Px_BS_lo Px_BS_hi Px_NB Px_crc st_ex G HI restart_bound_ex).
Qed.

Example C01_inv_reopen_inst : forall pol hint, exists st',
  open Px (c_fs (drop_log st_ex)) None pol hint = OpenOk st' /\
  (forall q, s_get (abs_qs (s_qs st')) q = s_get (abs_qs (s_qs st_ex)) q) /\ s_pol st' = pol.
Proof.
  intros pol hint. destruct C01_inv_reopen_premises_satisfiable as (G & HI & Hb).
  destruct (PropC01.C01_inv_reopen Px Px_BS_lo Px_BS_hi Px_NB Px_crc eq_refl eq_refl st_ex G HI Hb
              pol hint) as (st' & G' & Ho & _ & Heq & _ & Hp & _).
  exists st'. auto.
Qed.

(* the next call: an append of three records to qa that rolls over into two new files *)
Definition o_next : op := OAppend qa None [pay "n"%byte; pay "m"%byte; pay "k"%byte].
Definition st_next : state := Eval vm_compute in fst (step Px st_ex o_next false).
Definition out_next : outcome := Eval vm_compute in snd (step Px st_ex o_next false).
Lemma step_next : step Px st_ex o_next false = (st_next, out_next).
Proof. vm_compute. reflexivity. Qed.

Example next_rolls_over :
  w_files (s_wr st_ex) = [4; 5; 6] /\ w_files (s_wr st_next) = [4; 5; 6; 7; 8] /\
  out_next = OutAppend (Some 9) 109.
Proof. vm_compute. repeat split; reflexivity. Qed.

Lemma op_wf_next : op_wf_strict (s_qs st_ex) o_next.
Proof. unfold o_next. wf_tac. Qed.

Lemma phys_bound_next : phys_bound Px (s_wr st_ex) (map snd (step_log Px st_ex o_next)).
Proof. bound_tac. Qed.

Lemma no_io_next : forall e, out_next <> OutIo e.
Proof. intros e H. discriminate H. Qed.

Lemma C01_step_premises_satisfiable :
  exists G, Inv Px st_ex G /\ op_wf_strict (s_qs st_ex) o_next /\
            RestartWrite.stream_bound Px G (map snd (step_log Px st_ex o_next)) /\
            step Px st_ex o_next false = (st_next, out_next) /\ (forall e, out_next <> OutIo e).
Proof.
  destruct inv_ex as (G & HI & _). exists G. split; [exact HI|]. split; [exact op_wf_next|].
  split; [|split; [exact step_next|exact no_io_next]].
  exact (phys_stream_bound Px Px_BS_lo Px_BS_hi Px_NB Px_crc _ _ _ (proj1 HI) phys_bound_next).
Qed.

Example C01_no_io_needed_inst : no_io (snd (step Px st_ex o_next false)).
Proof.
  destruct C01_step_premises_satisfiable as (G & HI & Hop & Hsb & _).
  exact (PropC01.C01_no_io_needed Px Px_BS_lo Px_BS_hi Px_NB Px_crc eq_refl st_ex G o_next false
           HI Hop Hsb).
Qed.

Example C01_inv_step_inst : exists G', Inv Px st_next G'.
Proof.
  destruct C01_step_premises_satisfiable as (G & HI & Hop & Hsb & Hs & Hno).
  destruct (PropC01.C01_inv_step Px Px_BS_lo Px_BS_hi Px_NB Px_crc eq_refl st_ex G o_next false
              st_next out_next HI Hop Hsb Hs Hno) as (G' & HI' & _).
  now exists G'.
Qed.

Example C01_inv_fresh_inst : Inv Px st0 gh_fresh.
Proof. exact (PropC01.C01_inv_fresh Px Px_BS_lo Px_BS_hi Px_NB PNothing st0 open_st0). Qed.

(* C01_live_is_replay / C01_logged_entries_roundtrip: nodup_names, qs_wf, op_wf, gstep *)
Lemma nodup_ex : nodup_names (s_qs st_ex).
Proof. destruct inv_ex as (G & HI & _). exact (Inv_nodup Px _ _ HI). Qed.

Example C01_live_is_replay_inst :
  exists es, replay_entries (s_qs st_ex) es = Some (s_qs st_next) /\ es <> [].
Proof.
  pose proof (PropC01.C01_instrumentation_erases Px st_ex [] o_next false) as [E1 E2].
  rewrite step_next in E1, E2. cbn [fst snd] in E1, E2.
  destruct (gstep Px (@pair state glog st_ex []) o_next false) as [[st' L'] out] eqn:Eg.
  cbn [fst snd] in E1, E2. subst st' out.
  destruct (PropC01.C01_live_is_replay Px st_ex [] o_next false st_next L' out_next nodup_ex Eg
              no_io_next) as (es & EL & Hr).
  exists es. split; [exact Hr|]. intros ->. cbn [replay_entries] in Hr.
  vm_compute in Hr. discriminate Hr.
Qed.

Example C01_logged_entries_roundtrip_inst :
  exists es, snd (fst (gstep Px (@pair state glog st_ex []) o_next false)) = [] ++ es /\
    Forall (fun fe => entry_deser (entry_ser (snd fe)) = Some (snd fe)) es.
Proof.
  destruct inv_ex as (G & HI & _).
  destruct (gstep Px (@pair state glog st_ex []) o_next false) as [[st' L'] out] eqn:Eg.
  assert (Hop : op_wf (s_qs st_ex) o_next).
  { apply op_wf_strict_wf. exact op_wf_next. }
  cbn [fst snd].
  exact (PropC01.C01_logged_entries_roundtrip Px st_ex [] o_next false st' L' out
           (Inv_qs_wf Px _ _ HI) Hop Eg).
Qed.

(* C01_history_is_replay: a history from the empty log (the fresh state has no queue) *)
Definition h_calls : list (op * bool) :=
  [(OCreate qa, false); (OAppend qa None [pay "x"%byte; pay "y"%byte], false);
   (OCreate qb, true); (OTruncate qa 0 [qb], false); (ODelete qb [], false)].

Example C01_history_is_replay_inst :
  replay_entries [] (snd (fst (grun Px (@pair state glog st0 []) h_calls))) =
  Some (s_qs (fst (fst (grun Px (@pair state glog st0 []) h_calls)))).
Proof.
  destruct (grun Px (@pair state glog st0 []) h_calls) as [[st' L'] outs] eqn:Eg. cbn [fst snd].
  apply (PropC01.C01_history_is_replay Px (s_wr st0) PNothing h_calls st' L' outs).
  - exact Eg.
  - intros out e Hin. replace outs with (snd (grun Px (@pair state glog st0 []) h_calls)) in Hin
      by (rewrite Eg; reflexivity).
    vm_compute in Hin. repeat (destruct Hin as [<-|Hin]; [discriminate|]). destruct Hin.
Qed.

(* C01_replay_refines_spec: qs_inv qs and untag tm = abs_qs qs, for a NON-EMPTY state (qs, tm):
   the state reached by replaying ex_pre, obtained from the theorem applied to the empty one *)
Import ReplaySpec.
Example C01_replay_refines_spec_inst :
  exists qs tm, qs <> [] /\ qs_inv qs /\ untag tm = abs_qs qs /\
    exists qs' tm', apply_entries qs (map (pair 2) ex_suf) = Some qs' /\
      t_replay tm 3 (map snd (map (pair 2) ex_suf)) = Some tm' /\ untag tm' = abs_qs qs' /\
      qs_inv qs'.
Proof.
  pose proof (PropC01.C01_replay_refines_spec (map (pair 1) ex_pre) [] 0 [] qs_inv_nil eq_refl) as H1.
  destruct (apply_entries [] (map (pair 1) ex_pre)) as [qs|] eqn:E1; [|vm_compute in E1; discriminate E1].
  destruct H1 as (tm & Ht & Hu & Hi). exists qs, tm.
  split; [intros ->; vm_compute in E1; discriminate E1|]. split; [exact Hi|]. split; [exact Hu|].
  pose proof (PropC01.C01_replay_refines_spec (map (pair 2) ex_suf) qs 3 tm Hi Hu) as H2.
  destruct (apply_entries qs (map (pair 2) ex_suf)) as [qs'|] eqn:E2.
  - destruct H2 as (tm' & Ht' & Hu' & Hi'). exists qs', tm'. auto.
  - exfalso. vm_compute in E1. injection E1 as <-. vm_compute in E2. discriminate E2.
Qed.

(* C01_suffix_simulation / C01_suffix_is_list_suffix / C01_covered_suffix_equal /
   C01_model_covered_suffix_equal: ReplaySpec.ex_legal, ex_equal (ex_equal applies
   model_covered_suffix_equal with all premises).  The other three on the same log: *)
Definition F_ex : tmap :=
  Eval vm_compute in match t_replay [] 0 (ex_pre ++ ex_suf) with Some F => F | None => [] end.
Definition S_ex : tmap :=
  Eval vm_compute in match t_replay [] (length ex_pre) ex_suf with Some F => F | None => [] end.
Lemma F_ex_eq : t_replay [] 0 (ex_pre ++ ex_suf) = Some F_ex. Proof. vm_compute. reflexivity. Qed.
Lemma S_ex_eq : t_replay [] (length ex_pre) ex_suf = Some S_ex. Proof. vm_compute. reflexivity. Qed.

Example replay_ex_shape :
  F_ex = [(ReplaySpec.qa, ([(3%nat, (1, [x02])); (6%nat, (5, [x03]))], 6)); (ReplaySpec.qb, ([], 0))] /\
  S_ex = F_ex.
Proof. vm_compute. split; reflexivity. Qed.

Example C01_suffix_simulation_inst : forall q,
  t_get S_ex q = None \/
  exists rf n, t_get F_ex q = Some (rf, n) /\
    t_get S_ex q = Some (filter (fun r => PeanoNat.Nat.leb (length ex_pre) (fst r)) rf, n).
Proof. exact (PropC01.C01_suffix_simulation ex_pre ex_suf F_ex ex_legal F_ex_eq S_ex S_ex_eq). Qed.

Example C01_suffix_is_list_suffix_inst :
  exists dropped, t_get F_ex ReplaySpec.qa = Some (dropped ++ [(3%nat, (1, [x02])); (6%nat, (5, [x03]))], 6).
Proof.
  destruct (PropC01.C01_suffix_is_list_suffix ex_pre ex_suf F_ex ex_legal F_ex_eq S_ex S_ex_eq
              ReplaySpec.qa [(3%nat, (1, [x02])); (6%nat, (5, [x03]))] 6 eq_refl) as (d & H & _).
  now exists d.
Qed.

Lemma coverage_ex : forall q rf n, t_get F_ex q = Some (rf, n) ->
  Forall (fun r : nat * (N * bytes) => (length ex_pre <= fst r)%nat) rf /\
  (rf = [] -> existsb (fun e => creates e q) ex_suf = true).
Proof.
  intros q rf n H. unfold F_ex in H. cbn [t_get] in H.
  destruct (bytes_eqb [x61] q) eqn:Ea.
  - apply bytes_eqb_eq in Ea. subst q. inversion H; subst. split.
    + repeat constructor.
    + discriminate.
  - destruct (bytes_eqb [x62] q) eqn:Eb; [|discriminate].
    apply bytes_eqb_eq in Eb. subst q. inversion H; subst. split; [constructor|].
    intros _. reflexivity.
Qed.

Example C01_covered_suffix_equal_inst : forall q, s_get (untag S_ex) q = s_get (untag F_ex) q.
Proof.
  exact (PropC01.C01_covered_suffix_equal ex_pre ex_suf F_ex S_ex ex_legal F_ex_eq S_ex_eq coverage_ex).
Qed.

Example C01_model_covered_suffix_equal_inst :
  exists qF qS,
    apply_entries [] (map (pair 1) ex_pre ++ map (pair 2) ex_suf) = Some qF /\
    apply_entries [] (map (pair 7) ex_suf) = Some qS /\ abs_qs qF = untag F_ex /\
    forall q, s_get (abs_qs qS) q = s_get (abs_qs qF) q.
Proof.
  destruct (PropC01.C01_model_covered_suffix_equal (map (pair 1) ex_pre) (map (pair 2) ex_suf)
              (map (pair 7) ex_suf) F_ex) as (qF & qS & H1 & H2 & _ & _ & H3 & H4).
  - reflexivity.
  - exact ex_legal.
  - exact F_ex_eq.
  - exact coverage_ex.
  - exists qF, qS. auto.
Qed.

(* ====================================================================== *)
(* PropC04 (restart half) and PropC18 (restart half)                      *)
(* ====================================================================== *)
Local Notation qA := RestartFinal.Example.qa.
Local Notation qB := RestartFinal.Example.qb.
Import RestartCorollaries.ExampleCorollaries.

Example C04_positions_fresh_with_restarts_inst :
  incr_between 0 (log_next st_ex qA) (log_lasts qA (hcalls_t h_ex) outs_ex) /\
  log_lasts qA (hcalls_t h_ex) outs_ex = [1; 2; 5; 6].
Proof.
  split; [|vm_compute; reflexivity].
  exact (proj1 (PropC04.C04_positions_fresh_with_restarts Px Px_BS_lo Px_BS_hi Px_NB Px_crc eq_refl
                  eq_refl PNothing st0 h_ex st_ex outs_ex qA open_st0 hist_ok_ex hrun_ex
                  (proj1 positions_ex))).
Qed.

(* C04_after_truncate_with_restarts: h_ex = h1 ++ truncate(qa, ..=2) :: h2 with two restarts and
   a second truncate in h2 *)
Definition h1_ex : list hop := firstn 6 h_ex.
Definition h2_ex : list hop := skipn 7 h_ex.
Lemma h_ex_split : h_ex = h1_ex ++ HCall (OTruncate qA 2 [qB]) false :: h2_ex.
Proof. reflexivity. Qed.
Definition st1_ex : state :=
  Eval vm_compute in match hrun Px st0 h1_ex with Some (s, _) => s | None => st_dummy end.
Definition outs1_ex : list outcome :=
  Eval vm_compute in match hrun Px st0 h1_ex with Some (_, o) => o | None => [] end.
Definition outs2_ex : list outcome := Eval vm_compute in skipn 6 outs_ex.

Example C04_after_truncate_with_restarts_inst :
  incr_between (2 + 1) (log_next st_ex qA) (log_lasts qA (hcalls_t h2_ex) outs2_ex) /\
  log_lasts qA (hcalls_t h2_ex) outs2_ex = [6].
Proof.
  split; [|vm_compute; reflexivity].
  refine (proj1 (proj2 (PropC04.C04_after_truncate_with_restarts Px Px_BS_lo Px_BS_hi Px_NB Px_crc
            eq_refl eq_refl PNothing st0 h1_ex qA 2 [qB] false h2_ex st1_ex outs1_ex st_ex 3 45 outs2_ex
            open_st0 _ _ _ _))).
  - rewrite <- h_ex_split. exact hist_ok_ex.
  - vm_compute. reflexivity.
  - vm_compute. reflexivity.
  - vm_compute. reflexivity.
Qed.

(* C04_restart_keeps_next / C04_next_position_survives_restart: one more restart of st_ex *)
Definition stR : state :=
  Eval vm_compute in match restart Px st_ex (PAlways true) [qB] with OpenOk s => s | _ => st_dummy end.
Lemma restart_stR : restart Px st_ex (PAlways true) [qB] = OpenOk stR.
Proof. vm_compute. reflexivity. Qed.

Example C04_restart_keeps_next_inst :
  (forall q, log_next stR q = log_next st_ex q) /\
  (forall q, log_last_position stR q = log_last_position st_ex q).
Proof.
  destruct inv_ex as (G & HI & _).
  exact (PropC04.C04_restart_keeps_next Px Px_BS_lo Px_BS_hi Px_NB Px_crc eq_refl eq_refl st_ex G
           (PAlways true) [qB] stR HI restart_bound_ex restart_stR).
Qed.

Example C04_next_position_survives_restart_inst :
  forall q, log_last_position stR q = log_last_position st_ex q.
Proof.
  exact (proj1 (PropC04.C04_next_position_survives_restart Px Px_BS_lo Px_BS_hi Px_NB Px_crc eq_refl
                  eq_refl PNothing st0 h_ex st_ex outs_ex (PAlways true) [qB] stR open_st0 hrun_ex
                  hist_ok_ex restart_bound_ex restart_stR)).
Qed.

Example C18_projection_with_restarts_inst :
  exists st1 outs1 st2 outs2 souts2,
    hrun Px st0 h_ex = Some (st1, outs1) /\
    hrun Px st0 (hproj qB h_ex) = Some (st2, outs2) /\
    s_get (abs_qs (s_qs st1)) qB = s_get (abs_qs (s_qs st2)) qB /\
    (forall lo hi, log_range st1 qB lo hi = log_range st2 qB lo hi) /\
    log_last_position st1 qB = log_last_position st2 qB /\
    log_last_record st1 qB = log_last_record st2 qB /\
    map out_logical outs2 = map Some souts2 /\
    map out_logical (keep_outs (on_queue qB) (hcalls_t h_ex) outs1) = map Some souts2.
Proof.
  exact (PropC18.C18_projection_with_restarts Px Px_BS_lo Px_BS_hi Px_NB Px_crc eq_refl eq_refl
           PNothing st0 h_ex qB open_st0 hist_ok_ex hist_ok_proj_qb).
Qed.

(* C18_others_and_restarts_invisible: from st_ex (under the invariant), calls on qb and a restart;
   qa is untouched although the truncate of qb lets the GC run *)
Definition h_other : list hop :=
  [HCall (OAppend qB None [pay "r"%byte]) false; HRestart (PDelay false) [qA];
   HCall (OTruncate qB 1 [qA]) true].
Definition st_other : state :=
  Eval vm_compute in match hrun Px st_ex h_other with Some (s, _) => s | None => st_dummy end.
Definition outs_other : list outcome :=
  Eval vm_compute in match hrun Px st_ex h_other with Some (_, o) => o | None => [] end.

Lemma hist_ok_other : hist_ok Px st_ex h_other.
Proof.
  unfold h_other. call_tac. restart_tac qB 0. call_tac. exact I.
Qed.

Example C18_others_and_restarts_invisible_inst :
  s_get (abs_qs (s_qs st_other)) qA = s_get (abs_qs (s_qs st_ex)) qA /\
  (forall lo hi, log_range st_other qA lo hi = log_range st_ex qA lo hi) /\
  log_last_position st_other qA = log_last_position st_ex qA /\
  log_last_record st_other qA = log_last_record st_ex qA.
Proof.
  destruct inv_ex as (G & HI & _).
  apply (PropC18.C18_others_and_restarts_invisible Px Px_BS_lo Px_BS_hi Px_NB Px_crc eq_refl eq_refl
           h_other qA st_ex G st_other outs_other HI hist_ok_other).
  - vm_compute. reflexivity.
  - intros o Hin. cbn in Hin. destruct Hin as [<-|[<-|[]]]; cbn; intros H; discriminate H.
Qed.

Example others_ex_shape :
  outs_other = [OutAppend (Some 1) 51; OutTruncate 2 26] /\
  abs_qs (s_qs st_other) = [(qA, ([(6, pay "v"%byte)], 7)); (qB, ([], 2))].
Proof. vm_compute. split; reflexivity. Qed.
