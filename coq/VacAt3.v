(* VacAt3.v — TASK T14 follow-up (gap): audit of CrashAt3.v.  Same instance as VacAt.v / VacAt2.v
   (P_sat 32 2; entry spanning file 0 and file 1).  The premises of jstate_crash_at3 are
   satisfiable at the gap points (2,0)..(5,0): the 45 data bytes written so far fill file 0
   exactly to its end (19 + 45 = 64) and file 1 does not exist yet; the theorem is applied there
   and at all the points of VacAt2.  Together with VacAt.point_ok_r this covers every crash point
   of this call except (1,k), 1 <= k <= 31 (cut strictly inside the last block of file 0).
   Second instance (o_l: append qa [5 bytes], the call ENDS in the last block of file 0, offset
   62 of 64): the theorem is applied at the crash points (2,0)..(5,0) after all the data
   (flush / sync tail), by the all-data disjunct of crash_point_ok3. *)
From Coq Require Import Lia ZArith ZifyN ZifyNat ZifyBool List.
From MRL Require Import Bytes BytesProofs Params Names Frame Record Mem Spec Rolling Log Driver Hist
  WriterProofs SpecRefine RecordProofs StreamProofs ResyncProofs GhostLog ReplaySpec TornProofs
  RestartInv RestartWrite RestartStep OpenReplay RestartFinal CrashTrace CrashAtomic NzcVacuous
  PolicyProofs VacBase VacCrash CrashRecovered CrashRecovered2 CrashHistories JRecover4 CrashAt VacRecovered
  VacAt JRecover5 CrashAt2 VacAt2 CrashAt3.
Import ListNotations.
Import CrashAtomic.CrashExample.

Arguments N.add : simpl never.
Arguments N.sub : simpl never.
Arguments N.mul : simpl never.
Arguments N.eqb : simpl never.
Arguments N.ltb : simpl never.
Arguments N.leb : simpl never.

Definition pts3 : list (N * N) := [(2,0); (3,0); (4,0); (5,0)].

Example pts3_shape :
  map (fun ck => let pe := crash_events evs_r (fst ck) (snd ck) in
                 let img := fold_left apply_event pe (c_fs (w_ctx (s_wr w1s))) in
                 (w_off (s_wr w1s) + lenN (ev_data pe), lenN (PolicyProofs.fcontent img 0),
                  fs_get img (filename 1)))
      pts3 = [(64, 64, None); (64, 64, None); (64, 64, None); (64, 64, None)].
Proof. vm_compute. reflexivity. Qed.

Lemma point_ok3_r ck : In ck (pts3 ++ pts2) -> crash_point_ok3 Pw w1s evs_r (crash_events evs_r (fst ck) (snd ck)).
Proof.
  intros Hin. apply in_app_or in Hin. destruct Hin as [Hin|Hin].
  - unfold pts3 in Hin. cbn [In] in Hin.
    repeat (destruct Hin as [<-|Hin];
            [apply (crash_point_ok3_of_file_end Pw Pw_BS_lo Pw_BS_hi Pw_NB w1s evs_r _ 0);
               [le_tacv | vm_compute; discriminate | vm_compute; reflexivity]|]).
    contradiction.
  - apply crash_point_ok_23. exact (point_ok2_r ck Hin).
Qed.

Theorem jstate_crash_at3_inst :
  forall ck pol hint, In ck (pts3 ++ pts2) -> exists st_r,
    open Pw (fold_left apply_event (crash_events evs_r (fst ck) (snd ck)) (c_fs (w_ctx (s_wr w1s)))) None pol hint
      = OpenOk st_r /\ jstate Pw st_r /\
    ((forall q, s_get (abs_qs (s_qs st_r)) q = s_get (abs_qs (s_qs w1s)) q) \/
     (forall q, s_get (abs_qs (s_qs st_r)) q = s_get (abs_qs (s_qs w2s)) q)).
Proof.
  intros ck pol hint Hin.
  destruct (jstate_crash_at3 Pw Pw_BS_lo Pw_BS_hi Pw_NB Pw_crc eq_refl eq_refl eq_refl Pw_nzc
              w1s true o_r false w2s out_r jstate_w1 call_ok0_r) as (_ & evs & Hev & Hall).
  assert (E : evs = evs_r).
  { rewrite evs_r_eq in Hev. apply app_inv_tail in Hev. apply (f_equal (@rev event)) in Hev.
    rewrite !rev_involutive in Hev. now symmetry. }
  subst evs.
  destruct (Hall (fst ck) (snd ck) pol hint (point_ok3_r ck Hin)) as (st_r & Ho & Hj & _ & _ & Ha).
  exists st_r. auto.
Qed.

(* ---------- a call that ends in the last block of its file; crash in its flush/sync tail ---------- *)
Definition o_l : op := OAppend qa None [["x"%byte; "x"%byte; "x"%byte; "x"%byte; "x"%byte]].
Definition w2l : state := Eval vm_compute in fst (step Pw w1s o_l false).
Definition out_l : outcome := Eval vm_compute in snd (step Pw w1s o_l false).
Lemma step_l : step Pw w1s o_l false = (w2l, out_l). Proof. vm_compute. reflexivity. Qed.
Definition evs_l : list event := Eval vm_compute in new_events w1s w2l.
Lemma evs_l_eq : c_ev (w_ctx (s_wr w2l)) = rev evs_l ++ c_ev (w_ctx (s_wr w1s)).
Proof. vm_compute. reflexivity. Qed.

Example last_block_shape :
  w_files (s_wr w2l) = [0] /\ w_off (s_wr w2l) = 62 /\ lenN evs_l = 5 /\ lenN (ev_data evs_l) = 43 /\
  map (fun c => lenN (ev_data (crash_events evs_l c 0))) [2; 3; 4; 5] = [43; 43; 43; 43].
Proof. vm_compute. repeat split; reflexivity. Qed.

Lemma call_ok0_l : crash_call_ok0 Pw w1s true o_l false w2l out_l.
Proof.
  split; [reflexivity|]. split; [reflexivity|]. split; [unfold o_l; wf_tacv|].
  split; [apply (crash_phys_bound_by Pw Pw_BS_lo Pw_BS_hi Pw_NB Pw_crc 64); [vm_compute; reflexivity|le_tacv]|].
  split; [apply (crash_phys_bound_by Pw Pw_BS_lo Pw_BS_hi Pw_NB Pw_crc 64); [vm_compute; reflexivity|le_tacv]|].
  exact step_l.
Qed.

Theorem jstate_crash_at3_inst_tail :
  forall c pol hint, In c [2; 3; 4; 5] -> exists st_r,
    open Pw (fold_left apply_event (crash_events evs_l c 0) (c_fs (w_ctx (s_wr w1s)))) None pol hint
      = OpenOk st_r /\ jstate Pw st_r /\
    ((forall q, s_get (abs_qs (s_qs st_r)) q = s_get (abs_qs (s_qs w1s)) q) \/
     (forall q, s_get (abs_qs (s_qs st_r)) q = s_get (abs_qs (s_qs w2l)) q)).
Proof.
  intros c pol hint Hin.
  destruct (jstate_crash_at3 Pw Pw_BS_lo Pw_BS_hi Pw_NB Pw_crc eq_refl eq_refl eq_refl Pw_nzc
              w1s true o_l false w2l out_l jstate_w1 call_ok0_l) as (_ & evs & Hev & Hall).
  assert (E : evs = evs_l).
  { rewrite evs_l_eq in Hev. apply app_inv_tail in Hev. apply (f_equal (@rev event)) in Hev.
    rewrite !rev_involutive in Hev. now symmetry. }
  subst evs.
  assert (Hpt : crash_point_ok3 Pw w1s evs_l (crash_events evs_l c 0)).
  { apply crash_point_ok3_all_data. cbn [In] in Hin.
    destruct Hin as [<-|[<-|[<-|[<-|[]]]]]; vm_compute; reflexivity. }
  destruct (Hall c 0 pol hint Hpt) as (st_r & Ho & Hj & _ & _ & Ha).
  exists st_r. auto.
Qed.

Print Assumptions jstate_crash_at3_inst.
Print Assumptions jstate_crash_at3_inst_tail.
