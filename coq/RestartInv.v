(* RestartInv.v — the global restart invariant (parts (A)+(C) of the C01 plan): definition,
   derived views, the payoff theorem (replaying only the kept suffix E, with any file tags,
   gives the abstract content of the live queues) and the invariant of a fresh directory.
   Preservation by writes, by the GC and by every API call: RestartWrite.v, RestartGc.v,
   RestartStep.v. *)
From Coq Require Import Lia ZArith ZifyN ZifyNat ZifyBool List Sorted.
From MRL Require Import Bytes BytesProofs Params Names NamesProofs Frame Record Mem Spec Rolling Log
  Driver SpecRefine RecordProofs StreamProofs PolicyProofs GcProofs GhostLog ReplaySpec
  HandleProofs FileStream ResyncProofs.

Arguments N.add : simpl never.
Arguments N.sub : simpl never.
Arguments N.mul : simpl never.
Arguments N.eqb : simpl never.
Arguments N.ltb : simpl never.
Arguments N.leb : simpl never.
Arguments N.div : simpl never.
Arguments N.modulo : simpl never.
Arguments N.min : simpl never.
Arguments N.max : simpl never.

(* ====================================================================== *)
(* 0. the ghost state                                                     *)
(* ====================================================================== *)

Record ghost := mkGhost {
  gh_base : N;               (* file number of stream offset 0 *)
  gh_dropped : list entry;   (* forgotten for good: outside the files at the last restart *)
  gh_pre : glog;             (* logged since the last restart, first frame in a deleted file *)
  gh_E : glog                (* first frame in the kept files *)
}.

Definition gh_log (G : ghost) : glog := gh_pre G ++ gh_E G.
Definition gh_ALL (G : ghost) : list entry := gh_dropped G ++ map snd (gh_log G).
(* everything before E *)
Definition gh_before (G : ghost) : list entry := gh_dropped G ++ map snd (gh_pre G).
(* number of entries before E = index in ALL of the first entry of E *)
Definition gh_k (G : ghost) : nat := (length (gh_dropped G) + length (gh_pre G))%nat.

Lemma gh_ALL_split G : gh_ALL G = gh_before G ++ map snd (gh_E G).
Proof. unfold gh_ALL, gh_before, gh_log. now rewrite map_app, app_assoc. Qed.

Lemma gh_before_length G : length (gh_before G) = gh_k G.
Proof. unfold gh_before, gh_k. now rewrite app_length, map_length. Qed.

(* ---------- small list facts ---------- *)
Lemma Forall2_app_one {A B} (R : A -> B -> Prop) l1 l2 a b :
  Forall2 R l1 l2 -> R a b -> Forall2 R (l1 ++ [a]) (l2 ++ [b]).
Proof. intros H1 H2. apply Forall2_app; [exact H1|]. constructor; [exact H2|constructor]. Qed.

Lemma Forall2_skipn {A B} (R : A -> B -> Prop) : forall n l1 l2,
  Forall2 R l1 l2 -> Forall2 R (skipn n l1) (skipn n l2).
Proof.
  induction n as [|n IH]; intros l1 l2 H; [exact H|].
  destruct H as [|a b l1 l2 Hab H]; [constructor|]. cbn [skipn]. now apply IH.
Qed.

Lemma Forall2_nth_error {A B} (R : A -> B -> Prop) : forall l1 l2 j a,
  Forall2 R l1 l2 -> nth_error l1 j = Some a -> exists b, nth_error l2 j = Some b /\ R a b.
Proof.
  intros l1 l2 j a H. revert j. induction H as [|x y l1 l2 Hxy H IH]; intros j Hj.
  - destruct j; discriminate.
  - destruct j as [|j]; cbn [nth_error] in *.
    + inversion Hj; subst. now exists y.
    + now apply IH.
Qed.

Lemma Forall2_length' {A B} (R : A -> B -> Prop) l1 l2 : Forall2 R l1 l2 -> length l1 = length l2.
Proof. induction 1; cbn [length]; congruence. Qed.

Lemma map_snd_combine' {A B} : forall (l1 : list A) (l2 : list B),
  length l1 = length l2 -> map snd (combine l1 l2) = l2.
Proof.
  induction l1 as [|a l1 IH]; intros [|b l2] H; cbn [length] in H; try discriminate; [reflexivity|].
  cbn [combine map snd]. f_equal. apply IH. lia.
Qed.

(* ====================================================================== *)
(* 1a. the logical half of the invariant (no parameters)                   *)
(* ====================================================================== *)

(* (L)(C): the logical log.  lo = the first kept file. *)
Definition LInv (qs : queues) (lo : N) (G : ghost) : Prop :=
  qs_wf qs /\
  legal_log [] 0 (gh_ALL G) /\
  replay_entries [] (gh_log G) = Some qs /\
  exists F, t_replay [] 0 (gh_ALL G) = Some F /\
    forall q rf n, t_get F q = Some (rf, n) ->
      (* (C2) every queue has a creating entry in E *)
      existsb (fun e => creates e q) (map snd (gh_E G)) = true /\
      (* (C1)+(H) every retained record was appended by an entry of E (for this queue), tagged
         with a kept file *)
      Forall (fun r => exists j f e, fst r = (gh_k G + j)%nat /\
                                     nth_error (gh_E G) j = Some (f, e) /\ lo <= f /\
                                     creates e q = true) rf.


(* ====================================================================== *)
(* 2. derived facts                                                       *)
(* ====================================================================== *)

Lemma LInv_nodup qs lo G : LInv qs lo G -> nodup_names qs.
Proof. intros (_ & _ & H & _). exact (replay_from_nil_nodup _ _ H). Qed.

(* the dummy-tagged full log, for HandleProofs *)
Definition gh_tagged (G : ghost) : glog := map (pair 0) (gh_dropped G) ++ gh_log G.

Lemma gh_tagged_snd G : map snd (gh_tagged G) = gh_ALL G.
Proof.
  unfold gh_tagged, gh_ALL. rewrite map_app, map_map. cbn [snd]. now rewrite map_id.
Qed.

(* the views of the replay of LOG from the empty state, with the indices of ALL *)
Lemma replay_views_from (pre fes : glog) qs :
  replay_entries [] fes = Some qs ->
  exists cm S,
    c_replay [] [] (length pre) fes = Some (cm, qs) /\
    t_replay [] (length pre) (map snd fes) = Some S /\
    ginv snd cm qs /\ tinv fst cm S /\
    HandleProofs.g_all (fun a => nth_error (map fst (pre ++ fes)) (fst a) = Some (snd a)) cm /\
    untag S = abs_qs qs /\ qs_inv qs.
Proof.
  intros H. pose proof (g_replay_queues (fun i f => (i, f)) fes [] [] (length pre)) as Hq.
  rewrite H in Hq. destruct Hq as (cm & Ec).
  destruct (g_replay_tags fst (fun i f => (i, f)) (fun _ _ => eq_refl) fes [] [] [] (length pre)
              cm qs (tinv_nil fst) qs_inv_nil eq_refl Ec) as (S & ES & Ht & Hu & Hq).
  pose proof (g_replay_handles snd (fun i f => (i, f)) (fun _ _ => eq_refl) fes [] [] (length pre)
                cm qs (ginv_nil snd) Ec) as Hg.
  pose proof (c_replay_files fes pre [] [] cm qs (g_all_nil _) Ec) as Hf.
  exists cm, S. split; [exact Ec|]. split; [exact ES|]. split; [exact Hg|]. split; [exact Ht|].
  split; [exact Hf|]. split; assumption.
Qed.

(* a retained record of the replay of fes (indices shifted by length pre) was appended by an
   entry whose file is referenced *)
Lemma record_referenced (pre fes : glog) qs S q rf n r :
  replay_entries [] fes = Some qs ->
  t_replay [] (length pre) (map snd fes) = Some S ->
  t_get S q = Some (rf, n) -> In r rf ->
  exists f, nth_error (map fst (pre ++ fes)) (fst r) = Some f /\ qs_ref f qs = true.
Proof.
  intros H ES Eq Hin.
  destruct (replay_views_from pre fes qs H) as (cm & S' & Ec & ES' & Hg & Ht & Hf & _).
  rewrite ES in ES'. inversion ES'; subst S'. clear ES'.
  pose proof (Ht q) as Htq. unfold tq_inv in Htq. rewrite Eq in Htq.
  destruct (g_get cm q) as [l|] eqn:El; [|contradiction].
  assert (Hi : In (fst r) (map fst l)) by (rewrite Htq; now apply in_map).
  apply in_map_iff in Hi. destruct Hi as (a & Ea & Ha).
  exists (snd a). split.
  - rewrite <- Ea. pose proof (Hf q l El) as Hall. rewrite Forall_forall in Hall. now apply Hall.
  - exact (attribution_referenced snd cm qs q l a Hg El Ha).
Qed.

(* the suffix replay (over LOG, with the indices of ALL) agrees with the full replay *)
Lemma LInv_views qs lo G :
  LInv qs lo G ->
  exists F S,
    t_replay [] 0 (gh_ALL G) = Some F /\
    t_replay [] (length (gh_dropped G)) (map snd (gh_log G)) = Some S /\
    (forall q, t_get S q = t_get F q) /\
    untag S = abs_qs qs /\ qs_inv qs.
Proof.
  intros (_ & Hleg & Hrep & F & EF & Hcov).
  destruct (replay_views_from (map (pair 0) (gh_dropped G)) (gh_log G) qs Hrep)
    as (cm & S & _ & ES & _ & _ & _ & Hu & Hq).
  rewrite map_length in ES.
  exists F, S. split; [exact EF|]. split; [exact ES|]. split; [|split; assumption].
  apply (covered_suffix_equal_tagged (gh_dropped G) (map snd (gh_log G)) F S Hleg EF ES).
  intros q rf n Eq. destruct (Hcov q rf n Eq) as (Hc & Hr). split.
  - eapply Forall_impl; [|exact Hr]. intros r (j & f & e & Ej & _). unfold gh_k in Ej. lia.
  - intros _. unfold gh_log. rewrite map_app, existsb_app, Hc. apply orb_true_r.
Qed.

(* the live queues, seen through the full replay *)
Lemma LInv_tget qs lo G F :
  LInv qs lo G -> t_replay [] 0 (gh_ALL G) = Some F ->
  forall q, match t_get F q, qs_get qs q with
            | Some v, Some m => untag_q v = abs_q m
            | None, None => True
            | _, _ => False
            end.
Proof.
  intros HL EF q. destruct (LInv_views qs lo G HL) as (F' & S & EF' & _ & Hp & Hu & _).
  rewrite EF in EF'. inversion EF'; subst F'. rewrite <- Hp.
  exact (untag_abs_get S qs q Hu).
Qed.

Lemma LInv_qs_inv qs lo G : LInv qs lo G -> qs_inv qs.
Proof. intros HL. now destruct (LInv_views qs lo G HL) as (F & S & _ & _ & _ & _ & Hq). Qed.


Lemma LInv_qs_wf qs lo G : LInv qs lo G -> qs_wf qs.
Proof. now intros (H & _). Qed.

(* (H) the attributions of the replay of LOG are covered by the file handles *)
Lemma LInv_attr_inv qs lo G :
  LInv qs lo G -> exists am, a_replay [] [] (gh_log G) = Some (am, qs) /\ attr_inv am qs.
Proof. intros (_ & _ & H & _). exact (replay_handles_from [] [] _ _ attr_inv_nil H). Qed.

(* ====================================================================== *)
(* 3. (5) the payoff: replaying E alone                                   *)
(* ====================================================================== *)

Theorem linv_restart_equal qs lo G :
  LInv qs lo G ->
  forall tags', length tags' = length (gh_E G) ->
  exists qs',
    replay_entries [] (combine tags' (map snd (gh_E G))) = Some qs' /\
    qs_inv qs' /\ nodup_names qs' /\
    forall q, s_get (abs_qs qs') q = s_get (abs_qs qs) q.
Proof.
  intros HL tags' Hlen.
  destruct (LInv_views qs lo G HL) as (F & S & EF & ES & Hp & Hu & _).
  destruct HL as (_ & Hleg & Hrep & F' & EF' & Hcov).
  rewrite EF in EF'. inversion EF'; subst F'. clear EF'.
  set (fpre := map (pair 0) (gh_dropped G) ++ gh_pre G).
  assert (Epre : map snd fpre = gh_before G).
  { unfold fpre, gh_before. rewrite map_app, map_map. cbn [snd]. now rewrite map_id. }
  destruct (model_covered_suffix_equal fpre (gh_E G) (combine tags' (map snd (gh_E G))) F)
    as (qF & qS & _ & EqS & _ & HiS & HaF & Heq).
  - rewrite map_snd_combine'; [reflexivity|]. rewrite map_length. lia.
  - rewrite Epre, <- gh_ALL_split. exact Hleg.
  - rewrite Epre, <- gh_ALL_split. exact EF.
  - intros q rf n Eq. rewrite Epre, gh_before_length. destruct (Hcov q rf n Eq) as (Hc & Hr). split.
    + eapply Forall_impl; [|exact Hr]. intros r (j & f & e & Ej & _). lia.
    + intros _. exact Hc.
  - rewrite apply_entries_replay_entries in EqS.
    exists qS. split; [exact EqS|]. split; [exact HiS|].
    split; [exact (replay_from_nil_nodup _ _ EqS)|].
    intros q. rewrite Heq, HaF, <- Hu, !untag_get, Hp. reflexivity.
Qed.

Section Restart.
Variable P : params.
Hypothesis HBS_lo : 7 < BS P.
Hypothesis HBS_hi : BS P <= 65542.
Hypothesis HNB : 1 <= NB P.
Hypothesis Hcrc : forall t p, crcf P t p < 2 ^ 32.

Local Notation B := (BS P).
Local Notation FB := (FILE_BYTES P).
Local Notation ffp := (first_frame_pos P).
Local Notation enc_of := (enc_of P).
Local Notation encs_of := (encs_of P).
Local Notation cursor_after := (cursor_after P).
Local Notation starts := (starts P).
Local Notation delivered_from := (delivered_from P).
Local Notation skipped_before := (skipped_before P).

(* ---------- the ghost stream ---------- *)
Definition gh_ser (G : ghost) : list bytes := map entry_ser (gh_ALL G).
Definition gh_T (G : ghost) : bytes := encs_of 0 (gh_ser G).
Definition gh_ser_before (G : ghost) : list bytes := map entry_ser (gh_before G).
Definition gh_ser_E (G : ghost) : list bytes := map entry_ser (map snd (gh_E G)).
(* the cursor at which the first entry of E was written *)
Definition gh_a0 (G : ghost) : N := cursor_after 0 (gh_ser_before G).

Lemma gh_ser_split G : gh_ser G = gh_ser_before G ++ gh_ser_E G.
Proof. unfold gh_ser, gh_ser_before, gh_ser_E. now rewrite gh_ALL_split, map_app. Qed.

(* ====================================================================== *)
(* 1b. the physical half of the invariant, and the invariant              *)
(* ====================================================================== *)

(* (F)(S)(W)(D)(H): the writer, its files and the ghost stream.
   dl = number of files deleted since `base`; the kept files are files base+dl .. w_file;
   c = the writer's cursor in the ghost stream. *)
Definition PInv (w : rwriter) (G : ghost) : Prop :=
  (* (F) *)
  winv P w /\ wd_ok w /\ nd w /\ gh_base G <= wlo w /\
  let dl := wlo w - gh_base G in
  let c := dl * FB + wpos P w in
  (* (S) the cursor: at the end of the ghost stream, or already past the zero padding that the
     next entry starts with (after a restart) *)
  lenN (gh_T G) <= c /\ c <= ffp (lenN (gh_T G)) /\
  (* (S) the kept files hold the ghost stream from the start of the first kept file on *)
  wstream w =
    dropN (dl * FB) (gh_T G ++ zerosN ((dl + lenN (w_files w)) * FB - lenN (gh_T G))) /\
  (* (W) *)
  Forall wf_entry (gh_ALL G) /\
  (* (D) a reader starting at the first kept file skips everything before E ... *)
  Forall (fun s => snd s < dl * FB) (starts 0 (gh_ser_before G)) /\
  (* ... and delivers E; (H) the first frame of an entry is not before the start of the file
     it is tagged with *)
  Forall2 (fun fe s => dl * FB <= snd s /\ (fst fe - gh_base G) * FB <= snd s)
          (gh_E G) (starts (gh_a0 G) (gh_ser_E G)) /\
  (* (H) tags never decrease and are file numbers between base and the current file *)
  tags_mono (gh_base G) (gh_log G) (w_file w).

Definition Inv (st : state) (G : ghost) : Prop :=
  PInv (s_wr st) G /\ LInv (s_qs st) (wlo (s_wr st)) G.


Theorem inv_restart_equal st G :
  Inv st G ->
  forall tags', length tags' = length (gh_E G) ->
  exists qs',
    replay_entries [] (combine tags' (map snd (gh_E G))) = Some qs' /\
    qs_inv qs' /\ nodup_names qs' /\
    forall q, s_get (abs_qs qs') q = s_get (abs_qs (s_qs st)) q.
Proof. intros (_ & HL). exact (linv_restart_equal _ _ _ HL). Qed.


(* ---------- projections ---------- *)
Lemma Inv_nodup st G : Inv st G -> nodup_names (s_qs st).
Proof. intros (_ & HL). exact (LInv_nodup _ _ _ HL). Qed.

Lemma Inv_qs_inv st G : Inv st G -> qs_inv (s_qs st).
Proof. intros (_ & HL). exact (LInv_qs_inv _ _ _ HL). Qed.

Lemma Inv_qs_wf st G : Inv st G -> qs_wf (s_qs st).
Proof. intros (_ & HL). exact (LInv_qs_wf _ _ _ HL). Qed.

Lemma Inv_winv st G : Inv st G -> winv P (s_wr st) /\ wd_ok (s_wr st) /\ nd (s_wr st).
Proof. intros ((H1 & H2 & H3 & _) & _). auto. Qed.

(* what `open` will list: exactly the tracked files *)
Lemma Inv_listing st G : Inv st G -> list_wal_numbers (vfs (s_wr st)) = w_files (s_wr st).
Proof. intros HI. destruct (Inv_winv st G HI) as (H1 & H2 & H3). exact (listing_after P _ H1 H2 H3). Qed.

(* ---------- (D) in the form of ResyncProofs.delivered_from ---------- *)
Lemma delivered_from_split b suf : forall pre a,
  Forall (fun s => snd s < b) (starts a pre) ->
  (suf <> [] -> b <= ffp (cursor_after a pre)) ->
  delivered_from b a (pre ++ suf) = suf.
Proof.
  induction pre as [|p pre IH]; intros a Hpre Hsuf; cbn [app].
  - rewrite (cursor_after_nil P HBS_lo HBS_hi) in Hsuf.
    destruct suf as [|x suf]; [reflexivity|]. cbn [ResyncProofs.delivered_from].
    destruct (N.leb_spec b (ffp a)) as [|Hlt]; [reflexivity|].
    specialize (Hsuf ltac:(discriminate)). lia.
  - cbn [ResyncProofs.starts] in Hpre. inversion Hpre as [|? ? Hp Hpre']; subst. cbn [snd] in Hp.
    cbn [ResyncProofs.delivered_from].
    destruct (N.leb_spec b (ffp a)) as [Hle|_]; [lia|].
    apply IH; [exact Hpre'|]. intros Hne.
    rewrite (cursor_after_cons P HBS_lo HBS_hi Hcrc) in Hsuf. now apply Hsuf.
Qed.

Lemma PInv_delivered w G :
  PInv w G ->
  delivered_from ((wlo w - gh_base G) * FB) 0 (gh_ser G) = gh_ser_E G /\
  skipped_before ((wlo w - gh_base G) * FB) 0 (gh_ser G) = gh_ser_before G.
Proof.
  intros (_ & _ & _ & _ & _ & _ & _ & _ & HD1 & HD2 & _). cbn zeta in *.
  assert (Hd : delivered_from ((wlo w - gh_base G) * FB) 0 (gh_ser G) = gh_ser_E G).
  { rewrite gh_ser_split. apply delivered_from_split; [exact HD1|].
    intros Hne. fold (gh_a0 G).
    destruct (gh_ser_E G) as [|p ps]; [contradiction|]. cbn [ResyncProofs.starts] in HD2.
    inversion HD2 as [|fe s l1 l2 (Hle & _) _]; subst. exact Hle. }
  split; [exact Hd|].
  pose proof (skipped_delivered P ((wlo w - gh_base G) * FB) (gh_ser G) 0) as Hsd.
  rewrite Hd in Hsd. rewrite gh_ser_split in Hsd at 1.
  apply app_inv_tail in Hsd. now symmetry.
Qed.

(* ====================================================================== *)
(* 4. (1) the fresh directory                                             *)
(* ====================================================================== *)

Definition gh_fresh : ghost := mkGhost 0 [] [] [].

Theorem inv_fresh pol st0 : open P [] None pol [] = OpenOk st0 -> Inv st0 gh_fresh.
Proof.
  intros H. destruct (open_fresh P HBS_lo HBS_hi HNB pol) as (c & Hc & Eo).
  rewrite Eo in H. inversion H; subst st0. clear H Eo.
  destruct (wsim_fresh P HBS_lo HBS_hi HNB c Hc) as ((Hw & Hcur & Hlen & Hs & _) & _).
  destruct (fresh_dir_inv P HBS_lo HBS_hi HNB c Hc) as (Hwd & Hnd).
  set (w := mkWr c [0] 0 (0 * B + 0) []) in *.
  assert (Elo : wlo w = 0) by reflexivity.
  assert (Efl : lenN (w_files w) = 1) by reflexivity.
  assert (Epos : wpos P w = 0).
  { unfold wpos. rewrite Efl. unfold w. cbn [w_off]. lia. }
  split.
  - unfold PInv. cbn [s_wr]. rewrite Elo, Efl, Epos.
    change (gh_T gh_fresh) with (@nil byte). change (gh_base gh_fresh) with 0.
    change (lenN (@nil byte)) with 0.
    split; [exact Hw|]. split; [exact Hwd|]. split; [exact Hnd|]. split; [lia|].
    cbn zeta. replace (0 - 0) with 0 by lia.
    split; [lia|]. split; [unfold first_frame_pos; lia|].
    split.
    { rewrite Hs, Efl, Epos. cbn [vw_buf app]. rewrite dropN_0. f_equal. }
    split; [constructor|]. split; [constructor|]. split; [constructor|].
    cbn. lia.
  - cbn [s_qs]. split; [intros n q []|]. split; [constructor|]. split; [reflexivity|].
    exists []. split; [reflexivity|]. intros q rf n Eq. discriminate.
Qed.

End Restart.

Print Assumptions linv_restart_equal.
Print Assumptions inv_restart_equal.
Print Assumptions inv_fresh.
Print Assumptions PInv_delivered.
