(* PropC03.v — C03: persisted operations survive any later crash, under every policy. END TO END in both loss models: process crash (C03_process_crash, C03_persisted_survives) and power loss (C03_power_loss, C03_fsynced_survives_power_loss; metadata taken as immediately durable). chrono = the I/O trace in chronological order; file_synced name evs = every write to that file is followed by a sync_data of it; power_filter = the power-loss model of the drivers (a write survives only if its file was synced afterwards).
   Statements only; each theorem is closed by `exact <lemma>`; proofs live in the imported files. *)
From Coq Require Import Lia NArith List.
From MRL Require Import Bytes Params Names Frame Record Mem Spec Rolling Log Driver Hist SpecRefine WriterProofs PersistProofs PolicyProofs RestartInv RestartStep TornProofs PersistSurvive PersistShape PersistImage PowerLoss.

(* END TO END, process crash, EVERY policy: from a persist point (a state satisfying the global invariant with nothing buffered) followed by any further history under any policy (DoNothing, OnDelay with any ticks, Always), for every crash image of what had reached the OS (cut before any event or inside any write; buffered bytes lost): open succeeds and yields the abstract state after SOME prefix of the further history - never older than the persist point, never an inconsistent mixture - with roll-overs, multi-file entries, garbage collection and a crash among the unlinks included *)
Theorem C03_process_crash :
    forall P : params,
    7 < BS P ->
    BS P <= 65542 ->
    1 <= NB P ->
    (forall (t : byte) (p : bytes), crcf P t p < 2 ^ 32) ->
    L_GC P = false ->
    L_IO P = false ->
    L_SHORT P = false ->
    no_zero_collision P ->
    forall (st0 : state) (G0 : ghost),
    Inv P st0 G0 ->
    w_pending (s_wr st0) = [] ->
    forall h : list (op * bool),
    GhostLog.hist_wf P st0 h ->
    RestartWrite.stream_bound P G0 (map snd (GhostLog.run_log P st0 h)) ->
    CB P st0 h ->
    forall evs : list event,
    c_ev (w_ctx (s_wr (fst (run P st0 h)))) = rev evs ++ c_ev (w_ctx (s_wr st0)) ->
    forall (cut k : N) (pol : policy) (hint : list bytes),
    exists (m : nat) (st_r : state),
    (m <= length h)%nat /\
    open P (fold_left apply_event (crash_events evs cut k) (c_fs (w_ctx (s_wr st0)))) None pol hint =
    OpenOk st_r /\
    (forall q : bytes,
    s_get (abs_qs (s_qs st_r)) q = s_get (abs_qs (s_qs (fst (run P st0 (firstn m h))))) q).
Proof. exact C03_process_crash. Qed.
Print Assumptions C03_process_crash.

(* the property's wording: if call i of the history itself left nothing buffered (it persisted) and the crash happens after it returned, the recovered state is at least as recent as call i: once persisted, no later crash can undo it or anything before it *)
Theorem C03_persisted_survives :
    forall P : params,
    7 < BS P ->
    BS P <= 65542 ->
    1 <= NB P ->
    (forall (t : byte) (p : bytes), crcf P t p < 2 ^ 32) ->
    L_GC P = false ->
    L_IO P = false ->
    L_SHORT P = false ->
    no_zero_collision P ->
    forall (st0 : state) (G0 : ghost) (h : list (op * bool)) (evs : list event)
    (i : nat) (evs_i : list event),
    Inv P st0 G0 ->
    w_pending (s_wr st0) = [] ->
    GhostLog.hist_wf P st0 h ->
    RestartWrite.stream_bound P G0 (map snd (GhostLog.run_log P st0 h)) ->
    CB P st0 h ->
    c_ev (w_ctx (s_wr (fst (run P st0 h)))) = rev evs ++ c_ev (w_ctx (s_wr st0)) ->
    (i <= length h)%nat ->
    let st_i := fst (run P st0 (firstn i h)) in
    w_pending (s_wr st_i) = [] ->
    c_ev (w_ctx (s_wr st_i)) = rev evs_i ++ c_ev (w_ctx (s_wr st0)) ->
    forall (cut k : N) (pol : policy) (hint : list bytes),
    lenN evs_i <= cut ->
    exists (m : nat) (st_r : state),
    (i <= m)%nat /\
    (m <= length h)%nat /\
    open P (fold_left apply_event (crash_events evs cut k) (c_fs (w_ctx (s_wr st0)))) None pol hint =
    OpenOk st_r /\
    (forall q : bytes,
    s_get (abs_qs (s_qs st_r)) q = s_get (abs_qs (s_qs (fst (run P st0 (firstn m h))))) q).
Proof. exact C03_persisted_survives. Qed.
Print Assumptions C03_persisted_survives.

(* END TO END, power loss (only writes followed by a sync_data of their file survive; metadata applied): from a persist point, any further history under any policy, every cut: open succeeds and yields the abstract state after some prefix of the history *)
Theorem C03_power_loss :
    forall P : params,
    7 < BS P ->
    BS P <= 65542 ->
    1 <= NB P ->
    (forall (t : byte) (p : bytes), crcf P t p < 2 ^ 32) ->
    L_GC P = false ->
    L_IO P = false ->
    L_SHORT P = false ->
    no_zero_collision P ->
    forall (st0 : state) (G0 : ghost),
    Inv P st0 G0 ->
    w_pending (s_wr st0) = [] ->
    forall h : list (op * bool),
    GhostLog.hist_wf P st0 h ->
    RestartWrite.stream_bound P G0 (map snd (GhostLog.run_log P st0 h)) ->
    forall evs : list event,
    c_ev (w_ctx (s_wr (fst (run P st0 h)))) = rev evs ++ c_ev (w_ctx (s_wr st0)) ->
    CB P st0 h ->
    forall (cut : N) (pol : policy) (hint : list bytes),
    exists (m : nat) (st_r : state),
    (m <= length h)%nat /\
    open P (fold_left apply_event (power_events evs cut) (c_fs (w_ctx (s_wr st0)))) None pol hint =
    OpenOk st_r /\
    (forall q : bytes,
    s_get (abs_qs (s_qs st_r)) q = s_get (abs_qs (s_qs (fst (run P st0 (firstn m h))))) q).
Proof. exact C03_power_loss. Qed.
Print Assumptions C03_power_loss.

(* a call that left nothing buffered AND everything synced (FlushAndFsync) cannot be undone by any later power loss *)
Theorem C03_fsynced_survives_power_loss :
    forall P : params,
    7 < BS P ->
    BS P <= 65542 ->
    1 <= NB P ->
    (forall (t : byte) (p : bytes), crcf P t p < 2 ^ 32) ->
    L_GC P = false ->
    L_IO P = false ->
    L_SHORT P = false ->
    no_zero_collision P ->
    forall (st0 : state) (G0 : ghost) (h : list (op * bool)) (evs : list event)
    (i : nat) (evs_i : list event),
    Inv P st0 G0 ->
    w_pending (s_wr st0) = [] ->
    GhostLog.hist_wf P st0 h ->
    RestartWrite.stream_bound P G0 (map snd (GhostLog.run_log P st0 h)) ->
    CB P st0 h ->
    c_ev (w_ctx (s_wr (fst (run P st0 h)))) = rev evs ++ c_ev (w_ctx (s_wr st0)) ->
    (i <= length h)%nat ->
    let st_i := fst (run P st0 (firstn i h)) in
    w_pending (s_wr st_i) = [] ->
    wr_all_synced (s_wr st_i) ->
    c_ev (w_ctx (s_wr st_i)) = rev evs_i ++ c_ev (w_ctx (s_wr st0)) ->
    forall (cut : N) (pol : policy) (hint : list bytes),
    lenN evs_i <= cut ->
    exists (m : nat) (st_r : state),
    (i <= m)%nat /\
    (m <= length h)%nat /\
    open P (fold_left apply_event (power_events evs cut) (c_fs (w_ctx (s_wr st0)))) None pol hint =
    OpenOk st_r /\
    (forall q : bytes,
    s_get (abs_qs (s_qs st_r)) q = s_get (abs_qs (s_qs (fst (run P st0 (firstn m h))))) q).
Proof. exact C03_fsynced_survives_power_loss. Qed.
Print Assumptions C03_fsynced_survives_power_loss.

(* why: under the log's I/O discipline every power-loss image is literally a process-crash image of the same trace at an earlier cut, with no create / set_len / unlink / sync_data in between *)
Theorem C03_power_is_crash :
    forall (evs : list event) (cur : N) (d : bool) (cut : N),
    disc cur d evs ->
    exists cut' : N,
    cut' <= cut /\
    (forall fs : fsT,
    fold_left apply_event (power_events evs cut) fs =
    fold_left apply_event (crash_events evs cut' 0) fs) /\
    CrashTrace.ev_data (power_events evs cut) = CrashTrace.ev_data (crash_events evs cut' 0) /\
    Forall (fun e : event => ~ meta_ev e) (dropN cut' (takeN cut evs)).
Proof. exact power_is_crash. Qed.
Print Assumptions C03_power_is_crash.

(* the same stated on the drivers' power_events over the whole trace *)
Theorem C03_power_loss_total :
    forall P : params,
    7 < BS P ->
    BS P <= 65542 ->
    1 <= NB P ->
    (forall (t : byte) (p : bytes), crcf P t p < 2 ^ 32) ->
    L_GC P = false ->
    L_IO P = false ->
    L_SHORT P = false ->
    no_zero_collision P ->
    forall (st0 : state) (G0 : ghost),
    Inv P st0 G0 ->
    w_pending (s_wr st0) = [] ->
    forall h : list (op * bool),
    GhostLog.hist_wf P st0 h ->
    RestartWrite.stream_bound P G0 (map snd (GhostLog.run_log P st0 h)) ->
    forall evs : list event,
    c_ev (w_ctx (s_wr (fst (run P st0 h)))) = rev evs ++ c_ev (w_ctx (s_wr st0)) ->
    CB P st0 h ->
    forall seeds : fsT,
    wr_all_synced (s_wr st0) ->
    c_fs (w_ctx (s_wr st0)) = replay_events seeds (chrono (w_ctx (s_wr st0))) ->
    forall (cut : N) (pol : policy) (hint : list bytes),
    lenN (chrono (w_ctx (s_wr st0))) <= cut ->
    exists (m : nat) (st_r : state),
    (m <= length h)%nat /\
    open P (replay_events seeds (power_events (chrono (w_ctx (s_wr (fst (run P st0 h))))) cut)) None pol
    hint = OpenOk st_r /\
    (forall q : bytes,
    s_get (abs_qs (s_qs st_r)) q = s_get (abs_qs (s_qs (fst (run P st0 (firstn m h))))) q).
Proof. exact C03_power_loss_total. Qed.
Print Assumptions C03_power_loss_total.

(* the I/O trace of any history under any policy with buffering: writes carry consecutive bytes of what the calls log; unlinks come only directly after flush + sync_data + sync_dir of everything written so far *)
Theorem C03_trace_shape :
    forall P : params,
    7 < BS P ->
    BS P <= 65542 ->
    1 <= NB P ->
    (forall (t : byte) (p : bytes), crcf P t p < 2 ^ 32) ->
    L_GC P = false ->
    forall (st0 : state) (G0 : ghost) (h : list (op * bool)) (evs : list event),
    Inv P st0 G0 ->
    w_pending (s_wr st0) = [] ->
    GhostLog.hist_wf P st0 h ->
    RestartWrite.stream_bound P G0 (map snd (GhostLog.run_log P st0 h)) ->
    c_ev (w_ctx (s_wr (fst (run P st0 h)))) = rev evs ++ c_ev (w_ctx (s_wr st0)) ->
    let w0 := s_wr st0 in
    let w := s_wr (fst (run P st0 h)) in
    let NEWALL :=
    ResyncProofs.encs_of P (PersistGc.wabs P w0) (map entry_ser (map snd (GhostLog.run_log P st0 h))) in
    exists Dos : bytes,
    btrace P (FileStream.wlo w0) (w_file w0) (w_off w0) evs Dos (FileStream.wlo w) (w_file w) (os_pos w) /\
    Dos ++ w_pending w = NEWALL /\ CrashTrace.ev_data evs = Dos.
Proof. exact C03_trace_shape. Qed.
Print Assumptions C03_trace_shape.

(* every crash image: contiguous files, only the last created one possibly empty, stream = old stream + byte prefix of everything written since the persist point + zeros; files unlinked by call g imply all bytes of calls 1..g are in the image *)
Theorem C03_image_shape :
    forall P : params,
    7 < BS P ->
    BS P <= 65542 ->
    1 <= NB P ->
    (forall (t : byte) (p : bytes), crcf P t p < 2 ^ 32) ->
    L_GC P = false ->
    forall (st0 : state) (G0 : ghost) (H : list (op * bool)) (evs : list event),
    Inv P st0 G0 ->
    w_pending (s_wr st0) = [] ->
    GhostLog.hist_wf P st0 H ->
    RestartWrite.stream_bound P G0 (map snd (GhostLog.run_log P st0 H)) ->
    c_ev (w_ctx (s_wr (fst (run P st0 H)))) = rev evs ++ c_ev (w_ctx (s_wr st0)) ->
    forall cut k : N,
    let w0 := s_wr st0 in
    let img := fold_left apply_event (crash_events evs cut k) (c_fs (w_ctx w0)) in
    let base := gh_base G0 in
    let T0 := gh_T P G0 in
    let c0 := (FileStream.wlo w0 - base) * FILE_BYTES P + FileStream.wpos P w0 in
    let NEW :=
    fun hh : list (op * bool) =>
    ResyncProofs.encs_of P c0 (map entry_ser (map snd (GhostLog.run_log P st0 hh))) in
    exists (lo' hi : N) (short : bool) (z j : N) (g : nat),
    FileStream.wlo w0 <= lo' /\
    lo' <= hi /\
    hi <= U64_MAX /\
    GcProofs.nodup_keys img /\
    GcProofs.dir_of img (CrashTrace.nfiles lo' hi) /\
    list_wal_numbers img = CrashTrace.nfiles lo' hi /\
    (forall n : N,
    lo' <= n <= hi ->
    exists b : bytes,
    fs_get img (filename n) = Some (FFile b) /\
    lenN b = (if short && (n =? hi) then 0 else FILE_BYTES P)) /\
    j <= lenN (NEW H) /\
    FileStream.stream_of (CrashTrace.zext P img hi) (CrashTrace.nfiles lo' hi) =
    dropN ((lo' - base) * FILE_BYTES P) (T0 ++ zerosN (c0 - lenN T0) ++ takeN j (NEW H) ++ zerosN z) /\
    c0 + j + z = (hi + 1 - base) * FILE_BYTES P /\
    (g <= length H)%nat /\
    lenN (NEW (firstn g H)) <= j /\ lo' <= FileStream.wlo (s_wr (fst (run P st0 (firstn g H)))).
Proof. exact C03_image_shape. Qed.
Print Assumptions C03_image_shape.

(* every call that persists with FlushAndFsync (create_queue / delete_queue under any policy, append / truncate under Always(FlushAndFsync), explicit persist) leaves every write ever made synced and nothing buffered *)
Theorem C03_fsync_durable :
    forall (P : params) (st : state) (o : op) (tick : bool) (st' : state) (out : outcome),
    step P st o tick = (st', out) ->
    fsync_call (s_pol st) o ->
    PersistProofs.wrote out = true ->
    others_synced (s_wr st) ->
    (forall name : bytes, file_synced name (chrono (w_ctx (s_wr st')))) /\ w_pending (s_wr st') = [].
Proof. exact step_fsync_durable. Qed.
Print Assumptions C03_fsync_durable.

(* power-loss model: once everything is synced, a power loss at ANY later point keeps all of it (only later, unsynced writes can be lost) *)
Theorem C03_power_loss_keeps_synced_prefix :
    forall evs later : list event,
    all_synced evs -> power_filter (evs ++ later) = evs ++ power_filter later.
Proof. exact power_filter_all_synced_app. Qed.
Print Assumptions C03_power_loss_keeps_synced_prefix.

(* Always(Flush) and explicit persist(Flush): nothing is left in the user-space buffer, everything accepted has reached the OS *)
Theorem C03_flush_in_os :
    forall (P : params) (st : state) (o : op) (tick : bool) (st' : state) (out : outcome),
    step P st o tick = (st', out) ->
    flush_call (s_pol st) o -> is_io out = false -> w_pending (s_wr st) = [] -> w_pending (s_wr st') = [].
Proof. exact step_flush_in_os. Qed.
Print Assumptions C03_flush_in_os.

(* and the bytes reported are exactly those of the call's write events *)
Theorem C03_flush_bytes :
    forall (P : params) (st : state) (o : op) (tick : bool) (st' : state) (out : outcome)
    (n : N) (a : bool),
    step P st o tick = (st', out) ->
    outcome_bytes out = Some n ->
    w_pending (s_wr st) = [] ->
    s_pol st = PAlways a \/
    (exists q : bytes, o = OCreate q) \/ (exists (q : bytes) (h : list bytes), o = ODelete q h) ->
    w_pending (s_wr st') = [] /\
    ev_bytes (c_ev (w_ctx (s_wr st'))) = ev_bytes (c_ev (w_ctx (s_wr st))) + n.
Proof. exact step_flush_in_os_bytes. Qed.
Print Assumptions C03_flush_bytes.

(* invariant of every call: all files except the one being written are fully synced (a roll-over syncs the old file before leaving it) *)
Theorem C03_other_files_synced :
    forall (P : params) (st : state) (o : op) (tick : bool),
    others_synced (s_wr st) -> others_synced (s_wr (fst (step P st o tick))).
Proof. exact step_others_synced. Qed.
Print Assumptions C03_other_files_synced.

(* garbage collection: every unlink comes after a flush + sync_data + sync_dir of the current file with nothing buffered and (given the invariant) every file synced: a WAL file is never removed while what supersedes it is volatile *)
Theorem C03_unlinks_after_sync :
    forall P : params,
    L_GC P = false ->
    forall (st : state) (hint : list bytes) (st' : state) (r : res N) (new : list event),
    run_gc_if_necessary P st hint = (st', r) ->
    c_ev (w_ctx (s_wr st')) = new ++ c_ev (w_ctx (s_wr st)) ->
    (exists name : bytes, In (EvUnlink name) new) ->
    exists (unlinks older : list event) (stm : state),
    let f := filename (w_file (s_wr st')) in
    new = unlinks ++ [EvSyncDir; EvSyncData f; EvFlush f] ++ older /\
    Forall is_unlink unlinks /\
    Forall (fun e : event => ~ is_unlink e) older /\
    c_ev (w_ctx (s_wr stm)) = [EvSyncDir; EvSyncData f; EvFlush f] ++ older ++ c_ev (w_ctx (s_wr st)) /\
    w_file (s_wr stm) = w_file (s_wr st') /\
    w_pending (s_wr stm) = [] /\
    (others_synced (s_wr st) -> forall name : bytes, file_synced name (chrono (w_ctx (s_wr stm)))).
Proof. exact gc_unlinks_after_sync. Qed.
Print Assumptions C03_unlinks_after_sync.

(* for whole histories: every unlink in the trace is guarded by such a sync group, with no write in between *)
Theorem C03_unlink_guarded :
    forall P : params,
    L_GC P = false ->
    forall (h : list (op * bool)) (st : state),
    unlink_guarded (chrono (w_ctx (s_wr st))) -> unlink_guarded (chrono (w_ctx (s_wr (fst (run P st h))))).
Proof. exact run_unlink_guarded. Qed.
Print Assumptions C03_unlink_guarded.

(* spelled out *)
Theorem C03_no_write_between :
    forall (evs pre : list event) (name : bytes) (post : list event),
    unlink_guarded evs ->
    evs = pre ++ EvUnlink name :: post ->
    exists (pre1 : list event) (f : bytes) (pre2 : list event),
    pre = pre1 ++ [EvFlush f; EvSyncData f; EvSyncDir] ++ pre2 /\
    (forall (n : bytes) (off : N) (d : bytes), ~ In (EvWrite n off d) pre2).
Proof. exact unlink_guarded_no_write. Qed.
Print Assumptions C03_no_write_between.

(* the invariants hold for whatever open returns *)
Theorem C03_open_establishes :
    forall (P : params) (fs : fsT) (plan : option fplan) (pol : policy) (hint : list bytes) (st : state),
    open P fs plan pol hint = OpenOk st ->
    others_synced (s_wr st) /\ (L_GC P = false -> unlink_guarded (chrono (w_ctx (s_wr st)))).
Proof. exact open_invariants. Qed.
Print Assumptions C03_open_establishes.

(* under every policy the same bytes are written (C14): policies differ only in when they are flushed *)
Theorem C03_policy_independent_content :
    forall (P : params) (h1 h2 : list (op * bool)) (s1 s2 : state),
    L_GC P = false ->
    map fst h1 = map fst h2 ->
    seqw s1 s2 ->
    let '(s1', o1) := run P s1 h1 in let '(s2', o2) := run P s2 h2 in o1 = o2 /\ seqw s1' s2'.
Proof. exact run_policy_independent. Qed.
Print Assumptions C03_policy_independent_content.

