(* PropC03.v — C03: persisted operations survive any later crash, under every policy (event-trace level). chrono = the I/O trace in chronological order; file_synced name evs = every write to that file is followed by a sync_data of it; power_filter = the power-loss model of the drivers (a write survives only if its file was synced afterwards).
   Statements only; each theorem is closed by `exact <lemma>`; proofs live in the imported files. *)
From Coq Require Import Lia NArith List.
From MRL Require Import Bytes Params Names Frame Record Mem Rolling Log Driver Hist WriterProofs PersistProofs PolicyProofs.

(* every call that persists with FlushAndFsync (create_queue / delete_queue under any policy, append / truncate under Always(FlushAndFsync), explicit persist) leaves every write ever made synced and nothing buffered *)
Theorem C03_fsync_durable :
    forall (P : params) (st : state) (o : op) (tick : bool) (st' : state) (out : outcome),
    step P st o tick = (st', out) ->
    fsync_call (s_pol st) o ->
    PersistProofs.wrote out = true ->
    others_synced (s_wr st) ->
    (forall name : bytes, file_synced name (chrono (w_ctx (s_wr st')))) /\ w_pending (s_wr st') = [].
Proof. exact step_fsync_durable. Qed.
Print Assumptions C03_fsync_durable.

(* power-loss model: once everything is synced, a power loss at ANY later point keeps all of it (only later, unsynced writes can be lost) *)
Theorem C03_power_loss_keeps_synced_prefix :
    forall evs later : list event,
    all_synced evs -> power_filter (evs ++ later) = evs ++ power_filter later.
Proof. exact power_filter_all_synced_app. Qed.
Print Assumptions C03_power_loss_keeps_synced_prefix.

(* Always(Flush) and explicit persist(Flush): nothing is left in the user-space buffer, everything accepted has reached the OS *)
Theorem C03_flush_in_os :
    forall (P : params) (st : state) (o : op) (tick : bool) (st' : state) (out : outcome),
    step P st o tick = (st', out) ->
    flush_call (s_pol st) o -> is_io out = false -> w_pending (s_wr st) = [] -> w_pending (s_wr st') = [].
Proof. exact step_flush_in_os. Qed.
Print Assumptions C03_flush_in_os.

(* and the bytes reported are exactly those of the call's write events *)
Theorem C03_flush_bytes :
    forall (P : params) (st : state) (o : op) (tick : bool) (st' : state) (out : outcome)
    (n : N) (a : bool),
    step P st o tick = (st', out) ->
    outcome_bytes out = Some n ->
    w_pending (s_wr st) = [] ->
    s_pol st = PAlways a \/
    (exists q : bytes, o = OCreate q) \/ (exists (q : bytes) (h : list bytes), o = ODelete q h) ->
    w_pending (s_wr st') = [] /\
    ev_bytes (c_ev (w_ctx (s_wr st'))) = ev_bytes (c_ev (w_ctx (s_wr st))) + n.
Proof. exact step_flush_in_os_bytes. Qed.
Print Assumptions C03_flush_bytes.

(* invariant of every call: all files except the one being written are fully synced (a roll-over syncs the old file before leaving it) *)
Theorem C03_other_files_synced :
    forall (P : params) (st : state) (o : op) (tick : bool),
    others_synced (s_wr st) -> others_synced (s_wr (fst (step P st o tick))).
Proof. exact step_others_synced. Qed.
Print Assumptions C03_other_files_synced.

(* garbage collection: every unlink comes after a flush + sync_data + sync_dir of the current file with nothing buffered and (given the invariant) every file synced: a WAL file is never removed while what supersedes it is volatile *)
Theorem C03_unlinks_after_sync :
    forall P : params,
    L_GC P = false ->
    forall (st : state) (hint : list bytes) (st' : state) (r : res N) (new : list event),
    run_gc_if_necessary P st hint = (st', r) ->
    c_ev (w_ctx (s_wr st')) = new ++ c_ev (w_ctx (s_wr st)) ->
    (exists name : bytes, In (EvUnlink name) new) ->
    exists (unlinks older : list event) (stm : state),
    let f := filename (w_file (s_wr st')) in
    new = unlinks ++ [EvSyncDir; EvSyncData f; EvFlush f] ++ older /\
    Forall is_unlink unlinks /\
    Forall (fun e : event => ~ is_unlink e) older /\
    c_ev (w_ctx (s_wr stm)) = [EvSyncDir; EvSyncData f; EvFlush f] ++ older ++ c_ev (w_ctx (s_wr st)) /\
    w_file (s_wr stm) = w_file (s_wr st') /\
    w_pending (s_wr stm) = [] /\
    (others_synced (s_wr st) -> forall name : bytes, file_synced name (chrono (w_ctx (s_wr stm)))).
Proof. exact gc_unlinks_after_sync. Qed.
Print Assumptions C03_unlinks_after_sync.

(* for whole histories: every unlink in the trace is guarded by such a sync group, with no write in between *)
Theorem C03_unlink_guarded :
    forall P : params,
    L_GC P = false ->
    forall (h : list (op * bool)) (st : state),
    unlink_guarded (chrono (w_ctx (s_wr st))) -> unlink_guarded (chrono (w_ctx (s_wr (fst (run P st h))))).
Proof. exact run_unlink_guarded. Qed.
Print Assumptions C03_unlink_guarded.

(* spelled out *)
Theorem C03_no_write_between :
    forall (evs pre : list event) (name : bytes) (post : list event),
    unlink_guarded evs ->
    evs = pre ++ EvUnlink name :: post ->
    exists (pre1 : list event) (f : bytes) (pre2 : list event),
    pre = pre1 ++ [EvFlush f; EvSyncData f; EvSyncDir] ++ pre2 /\
    (forall (n : bytes) (off : N) (d : bytes), ~ In (EvWrite n off d) pre2).
Proof. exact unlink_guarded_no_write. Qed.
Print Assumptions C03_no_write_between.

(* the invariants hold for whatever open returns *)
Theorem C03_open_establishes :
    forall (P : params) (fs : fsT) (plan : option fplan) (pol : policy) (hint : list bytes) (st : state),
    open P fs plan pol hint = OpenOk st ->
    others_synced (s_wr st) /\ (L_GC P = false -> unlink_guarded (chrono (w_ctx (s_wr st)))).
Proof. exact open_invariants. Qed.
Print Assumptions C03_open_establishes.

(* under every policy the same bytes are written (C14): policies differ only in when they are flushed *)
Theorem C03_policy_independent_content :
    forall (P : params) (h1 h2 : list (op * bool)) (s1 s2 : state),
    L_GC P = false ->
    map fst h1 = map fst h2 ->
    seqw s1 s2 ->
    let '(s1', o1) := run P s1 h1 in let '(s2', o2) := run P s2 h2 in o1 = o2 /\ seqw s1' s2'.
Proof. exact run_policy_independent. Qed.
Print Assumptions C03_policy_independent_content.

