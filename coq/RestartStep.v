(* RestartStep.v — (4) of task T4a: every successful API call preserves the restart invariant;
   the ghost log grows by exactly the entries the call logged (GhostLog.step_log). *)
From Coq Require Import Lia ZArith ZifyN ZifyNat ZifyBool List Sorted.
From MRL Require Import Bytes BytesProofs Params Names NamesProofs Frame Record Mem Spec Rolling Log
  Driver NoopProofs SpecRefine RecordProofs StreamProofs PolicyProofs GcProofs GhostLog ReplaySpec
  HandleProofs FileStream ResyncProofs RestartInv RestartWrite RestartGc.

Arguments N.add : simpl never.
Arguments N.sub : simpl never.
Arguments N.mul : simpl never.
Arguments N.eqb : simpl never.
Arguments N.ltb : simpl never.
Arguments N.leb : simpl never.
Arguments N.div : simpl never.
Arguments N.modulo : simpl never.
Arguments N.min : simpl never.
Arguments N.max : simpl never.
Arguments N.pow : simpl never.

(* ====================================================================== *)
(* 0. legality of the entries the calls log (no parameters)               *)
(* ====================================================================== *)

Lemma legal_create qs lo G q F :
  LInv qs lo G -> qs_get qs q = None -> t_replay [] 0 (gh_ALL G) = Some F ->
  legal F (EPosition q 0).
Proof.
  intros HL Eq EF. pose proof (LInv_tget qs lo G F HL EF q) as Ht. rewrite Eq in Ht.
  destruct (t_get F q) as [v|] eqn:Et; [contradiction|]. cbn [legal]. left. now split.
Qed.

Lemma legal_present qs lo G q m F :
  LInv qs lo G -> qs_get qs q = Some m -> t_replay [] 0 (gh_ALL G) = Some F ->
  exists rf, t_get F q = Some (rf, next_position m).
Proof.
  intros HL Eq EF. pose proof (LInv_tget qs lo G F HL EF q) as Ht. rewrite Eq in Ht.
  destruct (t_get F q) as [[rf nx]|] eqn:Et; [|contradiction].
  unfold untag_q, abs_q in Ht. cbn [fst snd] in Ht. inversion Ht; subst. now exists rf.
Qed.

Lemma legal_delete qs lo G q m p F :
  LInv qs lo G -> qs_get qs q = Some m -> t_replay [] 0 (gh_ALL G) = Some F ->
  legal F (EDelete q p).
Proof.
  intros HL Eq EF. destruct (legal_present _ _ _ _ _ _ HL Eq EF) as (rf & Et).
  cbn [legal]. rewrite Et. discriminate.
Qed.

Lemma legal_truncate qs lo G q m p F :
  LInv qs lo G -> qs_get qs q = Some m -> t_replay [] 0 (gh_ALL G) = Some F ->
  legal F (ETruncate q p).
Proof.
  intros HL Eq EF. destruct (legal_present _ _ _ _ _ _ HL Eq EF) as (rf & Et).
  cbn [legal]. rewrite Et. discriminate.
Qed.

Lemma legal_append qs lo G q m position payloads F :
  LInv qs lo G -> qs_get qs q = Some m -> next_position m <= position -> payloads <> [] ->
  t_replay [] 0 (gh_ALL G) = Some F ->
  legal F (EAppend q position (number_from position payloads)).
Proof.
  intros HL Eq Hge Hne EF. destruct (legal_present _ _ _ _ _ _ HL Eq EF) as (rf & Et).
  cbn [legal]. exists rf, (next_position m). split; [exact Et|]. split; [exact Hge|].
  split; [|now exists payloads]. intros H. apply number_from_nil_iff in H. contradiction.
Qed.

Lemma set_qs_persist_on_policy st tick qs :
  set_qs (persist_on_policy st tick) qs = persist_on_policy (set_qs st qs) tick.
Proof.
  unfold persist_on_policy. cbn [set_qs s_pol]. destruct (s_pol st) as [|a|a]; [reflexivity| |reflexivity].
  destruct tick; reflexivity.
Qed.

Lemma app_cons_assoc {A} (l : list A) x r : l ++ x :: r = (l ++ [x]) ++ r.
Proof. now rewrite <- app_assoc. Qed.

Section RestartStep.
Variable P : params.
Hypothesis HBS_lo : 7 < BS P.
Hypothesis HBS_hi : BS P <= 65542.
Hypothesis HNB : 1 <= NB P.
Hypothesis Hcrc : forall t p, crcf P t p < 2 ^ 32.
Hypothesis HGC : L_GC P = false.

Local Notation FB := (FILE_BYTES P).
Local Notation Inv := (Inv P).
Local Notation stream_bound := (stream_bound P).
Local Notation HW f := (f P HBS_lo HBS_hi HNB Hcrc) (only parsing).
Local Notation HG f := (f P HBS_lo HBS_hi HNB Hcrc HGC) (only parsing).

(* one write followed by the in-memory update, with the bound carried to the rest of the log *)
Lemma inv_write_then st G e rest st1 r1 qs' :
  Inv st G -> wf_entry e -> stream_bound G (e :: rest) ->
  (forall F, t_replay [] 0 (gh_ALL G) = Some F -> legal F e) ->
  write_entry P st e = (st1, r1) ->
  apply_entry (s_qs st) (w_file (s_wr st)) e = Some qs' -> qs_wf qs' ->
  (exists n, r1 = Ok n) /\ s_qs st1 = s_qs st /\ s_pol st1 = s_pol st /\
  Inv (set_qs st1 qs') (gh_snoc G (w_file (s_wr st)) e) /\
  stream_bound (gh_snoc G (w_file (s_wr st)) e) rest.
Proof.
  intros HI Hwf Hb Hleg Ew Hap Hwf'.
  assert (Hb1 : stream_bound G [e]).
  { eapply stream_bound_prefix; try eassumption. exact Hb. }
  destruct (HW inv_write_entry st G e st1 r1 qs' HI Hwf Hb1 Hleg Ew Hap Hwf')
    as (Hr & Eqs & Epol & _ & _ & HI').
  repeat (split; [assumption|]). now apply stream_bound_snoc.
Qed.

Theorem inv_step st G o tick st' out :
  Inv st G -> op_wf_strict (s_qs st) o ->
  stream_bound G (map snd (step_log P st o)) ->
  step P st o tick = (st', out) -> (forall e, out <> OutIo e) ->
  exists G', Inv st' G' /\ gh_base G' = gh_base G /\ gh_dropped G' = gh_dropped G /\
             gh_log G' = gh_log G ++ step_log P st o.
Proof.
  intros HI Hop Hb Hstep Hno.
  pose proof HI as (HP & HL). pose proof HL as (Hqwf & _).
  pose proof (step_log_wf P st o Hqwf (op_wf_strict_wf _ _ Hop)) as Hlwf.
  assert (Hsame : forall G0, Inv st G0 -> step_log P st o = [] ->
            exists G', Inv st G' /\ gh_base G' = gh_base G0 /\ gh_dropped G' = gh_dropped G0 /\
                       gh_log G' = gh_log G0 ++ step_log P st o).
  { intros G0 H0 ->. exists G0. rewrite app_nil_r. auto. }
  destruct o as [q|q hint|q pos payloads|q p hint|a]; cbn [step step_log] in *.
  - (* ---------- create ---------- *)
    unfold create_queue in Hstep. unfold create_log in *. rewrite qs_contains_get in *.
    destruct (qs_get (s_qs st) q) as [m|] eqn:Eq.
    { inversion Hstep; subst. now apply Hsame. }
    destruct (write_entry P st (EPosition q 0)) as [st1 r1] eqn:Ew.
    cbn [map snd] in Hb. inversion Hlwf as [|? ? Hwf _]; subst. cbn [snd] in Hwf.
    assert (Hap : apply_entry (s_qs st) (w_file (s_wr st)) (EPosition q 0) =
                  Some (qs_put (s_qs st) q mq_default)).
    { cbn [apply_entry]. unfold ack_position. now rewrite Eq. }
    assert (Hwf' : qs_wf (qs_put (s_qs st) q mq_default)).
    { apply qs_wf_put; [exact Hqwf|exact Hop|]. cbn. lia. }
    destruct (inv_write_then st G _ [] st1 r1 _ HI Hwf Hb
                (fun F => legal_create _ _ _ q F HL Eq) Ew Hap Hwf')
      as ((k & ->) & Eqs & Epol & HI1 & _).
    inversion Hstep; subst st' out. clear Hstep.
    exists (gh_snoc G (w_file (s_wr st)) (EPosition q 0)).
    split; [|split; [reflexivity|split; [reflexivity|apply gh_snoc_log]]].
    cbn [persist set_wr s_qs]. rewrite Eqs.
    exact (inv_persist P (set_qs st1 (qs_put (s_qs st) q mq_default)) true _ HI1).
  - (* ---------- delete ---------- *)
    unfold delete_queue in Hstep. unfold delete_log in *.
    destruct (qs_get (s_qs st) q) as [m|] eqn:Eq.
    2:{ inversion Hstep; subst. now apply Hsame. }
    set (e := EDelete q (next_position m)) in *.
    destruct (write_entry P st e) as [st1 r1] eqn:Ew.
    cbn [map snd] in Hb. inversion Hlwf as [|? ? Hwf Hlwf']; subst. cbn [snd] in Hwf.
    assert (Hap : apply_entry (s_qs st) (w_file (s_wr st)) e = Some (qs_remove (s_qs st) q))
      by reflexivity.
    destruct (inv_write_then st G e _ st1 r1 _ HI Hwf Hb
                (fun F => legal_delete _ _ _ q m _ F HL Eq) Ew Hap (qs_wf_remove _ q Hqwf))
      as ((k & ->) & Eqs & Epol & HI1 & Hb1).
    rewrite Eqs in *.
    set (st2 := set_qs st1 (qs_remove (s_qs st) q)) in *.
    destruct (run_gc_if_necessary P st2 hint) as [st3 [k3|e3]] eqn:Egc;
      inversion Hstep; subst st' out; [|exfalso; eapply Hno; reflexivity]. clear Hstep.
    destruct (HG inv_gc st2 _ hint st3 k3 HI1 Hb1 Egc) as (G3 & HI3 & _ & _ & Eb & Ed & Elog).
    exists G3. split; [exact (inv_persist P st3 true G3 HI3)|].
    split; [exact Eb|]. split; [exact Ed|].
    rewrite Elog, gh_snoc_log. now rewrite <- app_assoc.
  - (* ---------- append ---------- *)
    unfold append_records in Hstep. rewrite append_log_target in *.
    destruct (qs_get (s_qs st) q) as [m|] eqn:Eq.
    2:{ inversion Hstep; subst. now apply Hsame. }
    destruct (match pos with
              | Some p => if p + 1 =? next_position m then Some (OutAppend None 0)
                          else if p <? next_position m then Some OutPast else None
              | None => None end) as [o|] eqn:Ee.
    { rewrite (append_early_target_none _ _ _ Ee) in *. inversion Hstep; subst. now apply Hsame. }
    rewrite (append_early_target _ _ Ee) in *.
    pose proof (append_target_ge _ _ _ (append_early_target _ _ Ee)) as Hge.
    set (position := match pos with Some p => p | None => next_position m end) in *.
    destruct payloads as [|x r].
    { cbn [number_from] in Hstep. inversion Hstep; subst. now apply Hsame. }
    set (payloads := x :: r) in *.
    assert (Hpne : payloads <> []) by discriminate.
    set (recs := number_from position payloads) in *.
    set (e := EAppend q position recs) in *.
    assert (Hrne : recs <> []).
    { intros H. apply number_from_nil_iff in H. contradiction. }
    destruct (append_all_some payloads m (w_file (s_wr st)) position Hge) as (m' & Em).
    fold recs in Em.
    assert (Hstep' : match write_entry P st e with
                     | (st1, Err e0) => (st1, OutIo e0)
                     | (st1, Ok n) =>
                         (set_qs (persist_on_policy st1 tick)
                                 (qs_put (s_qs (persist_on_policy st1 tick)) q m'),
                          OutAppend (Some (last_pos_of position recs)) n)
                     end = (st', out)).
    { rewrite <- Hstep. unfold recs, payloads. cbn [number_from]. fold payloads. fold recs.
      fold e. destruct (write_entry P st e) as [st1 [n|e0]]; [|reflexivity].
      unfold recs, payloads in Em. cbn [number_from] in Em. now rewrite Em. }
    clear Hstep.
    destruct (write_entry P st e) as [st1 r1] eqn:Ew.
    change (map snd [(w_file (s_wr st), e)]) with [e] in Hb.
    inversion Hlwf as [|? ? Hwf _]; subst. cbn [snd] in Hwf.
    assert (Hap : apply_entry (s_qs st) (w_file (s_wr st)) e = Some (qs_put (s_qs st) q m')).
    { unfold e. cbn [apply_entry]. rewrite qs_contains_get, Eq, Eq, Em. reflexivity. }
    assert (Hwf' : qs_wf (qs_put (s_qs st) q m')).
    { destruct (Hqwf q m (qs_get_In_eq _ _ _ Eq)) as (Hn & _).
      apply qs_wf_put; [exact Hqwf|exact Hn|].
      rewrite (append_all_next payloads m _ position m' Hge Em). unfold payloads at 1.
      destruct Hop as (_ & Hop). unfold position. destruct pos as [p0|]; [exact Hop|].
      exact (Hop m Eq). }
    destruct (inv_write_then st G e [] st1 r1 _ HI Hwf Hb
                (fun F => legal_append _ _ _ q m position payloads F HL Eq Hge Hpne) Ew Hap Hwf')
      as ((k & ->) & Eqs & Epol & HI1 & _).
    inversion Hstep'; subst st' out. clear Hstep'.
    exists (gh_snoc G (w_file (s_wr st)) e).
    split; [|split; [reflexivity|split; [reflexivity|apply gh_snoc_log]]].
    rewrite persist_on_policy_qs, Eqs, set_qs_persist_on_policy.
    exact (inv_persist_on_policy P _ tick _ HI1).
  - (* ---------- truncate ---------- *)
    unfold truncate in Hstep. unfold truncate_log in *.
    destruct (qs_get (s_qs st) q) as [m|] eqn:Eq.
    2:{ inversion Hstep; subst. now apply Hsame. }
    set (e := ETruncate q p) in *.
    destruct (write_entry P st e) as [st1 r1] eqn:Ew.
    cbn [map snd] in Hb. inversion Hlwf as [|? ? Hwf Hlwf']; subst. cbn [snd] in Hwf.
    destruct (truncate_head m p) as [m' evicted] eqn:Et. cbn [fst] in *.
    assert (Hap : apply_entry (s_qs st) (w_file (s_wr st)) e = Some (qs_put (s_qs st) q m')).
    { unfold e. cbn [apply_entry]. now rewrite Eq, Et. }
    assert (Hwf' : qs_wf (qs_put (s_qs st) q m')).
    { destruct (Hqwf q m (qs_get_In_eq _ _ _ Eq)) as (Hn & Hnx).
      apply qs_wf_put; [exact Hqwf|exact Hn|].
      pose proof (truncate_head_next m p) as Hth. rewrite Et in Hth. cbn [fst] in Hth.
      cbn [op_wf_strict] in Hop. destruct Hth as [-> | ->]; lia. }
    destruct (inv_write_then st G e _ st1 r1 _ HI Hwf Hb
                (fun F => legal_truncate _ _ _ q m _ F HL Eq) Ew Hap Hwf')
      as ((k & ->) & Eqs & Epol & HI1 & Hb1).
    rewrite Eqs in *.
    set (st2 := set_qs st1 (qs_put (s_qs st) q m')) in *.
    destruct (run_gc_if_necessary P st2 hint) as [st3 [k3|e3]] eqn:Egc;
      inversion Hstep; subst st' out; [|exfalso; eapply Hno; reflexivity]. clear Hstep.
    destruct (HG inv_gc st2 _ hint st3 k3 HI1 Hb1 Egc) as (G3 & HI3 & _ & _ & Eb & Ed & Elog).
    exists G3. split; [exact (inv_persist_on_policy P st3 tick G3 HI3)|].
    split; [exact Eb|]. split; [exact Ed|].
    rewrite Elog, gh_snoc_log. now rewrite <- app_assoc.
  - (* ---------- persist ---------- *)
    inversion Hstep; subst st' out. exists G. rewrite app_nil_r.
    split; [exact (inv_persist P st a G HI)|]. auto.
Qed.

(* ---------- whole histories ---------- *)
Theorem inv_run h : forall st G st' outs,
  Inv st G -> hist_wf P st h ->
  stream_bound G (map snd (run_log P st h)) ->
  run P st h = (st', outs) -> Forall no_io outs ->
  exists G', Inv st' G' /\ gh_base G' = gh_base G /\ gh_dropped G' = gh_dropped G /\
             gh_log G' = gh_log G ++ run_log P st h.
Proof.
  induction h as [|[o tick] h IH]; intros st G st' outs HI Hwf Hb Hrun Hno.
  - cbn [run] in Hrun. inversion Hrun; subst. exists G. cbn [run_log]. rewrite app_nil_r. auto.
  - cbn [run run_log hist_wf] in *. destruct Hwf as (Hop & Hwf).
    destruct (step P st o tick) as [st1 out] eqn:Es. cbn [fst] in *.
    destruct (run P st1 h) as [st2 outs2] eqn:Er. inversion Hrun; subst st' outs. clear Hrun.
    inversion Hno as [|? ? Hno1 Hno2]; subst.
    rewrite map_app in Hb.
    assert (Hb1 : stream_bound G (map snd (step_log P st o))).
    { eapply stream_bound_prefix; eassumption. }
    destruct (inv_step st G o tick st1 out HI Hop Hb1 Es Hno1) as (G1 & HI1 & Eb1 & Ed1 & El1).
    assert (Hb2 : stream_bound G1 (map snd (run_log P st1 h))).
    { unfold RestartWrite.stream_bound in *. rewrite Eb1.
      unfold gh_ALL in *. rewrite Ed1, El1.
      replace ((gh_dropped G ++ map snd (gh_log G ++ step_log P st o)) ++ map snd (run_log P st1 h))
        with ((gh_dropped G ++ map snd (gh_log G)) ++
              map snd (step_log P st o) ++ map snd (run_log P st1 h)); [exact Hb|].
      rewrite map_app, !app_assoc. reflexivity. }
    destruct (IH st1 G1 st2 outs2 HI1 Hwf Hb2 Er Hno2) as (G2 & HI2 & Eb2 & Ed2 & El2).
    exists G2. split; [exact HI2|]. split; [congruence|]. split; [congruence|].
    rewrite El2, El1. now rewrite <- app_assoc.
Qed.

End RestartStep.

Print Assumptions inv_step.
Print Assumptions inv_run.
