(* PersistProofs.v — property C03 at the level of the event trace:
   (a) what was persisted with fsync is on stable storage: after persist(FlushAndFsync) every
       write event of every file is followed by a sync of that file and the BufWriter is empty,
       so the power-loss model of Driver.v (a write survives only if its file was synced
       afterwards) keeps every write;
   (b) the GC never unlinks a file while what supersedes it is volatile: every unlink is preceded
       by flush + sync_data + sync_dir of the current file with no write in between.
   Both for the code as it is now (L_GC P = false). *)
From Coq Require Import Lia ZArith ZifyN ZifyNat ZifyBool.
From MRL Require Import Bytes BytesProofs Params Names NamesProofs Frame Record Mem Rolling Log
                        Driver Hist EffectsProofs WriterProofs GcProofs.

Arguments N.add : simpl never.
Arguments N.sub : simpl never.
Arguments N.mul : simpl never.
Arguments N.eqb : simpl never.
Arguments N.ltb : simpl never.
Arguments N.leb : simpl never.
Arguments N.div : simpl never.
Arguments N.modulo : simpl never.

(* ================================================================ (1) traces *)

(* the trace of a context in chronological order *)
Definition chrono (c : ioctx) : list event := rev (c_ev c).

(* chronological list: every write to `name` is followed, later, by a sync of `name` *)
Definition file_synced (name : bytes) (evs : list event) : Prop :=
  forall pre off d post, evs = pre ++ EvWrite name off d :: post -> In (EvSyncData name) post.

Definition all_synced (evs : list event) : Prop := forall name, file_synced name evs.

(* the same thing read off a most-recent-first list: scanning from the most recent event,
   a sync of `name` is met before any write to `name` *)
Fixpoint rsynced (name : bytes) (l : list event) : Prop :=
  match l with
  | [] => True
  | EvSyncData n :: r => n = name \/ rsynced name r
  | EvWrite n _ _ :: r => n <> name /\ rsynced name r
  | _ :: r => rsynced name r
  end.

Lemma snoc_split {A} (evs : list A) e pre x post :
  evs ++ [e] = pre ++ x :: post ->
  (post = [] /\ evs = pre /\ e = x) \/ (exists post', post = post' ++ [e] /\ evs = pre ++ x :: post').
Proof.
  destruct (exists_last (l := x :: post)) as [l' [y Hy]]; [discriminate|].
  destruct post as [|p post0].
  - intros H. apply app_inj_tail in H. left. destruct H as [H1 H2]. auto.
  - intros H. right.
    destruct (exists_last (l := p :: post0)) as [post' [z Hz]]; [discriminate|].
    rewrite Hz in H. change (pre ++ x :: post' ++ [z]) with (pre ++ (x :: post') ++ [z]) in H.
    rewrite app_assoc in H. apply app_inj_tail in H. destruct H as [H1 H2]. subst z.
    exists post'. split; [exact Hz|exact H1].
Qed.

Lemma file_synced_nil name : file_synced name [].
Proof. intros pre off d post H. destruct pre; discriminate. Qed.

Lemma file_synced_snoc_drop name evs e :
  file_synced name (evs ++ [e]) -> e <> EvSyncData name -> file_synced name evs.
Proof.
  intros H Hne pre off d post Hd.
  specialize (H pre off d (post ++ [e])).
  rewrite Hd in H. rewrite <- app_assoc in H. specialize (H eq_refl).
  apply in_app_or in H. destruct H as [H|H]; [exact H|].
  destruct H as [H|[]]. congruence.
Qed.

Lemma file_synced_snoc_keep name evs e :
  file_synced name evs -> (forall off d, e <> EvWrite name off d) -> file_synced name (evs ++ [e]).
Proof.
  intros H Hne pre off d post Hd. apply snoc_split in Hd.
  destruct Hd as [[_ [_ He]]|[post' [Hp He]]].
  - exfalso. eapply Hne; eassumption.
  - subst post. apply in_or_app. left. eapply H; eassumption.
Qed.

Lemma file_synced_snoc_sync name evs : file_synced name (evs ++ [EvSyncData name]).
Proof.
  intros pre off d post Hd. apply snoc_split in Hd.
  destruct Hd as [[_ [_ He]]|[post' [Hp He]]]; [discriminate|].
  subst post. apply in_or_app. right. left. reflexivity.
Qed.

Lemma file_synced_snoc_write name evs off d : ~ file_synced name (evs ++ [EvWrite name off d]).
Proof. intros H. exact (H evs off d [] eq_refl). Qed.

Theorem rsynced_iff name l : file_synced name (rev l) <-> rsynced name l.
Proof.
  induction l as [|e l IH]; cbn [rev rsynced].
  - split; [auto|intros _; apply file_synced_nil].
  - assert (Hgen : (forall off d, e <> EvWrite name off d) -> e <> EvSyncData name ->
                   (file_synced name (rev l ++ [e]) <-> rsynced name l)).
    { intros H1 H2. rewrite <- IH. split.
      - intros H. eapply file_synced_snoc_drop; eassumption.
      - intros H. apply file_synced_snoc_keep; assumption. }
    destruct e as [ |n|n|n len|n off d|n off len ok|n|n| |n];
      try (apply Hgen; intros; discriminate).
    + (* write *)
      destruct (bytes_eqb n name) eqn:En.
      * apply bytes_eqb_eq in En. subst n. split.
        -- intros H. exfalso. eapply file_synced_snoc_write; exact H.
        -- intros [H _]. congruence.
      * apply bytes_eqb_neq in En. split.
        -- intros H. split; [exact En|]. apply IH.
           eapply file_synced_snoc_drop; [exact H|discriminate].
        -- intros [_ H]. apply file_synced_snoc_keep; [now apply IH|].
           intros off0 d0 He. inversion He. congruence.
    + (* sync *)
      destruct (bytes_eqb n name) eqn:En.
      * apply bytes_eqb_eq in En. subst n. split.
        -- intros _. left. reflexivity.
        -- intros _. apply file_synced_snoc_sync.
      * apply bytes_eqb_neq in En. split.
        -- intros H. right. apply IH. eapply file_synced_snoc_drop; [exact H|congruence].
        -- intros [H|H]; [congruence|]. apply file_synced_snoc_keep; [now apply IH|discriminate].
Qed.

(* ---------------------------------------------------------------- the power-loss filter *)

Lemma synced_later_In name evs : In (EvSyncData name) evs -> synced_later name evs = true.
Proof.
  induction evs as [|e r IH]; [intros []|].
  intros [H|H].
  - subst e. cbn [synced_later]. now rewrite bytes_eqb_refl.
  - specialize (IH H). destruct e; cbn [synced_later]; try exact IH.
    rewrite IH. apply orb_true_r.
Qed.

Lemma synced_later_app name evs later :
  synced_later name evs = true -> synced_later name (evs ++ later) = true.
Proof.
  induction evs as [|e r IH]; [discriminate|].
  destruct e; cbn [synced_later app]; try exact IH.
  intros H. apply orb_true_iff in H. destruct H as [H|H]; [now rewrite H|].
  rewrite (IH H). apply orb_true_r.
Qed.

Lemma file_synced_tail name e r : file_synced name (e :: r) -> file_synced name r.
Proof. intros H pre off d post Hd. apply (H (e :: pre) off d post). now rewrite Hd. Qed.

Lemma all_synced_tail e r : all_synced (e :: r) -> all_synced r.
Proof. intros H name. eapply file_synced_tail. apply H. Qed.

(* a power loss at any later moment keeps every event of a fully synced trace *)
Theorem power_filter_all_synced_app evs later :
  all_synced evs -> power_filter (evs ++ later) = evs ++ power_filter later.
Proof.
  induction evs as [|e r IH]; [reflexivity|].
  intros H. pose proof (IH (all_synced_tail _ _ H)) as IHr.
  destruct e as [ |n|n|n len|n off d|n off len ok|n|n| |n]; cbn [power_filter app];
    try (now rewrite IHr).
  rewrite synced_later_app; [now rewrite IHr|].
  apply synced_later_In. apply (H n [] off d r eq_refl).
Qed.

Corollary power_filter_all_synced evs : all_synced evs -> power_filter evs = evs.
Proof.
  intros H. pose proof (power_filter_all_synced_app evs [] H) as E.
  rewrite !app_nil_r in E. exact E.
Qed.

(* ---------------------------------------------------------------- guarded unlinks *)

Definition is_unlink (e : event) : Prop := match e with EvUnlink _ => True | _ => False end.

(* flush + sync_data of file f + sync of the directory, chronologically *)
Definition sync_group (f : bytes) : list event := [EvFlush f; EvSyncData f; EvSyncDir].

(* chronological trace: every unlink is preceded by a sync group, with nothing but other
   unlinks in between (in particular no write) *)
Definition unlink_guarded (evs : list event) : Prop :=
  forall pre name post, evs = pre ++ EvUnlink name :: post ->
    exists pre1 f pre2, pre = pre1 ++ sync_group f ++ pre2 /\ Forall is_unlink pre2.

Lemma ug_nounlink evs : Forall (fun e => ~ is_unlink e) evs -> unlink_guarded evs.
Proof.
  intros H pre name post Hd. exfalso. rewrite Forall_forall in H.
  apply (H (EvUnlink name)); [rewrite Hd; apply in_elt|exact I].
Qed.

Lemma ug_app a b : unlink_guarded a -> unlink_guarded b -> unlink_guarded (a ++ b).
Proof.
  intros Ha Hb pre name post Hd. apply app_eq_app in Hd. destruct Hd as [l [[H1 H2]|[H1 H2]]].
  - destruct l as [|x l'].
    + cbn [app] in H2. rewrite app_nil_r in H1. subst a.
      destruct (Hb [] name post) as [pre1 [f [pre2 [Hp _]]]]; [now rewrite <- H2|].
      destruct pre1; discriminate.
    + cbn [app] in H2. inversion H2; subst x. apply (Ha pre name l'). exact H1.
  - destruct (Hb l name post H2) as [pre1 [f [pre2 [Hp Hf]]]].
    exists (a ++ pre1), f, pre2. split; [|exact Hf]. rewrite H1, Hp. now rewrite app_assoc.
Qed.

Lemma ug_group pre0 f us :
  unlink_guarded pre0 -> Forall is_unlink us -> unlink_guarded (pre0 ++ sync_group f ++ us).
Proof.
  intros H0 Hus. apply ug_app; [exact H0|].
  intros pre name post Hd. apply app_eq_app in Hd. destruct Hd as [l [[H1 H2]|[H1 H2]]].
  - destruct l as [|x l'].
    + rewrite app_nil_r in H1. exists [], f, []. split; [now rewrite <- H1|constructor].
    + cbn [app] in H2. inversion H2; subst x. exfalso.
      assert (Hin : In (EvUnlink name) (sync_group f)) by (rewrite H1; apply in_elt).
      cbn in Hin. intuition discriminate.
  - exists [], f, l. split; [exact H1|].
    rewrite H2 in Hus. apply Forall_app in Hus. apply Hus.
Qed.

(* ================================================================ (2) the sync invariant *)

(* every file other than the one being written has all its writes synced *)
Definition others_synced (w : rwriter) : Prop :=
  forall name, name <> filename (w_file w) -> file_synced name (chrono (w_ctx w)).

(* every file has all its writes synced *)
Definition wr_all_synced (w : rwriter) : Prop := all_synced (chrono (w_ctx w)).

(* the version on file numbers (names of distinct numbers below 2^64 differ) *)
Lemma others_synced_numbers w n :
  others_synced w -> n <= U64_MAX -> w_file w <= U64_MAX -> n <> w_file w ->
  file_synced (filename n) (chrono (w_ctx w)).
Proof.
  intros H Hn Hc Hne. apply H. intros E. apply Hne.
  pose proof (parse_print n Hn) as P1. pose proof (parse_print (w_file w) Hc) as P2.
  rewrite E in P1. congruence.
Qed.

Lemma wr_all_synced_others w : wr_all_synced w -> others_synced w.
Proof. intros H name _. apply H. Qed.

(* events that are all writes to one file *)
Definition cur_writes (cur : bytes) (ws : list event) : Prop :=
  Forall (fun e => exists off d, e = EvWrite cur off d) ws.

Lemma rsynced_writes name cur ws l :
  cur_writes cur ws -> name <> cur -> rsynced name l -> rsynced name (ws ++ l).
Proof.
  intros Hw Hne Hl. induction Hw as [|e ws [off [d He]] _ IH]; [exact Hl|].
  subst e. cbn [app rsynced]. split; [congruence|exact IH].
Qed.

Lemma cur_writes_nounlink cur ws : cur_writes cur ws -> Forall (fun e => ~ is_unlink e) ws.
Proof.
  intros H. eapply Forall_impl; [|exact H]. intros e [off [d He]]. subst e. cbn. auto.
Qed.

Section Writer.
Variable P : params.

Definition cur_name (w : rwriter) : bytes := filename (w_file w).

(* ---------------------------------------------------------------- what each primitive adds *)
Lemma flush_buf_ev w :
  exists ws, c_ev (w_ctx (flush_buf w)) = ws ++ c_ev (w_ctx w) /\ cur_writes (cur_name w) ws.
Proof.
  unfold flush_buf. destruct (w_pending w) as [|b r].
  - exists []. split; [reflexivity|constructor].
  - exists [EvWrite (filename (w_file w)) (os_pos w) (b :: r)]. split; [reflexivity|].
    constructor; [|constructor]. eexists; eexists; reflexivity.
Qed.

Lemma flush_buf_same w :
  w_file (flush_buf w) = w_file w /\ w_files (flush_buf w) = w_files w /\
  w_off (flush_buf w) = w_off w /\ w_pending (flush_buf w) = [].
Proof. unfold flush_buf. destruct (w_pending w) eqn:E; cbn; auto. Qed.

Lemma bw_write_all_ev w d :
  exists ws, c_ev (w_ctx (bw_write_all P w d)) = ws ++ c_ev (w_ctx w) /\ cur_writes (cur_name w) ws.
Proof.
  unfold bw_write_all, bw_write_all0.
  destruct (lenN d <? BS P - lenN (w_pending w)).
  - exists []. split; [reflexivity|constructor].
  - set (w1 := if BS P - lenN (w_pending w) <? lenN d then flush_buf w else w).
    assert (H1 : exists ws, c_ev (w_ctx w1) = ws ++ c_ev (w_ctx w) /\ cur_writes (cur_name w) ws).
    { unfold w1. destruct (_ <? _); [apply flush_buf_ev|].
      exists []. split; [reflexivity|constructor]. }
    assert (Hf : w_file w1 = w_file w).
    { unfold w1. destruct (_ <? _); [apply flush_buf_same|reflexivity]. }
    destruct H1 as [ws [He Hw]].
    destruct (BS P <=? lenN d).
    + exists (EvWrite (filename (w_file w)) (os_pos w1) d :: ws).
      cbn [w_ctx os_write ctx_ev ctx_fs c_ev]. rewrite He, Hf. split; [reflexivity|].
      constructor; [eexists; eexists; reflexivity|exact Hw].
    + exists ws. cbn [w_ctx]. auto.
Qed.

Lemma bw_write_all_file w d : w_file (bw_write_all P w d) = w_file w.
Proof. pose proof (bw_write_all_tracker P w d) as H. unfold same_tracker in H. apply H. Qed.

(* flush + sync_data + sync_dir *)
Definition presync (w : rwriter) : rwriter := sync_dir (sync_data (bw_flush w)).

Lemma bw_flush_ev w :
  exists ws, c_ev (w_ctx (bw_flush w)) = EvFlush (cur_name w) :: ws ++ c_ev (w_ctx w) /\
             cur_writes (cur_name w) ws.
Proof.
  destruct (flush_buf_ev w) as [ws [He Hw]]. destruct (flush_buf_same w) as [Hf _].
  exists ws. split; [|exact Hw].
  unfold bw_flush, wr_ctx. cbn [w_ctx ctx_ev c_ev]. rewrite He, Hf. reflexivity.
Qed.

Lemma bw_flush_same w :
  w_file (bw_flush w) = w_file w /\ w_files (bw_flush w) = w_files w /\
  w_off (bw_flush w) = w_off w /\ w_pending (bw_flush w) = [].
Proof. unfold bw_flush, wr_ctx. cbn [w_file w_files w_off w_pending]. apply flush_buf_same. Qed.

Lemma presync_ev w :
  exists ws, c_ev (w_ctx (presync w)) =
             EvSyncDir :: EvSyncData (cur_name w) :: EvFlush (cur_name w) :: ws ++ c_ev (w_ctx w) /\
             cur_writes (cur_name w) ws.
Proof.
  destruct (bw_flush_ev w) as [ws [He Hw]]. destruct (bw_flush_same w) as [Hf _].
  exists ws. split; [|exact Hw].
  unfold presync, sync_dir, sync_data, wr_ctx. cbn [w_ctx ctx_ev c_ev w_file]. rewrite He, Hf.
  reflexivity.
Qed.

Lemma presync_same w :
  w_file (presync w) = w_file w /\ w_files (presync w) = w_files w /\
  w_off (presync w) = w_off w /\ w_pending (presync w) = [].
Proof.
  unfold presync, sync_dir, sync_data, wr_ctx. cbn [w_file w_files w_off w_pending].
  apply bw_flush_same.
Qed.

Lemma wr_persist_true w : wr_persist w true = presync w.
Proof. reflexivity. Qed.

(* ---------------------------------------------------------------- preservation *)
Lemma others_rs w :
  others_synced w <-> (forall name, name <> cur_name w -> rsynced name (c_ev (w_ctx w))).
Proof.
  unfold others_synced, chrono. split; intros H name Hn; apply rsynced_iff; apply H; exact Hn.
Qed.

Lemma all_rs w : wr_all_synced w <-> (forall name, rsynced name (c_ev (w_ctx w))).
Proof. unfold wr_all_synced, all_synced, chrono. split; intros H name; apply rsynced_iff; apply H. Qed.

Lemma flush_buf_others w : others_synced w -> others_synced (flush_buf w).
Proof.
  rewrite !others_rs. intros H name Hn.
  destruct (flush_buf_ev w) as [ws [He Hw]]. destruct (flush_buf_same w) as [Hf _].
  unfold cur_name in Hn. rewrite Hf in Hn. rewrite He.
  eapply rsynced_writes; [exact Hw|exact Hn|now apply H].
Qed.

Lemma bw_write_all_others w d : others_synced w -> others_synced (bw_write_all P w d).
Proof.
  rewrite !others_rs. intros H name Hn.
  destruct (bw_write_all_ev w d) as [ws [He Hw]].
  unfold cur_name in Hn. rewrite bw_write_all_file in Hn. rewrite He.
  eapply rsynced_writes; [exact Hw|exact Hn|now apply H].
Qed.

Lemma bw_flush_others w : others_synced w -> others_synced (bw_flush w).
Proof.
  rewrite !others_rs. intros H name Hn.
  destruct (bw_flush_ev w) as [ws [He Hw]]. destruct (bw_flush_same w) as [Hf _].
  unfold cur_name in Hn. rewrite Hf in Hn. rewrite He. cbn [rsynced].
  eapply rsynced_writes; [exact Hw|exact Hn|now apply H].
Qed.

Lemma sync_data_others w : others_synced w -> others_synced (sync_data w).
Proof.
  rewrite !others_rs. intros H name Hn. unfold sync_data, wr_ctx in *.
  cbn [w_ctx ctx_ev c_ev rsynced cur_name w_file] in *. right. now apply H.
Qed.

Lemma sync_dir_others w : others_synced w -> others_synced (sync_dir w).
Proof.
  rewrite !others_rs. intros H name Hn. unfold sync_dir, wr_ctx in *.
  cbn [w_ctx ctx_ev c_ev rsynced cur_name w_file] in *. now apply H.
Qed.

(* the heart of (3): after flush + sync_data + sync_dir every file is synced *)
Lemma presync_all_synced w : others_synced w -> wr_all_synced (presync w).
Proof.
  rewrite others_rs, all_rs. intros H name.
  destruct (presync_ev w) as [ws [He Hw]]. rewrite He. cbn [rsynced].
  destruct (bytes_eqb (cur_name w) name) eqn:En.
  - left. now apply bytes_eqb_eq.
  - apply bytes_eqb_neq in En. right.
    eapply rsynced_writes; [exact Hw|congruence|apply H; congruence].
Qed.

Lemma wr_persist_others w a : others_synced w -> others_synced (wr_persist w a).
Proof.
  intros H. destruct a; cbn [wr_persist].
  - apply wr_all_synced_others. now apply presync_all_synced.
  - now apply bw_flush_others.
Qed.

Lemma gc_loop_unlinks : forall files c refd c' files' r,
  gc_loop c files refd = (c', files', r) ->
  exists us, c_ev c' = us ++ c_ev c /\ Forall is_unlink us.
Proof.
  induction files as [|f rest IH]; intros c refd c' files' r; cbn [gc_loop].
  - intros H; inversion H; subst. exists []. split; [reflexivity|constructor].
  - destruct rest as [|g rest'].
    + intros H; inversion H; subst. exists []. split; [reflexivity|constructor].
    + assert (Hnil : exists us, c_ev c = us ++ c_ev c /\ Forall is_unlink us).
      { exists []. split; [reflexivity|constructor]. }
      assert (Hstep : forall c1, c_ev c1 = EvUnlink (filename f) :: c_ev c ->
                gc_loop c1 (g :: rest') refd = (c', files', r) ->
                exists us, c_ev c' = us ++ c_ev c /\ Forall is_unlink us).
      { intros c1 Hc1 H. apply IH in H. destruct H as [us [He Hu]].
        exists (us ++ [EvUnlink (filename f)]). split.
        - rewrite He, Hc1, <- app_assoc. reflexivity.
        - apply Forall_app. split; [exact Hu|]. constructor; [exact I|constructor]. }
      destruct (refd f); [intros H; inversion H; subst; exact Hnil|].
      destruct (fs_get (c_fs c) (filename f)) as [[b| |]|].
      * apply Hstep. reflexivity.
      * intros H; inversion H; subst; exact Hnil.
      * apply Hstep. reflexivity.
      * intros H; inversion H; subst; exact Hnil.
Qed.

Lemma rsynced_unlinks name us l : Forall is_unlink us -> rsynced name l -> rsynced name (us ++ l).
Proof.
  intros Hu Hl. induction Hu as [|e us He _ IH]; [exact Hl|].
  destruct e; try contradiction. cbn [app rsynced]. exact IH.
Qed.

Lemma gc_loop_others w refd c files r :
  gc_loop (w_ctx w) (w_files w) refd = (c, files, r) -> others_synced w ->
  others_synced (mkWr c files (w_file w) (w_off w) (w_pending w)).
Proof.
  intros G. apply gc_loop_unlinks in G. destruct G as [us [He Hu]].
  rewrite !others_rs. intros H name Hn. cbn [w_ctx cur_name w_file] in *. rewrite He.
  apply rsynced_unlinks; [exact Hu|now apply H].
Qed.

Lemma gc_loop_all_synced w refd c files r :
  gc_loop (w_ctx w) (w_files w) refd = (c, files, r) -> wr_all_synced w ->
  wr_all_synced (mkWr c files (w_file w) (w_off w) (w_pending w)).
Proof.
  intros G. apply gc_loop_unlinks in G. destruct G as [us [He Hu]].
  rewrite !all_rs. intros H name. cbn [w_ctx] in *. rewrite He.
  apply rsynced_unlinks; [exact Hu|apply H].
Qed.

Lemma open_file_ev c n c' r :
  open_file c n = (c', r) -> c_ev c' = c_ev c \/ c_ev c' = EvOpenRw (filename n) :: c_ev c.
Proof.
  unfold open_file. pose proof (fault_point_ev c SOpen) as Hf.
  destruct (fault_point c SOpen) as [c1 [e|]]; cbn [fst] in Hf.
  - intros H; inversion H; subst. now left.
  - destruct (fs_get (c_fs c1) (filename n)) as [[b| |]|]; intros H; inversion H; subst;
      cbn [ctx_ev c_ev]; rewrite Hf; auto.
Qed.

Lemma create_file_ev c n c' r :
  create_file P c n = (c', r) ->
  c_ev c' = c_ev c \/ c_ev c' = EvSetLen (filename n) (FILE_BYTES P) :: EvCreate (filename n) :: c_ev c.
Proof.
  unfold create_file. destruct (fs_get (c_fs c) (filename n)); intros H; inversion H; subst;
    cbn [ctx_ev ctx_fs c_ev]; auto.
Qed.

(* the block write, roll-over included *)
Theorem wr_write_others w d w' r : wr_write P w d = (w', r) -> others_synced w -> others_synced w'.
Proof.
  unfold wr_write. destruct d as [|b d'] eqn:Ed.
  - intros H; inversion H; subst. auto.
  - rewrite <- Ed. clear Ed. intros H Ho.
    destruct (FILE_BYTES P <? w_off w + lenN d).
    + fold (presync w) in H.
      pose proof (presync_all_synced w Ho) as Hall. rewrite all_rs in Hall.
      set (w1 := presync w) in *.
      (* any writer on a context that only adds open/create events to w1's, with nothing
         buffered, has all files synced *)
      assert (Hnew : forall c files nxt,
                (forall name, rsynced name (c_ev c)) ->
                others_synced (bw_write_all P (mkWr c files nxt 0 []) d)).
      { intros c files nxt Hc. apply bw_write_all_others. apply wr_all_synced_others.
        apply all_rs. exact Hc. }
      destruct (tracker_next (w_files w1) (w_file w1)) as [nxt|].
      * destruct (open_file (w_ctx w1) nxt) as [c [[]|e]] eqn:Eo;
          apply open_file_ev in Eo; inversion H; subst; clear H.
        -- apply Hnew. intros name. destruct Eo as [Eo|Eo]; rewrite Eo; cbn [rsynced]; apply Hall.
        -- apply wr_all_synced_others. apply all_rs. unfold wr_ctx. cbn [w_ctx].
           intros name. destruct Eo as [Eo|Eo]; rewrite Eo; cbn [rsynced]; apply Hall.
      * destruct (create_file P (w_ctx w1) (w_file w1 + 1)) as [c [[]|e]] eqn:Ec;
          apply create_file_ev in Ec; inversion H; subst; clear H.
        -- apply Hnew. intros name. destruct Ec as [Ec|Ec]; rewrite Ec; cbn [rsynced]; apply Hall.
        -- apply wr_all_synced_others. apply all_rs. cbn [w_ctx].
           intros name. destruct Ec as [Ec|Ec]; rewrite Ec; cbn [rsynced]; apply Hall.
    + inversion H; subst. now apply bw_write_all_others.
Qed.

Theorem write_record_others w payload w' r :
  write_record P rwriter (wr_write P) (wr_rem P) w payload = (w', r) ->
  others_synced w -> others_synced w'.
Proof. apply GcProofs.write_record_inv. exact wr_write_others. Qed.

(* the invariant holds across every API call, whatever its outcome *)
Theorem step_others_synced st o tick :
  others_synced (s_wr st) -> others_synced (s_wr (fst (step P st o tick))).
Proof.
  apply step_inv.
  - exact wr_write_others.
  - exact wr_persist_others.
  - exact gc_loop_others.
Qed.

Theorem run_others_synced : forall h st,
  others_synced (s_wr st) -> others_synced (s_wr (fst (run P st h))).
Proof.
  induction h as [|[o tick] h IH]; intros st Ho; cbn [run]; [exact Ho|].
  pose proof (step_others_synced st o tick Ho) as H1.
  destruct (step P st o tick) as [st1 out]. cbn [fst] in H1.
  specialize (IH st1 H1). destruct (run P st1 h) as [st2 outs]. exact IH.
Qed.

(* a freshly opened writer (no write events yet) satisfies the invariant *)
Lemma others_synced_no_writes w :
  Forall (fun e => match e with EvWrite _ _ _ => False | _ => True end) (c_ev (w_ctx w)) ->
  wr_all_synced w.
Proof.
  intros H. apply all_rs. intros name. induction H as [|e l He _ IH]; [exact I|].
  destruct e; cbn [rsynced]; try exact IH; try contradiction. now right.
Qed.
End Writer.

(* ================================================================ (3) persisted = durable *)
Section Api.
Variable P : params.

Definition durable (st : state) : Prop :=
  wr_all_synced (s_wr st) /\ w_pending (s_wr st) = [].

Theorem persist_fsync_all_synced st :
  others_synced (s_wr st) ->
  (forall name, file_synced name (chrono (w_ctx (s_wr (persist st true))))) /\
  w_pending (s_wr (persist st true)) = [].
Proof.
  intros Ho. split; [|apply persist_drained].
  unfold persist. cbn [set_wr s_wr]. rewrite wr_persist_true.
  exact (presync_all_synced _ Ho).
Qed.

(* power-loss model: nothing of the trace is lost, whenever the power fails afterwards *)
Corollary persist_fsync_power st later :
  others_synced (s_wr st) ->
  let evs := chrono (w_ctx (s_wr (persist st true))) in
  power_filter evs = evs /\ power_filter (evs ++ later) = evs ++ power_filter later.
Proof.
  intros Ho evs. destruct (persist_fsync_all_synced st Ho) as [H _]. split.
  - now apply power_filter_all_synced.
  - now apply power_filter_all_synced_app.
Qed.

Lemma write_entry_others st e st' r :
  write_entry P st e = (st', r) -> others_synced (s_wr st) -> others_synced (s_wr st').
Proof. apply (write_entry_inv P others_synced (wr_write_others P)). Qed.

Lemma run_gc_others st hint st' r :
  run_gc_if_necessary P st hint = (st', r) -> others_synced (s_wr st) -> others_synced (s_wr st').
Proof.
  apply (run_gc_inv P others_synced (wr_write_others P) wr_persist_others gc_loop_others).
Qed.

(* the calls that end with persist(a): create/delete always with a = true, append/truncate
   under the policy Always(a), and the explicit persist *)
Definition call_persists (a : bool) (pol : policy) (o : op) : Prop :=
  match o with
  | OCreate _ | ODelete _ _ => a = true
  | OAppend _ _ _ | OTruncate _ _ _ => pol = PAlways a
  | OPersist b => b = a
  end.

(* the outcomes of calls that did their work (as opposed to: refused, or nothing to do) *)
Definition wrote (out : outcome) : bool :=
  match out with
  | OutCreate _ | OutDelete _ | OutTruncate _ _ | OutAppend (Some _) _ | OutPersist => true
  | _ => false
  end.

Lemma write_entry_pol st e st' r : write_entry P st e = (st', r) -> s_pol st' = s_pol st.
Proof.
  unfold write_entry. destruct (write_record _ _ _ _ _ _) as [w r0].
  intros H; inversion H; subst. reflexivity.
Qed.

Lemma step_persist_cases st o tick st' out a :
  step P st o tick = (st', out) -> call_persists a (s_pol st) o -> is_io out = false ->
  (st' = st /\ wrote out = false) \/
  (exists st1, s_wr st' = s_wr (persist st1 a) /\
               (others_synced (s_wr st) -> others_synced (s_wr st1))).
Proof.
  intros Hs Hc Hio.
  destruct o as [q|q hint|q pos payloads|q p hint|f]; cbn [step call_persists] in Hs, Hc.
  - subst a. unfold create_queue in Hs.
    destruct (qs_contains (s_qs st) q); [inversion Hs; subst; now left|].
    destruct (write_entry P st (EPosition q 0)) as [st1 [k|e]] eqn:E;
      inversion Hs; subst; [|discriminate].
    right. exists st1. split; [reflexivity|]. eapply write_entry_others; exact E.
  - subst a. unfold delete_queue in Hs.
    destruct (qs_get (s_qs st) q) as [m|]; [|inversion Hs; subst; now left].
    destruct (write_entry P st _) as [st1 [k|e]] eqn:E; [|inversion Hs; subst; discriminate].
    destruct (run_gc_if_necessary P _ hint) as [st3 [k2|e]] eqn:G;
      inversion Hs; subst; [|discriminate].
    right. exists st3. split; [reflexivity|]. intros Ho.
    eapply run_gc_others; [exact G|]. cbn [set_qs s_wr]. eapply write_entry_others; eassumption.
  - unfold append_records in Hs.
    destruct (qs_get (s_qs st) q) as [m|]; [|inversion Hs; subst; now left].
    destruct (match pos with Some p => _ | None => None end) as [early|] eqn:Ee.
    + inversion Hs; subst. left. split; [reflexivity|].
      destruct pos as [p|]; [|discriminate].
      destruct (p + 1 =? next_position m); [inversion Ee; reflexivity|].
      destruct (p <? next_position m); inversion Ee; reflexivity.
    + destruct (number_from _ payloads) as [|r0 rs]; [inversion Hs; subst; now left|].
      destruct (write_entry P st _) as [st1 [k|e]] eqn:E; [|inversion Hs; subst; discriminate].
      pose proof (write_entry_pol _ _ _ _ E) as Ep.
      right. exists st1. split; [|intros Ho; eapply write_entry_others; eassumption].
      destruct (append_all m _ _) as [m'|]; inversion Hs; subst; cbn [set_qs s_wr];
        unfold persist_on_policy; rewrite Ep, Hc; reflexivity.
  - unfold truncate in Hs.
    destruct (qs_get (s_qs st) q) as [m|]; [|inversion Hs; subst; now left].
    destruct (write_entry P st _) as [st1 [k|e]] eqn:E; [|inversion Hs; subst; discriminate].
    pose proof (write_entry_pol _ _ _ _ E) as Ep.
    destruct (truncate_head m p) as [m' ev].
    destruct (run_gc_if_necessary P _ hint) as [st3 [k2|e]] eqn:G;
      inversion Hs; subst; [|discriminate].
    pose proof (run_gc_pol P _ _ _ _ G) as Gp. cbn [set_qs s_pol] in Gp.
    right. exists st3. split.
    + unfold persist_on_policy. rewrite Gp, Ep, Hc. reflexivity.
    + intros Ho. eapply run_gc_others; [exact G|]. cbn [set_qs s_wr].
      eapply write_entry_others; eassumption.
  - subst f. inversion Hs; subst. right. exists st. split; [reflexivity|auto].
Qed.

(* the calls that persist with FlushAndFsync *)
Definition fsync_call (pol : policy) (o : op) : Prop := call_persists true pol o.
(* the calls that at least flush *)
Definition flush_call (pol : policy) (o : op) : Prop :=
  call_persists true pol o \/ call_persists false pol o.

(* a successful call of that kind leaves every write of every file synced and nothing buffered:
   no later power loss can undo it, or anything before it *)
Theorem step_fsync_durable st o tick st' out :
  step P st o tick = (st', out) -> fsync_call (s_pol st) o -> wrote out = true ->
  others_synced (s_wr st) ->
  (forall name, file_synced name (chrono (w_ctx (s_wr st')))) /\ w_pending (s_wr st') = [].
Proof.
  intros Hs Hc Hw Ho.
  assert (Hio : is_io out = false) by (destruct out; try reflexivity; discriminate).
  destruct (step_persist_cases _ _ _ _ _ _ Hs Hc Hio) as [[_ Hn]|[st1 [E H1]]]; [congruence|].
  rewrite E. apply persist_fsync_all_synced. auto.
Qed.

Corollary step_fsync_power st o tick st' out later :
  step P st o tick = (st', out) -> fsync_call (s_pol st) o -> wrote out = true ->
  others_synced (s_wr st) ->
  let evs := chrono (w_ctx (s_wr st')) in
  power_filter evs = evs /\ power_filter (evs ++ later) = evs ++ power_filter later.
Proof.
  intros Hs Hc Hw Ho evs.
  destruct (step_fsync_durable _ _ _ _ _ Hs Hc Hw Ho) as [H _]. split.
  - now apply power_filter_all_synced.
  - now apply power_filter_all_synced_app.
Qed.

(* the calls that refuse or have nothing to do leave the state alone, so "durable" is an
   invariant of such calls as long as they do not fail with an I/O error *)
Theorem step_fsync_durable_inv st o tick st' out :
  step P st o tick = (st', out) -> fsync_call (s_pol st) o -> is_io out = false ->
  durable st -> durable st'.
Proof.
  intros Hs Hc Hio [Ha Hp].
  destruct (step_persist_cases _ _ _ _ _ _ Hs Hc Hio) as [[-> _]|[st1 [E H1]]]; [now split|].
  unfold durable, wr_all_synced. rewrite E. apply persist_fsync_all_synced.
  apply H1. now apply wr_all_synced_others.
Qed.

(* with Flush only: everything accepted has reached the OS (it is in write events) *)
Theorem step_flush_in_os st o tick st' out :
  step P st o tick = (st', out) -> flush_call (s_pol st) o -> is_io out = false ->
  w_pending (s_wr st) = [] -> w_pending (s_wr st') = [].
Proof.
  intros Hs [Hc|Hc] Hio Hp;
    (destruct (step_persist_cases _ _ _ _ _ _ Hs Hc Hio) as [[-> _]|[st1 [E _]]]; [exact Hp|]);
    rewrite E; apply persist_drained.
Qed.

(* WriterProofs.step_drained / step_bytes_in_write_events restated: the reported byte count is
   then exactly the number of bytes in the write events of the call *)
Theorem step_flush_in_os_bytes st o tick st' out n a :
  step P st o tick = (st', out) -> outcome_bytes out = Some n ->
  w_pending (s_wr st) = [] ->
  (s_pol st = PAlways a \/ (exists q, o = OCreate q) \/ (exists q h, o = ODelete q h)) ->
  w_pending (s_wr st') = [] /\
  ev_bytes (c_ev (w_ctx (s_wr st'))) = ev_bytes (c_ev (w_ctx (s_wr st))) + n.
Proof.
  intros Hs Hn Hp Hpol. split.
  - eapply step_drained; eassumption.
  - eapply step_bytes_in_write_events; eassumption.
Qed.
End Api.

(* ================================================================ (4) unlink only after sync *)

(* w' has the trace of w plus a prefix (most recent first) satisfying Q *)
Definition ev_ext (Q : list event -> Prop) (w w' : rwriter) : Prop :=
  exists new, c_ev (w_ctx w') = new ++ c_ev (w_ctx w) /\ Q new.

Definition nounl (new : list event) : Prop := Forall (fun e => ~ is_unlink e) new.
Definition guarded (new : list event) : Prop := unlink_guarded (rev new).

Lemma nounl_guarded new : nounl new -> guarded new.
Proof. intros H. apply ug_nounlink. now apply Forall_rev. Qed.

Lemma ev_ext_refl (Q : list event -> Prop) w : Q [] -> ev_ext Q w w.
Proof. intros H. exists []. split; [reflexivity|exact H]. Qed.

Lemma ev_ext_trans (Q : list event -> Prop) a b c :
  (forall x y, Q x -> Q y -> Q (x ++ y)) -> ev_ext Q a b -> ev_ext Q b c -> ev_ext Q a c.
Proof.
  intros Happ [n1 [E1 Q1]] [n2 [E2 Q2]]. exists (n2 ++ n1). split; [|now apply Happ].
  rewrite E2, E1. now rewrite app_assoc.
Qed.

Lemma ev_ext_weaken (Q Q' : list event -> Prop) w w' :
  (forall x, Q x -> Q' x) -> ev_ext Q w w' -> ev_ext Q' w w'.
Proof. intros H [n [E Hq]]. exists n. auto. Qed.

Lemma nounl_nil : nounl [].
Proof. constructor. Qed.
Lemma nounl_app x y : nounl x -> nounl y -> nounl (x ++ y).
Proof. intros H1 H2. apply Forall_app. auto. Qed.
Lemma guarded_nil : guarded [].
Proof. apply nounl_guarded, nounl_nil. Qed.
Lemma guarded_app x y : guarded x -> guarded y -> guarded (x ++ y).
Proof. unfold guarded. intros H1 H2. rewrite rev_app_distr. now apply ug_app. Qed.

(* ---------------------------------------------------------------- a relation across the API *)
(* like GcProofs.step_inv, for a reflexive-transitive relation between the writer before and
   after; the GC loop is only ever run right after persist(FlushAndFsync) when L_GC P = false,
   and that is all the relation has to cope with *)
Section StepRel.
Variable P : params.
Variable R : rwriter -> rwriter -> Prop.
Hypothesis R_refl : forall w, R w w.
Hypothesis R_trans : forall a b c, R a b -> R b c -> R a c.
Hypothesis R_write : forall w d w' r, wr_write P w d = (w', r) -> R w w'.
Hypothesis R_persist : forall w a, R w (wr_persist w a).
Hypothesis R_pgc : forall w refd c files r,
  gc_loop (w_ctx (wr_persist w true)) (w_files (wr_persist w true)) refd = (c, files, r) ->
  R w (mkWr c files (w_file (wr_persist w true)) (w_off (wr_persist w true))
            (w_pending (wr_persist w true))).
Hypothesis HGC : L_GC P = false.

Lemma write_entry_rel st e st' r : write_entry P st e = (st', r) -> R (s_wr st) (s_wr st').
Proof.
  unfold write_entry.
  destruct (write_record P rwriter (wr_write P) (wr_rem P) (s_wr st) (entry_ser e)) as [w r0] eqn:E.
  intros H; inversion H; subst; clear H. cbn [set_wr s_wr].
  eapply (write_record_rel P rwriter (wr_write P) (wr_rem P) R); eauto.
Qed.

Lemma persist_rel st a : R (s_wr st) (s_wr (persist st a)).
Proof. unfold persist. cbn [set_wr s_wr]. apply R_persist. Qed.

Lemma persist_on_policy_rel st tick : R (s_wr st) (s_wr (persist_on_policy st tick)).
Proof.
  unfold persist_on_policy. destruct (s_pol st) as [|a|a]; [apply R_refl| |apply persist_rel].
  destruct tick; [apply persist_rel|apply R_refl].
Qed.

Lemma record_positions_rel names : forall st acc st' r,
  record_positions P st names acc = (st', r) -> R (s_wr st) (s_wr st').
Proof.
  induction names as [|nm rr IH]; intros st acc st' r; cbn [record_positions].
  - intros H; inversion H; subst. apply R_refl.
  - destruct (qs_get (s_qs st) nm) as [q|]; [|apply IH].
    destruct (write_entry P st (EPosition nm (next_position q))) as [st1 [k|e]] eqn:E;
      apply write_entry_rel in E.
    + intros H. apply IH in H. eapply R_trans; eassumption.
    + intros H; inversion H; subst. exact E.
Qed.

Lemma run_gc_rel st hint st' r :
  run_gc_if_necessary P st hint = (st', r) -> R (s_wr st) (s_wr st').
Proof.
  unfold run_gc_if_necessary. destruct (has_deletable st); [|intros H; inversion H; subst; apply R_refl].
  unfold record_empty_queues_position. rewrite HGC. cbn [andb].
  destruct (record_positions P st _ 0) as [st1 [k|e]] eqn:E; apply record_positions_rel in E.
  - cbn [persist set_wr s_wr].
    destruct (gc_loop _ _ _) as [[c files] rr] eqn:G. apply R_pgc in G.
    intros H. eapply R_trans; [exact E|].
    destruct rr as [[]|e]; inversion H; subst; exact G.
  - intros H; inversion H; subst. exact E.
Qed.

Theorem step_rel st o tick : R (s_wr st) (s_wr (fst (step P st o tick))).
Proof.
  destruct o as [q|q hint|q pos payloads|q p hint|a]; cbn [step].
  - unfold create_queue. destruct (qs_contains (s_qs st) q); [apply R_refl|].
    destruct (write_entry P st (EPosition q 0)) as [st1 [k|e]] eqn:E;
      apply write_entry_rel in E; cbn [fst]; [|exact E].
    cbn [set_qs s_wr]. eapply R_trans; [exact E|apply persist_rel].
  - unfold delete_queue. destruct (qs_get (s_qs st) q) as [m|]; [|apply R_refl].
    destruct (write_entry P st _) as [st1 [k|e]] eqn:E; apply write_entry_rel in E; [|exact E].
    destruct (run_gc_if_necessary P _ hint) as [st3 [k2|e]] eqn:G;
      apply run_gc_rel in G; cbn [set_qs s_wr] in G; cbn [fst].
    + eapply R_trans; [exact E|]. eapply R_trans; [exact G|apply persist_rel].
    + eapply R_trans; eassumption.
  - unfold append_records. destruct (qs_get (s_qs st) q) as [m|]; [|apply R_refl].
    destruct (match pos with Some p => _ | None => None end) as [early|]; [apply R_refl|].
    destruct (number_from _ payloads) as [|r0 rs]; [apply R_refl|].
    destruct (write_entry P st _) as [st1 [k|e]] eqn:E; apply write_entry_rel in E; [|exact E].
    destruct (append_all m _ _) as [m'|]; cbn [fst set_qs s_wr];
      (eapply R_trans; [exact E|apply persist_on_policy_rel]).
  - unfold truncate. destruct (qs_get (s_qs st) q) as [m|]; [|apply R_refl].
    destruct (write_entry P st _) as [st1 [k|e]] eqn:E; apply write_entry_rel in E; [|exact E].
    destruct (truncate_head m p) as [m' ev].
    destruct (run_gc_if_necessary P _ hint) as [st3 [k2|e]] eqn:G;
      apply run_gc_rel in G; cbn [set_qs s_wr] in G; cbn [fst].
    + eapply R_trans; [exact E|]. eapply R_trans; [exact G|apply persist_on_policy_rel].
    + eapply R_trans; eassumption.
  - cbn [fst]. apply persist_rel.
Qed.
End StepRel.

Section Gc.
Variable P : params.

(* ---------------------------------------------------------------- writes never unlink *)
Lemma presync_nounl w : ev_ext nounl w (presync w).
Proof.
  destruct (presync_ev w) as [ws [He Hw]].
  exists (EvSyncDir :: EvSyncData (cur_name w) :: EvFlush (cur_name w) :: ws). split; [exact He|].
  repeat (constructor; [cbn; auto|]). eapply cur_writes_nounlink; exact Hw.
Qed.

Lemma bw_flush_nounl w : ev_ext nounl w (bw_flush w).
Proof.
  destruct (bw_flush_ev w) as [ws [He Hw]].
  exists (EvFlush (cur_name w) :: ws). split; [exact He|].
  constructor; [cbn; auto|]. eapply cur_writes_nounlink; exact Hw.
Qed.

Lemma wr_persist_nounl w a : ev_ext nounl w (wr_persist w a).
Proof. destruct a; [apply presync_nounl|apply bw_flush_nounl]. Qed.

Lemma bw_write_all_nounl w d : ev_ext nounl w (bw_write_all P w d).
Proof.
  destruct (bw_write_all_ev P w d) as [ws [He Hw]]. exists ws. split; [exact He|].
  eapply cur_writes_nounlink; exact Hw.
Qed.

Lemma wr_write_nounl w d w' r : wr_write P w d = (w', r) -> ev_ext nounl w w'.
Proof.
  unfold wr_write. destruct d as [|b d'] eqn:Ed.
  - intros H; inversion H; subst. apply ev_ext_refl, nounl_nil.
  - rewrite <- Ed. clear Ed. intros H.
    destruct (FILE_BYTES P <? w_off w + lenN d).
    + fold (presync w) in H. pose proof (presync_nounl w) as H1.
      set (w1 := presync w) in *.
      assert (Hopen : forall c (w2 : rwriter), w_ctx w2 = c ->
                c_ev c = c_ev (w_ctx w1) \/ (exists e, ~ is_unlink e /\ c_ev c = e :: c_ev (w_ctx w1)) \/
                (exists e1 e2, ~ is_unlink e1 /\ ~ is_unlink e2 /\ c_ev c = e1 :: e2 :: c_ev (w_ctx w1)) ->
                ev_ext nounl w w2).
      { intros c w2 Hc Hev. eapply ev_ext_trans; [exact nounl_app|exact H1|].
        rewrite <- Hc in Hev.
        destruct Hev as [Hev|[[e [Hu Hev]]|[e1 [e2 [Hu1 [Hu2 Hev]]]]]].
        - exists []. split; [exact Hev|constructor].
        - exists [e]. split; [exact Hev|]. constructor; [exact Hu|constructor].
        - exists [e1; e2]. split; [exact Hev|]. constructor; [exact Hu1|].
          constructor; [exact Hu2|constructor]. }
      destruct (tracker_next (w_files w1) (w_file w1)) as [nxt|].
      * destruct (open_file (w_ctx w1) nxt) as [c [[]|e]] eqn:Eo;
          apply open_file_ev in Eo; inversion H; subst; clear H.
        -- eapply ev_ext_trans; [exact nounl_app| |apply bw_write_all_nounl].
           apply (Hopen c); [reflexivity|].
           destruct Eo as [Eo|Eo]; [now left|right; left].
           eexists; split; [|exact Eo]. cbn; auto.
        -- apply (Hopen c); [reflexivity|].
           destruct Eo as [Eo|Eo]; [now left|right; left].
           eexists; split; [|exact Eo]. cbn; auto.
      * destruct (create_file P (w_ctx w1) (w_file w1 + 1)) as [c [[]|e]] eqn:Ec;
          apply create_file_ev in Ec; inversion H; subst; clear H.
        -- eapply ev_ext_trans; [exact nounl_app| |apply bw_write_all_nounl].
           apply (Hopen c); [reflexivity|].
           destruct Ec as [Ec|Ec]; [now left|right; right].
           eexists; eexists; split; [|split; [|exact Ec]]; cbn; auto.
        -- apply (Hopen c); [reflexivity|].
           destruct Ec as [Ec|Ec]; [now left|right; right].
           eexists; eexists; split; [|split; [|exact Ec]]; cbn; auto.
    + inversion H; subst. apply bw_write_all_nounl.
Qed.

Lemma nounl_refl w : ev_ext nounl w w.
Proof. apply ev_ext_refl, nounl_nil. Qed.
Lemma nounl_trans a b c : ev_ext nounl a b -> ev_ext nounl b c -> ev_ext nounl a c.
Proof. apply ev_ext_trans. exact nounl_app. Qed.

Lemma record_positions_nounl names st acc st' r :
  record_positions P st names acc = (st', r) -> ev_ext nounl (s_wr st) (s_wr st').
Proof.
  apply (record_positions_rel P (ev_ext nounl) nounl_refl nounl_trans wr_write_nounl).
Qed.
End Gc.

Section GcTheorems.
Variable P : params.
Hypothesis HGC : L_GC P = false.

Lemma record_positions_others names st acc st' r :
  record_positions P st names acc = (st', r) -> others_synced (s_wr st) -> others_synced (s_wr st').
Proof. apply (record_positions_inv P others_synced (wr_write_others P)). Qed.

(* the three events of persist(FlushAndFsync) on file f, most recent first *)
Definition sync_group_rev (f : bytes) : list event := [EvSyncDir; EvSyncData f; EvFlush f].

(* what a GC call adds to the trace: either no unlink at all, or
   unlinks ++ sync group ++ older, and at the moment of the first unlink (state stm) nothing
   was buffered and every file was synced *)
Lemma run_gc_events st hint st' r :
  run_gc_if_necessary P st hint = (st', r) ->
  (exists new, c_ev (w_ctx (s_wr st')) = new ++ c_ev (w_ctx (s_wr st)) /\ nounl new) \/
  (exists unlinks older stm,
     let f := filename (w_file (s_wr st')) in
     c_ev (w_ctx (s_wr st')) = unlinks ++ sync_group_rev f ++ older ++ c_ev (w_ctx (s_wr st)) /\
     Forall is_unlink unlinks /\ nounl older /\
     c_ev (w_ctx (s_wr stm)) = sync_group_rev f ++ older ++ c_ev (w_ctx (s_wr st)) /\
     w_file (s_wr stm) = w_file (s_wr st') /\
     w_pending (s_wr stm) = [] /\
     w_pending (s_wr st') = [] /\
     (others_synced (s_wr st) -> wr_all_synced (s_wr stm) /\ wr_all_synced (s_wr st'))).
Proof.
  unfold run_gc_if_necessary. destruct (has_deletable st).
  2:{ intros H; inversion H; subst. left. exists []. split; [reflexivity|apply nounl_nil]. }
  unfold record_empty_queues_position. rewrite HGC. cbn [andb].
  destruct (record_positions P st _ 0) as [st1 [k|e]] eqn:E;
    pose proof (record_positions_nounl P _ _ _ _ _ E) as [older0 [E1 Q1]].
  2:{ intros H; inversion H; subst. left. exists older0. auto. }
  pose proof (record_positions_others _ _ _ _ _ E) as Ho1.
  set (stm := persist st1 true).
  destruct (gc_loop (w_ctx (s_wr stm)) (w_files (s_wr stm)) _) as [[c files] rr] eqn:G.
  intros H. right.
  pose proof (gc_loop_unlinks _ _ _ _ _ _ G) as [us [He Hu]].
  assert (Hm : s_wr stm = presync (s_wr st1)) by reflexivity.
  destruct (presync_ev (s_wr st1)) as [ws [Hp Hw]].
  destruct (presync_same (s_wr st1)) as [Hf [_ [_ Hpend]]].
  assert (Hst' : s_wr st' = mkWr c files (w_file (s_wr stm)) (w_off (s_wr stm)) (w_pending (s_wr stm))).
  { destruct rr as [[]|e]; inversion H; subst; reflexivity. }
  exists us, (ws ++ older0), stm. cbn zeta.
  rewrite Hst'. cbn [w_ctx w_file w_pending].
  assert (Hcm : c_ev (w_ctx (s_wr stm)) =
                sync_group_rev (filename (w_file (s_wr stm))) ++ (ws ++ older0) ++ c_ev (w_ctx (s_wr st))).
  { rewrite Hm, Hp, E1, Hf. unfold sync_group_rev, cur_name. cbn [app].
    now rewrite <- app_assoc. }
  split; [rewrite He, Hcm; reflexivity|].
  split; [exact Hu|].
  split; [apply nounl_app; [eapply cur_writes_nounlink; exact Hw|exact Q1]|].
  split; [exact Hcm|].
  split; [reflexivity|].
  split; [rewrite Hm; exact Hpend|].
  split; [rewrite Hm; exact Hpend|].
  intros Ho. assert (Ha : wr_all_synced (s_wr stm)).
  { rewrite Hm. apply presync_all_synced. auto. }
  split; [exact Ha|]. eapply gc_loop_all_synced; [exact G|exact Ha].
Qed.

(* the trace only grows *)
Lemma run_gc_ext st hint st' r :
  run_gc_if_necessary P st hint = (st', r) ->
  exists new, c_ev (w_ctx (s_wr st')) = new ++ c_ev (w_ctx (s_wr st)).
Proof.
  intros H. apply run_gc_events in H.
  destruct H as [[new [E _]]|[us [older [stm [E _]]]]]; cbn zeta in E.
  - now exists new.
  - eexists. rewrite E. rewrite !app_assoc. reflexivity.
Qed.

Lemma In_unlink_nounl name l : nounl l -> ~ In (EvUnlink name) l.
Proof. intros H Hin. unfold nounl in H. rewrite Forall_forall in H. apply (H _ Hin). exact I. Qed.

(* (4a) GC: a file is unlinked only after flush + sync_data + sync_dir of the current file,
   with nothing buffered and (given the invariant) every file synced at that moment *)
Theorem gc_unlinks_after_sync st hint st' r new :
  run_gc_if_necessary P st hint = (st', r) ->
  c_ev (w_ctx (s_wr st')) = new ++ c_ev (w_ctx (s_wr st)) ->
  (exists name, In (EvUnlink name) new) ->
  exists unlinks older stm,
    let f := filename (w_file (s_wr st')) in
    new = unlinks ++ [EvSyncDir; EvSyncData f; EvFlush f] ++ older /\
    Forall is_unlink unlinks /\
    Forall (fun e => ~ is_unlink e) older /\
    (* stm: the state when the first unlink is issued *)
    c_ev (w_ctx (s_wr stm)) = [EvSyncDir; EvSyncData f; EvFlush f] ++ older ++ c_ev (w_ctx (s_wr st)) /\
    w_file (s_wr stm) = w_file (s_wr st') /\
    w_pending (s_wr stm) = [] /\
    (others_synced (s_wr st) -> forall name, file_synced name (chrono (w_ctx (s_wr stm)))).
Proof.
  intros H Hnew [name Hin]. apply run_gc_events in H.
  destruct H as [[new' [E Q]]|[us [older [stm [E [Hu [Ho [Em [Hf [Hp [_ Hs]]]]]]]]]]]; cbn zeta in *.
  - exfalso. rewrite E in Hnew. apply app_inv_tail in Hnew. subst new'.
    eapply In_unlink_nounl; eassumption.
  - exists us, older, stm. cbn zeta.
    split.
    { rewrite E in Hnew. unfold sync_group_rev in Hnew.
      replace (us ++ [EvSyncDir; EvSyncData (filename (w_file (s_wr st'))); EvFlush (filename (w_file (s_wr st')))] ++
               older ++ c_ev (w_ctx (s_wr st)))
        with ((us ++ [EvSyncDir; EvSyncData (filename (w_file (s_wr st'))); EvFlush (filename (w_file (s_wr st')))] ++
               older) ++ c_ev (w_ctx (s_wr st))) in Hnew by (now rewrite <- !app_assoc).
      apply app_inv_tail in Hnew. now symmetry. }
    split; [exact Hu|]. split; [exact Ho|]. split; [exact Em|]. split; [exact Hf|].
    split; [exact Hp|]. intros Hos. apply Hs. exact Hos.
Qed.

(* ---------------------------------------------------------------- (4b) every API call *)
Lemma guarded_refl w : ev_ext guarded w w.
Proof. apply ev_ext_refl, guarded_nil. Qed.
Lemma guarded_trans a b c : ev_ext guarded a b -> ev_ext guarded b c -> ev_ext guarded a c.
Proof. apply ev_ext_trans. exact guarded_app. Qed.

Lemma persist_gc_guarded w refd c files r :
  gc_loop (w_ctx (wr_persist w true)) (w_files (wr_persist w true)) refd = (c, files, r) ->
  ev_ext guarded w (mkWr c files (w_file (wr_persist w true)) (w_off (wr_persist w true))
                         (w_pending (wr_persist w true))).
Proof.
  intros G. apply gc_loop_unlinks in G. destruct G as [us [He Hu]].
  rewrite wr_persist_true in *. destruct (presync_ev w) as [ws [Hp Hw]].
  exists (us ++ sync_group_rev (cur_name w) ++ ws). split.
  - cbn [w_ctx]. rewrite He, Hp. unfold sync_group_rev. cbn [app]. now rewrite <- app_assoc.
  - unfold guarded. rewrite !rev_app_distr. unfold sync_group_rev. cbn [rev app].
    rewrite <- app_assoc.
    apply (ug_group (rev ws) (cur_name w) (rev us)).
    + apply ug_nounlink. apply Forall_rev. eapply cur_writes_nounlink; exact Hw.
    + now apply Forall_rev.
Qed.

(* in the events added by any call, every unlink is preceded (chronologically) by
   flush + sync_data + sync_dir with only unlinks in between *)
Theorem step_unlinks_after_sync st o tick :
  exists new,
    c_ev (w_ctx (s_wr (fst (step P st o tick)))) = new ++ c_ev (w_ctx (s_wr st)) /\
    unlink_guarded (rev new).
Proof.
  apply (step_rel P (ev_ext guarded) guarded_refl guarded_trans).
  - intros w d w' r H. eapply ev_ext_weaken; [exact nounl_guarded|].
    eapply wr_write_nounl; exact H.
  - intros w a. eapply ev_ext_weaken; [exact nounl_guarded|apply wr_persist_nounl].
  - exact persist_gc_guarded.
  - exact HGC.
Qed.

(* hence the predicate is preserved by step, and by any history, from any trace satisfying it *)
Theorem step_unlink_guarded st o tick :
  unlink_guarded (chrono (w_ctx (s_wr st))) ->
  unlink_guarded (chrono (w_ctx (s_wr (fst (step P st o tick))))).
Proof.
  intros H. destruct (step_unlinks_after_sync st o tick) as [new [E Hg]].
  unfold chrono in *. rewrite E, rev_app_distr. now apply ug_app.
Qed.

Theorem run_unlink_guarded : forall h st,
  unlink_guarded (chrono (w_ctx (s_wr st))) ->
  unlink_guarded (chrono (w_ctx (s_wr (fst (run P st h))))).
Proof.
  induction h as [|[o tick] h IH]; intros st Hg; cbn [run]; [exact Hg|].
  pose proof (step_unlink_guarded st o tick Hg) as H1.
  destruct (step P st o tick) as [st1 out]. cbn [fst] in H1.
  specialize (IH st1 H1). destruct (run P st1 h) as [st2 outs]. exact IH.
Qed.

(* in particular no write event ever sits between the sync group and an unlink *)
Corollary unlink_guarded_no_write evs pre name post :
  unlink_guarded evs -> evs = pre ++ EvUnlink name :: post ->
  exists pre1 f pre2, pre = pre1 ++ [EvFlush f; EvSyncData f; EvSyncDir] ++ pre2 /\
                      forall n off d, ~ In (EvWrite n off d) pre2.
Proof.
  intros H Hd. destruct (H pre name post Hd) as [pre1 [f [pre2 [Hp Hu]]]].
  exists pre1, f, pre2. split; [exact Hp|]. intros n off d Hin.
  rewrite Forall_forall in Hu. exact (Hu _ Hin).
Qed.
End GcTheorems.

(* ================================================================ (5) the invariants hold at open *)
(* Opening a log only reads, creates, resizes: the trace of the reader has no write and no
   unlink; the GC pass at the end of open goes through the same code as above.  Hence both
   invariants (others_synced, unlink_guarded) hold for the state returned by open, and by the
   theorems above after any history of calls. *)
Definition quiet_ev (e : event) : Prop :=
  match e with EvWrite _ _ _ | EvUnlink _ => False | _ => True end.
Definition quiet (c : ioctx) : Prop := Forall quiet_ev (c_ev c).

Lemma quiet_same c c' : c_ev c' = c_ev c -> quiet c -> quiet c'.
Proof. unfold quiet. now intros ->. Qed.

Lemma quiet_cons c c' e : c_ev c' = e :: c_ev c -> quiet_ev e -> quiet c -> quiet c'.
Proof. unfold quiet. intros -> He H. now constructor. Qed.

Lemma quiet_ctx_ev c e : quiet_ev e -> quiet c -> quiet (ctx_ev c e).
Proof. apply quiet_cons. reflexivity. Qed.

Section Open.
Variable P : params.

Lemma fault_point_quiet c s : quiet c -> quiet (fst (fault_point c s)).
Proof. apply quiet_same. apply fault_point_ev. Qed.

Lemma open_file_quiet c n : quiet c -> quiet (fst (open_file c n)).
Proof.
  intros H. destruct (open_file c n) as [c' r] eqn:E. apply open_file_ev in E. cbn [fst].
  destruct E as [E|E]; [eapply quiet_same|eapply quiet_cons]; eauto. exact I.
Qed.

Lemma create_file_quiet c n : quiet c -> quiet (fst (create_file P c n)).
Proof.
  intros H. destruct (create_file P c n) as [c' r] eqn:E. apply create_file_ev in E. cbn [fst].
  destruct E as [E|E]; [eapply quiet_same; eauto|].
  unfold quiet. rewrite E. constructor; [exact I|]. constructor; [exact I|exact H].
Qed.

Lemma read_block_quiet c n pos : quiet c -> quiet (fst (fst (read_block P c n pos))).
Proof.
  intros H. unfold read_block. pose proof (fault_point_quiet c SRead H) as Hf.
  destruct (fault_point c SRead) as [c1 [e|]]; cbn [fst] in *.
  - apply quiet_ctx_ev; [exact I|exact Hf].
  - destruct (pos + BS P <=? lenN (file_content c1 n)); cbn [fst];
      (apply quiet_ctx_ev; [exact I|exact Hf]).
Qed.

Lemma next_file_loop_quiet cands : forall c rd,
  quiet c -> quiet (rd_ctx (fst (next_file_loop P c cands rd))).
Proof.
  induction cands as [|n rest IH]; intros c rd H; cbn [next_file_loop].
  - exact H.
  - pose proof (open_file_quiet c n H) as Ho.
    destruct (open_file c n) as [c1 [[]|e]]; cbn [fst] in *; [|exact Ho].
    pose proof (read_block_quiet c1 n 0 Ho) as Hr.
    destruct (read_block P c1 n 0) as [[c2 pos'] [[blk|]|e]]; cbn [fst rd_ctx] in *.
    + exact Hr.
    + now apply IH.
    + exact Hr.
Qed.

Lemma rd_next_quiet rd : quiet (rd_ctx rd) -> quiet (rd_ctx (fst (rd_next P rd))).
Proof.
  intros H. unfold rd_next.
  pose proof (read_block_quiet (rd_ctx rd) (rd_file rd) (rd_pos rd) H) as Hr.
  destruct (read_block P (rd_ctx rd) (rd_file rd) (rd_pos rd)) as [[c1 pos'] [[blk|]|e]];
    cbn [fst rd_ctx] in *; try exact Hr.
  now apply next_file_loop_quiet.
Qed.

Lemma ensure_last_full_quiet c files : quiet c -> quiet (fst (ensure_last_full P c files)).
Proof.
  intros H. unfold ensure_last_full. destruct (last_opt files) as [n|]; [|exact H].
  destruct (lenN (file_content c n) <? FILE_BYTES P); [|exact H].
  pose proof (open_file_quiet c n H) as Ho.
  destruct (open_file c n) as [c1 [[]|e]]; cbn [fst] in *; [|exact Ho].
  apply quiet_ctx_ev; [exact I|]. eapply quiet_same; [|exact Ho]. reflexivity.
Qed.

Lemma rd_open_quiet c0 : quiet c0 -> quiet (fst (rd_open P c0)).
Proof.
  intros H. unfold rd_open.
  assert (H0 : quiet (ctx_ev c0 EvReadDir)) by (apply quiet_ctx_ev; [exact I|exact H]).
  pose proof (fault_point_quiet _ SReadDir H0) as Hf.
  destruct (fault_point (ctx_ev c0 EvReadDir) SReadDir) as [c1 [e|]]; cbn [fst] in *; [exact Hf|].
  assert (Tail : forall c2 files, quiet c2 ->
    quiet (fst (match (if L_SHORT P then (c2, Ok tt) else ensure_last_full P c2 files) with
             | (c2', Err e) => (c2', Err e)
             | (c2, Ok _) =>
               let first := match files with f :: _ => f | [] => 0 end in
               match open_file c2 first with
               | (c3, Err e) => (c3, Err e)
               | (c3, Ok _) =>
                   match read_block P c3 first 0 with
                   | (c4, _, Err e) => (c4, Err e)
                   | (c4, _, Ok None) => (c4, Err IoUnexpectedEof)
                   | (c4, pos', Ok (Some blk)) => (c4, Ok (mkRd c4 files first 0 pos' blk))
                   end
               end
             end))).
  { intros c2 files H2.
    assert (H3 : quiet (fst (if L_SHORT P then (c2, Ok tt) else ensure_last_full P c2 files))).
    { destruct (L_SHORT P); [exact H2|]. now apply ensure_last_full_quiet. }
    destruct (if L_SHORT P then (c2, Ok tt) else ensure_last_full P c2 files) as [c2' [[]|e]];
      cbn [fst] in *; [|exact H3].
    set (first := match files with f :: _ => f | [] => 0 end).
    pose proof (open_file_quiet c2' first H3) as Ho.
    destruct (open_file c2' first) as [c3 [[]|e]]; cbn [fst] in *; [|exact Ho].
    pose proof (read_block_quiet c3 first 0 Ho) as Hr.
    destruct (read_block P c3 first 0) as [[c4 pos'] [[blk|]|e]]; cbn [fst] in *; exact Hr. }
  destruct (list_wal_numbers (c_fs c1)) as [|x l].
  - pose proof (create_file_quiet c1 0 Hf) as Hc.
    destruct (create_file P c1 0) as [c' [[]|e]]; cbn [fst] in *.
    + now apply Tail.
    + exact Hc.
  - now apply Tail.
Qed.

Lemma replay_loop_quiet fuel gofuel : forall rr qs,
  quiet (reader_ctx rr) -> quiet (reader_ctx (fst (replay_loop P fuel gofuel rr qs))).
Proof.
  induction fuel as [|fuel IH]; intros rr qs Hr; cbn [replay_loop]; [exact Hr|].
  pose proof (EffectsProofs.go_next_inv P rreaderS (rd_next P) rd_block (fun r => quiet (rd_ctx r))
                rd_next_quiet gofuel rr Hr) as Hg.
  destruct (go_next P rreaderS (rd_next P) rd_block gofuel rr) as [rr' [| | |e|]];
    cbn [fst] in Hg; fold (reader_ctx rr') in Hg.
  - destruct (entry_deser (rr_buf rr')) as [e|]; [|now apply IH].
    destruct (apply_entry qs _ e) as [qs'|]; [now apply IH|exact Hg].
  - exact Hg.
  - now apply IH.
  - destruct (L_IO P); [now apply IH|exact Hg].
  - exact Hg.
Qed.

Lemma quiet_all_synced w : quiet (w_ctx w) -> wr_all_synced w.
Proof.
  intros H. apply others_synced_no_writes. eapply Forall_impl; [|exact H].
  intros e He. destruct e; try exact I. contradiction.
Qed.

Lemma quiet_unlink_guarded c : quiet c -> unlink_guarded (chrono c).
Proof.
  intros H. apply ug_nounlink. apply Forall_rev. eapply Forall_impl; [|exact H].
  intros e He Hu. destruct e; contradiction.
Qed.

Lemma run_gc_guarded st hint st' r :
  L_GC P = false -> run_gc_if_necessary P st hint = (st', r) ->
  unlink_guarded (chrono (w_ctx (s_wr st))) -> unlink_guarded (chrono (w_ctx (s_wr st'))).
Proof.
  intros HGC H Hg.
  assert (E : ev_ext guarded (s_wr st) (s_wr st')).
  { eapply (run_gc_rel P (ev_ext guarded) guarded_refl guarded_trans); [| | |exact H].
    - intros w d w' r0 Hw. eapply ev_ext_weaken; [exact nounl_guarded|].
      eapply wr_write_nounl; exact Hw.
    - exact (persist_gc_guarded).
    - exact HGC. }
  destruct E as [new [E Hn]]. unfold chrono. rewrite E, rev_app_distr. now apply ug_app.
Qed.

(* the state returned by a successful open satisfies both invariants *)
Theorem open_invariants fs plan pol hint st :
  open P fs plan pol hint = OpenOk st ->
  others_synced (s_wr st) /\
  (L_GC P = false -> unlink_guarded (chrono (w_ctx (s_wr st)))).
Proof.
  unfold open, open_with.
  assert (Hq0 : quiet (ctx_init fs plan)) by constructor.
  pose proof (rd_open_quiet _ Hq0) as H1.
  destruct (EffectsProofs.rd_open_cext P (ctx_init fs plan)) as [_ H2].
  destruct (rd_open P (ctx_init fs plan)) as [c [rd|e]]; cbn [fst snd] in *; [|discriminate].
  specialize (H2 rd eq_refl).
  assert (H0 : quiet (reader_ctx (rr_open rreaderS rd))).
  { unfold reader_ctx, rr_open, fr_open. cbn [rr_fr fr_rd]. rewrite H2. exact H1. }
  pose proof (replay_loop_quiet (open_fuel P fs) (open_fuel P fs) (rr_open rreaderS rd) [] H0) as Hr.
  destruct (replay_loop P _ _ (rr_open rreaderS rd) []) as [rr [qs| |e|]];
    cbn [fst] in *; try discriminate.
  cbv zeta.
  match goal with |- context [run_gc_if_necessary P ?st0 hint] =>
    destruct (run_gc_if_necessary P st0 hint) as [st1 [k|e]] eqn:G end; [|discriminate].
  intros H; inversion H; subst st1; clear H.
  assert (Hq : quiet (w_ctx (rd_into_writer P (fr_rd (rr_fr rr)) (fr_cursor (rr_fr rr))))) by exact Hr.
  split.
  - eapply run_gc_others; [exact G|]. cbn [s_wr].
    apply wr_all_synced_others. now apply quiet_all_synced.
  - intros HGC. eapply run_gc_guarded; [exact HGC|exact G|]. cbn [s_wr].
    now apply quiet_unlink_guarded.
Qed.

(* C03 for whole histories from open *)
Corollary open_run_invariants fs plan pol hint st h :
  open P fs plan pol hint = OpenOk st ->
  others_synced (s_wr (fst (run P st h))) /\
  (L_GC P = false -> unlink_guarded (chrono (w_ctx (s_wr (fst (run P st h)))))).
Proof.
  intros H. apply open_invariants in H. destruct H as [H1 H2]. split.
  - now apply run_others_synced.
  - intros HGC. apply run_unlink_guarded; auto.
Qed.
End Open.

Print Assumptions persist_fsync_all_synced.
Print Assumptions persist_fsync_power.
Print Assumptions power_filter_all_synced_app.
Print Assumptions step_fsync_durable.
Print Assumptions step_fsync_power.
Print Assumptions step_fsync_durable_inv.
Print Assumptions step_flush_in_os.
Print Assumptions step_flush_in_os_bytes.
Print Assumptions step_others_synced.
Print Assumptions run_others_synced.
Print Assumptions gc_unlinks_after_sync.
Print Assumptions step_unlinks_after_sync.
Print Assumptions step_unlink_guarded.
Print Assumptions run_unlink_guarded.
Print Assumptions open_invariants.
Print Assumptions open_run_invariants.
