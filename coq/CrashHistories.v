(* CrashHistories.v — TASK T14: property C02 for WHOLE HISTORIES with any number of crashes.
   A history is a list of calls, clean restarts and CRASHES (a call interrupted at crash point
   (cut, k), the directory left behind is recovered by `open`).  From any usable state (jstate;
   in particular any state satisfying the restart invariant, e.g. a fresh log), if the side
   conditions chist_ok hold along the run, the run succeeds, every recovered state is usable
   again, and the final abstract state is the one the specification reaches over the same calls
   where every crashed call is either applied or not applied (chist_spec).
   Side conditions of a crash step: flush-per-operation policy, well-formed arguments, bounds,
   and the two restrictions of JRecover.v (the interrupted call does not roll over to a new file
   and ends before the last block of its file). *)
From Coq Require Import Lia ZArith ZifyN ZifyNat ZifyBool List Sorted.
From MRL Require Import Bytes BytesProofs Params Names NamesProofs Frame Record Mem Spec Rolling Log
  Driver Hist NoopProofs SpecRefine RecordProofs StreamProofs PolicyProofs GcProofs GhostLog ReplaySpec
  HandleProofs FileStream ResyncProofs QueueIso RestartInv RestartWrite RestartGc RestartStep
  OpenReplay RestartFinal TornProofs TornFile CrashTrace CrashAtomic
  JInv JGc JStep JunkStream JReopen CrashRecovered CrashRecovered2.

Arguments N.add : simpl never.
Arguments N.sub : simpl never.
Arguments N.mul : simpl never.

(* the events a transition appended to the trace, oldest first *)
Definition new_evs (st st' : state) : list event :=
  rev (firstn (length (c_ev (w_ctx (s_wr st'))) - length (c_ev (w_ctx (s_wr st))))
              (c_ev (w_ctx (s_wr st')))).

Lemma new_evs_spec st st' evs :
  c_ev (w_ctx (s_wr st')) = rev evs ++ c_ev (w_ctx (s_wr st)) -> new_evs st st' = evs.
Proof.
  intros H. unfold new_evs. rewrite H, app_length.
  replace (length (rev evs) + length (c_ev (w_ctx (s_wr st))) - length (c_ev (w_ctx (s_wr st))))%nat
    with (length (rev evs)) by lia.
  rewrite firstn_app, Nat.sub_diag, firstn_all. cbn [firstn]. rewrite app_nil_r. apply rev_involutive.
Qed.

Section Histories.
Variable P : params.
Hypothesis HBS_lo : 7 < BS P.
Hypothesis HBS_hi : BS P <= 65542.
Hypothesis HNB : 1 <= NB P.
Hypothesis Hcrc : forall t p, crcf P t p < 2 ^ 32.
Hypothesis HGC : L_GC P = false.
Hypothesis HIO : L_IO P = false.
Hypothesis HSHORT : L_SHORT P = false.
Hypothesis Hnc : no_zero_collision P.

Local Notation B := (BS P).
Local Notation FB := (FILE_BYTES P).

Inductive chop :=
| CCall (o : op) (tick : bool)
| CRestart (pol : policy) (hint : list bytes)
| CCrash (o : op) (tick : bool) (cut k : N) (pol : policy) (hint : list bytes).

(* the directory left by a crash at (cut, k) during the call o *)
Definition crash_img (st : state) (o : op) (tick : bool) (cut k : N) : fsT :=
  let st' := fst (step P st o tick) in
  fold_left apply_event (crash_events (new_evs st st') cut k) (c_fs (w_ctx (s_wr st))).

Fixpoint crun (st : state) (h : list chop) : option state :=
  match h with
  | [] => Some st
  | CCall o tick :: r => crun (fst (step P st o tick)) r
  | CRestart pol hint :: r =>
      match restart P st pol hint with OpenOk st' => crun st' r | _ => None end
  | CCrash o tick cut k pol hint :: r =>
      match open P (crash_img st o tick cut k) None pol hint with
      | OpenOk st' => crun st' r
      | _ => None
      end
  end.

(* the side conditions, along the run *)
Fixpoint chist_ok (st : state) (h : list chop) : Prop :=
  match h with
  | [] => True
  | CCall o tick :: r =>
      op_wf_strict (s_qs st) o /\
      phys_bound P (s_wr st) (map snd (step_log P st o)) /\
      chist_ok (fst (step P st o tick)) r
  | CRestart pol hint :: r =>
      restart_bound P st /\
      match restart P st pol hint with OpenOk st' => chist_ok st' r | _ => True end
  | CCrash o tick cut k pol hint :: r =>
      (exists a, crash_call_ok P st a o tick (fst (step P st o tick)) (snd (step P st o tick))) /\
      match open P (crash_img st o tick cut k) None pol hint with
      | OpenOk st' => chist_ok st' r
      | _ => True
      end
  end.

(* the specification: every crashed call is applied or not *)
Inductive chist_spec : smap -> list chop -> smap -> Prop :=
| cs_nil m : chist_spec m [] m
| cs_call m o tick r m' :
    chist_spec (fst (s_step m (sop_of o))) r m' -> chist_spec m (CCall o tick :: r) m'
| cs_restart m pol hint r m' : chist_spec m r m' -> chist_spec m (CRestart pol hint :: r) m'
| cs_crash_before m o tick cut k pol hint r m' :
    chist_spec m r m' -> chist_spec m (CCrash o tick cut k pol hint :: r) m'
| cs_crash_after m o tick cut k pol hint r m' :
    chist_spec (fst (s_step m (sop_of o))) r m' -> chist_spec m (CCrash o tick cut k pol hint :: r) m'.

Lemma chist_spec_ext h : forall m1 m2 m',
  (forall q, s_get m1 q = s_get m2 q) -> chist_spec m1 h m' ->
  exists m'', chist_spec m2 h m'' /\ forall q, s_get m'' q = s_get m' q.
Proof.
  induction h as [|c r IH]; intros m1 m2 m' He Hs; inversion Hs; subst.
  - exists m2. split; [constructor|]. intros q. now rewrite He.
  - destruct (s_step_ext m1 m2 (sop_of o) He) as (_ & H2).
    match goal with H : chist_spec _ r _ |- _ => destruct (IH _ _ _ H2 H) as (m'' & H4 & H5) end.
    exists m''. split; [now constructor|exact H5].
  - match goal with H : chist_spec _ r _ |- _ => destruct (IH _ _ _ He H) as (m'' & H4 & H5) end.
    exists m''. split; [now constructor|exact H5].
  - match goal with H : chist_spec _ r _ |- _ => destruct (IH _ _ _ He H) as (m'' & H4 & H5) end.
    exists m''. split; [now apply cs_crash_before|exact H5].
  - destruct (s_step_ext m1 m2 (sop_of o) He) as (_ & H2).
    match goal with H : chist_spec _ r _ |- _ => destruct (IH _ _ _ H2 H) as (m'' & H4 & H5) end.
    exists m''. split; [now apply cs_crash_after|exact H5].
Qed.

(* one call from a usable state: the abstract state follows the specification *)
Lemma jstate_call st o tick :
  jstate P st -> op_wf_strict (s_qs st) o -> phys_bound P (s_wr st) (map snd (step_log P st o)) ->
  jstate P (fst (step P st o tick)) /\
  forall q, s_get (fst (s_step (abs_qs (s_qs st)) (sop_of o))) q =
            s_get (abs_qs (s_qs (fst (step P st o tick)))) q.
Proof.
  intros Hj Hop Hb.
  destruct (jstate_run P HBS_lo HBS_hi HNB Hcrc HGC HIO HSHORT st [HCall o tick] Hj)
    as (st1 & outs & m' & souts & Hr & Hj1 & _ & Hs & Hm & _).
  { cbn [hist_ok]. split; [exact Hop|]. split; [exact Hb|exact I]. }
  cbn [hrun] in Hr. destruct (step P st o tick) as [s1 out] eqn:Es. cbn [hrun] in Hr.
  injection Hr as <- _. cbn [fst]. split; [exact Hj1|].
  cbn [hcalls map s_run] in Hs.
  destruct (s_step (abs_qs (s_qs st)) (sop_of o)) as [m1 so] eqn:Em. cbn [fst].
  injection Hs as <- _. exact Hm.
Qed.

Theorem crash_histories h : forall st,
  jstate P st -> chist_ok st h ->
  exists st' m',
    crun st h = Some st' /\ jstate P st' /\
    chist_spec (abs_qs (s_qs st)) h m' /\
    forall q, s_get m' q = s_get (abs_qs (s_qs st')) q.
Proof.
  induction h as [|[o tick|pol hint|o tick cut k pol hint] r IH]; intros st Hj Hok.
  - exists st, (abs_qs (s_qs st)). split; [reflexivity|]. split; [exact Hj|]. split; [constructor|auto].
  - cbn [chist_ok] in Hok. destruct Hok as (Hop & Hb & Hok). cbn [crun].
    destruct (jstate_call st o tick Hj Hop Hb) as (Hj1 & Ha1).
    destruct (IH _ Hj1 Hok) as (st' & m' & Hr & Hj' & Hs & Hm).
    destruct (chist_spec_ext r _ _ m' (fun q => eq_sym (Ha1 q)) Hs) as (m'' & Hs' & Hm'').
    exists st', m''. split; [exact Hr|]. split; [exact Hj'|]. split; [now constructor|].
    intros q. now rewrite Hm''.
  - cbn [chist_ok] in Hok. destruct Hok as (Hb & Hok). cbn [crun].
    destruct (jstate_restart_identity P HBS_lo HBS_hi HNB Hcrc HGC HIO HSHORT st Hj Hb pol hint)
      as (st1 & Eo & Hj1 & _ & _ & Ha1).
    rewrite Eo in *.
    destruct (IH _ Hj1 Hok) as (st' & m' & Hr & Hj' & Hs & Hm).
    destruct (chist_spec_ext r _ _ m' Ha1 Hs) as (m'' & Hs' & Hm'').
    exists st', m''. split; [exact Hr|]. split; [exact Hj'|]. split; [now constructor|].
    intros q. now rewrite Hm''.
  - cbn [chist_ok] in Hok. destruct Hok as ((a & Hcc) & Hok). cbn [crun].
    destruct (step P st o tick) as [s1 out] eqn:Es. cbn [fst snd] in Hcc.
    destruct (jstate_crash P HBS_lo HBS_hi HNB Hcrc HGC HIO HSHORT Hnc st a o tick s1 out Hj Hcc)
      as (Hno & evs & Hev & Hall).
    assert (Eimg : crash_img st o tick cut k =
                   fold_left apply_event (crash_events evs cut k) (c_fs (w_ctx (s_wr st)))).
    { unfold crash_img. rewrite Es. cbn [fst]. now rewrite (new_evs_spec st s1 evs Hev). }
    rewrite Eimg in *.
    destruct (Hall cut k pol hint) as (st_r & Ho & Hjr & _ & _ & Habs). cbn zeta in Ho.
    rewrite Ho in *.
    destruct (IH _ Hjr Hok) as (st' & m' & Hr & Hj' & Hs & Hm).
    destruct Habs as [Ha|Ha].
    + destruct (chist_spec_ext r _ _ m' Ha Hs) as (m'' & Hs' & Hm'').
      exists st', m''. split; [exact Hr|]. split; [exact Hj'|]. split; [now apply cs_crash_before|].
      intros q. now rewrite Hm''.
    + (* the call was applied: the abstract state after it is the specification's *)
      destruct Hcc as (_ & _ & Hop & _).
      pose proof (step_refines P st o tick (jstate_qs_inv P st Hj)) as Href. rewrite Es in Href.
      destruct Href as (_ & Href).
      destruct (no_io_logical out ltac:(intros e0 He0; exact (Hno e0 He0))) as (so & Eso).
      specialize (Href so Eso).
      assert (Ha' : forall q, s_get (abs_qs (s_qs st_r)) q =
                              s_get (fst (s_step (abs_qs (s_qs st)) (sop_of o))) q).
      { intros q. rewrite Ha, Href. reflexivity. }
      destruct (chist_spec_ext r _ _ m' Ha' Hs) as (m'' & Hs' & Hm'').
      exists st', m''. split; [exact Hr|]. split; [exact Hj'|]. split; [now apply cs_crash_after|].
      intros q. now rewrite Hm''.
Qed.

(* from a fresh directory *)
Corollary crash_histories_fresh pol0 st0 h :
  open P [] None pol0 [] = OpenOk st0 -> chist_ok st0 h ->
  exists st' m',
    crun st0 h = Some st' /\ jstate P st' /\
    chist_spec [] h m' /\ forall q, s_get m' q = s_get (abs_qs (s_qs st')) q.
Proof.
  intros Ho Hok.
  pose proof (inv_fresh P HBS_lo HBS_hi HNB pol0 st0 Ho) as HI0.
  destruct (crash_histories h st0 (jstate_inv P HBS_lo HBS_hi HNB Hcrc st0 gh_fresh HI0) Hok)
    as (st' & m' & Hr & Hj & Hs & Hm).
  destruct (open_fresh P HBS_lo HBS_hi HNB pol0) as (c & _ & Eo). rewrite Eo in Ho.
  injection Ho as <-. cbn [s_qs abs_qs map] in Hs.
  exists st', m'. auto.
Qed.

(* a clean restart of a usable state (e.g. a state reached after crash recoveries) is invisible
   for the whole read API, as in C01_restart_identity *)
Corollary jstate_restart_reads st :
  jstate P st -> restart_bound P st ->
  forall pol hint, exists st2,
    restart P st pol hint = OpenOk st2 /\
    (forall q, s_get (abs_qs (s_qs st2)) q = s_get (abs_qs (s_qs st)) q) /\
    (forall q lo hi, log_range st2 q lo hi = log_range st q lo hi) /\
    (forall q, log_last_position st2 q = log_last_position st q) /\
    (forall q, log_last_record st2 q = log_last_record st q).
Proof.
  intros Hj Hb pol hint.
  destruct (jstate_restart_identity P HBS_lo HBS_hi HNB Hcrc HGC HIO HSHORT st Hj Hb pol hint)
    as (st2 & Eo & Hj2 & _ & _ & Heq).
  exists st2. split; [exact Eo|]. split; [exact Heq|].
  exact (reads_ext st2 st (jstate_qs_inv P st2 Hj2) (jstate_qs_inv P st Hj) Heq).
Qed.

End Histories.

Print Assumptions crash_histories.
Print Assumptions crash_histories_fresh.
Print Assumptions jstate_restart_reads.
