(* SpecRefine.v — the in-memory queues (Mem.v) and the log API (Log.v) refine the sequential
   queue-map specification (Spec.v). *)
From Coq Require Import Lia ZArith ZifyN ZifyNat ZifyBool.
From MRL Require Import Bytes BytesProofs Params Names Frame Record Mem Spec Rolling Log NoopProofs.

Arguments N.add : simpl never.
Arguments N.sub : simpl never.
Arguments N.mul : simpl never.
Arguments N.eqb : simpl never.
Arguments N.ltb : simpl never.
Arguments N.leb : simpl never.
Arguments N.div : simpl never.
Arguments N.modulo : simpl never.

(* ====================================================================== *)
(* 0. small list facts                                                    *)
(* ====================================================================== *)

Lemma dropN_cons_succ {A} k (x : A) l : dropN (1 + k) (x :: l) = dropN k l.
Proof.
  cbn [dropN]. destruct (N.eqb_spec (1 + k) 0) as [E|_]; [lia|].
  f_equal. lia.
Qed.

Lemma sliceN_app_l {A} a b (x y : list A) :
  a <= b -> b <= lenN x -> sliceN a b (x ++ y) = sliceN a b x.
Proof.
  intros Hab Hb. unfold sliceN. rewrite dropN_app_le by lia.
  apply takeN_app_le. rewrite lenN_dropN. lia.
Qed.

Lemma sliceN_to_end {A} a (x : list A) : sliceN a (lenN x) x = dropN a x.
Proof. unfold sliceN. apply takeN_all. rewrite lenN_dropN. lia. Qed.

Lemma sliceN_dropN {A} off a b (x : list A) :
  off <= a -> sliceN (a - off) (b - off) (dropN off x) = sliceN a b x.
Proof.
  intros H. unfold sliceN. rewrite dropN_dropN.
  replace (off + (a - off)) with a by lia.
  replace (b - off - (a - off)) with (b - a) by lia. reflexivity.
Qed.

Lemma sliceN_then_dropN {A} a b (x : list A) :
  a <= b -> sliceN a b x ++ dropN b x = dropN a x.
Proof.
  intros H. unfold sliceN.
  replace (dropN b x) with (dropN (b - a) (dropN a x)).
  - apply takeN_dropN.
  - rewrite dropN_dropN. f_equal. lia.
Qed.

Lemma filter_all_true {A} (f : A -> bool) l :
  (forall x, In x l -> f x = true) -> filter f l = l.
Proof.
  induction l as [|x l IH]; intros H; cbn [filter]; [reflexivity|].
  rewrite (H x (or_introl eq_refl)). f_equal. apply IH. intros y Hy. apply H. now right.
Qed.

Lemma filter_all_false {A} (f : A -> bool) l :
  (forall x, In x l -> f x = false) -> filter f l = [].
Proof.
  induction l as [|x l IH]; intros H; cbn [filter]; [reflexivity|].
  rewrite (H x (or_introl eq_refl)). apply IH. intros y Hy. apply H. now right.
Qed.

Lemma filter_andb {A} (f g : A -> bool) l :
  filter (fun x => f x && g x) l = filter g (filter f l).
Proof.
  induction l as [|x l IH]; cbn [filter]; [reflexivity|].
  destruct (f x); cbn [andb filter]; [|exact IH].
  destruct (g x); [f_equal|]; exact IH.
Qed.

Lemma take_while_andb_filter {A} (f g : A -> bool) l :
  take_while (fun x => f x && g x) (filter f l) = take_while g (filter f l).
Proof.
  induction l as [|x l IH]; cbn [filter]; [reflexivity|].
  destruct (f x) eqn:E; [|exact IH]. cbn [take_while]. rewrite E. cbn [andb].
  destruct (g x); [f_equal; exact IH|reflexivity].
Qed.

Lemma last_opt_cons {A} (x : A) l :
  last_opt (x :: l) = match last_opt l with Some y => Some y | None => Some x end.
Proof.
  destruct l as [|y l]; [reflexivity|].
  cbn [last_opt]. destruct l as [|z l]; [reflexivity|].
  destruct (last_opt (z :: l)) eqn:E; [reflexivity|].
  apply last_opt_nil_iff in E. discriminate.
Qed.

Lemma last_opt_filter {A} (f : A -> bool) l x :
  last_opt l = Some x -> f x = true -> last_opt (filter f l) = Some x.
Proof.
  induction l as [|y l IH]; intros Hl Hf; [discriminate|].
  rewrite last_opt_cons in Hl. cbn [filter].
  destruct (last_opt l) as [z|] eqn:E.
  - inversion Hl; subst z. specialize (IH eq_refl Hf).
    destruct (f y); [|exact IH]. rewrite last_opt_cons, IH. reflexivity.
  - inversion Hl; subst y. apply last_opt_nil_iff in E. subst l. rewrite Hf. reflexivity.
Qed.

Lemma last_opt_In {A} (l : list A) x : last_opt l = Some x -> In x l.
Proof.
  induction l as [|y l IH]; intros H; [discriminate|].
  rewrite last_opt_cons in H. destruct (last_opt l) as [z|] eqn:E.
  - inversion H; subst. right. now apply IH.
  - inversion H. now left.
Qed.

(* ====================================================================== *)
(* 1. the invariant                                                       *)
(* ====================================================================== *)

(* positions strictly increasing and >= lp; offsets non-decreasing, >= lo and <= len *)
Fixpoint metas_ok (lp lo len : N) (ms : list meta) : Prop :=
  match ms with
  | [] => lo <= len
  | m :: r => lp <= m_pos m /\ lo <= m_off m /\ metas_ok (m_pos m + 1) (m_off m) len r
  end.

Definition first_off (ms : list meta) : N := match ms with m :: _ => m_off m | [] => 0 end.

Definition mq_inv (q : mq) : Prop :=
     metas_ok (q_start q) 0 (lenN (q_buf q)) (q_metas q)
  /\ first_off (q_metas q) = 0
  /\ (q_metas q = [] -> q_buf q = []).

Definition qs_inv (qs : queues) : Prop := forall n q, In (n, q) qs -> mq_inv q.

Lemma mq_inv_default : mq_inv mq_default.
Proof. unfold mq_inv, mq_default. cbn. repeat split; lia. Qed.

Lemma mq_inv_with_next n : mq_inv (mq_with_next n).
Proof. unfold mq_inv, mq_with_next. cbn. repeat split; lia. Qed.

Lemma metas_ok_weaken lp lo len ms lp' lo' :
  metas_ok lp lo len ms -> lp' <= lp -> lo' <= lo -> metas_ok lp' lo' len ms.
Proof.
  destruct ms as [|m r]; cbn [metas_ok]; intros H Hp Ho; [lia|].
  destruct H as (H1 & H2 & H3). repeat split; try lia. exact H3.
Qed.

Lemma metas_ok_lo_le lp lo len ms : metas_ok lp lo len ms -> lo <= len.
Proof.
  revert lp lo; induction ms as [|m r IH]; intros lp lo H; cbn [metas_ok] in H; [exact H|].
  destruct H as (_ & H2 & H3). apply IH in H3. lia.
Qed.

Lemma metas_ok_pos_ge lp lo len ms m : metas_ok lp lo len ms -> In m ms -> lp <= m_pos m.
Proof.
  revert lp lo; induction ms as [|m0 r IH]; intros lp lo H Hin; [destruct Hin|].
  cbn [metas_ok] in H. destruct H as (H1 & H2 & H3). destruct Hin as [->|Hin]; [exact H1|].
  specialize (IH _ _ H3 Hin). lia.
Qed.

(* ====================================================================== *)
(* 2. records_of                                                          *)
(* ====================================================================== *)

Definition stop_of (buf : bytes) (r : list meta) : N :=
  match r with m' :: _ => m_off m' | [] => lenN buf end.

Lemma records_of_cons buf m r :
  records_of buf (m :: r) = (m_pos m, sliceN (m_off m) (stop_of buf r) buf) :: records_of buf r.
Proof. reflexivity. Qed.

Lemma lenN_records_of buf ms : lenN (records_of buf ms) = lenN ms.
Proof.
  induction ms as [|m r IH]; [reflexivity|].
  rewrite records_of_cons, !lenN_cons, IH. reflexivity.
Qed.

Lemma records_of_nil_iff buf ms : records_of buf ms = [] <-> ms = [].
Proof. destruct ms; split; intros H; try reflexivity; discriminate. Qed.

Lemma records_of_dropN buf k ms : records_of buf (dropN k ms) = dropN k (records_of buf ms).
Proof.
  revert k; induction ms as [|m r IH]; intros k; [reflexivity|].
  rewrite records_of_cons. cbn [dropN]. destruct (N.eqb_spec k 0) as [_|_].
  - apply records_of_cons.
  - apply IH.
Qed.

Lemma records_of_pos_in buf ms x :
  In x (records_of buf ms) -> exists m, In m ms /\ fst x = m_pos m.
Proof.
  induction ms as [|m r IH]; intros H; [destruct H|].
  rewrite records_of_cons in H. destruct H as [<-|H].
  - exists m. split; [now left|reflexivity].
  - destruct (IH H) as (m' & Hin & E). exists m'. split; [now right|exact E].
Qed.

Lemma records_pos_ge buf lp lo len ms x :
  metas_ok lp lo len ms -> In x (records_of buf ms) -> lp <= fst x.
Proof.
  intros H Hin. destruct (records_of_pos_in _ _ _ Hin) as (m & Hm & ->).
  eapply metas_ok_pos_ge; eauto.
Qed.

Lemma last_opt_records_of buf ms :
  last_opt (records_of buf ms) =
  match last_opt ms with Some m => Some (m_pos m, dropN (m_off m) buf) | None => None end.
Proof.
  induction ms as [|m r IH]; [reflexivity|].
  rewrite records_of_cons, !last_opt_cons, IH.
  destruct (last_opt r) as [m'|] eqn:E; [reflexivity|].
  apply last_opt_nil_iff in E. subst r. cbn [stop_of]. now rewrite sliceN_to_end.
Qed.

Definition next_of (start : N) (recs : list (N * bytes)) : N :=
  match last_opt recs with Some r => fst r + 1 | None => start end.

Lemma next_position_recs q :
  next_position q = next_of (q_start q) (records_of (q_buf q) (q_metas q)).
Proof.
  unfold next_position, next_of. rewrite last_opt_records_of.
  destruct (last_opt (q_metas q)); reflexivity.
Qed.

(* every retained position is below next_position *)
Lemma metas_ok_last_ge lp lo len ms m ml :
  metas_ok lp lo len ms -> In m ms -> last_opt ms = Some ml -> m_pos m <= m_pos ml.
Proof.
  revert lp lo; induction ms as [|m0 r IH]; intros lp lo H Hin Hl; [destruct Hin|].
  cbn [metas_ok] in H. destruct H as (H1 & H2 & H3).
  rewrite last_opt_cons in Hl. destruct (last_opt r) as [z|] eqn:E.
  - inversion Hl; subst z. destruct Hin as [->|Hin].
    + pose proof (metas_ok_pos_ge _ _ _ _ _ H3 (last_opt_In _ _ E)). lia.
    + eapply IH; eauto.
  - apply last_opt_nil_iff in E. subst r. inversion Hl; subst ml.
    destruct Hin as [->|[]]. lia.
Qed.

Lemma records_pos_lt_next q x :
  mq_inv q -> In x (records_of (q_buf q) (q_metas q)) -> q_start q <= fst x < next_position q.
Proof.
  intros (Hok & _ & _) Hin. split; [eapply records_pos_ge; eauto|].
  destruct (records_of_pos_in _ _ _ Hin) as (m & Hm & ->).
  unfold next_position. destruct (last_opt (q_metas q)) as [ml|] eqn:E.
  - pose proof (metas_ok_last_ge _ _ _ _ _ _ Hok Hm E). lia.
  - apply last_opt_nil_iff in E. rewrite E in Hm. destruct Hm.
Qed.

(* ====================================================================== *)
(* 3. append                                                              *)
(* ====================================================================== *)

Lemma take_last_file_cons m r :
  take_last_file (m :: r) =
  match r with [] => [mkMeta (m_off m) None (m_pos m)] | _ => m :: take_last_file r end.
Proof. destruct r; reflexivity. Qed.

Lemma metas_ok_take_last_file lp lo len ms :
  metas_ok lp lo len (take_last_file ms) <-> metas_ok lp lo len ms.
Proof.
  revert lp lo; induction ms as [|m r IH]; intros lp lo; [reflexivity|].
  rewrite take_last_file_cons. destruct r as [|m' r'].
  - cbn [metas_ok m_pos m_off]. reflexivity.
  - cbn [metas_ok] in *. rewrite IH. reflexivity.
Qed.

Lemma first_off_take_last_file ms : first_off (take_last_file ms) = first_off ms.
Proof. destruct ms as [|m [|m' r]]; reflexivity. Qed.

Lemma records_of_take_last_file buf ms :
  records_of buf (take_last_file ms) = records_of buf ms.
Proof.
  induction ms as [|m r IH]; [reflexivity|].
  rewrite take_last_file_cons. destruct r as [|m' r'].
  - reflexivity.
  - rewrite !records_of_cons, IH. f_equal.
    rewrite take_last_file_cons. destruct r'; reflexivity.
Qed.

Lemma take_last_file_nil_iff ms : take_last_file ms = [] <-> ms = [].
Proof. destruct ms as [|m [|m' r]]; split; intros H; try reflexivity; discriminate. Qed.

Lemma metas_ok_snoc lp lo len len' ms f t :
  metas_ok lp lo len ms ->
  match last_opt ms with Some m => m_pos m + 1 | None => lp end <= t ->
  len <= len' ->
  metas_ok lp lo len' (ms ++ [mkMeta len f t]).
Proof.
  revert lp lo; induction ms as [|m r IH]; intros lp lo H Ht Hl.
  - cbn [metas_ok app last_opt m_pos m_off] in *. lia.
  - cbn [app metas_ok] in *. destruct H as (H1 & H2 & H3). repeat split; try assumption.
    apply IH; try assumption. rewrite last_opt_cons in Ht.
    destruct (last_opt r); exact Ht.
Qed.

Lemma records_of_snoc buf pl lp lo ms f t :
  metas_ok lp lo (lenN buf) ms ->
  records_of (buf ++ pl) (ms ++ [mkMeta (lenN buf) f t]) = records_of buf ms ++ [(t, pl)].
Proof.
  revert lp lo; induction ms as [|m r IH]; intros lp lo H.
  - cbn [app]. rewrite records_of_cons. cbn [records_of stop_of m_pos m_off app].
    rewrite sliceN_to_end, dropN_app_exact. reflexivity.
  - cbn [app]. rewrite !records_of_cons. cbn [metas_ok] in H. destruct H as (H1 & H2 & H3).
    rewrite (IH _ _ H3). cbn [app]. f_equal. f_equal.
    pose proof (metas_ok_lo_le _ _ _ _ H3) as Hle.
    destruct r as [|m' r'].
    + cbn [app stop_of m_off]. apply sliceN_app_l; lia.
    + cbn [app stop_of]. cbn [metas_ok] in H3. destruct H3 as (H4 & H5 & H6).
      apply metas_ok_lo_le in H6. apply sliceN_app_l; lia.
Qed.

(* the metas the new record is pushed onto *)
Definition metas_before (q : mq) (file : N) : list meta :=
  match last_opt (q_metas q) with
  | Some m => if opt_N_eqb (m_file m) file then take_last_file (q_metas q) else q_metas q
  | None => q_metas q
  end.

Lemma metas_before_cases q file :
  metas_before q file = q_metas q \/ metas_before q file = take_last_file (q_metas q).
Proof.
  unfold metas_before. destruct (last_opt (q_metas q)) as [m|]; [|now left].
  destruct (opt_N_eqb (m_file m) file); [now right|now left].
Qed.

Lemma append_record_some q file target payload q' :
  append_record q file target payload = Some q' ->
  next_position q <= target /\
  q' = mkMq (q_buf q ++ payload)
            (if (q_start q =? 0) && isnil (q_metas q) then target else q_start q)
            (metas_before q file ++ [mkMeta (lenN (q_buf q)) (Some file) target]).
Proof.
  unfold append_record, metas_before.
  destruct (N.ltb_spec target (next_position q)) as [Hlt|Hge]; [discriminate|].
  intros H. inversion H. split; [exact Hge|reflexivity].
Qed.

Lemma last_pos_take_last_file ms :
  match last_opt (take_last_file ms) with Some m => Some (m_pos m) | None => None end =
  match last_opt ms with Some m => Some (m_pos m) | None => None end.
Proof.
  induction ms as [|m r IH]; [reflexivity|].
  rewrite take_last_file_cons. destruct r as [|m' r']; [reflexivity|].
  rewrite (last_opt_cons m (take_last_file (m' :: r'))), (last_opt_cons m (m' :: r')).
  destruct (last_opt (take_last_file (m' :: r'))) as [a|] eqn:Ea;
    destruct (last_opt (m' :: r')) as [b|] eqn:Eb; try exact IH; try discriminate.
  reflexivity.
Qed.

Theorem append_record_some_refines q file target payload q' :
  mq_inv q -> append_record q file target payload = Some q' ->
  mq_inv q' /\
  records_of (q_buf q') (q_metas q') = records_of (q_buf q) (q_metas q) ++ [(target, payload)] /\
  next_position q' = target + 1.
Proof.
  intros (Hok & Hfo & Hnil) H. apply append_record_some in H. destruct H as (Hge & ->).
  set (start' := if (q_start q =? 0) && isnil (q_metas q) then target else q_start q).
  assert (Hnext : next_position (mkMq (q_buf q ++ payload) start'
             (metas_before q file ++ [mkMeta (lenN (q_buf q)) (Some file) target])) = target + 1).
  { unfold next_position. cbn [q_metas]. now rewrite last_opt_app. }
  assert (Hok' : metas_ok start' 0 (lenN (q_buf q)) (q_metas q)).
  { destruct (q_metas q) as [|m r] eqn:Em.
    - cbn [metas_ok]. lia.
    - unfold start'. cbn [isnil]. rewrite andb_false_r. exact Hok. }
  assert (Hst : match last_opt (q_metas q) with Some m => m_pos m + 1 | None => start' end <= target).
  { unfold next_position in Hge. destruct (last_opt (q_metas q)) as [m|] eqn:El; [exact Hge|].
    apply last_opt_nil_iff in El. unfold start'. rewrite El. cbn [isnil]. rewrite andb_true_r.
    destruct (N.eqb_spec (q_start q) 0); lia. }
  split; [|split; [|exact Hnext]].
  - unfold mq_inv. cbn [q_buf q_start q_metas]. rewrite lenN_app.
    destruct (metas_before_cases q file) as [E|E]; rewrite E.
    + split; [|split].
      * apply metas_ok_snoc; [exact Hok'|exact Hst|lia].
      * destruct (q_metas q) as [|m r] eqn:Em; [|exact Hfo].
        cbn [app first_off m_off]. rewrite (Hnil eq_refl). reflexivity.
      * intros Hc. destruct (q_metas q); discriminate.
    + split; [|split].
      * apply metas_ok_snoc; [now apply metas_ok_take_last_file| |lia].
        pose proof (last_pos_take_last_file (q_metas q)) as Hl.
        destruct (last_opt (take_last_file (q_metas q))) as [a|];
          destruct (last_opt (q_metas q)) as [b|]; try discriminate; [|exact Hst].
        inversion Hl as [Hab]. rewrite Hab. exact Hst.
      * destruct (q_metas q) as [|m r] eqn:Em.
        -- cbn [take_last_file app first_off m_off]. rewrite (Hnil eq_refl). reflexivity.
        -- rewrite <- Hfo. destruct r; reflexivity.
      * intros Hc. destruct (take_last_file (q_metas q)); discriminate.
  - cbn [q_buf q_metas].
    destruct (metas_before_cases q file) as [E|E]; rewrite E.
    + eapply records_of_snoc; exact Hok.
    + rewrite <- (records_of_take_last_file (q_buf q) (q_metas q)).
      eapply records_of_snoc. apply metas_ok_take_last_file. exact Hok.
Qed.

Theorem append_record_refines q file target payload q' :
  mq_inv q -> next_position q <= target -> append_record q file target payload = Some q' ->
  mq_inv q' /\
  records_of (q_buf q') (q_metas q') = records_of (q_buf q) (q_metas q) ++ [(target, payload)] /\
  next_position q' = target + 1.
Proof. intros Hi _ H. eapply append_record_some_refines; eauto. Qed.

Lemma number_from_s_number p l : number_from p l = s_number p l.
Proof. revert p; induction l as [|x l IH]; intros p; cbn [number_from s_number]; [reflexivity|]. now rewrite IH. Qed.

Theorem append_all_refines : forall payloads q file p,
  mq_inv q -> next_position q <= p -> payloads <> [] ->
  exists q', append_all q file (number_from p payloads) = Some q' /\
    mq_inv q' /\
    records_of (q_buf q') (q_metas q') = records_of (q_buf q) (q_metas q) ++ s_number p payloads /\
    next_position q' = p + lenN payloads.
Proof.
  induction payloads as [|x r IH]; intros q file p Hi Hn Hne; [congruence|].
  cbn [number_from append_all s_number].
  destruct (append_record_next q file p x Hn) as (q1 & E1 & Hn1). rewrite E1.
  destruct (append_record_some_refines _ _ _ _ _ Hi E1) as (Hi1 & Hr1 & _).
  destruct r as [|y r'].
  - cbn [number_from append_all s_number]. exists q1.
    split; [reflexivity|]. split; [exact Hi1|]. split; [exact Hr1|].
    rewrite Hn1. rewrite lenN_cons, lenN_nil. lia.
  - destruct (IH q1 file (p + 1) Hi1 ltac:(lia) ltac:(discriminate)) as (q' & E' & Hi' & Hr' & Hn').
    exists q'. split; [exact E'|]. split; [exact Hi'|]. split.
    + rewrite Hr', Hr1, <- app_assoc. reflexivity.
    + rewrite Hn'. rewrite (lenN_cons x). lia.
Qed.

(* replay: whatever the numbering, a successful append_all keeps the invariant *)
Lemma append_all_inv : forall recs q file q',
  mq_inv q -> append_all q file recs = Some q' ->
  mq_inv q' /\ records_of (q_buf q') (q_metas q') = records_of (q_buf q) (q_metas q) ++ recs.
Proof.
  induction recs as [|[p x] r IH]; intros q file q' Hi H; cbn [append_all] in H.
  - inversion H; subst. rewrite app_nil_r. now split.
  - destruct (append_record q file p x) as [q1|] eqn:E1; [|discriminate].
    destruct (append_record_some_refines _ _ _ _ _ Hi E1) as (Hi1 & Hr1 & _).
    destruct (IH _ _ _ Hi1 H) as (Hi' & Hr'). split; [exact Hi'|].
    rewrite Hr', Hr1, <- app_assoc. reflexivity.
Qed.

(* ====================================================================== *)
(* 4. truncate_head                                                       *)
(* ====================================================================== *)

Lemma idx_ge_le p ms : idx_ge p ms <= lenN ms.
Proof.
  induction ms as [|m r IH]; cbn [idx_ge]; [apply N.le_0_l|].
  rewrite lenN_cons. destruct (N.ltb_spec (m_pos m) p); lia.
Qed.

Lemma drop_idx_filter buf p lp lo len ms :
  metas_ok lp lo len ms ->
  dropN (idx_ge p ms) (records_of buf ms) = filter (fun r => p <=? fst r) (records_of buf ms).
Proof.
  revert lp lo; induction ms as [|m r IH]; intros lp lo H; [reflexivity|].
  cbn [idx_ge]. destruct (N.ltb_spec (m_pos m) p) as [Hlt|Hge].
  - rewrite records_of_cons, dropN_cons_succ. cbn [filter fst].
    destruct (N.leb_spec p (m_pos m)) as [Hc|_]; [lia|].
    cbn [metas_ok] in H. destruct H as (_ & _ & H3). eapply IH; exact H3.
  - rewrite dropN_0. symmetry. apply filter_all_true. intros x Hx.
    assert (H' : metas_ok (m_pos m) lo len (m :: r)).
    { cbn [metas_ok] in *. destruct H as (H1 & H2 & H3). repeat split; try assumption; lia. }
    pose proof (records_pos_ge _ _ _ _ _ _ H' Hx). lia.
Qed.

Lemma metas_ok_drop_idx p lp lo len ms :
  metas_ok lp lo len ms -> metas_ok (N.max lp p) lo len (dropN (idx_ge p ms) ms).
Proof.
  revert lp lo; induction ms as [|m r IH]; intros lp lo H; [exact H|].
  cbn [idx_ge]. destruct (N.ltb_spec (m_pos m) p) as [Hlt|Hge].
  - rewrite dropN_cons_succ. cbn [metas_ok] in H. destruct H as (H1 & H2 & H3).
    eapply metas_ok_weaken; [apply IH; exact H3|lia|lia].
  - rewrite dropN_0. cbn [metas_ok] in *. destruct H as (H1 & H2 & H3).
    repeat split; try assumption; lia.
Qed.

Lemma metas_ok_rebase off lp lo len ms :
  metas_ok lp lo len ms -> off <= lo ->
  metas_ok lp (lo - off) (len - off) (map (rebase off) ms).
Proof.
  revert lp lo; induction ms as [|m r IH]; intros lp lo H Ho; cbn [map metas_ok] in *; [lia|].
  destruct H as (H1 & H2 & H3). cbn [rebase m_pos m_off]. repeat split; try lia.
  apply IH; [exact H3|lia].
Qed.

Lemma records_of_rebase off buf lp lo ms :
  metas_ok lp lo (lenN buf) ms -> off <= lo ->
  records_of (dropN off buf) (map (rebase off) ms) = records_of buf ms.
Proof.
  revert lp lo; induction ms as [|m r IH]; intros lp lo H Ho; [reflexivity|].
  cbn [map]. rewrite !records_of_cons. cbn [metas_ok] in H. destruct H as (H1 & H2 & H3).
  rewrite (IH _ _ H3) by lia. cbn [rebase m_pos m_off]. f_equal. f_equal.
  destruct r as [|m' r']; cbn [map stop_of rebase m_off].
  - rewrite lenN_dropN. apply sliceN_dropN. lia.
  - apply sliceN_dropN. lia.
Qed.

Theorem truncate_head_refines q p :
  mq_inv q ->
  let '(q', k) := truncate_head q p in
  mq_inv q' /\
  records_of (q_buf q') (q_metas q') =
    filter (fun r => p <? fst r) (records_of (q_buf q) (q_metas q)) /\
  k = lenN (records_of (q_buf q) (q_metas q)) - lenN (records_of (q_buf q') (q_metas q')) /\
  next_position q' =
    (if isnil (records_of (q_buf q') (q_metas q')) && (next_position q <=? p + 1)
     then p + 1 else next_position q).
Proof.
  intros Hi. unfold truncate_head.
  destruct (N.ltb_spec p (q_start q)) as [Hlt|Hge].
  { (* nothing to evict *)
    assert (Hf : filter (fun r => p <? fst r) (records_of (q_buf q) (q_metas q)) =
                 records_of (q_buf q) (q_metas q)).
    { apply filter_all_true. intros x Hx. pose proof (records_pos_lt_next _ _ Hi Hx). lia. }
    split; [exact Hi|]. split; [now rewrite Hf|]. split; [lia|].
    destruct (isnil (records_of (q_buf q) (q_metas q))) eqn:En; cbn [andb]; [|reflexivity].
    apply isnil_true, records_of_nil_iff in En.
    destruct (N.leb_spec (next_position q) (p + 1)) as [Hle|_]; [|reflexivity].
    unfold next_position in *. rewrite En in *. cbn [last_opt] in *. lia. }
  destruct (N.leb_spec (next_position q) (p + 1)) as [Hle|Hgt].
  { (* everything goes *)
    assert (Hf : filter (fun r => p <? fst r) (records_of (q_buf q) (q_metas q)) = []).
    { apply filter_all_false. intros x Hx. pose proof (records_pos_lt_next _ _ Hi Hx). lia. }
    cbn [q_buf q_metas records_of]. rewrite Hf.
    split; [apply (mq_inv_with_next (p + 1))|]. split; [reflexivity|].
    split; [rewrite lenN_records_of, lenN_nil; lia|].
    cbn [isnil andb]. reflexivity. }
  (* a proper suffix is kept *)
  destruct Hi as (Hok & Hfo & Hnil).
  set (buf := q_buf q) in *. set (ms := q_metas q) in *.
  set (k := idx_ge (p + 1) ms). set (kept := dropN k ms).
  pose proof (metas_ok_drop_idx (p + 1) _ _ _ _ Hok) as Hk. fold k kept in Hk.
  assert (Hrk : records_of buf kept = filter (fun r => p <? fst r) (records_of buf ms)).
  { unfold kept. rewrite records_of_dropN. unfold k. rewrite (drop_idx_filter _ _ _ _ _ _ Hok).
    apply filter_ext. intros a. lia. }
  (* the last record is retained *)
  rewrite next_position_recs in Hgt. fold buf ms in Hgt. unfold next_of in Hgt.
  destruct (last_opt (records_of buf ms)) as [x|] eqn:El; [|lia].
  assert (Hlk : last_opt (records_of buf kept) = Some x).
  { rewrite Hrk. apply last_opt_filter; [exact El|lia]. }
  destruct kept as [|m r'] eqn:Ekept; [discriminate|].
  cbn [first_off]. cbn [q_buf q_metas].
  assert (Hk' : metas_ok (N.max (q_start q) (p + 1)) (m_off m) (lenN buf) (m :: r')).
  { cbn [metas_ok] in *. destruct Hk as (H1 & H2 & H3). repeat split; try assumption; lia. }
  assert (Hrec : records_of (dropN (m_off m) buf) (map (rebase (m_off m)) (m :: r')) =
                 records_of buf (m :: r')).
  { eapply records_of_rebase; [exact Hk'|lia]. }
  rewrite Hrec, Hrk.
  split; [|split; [reflexivity|split]].
  - unfold mq_inv. cbn [q_buf q_start q_metas]. split; [|split].
    + rewrite lenN_dropN.
      pose proof (metas_ok_rebase (m_off m) _ _ _ _ Hk' ltac:(lia)) as Hr.
      replace (m_off m - m_off m) with 0 in Hr by lia.
      eapply metas_ok_weaken; [exact Hr|lia|lia].
    + cbn [map first_off rebase m_off]. lia.
    + discriminate.
  - rewrite <- Hrk, <- Ekept. unfold kept. rewrite records_of_dropN, lenN_dropN, lenN_records_of.
    pose proof (idx_ge_le (p + 1) ms). fold k in H. lia.
  - rewrite <- Hrk. rewrite next_position_recs. cbn [q_buf q_start q_metas].
    rewrite Hrec. unfold next_of. rewrite Hlk.
    destruct (records_of buf (m :: r')) eqn:Er; [discriminate|]. cbn [isnil andb].
    rewrite next_position_recs. fold buf ms. unfold next_of. rewrite El. reflexivity.
Qed.

(* ====================================================================== *)
(* 5. reads: range, last record, last position                            *)
(* ====================================================================== *)

Fixpoint recs_sorted (lp : N) (l : list (N * bytes)) : Prop :=
  match l with
  | [] => True
  | r :: t => lp <= fst r /\ recs_sorted (fst r + 1) t
  end.

Lemma recs_sorted_records buf lp lo len ms :
  metas_ok lp lo len ms -> recs_sorted lp (records_of buf ms).
Proof.
  revert lp lo; induction ms as [|m r IH]; intros lp lo H; [exact I|].
  rewrite records_of_cons. cbn [metas_ok recs_sorted fst] in *.
  destruct H as (H1 & _ & H3). split; [exact H1|]. eapply IH; exact H3.
Qed.

Lemma recs_sorted_weaken lp lp' l : recs_sorted lp l -> lp' <= lp -> recs_sorted lp' l.
Proof. destruct l as [|r t]; cbn [recs_sorted]; [trivial|]. intros (H1 & H2) H. split; [lia|exact H2]. Qed.

Lemma recs_sorted_ge lp l x : recs_sorted lp l -> In x l -> lp <= fst x.
Proof.
  revert lp; induction l as [|r t IH]; intros lp H Hin; [destruct Hin|].
  cbn [recs_sorted] in H. destruct H as (H1 & H2). destruct Hin as [<-|Hin]; [exact H1|].
  specialize (IH _ H2 Hin). lia.
Qed.

Lemma recs_sorted_filter f lp l : recs_sorted lp l -> recs_sorted lp (filter f l).
Proof.
  revert lp; induction l as [|r t IH]; intros lp H; [exact I|].
  cbn [recs_sorted filter] in *. destruct H as (H1 & H2). specialize (IH _ H2).
  destruct (f r).
  - cbn [recs_sorted]. split; assumption.
  - eapply recs_sorted_weaken; [exact IH|lia].
Qed.

(* on a sorted list, take_while of a downward-closed predicate is filter *)
Lemma take_while_filter_sorted (g : N -> bool) lp l :
  recs_sorted lp l ->
  (forall a b, a <= b -> g b = true -> g a = true) ->
  take_while (fun r => g (fst r)) l = filter (fun r => g (fst r)) l.
Proof.
  intros Hs Hg. revert lp Hs; induction l as [|r t IH]; intros lp Hs; [reflexivity|].
  cbn [take_while filter recs_sorted] in *. destruct Hs as (H1 & H2).
  destruct (g (fst r)) eqn:E.
  - f_equal. eapply IH; exact H2.
  - symmetry. apply filter_all_false. intros x Hx.
    pose proof (recs_sorted_ge _ _ _ H2 Hx) as Hge.
    destruct (g (fst x)) eqn:Ex; [|reflexivity].
    rewrite (Hg (fst r) (fst x) ltac:(lia) Ex) in E. discriminate.
Qed.

Definition lob (lo : bound) (p : N) : bool :=
  match lo with Incl a => a <=? p | Excl a => a <? p | Unb => true end.
Definition hib (hi : bound) (p : N) : bool :=
  match hi with Incl b => p <=? b | Excl b => p <? b | Unb => true end.

Lemma in_bounds_split lo hi p : in_bounds lo hi p = lob lo p && hib hi p.
Proof. reflexivity. Qed.

Lemma hib_down hi a b : a <= b -> hib hi b = true -> hib hi a = true.
Proof. destruct hi as [n|n|]; cbn [hib]; intros; lia. Qed.

Lemma has_pos_false a lp lo len ms : metas_ok lp lo len ms -> a < lp -> has_pos a ms = false.
Proof.
  revert lp lo; induction ms as [|m r IH]; intros lp lo H Ha; [reflexivity|].
  unfold has_pos in *. cbn [existsb metas_ok] in *. destruct H as (H1 & _ & H3).
  rewrite (IH _ _ H3) by lia. destruct (N.eqb_spec (m_pos m) a); [lia|reflexivity].
Qed.

Lemma has_pos_cons a m r : has_pos a (m :: r) = (m_pos m =? a) || has_pos a r.
Proof. reflexivity. Qed.

Lemma drop_start_filter buf lo lp loff len ms :
  metas_ok lp loff len ms ->
  dropN (range_start_idx lo ms) (records_of buf ms) =
  filter (fun r => lob lo (fst r)) (records_of buf ms).
Proof.
  intros H. destruct lo as [a|a|]; cbn [range_start_idx lob].
  - eapply drop_idx_filter; exact H.
  - revert lp loff H; induction ms as [|m r IH]; intros lp loff H.
    { cbn [has_pos existsb idx_ge records_of]. reflexivity. }
    cbn [metas_ok] in H. destruct H as (H1 & H2 & H3).
    rewrite has_pos_cons. cbn [idx_ge]. rewrite records_of_cons. cbn [filter fst].
    destruct (N.ltb_spec (m_pos m) a) as [Hlt|Hge].
    + destruct (N.eqb_spec (m_pos m) a) as [He|_]; [lia|]. cbn [orb].
      destruct (N.ltb_spec a (m_pos m)) as [Hc|_]; [lia|].
      specialize (IH _ _ H3). destruct (has_pos a r).
      * replace (1 + idx_ge a r + 1) with (1 + (idx_ge a r + 1)) by lia.
        rewrite dropN_cons_succ. exact IH.
      * rewrite dropN_cons_succ. exact IH.
    + assert (Hall : filter (fun r0 => a <? fst r0) (records_of buf r) = records_of buf r).
      { apply filter_all_true. intros x Hx. pose proof (records_pos_ge _ _ _ _ _ _ H3 Hx). lia. }
      rewrite Hall.
      destruct (N.eqb_spec (m_pos m) a) as [He|Hne]; cbn [orb].
      * destruct (N.ltb_spec a (m_pos m)) as [Hc|_]; [lia|].
        replace (0 + 1) with (1 + 0) by lia. rewrite dropN_cons_succ, dropN_0. reflexivity.
      * rewrite (has_pos_false a _ _ _ _ H3) by lia.
        destruct (N.ltb_spec a (m_pos m)) as [_|Hc]; [|lia]. rewrite dropN_0. reflexivity.
  - rewrite dropN_0. symmetry. apply filter_all_true. reflexivity.
Qed.

Theorem range_refines q lo hi :
  mq_inv q ->
  mq_range q lo hi =
  filter (fun r => in_bounds lo hi (fst r)) (records_of (q_buf q) (q_metas q)).
Proof.
  intros (Hok & _ & _). unfold mq_range.
  rewrite (drop_start_filter _ lo _ _ _ _ Hok).
  rewrite (filter_ext _ (fun r => lob lo (fst r) && hib hi (fst r))
                      (fun r => in_bounds_split lo hi (fst r))).
  rewrite filter_andb.
  rewrite <- (take_while_filter_sorted (hib hi) (q_start q)).
  - rewrite <- (take_while_andb_filter (fun r => lob lo (fst r)) (fun r => hib hi (fst r))).
    reflexivity.
  - apply recs_sorted_filter. eapply recs_sorted_records; exact Hok.
  - apply hib_down.
Qed.

Theorem last_record_refines q :
  mq_inv q -> mq_last_record q = last_opt (records_of (q_buf q) (q_metas q)).
Proof. intros _. unfold mq_last_record. now rewrite last_opt_records_of. Qed.

Theorem last_position_refines q :
  last_position q = (if next_position q =? 0 then None else Some (next_position q - 1)).
Proof. reflexivity. Qed.

(* ====================================================================== *)
(* 6. the payload buffer is the concatenation of the retained payloads     *)
(* ====================================================================== *)

Lemma concat_records buf lp lo ms :
  metas_ok lp lo (lenN buf) ms ->
  concat (map snd (records_of buf ms)) =
  match ms with [] => [] | m :: _ => dropN (m_off m) buf end.
Proof.
  revert lp lo; induction ms as [|m r IH]; intros lp lo H; [reflexivity|].
  rewrite records_of_cons. cbn [map concat snd]. cbn [metas_ok] in H.
  destruct H as (H1 & H2 & H3). rewrite (IH _ _ H3).
  destruct r as [|m' r']; cbn [stop_of].
  - rewrite app_nil_r. apply sliceN_to_end.
  - apply sliceN_then_dropN. cbn [metas_ok] in H3. lia.
Qed.

Theorem buf_is_concat q :
  mq_inv q -> q_buf q = concat (map snd (records_of (q_buf q) (q_metas q))).
Proof.
  intros (Hok & Hfo & Hnil). rewrite (concat_records _ _ _ _ Hok).
  destruct (q_metas q) as [|m r]; [now apply Hnil|].
  cbn [first_off] in Hfo. rewrite Hfo, dropN_0. reflexivity.
Qed.

Theorem ring_get_range_ok (left right : bytes) s e :
  s <= e -> e <= lenN left + lenN right ->
  ring_get_range left right s e = sliceN s e (left ++ right).
Proof.
  intros Hse He. unfold ring_get_range.
  destruct (N.ltb_spec e (lenN left)) as [H1|H1].
  - symmetry. apply sliceN_app_l; lia.
  - destruct (N.leb_spec (lenN left) s) as [H2|H2].
    + unfold sliceN. rewrite dropN_app_ge by lia. f_equal. lia.
    + unfold sliceN. rewrite dropN_app_le by lia.
      rewrite takeN_app_ge by (rewrite lenN_dropN; lia).
      rewrite lenN_dropN. f_equal. f_equal. lia.
Qed.

(* ====================================================================== *)
(* 7. the abstraction                                                     *)
(* ====================================================================== *)

Definition abs_q (q : mq) : squeue := (records_of (q_buf q) (q_metas q), next_position q).
Definition abs_qs (qs : queues) : smap := map (fun '(n, q) => (n, abs_q q)) qs.

Definition sop_of (o : op) : sop :=
  match o with
  | OCreate q => SCreate q
  | ODelete q _ => SDelete q
  | OAppend q pos pl => SAppend q pos pl
  | OTruncate q p _ => STruncate q p
  | OPersist _ => SPersist
  end.

Definition out_logical (o : outcome) : option sout :=
  match o with
  | OutCreate _ | OutDelete _ | OutPersist => Some SOk
  | OutAppend l _ => Some (SAppended l)
  | OutTruncate e _ => Some (STruncated e)
  | OutAlreadyExists => Some SAlreadyExists
  | OutMissing => Some SMissing
  | OutPast => Some SPast
  | OutIo _ => None
  end.

Lemma abs_get qs n :
  s_get (abs_qs qs) n = match qs_get qs n with Some q => Some (abs_q q) | None => None end.
Proof.
  induction qs as [|[n0 q0] r IH]; [reflexivity|].
  cbn [abs_qs map s_get qs_get]. fold (abs_qs r). destruct (bytes_eqb n0 n); [reflexivity|exact IH].
Qed.

Lemma abs_put qs n q : s_put (abs_qs qs) n (abs_q q) = abs_qs (qs_put qs n q).
Proof.
  induction qs as [|[n0 q0] r IH]; [reflexivity|].
  cbn [abs_qs map s_put qs_put]. fold (abs_qs r).
  destruct (bytes_eqb n0 n); cbn [map]; [reflexivity|]. fold (abs_qs (qs_put r n q)).
  now rewrite IH.
Qed.

Lemma abs_remove qs n : s_remove (abs_qs qs) n = abs_qs (qs_remove qs n).
Proof.
  induction qs as [|[n0 q0] r IH]; [reflexivity|].
  cbn [abs_qs map s_remove qs_remove]. fold (abs_qs r).
  destruct (bytes_eqb n0 n); cbn [map]; [exact IH|]. fold (abs_qs (qs_remove r n)).
  now rewrite IH.
Qed.

Lemma qs_get_In qs n q : qs_get qs n = Some q -> exists n', In (n', q) qs.
Proof.
  induction qs as [|[n0 q0] r IH]; intros H; [discriminate|].
  cbn [qs_get] in H. destruct (bytes_eqb n0 n).
  - inversion H; subst. exists n0. now left.
  - destruct (IH H) as (n' & Hin). exists n'. now right.
Qed.

Lemma qs_inv_get qs n q : qs_inv qs -> qs_get qs n = Some q -> mq_inv q.
Proof. intros Hi H. destruct (qs_get_In _ _ _ H) as (n' & Hin). eapply Hi; exact Hin. Qed.

Lemma qs_inv_put qs n q : qs_inv qs -> mq_inv q -> qs_inv (qs_put qs n q).
Proof.
  intros Hi Hq. induction qs as [|[n0 q0] r IH].
  - intros n' q' [E|[]]. inversion E; subst. exact Hq.
  - cbn [qs_put]. destruct (bytes_eqb n0 n).
    + intros n' q' [E|Hin]; [inversion E; subst; exact Hq|]. eapply Hi. right. exact Hin.
    + intros n' q' [E|Hin]; [eapply Hi; left; exact E|].
      eapply IH; [|exact Hin]. intros n1 q1 H1. eapply Hi. right. exact H1.
Qed.

Lemma qs_inv_remove qs n : qs_inv qs -> qs_inv (qs_remove qs n).
Proof.
  intros Hi. induction qs as [|[n0 q0] r IH].
  - intros n' q' [].
  - assert (Hr : qs_inv r) by (intros n1 q1 H1; eapply Hi; right; exact H1).
    cbn [qs_remove]. destruct (bytes_eqb n0 n); [exact (IH Hr)|].
    intros n' q' [E|Hin]; [eapply Hi; left; exact E|]. eapply IH; eauto.
Qed.

Lemma qs_inv_nil : qs_inv [].
Proof. intros n q []. Qed.

Lemma qs_inv_ack qs n next : qs_inv qs -> qs_inv (ack_position qs n next).
Proof.
  intros Hi. unfold ack_position. destruct (qs_get qs n) as [q|].
  - destruct (negb (mq_is_empty q) || negb (next_position q =? next)); [|exact Hi].
    apply qs_inv_put; [exact Hi|apply mq_inv_with_next].
  - apply qs_inv_put; [exact Hi|apply mq_inv_with_next].
Qed.

(* ====================================================================== *)
(* 8. the I/O layer never touches the queues                              *)
(* ====================================================================== *)

Section WithParams.
Variable P : params.

Lemma write_entry_qs st e : s_qs (fst (write_entry P st e)) = s_qs st.
Proof.
  unfold write_entry.
  destruct (write_record P rwriter (wr_write P) (wr_rem P) (s_wr st) (entry_ser e)) as [w r].
  reflexivity.
Qed.

Lemma persist_qs st f : s_qs (persist st f) = s_qs st.
Proof. reflexivity. Qed.

Lemma persist_on_policy_qs st tick : s_qs (persist_on_policy st tick) = s_qs st.
Proof. unfold persist_on_policy. destruct (s_pol st) as [|a|a]; [reflexivity| |reflexivity]. destruct tick; reflexivity. Qed.

Lemma record_positions_qs names : forall st acc,
  s_qs (fst (record_positions P st names acc)) = s_qs st.
Proof.
  induction names as [|n r IH]; intros st acc; cbn [record_positions]; [reflexivity|].
  destruct (qs_get (s_qs st) n) as [q|]; [|apply IH].
  pose proof (write_entry_qs st (EPosition n (next_position q))) as Hw.
  destruct (write_entry P st (EPosition n (next_position q))) as [st1 [k|e]]; cbn [fst] in *.
  - rewrite IH. exact Hw.
  - exact Hw.
Qed.

Lemma record_empty_queues_position_qs st hint :
  s_qs (fst (record_empty_queues_position P st hint)) = s_qs st.
Proof.
  unfold record_empty_queues_position.
  pose proof (record_positions_qs (pick_order hint (empty_names (s_qs st))) st 0) as H.
  destruct (record_positions P st (pick_order hint (empty_names (s_qs st))) 0) as [st1 [n|e]];
    cbn [fst] in *; [|exact H].
  destruct (L_GC P && (n =? 0)); cbn [fst]; exact H.
Qed.

Lemma run_gc_qs st hint : s_qs (fst (run_gc_if_necessary P st hint)) = s_qs st.
Proof.
  unfold run_gc_if_necessary. destruct (has_deletable st); [|reflexivity].
  pose proof (record_empty_queues_position_qs st hint) as H.
  destruct (record_empty_queues_position P st hint) as [st1 [n|e]]; cbn [fst] in *; [|exact H].
  destruct (gc_loop (w_ctx (s_wr st1)) (w_files (s_wr st1)) (referenced st1 (w_file (s_wr st))))
    as [[c files] [u|e]]; cbn [fst set_wr s_qs]; exact H.
Qed.

(* ====================================================================== *)
(* 9. the API refines s_step                                              *)
(* ====================================================================== *)

Lemma last_pos_of_number : forall payloads p,
  payloads <> [] -> last_pos_of p (number_from p payloads) = p + lenN payloads - 1.
Proof.
  unfold last_pos_of.
  assert (H : forall payloads p, payloads <> [] ->
            exists x, last_opt (number_from p payloads) = Some (p + lenN payloads - 1, x)).
  { induction payloads as [|x r IH]; intros p Hne; [congruence|].
    cbn [number_from]. rewrite last_opt_cons. destruct r as [|y r'].
    - cbn [number_from last_opt]. exists x. rewrite lenN_cons, lenN_nil. f_equal. f_equal. lia.
    - destruct (IH (p + 1) ltac:(discriminate)) as (z & ->). exists z.
      rewrite (lenN_cons x). f_equal. f_equal. lia. }
  intros payloads p Hne. destruct (H payloads p Hne) as (x & ->). reflexivity.
Qed.

Lemma number_from_nil_iff p l : number_from p l = [] <-> l = [].
Proof. destruct l; cbn [number_from]; split; intros H; try reflexivity; discriminate. Qed.

Lemma create_refines st q :
  qs_inv (s_qs st) ->
  let '(st', out) := create_queue P st q in
  qs_inv (s_qs st') /\
  (forall so, out_logical out = Some so ->
     s_step (abs_qs (s_qs st)) (SCreate q) = (abs_qs (s_qs st'), so)).
Proof.
  intros Hi. unfold create_queue, qs_contains. cbn [s_step]. rewrite abs_get.
  destruct (qs_get (s_qs st) q) as [m|] eqn:E.
  - split; [exact Hi|]. intros so H. inversion H. reflexivity.
  - pose proof (write_entry_qs st (EPosition q 0)) as Hw.
    destruct (write_entry P st (EPosition q 0)) as [st1 [n|e]]; cbn [fst] in Hw.
    + cbn [set_qs s_qs persist set_wr]. rewrite Hw. split.
      * apply qs_inv_put; [exact Hi|apply mq_inv_default].
      * intros so H. inversion H. rewrite <- abs_put. reflexivity.
    + rewrite Hw. split; [exact Hi|]. intros so H. discriminate.
Qed.

Lemma delete_refines st q hint :
  qs_inv (s_qs st) ->
  let '(st', out) := delete_queue P st q hint in
  qs_inv (s_qs st') /\
  (forall so, out_logical out = Some so ->
     s_step (abs_qs (s_qs st)) (SDelete q) = (abs_qs (s_qs st'), so)).
Proof.
  intros Hi. unfold delete_queue. cbn [s_step]. rewrite abs_get.
  destruct (qs_get (s_qs st) q) as [m|] eqn:E.
  - pose proof (write_entry_qs st (EDelete q (next_position m))) as Hw.
    destruct (write_entry P st (EDelete q (next_position m))) as [st1 [n|e]]; cbn [fst] in Hw.
    + pose proof (run_gc_qs (set_qs st1 (qs_remove (s_qs st1) q)) hint) as Hg.
      destruct (run_gc_if_necessary P (set_qs st1 (qs_remove (s_qs st1) q)) hint)
        as [st3 [k|e]]; cbn [fst set_qs s_qs] in Hg.
      * rewrite persist_qs, Hg, Hw. split; [now apply qs_inv_remove|].
        intros so H. inversion H. rewrite abs_remove. reflexivity.
      * rewrite Hg, Hw. split; [now apply qs_inv_remove|]. intros so H. discriminate.
    + rewrite Hw. split; [exact Hi|]. intros so H. discriminate.
  - split; [exact Hi|]. intros so H. inversion H. reflexivity.
Qed.

Lemma truncate_refines st q p hint tick :
  qs_inv (s_qs st) ->
  let '(st', out) := truncate P st q p hint tick in
  qs_inv (s_qs st') /\
  (forall so, out_logical out = Some so ->
     s_step (abs_qs (s_qs st)) (STruncate q p) = (abs_qs (s_qs st'), so)).
Proof.
  intros Hi. unfold truncate. cbn [s_step]. rewrite abs_get.
  destruct (qs_get (s_qs st) q) as [m|] eqn:E.
  - pose proof (write_entry_qs st (ETruncate q p)) as Hw.
    destruct (write_entry P st (ETruncate q p)) as [st1 [n|e]]; cbn [fst] in Hw.
    + pose proof (truncate_head_refines m p (qs_inv_get _ _ _ Hi E)) as Ht.
      destruct (truncate_head m p) as [m' ev]. destruct Ht as (Hi' & Hr & Hev & Hn).
      pose proof (run_gc_qs (set_qs st1 (qs_put (s_qs st1) q m')) hint) as Hg.
      destruct (run_gc_if_necessary P (set_qs st1 (qs_put (s_qs st1) q m')) hint)
        as [st3 [k|e]]; cbn [fst set_qs s_qs] in Hg.
      * rewrite persist_on_policy_qs, Hg, Hw. split; [now apply qs_inv_put|].
        intros so H. inversion H. unfold abs_q at 1. cbn iota.
        rewrite <- abs_put. unfold abs_q. rewrite Hn, Hev, Hr. reflexivity.
      * rewrite Hg, Hw. split; [now apply qs_inv_put|]. intros so H. discriminate.
    + rewrite Hw. split; [exact Hi|]. intros so H. discriminate.
  - split; [exact Hi|]. intros so H. inversion H. reflexivity.
Qed.

Lemma append_refines st q pos payloads tick :
  qs_inv (s_qs st) ->
  let '(st', out) := append_records P st q pos payloads tick in
  qs_inv (s_qs st') /\
  (forall so, out_logical out = Some so ->
     s_step (abs_qs (s_qs st)) (SAppend q pos payloads) = (abs_qs (s_qs st'), so)).
Proof.
  intros Hi. unfold append_records. cbn [s_step]. rewrite abs_get.
  destruct (qs_get (s_qs st) q) as [m|] eqn:E.
  2:{ split; [exact Hi|]. intros so H. inversion H. reflexivity. }
  pose proof (qs_inv_get _ _ _ Hi E) as Hm.
  unfold abs_q at 1. cbn iota.
  (* the common tail: position is admissible, payloads non-empty *)
  assert (Hmain : forall position x r,
    next_position m <= position ->
    let recs := number_from position (x :: r) in
    let '(st', out) :=
      match write_entry P st (EAppend q position recs) with
      | (st1, Err e) => (st1, OutIo e)
      | (st1, Ok n) =>
          match append_all m (w_file (s_wr st)) recs with
          | Some mq' =>
              (set_qs (persist_on_policy st1 tick) (qs_put (s_qs (persist_on_policy st1 tick)) q mq'),
               OutAppend (Some (last_pos_of position recs)) n)
          | None => (persist_on_policy st1 tick, OutPast)
          end
      end in
    qs_inv (s_qs st') /\
    (forall so, out_logical out = Some so ->
       (s_put (abs_qs (s_qs st)) q
          (records_of (q_buf m) (q_metas m) ++ s_number position (x :: r),
           position + lenN (x :: r)),
        SAppended (Some (position + lenN (x :: r) - 1))) = (abs_qs (s_qs st'), so))).
  { intros position x r Hpos recs. subst recs.
    pose proof (write_entry_qs st (EAppend q position (number_from position (x :: r)))) as Hw.
    destruct (write_entry P st (EAppend q position (number_from position (x :: r))))
      as [st1 [n|e]]; cbn [fst] in Hw.
    2:{ rewrite Hw. split; [exact Hi|]. intros so H. discriminate. }
    destruct (append_all_refines (x :: r) m (w_file (s_wr st)) position Hm Hpos ltac:(discriminate))
      as (m' & -> & Hi' & Hr' & Hn').
    cbn [set_qs s_qs]. rewrite persist_on_policy_qs, Hw. split; [now apply qs_inv_put|].
    intros so H. inversion H. rewrite <- abs_put. unfold abs_q. rewrite Hr', Hn'.
    change ((position, x) :: number_from (position + 1) r) with (number_from position (x :: r)).
    rewrite last_pos_of_number by discriminate. reflexivity. }
  destruct pos as [p|].
  - destruct (N.eqb_spec (p + 1) (next_position m)) as [He|Hne].
    { split; [exact Hi|]. intros so H. inversion H. reflexivity. }
    destruct (N.ltb_spec p (next_position m)) as [Hlt|Hge].
    { split; [exact Hi|]. intros so H. inversion H. reflexivity. }
    destruct payloads as [|x r].
    { cbn [number_from]. split; [exact Hi|]. intros so H. inversion H. reflexivity. }
    specialize (Hmain p x r Hge). cbn zeta in Hmain. cbn [number_from] in *.
    destruct (write_entry P st _) as [st1 [n|e]]; exact Hmain.
  - destruct payloads as [|x r].
    { cbn [number_from]. split; [exact Hi|]. intros so H. inversion H. reflexivity. }
    specialize (Hmain (next_position m) x r (N.le_refl _)). cbn zeta in Hmain.
    cbn [number_from] in *.
    destruct (write_entry P st _) as [st1 [n|e]]; exact Hmain.
Qed.

Theorem step_refines : forall st o tick,
  qs_inv (s_qs st) ->
  let '(st', out) := step P st o tick in
  qs_inv (s_qs st') /\
  (forall so, out_logical out = Some so ->
              s_step (abs_qs (s_qs st)) (sop_of o) = (abs_qs (s_qs st'), so)).
Proof.
  intros st o tick Hi. destruct o as [q|q hint|q pos payloads|q p hint|fs]; cbn [step sop_of].
  - apply create_refines; exact Hi.
  - apply delete_refines; exact Hi.
  - apply append_refines; exact Hi.
  - apply truncate_refines; exact Hi.
  - rewrite persist_qs. split; [exact Hi|]. intros so H. inversion H. reflexivity.
Qed.

(* OutPast is only ever produced by the early guard: append_all cannot fail after it *)
Theorem append_past_only_guard st q pos payloads tick :
  snd (append_records P st q pos payloads tick) = OutPast ->
  exists m p, qs_get (s_qs st) q = Some m /\ pos = Some p /\ p + 1 < next_position m.
Proof.
  unfold append_records. destruct (qs_get (s_qs st) q) as [m|] eqn:E; [|discriminate].
  destruct pos as [p|].
  - destruct (N.eqb_spec (p + 1) (next_position m)) as [He|Hne]; [discriminate|].
    destruct (N.ltb_spec p (next_position m)) as [Hlt|Hge].
    { intros _. exists m, p. repeat split; lia. }
    destruct payloads as [|x r]; [discriminate|].
    destruct (append_all_some (x :: r) m (w_file (s_wr st)) p Hge) as (m' & Em).
    cbn [number_from] in *. rewrite Em.
    destruct (write_entry P st _) as [st1 [n|e]]; discriminate.
  - destruct payloads as [|x r]; [discriminate|].
    destruct (append_all_some (x :: r) m (w_file (s_wr st)) (next_position m) (N.le_refl _)) as (m' & Em).
    cbn [number_from] in *. rewrite Em.
    destruct (write_entry P st _) as [st1 [n|e]]; discriminate.
Qed.

(* ---------- histories ---------- *)
Fixpoint s_run (m : smap) (ops : list sop) : smap * list sout :=
  match ops with
  | [] => (m, [])
  | o :: r =>
      let '(m1, out) := s_step m o in
      let '(m2, outs) := s_run m1 r in (m2, out :: outs)
  end.

Theorem run_refines : forall h st,
  qs_inv (s_qs st) ->
  let '(st', outs) := run P st h in
  qs_inv (s_qs st') /\
  (forall souts, map out_logical outs = map Some souts ->
     s_run (abs_qs (s_qs st)) (map (fun ot => sop_of (fst ot)) h) = (abs_qs (s_qs st'), souts)).
Proof.
  induction h as [|[o tick] h IH]; intros st Hi; cbn [run].
  - split; [exact Hi|]. intros souts H. destruct souts; [reflexivity|discriminate].
  - pose proof (step_refines st o tick Hi) as Hs.
    destruct (step P st o tick) as [st1 out]. destruct Hs as (Hi1 & Hs).
    specialize (IH st1 Hi1). destruct (run P st1 h) as [st2 outs]. destruct IH as (Hi2 & IH).
    split; [exact Hi2|]. intros souts H. destruct souts as [|so souts]; [discriminate|].
    cbn [map] in H. inversion H as [[H1 H2]].
    cbn [map s_run fst]. rewrite (Hs so H1). rewrite (IH souts H2). reflexivity.
Qed.

(* from the empty log every history refines the specification *)
Corollary run_refines_from_empty : forall h w pol,
  let '(st', outs) := run P (mkSt w [] pol) h in
  qs_inv (s_qs st') /\
  (forall souts, map out_logical outs = map Some souts ->
     s_run [] (map (fun ot => sop_of (fst ot)) h) = (abs_qs (s_qs st'), souts)).
Proof. intros h w pol. apply (run_refines h (mkSt w [] pol)). apply qs_inv_nil. Qed.
End WithParams.

(* ---------- the read API ---------- *)
Theorem log_range_refines st q lo hi :
  qs_inv (s_qs st) -> log_range st q lo hi = s_range (abs_qs (s_qs st)) q lo hi.
Proof.
  intros Hi. unfold log_range, s_range. rewrite abs_get.
  destruct (qs_get (s_qs st) q) as [m|] eqn:E; [|reflexivity].
  unfold abs_q. now rewrite (range_refines m lo hi (qs_inv_get _ _ _ Hi E)).
Qed.

Theorem log_last_position_refines st q :
  log_last_position st q = s_last_position (abs_qs (s_qs st)) q.
Proof.
  unfold log_last_position, s_last_position. rewrite abs_get.
  destruct (qs_get (s_qs st) q) as [m|]; reflexivity.
Qed.

Theorem log_last_record_refines st q :
  qs_inv (s_qs st) -> log_last_record st q = s_last_record (abs_qs (s_qs st)) q.
Proof.
  intros Hi. unfold log_last_record, s_last_record. rewrite abs_get.
  destruct (qs_get (s_qs st) q) as [m|] eqn:E; [|reflexivity].
  unfold abs_q. now rewrite (last_record_refines m (qs_inv_get _ _ _ Hi E)).
Qed.

(* ====================================================================== *)
(* 10. replay preserves the invariant                                     *)
(* ====================================================================== *)

Theorem apply_entry_inv qs file e qs' :
  qs_inv qs -> apply_entry qs file e = Some qs' -> qs_inv qs'.
Proof.
  intros Hi H. destruct e as [q pos recs|q p|q p|q p]; cbn [apply_entry] in H.
  - set (qs1 := if qs_contains qs q then qs else ack_position qs q pos) in *.
    assert (Hi1 : qs_inv qs1).
    { unfold qs1. destruct (qs_contains qs q); [exact Hi|now apply qs_inv_ack]. }
    destruct (qs_get qs1 q) as [m|] eqn:E; [|discriminate].
    destruct (append_all m file recs) as [m'|] eqn:Ea; [|discriminate].
    inversion H; subst. apply qs_inv_put; [exact Hi1|].
    eapply append_all_inv; [|exact Ea]. eapply qs_inv_get; eauto.
  - destruct (qs_get qs q) as [m|] eqn:E.
    + inversion H; subst. apply qs_inv_put; [exact Hi|].
      pose proof (truncate_head_refines m p (qs_inv_get _ _ _ Hi E)) as Ht.
      destruct (truncate_head m p) as [m' k]. cbn [fst]. apply Ht.
    + inversion H; subst. exact Hi.
  - inversion H; subst. now apply qs_inv_ack.
  - inversion H; subst. now apply qs_inv_remove.
Qed.

Lemma replay_loop_inv P : forall fuel gofuel rr qs rr' qs',
  qs_inv qs -> replay_loop P fuel gofuel rr qs = (rr', RpDone qs') -> qs_inv qs'.
Proof.
  induction fuel as [|fuel IH]; intros gofuel rr qs rr' qs' Hi H; cbn [replay_loop] in H.
  - discriminate.
  - destruct (go_next P rreaderS (rd_next P) rd_block gofuel rr) as [rr1 [| | |e|]].
    + destruct (entry_deser (rr_buf rr1)) as [e|]; [|eapply IH; eauto].
      destruct (apply_entry qs (rd_file (fr_rd (rr_fr rr))) e) as [qs1|] eqn:Ea; [|discriminate].
      eapply IH; [|exact H]. eapply apply_entry_inv; eauto.
    + inversion H; subst. exact Hi.
    + eapply IH; eauto.
    + destruct (L_IO P); [eapply IH; eauto|discriminate].
    + discriminate.
Qed.

Theorem open_with_inv P fuel fs plan pol hint st :
  open_with P fuel fs plan pol hint = OpenOk st -> qs_inv (s_qs st).
Proof.
  unfold open_with. destruct (rd_open P (ctx_init fs plan)) as [c [rd|e]]; [|discriminate].
  destruct (replay_loop P fuel fuel (rr_open rreaderS rd) []) as [rr res] eqn:Er.
  destruct res as [qs| |e|]; try discriminate.
  pose proof (replay_loop_inv P _ _ _ _ _ _ qs_inv_nil Er) as Hi.
  set (st0 := mkSt _ qs pol).
  pose proof (run_gc_qs P st0 hint) as Hg.
  destruct (run_gc_if_necessary P st0 hint) as [st1 [k|e]]; [|discriminate].
  intros H. inversion H; subst. cbn [fst] in Hg. rewrite Hg. exact Hi.
Qed.

Corollary open_inv P fs plan pol hint st :
  open P fs plan pol hint = OpenOk st -> qs_inv (s_qs st).
Proof. apply open_with_inv. Qed.

(* ====================================================================== *)
(* 11. memory accounting                                                  *)
(* ====================================================================== *)

Definition payload_bytes (recs : list (N * bytes)) : N :=
  fold_right (fun r acc => lenN (snd r) + acc) 0 recs.

Lemma lenN_concat_payloads recs : lenN (concat (map snd recs)) = payload_bytes recs.
Proof.
  induction recs as [|r t IH]; [reflexivity|].
  cbn [map concat payload_bytes fold_right]. rewrite lenN_app, IH. reflexivity.
Qed.

Theorem mq_size_formula K q :
  mq_inv q ->
  mq_size K q = payload_bytes (records_of (q_buf q) (q_metas q))
              + K * lenN (records_of (q_buf q) (q_metas q)).
Proof.
  intros Hi. unfold mq_size.
  pose proof (f_equal lenN (buf_is_concat q Hi)) as Hb.
  rewrite lenN_concat_payloads in Hb. rewrite lenN_records_of. lia.
Qed.

Theorem qs_size_formula : forall K qs, qs_inv qs ->
  qs_size K qs =
  fold_right (fun '(n, (recs, _)) acc => lenN n + payload_bytes recs + K * lenN recs + acc)
             0 (abs_qs qs).
Proof.
  intros K qs. induction qs as [|[n q] r IH]; intros Hi; [reflexivity|].
  unfold qs_size in *. cbn [abs_qs map fold_right]. fold (abs_qs r).
  assert (Hr : qs_inv r) by (intros n1 q1 H1; eapply Hi; right; exact H1).
  rewrite (IH Hr). unfold abs_q at 1.
  rewrite (mq_size_formula K q (Hi n q (or_introl eq_refl))). lia.
Qed.

Corollary log_memory_used_formula P st :
  qs_inv (s_qs st) ->
  log_memory_used P st =
  fold_right (fun '(n, (recs, _)) acc => lenN n + payload_bytes recs + RMS P * lenN recs + acc)
             0 (abs_qs (s_qs st)).
Proof. intros Hi. unfold log_memory_used. now apply qs_size_formula. Qed.

Print Assumptions step_refines.
Print Assumptions run_refines.
Print Assumptions append_record_refines.
Print Assumptions append_all_refines.
Print Assumptions range_refines.
Print Assumptions truncate_head_refines.
Print Assumptions last_record_refines.
Print Assumptions buf_is_concat.
Print Assumptions ring_get_range_ok.
Print Assumptions apply_entry_inv.
Print Assumptions qs_size_formula.
Print Assumptions open_inv.
Print Assumptions log_range_refines.
Print Assumptions append_past_only_guard.
