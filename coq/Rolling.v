(* Rolling.v — src/rolling/{directory,file_number}.rs over a small file-system model.
   The directory is an association list name -> entry; every call that reaches the OS is
   appended to an event trace (most recent first) kept in the I/O context, together with the
   fault plan of the verification hooks. BufWriter (std) is modelled operationally. *)
From MRL Require Import Bytes Params Names.

Inductive fentry := FFile (content : bytes) | FDir | FOther.
Definition fsT := list (bytes * fentry).

Fixpoint fs_get (fs : fsT) (name : bytes) : option fentry :=
  match fs with
  | [] => None
  | (n, e) :: r => if bytes_eqb n name then Some e else fs_get r name
  end.

Fixpoint fs_put (fs : fsT) (name : bytes) (e : fentry) : fsT :=
  match fs with
  | [] => [(name, e)]
  | (n, e0) :: r => if bytes_eqb n name then (n, e) :: r else (n, e0) :: fs_put r name e
  end.

Fixpoint fs_remove (fs : fsT) (name : bytes) : fsT :=
  match fs with
  | [] => []
  | (n, e) :: r => if bytes_eqb n name then fs_remove r name else (n, e) :: fs_remove r name
  end.

Inductive event :=
| EvReadDir
| EvCreate (name : bytes)
| EvOpenRw (name : bytes)
| EvSetLen (name : bytes) (len : N)
| EvWrite (name : bytes) (off : N) (data : bytes)
| EvRead (name : bytes) (off len : N) (ok : bool)
| EvFlush (name : bytes)
| EvSyncData (name : bytes)
| EvSyncDir
| EvUnlink (name : bytes).

Inductive fsite := SReadDir | SOpen | SRead.
Record fplan := mkPlan { fp_site : fsite; fp_nth : N; fp_persistent : bool; fp_kind : ioerr }.

Record ioctx := mkCtx {
  c_fs : fsT;
  c_ev : list event;              (* most recent first *)
  c_plan : option fplan;
  c_nreaddir : N; c_nopen : N; c_nread : N
}.

Definition ctx_init (fs : fsT) (plan : option fplan) : ioctx := mkCtx fs [] plan 0 0 0.

Definition ctx_ev (c : ioctx) (e : event) : ioctx :=
  mkCtx (c_fs c) (e :: c_ev c) (c_plan c) (c_nreaddir c) (c_nopen c) (c_nread c).
Definition ctx_fs (c : ioctx) (fs : fsT) : ioctx :=
  mkCtx fs (c_ev c) (c_plan c) (c_nreaddir c) (c_nopen c) (c_nread c).

Definition site_eqb (a b : fsite) : bool :=
  match a, b with SReadDir, SReadDir | SOpen, SOpen | SRead, SRead => true | _, _ => false end.

(* verif_hooks::fault_point: count the call, fail it if the plan says so *)
Definition fault_point (c : ioctx) (s : fsite) : ioctx * option ioerr :=
  let n := match s with SReadDir => c_nreaddir c | SOpen => c_nopen c | SRead => c_nread c end in
  let c' := match s with
            | SReadDir => mkCtx (c_fs c) (c_ev c) (c_plan c) (n + 1) (c_nopen c) (c_nread c)
            | SOpen => mkCtx (c_fs c) (c_ev c) (c_plan c) (c_nreaddir c) (n + 1) (c_nread c)
            | SRead => mkCtx (c_fs c) (c_ev c) (c_plan c) (c_nreaddir c) (c_nopen c) (n + 1)
            end in
  match c_plan c with
  | Some p =>
      if site_eqb (fp_site p) s && ((n =? fp_nth p) || (fp_persistent p && (fp_nth p <? n)))
      then (c', Some (fp_kind p)) else (c', None)
  | None => (c', None)
  end.

(* ---------- FileTracker: strictly increasing list of file numbers ---------- *)
Fixpoint insert_sorted (n : N) (l : list N) : list N :=
  match l with
  | [] => [n]
  | x :: r => if n <? x then n :: l else if n =? x then l else x :: insert_sorted n r
  end.

Fixpoint tracker_next (files : list N) (cur : N) : option N :=
  match files with
  | [] => None
  | x :: r => if cur <? x then Some x else tracker_next r cur
  end.

Section WithParams.
Variable P : params.

(* Directory::open's listing: regular files whose name parses *)
Definition list_wal_numbers (fs : fsT) : list N :=
  fold_right (fun '(name, e) acc =>
                match e with
                | FFile _ => match filename_to_position name with
                             | Some n => insert_sorted n acc
                             | None => acc
                             end
                | _ => acc
                end) [] fs.

(* create_file: create_new + set_len *)
Definition create_file (c : ioctx) (n : N) : ioctx * res unit :=
  let name := filename n in
  match fs_get (c_fs c) name with
  | Some _ => (c, Err IoAlreadyExists)
  | None =>
      let c1 := ctx_ev (ctx_fs c (fs_put (c_fs c) name (FFile []))) (EvCreate name) in
      let c2 := ctx_ev (ctx_fs c1 (fs_put (c_fs c1) name (FFile (zerosN (FILE_BYTES P)))))
                       (EvSetLen name (FILE_BYTES P)) in
      (c2, Ok tt)
  end.

(* Directory::open_file (read + write, no create): returns the content handle *)
Definition open_file (c : ioctx) (n : N) : ioctx * res unit :=
  let name := filename n in
  match fault_point c SOpen with
  | (c1, Some e) => (c1, Err e)
  | (c1, None) =>
      match fs_get (c_fs c1) name with
      | Some (FFile _) => (ctx_ev c1 (EvOpenRw name), Ok tt)
      | Some FDir => (c1, Err IoIsADirectory)
      | _ => (c1, Err IoNotFound)
      end
  end.

Definition file_content (c : ioctx) (n : N) : bytes :=
  match fs_get (c_fs c) (filename n) with Some (FFile b) => b | _ => [] end.

(* ---------- RollingReader ---------- *)
Record rreaderS := mkRd {
  rd_ctx : ioctx;
  rd_files : list N;
  rd_file : N;
  rd_block_id : N;
  rd_pos : N;              (* stream position of the open file *)
  rd_block : bytes
}.

(* read_block on file n at position pos: (ctx, new pos, result) *)
(* R2: an injected fault of kind UnexpectedEof is absorbed as a short read (Ok None). *)
Definition read_block (c : ioctx) (n pos : N) : ioctx * N * res (option bytes) :=
  let name := filename n in
  match fault_point c SRead with
  (* directory.rs read_block: `Err(e) if e.kind() == UnexpectedEof => Ok(false)`: an injected
     UnexpectedEof is indistinguishable from a short file. The hook fires before read_exact
     runs, so the OS position is unchanged. *)
  | (c1, Some e) => (ctx_ev c1 (EvRead name pos (BS P) false), pos,
                     match e with IoUnexpectedEof => Ok None | _ => Err e end)
  | (c1, None) =>
      let content := file_content c1 n in
      let len := lenN content in
      if pos + BS P <=? len
      then (ctx_ev c1 (EvRead name pos (BS P) true), pos + BS P,
            Ok (Some (sliceN pos (pos + BS P) content)))
      else (ctx_ev c1 (EvRead name pos (BS P) false), N.max pos len, Ok None)
  end.

(* the `loop` of next_block over the following files; structural on the tracker's tail *)
Fixpoint next_file_loop (c : ioctx) (cands : list N) (rd : rreaderS) : rreaderS * res bool :=
  match cands with
  | [] => (mkRd c (rd_files rd) (rd_file rd) (rd_block_id rd) (rd_pos rd) (rd_block rd), Ok false)
  | n :: rest =>
      match open_file c n with
      | (c1, Err e) =>
          (mkRd c1 (rd_files rd) (rd_file rd) (rd_block_id rd) (rd_pos rd) (rd_block rd), Err e)
      | (c1, Ok _) =>
          match read_block c1 n 0 with
          | (c2, _, Err e) =>
              (mkRd c2 (rd_files rd) (rd_file rd) (rd_block_id rd) (rd_pos rd) (rd_block rd), Err e)
          | (c2, pos', Ok (Some blk)) => (mkRd c2 (rd_files rd) n 0 pos' blk, Ok true)
          | (c2, _, Ok None) => next_file_loop c2 rest rd
          end
      end
  end.

Definition files_after (files : list N) (cur : N) : list N :=
  filter (fun x => cur <? x) files.

(* BlockRead::next_block for RollingReader *)
Definition rd_next (rd : rreaderS) : rreaderS * res bool :=
  match read_block (rd_ctx rd) (rd_file rd) (rd_pos rd) with
  | (c1, pos', Err e) =>
      (mkRd c1 (rd_files rd) (rd_file rd) (rd_block_id rd) pos' (rd_block rd), Err e)
  | (c1, pos', Ok (Some blk)) =>
      (mkRd c1 (rd_files rd) (rd_file rd) (rd_block_id rd + 1) pos' blk, Ok true)
  | (c1, pos', Ok None) =>
      next_file_loop c1 (files_after (rd_files rd) (rd_file rd))
                     (mkRd c1 (rd_files rd) (rd_file rd) (rd_block_id rd) pos' (rd_block rd))
  end.

(* Directory::ensure_last_file_has_full_size (fix e7ddcf6) *)
Definition ensure_last_full (c : ioctx) (files : list N) : ioctx * res unit :=
  match last_opt files with
  | None => (c, Ok tt)
  | Some n =>
      let name := filename n in
      let content := file_content c n in
      if lenN content <? FILE_BYTES P then
        match open_file c n with
        | (c1, Err e) => (c1, Err e)
        | (c1, Ok _) =>
            (ctx_ev (ctx_fs c1 (fs_put (c_fs c1) name (FFile (set_len content (FILE_BYTES P)))))
                    (EvSetLen name (FILE_BYTES P)), Ok tt)
        end
      else (c, Ok tt)
  end.

(* Directory::open + RollingReader::open *)
Definition rd_open (c0 : ioctx) : ioctx * res rreaderS :=
  let c := ctx_ev c0 EvReadDir in
  match fault_point c SReadDir with
  | (c1, Some e) => (c1, Err e)
  | (c1, None) =>
      let listed := list_wal_numbers (c_fs c1) in
      let '(c2, files) :=
        match listed with
        | [] => match create_file c1 0 with
                | (c', Ok _) => (c', Ok [0])
                | (c', Err e) => (c', Err e)
                end
        | _ => (c1, Ok listed)
        end in
      match files with
      | Err e => (c2, Err e)
      | Ok files =>
        match (if L_SHORT P then (c2, Ok tt) else ensure_last_full c2 files) with
        | (c2', Err e) => (c2', Err e)
        | (c2, Ok _) =>
          let first := match files with f :: _ => f | [] => 0 end in
          match open_file c2 first with
          | (c3, Err e) => (c3, Err e)
          | (c3, Ok _) =>
              match read_block c3 first 0 with
              | (c4, _, Err e) => (c4, Err e)
              | (c4, _, Ok None) => (c4, Err IoUnexpectedEof)
              | (c4, pos', Ok (Some blk)) => (c4, Ok (mkRd c4 files first 0 pos' blk))
              end
          end
        end
      end
  end.

(* ---------- RollingWriter with its BufWriter ---------- *)
Record rwriter := mkWr {
  w_ctx : ioctx;
  w_files : list N;
  w_file : N;
  w_off : N;               (* RollingWriter.offset *)
  w_pending : bytes        (* BufWriter's buffer: not yet handed to the OS *)
}.

Definition wr_ctx (w : rwriter) (c : ioctx) : rwriter :=
  mkWr c (w_files w) (w_file w) (w_off w) (w_pending w).

(* position of the file handle = where the buffered bytes will land *)
Definition os_pos (w : rwriter) : N := w_off w - lenN (w_pending w).

Definition os_write (c : ioctx) (n off : N) (data : bytes) : ioctx :=
  let name := filename n in
  ctx_ev (ctx_fs c (fs_put (c_fs c) name (FFile (write_at (file_content c n) off data))))
         (EvWrite name off data).

(* BufWriter::flush_buf *)
Definition flush_buf (w : rwriter) : rwriter :=
  match w_pending w with
  | [] => w
  | _ => mkWr (os_write (w_ctx w) (w_file w) (os_pos w) (w_pending w))
              (w_files w) (w_file w) (w_off w) []
  end.

(* BufWriter::flush = flush_buf + File::flush *)
Definition bw_flush (w : rwriter) : rwriter :=
  let w1 := flush_buf w in wr_ctx w1 (ctx_ev (w_ctx w1) (EvFlush (filename (w_file w1)))).

Definition sync_data (w : rwriter) : rwriter :=
  wr_ctx w (ctx_ev (w_ctx w) (EvSyncData (filename (w_file w)))).
Definition sync_dir (w : rwriter) : rwriter := wr_ctx w (ctx_ev (w_ctx w) EvSyncDir).

(* BufWriter::write_all with capacity BS, then RollingWriter.offset += len.
   (os_pos is derived from w_off, so the offset is advanced after the buffer logic.) *)
Definition bw_write_all0 (w : rwriter) (data : bytes) : rwriter :=
  let cap := BS P in
  let len := lenN data in
  let spare := cap - lenN (w_pending w) in
  if len <? spare then
    mkWr (w_ctx w) (w_files w) (w_file w) (w_off w) (w_pending w ++ data)
  else
    let w1 := if spare <? len then flush_buf w else w in
    if cap <=? len then
      mkWr (os_write (w_ctx w1) (w_file w1) (os_pos w1) data)
           (w_files w1) (w_file w1) (w_off w1) (w_pending w1)
    else mkWr (w_ctx w1) (w_files w1) (w_file w1) (w_off w1) (w_pending w1 ++ data).

Definition bw_write_all (w : rwriter) (data : bytes) : rwriter :=
  let w1 := bw_write_all0 w data in
  mkWr (w_ctx w1) (w_files w1) (w_file w1) (w_off w1 + lenN data) (w_pending w1).

Definition wr_rem (w : rwriter) : N := BS P - w_off w mod BS P.

(* BlockWrite::write for RollingWriter: the writer as left behind + the result *)
Definition wr_write (w : rwriter) (data : bytes) : rwriter * res unit :=
  match data with
  | [] => (w, Ok tt)
  | _ =>
      let len := lenN data in
      if FILE_BYTES P <? w_off w + len then
        let w1 := sync_dir (sync_data (bw_flush w)) in
        match tracker_next (w_files w1) (w_file w1) with
        | Some nxt =>
            match open_file (w_ctx w1) nxt with
            | (c, Err e) => (wr_ctx w1 c, Err e)
            | (c, Ok _) =>
                (bw_write_all (mkWr c (w_files w1) nxt 0 []) data, Ok tt)
            end
        | None =>
            let nxt := w_file w1 + 1 in
            let files' := insert_sorted nxt (w_files w1) in
            match create_file (w_ctx w1) nxt with
            (* fix "untrack a file that could not be created": the tracker is left as it was *)
            | (c, Err e) => (mkWr c (w_files w1) (w_file w1) (w_off w1) (w_pending w1), Err e)
            | (c, Ok _) =>
                (bw_write_all (mkWr c files' nxt 0 []) data, Ok tt)
            end
        end
      else
        (bw_write_all w data, Ok tt)
  end.

(* BlockWrite::persist *)
Definition wr_persist (w : rwriter) (fsync : bool) : rwriter :=
  if fsync then sync_dir (sync_data (bw_flush w)) else bw_flush w.

(* RollingReader::into_writer + FrameReader::into_writer's forward(cursor) *)
Definition rd_into_writer (rd : rreaderS) (cursor : N) : rwriter :=
  mkWr (rd_ctx rd) (rd_files rd) (rd_file rd) (rd_block_id rd * BS P + cursor) [].

(* Directory::gc: unlink oldest files while unreferenced and at least two remain.
   `referenced f` answers Arc::strong_count > 1. Structural on the tracker. *)
Fixpoint gc_loop (c : ioctx) (files : list N) (referenced : N -> bool)
  : ioctx * list N * res unit :=
  match files with
  | f :: ((_ :: _) as rest) =>
      if referenced f then (c, files, Ok tt)
      else
        let name := filename f in
        match fs_get (c_fs c) name with
        | Some (FFile _) | Some FOther =>
            gc_loop (ctx_ev (ctx_fs c (fs_remove (c_fs c) name)) (EvUnlink name)) rest referenced
        | Some FDir => (c, rest, Err IoIsADirectory)
        | None => (c, rest, Err IoNotFound)
        end
  | _ => (c, files, Ok tt)
  end.

Definition tracker_count (files : list N) : N := lenN files.
End WithParams.
