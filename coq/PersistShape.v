(* PersistShape.v — (1) the shape of the I/O trace of a history under any persist policy, with
   buffering.
   btrace lo f off evs D lo' f' off': starting with the OS position at offset off of file f and
   the first tracked file lo, the events evs are: data writes (CrashTrace.wtrace: every EvWrite
   exactly at the current end of the OS-level stream, the data concatenating to consecutive
   bytes, a roll-over group exactly at each file boundary), separated by flush groups
   (File::flush, + sync_data + sync of the directory), and - only directly after a flush group
   WITH sync that follows ALL the data written so far - the unlinks of the oldest files.
   C03_trace_shape: the events of a history from a persist point form a btrace whose data,
   followed by the bytes still buffered, are exactly the bytes the history writes
   (padding + encodings of run_log from the cursor of the persist point). *)
From Coq Require Import Lia ZArith ZifyN ZifyNat ZifyBool List Sorted.
From MRL Require Import Bytes BytesProofs Params Names NamesProofs Frame Record Mem Spec Rolling Log
  Driver Hist SpecRefine RecordProofs StreamProofs PolicyProofs GcProofs GhostLog ReplaySpec
  HandleProofs FileStream ResyncProofs TornProofs PersistProofs WriterProofs EffectsProofs
  RestartInv RestartWrite RestartGc RestartStep OpenReplay RestartFinal TornFile CrashTrace
  PersistTrace PersistGc PersistLogic PersistRecover PersistSurvive.

Arguments N.add : simpl never.
Arguments N.sub : simpl never.
Arguments N.mul : simpl never.
Arguments N.eqb : simpl never.
Arguments N.ltb : simpl never.
Arguments N.leb : simpl never.
Arguments N.div : simpl never.
Arguments N.modulo : simpl never.
Arguments N.min : simpl never.
Arguments N.max : simpl never.

Definition nu_ev (e : event) : Prop :=
  match e with EvFlush _ | EvSyncData _ | EvSyncDir | EvUnlink _ => True | _ => False end.

Lemma noop_nu e : noop_ev e -> nu_ev e.
Proof. destruct e; cbn; auto. Qed.

Section Shape.
Variable P : params.
Hypothesis HBS_lo : 7 < BS P.
Hypothesis HBS_hi : BS P <= 65542.
Hypothesis HNB : 1 <= NB P.
Hypothesis Hcrc : forall t p, crcf P t p < 2 ^ 32.
Hypothesis HGC : L_GC P = false.

Local Notation B := (BS P).
Local Notation FB := (FILE_BYTES P).
Local Notation encs_of := (encs_of P).
Local Notation sr := (map entry_ser).
Local Notation wtrace := (wtrace P).
Local Notation HW f := (f P HBS_lo HBS_hi HNB Hcrc) (only parsing).
Local Notation HG f := (f P HBS_lo HBS_hi HNB Hcrc HGC) (only parsing).
Local Notation HN f := (f P HBS_lo HBS_hi HNB) (only parsing).
Local Notation H3 f := (f P HBS_lo HBS_hi Hcrc) (only parsing).
Local Notation wabs := (wabs P).

(* ---------- splitting a trace of data writes ---------- *)
Lemma wtrace_split f off A DA fA offA :
  wtrace f off A DA fA offA -> forall X D f' off',
  wtrace f off (A ++ X) D f' off' ->
  exists DX, wtrace fA offA X DX f' off' /\ D = DA ++ DX.
Proof.
  induction 1 as [f off|f off d evs D0 f1 off1 Hfit _ IH|f evs D0 f1 off1 _ IH]; intros X D f' off' H2.
  - exists D. split; [exact H2|reflexivity].
  - cbn [app] in H2. inversion H2 as [| ? ? ? ? D2 ? ? Hfit2 Htr2 |]; subst.
    destruct (IH _ _ _ _ Htr2) as (DX & Hx & ->). exists DX. split; [exact Hx|apply app_assoc].
  - rewrite <- app_assoc in H2. inversion H2 as [| |? evs2 ? ? ? Htr2]; subst.
    exact (IH _ _ _ _ Htr2).
Qed.

Lemma wtrace_nu_nil f off l D f' off' :
  wtrace f off l D f' off' -> Forall nu_ev l -> l = [] /\ D = [] /\ f' = f /\ off' = off.
Proof.
  intros H Hl. destruct H as [f off|f off d evs D f' off' _ _|f evs D f' off' _].
  - auto.
  - inversion Hl as [|? ? He _]; subst. destruct He.
  - unfold roll_group in Hl. cbn [app] in Hl.
    inversion Hl as [|? ? _ H1]; subst. inversion H1 as [|? ? _ H2]; subst.
    inversion H2 as [|? ? _ H3']; subst. inversion H3' as [|? ? He _]; subst. destruct He.
Qed.

(* the data writes of the whole (wevs) extend those up to an earlier point (E_i) *)
Lemma ev_align f0 off0 wevs D' f' off' E_i Dos_i fi oi tail evs1 :
  wtrace f0 off0 wevs D' f' off' -> wtrace f0 off0 E_i Dos_i fi oi ->
  wevs ++ tail = E_i ++ evs1 -> Forall nu_ev tail ->
  exists l DX, wevs = E_i ++ l /\ evs1 = l ++ tail /\ wtrace fi oi l DX f' off' /\ D' = Dos_i ++ DX.
Proof.
  intros Hw He Heq Hnu.
  destruct (app_eq_app _ _ _ _ Heq) as (l & [(E1 & E2) | (E1 & E2)]).
  - rewrite E1 in Hw. destruct (wtrace_split _ _ _ _ _ _ He _ _ _ _ Hw) as (DX & Hx & HD).
    exists l, DX. auto.
  - rewrite E1 in He. destruct (wtrace_split _ _ _ _ _ _ Hw _ _ _ _ He) as (DX & Hx & HD).
    assert (Hl : Forall nu_ev l) by (rewrite E2 in Hnu; apply Forall_app in Hnu; apply Hnu).
    destruct (wtrace_nu_nil _ _ _ _ _ _ Hx Hl) as (-> & -> & -> & ->).
    rewrite app_nil_r in *. subst E_i Dos_i. cbn [app] in E2. subst tail.
    exists [], []. rewrite !app_nil_r. repeat split; try reflexivity. constructor.
Qed.

(* ---------- the shape of a trace with buffering ---------- *)
Inductive btrace : N -> N -> N -> list event -> bytes -> N -> N -> N -> Prop :=
| bt_data lo f off wevs D f' off' :
    wtrace f off wevs D f' off' -> btrace lo f off wevs D lo f' off'
| bt_flush lo f off wevs D1 f1 off1 a rest D2 lo' f' off' :
    wtrace f off wevs D1 f1 off1 ->
    btrace lo f1 off1 rest D2 lo' f' off' ->
    btrace lo f off (wevs ++ flush_group f1 a ++ rest) (D1 ++ D2) lo' f' off'
| bt_gc lo f off wevs D1 f1 off1 m tailf rest D2 lo' f' off' :
    wtrace f off wevs D1 f1 off1 -> lo + N.of_nat m <= f1 ->
    (tailf = [] \/ exists a, tailf = flush_group f1 a) ->
    btrace (lo + N.of_nat m) f1 off1 rest D2 lo' f' off' ->
    btrace lo f off (wevs ++ flush_group f1 true ++ unlinks lo m ++ tailf ++ rest) (D1 ++ D2)
           lo' f' off'.

Lemma btrace_prepend lo f off e1 D1 f1 off1 e2 D2 lo' f' off' :
  wtrace f off e1 D1 f1 off1 -> btrace lo f1 off1 e2 D2 lo' f' off' ->
  btrace lo f off (e1 ++ e2) (D1 ++ D2) lo' f' off'.
Proof.
  intros H1 H2. destruct H2 as [lo f1 off1 wevs D f' off' Hw
                               |lo f1 off1 wevs Da f2 off2 a rest Db lo' f' off' Hw Hr
                               |lo f1 off1 wevs Da f2 off2 m tailf rest Db lo' f' off' Hw Hm Ht Hr].
  - constructor. eapply wtrace_app; eassumption.
  - rewrite (app_assoc D1), (app_assoc e1).
    eapply bt_flush; [eapply wtrace_app; eassumption|exact Hr].
  - rewrite (app_assoc D1), (app_assoc e1).
    eapply bt_gc; [eapply wtrace_app; eassumption|exact Hm|exact Ht|exact Hr].
Qed.

(* every byte written before an unlink is in the OS before it: the data of a btrace up to any
   unlink is followed by flush + sync with no write in between (by construction of bt_gc) *)

(* ====================================================================== *)
(* one call, relative to the state before it                               *)
(* ====================================================================== *)
Section Ext.
Variable ev0 : list event.
Variable fs0 : fsT.
Variables f0 off0 M : N.
Variable buf0 : bytes.
Variables lo0 cur0 : N.
Local Notation TI := (tinv P ev0 fs0 f0 off0 M buf0 lo0 cur0).

Lemma TI_wabs w D : TI w D -> wabs w = lo0 * FB + (cur0 + lenN D) /\ wlo w = lo0.
Proof.
  intros Ht. destruct (tinv_facts _ _ _ _ _ _ _ _ _ _ _ Ht) as ((Hok & _) & Hlo & _).
  destruct Ht as ((_ & Hc & _) & _). cbn [vw_cursor] in Hc.
  destruct (wr_ok_len P (HN HB0) HNB w Hok) as (Hn & Hn1).
  split; [|exact Hlo]. rewrite Hc. unfold PersistGc.wabs, wpos. rewrite <- Hlo.
  assert (E : w_file w * FB = wlo w * FB + (lenN (w_files w) - 1) * FB).
  { rewrite <- N.mul_add_distr_r. f_equal. lia. }
  lia.
Qed.

Lemma TI_trace w D E_i :
  TI w D -> c_ev (w_ctx w) = rev E_i ++ ev0 ->
  exists Dos, wtrace f0 off0 E_i Dos (w_file w) (os_pos w) /\ D = Dos ++ w_pending w /\
              os_pos w + lenN (w_pending w) = w_off w /\ w_off w <= FB /\
              c_fs (w_ctx w) = fold_left apply_event E_i fs0.
Proof.
  intros Ht HE. destruct (tinv_facts _ _ _ _ _ _ _ _ _ _ _ Ht) as ((_ & Hwf & Hoff & _) & _ & (E & Dos & Hev & Hfs & _ & Htr & HD)).
  assert (E = E_i) by (rewrite Hev in HE; apply app_inv_tail in HE; now apply rev_inj). subst E.
  exists Dos. unfold wf in Hwf. unfold os_pos. repeat split; try assumption. lia.
Qed.

Theorem call_kinds st D o t st' out E_i evs1 :
  TI (s_wr st) D ->
  cur0 + lenN D + lenN (encs_of (cur0 + lenN D) (sr (map snd (step_log P st o)))) <= M ->
  step P st o t = (st', out) -> no_io out ->
  c_ev (w_ctx (s_wr st)) = rev E_i ++ ev0 ->
  c_ev (w_ctx (s_wr st')) = rev evs1 ++ c_ev (w_ctx (s_wr st)) ->
  let NEW1 := encs_of (cur0 + lenN D) (sr (map snd (step_log P st o))) in
  let fi := w_file (s_wr st) in let oi := os_pos (s_wr st) in
  let f' := w_file (s_wr st') in
  wabs (s_wr st') = wabs (s_wr st) + lenN NEW1 /\
  c_fs (w_ctx (s_wr st')) = fold_left apply_event evs1 (c_fs (w_ctx (s_wr st))) /\
  ((TI (s_wr st') (D ++ NEW1) /\
    exists D1, wtrace fi oi evs1 D1 f' (os_pos (s_wr st')) /\
               w_pending (s_wr st) ++ NEW1 = D1 ++ w_pending (s_wr st')) \/
   (w_pending (s_wr st') = [] /\ wlo (s_wr st') = lo0 /\
    exists w1 a, evs1 = w1 ++ flush_group f' a /\
                 wtrace fi oi w1 (w_pending (s_wr st) ++ NEW1) f' (w_off (s_wr st'))) \/
   (w_pending (s_wr st') = [] /\
    exists w1 mg tailf,
      evs1 = w1 ++ flush_group f' true ++ unlinks lo0 mg ++ tailf /\
      wtrace fi oi w1 (w_pending (s_wr st) ++ NEW1) f' (w_off (s_wr st')) /\
      lo0 + N.of_nat mg <= f' /\ (tailf = [] \/ exists a, tailf = flush_group f' a) /\
      wlo (s_wr st') = lo0 + N.of_nat mg)).
Proof.
  intros Ht HM Es Hno HEi Hev1 NEW1 fi oi f'.
  destruct (TI_trace _ _ _ Ht HEi) as (Dos_i & Htri & HDi & Hosi & Hoffi & Hfsi).
  destruct (TI_wabs _ _ Ht) as (Habs & Hloi).
  assert (Hoi : oi <= FB) by (unfold oi; lia).
  assert (HD' : D ++ NEW1 = Dos_i ++ (w_pending (s_wr st) ++ NEW1)) by (rewrite HDi, <- app_assoc; reflexivity).
  assert (Habs_i : wabs (s_wr st) = fi * FB + oi + lenN (w_pending (s_wr st))).
  { unfold PersistGc.wabs, fi, oi. lia. }
  assert (Hcev : forall x, rev x ++ ev0 = c_ev (w_ctx (s_wr st')) -> x = E_i ++ evs1).
  { intros x Hx. rewrite Hev1, HEi, app_assoc in Hx. apply app_inv_tail in Hx.
    apply rev_inj. rewrite rev_app_distr. exact Hx. }
  destruct (HW gstep_trace _ _ _ _ _ _ _ _ st D o t st' out Ht HM Es Hno) as [HN|[HPk|HGk]];
    fold NEW1 in HN || fold NEW1 in HPk || fold NEW1 in HGk.
  - (* N *)
    split.
    { destruct (TI_wabs _ _ HN) as (Habs' & _). rewrite Habs', Habs, lenN_app. lia. }
    assert (HE' : c_ev (w_ctx (s_wr st')) = rev (E_i ++ evs1) ++ ev0).
    { rewrite Hev1, HEi, rev_app_distr, app_assoc. reflexivity. }
    destruct (TI_trace _ _ _ HN HE') as (Dos' & Htr' & HD2 & _ & _ & Hfs').
    split; [rewrite Hfs', fold_left_app, <- Hfsi; reflexivity|].
    left. split; [exact HN|].
    destruct (wtrace_split _ _ _ _ _ _ Htri _ _ _ _ Htr') as (D1 & Hx & ->).
    exists D1. split; [exact Hx|].
    rewrite HD', <- app_assoc in HD2. now apply app_inv_head in HD2.
  - (* P *)
    destruct HPk as (wevs & a & HevP & HfsP & HtrP & HpP & HloP).
    pose proof (Hcev _ (eq_sym HevP)) as EE.
    destruct (ev_align _ _ _ _ _ _ _ _ _ _ _ _ HtrP Htri EE) as (l & DX & E1 & E2 & Hl & HDX).
    { eapply Forall_impl; [apply noop_nu|apply flush_group_noop]. }
    rewrite HD' in HDX. apply app_inv_head in HDX. subst DX.
    split.
    { destruct (HW wtrace_pos _ _ _ _ _ _ Hl Hoi) as (_ & Hp). rewrite lenN_app in Hp.
      rewrite Habs_i. unfold PersistGc.wabs. fold f'. lia. }
    split; [rewrite HfsP, EE, fold_left_app, <- Hfsi; reflexivity|].
    right. left. split; [exact HpP|]. split; [exact HloP|]. exists l, a. auto.
  - (* G *)
    destruct HGk as (st2 & st3 & k & e & D2 & Hmid & Hown & Hdel & Hgc & Efin & ED2 & Ht2 & Elog & ED'g).
    assert (HM2 : cur0 + lenN D2 +
                  lenN (encs_of (cur0 + lenN D2) (sr (map snd (gc_log P st2 (gc_hint o))))) <= M).
    { rewrite Elog in HM. cbn [map snd ResyncProofs.encs_of] in HM. rewrite lenN_app in HM.
      rewrite ED2, lenN_app, !N.add_assoc. lia. }
    destruct (HG gc_trace _ _ _ _ _ _ _ _ st2 D2 (gc_hint o) st3 k Ht2 HM2 Hdel Hgc)
      as (wevs & mg & c & files' & Hev1g & Hfs1g & Htrg & Hp1g & Egc & Efiles & Est3 & Hevc & Hfsc &
          Hmg & Epol1 & Eqs1 & Hlo1g & Hwi1).
    cbn zeta in *. rewrite <- ED'g in Htrg.
    set (st1 := gc_st1 P st2 (gc_hint o)) in *. set (f1 := w_file (s_wr st1)) in *.
    assert (Hp3 : w_pending (s_wr st3) = []) by (rewrite Est3; cbn [set_wr s_wr w_pending]; exact Hp1g).
    assert (Hf3 : w_file (s_wr st3) = f1) by (rewrite Est3; reflexivity).
    assert (Hfin : exists tailf, (tailf = [] \/ exists a, tailf = flush_group f1 a) /\
              c_ev (w_ctx (s_wr st')) = rev tailf ++ c_ev (w_ctx (s_wr st3)) /\
              w_pending (s_wr st') = [] /\
              w_file (s_wr st') = w_file (s_wr st3) /\ w_off (s_wr st') = w_off (s_wr st3) /\
              wlo (s_wr st') = wlo (s_wr st3) /\
              c_fs (w_ctx (s_wr st')) = c_fs (w_ctx (s_wr st3))).
    { assert (Hper : forall a, exists tailf, (tailf = [] \/ exists a, tailf = flush_group f1 a) /\
                c_ev (w_ctx (s_wr (persist st3 a))) = rev tailf ++ c_ev (w_ctx (s_wr st3)) /\
                w_pending (s_wr (persist st3 a)) = [] /\
                w_file (s_wr (persist st3 a)) = w_file (s_wr st3) /\
                w_off (s_wr (persist st3 a)) = w_off (s_wr st3) /\
                wlo (s_wr (persist st3 a)) = wlo (s_wr st3) /\
                c_fs (w_ctx (s_wr (persist st3 a))) = c_fs (w_ctx (s_wr st3))).
      { intros a. destruct (persist_ev_nil (s_wr st3) a Hp3) as (K1 & K2 & _ & K4 & K5 & K6).
        exists (flush_group (w_file (s_wr st3)) a). cbn [persist set_wr s_wr].
        split; [right; exists a; now rewrite Hf3|]. rewrite wlo_persist. repeat split; auto. }
      assert (Hnone : exists tailf, (tailf = [] \/ exists a, tailf = flush_group f1 a) /\
                c_ev (w_ctx (s_wr st3)) = rev tailf ++ c_ev (w_ctx (s_wr st3)) /\
                w_pending (s_wr st3) = [] /\
                w_file (s_wr st3) = w_file (s_wr st3) /\ w_off (s_wr st3) = w_off (s_wr st3) /\
                wlo (s_wr st3) = wlo (s_wr st3) /\
                c_fs (w_ctx (s_wr st3)) = c_fs (w_ctx (s_wr st3))).
      { exists []. split; [now left|]. repeat split; auto. }
      rewrite Efin. destruct o; cbn [fin_state]; try apply Hper.
      all: unfold persist_on_policy; destruct (s_pol st3) as [|a|a];
        [exact Hnone|destruct t; [apply Hper|exact Hnone]|apply Hper]. }
    destruct Hfin as (tailf & Htailf0 & Hevf & Hpf & Hff & Hof & Hlof & Hfsf).
    assert (Htailf : Forall noop_ev tailf).
    { destruct Htailf0 as [->|(a & ->)]; [constructor|apply flush_group_noop]. }
    assert (Hev3 : c_ev (w_ctx (s_wr st3)) = rev (unlinks lo0 mg) ++ c_ev (w_ctx (s_wr st1))).
    { rewrite Est3. cbn [set_wr s_wr w_ctx]. exact Hevc. }
    assert (EE : wevs ++ flush_group f1 true ++ unlinks lo0 mg ++ tailf = E_i ++ evs1).
    { apply Hcev. rewrite Hevf, Hev3, Hev1g, !rev_app_distr, !app_assoc. reflexivity. }
    destruct (ev_align _ _ _ _ _ _ _ _ _ _ _ _ Htrg Htri EE) as (l & DX & E1 & E2 & Hl & HDX).
    { apply Forall_app. split; [eapply Forall_impl; [apply noop_nu|apply flush_group_noop]|].
      apply Forall_app. split; [|eapply Forall_impl; [apply noop_nu|exact Htailf]].
      unfold unlinks. apply Forall_forall. intros x Hx. apply in_map_iff in Hx.
      destruct Hx as (y & <- & _). exact I. }
    rewrite HD' in HDX. apply app_inv_head in HDX. subst DX.
    assert (Ef' : f' = f1) by (unfold f'; rewrite Hff, Hf3; reflexivity).
    assert (Eo' : w_off (s_wr st') = w_off (s_wr st1)) by (rewrite Hof, Est3; reflexivity).
    rewrite <- Ef' in *. rewrite <- Eo' in Hl.
    split.
    { destruct (HW wtrace_pos _ _ _ _ _ _ Hl Hoi) as (_ & Hp). rewrite lenN_app in Hp.
      rewrite Habs_i. unfold PersistGc.wabs. fold f'. lia. }
    split.
    { rewrite Hfsf, Est3. cbn [set_wr s_wr w_ctx]. rewrite Hfsc, Hfs1g.
      rewrite Hfsi, <- fold_left_app, <- EE, !fold_left_app, fold_flush_group.
      rewrite (proj1 (noop_fold _ Htailf)). unfold unlinks. now rewrite fold_unlinks. }
    right. right. split; [exact Hpf|]. exists l, mg, tailf.
    split; [exact E2|]. split; [exact Hl|]. split; [exact Hmg|]. split; [exact Htailf0|].
    rewrite Hlof, Est3. unfold wlo. cbn [set_wr s_wr w_file w_files].
    pose proof Hwi1 as (Hok1 & _). destruct (wr_ok_len P (HN HB0) HNB _ Hok1) as (Hn & _).
    rewrite Efiles, lenN_app, lenN_iota, Hlo1g in Hn. subst f1. lia.
Qed.

End Ext.

(* ====================================================================== *)
(* whole histories                                                         *)
(* ====================================================================== *)
Local Notation Inv := (Inv P).
Local Notation stream_bound := (stream_bound P).
Local Notation ATI := (ATI P).

Lemma seg_trace : forall h h_pre st_g G_g st_i G_i D_i M,
  Inv st_g G_g -> w_pending (s_wr st_g) = [] ->
  fst (run P st_g h_pre) = st_i ->
  hist_wf P st_g (h_pre ++ h) ->
  stream_bound G_g (map snd (run_log P st_g (h_pre ++ h))) ->
  Inv st_i G_i -> stream_bound G_i (map snd (run_log P st_i h)) ->
  M = wpos P (s_wr st_g) +
      lenN (encs_of (wpos P (s_wr st_g)) (sr (map snd (run_log P st_g (h_pre ++ h))))) ->
  ATI st_g M (s_wr st_i) D_i ->
  D_i = encs_of (wpos P (s_wr st_g)) (sr (map snd (run_log P st_g h_pre))) ->
  forall evs, c_ev (w_ctx (s_wr (fst (run P st_i h)))) = rev evs ++ c_ev (w_ctx (s_wr st_i)) ->
  let fin := s_wr (fst (run P st_i h)) in
  exists Dos,
    btrace (wlo (s_wr st_i)) (w_file (s_wr st_i)) (os_pos (s_wr st_i)) evs Dos
           (wlo fin) (w_file fin) (os_pos fin) /\
    w_pending (s_wr st_i) ++ encs_of (wabs (s_wr st_i)) (sr (map snd (run_log P st_i h))) =
      Dos ++ w_pending fin.
Proof.
  induction h as [|[o t] h IH];
    intros h_pre st_g G_g st_i G_i D_i M HIg Hpg Hrun Hwf Hbg HIi Hbi EM Ht ED evs Hev fin.
  - subst fin. cbn [run fst] in *. apply app_self_nil in Hev.
    assert (evs = []) by (apply rev_inj; exact Hev). subst evs.
    exists []. split; [constructor; constructor|].
    cbn [run_log map ResyncProofs.encs_of app]. now rewrite app_nil_r.
  - pose proof Hwf as Hwf0. apply (hist_wf_app P) in Hwf0. destruct Hwf0 as (Hwf_pre & Hwf_i).
    rewrite Hrun in Hwf_i. cbn [hist_wf] in Hwf_i. destruct Hwf_i as (Hop & Hwf_h).
    cbn [run_log] in Hbi. rewrite map_app in Hbi.
    assert (Hb1 : stream_bound G_i (map snd (step_log P st_i o))).
    { eapply (HW stream_bound_prefix); eassumption. }
    pose proof (HG step_no_io st_i G_i o t HIi Hop Hb1) as Hno.
    destruct (ev_split P st_i o t h evs Hev) as (evs1 & evs2 & Eevs & Hev1 & Hev2).
    subst fin. rewrite run_cons_fst.
    destruct (step P st_i o t) as [st' out] eqn:Es. cbn [fst snd] in *.
    destruct (HG inv_step st_i G_i o t st' out HIi Hop Hb1 Es Hno) as (G' & HI' & Eb' & Ed' & El').
    assert (Hb2 : stream_bound G' (map snd (run_log P st' h))).
    { unfold RestartWrite.stream_bound in *. rewrite Eb'.
      unfold gh_ALL in *. rewrite Ed', El'.
      replace ((gh_dropped G_i ++ map snd (gh_log G_i ++ step_log P st_i o)) ++ map snd (run_log P st' h))
        with ((gh_dropped G_i ++ map snd (gh_log G_i)) ++
              map snd (step_log P st_i o) ++ map snd (run_log P st' h)); [exact Hbi|].
      rewrite map_app, !app_assoc. reflexivity. }
    assert (Er' : fst (run P st_g (h_pre ++ [(o, t)])) = st').
    { rewrite (run_app_fst P), Hrun, run_cons_fst, Es. reflexivity. }
    assert (Eapp : (h_pre ++ [(o, t)]) ++ h = h_pre ++ (o, t) :: h)
      by (rewrite <- app_assoc; reflexivity).
    set (cur0 := wpos P (s_wr st_g)) in *.
    set (NEW1 := encs_of (cur0 + lenN D_i) (sr (map snd (step_log P st_i o)))).
    set (D' := D_i ++ NEW1).
    assert (Elog1 : run_log P st_g (h_pre ++ [(o, t)]) = run_log P st_g h_pre ++ step_log P st_i o).
    { rewrite (run_log_app P), Hrun. cbn [run_log]. now rewrite app_nil_r. }
    assert (ED' : D' = encs_of cur0 (sr (map snd (run_log P st_g (h_pre ++ [(o, t)]))))).
    { unfold D', NEW1. rewrite Elog1, !map_app, (H3 encs_of_app), <- ED. reflexivity. }
    assert (HM : cur0 + lenN D_i + lenN NEW1 <= M).
    { rewrite EM, <- Eapp, (run_log_app P), Er', !map_app, (H3 encs_of_app), <- ED', lenN_app.
      unfold D'. rewrite lenN_app. lia. }
    destruct (tinv_facts _ _ _ _ _ _ _ _ _ _ _ Ht) as (_ & Hloi & (E_i & Dos_i & HevEi & _)).
    destruct (call_kinds _ _ _ _ _ _ _ _ st_i D_i o t st' out E_i evs1 Ht HM Es Hno HevEi Hev1)
      as (Habs' & _ & Hk). fold NEW1 in Habs', Hk. fold D' in Hk.
    (* the bytes, with absolute cursors *)
    destruct (TI_wabs _ _ _ _ _ _ _ _ _ _ Ht) as (Habs_i & _).
    assert (Esh : forall X, encs_of (wabs (s_wr st_i)) X = encs_of (cur0 + lenN D_i) X).
    { intros X. rewrite Habs_i. apply (HW encs_of_shift). apply (HN mulFB_mod). }
    assert (ENEW : encs_of (wabs (s_wr st_i)) (sr (map snd (step_log P st_i o ++ run_log P st' h))) =
                   NEW1 ++ encs_of (wabs (s_wr st')) (sr (map snd (run_log P st' h)))).
    { rewrite !map_app, (H3 encs_of_app), (Esh (sr (map snd (step_log P st_i o)))).
      fold NEW1. rewrite Habs'. reflexivity. }
    cbn [run_log]. rewrite Es. cbn [fst]. rewrite ENEW.
    (* the rest of the history, as a continuation of the segment or from a new anchor *)
    assert (ContN : ATI st_g M (s_wr st') D' ->
              exists Dos2,
                btrace (wlo (s_wr st')) (w_file (s_wr st')) (os_pos (s_wr st')) evs2 Dos2
                       (wlo (s_wr (fst (run P st' h)))) (w_file (s_wr (fst (run P st' h))))
                       (os_pos (s_wr (fst (run P st' h)))) /\
                w_pending (s_wr st') ++ encs_of (wabs (s_wr st')) (sr (map snd (run_log P st' h))) =
                  Dos2 ++ w_pending (s_wr (fst (run P st' h)))).
    { intros Ht'. specialize (IH (h_pre ++ [(o, t)]) st_g G_g st' G' D' M HIg Hpg Er').
      rewrite Eapp in IH. exact (IH Hwf Hbg HI' Hb2 EM Ht' ED' evs2 Hev2). }
    assert (ContA : w_pending (s_wr st') = [] ->
              exists Dos2,
                btrace (wlo (s_wr st')) (w_file (s_wr st')) (os_pos (s_wr st')) evs2 Dos2
                       (wlo (s_wr (fst (run P st' h)))) (w_file (s_wr (fst (run P st' h))))
                       (os_pos (s_wr (fst (run P st' h)))) /\
                w_pending (s_wr st') ++ encs_of (wabs (s_wr st')) (sr (map snd (run_log P st' h))) =
                  Dos2 ++ w_pending (s_wr (fst (run P st' h)))).
    { intros Hp'.
      exact (IH [] st' G' st' G' [] _ HI' Hp' eq_refl Hwf_h Hb2 HI' Hb2 eq_refl
               (anchor_ATI P HBS_lo HBS_hi HNB Hcrc st' G' h HI' Hp' Hb2) eq_refl evs2 Hev2). }
    rewrite Eevs.
    destruct Hk as [(HN & D1 & Hw1 & HD1)|[(Hp' & Hlo' & w1 & a & -> & Hw1)|(Hp' & w1 & mg & tailf & -> & Hw1 & Hmg & Htl & Hlo')]].
    + destruct (ContN HN) as (Dos2 & Hbt & Hd2).
      destruct (TI_wabs _ _ _ _ _ _ _ _ _ _ HN) as (_ & Hlo').
      exists (D1 ++ Dos2). split.
      * rewrite Hloi, <- Hlo'. eapply btrace_prepend; eassumption.
      * rewrite <- (app_assoc D1), <- Hd2, !app_assoc. f_equal. exact HD1.
    + destruct (ContA Hp') as (Dos2 & Hbt & Hd2).
      assert (Eos : os_pos (s_wr st') = w_off (s_wr st')).
      { unfold os_pos. rewrite Hp', (@lenN_nil byte). lia. }
      rewrite Eos, Hlo' in Hbt. rewrite Hp' in Hd2. cbn [app] in Hd2.
      exists ((w_pending (s_wr st_i) ++ NEW1) ++ Dos2). split.
      * rewrite Hloi, <- (app_assoc w1). eapply bt_flush; eassumption.
      * rewrite <- !app_assoc. do 2 f_equal. exact Hd2.
    + destruct (ContA Hp') as (Dos2 & Hbt & Hd2).
      assert (Eos : os_pos (s_wr st') = w_off (s_wr st')).
      { unfold os_pos. rewrite Hp', (@lenN_nil byte). lia. }
      rewrite Eos, Hlo' in Hbt. rewrite Hp' in Hd2. cbn [app] in Hd2.
      exists ((w_pending (s_wr st_i) ++ NEW1) ++ Dos2). split.
      * rewrite Hloi, <- (app_assoc w1), <- (app_assoc (flush_group _ true)), <- (app_assoc (unlinks _ _)).
        eapply bt_gc; eassumption.
      * rewrite <- !app_assoc. do 2 f_equal. exact Hd2.
Qed.

(* (1) the trace of a history from a persist point *)
Theorem C03_trace_shape st0 G0 h evs :
  Inv st0 G0 -> w_pending (s_wr st0) = [] ->
  hist_wf P st0 h -> stream_bound G0 (map snd (run_log P st0 h)) ->
  c_ev (w_ctx (s_wr (fst (run P st0 h)))) = rev evs ++ c_ev (w_ctx (s_wr st0)) ->
  let w0 := s_wr st0 in
  let w := s_wr (fst (run P st0 h)) in
  let NEWALL := encs_of (wabs w0) (sr (map snd (run_log P st0 h))) in
  exists Dos,
    (* the events: data writes of consecutive bytes, flush groups, guarded unlinks *)
    btrace (wlo w0) (w_file w0) (w_off w0) evs Dos (wlo w) (w_file w) (os_pos w) /\
    (* (bytes in the events) + (bytes pending) = the bytes written *)
    Dos ++ w_pending w = NEWALL /\ ev_data evs = Dos.
Proof.
  intros HI0 Hp0 Hwf Hb Hevs w0 w NEWALL. subst w0 w NEWALL.
  destruct (seg_trace h [] st0 G0 st0 G0 [] _ HI0 Hp0 eq_refl Hwf Hb HI0 Hb eq_refl
              (anchor_ATI P HBS_lo HBS_hi HNB Hcrc st0 G0 h HI0 Hp0 Hb) eq_refl evs Hevs)
    as (Dos & Hbt & Hd).
  cbn zeta in Hbt, Hd. rewrite Hp0 in Hd. cbn [app] in Hd.
  assert (Eos : os_pos (s_wr st0) = w_off (s_wr st0)) by (unfold os_pos; rewrite Hp0, (@lenN_nil byte); lia).
  rewrite Eos in Hbt. exists Dos. split; [exact Hbt|]. split; [symmetry; exact Hd|].
  clear - Hbt. induction Hbt as [lo f off wevs D f' off' Hw
                                |lo f off wevs D1 f1 off1 a rest D2 lo' f' off' Hw _ IH
                                |lo f off wevs D1 f1 off1 m tailf rest D2 lo' f' off' Hw _ Ht _ IH].
  - exact (wtrace_data P _ _ _ _ _ _ Hw).
  - rewrite !ev_data_app, (wtrace_data P _ _ _ _ _ _ Hw), IH.
    now rewrite (proj2 (noop_fold _ (flush_group_noop f1 a))).
  - rewrite !ev_data_app, (wtrace_data P _ _ _ _ _ _ Hw), IH, unlinks_data.
    rewrite (proj2 (noop_fold _ (flush_group_noop f1 true))).
    destruct Ht as [->|(a & ->)]; [reflexivity|].
    now rewrite (proj2 (noop_fold _ (flush_group_noop f1 a))).
Qed.


End Shape.

Print Assumptions C03_trace_shape.
