(* CrashAt.v — TASK T14 follow-up (1): crash recovery PER CRASH POINT.
   The interrupted call may roll over to a new file and may end in the last block of its file.
   The premises are on the crash point (cut, k) itself, pe := crash_events evs cut k:
     no_create pe                                             no EvCreate before the crash
     w_off (s_wr st) + lenN (ev_data pe) + BS P <= FILE_BYTES P   the cut leaves a whole block.
   jstate_crash_at, jstate_crash_self_at (crash during the recovery of such an image),
   crash_histories_at (whole histories). *)
From Coq Require Import Lia ZArith ZifyN ZifyNat ZifyBool List Sorted.
From MRL Require Import Bytes BytesProofs Params Names NamesProofs Frame Record Mem Spec Rolling Log
  Driver Hist NoopProofs SpecRefine RecordProofs StreamProofs PolicyProofs GcProofs GhostLog ReplaySpec
  HandleProofs FileStream ResyncProofs QueueIso RestartInv RestartWrite RestartGc RestartStep
  OpenReplay RestartFinal TornProofs TornFile CrashTrace CrashAtomic
  JInv JGc JStep JunkStream JReopen JRecoverL JRecoverS JRecoverP JRecover JRecoverS2 JRecoverL2
  JCrashShape JRecover2 JRecoverP2 JRecoverPk JRecover3 JRecoverGc JRecoverSelf
  CrashRecovered CrashRecovered2 CrashRecovered3 CrashHistories JRecoverS3 JRecover4.

Arguments N.add : simpl never.
Arguments N.sub : simpl never.
Arguments N.mul : simpl never.

Section At.
Variable P : params.
Hypothesis HBS_lo : 7 < BS P.
Hypothesis HBS_hi : BS P <= 65542.
Hypothesis HNB : 1 <= NB P.
Hypothesis Hcrc : forall t p, crcf P t p < 2 ^ 32.
Hypothesis HGC : L_GC P = false.
Hypothesis HIO : L_IO P = false.
Hypothesis HSHORT : L_SHORT P = false.
Hypothesis Hnc : no_zero_collision P.

Local Notation B := (BS P).
Local Notation FB := (FILE_BYTES P).
Local Notation ser := (map entry_ser).

(* the premises on the call, without any restriction on its geometry *)
Definition crash_call_ok0 (st : state) (a : bool) (o : op) (tick : bool) (st' : state) (out : outcome) : Prop :=
  w_pending (s_wr st) = [] /\ s_pol st = PAlways a /\
  op_wf_strict (s_qs st) o /\
  crash_phys_bound P (s_wr st) (map snd (step_log P st o)) (abs_qs (s_qs st)) /\
  crash_phys_bound P (s_wr st) (map snd (step_log P st o)) (abs_qs (s_qs st')) /\
  step P st o tick = (st', out).

(* the premises on the crash point *)
Definition crash_point_ok (st : state) (pe : list event) : Prop :=
  no_create pe /\ w_off (s_wr st) + lenN (ev_data pe) + B <= FB.

(* the common part: the package of recover_core for the image *)
Lemma crash_at_setup st a o tick st' out :
  jstate P st -> crash_call_ok0 st a o tick st' out ->
  (forall e, out <> OutIo e) /\
  exists evs, c_ev (w_ctx (s_wr st')) = rev evs ++ c_ev (w_ctx (s_wr st)) /\
    forall cut k, crash_point_ok st (crash_events evs cut k) ->
      let img := fold_left apply_event (crash_events evs cut k) (c_fs (w_ctx (s_wr st))) in
      exists PRE OLD opos adm cmax rm lo' n base zz qs_log lo_log Glog,
        pre_ok PRE OLD opos /\ pre_cont P PRE (ser OLD) opos adm cmax rm /\ rm <= 7 /\
        (forall m, adm (m * NB P)) /\
        rc_hyps P PRE OLD opos adm rm img lo' n base zz qs_log lo_log Glog /\
        lo' + N.of_nat n = w_file (s_wr st) /\
        ((forall q, s_get (abs_qs qs_log) q = s_get (abs_qs (s_qs st)) q) \/
         (forall q, s_get (abs_qs qs_log) q = s_get (abs_qs (s_qs st')) q)).
Proof.
  intros (PRE0 & OLD0 & opos0 & adm0 & cmax0 & rm0 & G & Hpre0 & Hpc0 & Hrm0 & Hadm0 & HI & Hroom0)
         (Hp0 & Hpol & Hop & Hb1 & Hb2 & Hstep).
  pose proof HI as (HP & HL).
  pose proof (crash_phys_bound_ghostJ P HBS_lo HBS_hi HNB Hcrc PRE0 OLD0 opos0 _ G _ _ HP Hb1) as Hc1.
  pose proof (crash_phys_bound_ghostJ P HBS_lo HBS_hi HNB Hcrc PRE0 OLD0 opos0 _ G _ _ HP Hb2) as Hc2.
  assert (Hsb : stream_boundJ P PRE0 OLD0 G (map snd (step_log P st o)))
    by (eapply crash_boundJ_stream_boundJ; eassumption).
  pose proof (stepJ_no_io P HBS_lo HBS_hi HNB Hcrc HGC PRE0 OLD0 opos0 Hpre0 st G o tick HI Hop Hsb) as Hno.
  rewrite Hstep in Hno. cbn [snd] in Hno.
  split; [exact Hno|].
  destruct (invJ_step P HBS_lo HBS_hi HNB Hcrc HGC PRE0 OLD0 opos0 Hpre0 st G o tick st' out HI Hop Hsb Hstep Hno)
    as (G' & HI' & Eb & Ed & Elog).
  destruct (pinvJ_step_call_trace P HBS_lo HBS_hi HNB Hcrc HGC PRE0 OLD0 opos0 st G a o tick st' out
              HP Hp0 Hpol Hsb Hstep Hno) as (evs & Hev & Hfs & Hct & Hp0').
  cbn zeta in *.
  set (X := map snd (step_log P st o)) in *.
  assert (EALL' : gh_ALL G' = gh_ALL G ++ X).
  { unfold gh_ALL. rewrite Ed, Elog, map_app, app_assoc. reflexivity. }
  assert (HwfX : Forall wf_entry X).
  { pose proof (step_log_wf P st o (proj1 HL) (op_wf_strict_wf _ _ Hop)) as Hlw.
    unfold X. apply Forall_map. exact Hlw. }
  assert (Hnilabs : X = [] -> forall q, s_get (abs_qs (s_qs st')) q = s_get (abs_qs (s_qs st)) q).
  { intros E0 q. pose proof (LInv_nodup _ _ _ HL) as Hndn.
    pose proof (step_replay P st o tick Hndn) as Hrep. rewrite Hstep in Hrep. cbn [fst snd] in Hrep.
    specialize (Hrep Hno).
    assert (El : step_log P st o = []) by (apply map_eq_nil with (f := snd); exact E0).
    rewrite El in Hrep. cbn [replay_entries] in Hrep. injection Hrep as <-. reflexivity. }
  exists evs. split; [exact Hev|]. intros cut k (Hnc1 & Hfit1). cbn zeta.
  destruct (recover_vcall_setup_at P HBS_lo HBS_hi HNB Hcrc Hnc PRE0 OLD0 opos0 adm0 cmax0 rm0
              Hpre0 Hpc0 Hrm0 Hadm0 st G X st' G' evs HI Hp0 HI' Eb EALL' Hp0' HwfX Hct Hfs
              (call_prefix_linvJ P HBS_lo HBS_hi HNB Hcrc HGC PRE0 OLD0 opos0 Hpre0 st G o tick st' out
                 HI Hop Hsb Hstep Hno)
              Hnilabs Hc1 Hc2 (crash_events evs cut k) (crash_events_cpre evs cut k) Hnc1 Hfit1)
    as (PRE & OLD & opos & adm & cmax & rm & lo' & n & zz & qs_log & lo_log & Glog &
        Hpre & Hpc & Hrm & Hadm & Hrc & Ehi & Habs).
  exists PRE, OLD, opos, adm, cmax, rm, lo', n, (gh_base G), zz, qs_log, lo_log, Glog.
  repeat (split; [assumption|]). exact Habs.
Qed.

Theorem jstate_crash_at st a o tick st' out :
  jstate P st -> crash_call_ok0 st a o tick st' out ->
  (forall e, out <> OutIo e) /\
  exists evs, c_ev (w_ctx (s_wr st')) = rev evs ++ c_ev (w_ctx (s_wr st)) /\
    forall cut k pol hint, crash_point_ok st (crash_events evs cut k) ->
      let img := fold_left apply_event (crash_events evs cut k) (c_fs (w_ctx (s_wr st))) in
      exists st_r, open P img None pol hint = OpenOk st_r /\ jstate P st_r /\
        s_pol st_r = pol /\ w_pending (s_wr st_r) = [] /\
        ((forall q, s_get (abs_qs (s_qs st_r)) q = s_get (abs_qs (s_qs st)) q) \/
         (forall q, s_get (abs_qs (s_qs st_r)) q = s_get (abs_qs (s_qs st')) q)).
Proof.
  intros Hj Hcc. destruct (crash_at_setup st a o tick st' out Hj Hcc) as (Hno & evs & Hev & Hall).
  split; [exact Hno|]. exists evs. split; [exact Hev|]. intros cut k pol hint Hpt. cbn zeta.
  destruct (Hall cut k Hpt)
    as (PRE & OLD & opos & adm & cmax & rm & lo' & n & base & zz & qs_log & lo_log & Glog &
        Hpre & Hpc & Hrm & Hadm & Hrc & Ehi & Habs).
  cbn zeta in Hrc.
  pose proof (pre_reads_of_cont P HBS_lo HBS_hi Hcrc PRE (ser OLD) opos adm cmax rm Hpc) as Hrd.
  destruct (recover_core_pk P HBS_lo HBS_hi HNB Hcrc HGC HIO HSHORT PRE OLD opos adm cmax rm _ lo' n
              base zz qs_log lo_log Glog pol hint Hpre Hrd Hrc)
    as (st_r & G_r & Hopen & HIr & Habsr & Ebr & Hfr & Hpolr & Hpendr).
  pose proof Hrc as (_ & _ & Hbase3 & _ & _ & _ & _ & _ & HlenS & _ & Hroom & _ & _ & _ & _ & _ & Eblog & _).
  cbv zeta in HlenS, Hroom, Hbase3.
  exists st_r. split; [exact Hopen|]. split.
  { exists PRE, OLD, opos, adm, cmax, rm, G_r.
    split; [exact Hpre|]. split; [exact Hpc|]. split; [exact Hrm|]. split; [exact Hadm|].
    split; [exact HIr|]. rewrite Ebr, Eblog. rewrite HlenS in Hroom.
    assert ((lo' + N.of_nat n - base + 1) * FB <= (w_file (s_wr st_r) + 1 - base) * FB)
      by (apply N.mul_le_mono_r; lia).
    lia. }
  split; [exact Hpolr|]. split; [exact Hpendr|].
  destruct Habs as [Ha|Ha]; [left|right]; intros q; now rewrite Habsr, Ha.
Qed.

(* a crash during the recovery of such an image *)
Theorem jstate_crash_self_at st a o tick st' out :
  jstate P st -> crash_call_ok0 st a o tick st' out ->
  exists evs, c_ev (w_ctx (s_wr st')) = rev evs ++ c_ev (w_ctx (s_wr st)) /\
    forall cut k pol hint st_r, crash_point_ok st (crash_events evs cut k) ->
      let img := fold_left apply_event (crash_events evs cut k) (c_fs (w_ctx (s_wr st))) in
      open P img None pol hint = OpenOk st_r ->
      w_file (s_wr st_r) = w_file (s_wr st) -> w_off (s_wr st_r) + B <= FB -> rec_bound P st_r ->
      forall cut2 k2 pol3 hint3,
        exists st_r2,
          open P (fold_left apply_event (crash_events (rev (c_ev (w_ctx (s_wr st_r)))) cut2 k2) img)
               None pol3 hint3 = OpenOk st_r2 /\
          (forall q, s_get (abs_qs (s_qs st_r2)) q = s_get (abs_qs (s_qs st_r)) q) /\
          jstate P st_r2 /\ s_pol st_r2 = pol3 /\ w_pending (s_wr st_r2) = [].
Proof.
  intros Hj Hcc. destruct (crash_at_setup st a o tick st' out Hj Hcc) as (Hno & evs & Hev & Hall).
  exists evs. split; [exact Hev|]. intros cut k pol hint st_r Hpt. cbn zeta.
  intros Hopen Hrollr Hblkr Hrb cut2 k2 pol3 hint3.
  destruct (Hall cut k Hpt)
    as (PRE & OLD & opos & adm & cmax & rm & lo' & n & base & zz & qs_log & lo_log & Glog &
        Hpre & Hpc & Hrm & Hadm & Hrc & Ehi & Habs).
  cbn zeta in Hrc.
  destruct (recover_self P HBS_lo HBS_hi HNB Hcrc HGC HIO HSHORT Hnc PRE OLD opos adm cmax rm _ lo' n
              base zz qs_log lo_log Glog pol hint st_r Hpre Hpc Hrm Hadm Hrc Hopen
              ltac:(rewrite Ehi; exact Hrollr) Hblkr Hrb)
    as (_ & _ & Hall2).
  destruct (Hall2 (crash_events (rev (c_ev (w_ctx (s_wr st_r)))) cut2 k2)
              (crash_events_cpre _ cut2 k2) pol3 hint3)
    as (st_r2 & Ho2 & Habs2 & Hrec2 & Hpol2 & Hpend2).
  exists st_r2. split; [exact Ho2|]. split; [exact Habs2|]. split; [exact Hrec2|].
  split; [exact Hpol2|exact Hpend2].
Qed.

(* ---------- whole histories ---------- *)
Fixpoint chist_ok_at (st : state) (h : list (chop)) : Prop :=
  match h with
  | [] => True
  | CCall o tick :: r =>
      op_wf_strict (s_qs st) o /\
      phys_bound P (s_wr st) (map snd (step_log P st o)) /\
      chist_ok_at (fst (step P st o tick)) r
  | CRestart pol hint :: r =>
      restart_bound P st /\
      match restart P st pol hint with OpenOk st' => chist_ok_at st' r | _ => True end
  | CCrash o tick cut k pol hint :: r =>
      (exists a, crash_call_ok0 st a o tick (fst (step P st o tick)) (snd (step P st o tick))) /\
      crash_point_ok st (crash_events (new_evs st (fst (step P st o tick))) cut k) /\
      match open P (crash_img P st o tick cut k) None pol hint with
      | OpenOk st' => chist_ok_at st' r
      | _ => True
      end
  end.

Theorem crash_histories_at h : forall st,
  jstate P st -> chist_ok_at st h ->
  exists st' m',
    crun P st h = Some st' /\ jstate P st' /\
    chist_spec (abs_qs (s_qs st)) h m' /\
    forall q, s_get m' q = s_get (abs_qs (s_qs st')) q.
Proof.
  induction h as [|[o tick|pol hint|o tick cut k pol hint] r IH]; intros st Hj Hok.
  - exists st, (abs_qs (s_qs st)). split; [reflexivity|]. split; [exact Hj|]. split; [constructor|auto].
  - cbn [chist_ok_at] in Hok. destruct Hok as (Hop & Hb & Hok). cbn [crun].
    destruct (jstate_call P HBS_lo HBS_hi HNB Hcrc HGC HIO HSHORT st o tick Hj Hop Hb) as (Hj1 & Ha1).
    destruct (IH _ Hj1 Hok) as (st' & m' & Hr & Hj' & Hs & Hm).
    destruct (chist_spec_ext r _ _ m' (fun q => eq_sym (Ha1 q)) Hs) as (m'' & Hs' & Hm'').
    exists st', m''. split; [exact Hr|]. split; [exact Hj'|]. split; [now constructor|].
    intros q. now rewrite Hm''.
  - cbn [chist_ok_at] in Hok. destruct Hok as (Hb & Hok). cbn [crun].
    destruct (jstate_restart_identity P HBS_lo HBS_hi HNB Hcrc HGC HIO HSHORT st Hj Hb pol hint)
      as (st1 & Eo & Hj1 & _ & _ & Ha1).
    rewrite Eo in *.
    destruct (IH _ Hj1 Hok) as (st' & m' & Hr & Hj' & Hs & Hm).
    destruct (chist_spec_ext r _ _ m' Ha1 Hs) as (m'' & Hs' & Hm'').
    exists st', m''. split; [exact Hr|]. split; [exact Hj'|]. split; [now constructor|].
    intros q. now rewrite Hm''.
  - cbn [chist_ok_at] in Hok. destruct Hok as ((a & Hcc) & Hpt & Hok). cbn [crun].
    destruct (step P st o tick) as [s1 out] eqn:Es. cbn [fst snd] in Hcc, Hpt.
    destruct (jstate_crash_at st a o tick s1 out Hj Hcc) as (Hno & evs & Hev & Hall).
    rewrite (new_evs_spec st s1 evs Hev) in Hpt.
    assert (Eimg : crash_img P st o tick cut k =
                   fold_left apply_event (crash_events evs cut k) (c_fs (w_ctx (s_wr st)))).
    { unfold crash_img. rewrite Es. cbn [fst]. now rewrite (new_evs_spec st s1 evs Hev). }
    rewrite Eimg in *.
    destruct (Hall cut k pol hint Hpt) as (st_r & Ho & Hjr & _ & _ & Habs). cbn zeta in Ho.
    rewrite Ho in *.
    destruct (IH _ Hjr Hok) as (st' & m' & Hr & Hj' & Hs & Hm).
    destruct Habs as [Ha|Ha].
    + destruct (chist_spec_ext r _ _ m' Ha Hs) as (m'' & Hs' & Hm'').
      exists st', m''. split; [exact Hr|]. split; [exact Hj'|]. split; [now apply cs_crash_before|].
      intros q. now rewrite Hm''.
    + pose proof (step_refines P st o tick (jstate_qs_inv P st Hj)) as Href. rewrite Es in Href.
      destruct Href as (_ & Href).
      destruct (no_io_logical out ltac:(intros e0 He0; exact (Hno e0 He0))) as (so & Eso).
      specialize (Href so Eso).
      assert (Ha' : forall q, s_get (abs_qs (s_qs st_r)) q =
                              s_get (fst (s_step (abs_qs (s_qs st)) (sop_of o))) q).
      { intros q. rewrite Ha, Href. reflexivity. }
      destruct (chist_spec_ext r _ _ m' Ha' Hs) as (m'' & Hs' & Hm'').
      exists st', m''. split; [exact Hr|]. split; [exact Hj'|]. split; [now apply cs_crash_after|].
      intros q. now rewrite Hm''.
Qed.

End At.

Print Assumptions jstate_crash_at.
Print Assumptions jstate_crash_self_at.
Print Assumptions crash_histories_at.
