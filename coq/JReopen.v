(* JReopen.v — TASK T14, stage 2: restart (open) of a state that satisfies the junk-tolerant
   invariant InvJ, and histories with restarts.

   0. open_of_trace_x: TornFile.open_of_trace with one more fact about the writer made of the
      final reader (w_off w0 = FILE only if the reader's cursor is at the very end of a block).
   1. the delivered list of a reader started at the first kept file, as a split of jpos.
   2. pinvJ_reopen: the physical half for the writer made by open.
   3. invJ_reopen: reopening the directory left by an InvJ state.
   4. hrunJ_inv, invJ_restart_identity: histories with restarts from an InvJ state. *)
From Coq Require Import Lia ZArith ZifyN ZifyNat ZifyBool List Sorted.
From MRL Require Import Bytes BytesProofs Params Names NamesProofs Frame Record Mem Spec Rolling Log
  Driver Hist NoopProofs SpecRefine RecordProofs StreamProofs DamageProofs TornProofs PolicyProofs
  GcProofs GhostLog ReplaySpec HandleProofs FileStream ResyncProofs QueueIso OpenTerm
  RestartInv RestartWrite RestartGc RestartStep OpenReplay RestartFinal TornFile JunkStream
  JInv JGc JStep.

Arguments N.add : simpl never.
Arguments N.sub : simpl never.
Arguments N.mul : simpl never.
Arguments N.eqb : simpl never.
Arguments N.ltb : simpl never.
Arguments N.leb : simpl never.
Arguments N.div : simpl never.
Arguments N.modulo : simpl never.
Arguments N.min : simpl never.
Arguments N.max : simpl never.
Arguments N.pow : simpl never.

(* ====================================================================== *)
(* 0. the writer made of the final reader, with its cursor                 *)
(* ====================================================================== *)
Section TraceX.
Variable P : params.
Hypothesis HBS_lo : 7 < BS P.
Hypothesis HBS_hi : BS P <= 65542.
Hypothesis HNB : 1 <= NB P.
Hypothesis Hcrc : forall t p, crcf P t p < 2 ^ 32.
Local Notation B := (BS P).
Local Notation FB := (FILE_BYTES P).
Local Notation ffp := (first_frame_pos P).
Local Notation readsC := (reads_trc P (vr_next P) vr_block).
Local Notation readsFc := (reads_trc P (rd_next P) rd_block).
Local Notation H3 f := (f P HBS_lo HBS_hi Hcrc) (only parsing).
Local Notation H2 f := (f P HBS_lo HBS_hi) (only parsing).
Local Notation HN f := (f P HBS_lo HBS_hi HNB) (only parsing).

Variable fs : fsT.
Variable lo : N.
Variable n : nat.
Local Notation files := (iota lo (Datatypes.S n)).
Local Notation cur := (lo + N.of_nat n).
Hypothesis Hfull : forall f, In f files ->
  exists b, fs_get fs (filename f) = Some (FFile b) /\ lenN b = FB.

Local Notation St := (stream_of fs files).
Local Notation rsim := (rd_rel P fs files).
Local Notation rrsim := (rr_sim rreaderS vecr rsim).
Local Notation HD f := (f P HBS_lo HBS_hi HNB fs lo n Hfull) (only parsing).

Variables (base : N) (S_all : bytes).
Hypothesis Hbase : base <= lo.
Hypothesis HSt : St = dropN ((lo - base) * FB) S_all.
Hypothesis HlenS : lenN S_all = (cur - base + 1) * FB.

Local Notation b := ((lo - base) * FB).
Local Notation kb := ((lo - base) * NB P).
Local Notation fspec := (fspec P lo n base).

(* the proof of TornFile.files_of_trace, keeping the relation between the offset of the writer
   and the cursor of the final (stream) reader *)
Lemma files_of_trace_x g rd rrs ds sts c rrfV pf :
  rsim rd (vec_at P fs files 0) ->
  length rrs = length ds ->
  readsC g (mkRR (rd_at P S_all kb 0) [] false) (combine rrs ds) c rrfV ->
  tr_ok P S_all rrs sts -> fin_at P S_all (rr_fr rrfV) pf ->
  exists lF rrfF,
    readsFc g (rr_open rreaderS rd) lF c rrfF /\
    map snd lF = ds /\
    fspec fs (rd_into_writer P (fr_rd (rr_fr rrfF)) (fr_cursor (rr_fr rrfF))) (tags_of lF) sts pf /\
    (w_off (rd_into_writer P (fr_rd (rr_fr rrfF)) (fr_cursor (rr_fr rrfF))) = FB ->
     fr_cursor (rr_fr rrfV) = B).
Proof.
  intros Hrel Hlen HrdV Htr Hfinat.
  assert (Hkb : kb * B = b) by (rewrite (HN FB_eq); lia).
  assert (HlenSt : lenN St + kb * B = lenN S_all).
  { rewrite (HD lenN_St), HlenS, Hkb.
    replace (lo + N.of_nat n - base + 1) with ((N.of_nat n + 1) + (lo - base)) by lia. lia. }
  assert (HFB : B <= FB) by (rewrite (HN FB_eq); nia).
  assert (Hblk : (kb + 1) * B <= lenN S_all).
  { rewrite <- HlenSt, (HD lenN_St). nia. }
  pose proof (rr_open_sim rreaderS vecr rsim rd _ Hrel) as Hsim0.
  assert (Hstart : rr_open vecr (vec_at P fs files 0) = mkRR (rd_at P S_all kb 0) [] false).
  { unfold rr_open, fr_open. f_equal.
    change (mkFR (vec_at P fs files 0) 0 false) with (rd_at P St 0 0).
    rewrite HSt. rewrite <- Hkb, (rd_at_drop P HBS_lo HBS_hi HNB Hcrc). f_equal. lia. }
  rewrite Hstart in Hsim0.
  destruct (HD reads_trc_FV g _ _ _ _ HrdV _ Hsim0) as (lF & rrfF & HrdF & Hall & Hfin).
  pose proof (OpenReplay.Forall2_length' _ _ _ Hall) as HlenF.
  rewrite combine_length, Hlen, Nat.min_id in HlenF.
  pose proof (OpenReplay.Forall2_length' _ _ _ Htr) as HlenT.
  exists lF, rrfF. split; [exact HrdF|].
  split.
  { rewrite <- (map_snd_combine rrs ds) by exact Hlen.
    apply (map_snd_Forall2 _ _ _ Hall). }
  unfold TornFile.fspec.
  set (w0 := rd_into_writer P (fr_rd (rr_fr rrfF)) (fr_cursor (rr_fr rrfF))).
  destruct (reads_trc_rest P HBS_lo HBS_hi g _ _ _ _ HrdV) as (Hrest_fin & Hrest_all & Hrest_sorted).
  destruct Hfinat as (k & c1 & fl & Hfr & Hkblk & Hc & Hpf).
  (* the final reader *)
  assert (Hkk : kb <= k).
  { cbn [rr_fr] in Hrest_fin. rewrite Hfr in Hrest_fin. unfold rd_at, rd_of in Hrest_fin.
    cbn [fr_rd vr_rest] in Hrest_fin. rewrite !lenN_dropN in Hrest_fin.
    apply (H2 TornProofs.mulB_le_inv). lia. }
  pose proof Hfin as Hfin0.
  destruct Hfin as ((Hrfin & Hcur & _) & _ & _).
  destruct (HD rd_rel_idx _ _ Hrfin) as (Hcok & Hfl & i & j & Hfile & Hi & Hj & Hid & Hl).
  rewrite Hfr in Hl, Hcur. unfold rd_of in Hl. cbn [fr_rd vr_rest fr_cursor] in Hl, Hcur.
  rewrite lenN_dropN in Hl.
  assert (Hk : k = kb + i * NB P + j).
  { assert (E : k * B = (kb + i * NB P + j) * B) by lia.
    apply N.mul_cancel_r in E; lia. }
  assert (Hwfile : w_file w0 = lo + i) by exact Hfile.
  assert (Hwoff : w_off w0 = j * B + c1).
  { unfold w0, rd_into_writer. cbn [w_off]. rewrite Hid, Hcur. reflexivity. }
  assert (Hpos : (w_file w0 - base) * FB + w_off w0 = k * B + c1).
  { rewrite Hwfile, Hwoff, Hk. replace (lo + i - base) with ((lo - base) + i) by lia.
    rewrite (HN FB_eq). lia. }
  split.
  2:{ rewrite Hwoff, Hfr. cbn [fr_cursor]. rewrite (HN FB_eq). intros E.
      assert ((j + 1) * B <= NB P * B) by (apply N.mul_le_mono_r; lia). lia. }
  split; [rewrite tags_of_length, HlenF, <- Hlen; exact HlenT|].
  split.
  { apply Forall2_map_l'.
    eapply Forall2_trans'; [|exact Hall|apply Forall2_combine_l; [|exact Htr]].
    - cbn beta. intros x y s [Hxy _] Hys.
      pose proof (sim_tag_bpos P HBS_lo HBS_hi HNB Hcrc fs lo n Hfull S_all base kb _ _ Hxy Hbase Hkb HlenSt).
      lia.
    - exact Hlen. }
  split.
  { apply StronglySorted_map.
    eapply StronglySorted_Forall2; [|exact Hall|exact Hrest_sorted].
    cbn beta. intros x y x' y' [Hxy _] [Hxy' _] Hle. eapply (HD sim_tag_le); eassumption. }
  split.
  { apply Forall_map.
    eapply Forall2_Forall_l; [|exact Hall|exact Hrest_all].
    cbn beta. intros x y [Hxy _] [_ Hle]. split.
    - apply (HD sim_tag_lo _ _ Hxy).
    - change (w_file w0) with (tag_of rrfF).
      eapply (HD sim_tag_le); [exact Hxy|exact Hfin0|exact Hle]. }
  split; [exact Hfl|]. split; [lia|]. split; [lia|].
  split.
  { rewrite Hwoff, (HN FB_eq).
    assert ((j + 1) * B <= NB P * B) by (apply N.mul_le_mono_r; lia). lia. }
  split; [lia|].
  split; [reflexivity|]. destruct Hcok as [Hcfs Hcplan].
  split; [exact Hcfs | exact Hcplan].
Qed.

Lemma open_of_trace_x F fs0 c0 rd rrs ds sts c rrfV pf Ds pol hint :
  L_IO P = false ->
  rd_open P (ctx_init fs0 None) = (c0, Ok rd) -> rsim rd (vec_at P fs files 0) ->
  length rrs = length ds ->
  readsC F (mkRR (rd_at P S_all kb 0) [] false) (combine rrs ds) c rrfV ->
  tr_ok P S_all rrs sts -> fin_at P S_all (rr_fr rrfV) pf ->
  ds = map entry_ser Ds -> Forall wf_entry Ds -> (length ds + c < F)%nat ->
  exists w0 tags,
    fspec fs w0 tags sts pf /\ (w_off w0 = FB -> fr_cursor (rr_fr rrfV) = B) /\
    match replay_entries [] (combine tags Ds) with
    | Some qs => open P fs0 None pol hint = open_finish P w0 qs pol hint
    | None => exists c', open P fs0 None pol hint = OpenCorruption c'
    end.
Proof.
  intros Hio Hopen Hrel Hlen HrdV Htr Hfinat Hds Hwf HF.
  destruct (files_of_trace_x F rd rrs ds sts c rrfV pf Hrel Hlen HrdV Htr Hfinat)
    as (lF & rrfF & HrdF & Hsnd & Hspec & Hx).
  set (w0 := rd_into_writer P (fr_rd (rr_fr rrfF)) (fr_cursor (rr_fr rrfF))) in *.
  exists w0, (tags_of lF). split; [exact Hspec|]. split; [exact Hx|].
  assert (Hdeser : Forall2 (fun x e0 => entry_deser (snd x) = Some e0) lF Ds).
  { apply deser_of_map_snd; [rewrite Hsnd; exact Hds | exact Hwf]. }
  assert (HlF : length lF = length ds) by (rewrite <- Hsnd, map_length; reflexivity).
  pose proof (replay_loop_fold_c P F _ _ _ _ HrdF Ds Hdeser F [] ltac:(lia)) as Hfold.
  destruct (replay_entries [] (combine (tags_of lF) Ds)) as [qs|].
  - apply (HD open_fuel_elim F); [exact Hio | | apply open_finish_not_fuel].
    unfold open_with. rewrite Hopen, Hfold. reflexivity.
  - destruct Hfold as [rr' Hfold]. exists (reader_ctx rr').
    apply (HD open_fuel_elim F); [exact Hio | | discriminate].
    unfold open_with. rewrite Hopen, Hfold. reflexivity.
Qed.

End TraceX.

(* ====================================================================== *)
(* the end of the log, with the cursor of the final reader                 *)
(* ====================================================================== *)
Section EndX.
Variable P : params.
Hypothesis HBS_lo : 7 < BS P.
Hypothesis HBS_hi : BS P <= 65542.
Local Notation B := (BS P).
Local Notation ffp := (first_frame_pos P).

(* TornFile.at_end_fin, keeping the case distinction of at_end *)
Lemma at_end_fin_x (S : bytes) fr e :
  at_end P S fr e ->
  exists pf, fin_at P S fr pf /\ e <= pf /\ pf <= ffp e /\
    ((pf = ffp e /\ fr_cursor fr + 7 <= B) \/
     (pf = e /\ exists k c, pf = k * B + c /\ B < c + 7 /\ lenN S < (k + 2) * B)).
Proof.
  intros (k & c & -> & Hblk & Hc & Hcase).
  exists (k * B + c).
  pose proof (ffp_ge P HBS_lo HBS_hi e) as Hge.
  split; [exists k, c, false; repeat split; assumption|].
  destruct Hcase as [[Hp Hc7] | (Hp & Hc7 & Hlast)].
  - split; [lia|]. split; [lia|]. left. split; [exact Hp|].
    cbn [StreamProofs.rd_at fr_cursor]. exact Hc7.
  - split; [lia|]. split; [lia|]. right. split; [exact Hp|]. exists k, c. repeat split; assumption.
Qed.
End EndX.

Section JReopen.
Variable P : params.
Hypothesis HBS_lo : 7 < BS P.
Hypothesis HBS_hi : BS P <= 65542.
Hypothesis HNB : 1 <= NB P.
Hypothesis Hcrc : forall t p, crcf P t p < 2 ^ 32.
Hypothesis HGC : L_GC P = false.
Hypothesis HIO : L_IO P = false.
Hypothesis HSHORT : L_SHORT P = false.
Variable PRE : bytes.
Variable OLD : list entry.
Variable opos : list (N * N).
Variable adm : N -> Prop.
Variable cmax : nat.
Variable rm : N.
Hypothesis Hpre : pre_ok PRE OLD opos.
Hypothesis Hrd : pre_reads P PRE (map entry_ser OLD) opos adm cmax rm.
Hypothesis Hadm : forall m, adm (m * NB P).

Local Notation B := (BS P).
Local Notation FB := (FILE_BYTES P).
Local Notation ffp := (first_frame_pos P).
Local Notation enc_of := (enc_of P).
Local Notation encs_of := (encs_of P).
Local Notation cursor_after := (cursor_after P).
Local Notation starts := (starts P).
Local Notation H3 f := (f P HBS_lo HBS_hi Hcrc) (only parsing).
Local Notation H2 f := (f P HBS_lo HBS_hi) (only parsing).
Local Notation HW f := (f P HBS_lo HBS_hi HNB Hcrc) (only parsing).
Local Notation HN f := (f P HBS_lo HBS_hi HNB) (only parsing).
Local Notation HG f := (f P HBS_lo HBS_hi HNB Hcrc HGC) (only parsing).
Local Notation HJ f := (f P HBS_lo HBS_hi HNB Hcrc HGC PRE OLD opos Hpre) (only parsing).
Local Notation PInvJ := (PInvJ P PRE OLD opos).
Local Notation InvJ := (InvJ P PRE OLD opos).
Local Notation stream_boundJ := (stream_boundJ P PRE OLD).
Local Notation jT := (jT P PRE OLD).
Local Notation jpos := (jpos P PRE OLD opos).
Local Notation jser := (jser OLD).
Local Notation jNEW := (jNEW OLD).

(* ====================================================================== *)
(* 1. the delivered list                                                  *)
(* ====================================================================== *)

(* the ghost lists of the re-chosen ghost *)
Lemma jT_reopen G tags : length tags = length (gh_E G) -> jT (gh_reopen G tags) = jT G.
Proof. intros H. unfold JInv.jT, JInv.jser, JInv.jNEW. now rewrite (gh_reopen_ALL G tags H). Qed.

Lemma jpos_reopen G tags : length tags = length (gh_E G) -> jpos (gh_reopen G tags) = jpos G.
Proof. intros H. unfold JInv.jpos, JInv.jser, JInv.jNEW. now rewrite (gh_reopen_ALL G tags H). Qed.

Lemma jNEW_reopen G tags : length tags = length (gh_E G) -> jNEW (gh_reopen G tags) = jNEW G.
Proof. intros H. unfold JInv.jNEW. now rewrite (gh_reopen_ALL G tags H). Qed.

(* what a reader started at the first kept file delivers: exactly the entries of E, at the
   positions jpos from index gh_k on *)
Lemma jdelivered w G :
  PInvJ w G ->
  dfilter ((wlo w - gh_base G) * FB) (map entry_ser OLD ++ jser G)
          (opos ++ starts (lenN PRE) (jser G)) =
  combine (gh_ser_E G) (skipn (gh_k G) (jpos G)) /\
  length (gh_ser_E G) = length (skipn (gh_k G) (jpos G)).
Proof.
  clear Hrd Hadm. clear adm cmax rm.
  intros HPJ.
  pose proof (HW jpos_length PRE OLD opos w G Hpre HPJ) as Hjl.
  pose proof (jALL_split P PRE OLD opos w G HPJ) as Hall.
  destruct HPJ as (_ & _ & _ & _ & _ & _ & _ & _ & _ & HD1 & HD2 & _). cbn zeta in *.
  fold (jpos G).
  assert (Es : map entry_ser OLD ++ jser G = map entry_ser (gh_before G) ++ gh_ser_E G).
  { unfold JInv.jser. rewrite <- map_app, <- Hall, gh_ALL_split, map_app. reflexivity. }
  assert (Hk : (gh_k G <= length (gh_ALL G))%nat).
  { rewrite gh_ALL_split, app_length, gh_before_length. lia. }
  assert (Hlen2 : length (gh_ser_E G) = length (skipn (gh_k G) (jpos G))).
  { rewrite skipn_length, Hjl. unfold gh_ser_E. rewrite !map_length.
    rewrite gh_ALL_split, app_length, gh_before_length, map_length. lia. }
  split; [|exact Hlen2].
  rewrite Es. rewrite <- (firstn_skipn (gh_k G) (jpos G)) at 1.
  rewrite dfilter_app.
  2:{ rewrite map_length, gh_before_length, firstn_length. lia. }
  rewrite (H3 dfilter_none _ _ _ HD1). cbn [app]. apply (H3 dfilter_all).
  clear - HD2. induction HD2 as [|x y l1 l2 [Hxy _] _ IH]; constructor; assumption.
Qed.

(* ====================================================================== *)
(* 2. the physical half: the writer made by open                          *)
(* ====================================================================== *)
Lemma HB0x : 0 < B. Proof. lia. Qed.

Lemma pinvJ_reopen w G w0 tags n pf :
  PInvJ w G -> w_files w = iota (wlo w) (S n) -> w_file w = wlo w + N.of_nat n ->
  fspec P (wlo w) n (gh_base G) (vfs w) w0 tags (skipn (gh_k G) (jpos G)) pf ->
  N.max ((wlo w - gh_base G) * FB) (lenN (jT G)) <= pf ->
  pf <= ffp (N.max ((wlo w - gh_base G) * FB) (lenN (jT G))) ->
  ((pf = ffp (N.max ((wlo w - gh_base G) * FB) (lenN (jT G))) /\ w_off w0 < FB) \/
   (pf = N.max ((wlo w - gh_base G) * FB) (lenN (jT G)) /\
    exists k c, pf = k * B + c /\ B < c + 7 /\
                (wlo w + N.of_nat n - gh_base G + 1) * FB < (k + 2) * B)) ->
  length tags = length (gh_E G) /\ Forall (fun f => wlo w <= f) tags /\
  wlo w0 = wlo w /\ w_file w0 = w_file w /\ PInvJ w0 (gh_reopen G tags).
Proof.
  clear Hrd Hadm. clear adm cmax rm.
  intros HP Hfiles Hwf_w Hspec He1 He2 Hx.
  destruct HP as (Hw & Hwd & Hnd & Hbase & Hc1 & Hc2 & Hs & HWf & Hold & HD1 & HD2 & Htags).
  cbn zeta in *.
  destruct Hspec as (Hlen & HF2 & Hsorted & Hrange & Hfl & Hlo & Hcur & Hoff0 & Hpos & Hpend & Hfs & Hplan).
  assert (Hlen' : length tags = length (gh_E G)).
  { rewrite Hlen. symmetry. exact (RestartInv.Forall2_length' _ _ _ HD2). }
  pose proof Hw as (Hok & Hwf & Hoff & Hpl & Hu & Hfull & Hfresh).
  assert (Hnf : lenN (w_files w) = N.of_nat n + 1) by (rewrite Hfiles, lenN_iota; lia).
  assert (Hnf0 : lenN (w_files w0) = N.of_nat n + 1) by (rewrite Hfl, lenN_iota; lia).
  set (lo := wlo w) in *. set (base := gh_base G) in *. set (dl := lo - base) in *.
  set (T := jT G) in *. set (a := lenN T) in *.
  assert (Hwpos : wpos P w = N.of_nat n * FB + w_off w).
  { unfold wpos. rewrite Hnf. f_equal. f_equal. lia. }
  rewrite Hwpos in Hc1, Hc2.
  set (e := N.max (dl * FB) a) in *.
  pose proof (H2 ffp_ge a) as Hge.
  assert (He_a : a <= e) by lia.
  assert (He_f : e <= ffp a) by lia.
  assert (Hffe : ffp e = ffp a) by (apply (H2 TornFile.ffp_between); assumption).
  assert (HFB : B <= FB) by (rewrite (HN FB_eq); nia).
  assert (Hf0 : w_file w0 = lo + N.of_nat n).
  { destruct (N.eq_dec (w_file w0) (lo + N.of_nat n)) as [E|Hne]; [exact E|exfalso].
    assert (Hm : (w_file w0 - base + 1) * FB <= (dl + N.of_nat n) * FB)
      by (apply N.mul_le_mono_r; lia).
    destruct Hx as [[Hpe Hlt] | (Hpe & k & c & Hkc & Hc7 & Hlast)].
    - lia.
    - rewrite (HN FB_eq) in Hlast.
      assert (Hk : (lo + N.of_nat n - base + 1) * NB P < k + 2).
      { apply (N.mul_lt_mono_pos_r B); lia. }
      assert (Hk' : (lo + N.of_nat n - base + 1) * NB P * B <= (k + 1) * B)
        by (apply N.mul_le_mono_r; lia).
      rewrite <- N.mul_assoc, <- (HN FB_eq) in Hk'.
      replace (lo + N.of_nat n - base + 1) with (dl + N.of_nat n + 1) in Hk' by lia.
      lia. }
  assert (Hposeq : pf = dl * FB + (N.of_nat n * FB + w_off w0)).
  { rewrite <- Hpos, Hf0. replace (lo + N.of_nat n - base) with (dl + N.of_nat n) by lia. lia. }
  assert (Hk1 : a <= dl * FB + (N.of_nat n * FB + w_off w0)) by lia.
  assert (Hk2 : dl * FB + (N.of_nat n * FB + w_off w0) <= ffp a) by lia.
  assert (Hfl' : w_files w0 = w_files w) by congruence.
  assert (Hfile' : w_file w0 = w_file w) by congruence.
  assert (Hv : vfs w0 = vfs w) by (rewrite vfs_nil; assumption).
  assert (Hok0 : wr_ok w0) by (eapply wr_ok_same; eassumption).
  assert (Hw0 : winv P w0).
  { split; [exact Hok0|]. split; [apply wf_nil; exact Hpend|]. split; [exact Hoff0|].
    split; [exact Hplan|]. split; [rewrite Hfile'; exact Hu|]. rewrite Hv, Hfl', Hfile'.
    split; assumption. }
  assert (Elo : wlo w0 = lo) by (unfold lo, wlo; now rewrite Hfl', Hfile').
  split; [exact Hlen'|]. split.
  { eapply Forall_impl; [|exact Hrange]. intros f [Hf _]. exact Hf. }
  split; [exact Elo|]. split; [exact Hfile'|].
  unfold JInv.PInvJ. cbn zeta.
  rewrite (jT_reopen G tags Hlen'), (jpos_reopen G tags Hlen'), (gh_reopen_ALL G tags Hlen'),
    (gh_reopen_k G tags), gh_reopen_log.
  change (gh_base (gh_reopen G tags)) with base.
  change (gh_E (gh_reopen G tags)) with (combine tags (map snd (gh_E G))).
  rewrite Elo. fold dl. fold T. fold a.
  split; [exact Hw0|].
  split.
  { (* the directory *)
    split; [exact Hok0|]. intros _. destruct Hwd as [_ Hdir].
    pose proof (flush_buf_dir w (wr_ok_cur_in w Hok) Hu (Hdir Hu)) as Hd.
    unfold dir_ok in *. destruct (flush_buf_tracker w) as [T1 _]. rewrite T1 in Hd.
    rewrite Hfs, Hfl'. exact Hd. }
  split.
  { unfold nd. rewrite Hfs. exact (flush_buf_nd w Hnd). }
  split; [exact Hbase|].
  assert (Hwpos0 : wpos P w0 = N.of_nat n * FB + w_off w0).
  { unfold wpos. rewrite Hnf0. f_equal. f_equal. lia. }
  rewrite Hwpos0.
  split; [exact Hk1|]. split; [exact Hk2|].
  split.
  { unfold wstream in *. rewrite Hv, Hfl'. exact Hs. }
  split; [exact HWf|]. split; [exact Hold|]. split; [exact HD1|].
  split.
  { assert (Hb : Forall (fun s => dl * FB <= snd s) (skipn (gh_k G) (jpos G))).
    { clear - HD2. induction HD2 as [|x y l1 l2 [Hxy _] _ IH]; constructor; assumption. }
    assert (H1 : Forall2 (fun (fe : N * entry) s => (fst fe - base) * FB <= snd s)
                   (combine tags (map snd (gh_E G))) (skipn (gh_k G) (jpos G))).
    { apply (Forall2_combine_l (fun f s => (f - base) * FB <= snd s)); [|exact HF2].
      now rewrite map_length. }
    pose proof (Forall2_Forall_r _ _ _ _ H1 Hb) as H12.
    eapply Forall2_impl'; [|exact H12]. cbn beta. intros fe s [Hx' Hy]. split; assumption. }
  apply tags_mono_combine.
  - now rewrite map_length.
  - exact Hsorted.
  - eapply Forall_impl; [|exact Hrange]. cbn beta. intros f [Hf1 Hf2]. fold lo in Hf1. lia.
  - rewrite Hfile'. lia.
Qed.


(* ====================================================================== *)
(* 3. reopening                                                           *)
(* ====================================================================== *)

(* the bound a restart needs: whatever position entries (for distinct empty queues) the
   recovery-time GC writes, the stream stays below 2^64 files *)
Definition reopen_boundJ (st : state) (G : ghost) : Prop :=
  forall extra, pos_extra (abs_qs (s_qs st)) extra -> stream_boundJ G extra.

Theorem invJ_reopen st G :
  InvJ st G -> reopen_boundJ st G ->
  lenN PRE + rm <= (w_file (s_wr st) + 1 - gh_base G) * FB ->
  forall pol hint, exists st' G',
    open P (c_fs (drop_log st)) None pol hint = OpenOk st' /\ InvJ st' G' /\
    (forall q, s_get (abs_qs (s_qs st')) q = s_get (abs_qs (s_qs st)) q) /\
    gh_base G' = gh_base G /\ s_pol st' = pol /\ w_file (s_wr st) <= w_file (s_wr st') /\
    (exists extra, gh_ALL G' = gh_ALL G ++ extra /\ pos_extra (abs_qs (s_qs st)) extra).
Proof.
  intros HI Hb Hroom pol hint. pose proof HI as (HP & HL).
  change (c_fs (drop_log st)) with (vfs (s_wr st)).
  set (w := s_wr st) in *.
  pose proof HP as (Hw & Hwd & Hnd & Hbase & Hc1 & Hc2 & Hs & HWf & _). cbn zeta in *.
  destruct (HN winv_files w Hw) as (n & Hfiles & Hfile).
  pose proof Hw as (Hok & _ & Hoff & _ & _ & Hfull & _).
  assert (Hnf : lenN (w_files w) = N.of_nat n + 1) by (rewrite Hfiles, lenN_iota; lia).
  assert (Hwpos : wpos P w = N.of_nat n * FB + w_off w).
  { unfold wpos. rewrite Hnf. f_equal. f_equal. lia. }
  rewrite Hwpos in Hc1, Hc2.
  set (lo := wlo w) in *. set (base := gh_base G) in *. set (dl := lo - base) in *.
  set (T := jT G) in *.
  set (z := (dl + lenN (w_files w)) * FB - lenN T) in *.
  set (t2 := encs_of (lenN PRE) (jser G)).
  assert (ET : T = PRE ++ t2) by reflexivity.
  set (Sall := T ++ zerosN z) in *.
  assert (Hfull' : forall f, In f (iota lo (Datatypes.S n)) ->
            exists b, fs_get (vfs w) (filename f) = Some (FFile b) /\ lenN b = FB).
  { rewrite <- Hfiles. exact Hfull. }
  assert (Hfiles' : forall f, In f (iota lo (Datatypes.S n)) ->
            exists b, fs_get (vfs w) (filename f) = Some (FFile b) /\ lenN b <= FB /\
                      (f <> lo + N.of_nat n -> lenN b = FB)).
  { intros f Hf. destruct (Hfull' f Hf) as (b & Hg & Hl). exists b. split; [exact Hg|].
    split; [lia|]. intros _. exact Hl. }
  assert (Hlist : list_wal_numbers (vfs w) = iota lo (Datatypes.S n)).
  { rewrite <- Hfiles. exact (listing_after P w Hw Hwd Hnd). }
  assert (HSt : stream_of (vfs w) (iota lo (Datatypes.S n)) = dropN (dl * FB) Sall).
  { rewrite <- Hfiles. exact Hs. }
  assert (HlenS : lenN Sall = (lo + N.of_nat n - base + 1) * FB).
  { unfold Sall. rewrite lenN_app, lenN_zerosN. unfold z. rewrite Hnf.
    replace (lo + N.of_nat n - base + 1) with (dl + (N.of_nat n + 1)) by lia.
    assert (lenN T <= (dl + (N.of_nat n + 1)) * FB) by lia. lia. }
  (* the directory needs no extension *)
  assert (Efs : fs_ext P (vfs w) lo n = vfs w).
  { apply (HW fs_ext_full (vfs w) lo n Hfiles').
    destruct (Hfull' (lo + N.of_nat n)) as (b & Hg & Hl); [apply iota_In; lia|].
    unfold fcontent. rewrite Hg. exact Hl. }
  destruct (HW rd_open_short (vfs w) lo n Hlist Hfiles' HSHORT) as (c0 & rd & Hopen & Hrel).
  rewrite Efs in Hrel.
  (* the reader *)
  assert (Hkb : dl * NB P * B = dl * FB) by (rewrite (HN FB_eq); lia).
  set (F := (N.to_nat (lenN Sall + 22) + length (gh_ALL G) + cmax)%nat).
  destruct (Hrd (dl * NB P) (jser G) t2 z Sall [] F) as (rrs & c & rrf & HD).
  { apply (H3 encs_of_rel). }
  { unfold Sall. rewrite ET, <- app_assoc. reflexivity. }
  { exact (HW sok_all (vfs w) lo n Hfiles' base Hbase Sall HlenS). }
  { exact (HW blk_all (vfs w) lo n Hfiles' base Hbase Sall HlenS). }
  { apply Hadm. }
  { rewrite HlenS. replace (lo + N.of_nat n - base + 1) with (w_file w + 1 - base) by lia.
    exact Hroom. }
  { unfold F. lia. }
  cbn zeta in HD. rewrite Hkb in HD.
  destruct (jdelivered w G HP) as (ED & EDl). fold lo base dl in ED.
  rewrite ED in HD. clear ED.
  set (ds := gh_ser_E G) in *. set (sts := skipn (gh_k G) (jpos G)) in *.
  rewrite (map_fst_combine ds sts EDl), (map_snd_combine ds sts EDl) in HD.
  rewrite combine_length, <- EDl, Nat.min_id in HD.
  destruct HD as (Hlrrs & HrdV & Hc & Htr & Hend).
  replace (lenN PRE + lenN t2) with (lenN T) in Hend by (rewrite ET, lenN_app; reflexivity).
  destruct (at_end_fin_x P HBS_lo HBS_hi Sall (rr_fr rrf) _ Hend) as (pf & Hfin & He1 & He2 & Hcase).
  assert (HWfE : Forall wf_entry (map snd (gh_E G))).
  { rewrite gh_ALL_split in HWf. apply Forall_app in HWf. apply HWf. }
  assert (HlE : (length ds <= length (gh_ALL G))%nat).
  { unfold ds, gh_ser_E. rewrite gh_ALL_split, app_length, !map_length. lia. }
  destruct (open_of_trace_x P HBS_lo HBS_hi HNB Hcrc (vfs w) lo n Hfull' base Sall Hbase HSt HlenS
              F (vfs w) c0 rd rrs ds sts c rrf pf (map snd (gh_E G)) pol hint
              HIO Hopen Hrel Hlrrs HrdV Htr Hfin eq_refl HWfE ltac:(unfold F; lia))
    as (w0 & tags & Hspec & Hxo & Hres).
  assert (Hx : (pf = ffp (N.max (dl * FB) (lenN T)) /\ w_off w0 < FB) \/
               (pf = N.max (dl * FB) (lenN T) /\
                exists k c, pf = k * B + c /\ B < c + 7 /\
                            (lo + N.of_nat n - base + 1) * FB < (k + 2) * B)).
  { destruct Hcase as [[Hp Hc7] | (Hp & k & c' & Hkc & Hc7 & Hlast)].
    - left. split; [exact Hp|].
      destruct Hspec as (_ & _ & _ & _ & _ & _ & _ & Hoff0 & _).
      destruct (N.eq_dec (w_off w0) FB) as [E|NE]; [specialize (Hxo E); lia | lia].
    - right. split; [exact Hp|]. exists k, c'. rewrite <- HlenS. repeat split; assumption. }
  destruct (pinvJ_reopen w G w0 tags n pf HP Hfiles Hfile Hspec He1 He2 Hx)
    as (Hlen & Hlo & Elo & Efile & HP0).
  destruct (invJ_restart_equal P PRE OLD opos st G HI tags Hlen) as (qs' & Hrep & Hqi & Hnd' & Heq).
  rewrite Hrep in Hres.
  set (st0 := mkSt w0 qs' pol).
  assert (HI0 : InvJ st0 (gh_reopen G tags)).
  { split; cbn [st0 s_wr s_qs]; [exact HP0|]. rewrite Elo.
    apply (linv_reopen (s_qs st)); try assumption.
    exact (qs_wf_ext _ _ (LInv_qs_wf _ _ _ HL) Hnd' Heq). }
  assert (Hex0 : pos_extra (abs_qs (s_qs st)) (map snd (gc_log P st0 hint))).
  { apply (pos_extra_ext (abs_qs qs')); [intros q; now rewrite Heq|].
    exact (gc_log_pos_extra P st0 hint Hnd'). }
  assert (Hb0 : stream_boundJ (gh_reopen G tags) (map snd (gc_log P st0 hint))).
  { unfold JInv.stream_boundJ. rewrite (jNEW_reopen G tags Hlen).
    change (gh_base (gh_reopen G tags)) with (gh_base G). now apply Hb. }
  rewrite Hres. unfold open_finish. fold st0.
  destruct (run_gc_if_necessary P st0 hint) as [st1 r] eqn:Egc.
  destruct (HJ gcJ_no_err st0 _ hint st1 r HI0 Hb0 Egc) as (k & ->).
  destruct (HJ invJ_gc st0 _ hint st1 k HI0 Hb0 Egc) as (G' & HI' & Eqs & Epol & Eb & Ed & Elog).
  assert (Hok0 : wr_ok w0) by (destruct HP0 as ((H & _) & _); exact H).
  destruct (run_gc_step P st0 hint st1 (Ok k) Egc Hok0) as (_ & Hmono & _).
  cbn [st0 s_wr] in Hmono.
  exists st1, G'. split; [reflexivity|]. split; [exact HI'|].
  split; [intros q; rewrite Eqs; exact (Heq q)|]. split; [exact Eb|]. split; [exact Epol|].
  split; [rewrite <- Efile; exact Hmono|].
  exists (map snd (gc_log P st0 hint)). split; [|exact Hex0].
  unfold gh_ALL at 1. rewrite Ed, Elog, map_app, app_assoc.
  fold (gh_ALL (gh_reopen G tags)). now rewrite (gh_reopen_ALL G tags Hlen).
Qed.


(* ====================================================================== *)
(* 4. histories with restarts                                             *)
(* ====================================================================== *)

Lemma restart_reopen_boundJ st G : InvJ st G -> restart_bound P st -> reopen_boundJ st G.
Proof.
  intros (HP & _) Hb extra Hx.
  exact (HW phys_stream_boundJ PRE OLD opos _ _ _ HP (Hb extra Hx)).
Qed.

Theorem hrunJ_inv h : forall st G,
  InvJ st G -> lenN PRE + rm <= (w_file (s_wr st) + 1 - gh_base G) * FB ->
  hist_ok P st h ->
  exists st' outs G',
    hrun P st h = Some (st', outs) /\ InvJ st' G' /\ gh_base G' = gh_base G /\
    lenN PRE + rm <= (w_file (s_wr st') + 1 - gh_base G') * FB /\
    Forall no_io outs /\
    forall m, (forall q, s_get m q = s_get (abs_qs (s_qs st)) q) ->
      exists m' souts,
        s_run m (map sop_of (hcalls h)) = (m', souts) /\
        (forall q, s_get m' q = s_get (abs_qs (s_qs st')) q) /\
        map out_logical outs = map Some souts.
Proof.
  induction h as [|[o tick|pol hint] h IH]; intros st G HI Hroom Hok.
  - exists st, [], G. split; [reflexivity|]. split; [exact HI|]. split; [reflexivity|].
    split; [exact Hroom|]. split; [constructor|].
    intros m Hm. exists m, []. cbn [hcalls map s_run]. auto.
  - cbn [hist_ok] in Hok. destruct Hok as (Hop & Hb & Hok).
    cbn [hrun hcalls map].
    pose proof (HW phys_stream_boundJ PRE OLD opos _ _ _ (proj1 HI) Hb) as HbJ.
    pose proof (HJ stepJ_no_io st G o tick HI Hop HbJ) as Hno.
    pose proof (step_refines P st o tick (InvJ_qs_inv P PRE OLD opos st G HI)) as Href.
    pose proof (step_wr_step P st o tick) as Hws.
    destruct (step P st o tick) as [st1 out] eqn:Es. cbn [fst snd] in *.
    destruct Href as (_ & Href).
    destruct (HJ invJ_step st G o tick st1 out HI Hop HbJ Es Hno) as (G1 & HI1 & Eb1 & _).
    assert (Hroom1 : lenN PRE + rm <= (w_file (s_wr st1) + 1 - gh_base G1) * FB).
    { destruct (InvJ_winv P PRE OLD opos st G HI) as ((Hokw & _) & _). destruct (Hws Hokw) as (_ & Hm).
      rewrite Eb1. etransitivity; [exact Hroom|]. apply N.mul_le_mono_r. lia. }
    destruct (IH st1 G1 HI1 Hroom1 Hok) as (st2 & outs & G2 & Er & HI2 & Eb2 & Hroom2 & Hno2 & Hspec).
    exists st2, (out :: outs), G2. rewrite Er.
    split; [reflexivity|]. split; [exact HI2|]. split; [congruence|]. split; [exact Hroom2|].
    split; [constructor; assumption|].
    intros m Hm. destruct (no_io_logical out Hno) as (so & Eso).
    specialize (Href so Eso).
    destruct (s_step_ext m (abs_qs (s_qs st)) (sop_of o) Hm) as (Hs1 & Hs2).
    rewrite Href in Hs1, Hs2. cbn [fst snd] in Hs1, Hs2.
    destruct (s_step m (sop_of o)) as [m1 so1] eqn:Em. cbn [fst snd] in Hs1, Hs2. subst so1.
    destruct (Hspec m1 Hs2) as (m' & souts & Erun & Hm' & Hl).
    exists m', (so :: souts). cbn [s_run]. rewrite Em, Erun. split; [reflexivity|]. split; [exact Hm'|].
    cbn [map]. now rewrite Eso, Hl.
  - cbn [hist_ok] in Hok. destruct Hok as (Hb & Hok).
    cbn [hrun hcalls]. unfold restart in *.
    destruct (invJ_reopen st G HI (restart_reopen_boundJ st G HI Hb) Hroom pol hint)
      as (st1 & G1 & Eo & HI1 & Heq & Eb1 & _ & Hmono & _).
    rewrite Eo in *.
    assert (Hroom1 : lenN PRE + rm <= (w_file (s_wr st1) + 1 - gh_base G1) * FB).
    { rewrite Eb1. etransitivity; [exact Hroom|]. apply N.mul_le_mono_r. lia. }
    destruct (IH st1 G1 HI1 Hroom1 Hok) as (st2 & outs & G2 & Er & HI2 & Eb2 & Hroom2 & Hno2 & Hspec).
    exists st2, outs, G2. split; [exact Er|]. split; [exact HI2|]. split; [congruence|].
    split; [exact Hroom2|]. split; [exact Hno2|].
    intros m Hm. apply Hspec. intros q. now rewrite Hm, Heq.
Qed.

(* the analogue of C01_restart_identity from an InvJ state: after any history of calls and clean
   restarts, one more clean restart is the identity on the abstract state *)
Theorem invJ_restart_identity st G h st1 outs :
  InvJ st G -> lenN PRE + rm <= (w_file (s_wr st) + 1 - gh_base G) * FB ->
  hrun P st h = Some (st1, outs) -> hist_ok P st h -> restart_bound P st1 ->
  forall pol hint, exists st2,
    restart P st1 pol hint = OpenOk st2 /\
    (forall q, s_get (abs_qs (s_qs st2)) q = s_get (abs_qs (s_qs st1)) q).
Proof.
  intros HI Hroom Hrun Hok Hb pol hint.
  destruct (hrunJ_inv h st G HI Hroom Hok) as (st1' & outs1 & G1 & Er & HI1 & _ & Hroom1 & _).
  rewrite Hrun in Er. injection Er as <- <-.
  destruct (invJ_reopen st1 G1 HI1 (restart_reopen_boundJ st1 G1 HI1 Hb) Hroom1 pol hint)
    as (st' & G' & Eo & _ & Heq & _).
  exists st'. split; [exact Eo|exact Heq].
Qed.


End JReopen.

Print Assumptions invJ_reopen.
Print Assumptions hrunJ_inv.
Print Assumptions invJ_restart_identity.
