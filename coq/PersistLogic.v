(* PersistLogic.v — the logical half of "recovery yields the state after some prefix of the
   history".
   1. inv_mid: the restart invariant holds in the middle of a delete / truncate call (own entry
      written, queues updated, garbage collector not yet run).
   2. prefix_state: for EVERY prefix l1 of the entries logged by a history there is a state that
      satisfies the invariant for the ghost log extended by exactly l1, whose abstract content is
      that of the state after m calls (a prefix of a call's entry group that contains the call's
      own entry gives the abstract state after the call: position entries are abstract no-ops).
   3. kept_replay: under the invariant, replaying the entries delivered from the first kept file
      (any tags) gives the abstract content of the live queues. *)
From Coq Require Import Lia ZArith ZifyN ZifyNat ZifyBool List Sorted.
From MRL Require Import Bytes BytesProofs Params Names NamesProofs Frame Record Mem Spec Rolling Log
  Driver Hist SpecRefine RecordProofs StreamProofs PolicyProofs GcProofs GhostLog ReplaySpec
  HandleProofs FileStream ResyncProofs PersistProofs WriterProofs RestartInv RestartWrite RestartGc
  RestartStep OpenReplay RestartFinal TornFile CrashTrace PersistTrace PersistGc.

Arguments N.add : simpl never.
Arguments N.sub : simpl never.
Arguments N.mul : simpl never.
Arguments N.eqb : simpl never.
Arguments N.ltb : simpl never.
Arguments N.leb : simpl never.
Arguments N.div : simpl never.
Arguments N.modulo : simpl never.
Arguments N.min : simpl never.
Arguments N.max : simpl never.

Section PLogic.
Variable P : params.
Hypothesis HBS_lo : 7 < BS P.
Hypothesis HBS_hi : BS P <= 65542.
Hypothesis HNB : 1 <= NB P.
Hypothesis Hcrc : forall t p, crcf P t p < 2 ^ 32.
Hypothesis HGC : L_GC P = false.

Local Notation B := (BS P).
Local Notation FB := (FILE_BYTES P).
Local Notation ffp := (first_frame_pos P).
Local Notation sr := (map entry_ser).
Local Notation HW f := (f P HBS_lo HBS_hi HNB Hcrc) (only parsing).
Local Notation HG f := (f P HBS_lo HBS_hi HNB Hcrc HGC) (only parsing).
Local Notation HN f := (f P HBS_lo HBS_hi HNB) (only parsing).
Local Notation H3 f := (f P HBS_lo HBS_hi Hcrc) (only parsing).
Local Notation Inv := (Inv P).
Local Notation PInv := (PInv P).
Local Notation stream_bound := (stream_bound P).
Local Notation absq st := (abs_qs (s_qs st)).

(* ---------- the first tracked file is not changed by writing ---------- *)
Lemma write_entry_wlo st e st1 r :
  wr_ok (s_wr st) -> write_entry P st e = (st1, r) -> wlo (s_wr st1) = wlo (s_wr st).
Proof.
  intros Hok Hw. unfold write_entry in Hw.
  destruct (write_record P rwriter (wr_write P) (wr_rem P) (s_wr st) (entry_ser e)) as [w1 r1] eqn:Ew.
  inversion Hw; subst st1 r. cbn [set_wr s_wr].
  apply (HN hd_inv_wlo). eapply write_record_hd; [exact Ew|].
  split; [exact Hok|]. now apply (HN wr_ok_hd).
Qed.

(* ====================================================================== *)
(* 1. the middle of a delete / truncate call                               *)
(* ====================================================================== *)
Lemma inv_mid st G o st2 e :
  Inv st G -> op_wf_strict (s_qs st) o ->
  stream_bound G (map snd (step_log P st o)) ->
  mid_state P st o = Some st2 -> own_entry st o = Some e ->
  step_log P st o = (w_file (s_wr st), e) :: gc_log P st2 (gc_hint o) /\
  Inv st2 (gh_snoc G (w_file (s_wr st)) e) /\
  stream_bound (gh_snoc G (w_file (s_wr st)) e) (map snd (gc_log P st2 (gc_hint o))) /\
  wlo (s_wr st2) = wlo (s_wr st).
Proof.
  intros HI Hop Hb Hmid Hown.
  pose proof HI as (HP & HL). pose proof HL as (Hqwf & _).
  pose proof (step_log_wf P st o Hqwf (op_wf_strict_wf _ _ Hop)) as Hlwf.
  assert (Hok : wr_ok (s_wr st)) by (destruct HP as ((Hok & _) & _); exact Hok).
  destruct o as [q|q hint|q pos payloads|q p hint|a]; cbn [mid_state own_entry] in Hmid, Hown;
    try discriminate; cbn [step_log gc_hint] in *.
  - (* delete *)
    unfold delete_log in *.
    destruct (qs_get (s_qs st) q) as [m|] eqn:Eq; [|discriminate].
    injection Hown as <-. set (e := EDelete q (next_position m)) in *.
    destruct (write_entry P st e) as [st1 r1] eqn:Ew. cbn [fst] in Hmid. injection Hmid as <-.
    cbn [map snd] in Hb. inversion Hlwf as [|? ? Hwf Hlwf']; subst. cbn [snd] in Hwf.
    assert (Hap : apply_entry (s_qs st) (w_file (s_wr st)) e = Some (qs_remove (s_qs st) q))
      by reflexivity.
    destruct (HW inv_write_then st G e _ st1 r1 _ HI Hwf Hb
                (fun F => legal_delete _ _ _ q m _ F HL Eq) Ew Hap (qs_wf_remove _ q Hqwf))
      as ((k & ->) & Eqs & Epol & HI1 & Hb1).
    rewrite Eqs. split; [reflexivity|]. split; [exact HI1|]. split; [rewrite Eqs in Hb1; exact Hb1|].
    cbn [set_qs s_wr]. eapply write_entry_wlo; eassumption.
  - (* truncate *)
    unfold truncate_log in *.
    destruct (qs_get (s_qs st) q) as [m|] eqn:Eq; [|discriminate].
    injection Hown as <-. set (e := ETruncate q p) in *.
    destruct (write_entry P st e) as [st1 r1] eqn:Ew. cbn [fst] in Hmid. injection Hmid as <-.
    cbn [map snd] in Hb. inversion Hlwf as [|? ? Hwf Hlwf']; subst. cbn [snd] in Hwf.
    destruct (truncate_head m p) as [m' evicted] eqn:Et. cbn [fst] in *.
    assert (Hap : apply_entry (s_qs st) (w_file (s_wr st)) e = Some (qs_put (s_qs st) q m')).
    { unfold e. cbn [apply_entry]. now rewrite Eq, Et. }
    assert (Hwf' : qs_wf (qs_put (s_qs st) q m')).
    { destruct (Hqwf q m (qs_get_In_eq _ _ _ Eq)) as (Hn & Hnx).
      apply qs_wf_put; [exact Hqwf|exact Hn|].
      pose proof (truncate_head_next m p) as Hth. rewrite Et in Hth. cbn [fst] in Hth.
      cbn [op_wf_strict] in Hop. destruct Hth as [-> | ->]; lia. }
    destruct (HW inv_write_then st G e _ st1 r1 _ HI Hwf Hb
                (fun F => legal_truncate _ _ _ q m _ F HL Eq) Ew Hap Hwf')
      as ((k & ->) & Eqs & Epol & HI1 & Hb1).
    rewrite Eqs. split; [reflexivity|]. split; [exact HI1|]. split; [rewrite Eqs in Hb1; exact Hb1|].
    cbn [set_qs s_wr]. eapply write_entry_wlo; eassumption.
Qed.

(* ====================================================================== *)
(* 2. a state for every prefix of the logged entries                       *)
(* ====================================================================== *)
Lemma rp_log_prefix names : forall st l1 l2,
  rp_log P st names = l1 ++ l2 ->
  exists names1, (forall x, In x names1 -> In x names) /\ rp_log P st names1 = l1.
Proof.
  induction names as [|n names IH]; intros st l1 l2 H; cbn [rp_log] in H.
  - destruct l1; [|discriminate]. exists []. split; [intros x []|reflexivity].
  - destruct (qs_get (s_qs st) n) as [q|] eqn:Eq.
    + destruct l1 as [|x l1'].
      { exists []. split; [intros x []|reflexivity]. }
      cbn [app] in H. injection H as <- H.
      destruct (write_entry P st (EPosition n (next_position q))) as [st1 [k|e]] eqn:Ew.
      * destruct (IH st1 l1' l2 H) as (names1 & Hin & E).
        exists (n :: names1). split.
        { intros y [->|Hy]; [now left|right; now apply Hin]. }
        cbn [rp_log]. now rewrite Eq, Ew, E.
      * destruct l1'; [|discriminate]. exists [n]. split.
        { intros y [->|[]]. now left. }
        cbn [rp_log]. now rewrite Eq, Ew.
    + destruct (IH st l1 l2 H) as (names1 & Hin & E).
      exists (n :: names1). split.
      { intros y [->|Hy]; [now left|right; now apply Hin]. }
      cbn [rp_log]. now rewrite Eq.
Qed.

Lemma rp_prefix_state st2 G2 names l1 l2 :
  Inv st2 G2 -> names_empty (s_qs st2) names ->
  stream_bound G2 (map snd (rp_log P st2 names)) ->
  rp_log P st2 names = l1 ++ l2 ->
  exists st_x, Inv st_x (gh_app G2 l1) /\ s_qs st_x = s_qs st2 /\
               wlo (s_wr st_x) = wlo (s_wr st2).
Proof.
  intros HI Hne Hb Hl. destruct (rp_log_prefix names st2 l1 l2 Hl) as (names1 & Hin & E).
  destruct (record_positions P st2 names1 0) as [st_x r] eqn:Erp.
  assert (Hne1 : names_empty (s_qs st2) names1).
  { intros n q Hn. apply Hne. now apply Hin. }
  assert (Hb1 : stream_bound G2 (map snd (rp_log P st2 names1))).
  { rewrite E. rewrite Hl, map_app in Hb. exact (HW stream_bound_prefix _ _ _ Hb). }
  destruct (HW inv_record_positions names1 st2 G2 0 st_x r HI Hne1 Hb1 Erp)
    as (_ & Eqs & _ & Elo & _ & HIx & _).
  exists st_x. rewrite E in HIx. auto.
Qed.

Lemma run_cons_fst st o t r :
  fst (run P st ((o, t) :: r)) = fst (run P (fst (step P st o t)) r).
Proof.
  cbn [run]. destruct (step P st o t) as [st1 out]. cbn [fst].
  destruct (run P st1 r) as [st2 outs]. reflexivity.
Qed.

Lemma mid_none_log st o : mid_state P st o = None -> (length (step_log P st o) <= 1)%nat.
Proof.
  destruct o as [q|q hint|q pos payloads|q p hint|a]; cbn [mid_state step_log]; intros H.
  - unfold create_log. destruct (qs_contains (s_qs st) q); cbn [length]; lia.
  - unfold delete_log. destruct (qs_get (s_qs st) q); [discriminate|]. cbn [length]. lia.
  - unfold append_log. destruct (qs_get (s_qs st) q); [|cbn [length]; lia].
    destruct (append_target m pos); [|cbn [length]; lia].
    destruct payloads; cbn [length]; lia.
  - unfold truncate_log. destruct (qs_get (s_qs st) q); [discriminate|]. cbn [length]. lia.
  - cbn [length]. lia.
Qed.

Lemma mid_own st o st2 : mid_state P st o = Some st2 -> exists e, own_entry st o = Some e.
Proof.
  destruct o as [q|q hint|q pos payloads|q p hint|a]; cbn [mid_state own_entry]; try discriminate;
    destruct (qs_get (s_qs st) q); try discriminate; eauto.
Qed.

Lemma persist_on_policy_qs' st tick : s_qs (persist_on_policy st tick) = s_qs st.
Proof. unfold persist_on_policy. destruct (s_pol st) as [|a|a]; try destruct tick; reflexivity. Qed.

(* the queues at the end of a delete / truncate call are those of its middle *)
Lemma step_mid_qs st o t st2 :
  mid_state P st o = Some st2 -> no_io (snd (step P st o t)) ->
  s_qs (fst (step P st o t)) = s_qs st2.
Proof.
  intros Hmid Hno.
  destruct o as [q|q hint|q pos payloads|q p hint|a]; cbn [mid_state] in Hmid; try discriminate;
    cbn [step] in *.
  - unfold delete_queue in *. destruct (qs_get (s_qs st) q) as [m|]; [|discriminate].
    destruct (write_entry P st (EDelete q (next_position m))) as [st1 [k|e]];
      [|exfalso; eapply Hno; reflexivity].
    cbn [fst] in Hmid. injection Hmid as <-.
    pose proof (run_gc_qs P (set_qs st1 (qs_remove (s_qs st1) q)) hint) as Hq.
    destruct (run_gc_if_necessary P _ hint) as [st3 [k3|e3]]; [|exfalso; eapply Hno; reflexivity].
    cbn [fst] in *. exact Hq.
  - unfold truncate in *. destruct (qs_get (s_qs st) q) as [m|]; [|discriminate].
    destruct (write_entry P st (ETruncate q p)) as [st1 [k|e]];
      [|exfalso; eapply Hno; reflexivity].
    cbn [fst] in Hmid. injection Hmid as <-.
    destruct (truncate_head m p) as [m' ev]. cbn [fst].
    pose proof (run_gc_qs P (set_qs st1 (qs_put (s_qs st1) q m')) hint) as Hq.
    destruct (run_gc_if_necessary P _ hint) as [st3 [k3|e3]]; [|exfalso; eapply Hno; reflexivity].
    cbn [fst] in *. rewrite persist_on_policy_qs'. exact Hq.
Qed.

Theorem prefix_state h : forall st G l1 l2,
  Inv st G -> hist_wf P st h -> stream_bound G (map snd (run_log P st h)) ->
  run_log P st h = l1 ++ l2 ->
  exists m st_x G_x,
    (m <= length h)%nat /\ Inv st_x G_x /\ gh_base G_x = gh_base G /\
    gh_dropped G_x = gh_dropped G /\ gh_log G_x = gh_log G ++ l1 /\
    (forall q, s_get (absq st_x) q = s_get (absq (fst (run P st (firstn m h)))) q) /\
    (m = 0%nat -> l1 = []) /\
    ((st_x = fst (run P st (firstn m h)) /\
      forall m' o t, m = S m' -> nth_error h m' = Some (o, t) ->
        mid_state P (fst (run P st (firstn m' h))) o = None) \/
     exists m', m = S m' /\ wlo (s_wr st_x) = wlo (s_wr (fst (run P st (firstn m' h))))).
Proof.
  induction h as [|[o t] h IH]; intros st G l1 l2 HI Hwf Hb Hl.
  - cbn [run_log] in Hl. destruct l1; [|discriminate].
    exists 0%nat, st, G. cbn [firstn run fst length]. rewrite app_nil_r.
    repeat (split; [lia || exact HI || reflexivity|]). left. split; [reflexivity|]. intros; lia.
  - cbn [run_log hist_wf] in *. destruct Hwf as (Hop & Hwf).
    rewrite map_app in Hb.
    assert (Hb1 : stream_bound G (map snd (step_log P st o))).
    { eapply (HW stream_bound_prefix); eassumption. }
    pose proof (HG step_no_io st G o t HI Hop Hb1) as Hno.
    destruct (step P st o t) as [st1 out] eqn:Es. cbn [fst snd] in *.
    destruct (HG inv_step st G o t st1 out HI Hop Hb1 Es Hno) as (G1 & HI1 & Eb1 & Ed1 & El1).
    assert (Hb2 : stream_bound G1 (map snd (run_log P st1 h))).
    { unfold RestartWrite.stream_bound in *. rewrite Eb1.
      unfold gh_ALL in *. rewrite Ed1, El1.
      replace ((gh_dropped G ++ map snd (gh_log G ++ step_log P st o)) ++ map snd (run_log P st1 h))
        with ((gh_dropped G ++ map snd (gh_log G)) ++
              map snd (step_log P st o) ++ map snd (run_log P st1 h)); [exact Hb|].
      rewrite map_app, !app_assoc. reflexivity. }
    assert (Est1 : forall m, fst (run P st (firstn (S m) ((o, t) :: h))) = fst (run P st1 (firstn m h))).
    { intros m. cbn [firstn]. rewrite run_cons_fst, Es. reflexivity. }
    assert (Hcase : (exists l, step_log P st o = l1 ++ l) \/
                    (exists l, l <> [] /\ l1 = step_log P st o ++ l /\ run_log P st1 h = l ++ l2)).
    { destruct (app_eq_app _ _ _ _ Hl) as (l & [(E1 & E2) | (E1 & E2)]).
      - left. now exists l.
      - destruct l as [|y l'].
        + left. exists []. rewrite E1. now rewrite !app_nil_r.
        + right. exists (y :: l'). split; [discriminate|]. auto. }
    destruct Hcase as [(l & E1) | (l & Hlne & E1 & E2)].
    + (* the prefix ends inside the call *)
      destruct l1 as [|x l1'].
      { exists 0%nat, st, G. cbn [firstn run fst length]. rewrite app_nil_r.
        repeat (split; [lia || exact HI || reflexivity|]). left. split; [reflexivity|]. intros; lia. }
      destruct (mid_state P st o) as [st2|] eqn:Emid.
      * destruct (mid_own st o st2 Emid) as (e & Hown).
        destruct (inv_mid st G o st2 e HI Hop Hb1 Emid Hown) as (Elog & HI2 & Hb2' & Elo2).
        rewrite Elog in E1. cbn [app] in E1. injection E1 as <- E1.
        assert (Hx : exists st_x, Inv st_x (gh_app (gh_snoc G (w_file (s_wr st)) e) l1') /\
                       s_qs st_x = s_qs st2 /\ wlo (s_wr st_x) = wlo (s_wr st2)).
        { unfold gc_log in E1, Hb2'. destruct (has_deletable st2).
          - eapply rp_prefix_state; [exact HI2| |exact Hb2'|exact E1].
            apply pick_order_names_empty. destruct HI2 as (_ & HL2). exact (LInv_nodup _ _ _ HL2).
          - destruct l1'; [|discriminate]. exists st2. rewrite gh_app_nil. auto. }
        destruct Hx as (st_x & HIx & Eqx & Elox).
        exists 1%nat, st_x, (gh_app (gh_snoc G (w_file (s_wr st)) e) l1'). cbn [length].
        split; [lia|]. split; [exact HIx|]. split; [reflexivity|]. split; [reflexivity|].
        split; [rewrite gh_app_log, gh_snoc_log, <- app_assoc; reflexivity|].
        split.
        { intros q. rewrite Est1. cbn [firstn run fst]. rewrite Eqx.
          pose proof (step_mid_qs st o t st2 Emid) as Hs. rewrite Es in Hs. cbn [fst snd] in Hs.
          now rewrite (Hs Hno). }
        split; [discriminate|].
        right. exists 0%nat. split; [reflexivity|]. cbn [firstn run fst]. congruence.
      * pose proof (mid_none_log st o Emid) as Hlen. rewrite E1 in Hlen.
        cbn [app length] in Hlen. rewrite app_length in Hlen.
        assert (l1' = [] /\ l = []) as [-> ->].
        { destruct l1'; [|cbn [length] in Hlen; lia]. destruct l; [auto|cbn [length] in Hlen; lia]. }
        exists 1%nat, st1, G1. cbn [length]. rewrite app_nil_r in E1.
        split; [lia|]. split; [exact HI1|]. split; [exact Eb1|]. split; [exact Ed1|].
        split; [rewrite El1, E1; reflexivity|].
        split; [intros q; now rewrite Est1|]. split; [discriminate|].
        left. split; [now rewrite Est1|].
        intros m' o' t' Hm' Hnth. injection Hm' as <-. cbn [nth_error] in Hnth.
        injection Hnth as <- <-. cbn [firstn run fst]. exact Emid.
    + (* the prefix covers the whole call, and more *)
      destruct (IH st1 G1 l l2 HI1 Hwf Hb2 E2)
        as (m & st_x & G_x & Hm & HIx & Eb & Ed & El & Hq & Hm0 & Hw).
      destruct m as [|m0]; [exfalso; apply Hlne; now apply Hm0|].
      exists (S (S m0)), st_x, G_x. cbn [length].
      split; [lia|]. split; [exact HIx|]. split; [congruence|]. split; [congruence|].
      split; [rewrite El, El1, E1; now rewrite app_assoc|].
      split; [intros q; rewrite Est1; apply Hq|]. split; [discriminate|].
      destruct Hw as [(-> & Hmid)|(m' & Em' & Hw)].
      * left. split; [now rewrite Est1|].
        intros m' o' t' Hm' Hnth. injection Hm' as <-. cbn [nth_error] in Hnth.
        rewrite Est1. now apply (Hmid m0 o' t').
      * right. exists (S m'). split; [congruence|]. now rewrite Est1.
Qed.

(* ====================================================================== *)
(* 3. replaying the entries delivered from the first kept file             *)
(* ====================================================================== *)
Theorem kept_replay st_x G_x E_pre Ekept tags :
  Inv st_x G_x -> gh_ALL G_x = E_pre ++ Ekept ->
  sr Ekept = delivered_from P ((wlo (s_wr st_x) - gh_base G_x) * FB) 0 (sr (gh_ALL G_x)) ->
  length tags = length Ekept ->
  exists qs',
    replay_entries [] (combine tags Ekept) = Some qs' /\ qs_inv qs' /\ nodup_names qs' /\
    forall q, s_get (abs_qs qs') q = s_get (absq st_x) q.
Proof.
  intros HI HE Hdel Hlen. pose proof HI as (HP & _).
  destruct (HW PInv_delivered _ _ HP) as (Edel & _).
  change (gh_ser G_x) with (sr (gh_ALL G_x)) in Edel. rewrite Edel in Hdel.
  assert (Hk : Ekept = map snd (gh_E G_x)).
  { rewrite gh_ALL_split in HE. apply app_eq_len in HE; [symmetry; apply HE|].
    apply (f_equal (@length bytes)) in Hdel. unfold gh_ser_E in Hdel.
    rewrite !map_length in Hdel. rewrite map_length. lia. }
  subst Ekept. rewrite map_length in Hlen.
  exact (inv_restart_equal P st_x G_x HI tags Hlen).
Qed.

End PLogic.

Print Assumptions prefix_state.
Print Assumptions kept_replay.
Print Assumptions inv_mid.
