(* VacLive2.v — vacuity audit, part 7: PropC13 .. PropC18 (live half).  Same states as VacLive.v. *)
From Coq Require Import Lia ZArith ZifyN ZifyNat ZifyBool List.
From MRL Require Import Bytes BytesProofs Params Names NamesProofs Frame Record Mem Spec Rolling Log
  Driver Hist WriterProofs NoopProofs SpecRefine MemAcctProofs RecordProofs EffectsProofs
  PolicyProofs QueueIso GcProofs GhostLog ReplaySpec PersistProofs
  RestartInv RestartFinal RestartCorollaries VacBase VacRestart VacLive.
From MRL Require PropC05 PropC13 PropC14 PropC15 PropC16 PropC17 PropC18.
Import ListNotations.
Import RestartFinal.Example.

Arguments N.add : simpl never.
Arguments N.sub : simpl never.
Arguments N.mul : simpl never.
Arguments N.eqb : simpl never.
Arguments N.ltb : simpl never.
Arguments N.leb : simpl never.
Arguments N.div : simpl never.
Arguments N.modulo : simpl never.

Local Notation qA := RestartFinal.Example.qa.
Local Notation qB := RestartFinal.Example.qb.
Ltac le_tac := vm_compute; let H := fresh in intro H; discriminate H.

(* ====================================================================== *)
(* PropC13                                                                *)
(* ====================================================================== *)
Definition o_past : op := OAppend qA (Some 3) [pay "z"%byte].
Lemma noop_past : noop_call stA o_past OutPast.
Proof. eapply NoopPast; [vm_compute; reflexivity|vm_compute; reflexivity]. Qed.

Example C13_no_trace_inst : step Px stA o_past true = (stA, OutPast).
Proof. exact (PropC13.C13_no_trace Px stA o_past OutPast true noop_past). Qed.

Example C13_zero_bytes_inst : outcome_bytes OutPast = Some 0 \/ outcome_bytes OutPast = None.
Proof. exact (PropC13.C13_zero_bytes stA o_past OutPast noop_past). Qed.

Example C13_shapes_complete_inst : exists out, noop_call stA (OCreate qB) out.
Proof.
  apply (PropC13.C13_shapes_complete Px stA (OCreate qB) false).
  replace (snd (step Px stA (OCreate qB) false)) with OutAlreadyExists by (vm_compute; reflexivity).
  exact I.
Qed.

Example C13_erasable_inst :
  fst (run Px stR ([(oA, false)] ++ (o_past, true) :: [(oT, false)])) =
  fst (run Px stR ([(oA, false)] ++ [(oT, false)])).
Proof.
  apply (PropC13.C13_erasable Px stR [(oA, false)] o_past true [(oT, false)] OutPast).
  replace (fst (run Px stR [(oA, false)])) with stA by (vm_compute; reflexivity).
  exact noop_past.
Qed.

(* the drivers' world: a drained state *)
Definition st_d : state := Eval vm_compute in fst (drain_state stA).
Definition w_d : world := mkWorld (c_fs (w_ctx (s_wr st_d))) (Some st_d) false [] [] None.
Lemma noop_past_d : noop_call st_d o_past OutPast.
Proof. eapply NoopPast; [vm_compute; reflexivity|vm_compute; reflexivity]. Qed.

Example C13_world_unchanged_inst : world_step Px w_d (COp o_past) = (w_d, WOp OutPast).
Proof.
  apply (PropC13.C13_world_unchanged Px w_d st_d o_past OutPast eq_refl).
  - split; reflexivity.
  - reflexivity.
  - exact noop_past_d.
Qed.

(* ====================================================================== *)
(* PropC14                                                                *)
(* ====================================================================== *)
Example C14_step_policy_independent_inst :
  snd (step Px stR oA false) = snd (step Px stR2 oA true) /\
  seqw (fst (step Px stR oA false)) (fst (step Px stR2 oA true)).
Proof.
  pose proof (PropC14.C14_step_policy_independent Px stR stR2 oA false true eq_refl seqw_R) as H.
  destruct (step Px stR oA false) as [s1 o1]. destruct (step Px stR2 oA true) as [s2 o2]. exact H.
Qed.

Example pending_differs :
  w_pending (s_wr (fst (step Px stR oA false))) = [] /\
  w_pending (s_wr (fst (step Px stR2 oA true))) <> [].
Proof. vm_compute. split; [reflexivity|discriminate]. Qed.

Example C14_run_policy_independent_inst :
  snd (run Px stR hP) = snd (run Px stR2 hP) /\ seqw (fst (run Px stR hP)) (fst (run Px stR2 hP)).
Proof.
  pose proof (PropC14.C14_run_policy_independent Px hP hP stR stR2 eq_refl eq_refl seqw_R) as H.
  destruct (run Px stR hP) as [s1 o1]. destruct (run Px stR2 hP) as [s2 o2]. exact H.
Qed.

Example C14_drop_policy_independent_inst :
  c_fs (drop_log (fst (step Px stR oA false))) = c_fs (drop_log (fst (step Px stR2 oA true))).
Proof.
  apply PropC14.C14_drop_policy_independent. exact (proj1 (proj2 C14_step_policy_independent_inst)).
Qed.

Example C14_restart_policy_independent_inst :
  snd (run Px stR hP) = snd (run Px stR2 hP) /\
  open_rel (open Px (c_fs (drop_log (fst (run Px stR hP)))) None (PAlways false) [])
           (open Px (c_fs (drop_log (fst (run Px stR2 hP)))) None (PDelay true) []).
Proof.
  exact (PropC14.C14_restart_policy_independent Px hP hP stR stR2 None (PAlways false) (PDelay true) []
           eq_refl eq_refl seqw_R).
Qed.

Example C14_open_ok_seqw_inst : seqw stR stR2.
Proof. exact seqw_R. Qed.

(* ====================================================================== *)
(* PropC15                                                                *)
(* ====================================================================== *)
Example C15_record_count_generic_inst :
  forall w payload w' n,
    write_record Px vecw vw_write (vw_rem Px) w payload = (w', Ok n) -> vw_cursor w' = vw_cursor w + n.
Proof.
  apply (PropC15.C15_record_count_generic Px vecw vw_write (vw_rem Px) vw_cursor).
  intros w d w' H. unfold vw_write in H. injection H as <-. reflexivity.
Qed.

Example C15_bytes_exact_inst : st_accepted stA = st_accepted stR + 77.
Proof. exact (PropC15.C15_bytes_exact Px stR oA false stA _ 77 step_stA eq_refl). Qed.

Example C15_zero_iff_inst : 77 = 0 <-> st_accepted stA = st_accepted stR.
Proof. exact (PropC15.C15_zero_iff Px stR oA false stA _ 77 step_stA eq_refl). Qed.

Example C15_bytes_in_write_events_inst :
  ev_bytes (c_ev (w_ctx (s_wr stA))) = ev_bytes (c_ev (w_ctx (s_wr stR))) + 77.
Proof.
  apply (PropC15.C15_bytes_in_write_events Px stR oA false stA _ 77 true step_stA eq_refl eq_refl).
  left. reflexivity.
Qed.

Example C15_running_sum_inst : st_accepted stP = st_accepted stR + sum_reported outsP.
Proof. exact (PropC15.C15_running_sum Px hP stR stP outsP run_P no_io_P). Qed.

(* ====================================================================== *)
(* PropC16                                                                *)
(* ====================================================================== *)
Example C16_used_exact_inst :
  log_memory_used Px stA =
  s_names (abs_qs (s_qs stA)) + s_payload (abs_qs (s_qs stA)) + RMS Px * s_nrecs (abs_qs (s_qs stA)).
Proof. exact (PropC16.C16_used_exact Px stA qs_inv_stA). Qed.

Example C16_used_bounds_inst :
  s_names (abs_qs (s_qs stA)) + s_payload (abs_qs (s_qs stA)) <= log_memory_used Px stA.
Proof. exact (proj1 (PropC16.C16_used_bounds Px stA qs_inv_stA)). Qed.

Example C16_truncate_releases_inst :
  exists recs nx, s_get (abs_qs (s_qs stA)) qA = Some (recs, nx) /\
    2 = lenN (filter (fun r => fst r <=? 7) recs).
Proof.
  destruct (PropC16.C16_truncate_releases Px stA qA 7 [qB] false stT 2 19 qs_inv_stA step_stT)
    as (recs & nx & H1 & H2 & _). exists recs, nx. split; [exact H1|exact H2].
Qed.

(* all queues empty: truncate both queues of st_ex *)
Definition st_e : state :=
  Eval vm_compute in fst (step Px (fst (step Px st_ex (OTruncate qA 6 []) false)) (OTruncate qB 0 []) false).
Lemma qs_inv_e : qs_inv (s_qs st_e).
Proof.
  destruct inv_ex as (G & HI & _). pose proof (Inv_qs_inv Px _ _ HI) as H0.
  pose proof (PropC05.C05_refines Px st_ex (OTruncate qA 6 []) false H0) as H1.
  destruct (step Px st_ex (OTruncate qA 6 []) false) as [s1 o1] eqn:E1. destruct H1 as [H1 _].
  pose proof (PropC05.C05_refines Px s1 (OTruncate qB 0 []) false H1) as H2.
  destruct (step Px s1 (OTruncate qB 0 []) false) as [s2 o2] eqn:E2. destruct H2 as [H2 _].
  replace st_e with s2; [exact H2|].
  replace s2 with (fst (step Px s1 (OTruncate qB 0 []) false)) by (rewrite E2; reflexivity).
  replace s1 with (fst (step Px st_ex (OTruncate qA 6 []) false)) by (rewrite E1; reflexivity).
  vm_compute. reflexivity.
Qed.

Example C16_baseline_when_empty_inst :
  log_memory_used Px st_e = s_names (abs_qs (s_qs st_e)) /\ abs_qs (s_qs st_e) = [(qA, ([], 7)); (qB, ([], 1))].
Proof.
  split; [|vm_compute; reflexivity].
  apply (PropC16.C16_baseline_when_empty Px st_e qs_inv_e).
  intros n recs nx Hin. vm_compute in Hin.
  destruct Hin as [H|[H|[]]]; injection H as _ <- _; reflexivity.
Qed.

Example C16_buffer_is_retained_payload_inst :
  forall m, qs_get (s_qs stA) qA = Some m ->
            q_buf m = concat (map snd (records_of (q_buf m) (q_metas m))).
Proof.
  intros m Hm. apply PropC16.C16_buffer_is_retained_payload.
  apply (qs_inv_stA qA m). vm_compute in Hm. injection Hm as <-. vm_compute. left. reflexivity.
Qed.

(* ====================================================================== *)
(* PropC17                                                                *)
(* ====================================================================== *)
Example C17_parse_print_inst : filename_to_position (filename 18446744073709551615) = Some 18446744073709551615.
Proof. apply PropC17.C17_parse_print. le_tac. Qed.

Example C17_parse_exact_inst : filename 77 = filename 77 /\ 77 <= U64_MAX.
Proof. exact (PropC17.C17_parse_exact (filename 77) 77 ltac:(vm_compute; reflexivity)). Qed.

Example C17_filename_inj_inst : forall b, b <= U64_MAX -> filename 5 = filename b -> 5 = b.
Proof. intros b Hb. apply PropC17.C17_filename_inj; [le_tac|exact Hb]. Qed.

Definition s_for : bytes := ["w"; "a"; "l"; "-"; "1"]%byte.
Lemma foreign_s : forall n, s_for <> filename n.
Proof. apply PropC17.C17_bad_shape_foreign. left. vm_compute. discriminate. Qed.

Example C17_foreign_never_named_inst : forall n, n <= U64_MAX -> s_for <> filename n.
Proof. apply PropC17.C17_foreign_never_named. vm_compute. reflexivity. Qed.

Lemma named_stR : Forall wal_named (c_ev (w_ctx (s_wr stR))).
Proof.
  pose proof (PropC17.C17_open_events_wal_named Px (c_fs (drop_log st_ex)) None (PAlways true) [qB]) as H.
  rewrite open_stR in H. exact H.
Qed.

Example C17_step_events_wal_named_inst : Forall wal_named (c_ev (w_ctx (s_wr stA))).
Proof.
  pose proof (PropC17.C17_step_events_wal_named Px stR oA false named_stR) as H.
  rewrite step_stA in H. exact H.
Qed.

Example C17_step_foreign_untouched_inst :
  fs_get (c_fs (w_ctx (s_wr stA))) s_for = fs_get (c_fs (w_ctx (s_wr stR))) s_for.
Proof.
  pose proof (PropC17.C17_step_foreign_untouched Px stR oA false s_for foreign_s) as H.
  rewrite step_stA in H. exact H.
Qed.

Example C17_drop_foreign_untouched_inst :
  fs_get (c_fs (drop_log stA)) s_for = fs_get (c_fs (w_ctx (s_wr stA))) s_for.
Proof. exact (PropC17.C17_drop_foreign_untouched stA s_for foreign_s). Qed.

Example C17_open_foreign_untouched_inst :
  fs_get (c_fs (open_ctx (open Px fs_junk None PNothing []))) s_for = fs_get fs_junk s_for.
Proof. exact (PropC17.C17_open_foreign_untouched Px fs_junk None PNothing [] s_for foreign_s). Qed.

Example C17_run_foreign_untouched_inst :
  fs_get (c_fs (w_ctx (s_wr stP))) s_for = fs_get (c_fs (w_ctx (s_wr stR))) s_for.
Proof.
  pose proof (PropC17.C17_run_foreign_untouched Px hP stR s_for foreign_s) as H.
  rewrite run_P in H. exact H.
Qed.

Example C17_listing_sound_inst :
  list_wal_numbers fs_junk = [3; 5; 9] /\
  (5 <= U64_MAX /\ exists b, In (filename 5, FFile b) fs_junk).
Proof.
  split; [vm_compute; reflexivity|].
  apply PropC17.C17_listing_sound. vm_compute. right. left. reflexivity.
Qed.

(* C17_unparsed_untouched: the events of a create (write, flush, sync_data, sync_dir on file 6) *)
Definition evs_C : list event :=
  Eval vm_compute in firstn (length (c_ev (w_ctx (s_wr stC))) - length (c_ev (w_ctx (s_wr stR))))
                            (c_ev (w_ctx (s_wr stC))).
Definition s_unp : bytes := ["w"; "a"; "l"; "-"; "9"; "9"; "9"; "9"; "9"; "9"; "9"; "9"; "9"; "9";
                             "9"; "9"; "9"; "9"; "9"; "9"; "9"; "9"; "9"; "9"]%byte.

Lemma named_u64_C : Forall wal_named_u64 evs_C.
Proof.
  unfold evs_C.
  repeat (constructor;
          [first [exact I | (exists 6; split; [le_tac|vm_compute; reflexivity])]|]).
  constructor.
Qed.

Example C17_unparsed_untouched_inst :
  fs_get (c_fs (w_ctx (s_wr stC))) s_unp = fs_get (c_fs (w_ctx (s_wr stR))) s_unp.
Proof.
  pose proof (PropC17.C17_unparsed_untouched Px stR (OCreate qC) false evs_C s_unp) as H.
  rewrite step_stC in H. apply H.
  - vm_compute. reflexivity.
  - exact named_u64_C.
  - vm_compute. reflexivity.
Qed.

(* ====================================================================== *)
(* PropC18 (live half)                                                     *)
(* ====================================================================== *)
Example C18_spec_projection_inst :
  s_get (fst (s_run m_s h_s)) qA = s_get (fst (s_run m_s (filter (addressed qA) h_s))) qA /\
  keep_outs (addressed qA) h_s (snd (s_run m_s h_s)) = snd (s_run m_s (filter (addressed qA) h_s)).
Proof. exact (PropC18.C18_spec_projection h_s m_s m_s qA eq_refl). Qed.

Definition stQ : state := Eval vm_compute in fst (run Px stR (filter (on_queue qA) hP)).
Definition outsQ : list outcome := Eval vm_compute in snd (run Px stR (filter (on_queue qA) hP)).

Example C18_log_projection_inst :
  s_get (abs_qs (s_qs stP)) qA = s_get (abs_qs (s_qs stQ)) qA /\
  map out_logical (keep_outs (on_queue qA) hP outsP) = map out_logical outsQ /\
  (forall lo hi, log_range stP qA lo hi = log_range stQ qA lo hi) /\
  log_last_position stP qA = log_last_position stQ qA /\ log_last_record stP qA = log_last_record stQ qA.
Proof.
  apply (PropC18.C18_log_projection Px hP stR stR qA stP outsP stQ outsQ qs_inv_stR qs_inv_stR eq_refl
           run_P).
  - vm_compute. reflexivity.
  - exact no_io_P.
  - vm_compute. reflexivity.
Qed.

Example C18_log_step_other_inst :
  s_get (abs_qs (s_qs stA)) qB = s_get (abs_qs (s_qs stR)) qB /\
  (forall lo hi, log_range stA qB lo hi = log_range stR qB lo hi) /\
  log_last_position stA qB = log_last_position stR qB /\ log_last_record stA qB = log_last_record stR qB.
Proof.
  apply (PropC18.C18_log_step_other Px stR oA false stA _ qB qs_inv_stR step_stA eq_refl).
  vm_compute. intros H; discriminate H.
Qed.

Example C18_replay_other_untouched_inst : qs_get qs_app qB = qs_get (s_qs stA) qB.
Proof.
  apply (PropC18.C18_replay_other_untouched (s_qs stA) 9 e_app qs_app qB); [|exact apply_app].
  vm_compute. intros H; discriminate H.
Qed.
