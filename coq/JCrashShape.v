(* JCrashShape.v — TASK T14-C: the shape of a crash image of a call issued from a state satisfying
   the junk-tolerant invariant InvJ (JInv.v).  Port of CrashTrace.v sections 2-3
   (pinv_setup, pinv_step_call_trace, step_call_trace, crash_image_shape) with the ghost stream
   jT P PRE OLD G instead of gh_T P G.  Everything generic of CrashTrace.v (wtrace, call_trace,
   tsim/tinv, step_trace_rel, img_ok, assemble, call_trace_img, stream_to_ghost, dir_listing,
   call_cursor, call_bytes) is reused unchanged. *)
From Coq Require Import Lia ZArith ZifyN ZifyNat ZifyBool List Sorted.
From MRL Require Import Bytes BytesProofs Params Names NamesProofs Frame Record Mem Spec Rolling Log
  Driver SpecRefine RecordProofs StreamProofs PolicyProofs GcProofs GhostLog ReplaySpec
  HandleProofs FileStream ResyncProofs PersistProofs WriterProofs RestartInv RestartWrite RestartGc
  RestartStep OpenReplay CrashTrace JInv JGc JStep.

Arguments N.add : simpl never.
Arguments N.sub : simpl never.
Arguments N.mul : simpl never.
Arguments N.eqb : simpl never.
Arguments N.ltb : simpl never.
Arguments N.leb : simpl never.
Arguments N.div : simpl never.
Arguments N.modulo : simpl never.
Arguments N.min : simpl never.
Arguments N.max : simpl never.

Section JCrashShape.
Variable P : params.
Hypothesis HBS_lo : 7 < BS P.
Hypothesis HBS_hi : BS P <= 65542.
Hypothesis HNB : 1 <= NB P.
Hypothesis Hcrc : forall t p, crcf P t p < 2 ^ 32.
Hypothesis HGC : L_GC P = false.
Variable PRE : bytes.
Variable OLD : list entry.
Variable opos : list (N * N).
Hypothesis Hpre : pre_ok PRE OLD opos.

Local Notation B := (BS P).
Local Notation FB := (FILE_BYTES P).
Local Notation ffp := (first_frame_pos P).
Local Notation enc_of := (enc_of P).
Local Notation encs_of := (encs_of P).
Local Notation cursor_after := (cursor_after P).
Local Notation PInvJ := (PInvJ P PRE OLD opos).
Local Notation InvJ := (InvJ P PRE OLD opos).
Local Notation stream_boundJ := (stream_boundJ P PRE OLD).
Local Notation jT := (jT P PRE OLD).
Local Notation call_cursor := (call_cursor P).
Local Notation call_bytes := (call_bytes P).
Local Notation call_trace := (call_trace P).
Local Notation zext := (zext P).
Local Notation H3 f := (f P HBS_lo HBS_hi Hcrc) (only parsing).
Local Notation H2 f := (f P HBS_lo HBS_hi) (only parsing).
Local Notation HN f := (f P HBS_lo HBS_hi HNB) (only parsing).
Local Notation HW f := (f P HBS_lo HBS_hi HNB Hcrc) (only parsing).
Local Notation HG f := (f P HBS_lo HBS_hi HNB Hcrc HGC) (only parsing).

(* the reference writer of a state satisfying PInvJ: its buffer is the part of the ghost stream
   held by the kept files, up to the cursor *)
Lemma pinvJ_setup w G :
  PInvJ w G ->
  let dl := wlo w - gh_base G in
  let T := jT G in
  let c := dl * FB + wpos P w in
  let buf := takeN (wpos P w) (wstream w) in
  lenN buf = wpos P w /\
  buf = dropN (dl * FB) (T ++ zerosN (c - lenN T)) /\
  wstream w = buf ++ zerosN (lenN (w_files w) * FB - wpos P w) /\
  wpos P w <= lenN (w_files w) * FB /\
  lenN (w_files w) + wlo w = w_file w + 1 /\ 1 <= lenN (w_files w).
Proof.
  intros (Hw & Hwd & Hnd & Hbase & Hc1 & Hc2 & Hs & _). cbn zeta in *.
  set (dl := wlo w - gh_base G) in *.
  set (T := jT G) in *. set (a := lenN T) in *.
  set (n := lenN (w_files w)) in *.
  set (c := dl * FB + wpos P w) in *.
  pose proof Hw as (Hok & Hwf' & Hoff & _).
  destruct (wr_ok_len P (HN HB0') HNB w Hok) as (Hn & Hn1). fold n in Hn, Hn1.
  pose proof (lenN_wstream P w Hw) as HlenS. fold n in HlenS.
  assert (Hpos : wpos P w = (n - 1) * FB + w_off w) by reflexivity.
  assert (Hposn : wpos P w <= n * FB) by nia.
  assert (Hcn : c <= (dl + n) * FB) by (unfold c; nia).
  split; [rewrite lenN_takeN, HlenS; lia|].
  assert (Ebuf : takeN (wpos P w) (wstream w) = dropN (dl * FB) (T ++ zerosN (c - a))).
  { rewrite Hs.
    replace (wpos P w) with (dl * FB + wpos P w - dl * FB) by lia.
    rewrite <- dropN_takeN. f_equal. fold c.
    rewrite takeN_app_ge by (fold a; lia). fold a. f_equal.
    apply takeN_zerosN. lia. }
  split; [exact Ebuf|].
  split.
  { rewrite <- (takeN_dropN (wpos P w) (wstream w)) at 1. f_equal.
    rewrite Hs, dropN_dropN. fold c. rewrite dropN_app_ge by (fold a; lia). fold a.
    rewrite dropN_zerosN. f_equal. lia. }
  split; [exact Hposn|]. split; assumption.
Qed.

(* NEW: the bytes of a call (the same as CrashTrace.call_bytes: the cursor only uses gh_base G) *)
Definition call_bytesJ (st : state) (G : ghost) (o : op) : bytes :=
  encs_of (call_cursor st G) (map entry_ser (map snd (step_log P st o))).

Lemma call_bytesJ_eq st G o : call_bytesJ st G o = call_bytes st G o.
Proof. reflexivity. Qed.

Theorem pinvJ_step_call_trace st G a o tick st' out :
  PInvJ (s_wr st) G -> w_pending (s_wr st) = [] -> s_pol st = PAlways a ->
  stream_boundJ G (map snd (step_log P st o)) ->
  step P st o tick = (st', out) -> (forall e, out <> OutIo e) ->
  let w := s_wr st in
  exists evs,
    c_ev (w_ctx (s_wr st')) = rev evs ++ c_ev (w_ctx w) /\
    c_fs (w_ctx (s_wr st')) = fold_left apply_event evs (c_fs (w_ctx w)) /\
    call_trace (wlo w) (w_file w) (w_off w) (call_bytes st G o)
               (w_file (s_wr st')) (w_off (s_wr st')) evs /\
    w_pending (s_wr st') = [].
Proof.
  intros HP Hp0 Hpol Hbound Hstep Hno w. subst w. set (w := s_wr st) in *.
  destruct (pinvJ_setup w G HP) as (Hlb & Ebuf & HS & Hposn & Hn & Hn1). cbn zeta in *.
  pose proof HP as (Hw & _ & _ & Hbase & Hc1 & Hc2 & _). cbn zeta in Hc1, Hc2.
  set (dl := wlo w - gh_base G) in *.
  set (T := jT G) in *. set (a0 := lenN T) in *.
  set (c := dl * FB + wpos P w) in *.
  set (buf := takeN (wpos P w) (wstream w)) in *.
  set (X := map entry_ser (map snd (step_log P st o))) in *.
  assert (EX : encs_of (wpos P w) X = encs_of c X).
  { unfold c. symmetry. apply (HW encs_of_shift). apply (mulFB_mod P HBS_lo HBS_hi HNB). }
  set (M := wpos P w + lenN (encs_of (wpos P w) X)).
  pose proof Hw as (Hok & Hwf' & Hoff & Hplan & Hu & Hfull & Hfresh).
  assert (HM : FB * wlo w + M <= FB * (U64_MAX + 1)).
  { unfold M. rewrite EX. destruct X as [|x X'] eqn:EXX.
    - cbn [ResyncProofs.encs_of]. rewrite (@lenN_nil byte).
      assert (FB * (wlo w + lenN (w_files w)) <= FB * (U64_MAX + 1)) by (apply N.mul_le_mono_l; lia).
      lia.
    - rewrite <- EXX in *.
      assert (Hne : X <> []) by (rewrite EXX; discriminate).
      unfold JInv.stream_boundJ in Hbound. rewrite map_app in Hbound. fold X in Hbound.
      rewrite (H3 cursor_after_app) in Hbound. fold (jser OLD G) in Hbound.
      rewrite <- (jT_len P PRE OLD G) in Hbound. fold T in Hbound.
      fold a0 in Hbound. unfold ResyncProofs.cursor_after in Hbound.
      rewrite <- (HW encs_of_between a0 c X Hc1 Hc2 Hne), lenN_app, lenN_zerosN in Hbound.
      replace (wlo w) with (gh_base G + dl) by lia. unfold c in *. nia. }
  assert (Hcur : exists b, fs_get (c_fs (w_ctx w)) (filename (w_file w)) = Some (FFile b)).
  { rewrite <- (vfs_nil w Hp0). destruct (wr_ok_files w Hok) as (pre & Hpre' & _).
    destruct (Hfull (w_file w)) as (b & Hb & _); [rewrite Hpre'; apply in_or_app; right; now left|].
    now exists b. }
  assert (Ht : tinv P (c_ev (w_ctx w)) (c_fs (w_ctx w)) (w_file w) (w_off w) M buf (wlo w)
                    (wpos P w) w []).
  { unfold tinv, tsim. rewrite (@lenN_nil byte), N.add_0_r, app_nil_r.
    split.
    { split; [exact Hw|]. split; [reflexivity|]. split; [exact Hlb|]. split; [exact HS|exact HM]. }
    split; [reflexivity|]. exists []. split; [now rewrite app_nil_r|].
    exists [], []. cbn [rev app fold_left].
    split; [reflexivity|]. split; [reflexivity|]. split; [exact Hcur|].
    split; [|now rewrite Hp0].
    replace (os_pos w) with (w_off w); [constructor|].
    unfold os_pos. rewrite Hp0, (@lenN_nil byte). lia. }
  destruct (HG step_trace_rel _ _ _ _ M buf (wlo w) (wpos P w) st a o tick st' out Ht Hpol
              eq_refl eq_refl Hp0 eq_refl eq_refl (N.le_refl _) Hstep Hno)
    as (evs & Hev & Hfs & Hct & Hp').
  exists evs. fold X in Hct. rewrite EX in Hct.
  split; [exact Hev|]. split; [exact Hfs|]. split; [exact Hct|exact Hp'].
Qed.

Theorem stepJ_call_trace st G a o tick st' out :
  InvJ st G -> w_pending (s_wr st) = [] -> s_pol st = PAlways a ->
  stream_boundJ G (map snd (step_log P st o)) ->
  step P st o tick = (st', out) -> (forall e, out <> OutIo e) ->
  let w := s_wr st in
  exists evs,
    c_ev (w_ctx (s_wr st')) = rev evs ++ c_ev (w_ctx w) /\
    c_fs (w_ctx (s_wr st')) = fold_left apply_event evs (c_fs (w_ctx w)) /\
    call_trace (wlo w) (w_file w) (w_off w) (call_bytes st G o)
               (w_file (s_wr st')) (w_off (s_wr st')) evs /\
    w_pending (s_wr st') = [].
Proof. intros (HP & _). now apply pinvJ_step_call_trace. Qed.

Theorem crashJ_image_shape st G a o tick st' out :
  InvJ st G -> w_pending (s_wr st) = [] -> s_pol st = PAlways a ->
  op_wf_strict (s_qs st) o ->
  stream_boundJ G (map snd (step_log P st o)) ->
  step P st o tick = (st', out) -> (forall e, out <> OutIo e) ->
  let w := s_wr st in
  let fs0 := c_fs (w_ctx w) in
  let lo := wlo w in
  let T := jT G in
  let c0 := call_cursor st G in
  let NEW := call_bytes st G o in
  exists evs,
    c_ev (w_ctx (s_wr st')) = rev evs ++ c_ev (w_ctx w) /\
    c_fs (w_ctx (s_wr st')) = fold_left apply_event evs fs0 /\
    call_trace lo (w_file w) (w_off w) NEW (w_file (s_wr st')) (w_off (s_wr st')) evs /\
    forall cut k,
      let pe := crash_events evs cut k in
      let img := fold_left apply_event pe fs0 in
      let j := lenN (ev_data pe) in
      exists (nu : nat) (hi : N) (short : bool) (z : N),
        let lo' := lo + N.of_nat nu in
        (* the file set *)
        lo' <= hi /\ w_file w <= hi /\ hi <= w_file (s_wr st') /\ hi <= U64_MAX /\
        nodup_keys img /\ dir_of img (nfiles lo' hi) /\ list_wal_numbers img = nfiles lo' hi /\
        (forall n, lo' <= n <= hi ->
           exists b, fs_get img (filename n) = Some (FFile b) /\
                     lenN b = if short && (n =? hi) then 0 else FB) /\
        (short = true -> w_file w < hi /\ nu = 0%nat) /\
        (* the stream *)
        ev_data pe = takeN j NEW /\ j <= lenN NEW /\
        stream_of (zext img hi) (nfiles lo' hi) =
          dropN ((lo' - gh_base G) * FB)
                (T ++ zerosN (c0 - lenN T) ++ takeN j NEW ++ zerosN z) /\
        c0 + j + z = (hi + 1 - gh_base G) * FB /\
        (* unlinks come after the flush *)
        (nu <> 0%nat -> j = lenN NEW).
Proof.
  intros HI Hp0 Hpol Hop Hbound Hstep Hno w fs0 lo T c0 NEW.
  subst w fs0 lo T c0 NEW. set (w := s_wr st) in *.
  assert (HP : PInvJ w G) by apply HI.
  destruct (pinvJ_step_call_trace st G a o tick st' out HP Hp0 Hpol Hbound Hstep Hno)
    as (evs & Hev & Hfs & Hct & _). cbn zeta in *. fold w in Hev, Hfs, Hct.
  exists evs. split; [exact Hev|]. split; [exact Hfs|]. split; [exact Hct|].
  (* the final file number fits in a u64 *)
  destruct (invJ_step P HBS_lo HBS_hi HNB Hcrc HGC PRE OLD opos Hpre st G o tick st' out
              HI Hop Hbound Hstep Hno)
    as (G' & HI' & _).
  destruct (InvJ_winv P PRE OLD opos st' G' HI') as ((_ & _ & _ & _ & Hu' & _) & _ & _).
  (* the directory before the call *)
  destruct (pinvJ_setup w G HP) as (Hlb & Ebuf & HS & Hposn & Hn & Hn1). cbn zeta in *.
  pose proof HP as (Hw & (_ & Hdir) & Hnd & Hbase & Hc1 & Hc2 & _). cbn zeta in Hc1, Hc2.
  pose proof Hw as (Hok & Hwf' & Hoff & Hplan & Hu & Hfull & Hfresh).
  rewrite (vfs_nil w Hp0) in Hfull, Hfresh.
  set (fs0 := c_fs (w_ctx w)) in *. set (lo := wlo w) in *. set (f0 := w_file w) in *.
  assert (Hlo : lo <= f0) by lia.
  assert (Efiles : w_files w = nfiles lo f0).
  { rewrite (HN wr_ok_iota w Hok). fold lo. unfold nfiles. f_equal.
    rewrite lenN_length in Hn. lia. }
  assert (Hfull0 : forall n, lo <= n <= f0 -> full_file P fs0 n).
  { intros n Hn'. apply Hfull. rewrite Efiles. apply (HN nfiles_In); lia. }
  assert (Hgood : good P fs0 f0 U64_MAX).
  { split; [apply Hfull0; lia|]. intros n H1 H2'. now apply Hfresh. }
  assert (Hdir0 : dir_of fs0 (nfiles lo f0)).
  { rewrite <- Efiles. apply Hdir. exact Hu. }
  assert (ES0 : stream_of fs0 (nfiles lo f0) = wstream w).
  { unfold wstream. now rewrite (vfs_nil w Hp0), Efiles. }
  assert (Epos : (f0 - lo) * FB + w_off w = wpos P w).
  { unfold wpos. f_equal. f_equal. lia. }
  intros cut k. cbn zeta.
  set (pe := crash_events evs cut k).
  pose proof (crash_events_cpre evs cut k) as Hc. fold pe in Hc.
  destruct (cpre_data_take _ _ Hc) as (Hdata & Hj).
  rewrite (call_trace_data _ _ _ _ _ _ _ _ Hct) in Hdata, Hj.
  destruct (HW call_trace_img _ _ _ _ _ _ _ Hct pe fs0 U64_MAX Hc Hgood Hlo Hu' (N.le_refl _))
    as (imgW & fc & short & mu & Hok' & Hfc & Hmu & Hfold & Hfullj).
  pose proof (HW img_ok_len _ _ _ _ _ _ _ Hok' (Hfull0 f0 ltac:(lia)) Hoff ltac:(lia)) as Hlen.
  destruct (HW assemble fs0 lo f0 (w_off w) imgW (ev_data pe) fc short mu Hlo ltac:(lia) Hfull0 Hdir0
              Hok' Hmu) as (Hdir' & Hlen' & Hstr').
  pose proof Hok' as (Hle' & _ & _ & Hshort' & _).
  set (j := lenN (ev_data pe)) in *.
  exists mu, fc, short,
    (lenN (w_files w) * FB + (fc - f0) * FB - wpos P w - j).
  rewrite Hfold.
  assert (Hndi : nodup_keys (remove_files imgW (iota lo mu))).
  { rewrite <- Hfold. apply fold_nodup. exact Hnd. }
  split; [exact Hmu|]. split; [exact Hle'|]. split; [exact Hfc|]. split; [lia|].
  split; [exact Hndi|].
  split; [exact Hdir'|]. split; [apply (HN dir_listing); [exact Hndi|exact Hdir'|exact Hmu|lia]|].
  split; [exact Hlen'|].
  split.
  { intros Hs. split; [now apply Hshort'|].
    destruct mu as [|mu']; [reflexivity|].
    destruct (Hfullj ltac:(discriminate)) as (_ & E). congruence. }
  split; [exact Hdata|]. split; [exact Hj|].
  assert (Hbound' : wpos P w + j <= lenN (w_files w) * FB + (fc - f0) * FB).
  { rewrite <- Epos. replace (lenN (w_files w)) with (f0 - lo + 1) by lia. lia. }
  split.
  { rewrite Hstr', ES0, Epos, HS. rewrite <- Hdata.
    replace (lo + N.of_nat mu - gh_base G) with ((lo - gh_base G) + N.of_nat mu) by lia.
    rewrite N.mul_add_distr_r.
    apply (HW stream_to_ghost); try assumption; try reflexivity. }
  split.
  { unfold CrashTrace.call_cursor. fold w. fold lo.
    replace (fc + 1 - gh_base G) with ((lo - gh_base G) + lenN (w_files w) + (fc - f0)) by lia.
    lia. }
  intros Hnu. destruct (Hfullj Hnu) as (E & _). unfold j. now rewrite E.
Qed.

End JCrashShape.

Print Assumptions pinvJ_step_call_trace.
Print Assumptions stepJ_call_trace.
Print Assumptions crashJ_image_shape.
