(* PropC06.v — C06: WAL files are reclaimed as soon as nothing retained lives in them. wr_ok = the tracked files are a contiguous run ending at the file being written.
   Statements only; each theorem is closed by `exact <lemma>`; proofs live in the imported files. *)
From Coq Require Import Lia NArith List.
From MRL Require Import Bytes Params Names Frame Record Mem Rolling Log Hist GcProofs.

(* the GC loop removes exactly a prefix of unreferenced files, unlinks them in order, and never stops early (one file left, or the first one left is referenced) *)
Theorem C06_gc_loop :
    forall (files : list N) (c : ioctx) (refd : N -> bool) (c' : ioctx) (files' : list N),
    gc_loop c files refd = (c', files', Ok tt) ->
    exists dropped : list N,
    files = dropped ++ files' /\
    Forall (fun f : N => refd f = false) dropped /\
    gc_tight refd files files' /\
    c_ev c' = unlink_events dropped ++ c_ev c /\
    c_fs c' = remove_files (c_fs c) dropped /\
    c_plan c' = c_plan c /\
    c_nreaddir c' = c_nreaddir c /\ c_nopen c' = c_nopen c /\ c_nread c' = c_nread c.
Proof. exact gc_loop_ok. Qed.
Print Assumptions C06_gc_loop.

(* every call keeps the tracked files a contiguous run ending at the file being written *)
Theorem C06_contiguous_preserved :
    forall (P : params) (st : state) (o : op) (tick : bool),
    wr_ok (s_wr st) -> wr_ok (s_wr (fst (step P st o tick))).
Proof. exact step_wr_ok. Qed.
Print Assumptions C06_contiguous_preserved.

(* after a successful truncate / delete_queue the oldest file is the current one, or still referenced by a retained record, or not older than the file being written when the call began *)
Theorem C06_tight :
    forall (P : params) (st : state) (o : op) (tick : bool) (st' : state) (out : outcome),
    wr_ok (s_wr st) ->
    step P st o tick = (st', out) ->
    (exists (q : bytes) (p : N) (h : list bytes) (ev n : N), o = OTruncate q p h /\ out = OutTruncate ev n) \/
    (exists (q : bytes) (h : list bytes) (n : N), o = ODelete q h /\ out = OutDelete n) ->
    exists lo : N,
    hd_error (w_files (s_wr st')) = Some lo /\
    (lo = w_file (s_wr st') \/ qs_ref lo (s_qs st') = true \/ w_file (s_wr st) <= lo).
Proof. exact step_gc_tight. Qed.
Print Assumptions C06_tight.

(* and disk_used_bytes is the size of exactly that run *)
Theorem C06_disk_used :
    forall (P : params) (st : state) (o : op) (tick : bool) (st' : state) (out : outcome),
    wr_ok (s_wr st) ->
    step P st o tick = (st', out) ->
    (exists (q : bytes) (p : N) (h : list bytes) (ev n : N), o = OTruncate q p h /\ out = OutTruncate ev n) \/
    (exists (q : bytes) (h : list bytes) (n : N), o = ODelete q h /\ out = OutDelete n) ->
    exists lo : N,
    hd_error (w_files (s_wr st')) = Some lo /\
    lo <= w_file (s_wr st') /\
    log_disk_used P st' = (w_file (s_wr st') - lo + 1) * FILE_BYTES P /\
    (lo = w_file (s_wr st') \/ qs_ref lo (s_qs st') = true \/ w_file (s_wr st) <= lo).
Proof. exact step_gc_disk_used. Qed.
Print Assumptions C06_disk_used.

(* the directory's WAL files are exactly the tracked ones after every call (file numbers below 2^64, no duplicate directory entries) *)
Theorem C06_directory_is_tracker :
    forall (P : params) (st : state) (o : op) (tick : bool),
    nodup_keys (c_fs (w_ctx (s_wr st))) ->
    wr_ok (s_wr st) ->
    dir_ok (s_wr st) ->
    w_file (s_wr (fst (step P st o tick))) <= U64_MAX ->
    list_wal_numbers (c_fs (w_ctx (s_wr (fst (step P st o tick))))) =
    w_files (s_wr (fst (step P st o tick))).
Proof. exact step_listing. Qed.
Print Assumptions C06_directory_is_tracker.

(* GC never fails on a consistent directory *)
Theorem C06_gc_no_err :
    forall (w : rwriter) (refd : N -> bool) (c : ioctx) (files : list N) (r : res unit),
    gc_loop (w_ctx w) (w_files w) refd = (c, files, r) ->
    wr_ok w -> dir_ok w -> w_file w <= U64_MAX -> r = Ok tt.
Proof. exact gc_loop_no_err. Qed.
Print Assumptions C06_gc_no_err.

