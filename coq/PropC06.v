(* PropC06.v — C06: WAL files are reclaimed as soon as nothing retained lives in them. wr_ok = the tracked files are a contiguous run ending at the file being written.
   Statements only; each theorem is closed by `exact <lemma>`; proofs live in the imported files. *)
From Coq Require Import Lia NArith List.
From MRL Require Import Bytes Params Names Frame Record Mem Rolling Log Hist GcProofs GhostLog ReplaySpec HandleProofs.

(* the GC loop removes exactly a prefix of unreferenced files, unlinks them in order, and never stops early (one file left, or the first one left is referenced) *)
Theorem C06_gc_loop :
    forall (files : list N) (c : ioctx) (refd : N -> bool) (c' : ioctx) (files' : list N),
    gc_loop c files refd = (c', files', Ok tt) ->
    exists dropped : list N,
    files = dropped ++ files' /\
    Forall (fun f : N => refd f = false) dropped /\
    gc_tight refd files files' /\
    c_ev c' = unlink_events dropped ++ c_ev c /\
    c_fs c' = remove_files (c_fs c) dropped /\
    c_plan c' = c_plan c /\
    c_nreaddir c' = c_nreaddir c /\ c_nopen c' = c_nopen c /\ c_nread c' = c_nread c.
Proof. exact gc_loop_ok. Qed.
Print Assumptions C06_gc_loop.

(* every call keeps the tracked files a contiguous run ending at the file being written *)
Theorem C06_contiguous_preserved :
    forall (P : params) (st : state) (o : op) (tick : bool),
    wr_ok (s_wr st) -> wr_ok (s_wr (fst (step P st o tick))).
Proof. exact step_wr_ok. Qed.
Print Assumptions C06_contiguous_preserved.

(* after a successful truncate / delete_queue the oldest file is the current one, or still referenced by a retained record, or not older than the file being written when the call began *)
Theorem C06_tight :
    forall (P : params) (st : state) (o : op) (tick : bool) (st' : state) (out : outcome),
    wr_ok (s_wr st) ->
    step P st o tick = (st', out) ->
    (exists (q : bytes) (p : N) (h : list bytes) (ev n : N), o = OTruncate q p h /\ out = OutTruncate ev n) \/
    (exists (q : bytes) (h : list bytes) (n : N), o = ODelete q h /\ out = OutDelete n) ->
    exists lo : N,
    hd_error (w_files (s_wr st')) = Some lo /\
    (lo = w_file (s_wr st') \/ qs_ref lo (s_qs st') = true \/ w_file (s_wr st) <= lo).
Proof. exact step_gc_tight. Qed.
Print Assumptions C06_tight.

(* and disk_used_bytes is the size of exactly that run *)
Theorem C06_disk_used :
    forall (P : params) (st : state) (o : op) (tick : bool) (st' : state) (out : outcome),
    wr_ok (s_wr st) ->
    step P st o tick = (st', out) ->
    (exists (q : bytes) (p : N) (h : list bytes) (ev n : N), o = OTruncate q p h /\ out = OutTruncate ev n) \/
    (exists (q : bytes) (h : list bytes) (n : N), o = ODelete q h /\ out = OutDelete n) ->
    exists lo : N,
    hd_error (w_files (s_wr st')) = Some lo /\
    lo <= w_file (s_wr st') /\
    log_disk_used P st' = (w_file (s_wr st') - lo + 1) * FILE_BYTES P /\
    (lo = w_file (s_wr st') \/ qs_ref lo (s_qs st') = true \/ w_file (s_wr st) <= lo).
Proof. exact step_gc_disk_used. Qed.
Print Assumptions C06_disk_used.

(* the directory's WAL files are exactly the tracked ones after every call (file numbers below 2^64, no duplicate directory entries) *)
Theorem C06_directory_is_tracker :
    forall (P : params) (st : state) (o : op) (tick : bool),
    nodup_keys (c_fs (w_ctx (s_wr st))) ->
    wr_ok (s_wr st) ->
    dir_ok (s_wr st) ->
    w_file (s_wr (fst (step P st o tick))) <= U64_MAX ->
    list_wal_numbers (c_fs (w_ctx (s_wr (fst (step P st o tick))))) =
    w_files (s_wr (fst (step P st o tick))).
Proof. exact step_listing. Qed.
Print Assumptions C06_directory_is_tracker.

(* GC never fails on a consistent directory *)
Theorem C06_gc_no_err :
    forall (w : rwriter) (refd : N -> bool) (c : ioctx) (files : list N) (r : res unit),
    gc_loop (w_ctx w) (w_files w) refd = (c, files, r) ->
    wr_ok w -> dir_ok w -> w_file w <= U64_MAX -> r = Ok tt.
Proof. exact gc_loop_no_err. Qed.
Print Assumptions C06_gc_no_err.

(* the Option<FileNumber> handles: after replaying any entry log, the file in which the entry of EVERY retained record was written is referenced by some record handle (the last record of each run holds it) *)
Theorem C06_handles_cover_records :
    forall (fes : glog) (qs : queues) (F : tmap) (q : bytes) (rf : list trec) (n : N) (r : trec),
    replay_entries [] fes = Some qs ->
    t_replay [] 0 (map snd fes) = Some F ->
    t_get F q = Some (rf, n) -> In r rf -> qs_ref (file_of fes (fst r)) qs = true.
Proof. exact tagged_record_file_referenced. Qed.
Print Assumptions C06_handles_cover_records.

(* hence a file that no handle references holds the entry of no retained record: deleting it loses nothing *)
Theorem C06_unreferenced_file_is_empty :
    forall (fes : glog) (qs : queues) (F : tmap) (f : N),
    replay_entries [] fes = Some qs ->
    t_replay [] 0 (map snd fes) = Some F ->
    qs_ref f qs = false ->
    forall (q : bytes) (rf : list trec) (n : N) (r : trec),
    t_get F q = Some (rf, n) -> In r rf -> file_of fes (fst r) <> f.
Proof. exact unreferenced_file_no_tagged_record. Qed.
Print Assumptions C06_unreferenced_file_is_empty.

(* the same invariant is kept by every live call *)
Theorem C06_live_handles :
    forall (P : params) (st : state) (L : glog) (o : op) (tick : bool) (st' : state)
    (L' : glog) (out : outcome) (am : amap),
    nodup_names (s_qs st) ->
    attr_inv am (s_qs st) ->
    gstep P (st, L) o tick = (st', L', out) ->
    (forall e : ioerr, out <> OutIo e) ->
    exists (es : list (N * entry)) (am' : amap),
    L' = L ++ es /\ a_replay am (s_qs st) es = Some (am', s_qs st') /\ attr_inv am' (s_qs st').
Proof. exact live_step_attr_inv. Qed.
Print Assumptions C06_live_handles.

(* and after GC every retained record was written in a kept file *)
Theorem C06_attrs_ge_first_kept :
    forall (fes : glog) (am : amap) (qs : queues) (lo : N),
    a_replay [] [] fes = Some (am, qs) ->
    (forall f : N, In f (map fst fes) -> f < lo -> qs_ref f qs = false) ->
    forall (q : bytes) (attrs : list N), g_get am q = Some attrs -> Forall (fun a : N => lo <= a) attrs.
Proof. exact attrs_ge_first_kept. Qed.
Print Assumptions C06_attrs_ge_first_kept.

