(* StreamProofs.v — property C07: entries of any size round-trip at any block alignment
   (in-memory writer vecw / block reader vecr of Driver.v). *)
From Coq Require Import Lia ZArith ZifyN ZifyNat ZifyBool.
From MRL Require Import Bytes BytesProofs Params Frame Driver.

Arguments N.add : simpl never.
Arguments N.sub : simpl never.
Arguments N.mul : simpl never.
Arguments N.eqb : simpl never.
Arguments N.ltb : simpl never.
Arguments N.leb : simpl never.
Arguments N.div : simpl never.
Arguments N.modulo : simpl never.
Arguments N.min : simpl never.

(* ---------- generic list/slice helpers ---------- *)
Lemma takeN_app_exact' {A} n (a b : list A) : lenN a = n -> takeN n (a ++ b) = a.
Proof. intros <-. apply takeN_app_exact. Qed.

Lemma dropN_app_exact' {A} n (a b : list A) : lenN a = n -> dropN n (a ++ b) = b.
Proof. intros <-. apply dropN_app_exact. Qed.

Lemma sliceN_app_mid' {A} lo hi (a b c : list A) :
  lenN a = lo -> lo + lenN b = hi -> sliceN lo hi (a ++ b ++ c) = b.
Proof. intros <- <-. apply sliceN_app_mid. Qed.

Lemma dropN_takeN {A} c n (l : list A) : dropN c (takeN n l) = takeN (n - c) (dropN c l).
Proof.
  rewrite !dropN_skipn, !takeN_firstn.
  destruct (N.le_gt_cases c n) as [Hle|Hgt].
  - rewrite firstn_skipn_comm. f_equal. f_equal. lia.
  - replace (N.to_nat (n - c)) with 0%nat by lia. rewrite firstn_O.
    apply skipn_all2. rewrite firstn_length. lia.
Qed.

Lemma sliceN_sliceN {A} c d lo hi (l : list A) :
  lo + d <= hi -> sliceN c d (sliceN lo hi l) = sliceN (lo + c) (lo + d) l.
Proof.
  intros H. unfold sliceN. rewrite dropN_takeN, takeN_takeN, dropN_dropN.
  f_equal. lia.
Qed.

Lemma all_zero_takeN n l : all_zero l = true -> all_zero (takeN n l) = true.
Proof.
  intros H. rewrite <- (takeN_dropN n l), all_zero_app in H.
  now apply andb_true_iff in H as [H1 _].
Qed.

Lemma all_zero_dropN n l : all_zero l = true -> all_zero (dropN n l) = true.
Proof.
  intros H. rewrite <- (takeN_dropN n l), all_zero_app in H.
  now apply andb_true_iff in H as [_ H2].
Qed.

Lemma div_sub_same x D : 0 < D -> D <= x -> (x - D) / D + 1 = x / D.
Proof.
  intros HD Hx. replace x with ((x - D) + 1 * D) at 2 by lia.
  rewrite N.div_add by lia. reflexivity.
Qed.

(* abstract every quotient into an opaque N variable (lia then knows it is >= 0) *)
Ltac nodiv := repeat match goal with
  | |- context [N.div ?a ?b] => let q := fresh "q" in set (q := N.div a b) in *; clearbody q
  | H : context [N.div ?a ?b] |- _ => let q := fresh "q" in set (q := N.div a b) in *; clearbody q
  end.

(* ---------- header facts (no parameters needed) ---------- *)
Lemma ft_of_code_code t : ft_of_code (ft_code t) = Some t.
Proof. destruct t; reflexivity. Qed.

Lemma b2n_n2b_code t : b2n (n2b (ft_code t)) = ft_code t.
Proof. destruct t; reflexivity. Qed.

Lemma lenN_header crc len t : lenN (header_bytes crc len t) = 7.
Proof. unfold header_bytes. rewrite !lenN_app, !length_le_enc. reflexivity. Qed.

Lemma header_not_zero crc len t : all_zero (header_bytes crc len t) = false.
Proof.
  unfold header_bytes. rewrite !all_zero_app.
  replace (all_zero [n2b (ft_code t)]) with false by (destruct t; reflexivity).
  now rewrite !andb_false_r.
Qed.

Lemma header_crc crc len t : crc < 2 ^ 32 -> le_dec (takeN 4 (header_bytes crc len t)) = crc.
Proof.
  intros H. unfold header_bytes.
  rewrite takeN_app_exact' by (rewrite length_le_enc; reflexivity).
  apply le_dec_enc_small. exact H.
Qed.

Lemma header_len crc len t : len < 2 ^ 16 -> le_dec (sliceN 4 6 (header_bytes crc len t)) = len.
Proof.
  intros H. unfold header_bytes.
  rewrite sliceN_app_mid' by (rewrite length_le_enc; reflexivity).
  apply le_dec_enc_small. exact H.
Qed.

Lemma header_type crc len t : le_dec (dropN 6 (header_bytes crc len t)) = ft_code t.
Proof.
  unfold header_bytes. rewrite app_assoc.
  rewrite dropN_app_exact' by (rewrite lenN_app, !length_le_enc; reflexivity).
  destruct t; reflexivity.
Qed.

Lemma is_first_frame_type f l : is_first_frame (frame_type f l) = f.
Proof. destruct f, l; reflexivity. Qed.
Lemma is_last_frame_type f l : is_last_frame (frame_type f l) = l.
Proof. destruct f, l; reflexivity. Qed.

Section C07.
Variable P : params.
Hypothesis HBS_lo : 7 < BS P.
Hypothesis HBS_hi : BS P <= 65542.
Hypothesis Hcrc : forall t p, crcf P t p < 2 ^ 32.

Local Notation B := (BS P).

Lemma lenN_frame_bytes t p : lenN (frame_bytes P t p) = 7 + lenN p.
Proof. unfold frame_bytes. now rewrite lenN_app, lenN_header. Qed.

Lemma aligned_intro y k : y = k * B -> y mod B = 0.
Proof. intros ->. apply N.mod_mul. lia. Qed.

(* ---------- what the writer emits, as a relation ---------- *)
(* zero padding emitted before a frame when the cursor is at absolute position a *)
Definition pad_of (a : N) : bytes :=
  if B - a mod B <? 7 then zerosN (B - a mod B) else [].
(* payload bytes taken by the frame written at a *)
Definition chunk_of (a : N) (p : bytes) : N :=
  N.min (max_writable P (B - a mod B)) (lenN p).

Lemma mod_lt_B a : a mod B < B.
Proof. apply N.mod_lt. lia. Qed.

Lemma lenN_pad_of a : lenN (pad_of a) = if B - a mod B <? 7 then B - a mod B else 0.
Proof. unfold pad_of. destruct (B - a mod B <? 7); [apply lenN_zerosN|reflexivity]. Qed.

Lemma max_writable_eq r :
  max_writable P r = if 7 <=? r then r - 7 else B - 7.
Proof. reflexivity. Qed.

Lemma chunk_le a p : chunk_of a p <= lenN p.
Proof. unfold chunk_of. lia. Qed.

Lemma lenN_take_chunk a p : lenN (takeN (chunk_of a p) p) = chunk_of a p.
Proof. rewrite lenN_takeN. pose proof (chunk_le a p). lia. Qed.

(* enc_rel a f p e k: writing payload p (first frame flag f) at cursor a emits e, in k frames *)
Inductive enc_rel : N -> bool -> bytes -> bytes -> nat -> Prop :=
| ER_last a f p :
    dropN (chunk_of a p) p = [] ->
    enc_rel a f p (pad_of a ++ frame_bytes P (frame_type f true) (takeN (chunk_of a p) p)) 1
| ER_more a f p e k :
    dropN (chunk_of a p) p <> [] ->
    enc_rel (a + lenN (pad_of a) + 7 + chunk_of a p) false (dropN (chunk_of a p) p) e k ->
    enc_rel a f p
      (pad_of a ++ frame_bytes P (frame_type f false) (takeN (chunk_of a p) p) ++ e) (S k).

Lemma enc_rel_frames a f p e k : enc_rel a f p e k -> 7 * N.of_nat k <= lenN e /\ (1 <= k)%nat.
Proof.
  induction 1 as [a f p Hd | a f p e k Hd Hr [IH1 IH2]].
  - rewrite lenN_app, lenN_frame_bytes. lia.
  - rewrite !lenN_app, lenN_frame_bytes. lia.
Qed.

(* ---------- the in-memory writer ---------- *)
Lemma write_frame_vecw w t fp :
  write_frame P vecw (vw_write) (vw_rem P) w t fp =
  (mkVecW (vw_cursor w + lenN (pad_of (vw_cursor w) ++ frame_bytes P t fp))
          (vw_buf w ++ pad_of (vw_cursor w) ++ frame_bytes P t fp),
   Ok (lenN (pad_of (vw_cursor w) ++ frame_bytes P t fp))).
Proof.
  unfold write_frame, vw_rem, pad_of, HEADER_LEN.
  destruct (N.ltb_spec (B - vw_cursor w mod B) 7) as [Hlt|Hge].
  - unfold vw_write at 1. cbn [vw_cursor vw_buf]. unfold vw_write. cbn [vw_cursor vw_buf].
    rewrite !lenN_app, lenN_zerosN, lenN_frame_bytes, <- !app_assoc.
    f_equal; f_equal; lia.
  - unfold vw_write. cbn [app]. rewrite lenN_frame_bytes. f_equal; f_equal; lia.
Qed.

Lemma write_loop_vecw fuel : forall w f p acc,
  (vw_cursor w mod B = 0 -> lenN p / (B - 7) + 1 <= N.of_nat fuel) ->
  (vw_cursor w mod B <> 0 -> lenN p / (B - 7) + 2 <= N.of_nat fuel) ->
  exists e k,
    enc_rel (vw_cursor w) f p e k /\
    write_record_loop P vecw vw_write (vw_rem P) fuel w f p acc =
      (mkVecW (vw_cursor w + lenN e) (vw_buf w ++ e), Ok (acc + lenN e)).
Proof.
  induction fuel as [|fuel IH]; intros w f p acc H0 H1.
  - exfalso. destruct (N.eq_dec (vw_cursor w mod B) 0) as [E|E]; [specialize (H0 E)|specialize (H1 E)]; nodiv; lia.
  - cbn [write_record_loop].
    change (N.min (max_writable P (vw_rem P w)) (lenN p)) with (chunk_of (vw_cursor w) p).
    set (a := vw_cursor w) in *. set (n := chunk_of a p).
    rewrite write_frame_vecw. fold a.
    destruct (dropN n p) as [|x rest] eqn:Hd.
    + cbn [isnil]. exists (pad_of a ++ frame_bytes P (frame_type f true) (takeN n p)), 1%nat.
      split; [apply ER_last; exact Hd|]. reflexivity.
    + cbn [isnil]. rewrite <- Hd.
      set (fb := frame_bytes P (frame_type f false) (takeN n p)).
      set (w1 := mkVecW (a + lenN (pad_of a ++ fb)) (vw_buf w ++ pad_of a ++ fb)).
      assert (Hlen : lenN (pad_of a ++ fb) = lenN (pad_of a) + 7 + n).
      { unfold fb. rewrite lenN_app, lenN_frame_bytes. unfold n. rewrite lenN_take_chunk. lia. }
      assert (Hnlt : n < lenN p).
      { assert (lenN (dropN n p) <> 0) by (rewrite Hd, lenN_cons; lia).
        rewrite lenN_dropN in H. lia. }
      assert (Hn : n = max_writable P (B - a mod B)).
      { unfold n, chunk_of in *. lia. }
      assert (Hal : vw_cursor w1 mod B = 0).
      { unfold w1. cbn [vw_cursor]. rewrite Hlen, Hn, lenN_pad_of, max_writable_eq.
        pose proof (mod_lt_B a) as Hm. pose proof (N.div_mod a B) as Hdm.
        destruct (N.ltb_spec (B - a mod B) 7) as [Hlt|Hge];
          destruct (N.leb_spec 7 (B - a mod B)) as [Hle|Hgt]; try lia.
        - apply (aligned_intro _ (a / B + 2)). nodiv. lia.
        - apply (aligned_intro _ (a / B + 1)). nodiv. lia. }
      destruct (IH w1 false (dropN n p) (acc + lenN (pad_of a ++ fb))) as (e & k & Hrel & Hloop).
      * intros _. rewrite lenN_dropN.
        destruct (N.eq_dec (a mod B) 0) as [E|E].
        -- specialize (H0 E). 
           assert (n = B - 7).
           { rewrite Hn, max_writable_eq, E.
             destruct (N.leb_spec 7 (B - 0)); lia. }
           pose proof (div_sub_same (lenN p) (B - 7)) as Hds. subst n.
           rewrite H in *. nodiv. lia.
        -- specialize (H1 E).
           pose proof (N.div_le_mono (lenN p - n) (lenN p) (B - 7)) as Hmono. nodiv. lia.
      * intros Hne. contradiction.
      * exists (pad_of a ++ fb ++ e), (S k). split.
        -- apply ER_more; fold n; [rewrite Hd; discriminate|].
           unfold w1 in Hrel. cbn [vw_cursor] in Hrel. rewrite Hlen in Hrel.
           replace (a + lenN (pad_of a) + 7 + n) with (a + (lenN (pad_of a) + 7 + n)) by lia.
           exact Hrel.
        -- rewrite Hloop. unfold w1. cbn [vw_cursor vw_buf].
           rewrite <- !app_assoc. rewrite !lenN_app. f_equal; [f_equal; lia|f_equal; lia].
Qed.

Lemma write_record_vecw w p :
  exists e k,
    enc_rel (vw_cursor w) true p e k /\
    write_record P vecw vw_write (vw_rem P) w p =
      (mkVecW (vw_cursor w + lenN e) (vw_buf w ++ e), Ok (lenN e)).
Proof.
  unfold write_record, record_fuel, HEADER_LEN.
  destruct (write_loop_vecw (N.to_nat (lenN p / (B - 7) + 3)) w true p 0) as (e & k & Hrel & Hloop).
  - intros _. nodiv. lia.
  - intros _. nodiv. lia.
  - exists e, k. split; [exact Hrel|]. rewrite Hloop. reflexivity.
Qed.

(* for the vecw writer, write_record never returns an error *)
Theorem write_record_never_fails : forall w p,
  exists w' n, write_record P vecw vw_write (vw_rem P) w p = (w', Ok n).
Proof.
  intros w p. destruct (write_record_vecw w p) as (e & k & _ & H).
  rewrite H. eauto.
Qed.

(* the returned count is the growth of the buffer and of the cursor; the buffer only grows *)
Theorem write_record_count : forall w p w' n,
  write_record P vecw vw_write (vw_rem P) w p = (w', Ok n) ->
  vw_cursor w' = vw_cursor w + n /\
  exists e, vw_buf w' = vw_buf w ++ e /\ lenN e = n.
Proof.
  intros w p w' n H. destruct (write_record_vecw w p) as (e & k & _ & H').
  rewrite H' in H. inversion H; subst. cbn [vw_cursor vw_buf]. split; [reflexivity|].
  exists e. split; reflexivity.
Qed.

(* ---------- the block reader over a stream S ---------- *)
Definition rd_at (S : bytes) (k c : N) : freader vecr :=
  mkFR (mkVecR (dropN ((k + 1) * B) S) (sliceN (k * B) ((k + 1) * B) S)) c false.

Local Notation rframe := (read_frame P vecr (vr_next P) vr_block).
Local Notation gonext := (go_next P vecr (vr_next P) vr_block).

Lemma read_frame_skip S k c :
  B - c < 7 -> (k + 2) * B <= lenN S ->
  rframe (rd_at S k c) = rframe (rd_at S (k + 1) 0).
Proof.
  intros Hc Hlen. unfold read_frame, rd_at, HEADER_LEN. cbn [fr_corrupt fr_cursor fr_rd orb].
  destruct (N.ltb_spec (B - c) 7) as [_|Hge]; [|lia].
  destruct (N.ltb_spec (B - 0) 7) as [Hlt|_]; [lia|].
  unfold vr_next. cbn [vr_rest vr_block].
  rewrite lenN_dropN.
  destruct (N.ltb_spec (lenN S - (k + 1) * B) B) as [Hlt|_]; [lia|].
  rewrite dropN_dropN.
  replace ((k + 1) * B + B) with ((k + 1 + 1) * B) by lia.
  replace (takeN B (dropN ((k + 1) * B) S)) with (sliceN ((k + 1) * B) ((k + 1 + 1) * B) S)
    by (unfold sliceN; f_equal; lia).
  reflexivity.
Qed.

Lemma read_frame_here S k c pre t p post :
  S = pre ++ frame_bytes P t p ++ post -> lenN pre = k * B + c ->
  c + 7 + lenN p <= B -> (k + 1) * B <= lenN S ->
  rframe (rd_at S k c) = (rd_at S k (c + 7 + lenN p), FOk t p).
Proof.
  intros HS Hpre Hfit Hlen.
  set (crc := crcf P (n2b (ft_code t)) p).
  assert (Hhdr : sliceN c (c + 7) (sliceN (k * B) ((k + 1) * B) S) = header_bytes crc (lenN p) t).
  { rewrite sliceN_sliceN by lia. rewrite HS. unfold frame_bytes. fold crc.
    rewrite <- app_assoc. apply sliceN_app_mid'; [exact Hpre|]. rewrite lenN_header. lia. }
  assert (Hpay : sliceN (c + 7) (c + 7 + lenN p) (sliceN (k * B) ((k + 1) * B) S) = p).
  { rewrite sliceN_sliceN by lia. rewrite HS. unfold frame_bytes. fold crc.
    rewrite <- app_assoc. rewrite (app_assoc pre).
    apply sliceN_app_mid'; [rewrite lenN_app, lenN_header; lia|]. lia. }
  unfold read_frame, rd_at, HEADER_LEN. cbn [fr_corrupt fr_cursor fr_rd orb vr_block].
  destruct (N.ltb_spec (B - c) 7) as [Hlt|_]; [lia|].
  cbn [fr_corrupt fr_cursor fr_rd orb vr_block].
  rewrite Hhdr, header_not_zero, header_type, ft_of_code_code.
  rewrite header_len by (change (2 ^ 16) with 65536; lia).
  rewrite header_crc by apply Hcrc.
  destruct (N.ltb_spec B (c + 7 + lenN p)) as [Hlt|_]; [lia|].
  rewrite Hpay. fold crc. rewrite N.eqb_refl. reflexivity.
Qed.

Definition stream_ok (S : bytes) : Prop := exists m, lenN S = m * B.
Definition at_pos (S : bytes) (fr : freader vecr) (a : N) : Prop :=
  exists k c, a = k * B + c /\ c <= B /\ (k + 1) * B <= lenN S /\ fr = rd_at S k c.

Lemma mod_kc k c : c < B -> (k * B + c) mod B = c.
Proof. intros H. rewrite N.add_comm, N.mod_add by lia. apply N.mod_small. exact H. Qed.

Lemma mod_kB k : (k * B + B) mod B = 0.
Proof. apply (aligned_intro _ (k + 1)). lia. Qed.

Lemma blocks_room m n x : n * B + x <= m * B -> 0 < x -> (n + 1) * B <= m * B.
Proof.
  intros H Hx. apply N.mul_le_mono_r.
  destruct (N.le_gt_cases (n + 1) m) as [Hle|Hgt]; [exact Hle|].
  assert (m <= n) as Hmn by lia.
  pose proof (N.mul_le_mono_r m n B Hmn). lia.
Qed.

Lemma read_frame_at S fr a pre t fp post :
  stream_ok S -> at_pos S fr a ->
  S = pre ++ pad_of a ++ frame_bytes P t fp ++ post -> lenN pre = a ->
  lenN fp <= max_writable P (B - a mod B) ->
  exists fr', rframe fr = (fr', FOk t fp) /\
              at_pos S fr' (a + lenN (pad_of a) + 7 + lenN fp).
Proof.
  intros [m Hm] (k & c & Ha & Hc & Hblk & Hfr) HS Hpre Hfp. subst fr.
  assert (HlenS : lenN S = a + lenN (pad_of a) + 7 + lenN fp + lenN post).
  { rewrite HS, !lenN_app, lenN_frame_bytes. lia. }
  rewrite max_writable_eq in Hfp. rewrite lenN_pad_of in HlenS.
  destruct (N.ltb_spec (B - c) 7) as [Hskip|Hno].
  - (* the reader moves to the next block *)
    assert (Hnext : a + lenN (pad_of a) = (k + 1) * B /\ lenN fp <= B - 7).
    { rewrite lenN_pad_of. destruct (N.eq_dec c B) as [E|E].
      - assert (Hmod : a mod B = 0) by (rewrite Ha, E; apply mod_kB).
        rewrite Hmod in *.
        destruct (N.ltb_spec (B - 0) 7) as [Hlt|_]; [lia|].
        destruct (N.leb_spec 7 (B - 0)) as [_|Hlt]; lia.
      - assert (Hmod : a mod B = c) by (rewrite Ha; apply mod_kc; lia).
        rewrite Hmod in *.
        destruct (N.ltb_spec (B - c) 7) as [_|Hge]; [|lia].
        destruct (N.leb_spec 7 (B - c)) as [Hle|_]; lia. }
    destruct Hnext as [Hnext Hfp'].
    assert (Hroom : (k + 1 + 1) * B <= lenN S).
    { rewrite Hm. apply (blocks_room m (k + 1) 7); [|lia].
      rewrite <- Hm, HS, !lenN_app, lenN_frame_bytes. lia. }
    rewrite read_frame_skip by lia.
    rewrite (read_frame_here S (k + 1) 0 (pre ++ pad_of a) t fp post).
    + eexists. split; [reflexivity|].
      exists (k + 1), (0 + 7 + lenN fp). repeat split; lia.
    + rewrite HS, <- app_assoc. reflexivity.
    + rewrite lenN_app. lia.
    + lia.
    + exact Hroom.
  - (* the frame is in the current block *)
    assert (Hmod : a mod B = c) by (rewrite Ha; apply mod_kc; lia).
    assert (Hpad : pad_of a = []).
    { unfold pad_of. rewrite Hmod. destruct (N.ltb_spec (B - c) 7); [lia|reflexivity]. }
    rewrite Hmod in *.
    destruct (N.leb_spec 7 (B - c)) as [_|Hlt]; [|lia].
    rewrite Hpad in *. cbn [app] in HS.
    rewrite (read_frame_here S k c pre t fp post HS) by lia.
    eexists. split; [reflexivity|].
    exists k, (c + 7 + lenN fp). rewrite (@lenN_nil byte). repeat split; lia.
Qed.

Lemma chunk_le_maxw a p : lenN (takeN (chunk_of a p) p) <= max_writable P (B - a mod B).
Proof. rewrite lenN_take_chunk. unfold chunk_of. lia. Qed.

(* the record lemma: reading back what write_record emitted *)
Lemma go_next_record a f p e k :
  enc_rel a f p e k ->
  forall S pre post fr rbuf within fuel,
    stream_ok S -> at_pos S fr a -> S = pre ++ e ++ post -> lenN pre = a ->
    (f = true \/ within = true) -> (k <= fuel)%nat ->
    exists fr',
      gonext fuel (mkRR fr rbuf within) =
        (mkRR fr' ((if f then [] else rbuf) ++ p) false, RRecord) /\
      at_pos S fr' (a + lenN e).
Proof.
  induction 1 as [a f p Hd | a f p e k Hd Hr IH];
    intros S pre post fr rbuf within fuel Hok Hat HS Hpre Hfw Hfuel.
  - destruct fuel as [|fuel]; [lia|].
    rewrite <- app_assoc in HS.
    destruct (read_frame_at S fr a pre _ _ post Hok Hat HS Hpre (chunk_le_maxw a p))
      as (fr' & Hrf & Hat').
    cbn [go_next rr_fr rr_buf rr_within]. rewrite Hrf.
    rewrite is_first_frame_type, is_last_frame_type.
    assert (Hw : (if f then true else within) = true)
      by (destruct f; [reflexivity | destruct Hfw as [Hf|Hw]; [discriminate|exact Hw]]).
    rewrite Hw.
    exists fr'. split.
    + pose proof (takeN_dropN (chunk_of a p) p) as Htd. rewrite Hd, app_nil_r in Htd.
      rewrite Htd. reflexivity.
    + rewrite lenN_app, lenN_frame_bytes.
      replace (a + (lenN (pad_of a) + (7 + lenN (takeN (chunk_of a p) p))))
        with (a + lenN (pad_of a) + 7 + lenN (takeN (chunk_of a p) p)) by lia.
      exact Hat'.
  - destruct fuel as [|fuel]; [lia|].
    rewrite <- !app_assoc in HS.
    destruct (read_frame_at S fr a pre _ _ (e ++ post) Hok Hat HS Hpre (chunk_le_maxw a p))
      as (fr' & Hrf & Hat').
    cbn [go_next rr_fr rr_buf rr_within]. rewrite Hrf.
    rewrite is_first_frame_type, is_last_frame_type.
    assert (Hw : (if f then true else within) = true)
      by (destruct f; [reflexivity | destruct Hfw as [Hf|Hw]; [discriminate|exact Hw]]).
    rewrite Hw.
    set (fb := frame_bytes P (frame_type f false) (takeN (chunk_of a p) p)) in *.
    rewrite lenN_take_chunk in Hat'.
    destruct (IH S (pre ++ pad_of a ++ fb) post fr'
                ((if f then [] else rbuf) ++ takeN (chunk_of a p) p) true fuel) as (fr'' & Hgo & Hat'').
    + exact Hok.
    + exact Hat'.
    + rewrite HS, <- !app_assoc. reflexivity.
    + rewrite !lenN_app. unfold fb. rewrite lenN_frame_bytes, lenN_take_chunk. lia.
    + right; reflexivity.
    + lia.
    + exists fr''. split.
      * rewrite Hgo. cbn match. rewrite <- app_assoc, takeN_dropN. reflexivity.
      * rewrite !lenN_app. unfold fb. rewrite lenN_frame_bytes, lenN_take_chunk.
        replace (a + (lenN (pad_of a) + (7 + chunk_of a p + lenN e)))
          with (a + lenN (pad_of a) + 7 + chunk_of a p + lenN e) by lia.
        exact Hat''.
Qed.

(* ---------- a sequence of entries ---------- *)
Inductive encs_rel : N -> list bytes -> bytes -> Prop :=
| ES_nil a : encs_rel a [] []
| ES_cons a p ps e k t :
    enc_rel a true p e k -> encs_rel (a + lenN e) ps t -> encs_rel a (p :: ps) (e ++ t).

Lemma encs_rel_len a es t : encs_rel a es t -> 7 * N.of_nat (length es) <= lenN t.
Proof.
  induction 1 as [a | a p ps e k t He Hes IH].
  - cbn [length]. rewrite (@lenN_nil byte). lia.
  - apply enc_rel_frames in He. cbn [length]. rewrite lenN_app. lia.
Qed.

Lemma mem_write_all_spec entries : forall w,
  exists ns t,
    mem_write_all P w entries = (mkVecW (vw_cursor w + lenN t) (vw_buf w ++ t), ns) /\
    encs_rel (vw_cursor w) entries t /\
    length ns = length entries /\
    fold_right N.add 0 ns = lenN t.
Proof.
  induction entries as [|p ps IH]; intros w.
  - exists [], []. cbn [mem_write_all]. rewrite (@lenN_nil byte), N.add_0_r, app_nil_r.
    destruct w as [c b]. cbn [vw_cursor vw_buf]. repeat split. constructor.
  - cbn [mem_write_all].
    destruct (write_record_vecw w p) as (e & k & Hrel & Hwr). rewrite Hwr.
    destruct (IH (mkVecW (vw_cursor w + lenN e) (vw_buf w ++ e))) as (ns & t & Hall & Hes & Hlen & Hsum).
    rewrite Hall. cbn [vw_cursor vw_buf] in *.
    exists (lenN e :: ns), (e ++ t). repeat split.
    + rewrite lenN_app, <- app_assoc. f_equal. f_equal. lia.
    + econstructor; eassumption.
    + cbn [length]. now rewrite Hlen.
    + cbn [fold_right]. rewrite Hsum, lenN_app. reflexivity.
Qed.

Lemma read_all_entries a es t :
  encs_rel a es t ->
  forall S pre post rr gofuel fuel2,
    stream_ok S -> at_pos S (rr_fr rr) a -> S = pre ++ t ++ post -> lenN pre = a ->
    lenN t <= 7 * N.of_nat gofuel ->
    exists rr',
      at_pos S (rr_fr rr') (a + lenN t) /\
      mem_read_all P (length es + fuel2) gofuel rr =
        map MrEntry es ++ mem_read_all P fuel2 gofuel rr'.
Proof.
  induction 1 as [a | a p ps e k t He Hes IH];
    intros S pre post rr gofuel fuel2 Hok Hat HS Hpre Hgf.
  - exists rr. rewrite (@lenN_nil byte), N.add_0_r. split; [exact Hat|reflexivity].
  - destruct rr as [fr rbuf within]. cbn [rr_fr] in Hat.
    rewrite <- app_assoc in HS. rewrite lenN_app in Hgf.
    pose proof (enc_rel_frames _ _ _ _ _ He) as [Hk _].
    destruct (go_next_record a true p e k He S pre (t ++ post) fr rbuf within gofuel
                Hok Hat HS Hpre) as (fr' & Hgo & Hat'); [left; reflexivity | lia |].
    destruct (IH S (pre ++ e) post (mkRR fr' ([] ++ p) false) gofuel fuel2) as (rr' & Hat'' & Hrd).
    + exact Hok.
    + exact Hat'.
    + rewrite HS, <- app_assoc. reflexivity.
    + rewrite lenN_app. lia.
    + lia.
    + exists rr'. split.
      * rewrite lenN_app. replace (a + (lenN e + lenN t)) with (a + lenN e + lenN t) by lia.
        exact Hat''.
      * cbn [length Nat.add mem_read_all map app]. rewrite Hgo. cbn [rr_buf].
        rewrite Hrd. reflexivity.
Qed.

(* ---------- end of the log ---------- *)
Lemma slice_zero written z lo hi :
  lenN written <= lo -> all_zero (sliceN lo hi (written ++ zerosN z)) = true.
Proof.
  intros H. unfold sliceN. rewrite dropN_app_ge by exact H.
  apply all_zero_takeN, all_zero_dropN, all_zero_zerosN.
Qed.

Lemma read_frame_zero S k c :
  7 <= B - c ->
  all_zero (sliceN c (c + 7) (sliceN (k * B) ((k + 1) * B) S)) = true ->
  rframe (rd_at S k c) = (rd_at S k c, FNotAvail).
Proof.
  intros Hc Hz. unfold read_frame, rd_at, HEADER_LEN. cbn [fr_corrupt fr_cursor fr_rd orb vr_block].
  destruct (N.ltb_spec (B - c) 7) as [Hlt|_]; [lia|].
  cbn [fr_corrupt fr_cursor fr_rd orb vr_block]. rewrite Hz. reflexivity.
Qed.

Lemma read_frame_end S written z nb fr :
  S = written ++ zerosN z -> lenN S = (nb + 1) * B -> lenN written <= nb * B ->
  at_pos S fr (lenN written) ->
  exists fr', rframe fr = (fr', FNotAvail).
Proof.
  intros HS HlenS Hnb (k & c & Ha & Hc & Hblk & Hfr). subst fr.
  destruct (N.ltb_spec (B - c) 7) as [Hskip|Hno].
  - assert (Hroom : (k + 1) * B <= nb * B) by (apply (blocks_room nb k c); lia).
    rewrite read_frame_skip by lia.
    rewrite read_frame_zero; [eexists; reflexivity | lia |].
    rewrite sliceN_sliceN by lia. rewrite HS. apply slice_zero. lia.
  - rewrite read_frame_zero; [eexists; reflexivity | lia |].
    rewrite sliceN_sliceN by lia. rewrite HS. apply slice_zero. lia.
Qed.

Lemma mem_stream_shape written :
  exists z nb, mem_stream P written = written ++ zerosN z /\
               lenN (mem_stream P written) = (nb + 1) * B /\ lenN written <= nb * B.
Proof.
  unfold mem_stream.
  set (total := lenN written). set (nb := (total + B - 1) / B).
  exists ((nb + 1) * B - total), nb.
  assert (Hnb : total <= nb * B).
  { pose proof (N.div_mod (total + B - 1) B) as Hdm.
    pose proof (mod_lt_B (total + B - 1)) as Hlt. fold nb in Hdm. clearbody nb.
    set (r := (total + B - 1) mod B) in *. clearbody r. lia. }
  split; [reflexivity|]. split; [|exact Hnb].
  rewrite lenN_app, lenN_zerosN. fold total. lia.
Qed.

Lemma read_all_end rr fr' f gofuel :
  rframe (rr_fr rr) = (fr', FNotAvail) -> (1 <= gofuel)%nat ->
  mem_read_all P (Datatypes.S f) gofuel rr = [MrEnd].
Proof.
  intros Hrf Hg. destruct gofuel as [|g]; [lia|].
  cbn [mem_read_all go_next]. rewrite Hrf. reflexivity.
Qed.

Theorem mem_roundtrip_ok : forall entries,
  exists ns written,
    mem_roundtrip P entries = (ns, written, map MrEntry entries ++ [MrEnd]) /\
    length ns = length entries /\
    fold_right N.add 0 ns = lenN written.
Proof.
  intros entries. unfold mem_roundtrip.
  destruct (mem_write_all_spec entries (mkVecW 0 [])) as (ns & t & Hall & Hes & Hlen & Hsum).
  rewrite Hall. cbn [vw_cursor vw_buf app] in *.
  exists ns, t. split; [|split; assumption].
  f_equal.
  destruct (mem_stream_shape t) as (z & nb & Hshape & HlenS & Hnb).
  set (S := mem_stream P t) in *.
  assert (Hok : stream_ok S) by (exists (nb + 1); exact HlenS).
  assert (HtS : lenN t <= lenN S) by (rewrite Hshape, lenN_app; lia).
  pose proof (encs_rel_len _ _ _ Hes) as Hcount.
  set (fuel := N.to_nat (lenN S / HEADER_LEN + lenN S / B + 4)).
  assert (Hfuel : 7 * N.of_nat (length entries) + 7 <= 7 * N.of_nat fuel /\ lenN t <= 7 * N.of_nat fuel).
  { unfold fuel, HEADER_LEN. pose proof (N.div_mod (lenN S) 7) as Hdm.
    pose proof (N.mod_lt (lenN S) 7) as Hlt.
    set (r := lenN S mod 7) in *. clearbody r. nodiv. lia. }
  destruct Hfuel as [Hf1 Hf2].
  set (rr0 := rr_open vecr (mkVecR (dropN B S) (takeN B S))).
  assert (Hat0 : at_pos S (rr_fr rr0) 0).
  { exists 0, 0. repeat split; try lia.
    unfold rr0, rr_open, fr_open, rd_at. cbn [rr_fr]. unfold sliceN.
    replace ((0 + 1) * B) with B by lia. replace (0 * B) with 0 by lia.
    rewrite dropN_0, N.sub_0_r. reflexivity. }
  clearbody fuel.
  assert (Hsplit : fuel = (length entries + Datatypes.S (fuel - length entries - 1))%nat) by lia.
  rewrite Hsplit at 1.
  destruct (read_all_entries 0 entries t Hes S [] (zerosN z) rr0 fuel
              (Datatypes.S (fuel - length entries - 1)) Hok Hat0) as (rr' & Hat' & Hrd).
  - rewrite Hshape. reflexivity.
  - reflexivity.
  - exact Hf2.
  - rewrite Hrd. f_equal. rewrite N.add_0_l in Hat'.
    destruct (read_frame_end S t z nb (rr_fr rr') Hshape HlenS Hnb Hat') as (fr' & Hrf).
    apply (read_all_end _ fr'); [exact Hrf | lia].
Qed.

End C07.

Print Assumptions write_record_never_fails.
Print Assumptions write_record_count.
Print Assumptions mem_roundtrip_ok.
Check mem_roundtrip_ok.
