(* RestartWrite.v — (2) of task T4a: writing one entry preserves the restart invariant.
   Physical side (pinv_write): the rolling writer over the kept files is the in-memory writer
   over the ghost stream (FileStream.write_record_file_sim with offsets relative to the first
   kept file).  Logical side (linv_apply): the tagged replay, coverage and legality. *)
From Coq Require Import Lia ZArith ZifyN ZifyNat ZifyBool List Sorted.
From MRL Require Import Bytes BytesProofs Params Names NamesProofs Frame Record Mem Spec Rolling Log
  Driver SpecRefine RecordProofs StreamProofs PolicyProofs GcProofs GhostLog ReplaySpec
  HandleProofs FileStream ResyncProofs RestartInv.

Arguments N.add : simpl never.
Arguments N.sub : simpl never.
Arguments N.mul : simpl never.
Arguments N.eqb : simpl never.
Arguments N.ltb : simpl never.
Arguments N.leb : simpl never.
Arguments N.div : simpl never.
Arguments N.modulo : simpl never.
Arguments N.min : simpl never.
Arguments N.max : simpl never.

(* ====================================================================== *)
(* 0. the ghost extended by one entry; the logical side (no parameters)    *)
(* ====================================================================== *)

Definition gh_snoc (G : ghost) (f : N) (e : entry) : ghost :=
  mkGhost (gh_base G) (gh_dropped G) (gh_pre G) (gh_E G ++ [(f, e)]).

Lemma gh_snoc_log G f e : gh_log (gh_snoc G f e) = gh_log G ++ [(f, e)].
Proof. unfold gh_log, gh_snoc. cbn [gh_pre gh_E]. now rewrite app_assoc. Qed.

Lemma gh_snoc_ALL G f e : gh_ALL (gh_snoc G f e) = gh_ALL G ++ [e].
Proof.
  unfold gh_ALL. rewrite gh_snoc_log, map_app. cbn [map snd gh_snoc gh_dropped].
  now rewrite app_assoc.
Qed.

Lemma gh_snoc_ser G f e : gh_ser (gh_snoc G f e) = gh_ser G ++ [entry_ser e].
Proof. unfold gh_ser. now rewrite gh_snoc_ALL, map_app. Qed.

Lemma gh_snoc_before G f e : gh_before (gh_snoc G f e) = gh_before G.
Proof. reflexivity. Qed.

Lemma gh_snoc_k G f e : gh_k (gh_snoc G f e) = gh_k G.
Proof. reflexivity. Qed.


(* ====================================================================== *)
(* 0'. the logical side of one entry                                       *)
(* ====================================================================== *)

Lemma legal_log_snoc : forall es m i e,
  legal_log m i es -> (forall m', t_replay m i es = Some m' -> legal m' e) ->
  legal_log m i (es ++ [e]).
Proof.
  induction es as [|x es IH]; intros m i e Hl He.
  - cbn [app]. apply ll_cons; [apply He; reflexivity|]. intros m' _. apply ll_nil.
  - destruct (legal_log_cons_inv _ _ _ _ Hl) as (Hx & m1 & E1 & Hl1).
    cbn [app]. apply ll_cons; [exact Hx|]. intros m' Em'. rewrite E1 in Em'. inversion Em'; subst m'.
    apply IH; [exact Hl1|]. intros m2 E2. apply He. cbn [t_replay]. now rewrite E1.
Qed.

(* where the records of a queue come from *)
Lemma q_apply_origin v i e rf' n' r :
  q_apply v i e = Some (Some (rf', n')) -> In r rf' ->
  (exists rf n, v = Some (rf, n) /\ In r rf) \/ (fst r = i /\ creates e (entry_queue e) = true).
Proof.
  destruct e as [q pos recs|q p|q p|q p]; cbn [q_apply]; intros H Hin.
  - destruct (match v with Some v0 => v0 | None => ([], pos) end) as [old next] eqn:Ev.
    rewrite t_append_all_eq in H. destruct (chk_pos next recs) as [nn|]; [|discriminate].
    inversion H; subst. apply in_app_or in Hin. destruct Hin as [Hin|Hin].
    + left. destruct v as [[rf n]|]; inversion Ev; subst; [|contradiction]. now exists old, next.
    + right. unfold tag_with in Hin. apply in_map_iff in Hin. destruct Hin as (x & <- & _).
      split; [reflexivity|]. cbn [creates entry_queue]. apply bytes_eqb_refl.
  - destruct v as [[recs next]|]; inversion H; subst. left. exists recs, next. split; [reflexivity|].
    apply filter_In in Hin. tauto.
  - destruct v as [[recs next]|].
    + destruct (negb (isnil recs) || negb (next =? p)); inversion H; subst; [contradiction|].
      left. now exists rf', n'.
    + inversion H; subst. contradiction.
  - discriminate.
Qed.

Lemma t_apply_origin m i e m' q rf' n' r :
  t_apply m i e = Some m' -> t_get m' q = Some (rf', n') -> In r rf' ->
  (exists rf n, t_get m q = Some (rf, n) /\ In r rf) \/ (fst r = i /\ creates e q = true).
Proof.
  intros H Eq Hin. destruct (t_apply_some m i e m' H) as (Hq & Ho).
  destruct (bytes_eqb (entry_queue e) q) eqn:Eb.
  - apply bytes_eqb_eq in Eb. subst q. rewrite Eq in Hq.
    destruct (q_apply_origin _ _ _ _ _ _ Hq Hin) as [Hl|Hr]; [now left|now right].
  - apply bytes_eqb_neq in Eb. rewrite (Ho q Eb) in Eq. left. now exists rf', n'.
Qed.

(* a queue present after the entry was present before, or the entry creates it *)
Lemma t_apply_present m i e m' q :
  t_apply m i e = Some m' -> t_get m' q <> None ->
  t_get m q <> None \/ creates e q = true.
Proof.
  intros H Hp. destruct (t_apply_some m i e m' H) as (Hq & Ho).
  destruct (bytes_eqb (entry_queue e) q) eqn:Eb.
  - apply bytes_eqb_eq in Eb. subst q.
    destruct (creates e (entry_queue e)) eqn:Ec; [now right|left].
    intros En. rewrite En in Hq. apply Hp. exact (q_apply_none_stays _ _ _ Hq Ec).
  - apply bytes_eqb_neq in Eb. rewrite (Ho q Eb) in Hp. now left.
Qed.

Lemma creates_entry_queue e : match e with EAppend _ _ _ | EPosition _ _ => creates e (entry_queue e) = true
                                          | _ => True end.
Proof. destruct e; cbn [creates entry_queue]; try exact I; apply bytes_eqb_refl. Qed.

Lemma linv_apply qs lo G f e qs' :
  LInv qs lo G -> qs_wf qs' ->
  (forall F, t_replay [] 0 (gh_ALL G) = Some F -> legal F e) ->
  apply_entry qs f e = Some qs' -> lo <= f ->
  LInv qs' lo (gh_snoc G f e).
Proof.
  intros (_ & Hleg & Hrep & F & EF & Hcov) Hwf' Hlegal Hap Hlo.
  split; [exact Hwf'|]. split.
  { rewrite gh_snoc_ALL. apply legal_log_snoc; [exact Hleg|]. intros m' Em'. now apply Hlegal. }
  split.
  { rewrite gh_snoc_log, replay_app, Hrep. cbn [obind replay_entries]. now rewrite Hap. }
  destruct (legal_apply_some F (length (gh_ALL G)) e (Hlegal F EF)) as (F' & EF').
  exists F'. split.
  { rewrite gh_snoc_ALL, t_replay_app, EF. cbn [t_replay]. rewrite Nat.add_0_l, EF'. reflexivity. }
  assert (Elen : length (gh_ALL G) = (gh_k G + length (gh_E G))%nat).
  { rewrite gh_ALL_split, app_length, gh_before_length, map_length. reflexivity. }
  intros q rf' n' Eq. cbn [gh_snoc gh_E]. rewrite gh_snoc_k. split.
  - rewrite map_app, existsb_app. cbn [map snd existsb].
    destruct (t_apply_present F _ e F' q EF') as [Hp|Hc]; [rewrite Eq; discriminate| |].
    + destruct (t_get F q) as [[rf n]|] eqn:Eq0; [|contradiction].
      destruct (Hcov q rf n Eq0) as (Hc & _). now rewrite Hc.
    + rewrite Hc. now rewrite orb_true_r.
  - apply Forall_forall. intros r Hin.
    destruct (t_apply_origin F _ e F' q rf' n' r EF' Eq Hin) as [(rf & n & Eq0 & Hin0)|(Hi & Hcr)].
    + destruct (Hcov q rf n Eq0) as (_ & Hr). rewrite Forall_forall in Hr.
      destruct (Hr r Hin0) as (j & f0 & e0 & Ej & En & Hf0).
      exists j, f0, e0. split; [exact Ej|]. split; [|exact Hf0].
      rewrite nth_error_app1; [exact En|]. apply nth_error_Some. now rewrite En.
    + exists (length (gh_E G)), f, e. split; [lia|]. split; [|split; [exact Hlo|exact Hcr]].
      rewrite nth_error_app2 by lia. now rewrite Nat.sub_diag.
Qed.

Section RestartWrite.
Variable P : params.
Hypothesis HBS_lo : 7 < BS P.
Hypothesis HBS_hi : BS P <= 65542.
Hypothesis HNB : 1 <= NB P.
Hypothesis Hcrc : forall t p, crcf P t p < 2 ^ 32.

Local Notation B := (BS P).
Local Notation FB := (FILE_BYTES P).
Local Notation ffp := (first_frame_pos P).
Local Notation enc_of := (enc_of P).
Local Notation encs_of := (encs_of P).
Local Notation cursor_after := (cursor_after P).
Local Notation starts := (starts P).
Local Notation pad_of := (pad_of P).
Local Notation chunk_of := (chunk_of P).
Local Notation enc_rel := (enc_rel P).
Local Notation H3 f := (f P HBS_lo HBS_hi Hcrc) (only parsing).
Local Notation H2 f := (f P HBS_lo HBS_hi) (only parsing).
Local Notation PInv := (PInv P).
Local Notation LInv := (LInv).
Local Notation Inv := (Inv P).

Lemma HB0 : 0 < B. Proof. lia. Qed.
Lemma HB7 : HEADER_LEN <= B. Proof. unfold HEADER_LEN. lia. Qed.
Lemma FB_eq : FB = NB P * B. Proof. unfold FILE_BYTES. lia. Qed.

(* ====================================================================== *)
(* 1. the encoding depends on the cursor modulo the block size only       *)
(* ====================================================================== *)

Lemma pad_of_mod a a' : a' mod B = a mod B -> pad_of a' = pad_of a.
Proof. intros H. unfold StreamProofs.pad_of. now rewrite H. Qed.

Lemma chunk_of_mod a a' p : a' mod B = a mod B -> chunk_of a' p = chunk_of a p.
Proof. intros H. unfold StreamProofs.chunk_of. now rewrite H. Qed.

Lemma add_mod_congr a a' x : a' mod B = a mod B -> (a' + x) mod B = (a + x) mod B.
Proof.
  intros H. rewrite (N.add_mod a' x), (N.add_mod a x) by lia. now rewrite H.
Qed.

Lemma enc_rel_mod a f p e k :
  enc_rel a f p e k -> forall a', a' mod B = a mod B -> enc_rel a' f p e k.
Proof.
  induction 1 as [a f p Hd|a f p e k Hd Hr IH]; intros a' Hm.
  - rewrite <- (pad_of_mod a a' Hm), <- (chunk_of_mod a a' p Hm).
    apply ER_last. now rewrite (chunk_of_mod a a' p Hm).
  - rewrite <- (pad_of_mod a a' Hm), <- (chunk_of_mod a a' p Hm).
    apply ER_more; [now rewrite (chunk_of_mod a a' p Hm)|].
    rewrite (chunk_of_mod a a' p Hm). apply IH.
    rewrite (pad_of_mod a a' Hm). rewrite <- !N.add_assoc. now apply add_mod_congr.
Qed.

Lemma enc_of_mod a a' p : a' mod B = a mod B -> enc_of a' p = enc_of a p.
Proof.
  intros Hm. destruct (H3 enc_of_rel a p) as (k & Hr).
  exact (H3 enc_rel_enc_of a' p _ k (enc_rel_mod _ _ _ _ _ Hr a' Hm)).
Qed.

Lemma enc_of_shift d a p : d mod B = 0 -> enc_of (d + a) p = enc_of a p.
Proof.
  intros Hd. apply enc_of_mod. rewrite N.add_mod by lia. rewrite Hd, N.add_0_l.
  apply N.mod_mod. lia.
Qed.

Lemma mulFB_mod k : (k * FB) mod B = 0.
Proof. rewrite FB_eq, N.mul_assoc. apply N.mod_mul. lia. Qed.

(* ---------- a cursor between the end of the stream and the next first frame ---------- *)
Lemma ffp_between a c : a <= c -> c <= ffp a -> ffp c = ffp a.
Proof.
  intros Hac Hca. unfold first_frame_pos in *. rewrite !(lenN_pad_of P) in *.
  destruct (N.ltb_spec (B - a mod B) 7) as [Hp|Hp].
  - (* a is padded to the next block boundary *)
    pose proof (N.div_mod' a B) as Ea. pose proof (N.mod_lt a B ltac:(lia)) as Hr.
    destruct (N.eq_dec c (a + (B - a mod B))) as [->|Hne].
    + replace (a + (B - a mod B)) with ((a / B + 1) * B) by lia.
      rewrite N.mod_mul by lia.
      destruct (N.ltb_spec (B - 0) 7); lia.
    + assert (Ec : c mod B = a mod B + (c - a)).
      { replace c with ((a / B) * B + (a mod B + (c - a))) at 1 by lia.
        apply (H2 StreamProofs.mod_kc). lia. }
      rewrite Ec. destruct (N.ltb_spec (B - (a mod B + (c - a))) 7); lia.
  - assert (c = a) by lia. subst c.
    destruct (N.ltb_spec (B - a mod B) 7); lia.
Qed.

Lemma enc_of_between a c p : a <= c -> c <= ffp a -> zerosN (c - a) ++ enc_of c p = enc_of a p.
Proof.
  intros H1 H2c.
  rewrite (H3 enc_of_ffp_eq c p), (H3 enc_of_ffp_eq a p), !(H2 pad_of_zeros).
  rewrite (ffp_between a c H1 H2c), app_assoc, <- zerosN_app.
  do 2 f_equal. pose proof (H2 ffp_ge a). lia.
Qed.

Lemma enc_of_between_len a c p : a <= c -> c <= ffp a ->
  c + lenN (enc_of c p) = a + lenN (enc_of a p).
Proof.
  intros H1 H2c. rewrite <- (enc_of_between a c p H1 H2c), lenN_app, lenN_zerosN. lia.
Qed.

(* ---------- the ghost stream extended by one entry ---------- *)
Lemma encs_of_snoc es p :
  encs_of 0 (es ++ [p]) = encs_of 0 es ++ enc_of (lenN (encs_of 0 es)) p.
Proof.
  rewrite (H3 encs_of_app). cbn [ResyncProofs.encs_of]. rewrite app_nil_r, N.add_0_l. reflexivity.
Qed.

Lemma cursor_after_0 es : cursor_after 0 es = lenN (encs_of 0 es).
Proof. unfold ResyncProofs.cursor_after. lia. Qed.

Lemma cursor_after_snoc a es p :
  cursor_after a (es ++ [p]) = cursor_after a es + lenN (enc_of (cursor_after a es) p).
Proof.
  rewrite (H3 cursor_after_app), (H3 cursor_after_cons), (H2 cursor_after_nil). reflexivity.
Qed.

Lemma starts_snoc a es p :
  starts a (es ++ [p]) = starts a es ++ [(cursor_after a es, ffp (cursor_after a es))].
Proof. rewrite (H3 starts_app). reflexivity. Qed.

(* ====================================================================== *)
(* 2. the tracker keeps its first file across writes                      *)
(* ====================================================================== *)

Definition hd_inv (lo : N) (w : rwriter) : Prop := wr_ok w /\ hd_error (w_files w) = Some lo.

Lemma wr_ok_hd w : wr_ok w -> hd_error (w_files w) = Some (wlo w).
Proof.
  intros [Hc Hl]. unfold wlo. destruct (w_files w) as [|lo0 r] eqn:E; [contradiction|].
  cbn [contiguous] in Hc. destruct (chain_length r lo0 (w_file w) Hc Hl) as (Hn & Hle).
  cbn [hd_error]. f_equal. lia.
Qed.

Lemma hd_inv_wlo lo w : hd_inv lo w -> wlo w = lo.
Proof. intros [Hok Hh]. rewrite (wr_ok_hd w Hok) in Hh. now inversion Hh. Qed.

Lemma wr_write_hd lo w d w' r : wr_write P w d = (w', r) -> hd_inv lo w -> hd_inv lo w'.
Proof.
  intros H [Hok Hh]. split; [exact (wr_write_ok P w d w' r H Hok)|].
  revert H. unfold wr_write. destruct d as [|b d'] eqn:Ed.
  - intros H; inversion H; subst. exact Hh.
  - rewrite <- Ed. clear Ed b d'.
    set (w1 := sync_dir (sync_data (bw_flush w))).
    pose proof (presync_tracker w) as Hw1. fold w1 in Hw1. clearbody w1.
    destruct (FILE_BYTES P <? w_off w + lenN d).
    + intros H.
      assert (Hok1 : wr_ok w1) by (eapply same_tracker_ok; eassumption).
      destruct Hw1 as [Hfs Hf].
      rewrite (wr_ok_tracker_next _ Hok1) in H.
      destruct (create_file P (w_ctx w1) (w_file w1 + 1)) as [c [[]|e]];
        inversion H; subst; clear H.
      * destruct (bw_write_all_tracker P
                    (mkWr c (insert_sorted (w_file w1 + 1) (w_files w1)) (w_file w1 + 1) 0 []) d)
          as [H1 _].
        cbn [w_files] in H1. rewrite H1. destruct Hok1 as [Hc Hl].
        rewrite Hfs in *. destruct (w_files w) as [|lo0 r0] eqn:E; [contradiction|].
        cbn [contiguous] in Hc. rewrite (insert_sorted_last r0 lo0 (w_file w1) Hc Hl).
        exact Hh.
      * cbn [w_files]. now rewrite Hfs.
    + intros H; inversion H; subst. destruct (bw_write_all_tracker P w d) as [H1 _].
      now rewrite H1.
Qed.

Lemma write_record_hd lo w p w' r :
  write_record P rwriter (wr_write P) (wr_rem P) w p = (w', r) -> hd_inv lo w -> hd_inv lo w'.
Proof.
  apply (write_record_inv P rwriter (wr_write P) (wr_rem P) (hd_inv lo)).
  intros w0 d w0' r0. apply wr_write_hd.
Qed.

(* ====================================================================== *)
(* 3. the physical side of one write                                      *)
(* ====================================================================== *)

Lemma gh_snoc_T G f e :
  gh_T P (gh_snoc G f e) = gh_T P G ++ enc_of (lenN (gh_T P G)) (entry_ser e).
Proof. unfold gh_T. now rewrite gh_snoc_ser, encs_of_snoc. Qed.

Lemma gh_snoc_ser_E G f e : gh_ser_E (gh_snoc G f e) = gh_ser_E G ++ [entry_ser e].
Proof. unfold gh_ser_E, gh_snoc. cbn [gh_E]. now rewrite !map_app. Qed.

(* the cursor at the end of E is the end of the ghost stream *)
Lemma gh_end_cursor G : cursor_after (gh_a0 P G) (gh_ser_E G) = lenN (gh_T P G).
Proof.
  unfold gh_a0, gh_T. rewrite <- (H3 cursor_after_app), <- gh_ser_split. apply cursor_after_0.
Qed.

(* the premise of a write: the stream stays below 2^64 files *)
Definition stream_bound (G : ghost) (extra : list entry) : Prop :=
  FB * gh_base G + cursor_after 0 (map entry_ser (gh_ALL G ++ extra)) <= FB * (U64_MAX + 1).

Lemma stream_bound_prefix G x y : stream_bound G (x ++ y) -> stream_bound G x.
Proof.
  unfold stream_bound. rewrite app_assoc, map_app, (H3 cursor_after_app).
  pose proof (H3 cursor_after_ge (map entry_ser y) (cursor_after 0 (map entry_ser (gh_ALL G ++ x)))).
  lia.
Qed.

Lemma stream_bound_snoc G f e x :
  stream_bound G (e :: x) -> stream_bound (gh_snoc G f e) x.
Proof.
  unfold stream_bound. rewrite gh_snoc_ALL, <- app_assoc. cbn [app gh_snoc gh_base]. trivial.
Qed.

Lemma pinv_write w G e w' r :
  PInv w G -> wf_entry e -> stream_bound G [e] ->
  write_record P rwriter (wr_write P) (wr_rem P) w (entry_ser e) = (w', r) ->
  (exists n, r = Ok n) /\ wlo w' = wlo w /\ w_file w <= w_file w' /\
  PInv w' (gh_snoc G (w_file w) e).
Proof.
  intros (Hw & Hwd & Hnd & Hbase & Hc1 & Hc2 & Hs & HW & HD1 & HD2 & Htags) Hwf Hbound Hwr.
  cbn zeta in *.
  set (p := entry_ser e) in *.
  set (dl := wlo w - gh_base G) in *.
  set (T := gh_T P G) in *. set (a := lenN T) in *.
  set (n := lenN (w_files w)) in *.
  set (c := dl * FB + wpos P w) in *.
  pose proof Hw as (Hok & Hwf' & Hoff & _).
  destruct (wr_ok_len P HB0 HNB w Hok) as (Hn & Hn1). fold n in Hn, Hn1.
  pose proof (lenN_wstream P w Hw) as HlenS. fold n in HlenS.
  assert (Hpos : wpos P w = (n - 1) * FB + w_off w) by reflexivity.
  assert (Hposn : wpos P w <= n * FB) by nia.
  assert (Hcn : c <= (dl + n) * FB) by (unfold c; nia).
  (* the reference writer, relative to the first kept file *)
  set (buf := takeN (wpos P w) (wstream w)).
  assert (Ebuf : buf = dropN (dl * FB) (T ++ zerosN (c - a))).
  { unfold buf. rewrite Hs.
    replace (wpos P w) with (dl * FB + wpos P w - dl * FB) by lia.
    rewrite <- dropN_takeN. f_equal. fold c.
    rewrite takeN_app_ge by (fold a; lia). fold a. f_equal.
    apply takeN_zerosN. lia. }
  assert (Eenc : enc_of (wpos P w) p = enc_of c p).
  { unfold c. symmetry. apply enc_of_shift. apply mulFB_mod. }
  set (enc := enc_of c p) in *.
  assert (Elen : c + lenN enc = a + lenN (enc_of a p)) by (apply enc_of_between_len; assumption).
  assert (Ebound : FB * gh_base G + (a + lenN (enc_of a p)) <= FB * (U64_MAX + 1)).
  { unfold stream_bound in Hbound. rewrite map_app in Hbound. cbn [map] in Hbound.
    fold p in Hbound. rewrite cursor_after_snoc, cursor_after_0 in Hbound. exact Hbound. }
  set (M := wpos P w + lenN enc).
  set (v := mkVecW (wpos P w) buf).
  assert (Hsim : wsim P M w v).
  { unfold v. split; [exact Hw|]. split; [reflexivity|]. split.
    { cbn [vw_buf vw_cursor]. unfold buf. rewrite lenN_takeN, HlenS. lia. }
    split.
    { cbn [vw_buf]. rewrite <- (takeN_dropN (wpos P w) (wstream w)) at 1. fold buf. f_equal.
      rewrite Hs, dropN_dropN. fold c. rewrite dropN_app_ge by (fold a; lia). fold a.
      rewrite dropN_zerosN. fold n. f_equal. lia. }
    unfold M. replace (wlo w) with (gh_base G + dl) by lia. unfold c in Elen. nia. }
  assert (HG : Gv M (fst (write_record P vecw vw_write (vw_rem P) v p))).
  { rewrite (H3 write_record_enc_of). unfold Gv, v. cbn [fst vw_cursor].
    rewrite Eenc. unfold M. lia. }
  destruct (write_record_file_sim P HB0 HNB M w v p HB7 Hsim HG) as (Er & Hsim').
  rewrite Hwr in Er, Hsim'. rewrite (H3 write_record_enc_of) in Er, Hsim'.
  unfold v in Er, Hsim'. cbn [fst snd vw_cursor vw_buf] in Er, Hsim'. rewrite Eenc in Er, Hsim'.
  destruct Hsim' as (Hw' & Hcur' & _ & Hs' & _). cbn [vw_cursor vw_buf] in Hcur', Hs'.
  (* the tracker *)
  pose proof (write_record_hd (wlo w) w p w' r Hwr (conj Hok (wr_ok_hd w Hok))) as Hhd.
  pose proof (hd_inv_wlo _ _ Hhd) as Elo.
  destruct (write_record_wr_step P w p w' r Hwr Hok) as (Hok' & Hmono).
  destruct (wr_ok_len P HB0 HNB w' Hok') as (Hn' & Hn1').
  set (n' := lenN (w_files w')) in *.
  split; [eexists; exact Er|]. split; [exact Elo|]. split; [exact Hmono|].
  unfold RestartInv.PInv. cbn zeta. rewrite Elo. fold dl.
  rewrite gh_snoc_T. fold T. fold a. cbn [gh_snoc gh_base].
  assert (ET' : lenN (T ++ enc_of a p) = dl * FB + wpos P w').
  { rewrite lenN_app. fold a. unfold c in Elen. lia. }
  split; [exact Hw'|].
  split; [exact (write_record_inv P rwriter (wr_write P) (wr_rem P) wd_ok (wr_write_wd_ok P) w p w' r Hwr Hwd)|].
  split; [exact (write_record_inv P rwriter (wr_write P) (wr_rem P) (nd) (wr_write_nd P) w p w' r Hwr Hnd)|].
  split; [exact Hbase|].
  fold p. fold dl. fold n'. split; [rewrite ET'; lia|]. split; [rewrite ET'; apply (H2 ffp_ge)|].
  split.
  { rewrite Hs'. fold n'. rewrite dropN_app_le by lia. f_equal; [|f_equal; lia].
    rewrite Ebuf. rewrite <- (enc_of_between a c p Hc1 Hc2). fold enc.
    rewrite (app_assoc T). rewrite (dropN_app_le (dl * FB) (T ++ zerosN (c - a))); [reflexivity|].
    rewrite lenN_app, lenN_zerosN. fold a. unfold c. lia. }
  split; [rewrite gh_snoc_ALL; apply Forall_app; split; [exact HW|constructor; [exact Hwf|constructor]]|].
  split; [exact HD1|].
  split.
  { fold (gh_snoc G (w_file w) e). rewrite gh_snoc_ser_E. fold p.
    change (gh_a0 P (gh_snoc G (w_file w) e)) with (gh_a0 P G).
    rewrite starts_snoc, gh_end_cursor. fold T. fold a.
    apply Forall2_app_one; [exact HD2|]. cbn [fst snd].
    split; [unfold c in Hc2; lia|].
    replace (w_file w - gh_base G) with (dl + (n - 1)) by lia.
    unfold c in Hc2. nia. }
  fold (gh_snoc G (w_file w) e). rewrite gh_snoc_log.
  eapply tags_mono_app; [exact Htags|]. cbn [tags_mono]. lia.
Qed.

(* ====================================================================== *)
(* 5. (2) writing one entry                                               *)
(* ====================================================================== *)

Lemma winv_wlo_le w : winv P w -> wlo w <= w_file w.
Proof. intros (Hok & _). destruct (wr_ok_len P HB0 HNB w Hok). lia. Qed.

Theorem inv_write_entry st G e st1 r qs' :
  Inv st G -> wf_entry e -> stream_bound G [e] ->
  (forall F, t_replay [] 0 (gh_ALL G) = Some F -> legal F e) ->
  write_entry P st e = (st1, r) ->
  apply_entry (s_qs st) (w_file (s_wr st)) e = Some qs' -> qs_wf qs' ->
  (exists n, r = Ok n) /\ s_qs st1 = s_qs st /\ s_pol st1 = s_pol st /\
  wlo (s_wr st1) = wlo (s_wr st) /\ w_file (s_wr st) <= w_file (s_wr st1) /\
  Inv (set_qs st1 qs') (gh_snoc G (w_file (s_wr st)) e).
Proof.
  intros (HP & HL) Hwf Hb Hleg Hwr Hap Hwf'. unfold write_entry in Hwr.
  destruct (write_record P rwriter (wr_write P) (wr_rem P) (s_wr st) (entry_ser e)) as [w1 r1] eqn:Ew.
  inversion Hwr; subst st1 r. clear Hwr.
  destruct (pinv_write _ _ _ _ _ HP Hwf Hb Ew) as (Hr & Elo & Hmono & HP').
  split; [exact Hr|]. split; [reflexivity|]. split; [reflexivity|].
  cbn [set_wr s_wr]. split; [exact Elo|]. split; [exact Hmono|].
  split; cbn [set_qs set_wr s_wr s_qs]; [exact HP'|]. rewrite Elo.
  apply (linv_apply _ _ _ _ _ _ HL Hwf' Hleg Hap).
  destruct HP as (Hw & _). now apply winv_wlo_le.
Qed.

End RestartWrite.

Print Assumptions pinv_write.
Print Assumptions linv_apply.
Print Assumptions inv_write_entry.
